(* C01 outside the class lib_ok_b ("wild" LIB declarations): c01_full is REFUTED on the model -- its
   re-feed clause fails.  Statements in Spec/C01_Wild_Spec.v.  The real Forkable delivers exactly the events of
   Example c01_wild_trace (notes_proof_T1/wild_lib_test.go, TestT1WildLibRefeedDelivers). *)
From BV Require Import Base.Prelude Model.Block Model.ForkDB Model.Forkable Spec.Consumer Spec.Universe
  Spec.C01_Spec Spec.C01_Moving_Spec Spec.C01_Roots_Spec Spec.C01_Wild_Spec.
Local Open Scope N_scope.

(* Witness 1.  LIB r0 = (1, 10) exclusive, keptFinalBlocks = 2, all-blocks-trigger, first streamable block 12.
     B = (3, num 12, parent 2, lib 10)   stored, not linkable yet
     A = (2, num 11, parent 1, lib 14)   New A; BlockInCurrentChain((2,11), 14) = (2, 14): LIB := (2, 14)
     X = (5, num 13, parent 3, lib 10)   13 < 14 and something was sent: dropped, not stored
     C = (4, num 14, parent 3, lib 12)   New B, New C; LIB := (3, 12): the LIB number DEcreases
     X again                             13 >= 12: processed as a new block: Undo C, New X *)
Definition wl_cfg : config := mkCfg 12 false false 2 true (mkFilter true true true true) None.
Definition wl_r0 : ref := mkR 1 10.
Definition wl_A : block := mkBlock 2 11 1 14.
Definition wl_B : block := mkBlock 3 12 2 10.
Definition wl_X : block := mkBlock 5 13 3 10.
Definition wl_C : block := mkBlock 4 14 3 12.
Definition wl_hist : list block := [wl_B; wl_A; wl_X; wl_C; wl_X].
Definition wl_show (t : trace) := map (fun x => (map (fun e => (estep e, bid (eblk e))) (fst x), snd x)) t.

Example c01_wild_trace :
  wl_show (fk_run wl_cfg (fs_init (LExcl wl_r0)) wl_hist) =
    [ ([], ROk); ([(SNew, 2); (SIrr, 2)], ROk); ([], ROk); ([(SNew, 3); (SNew, 4); (SIrr, 3)], ROk);
      ([(SUndo, 4); (SNew, 5)], ROk) ] /\
  map (fun s => libref (db s)) (fk_states wl_cfg (fs_init (LExcl wl_r0)) wl_hist) =
    [ mkR 1 10; mkR 2 14; mkR 2 14; mkR 3 12; mkR 3 12 ].
Proof. vm_compute. split; reflexivity. Qed.

Theorem c01_wild_refeed_witness : c01_wild_refeed_refuted.
Proof.
  exists wl_cfg, wl_r0, wl_hist. vm_compute.
  repeat split; try reflexivity; try discriminate; repeat constructor.
Qed.
Print Assumptions c01_wild_refeed_witness.

(* c01_full of Spec/C01_Spec.v does not hold for the model *)
Theorem c01_wild_lib_refuted : exists cfg m h, c01_scope cfg m h /\ ~ c01_statement cfg m h.
Proof.
  exists wl_cfg, (LExcl wl_r0), wl_hist. split.
  - vm_compute. repeat split; reflexivity.
  - intros (_ & H & _). vm_compute in H. discriminate.
Qed.
Print Assumptions c01_wild_lib_refuted.

(* Witness 2: incoherent configured LIB r0 = (1, 2) whose child 2 has height 0; first streamable 0, kept 0.
     (2, num 0, parent 1, lib 2)   New 2 (nothing sent yet: not dropped); LIB stays (1, 2)
     (3, num 1, parent 2, lib 1)   1 < 2: dropped
     (4, num 2, parent 2, lib 0)   New 4; LIB := (2, 0): the LIB number decreases
     (3, ...) again                Undo 4, New 3 (and Irreversible 3: it declares its own height) *)
Definition il_cfg : config := mkCfg 0 false false 0 true (mkFilter true true true true) None.
Definition il_r0 : ref := mkR 1 2.
Definition il_hist : list block := [mkBlock 2 0 1 2; mkBlock 3 1 2 1; mkBlock 4 2 2 0; mkBlock 3 1 2 1].

Example c01_incoherent_trace :
  wl_show (fk_run il_cfg (fs_init (LExcl il_r0)) il_hist) =
    [ ([(SNew, 2)], ROk); ([], ROk); ([(SNew, 4); (SIrr, 2)], ROk); ([(SUndo, 4); (SNew, 3); (SIrr, 3)], ROk) ].
Proof. vm_compute. reflexivity. Qed.

Theorem c01_incoherent_lib_refeed_witness : c01_incoherent_lib_refeed_refuted.
Proof.
  exists il_cfg, il_r0, il_hist. vm_compute.
  repeat split; try reflexivity; try discriminate; repeat constructor.
Qed.
Print Assumptions c01_incoherent_lib_refeed_witness.
