(* C01 outside the class lib_ok_b ("wild" LIB declarations): c01_full is REFUTED on the model -- its
   re-feed clause fails.  Statements in Spec/C01_Wild_Spec.v.  The real Forkable delivers exactly the events of
   Example c01_wild_trace (notes_proof_T1/wild_lib_test.go, TestT1WildLibRefeedDelivers). *)
From BV Require Import Base.Prelude Model.Block Model.ForkDB Model.Forkable Spec.Consumer Spec.Universe
  Spec.C01_Spec Spec.C01_Moving_Spec Spec.C01_Roots_Spec Spec.C01_Wild_Spec Proofs.C01_Wild_Proofs.
Local Open Scope N_scope.

(* Witness 1.  LIB r0 = (1, 10) exclusive, keptFinalBlocks = 2, all-blocks-trigger, first streamable block 12.
     B = (3, num 12, parent 2, lib 10)   stored, not linkable yet
     A = (2, num 11, parent 1, lib 14)   New A; BlockInCurrentChain((2,11), 14) = (2, 14): LIB := (2, 14)
     X = (5, num 13, parent 3, lib 10)   13 < 14 and something was sent: dropped, not stored
     C = (4, num 14, parent 3, lib 12)   New B, New C; LIB := (3, 12): the LIB number DEcreases
     X again                             13 >= 12: processed as a new block: Undo C, New X *)
Definition wl_cfg : config := mkCfg 12 false false 2 true (mkFilter true true true true) None.
Definition wl_r0 : ref := mkR 1 10.
Definition wl_A : block := mkBlock 2 11 1 14.
Definition wl_B : block := mkBlock 3 12 2 10.
Definition wl_X : block := mkBlock 5 13 3 10.
Definition wl_C : block := mkBlock 4 14 3 12.
Definition wl_hist : list block := [wl_B; wl_A; wl_X; wl_C; wl_X].
Definition wl_show (t : trace) := map (fun x => (map (fun e => (estep e, bid (eblk e))) (fst x), snd x)) t.

Example c01_wild_trace :
  wl_show (fk_run wl_cfg (fs_init (LExcl wl_r0)) wl_hist) =
    [ ([], ROk); ([(SNew, 2); (SIrr, 2)], ROk); ([], ROk); ([(SNew, 3); (SNew, 4); (SIrr, 3)], ROk);
      ([(SUndo, 4); (SNew, 5)], ROk) ] /\
  map (fun s => libref (db s)) (fk_states wl_cfg (fs_init (LExcl wl_r0)) wl_hist) =
    [ mkR 1 10; mkR 2 14; mkR 2 14; mkR 3 12; mkR 3 12 ].
Proof. vm_compute. split; reflexivity. Qed.

Theorem c01_wild_refeed_witness : c01_wild_refeed_refuted.
Proof.
  exists wl_cfg, wl_r0, wl_hist. vm_compute.
  repeat split; try reflexivity; try discriminate; repeat constructor.
Qed.
Print Assumptions c01_wild_refeed_witness.

(* c01_full of Spec/C01_Spec.v does not hold for the model *)
Theorem c01_wild_lib_refuted : exists cfg m h, c01_scope cfg m h /\ ~ c01_statement cfg m h.
Proof.
  exists wl_cfg, (LExcl wl_r0), wl_hist. split.
  - vm_compute. repeat split; reflexivity.
  - intros (_ & H & _). vm_compute in H. discriminate.
Qed.
Print Assumptions c01_wild_lib_refuted.

(* Witness 2: incoherent configured LIB r0 = (1, 2) whose child 2 has height 0; first streamable 0, kept 0.
     (2, num 0, parent 1, lib 2)   New 2 (nothing sent yet: not dropped); LIB stays (1, 2)
     (3, num 1, parent 2, lib 1)   1 < 2: dropped
     (4, num 2, parent 2, lib 0)   New 4; LIB := (2, 0): the LIB number decreases
     (3, ...) again                Undo 4, New 3 (and Irreversible 3: it declares its own height) *)
Definition il_cfg : config := mkCfg 0 false false 0 true (mkFilter true true true true) None.
Definition il_r0 : ref := mkR 1 2.
Definition il_hist : list block := [mkBlock 2 0 1 2; mkBlock 3 1 2 1; mkBlock 4 2 2 0; mkBlock 3 1 2 1].

Example c01_incoherent_trace :
  wl_show (fk_run il_cfg (fs_init (LExcl il_r0)) il_hist) =
    [ ([(SNew, 2)], ROk); ([], ROk); ([(SNew, 4); (SIrr, 2)], ROk); ([(SUndo, 4); (SNew, 3); (SIrr, 3)], ROk) ].
Proof. vm_compute. reflexivity. Qed.

Theorem c01_incoherent_lib_refeed_witness : c01_incoherent_lib_refeed_refuted.
Proof.
  exists il_cfg, il_r0, il_hist. vm_compute.
  repeat split; try reflexivity; try discriminate; repeat constructor.
Qed.
Print Assumptions c01_incoherent_lib_refeed_witness.

(* Witness 3: discovery mode (hold-until-LIB, as the hub uses), first streamable block 12, kept 2, all-blocks-trigger:
   G = (1, num 10, parent 9, lib 10) declares its own height: LIB := (1, 10), New G, Irreversible G; then
   B, A, X, C, X as in witness 1 *)
Definition wl_cfg_disc : config := mkCfg 12 false true 2 true (mkFilter true true true true) None.
Definition wl_hist_disc : list block := mkBlock 1 10 9 10 :: wl_hist.

Example c01_wild_discovery_trace :
  wl_show (fk_run wl_cfg_disc (fs_init LNone) wl_hist_disc) =
    [ ([(SNew, 1); (SIrr, 1)], ROk); ([], ROk); ([(SNew, 2); (SIrr, 2)], ROk); ([], ROk);
      ([(SNew, 3); (SNew, 4); (SIrr, 3)], ROk); ([(SUndo, 4); (SNew, 5)], ROk) ] /\
  map (fun s => libref (db s)) (fk_states wl_cfg_disc (fs_init LNone) wl_hist_disc) =
    [ mkR 1 10; mkR 1 10; mkR 2 14; mkR 2 14; mkR 3 12; mkR 3 12 ].
Proof. vm_compute. split; reflexivity. Qed.

Theorem c01_wild_discovery_refeed_witness : c01_wild_discovery_refeed_refuted.
Proof.
  exists wl_cfg_disc, wl_hist_disc. vm_compute.
  repeat split; try reflexivity; repeat constructor.
Qed.
Print Assumptions c01_wild_discovery_refeed_witness.

(* Witness 4: the configured LIB has an EMPTY id: (id "", num 5); block 1 has an empty parent id *)
Definition el_cfg : config := mkCfg 0 false false 0 true (mkFilter true true true true) None.
Definition el_r0 : ref := mkR 0 5.
Definition el_hist : list block := [ mkBlock 1 6 0 5; mkBlock 1 6 0 5; mkBlock 2 7 1 5; mkBlock 1 6 0 5; mkBlock 3 8 2 5 ].

Example c01_empty_lib_id_trace :
  wl_show (fk_run el_cfg (fs_init (LExcl el_r0)) el_hist) =
    [ ([(SNew, 1)], ROk); ([(SNew, 1)], ROk); ([(SNew, 2)], ROk); ([(SNew, 1)], ROk); ([(SNew, 2); (SNew, 3)], ROk) ].
Proof. vm_compute. reflexivity. Qed.

Theorem c01_empty_lib_id_witness : c01_empty_lib_id_refuted.
Proof. exists el_cfg, el_r0, el_hist. vm_compute. repeat split; reflexivity. Qed.
Print Assumptions c01_empty_lib_id_witness.

(* ================================================================ what holds for arbitrary declarations *)

(* partial (two of the three clauses of c01_statement, for EVERY well-formed history and every configured LIB
   with a non-empty id): the Undo/New discipline and the error clause; no panic, no fuel exhaustion.
   Proofs/Fk/WildWalks.v, Proofs/Fk/WildLibInv.v (invariant on ids and ancestry, no LIB number), Proofs/C01_Wild_Proofs.v *)
Theorem c01_wild_discipline_partial : c01_wild_discipline_statement.
Proof. exact c01_wild_discipline_proved. Qed.
Print Assumptions c01_wild_discipline_partial.

(* partial: the whole of c01_statement under the run condition "the LIB number never decreases" *)
Theorem c01_wild_mono_partial : c01_wild_mono_statement.
Proof. exact c01_wild_mono_proved. Qed.
Print Assumptions c01_wild_mono_partial.

(* the class of c01_moving_lib_roots_partial is a sub-class of the class of c01_wild_mono_partial *)
Theorem c01_wild_mono_subsumes_roots : c01_wild_mono_subsumes.
Proof. exact c01_wild_mono_subsumes_proved. Qed.
Print Assumptions c01_wild_mono_subsumes_roots.

(* non-vacuity of c01_wild_mono_partial OUTSIDE the old classes: block 3 declares 12, strictly between the
   heights 11 and 15 of two ancestors (LIB := (3, 12)); block 9 declares 30, above its own height 18
   (LIB := (9, 30), block 9 itself is purged); blocks 3, 7, 5 are fed again; a fork switch; block 10 hangs
   under the purged LIB block.  The LIB number never decreases, everything holds. *)
Definition wm_cfg : config := mkCfg 0 false false 1 false (mkFilter true true true true) None.
Definition wm_hist : list block :=
  [ mkBlock 2 11 1 10; mkBlock 3 15 2 12; mkBlock 7 13 2 10; mkBlock 4 16 3 13; mkBlock 3 15 2 12; mkBlock 8 17 7 19;
    mkBlock 5 17 4 16; mkBlock 7 13 2 10; mkBlock 9 18 4 30; mkBlock 5 17 4 16; mkBlock 10 31 9 18; mkBlock 11 19 5 16 ].

Example c01_wild_mono_nonvacuous :
  rooted_mode wl_r0 (LExcl wl_r0) /\ wf_b wm_hist = true /\ ri wl_r0 <> 0 /\
  lib_mono_b (cfg_nofail wm_cfg) (fs_init (LExcl wl_r0)) wm_hist = true /\
  lib_anc_ok_b (LExcl wl_r0) wm_hist = false /\ moving_scope2_b wl_r0 wm_hist = false /\
  wl_show (fk_run wm_cfg (fs_init (LExcl wl_r0)) wm_hist) =
    [ ([(SNew, 2)], ROk); ([(SNew, 3); (SIrr, 2); (SIrr, 3)], ROk); ([], ROk); ([(SNew, 4)], ROk); ([], ROk); ([], ROk);
      ([(SNew, 5); (SIrr, 4)], ROk); ([], ROk); ([(SUndo, 5); (SNew, 9); (SIrr, 9)], ROk); ([], ROk);
      ([(SNew, 10)], ROk); ([], ROk) ] /\
  map (fun s => libref (db s)) (fk_states wm_cfg (fs_init (LExcl wl_r0)) wm_hist) =
    [ mkR 1 10; mkR 3 12; mkR 3 12; mkR 3 12; mkR 3 12; mkR 3 12; mkR 4 16; mkR 4 16; mkR 9 30; mkR 9 30; mkR 9 30; mkR 9 30 ].
Proof. split; [left; reflexivity|]. vm_compute. repeat split; try reflexivity; discriminate. Qed.

(* the two witnesses meet every hypothesis of c01_wild_discipline_partial (so their discipline and error
   clauses are instances of the theorem) and violate exactly the run condition of c01_wild_mono_partial *)
Example c01_wild_witnesses_in_discipline_class :
  wf_b wl_hist = true /\ ri wl_r0 <> 0 /\ lib_mono_b (cfg_nofail wl_cfg) (fs_init (LExcl wl_r0)) wl_hist = false /\
  wf_b il_hist = true /\ ri il_r0 <> 0 /\ lib_mono_b (cfg_nofail il_cfg) (fs_init (LExcl il_r0)) il_hist = false.
Proof. vm_compute. repeat split; try reflexivity; discriminate. Qed.

(* the class of c01_discovery_roots_partial is a sub-class of the class of c01_wild_discovery_mono_partial *)
Theorem c01_wild_discovery_mono_subsumes_roots : c01_wild_discovery_mono_subsumes.
Proof. exact c01_wild_discovery_mono_subsumes_proved. Qed.
Print Assumptions c01_wild_discovery_mono_subsumes_roots.

(* discovery mode (no configured LIB, hold-until-LIB): the same two theorems.  Proofs/Fk/WildLibDisc.v *)
Theorem c01_wild_discovery_discipline_partial : c01_wild_discovery_discipline_statement.
Proof. exact c01_wild_discovery_discipline_proved. Qed.
Print Assumptions c01_wild_discovery_discipline_partial.

Theorem c01_wild_discovery_mono_partial : c01_wild_discovery_mono_statement.
Proof. exact c01_wild_discovery_mono_proved. Qed.
Print Assumptions c01_wild_discovery_mono_partial.

(* non-vacuity, discovery: block 2 is held (its parent never arrives); block 3 declares 25, strictly between the
   heights 20 and 30: SetLIB makes (3, 25) the LIB and NOTHING is delivered (the chain from block 3 down to the
   LIB id 3 is empty; block 3 is never delivered nor announced); the first event, New 4, carries the LIB id 3;
   re-feeds of 2 and 3 deliver nothing; block 6 (a sibling fork, lower than the head) and block 7 (declares 60,
   above its height, but does not trigger) are stored silently *)
Definition wd_cfg : config := mkCfg 0 false true 1 false (mkFilter true true true true) None.
Definition wd_hist : list block :=
  [ mkBlock 2 20 9 5; mkBlock 3 30 2 25; mkBlock 2 20 9 5; mkBlock 4 40 3 25; mkBlock 3 30 2 25; mkBlock 6 35 3 25;
    mkBlock 5 50 4 40; mkBlock 2 20 9 5; mkBlock 7 51 6 60 ].

Example c01_wild_discovery_nonvacuous :
  c_hold wd_cfg = true /\ c_incl wd_cfg = false /\ wf_b wd_hist = true /\
  lib_mono_b (cfg_nofail wd_cfg) (fs_init LNone) wd_hist = true /\
  lib_anc_ok_b LNone wd_hist = false /\ disc_scope2_b wd_hist = false /\
  map (fun x => (map (fun e => (estep e, bid (eblk e), ri (elib e))) (fst x), snd x)) (fk_run wd_cfg (fs_init LNone) wd_hist) =
    [ ([], ROk); ([], ROk); ([], ROk); ([(SNew, 4, 3)], ROk); ([], ROk); ([], ROk);
      ([(SNew, 5, 3); (SIrr, 4, 4)], ROk); ([], ROk); ([], ROk) ] /\
  map (fun s => libref (db s)) (fk_states wd_cfg (fs_init LNone) wd_hist) =
    [ mkR 0 0; mkR 3 25; mkR 3 25; mkR 3 25; mkR 3 25; mkR 3 25; mkR 4 40; mkR 4 40; mkR 4 40 ].
Proof. vm_compute. repeat split; reflexivity. Qed.

(* an INPUT class: every block of the history lies strictly above the first streamable block.  There the LIB
   number never decreases, whatever the blocks declare and whatever the configured LIB is: the whole of
   c01_statement holds (all three LIB modes, any handler oracle).  Both refutation witnesses feed a block at or
   under the first streamable block. *)
Theorem c01_wild_first_partial : c01_wild_first_statement.
Proof. exact c01_wild_first_proved. Qed.
Print Assumptions c01_wild_first_partial.

Example c01_wild_first_nonvacuous :
  above_first_b wm_cfg wm_hist = true /\ above_first_b wd_cfg wd_hist = true /\
  above_first_b wl_cfg wl_hist = false /\ above_first_b il_cfg il_hist = false /\ above_first_b wl_cfg_disc wl_hist_disc = false.
Proof. vm_compute. repeat split; reflexivity. Qed.

(* the same with blocks AT the first streamable block allowed: no block UNDER it, and (rooted modes) a configured
   LIB that is weakly coherent with the history (its id is the id of a block of the history, or its children are
   higher than its number).  In discovery mode -- the hub's configuration -- the only condition on the history
   besides wf_b is "no block under the first streamable block". *)
Theorem c01_wild_first_le_partial : c01_wild_first_le_statement.
Proof. exact c01_wild_first_le_proved. Qed.
Print Assumptions c01_wild_first_le_partial.

(* non-vacuity: wm_hist with the first streamable block AT the height of its lowest block (11); each witness
   violates exactly one hypothesis: witness 1 and 3 feed blocks under the first streamable block (their configured
   LIB is coherent), witness 2 has no block under the first streamable block but its configured LIB is not even
   weakly coherent *)
Definition wm_cfg11 : config := mkCfg 11 false false 1 true (mkFilter true true true true) None.
Example c01_wild_first_le_nonvacuous :
  not_under_first_b wm_cfg11 wm_hist = true /\ above_first_b wm_cfg11 wm_hist = false /\ lib_weak_coh_b wl_r0 wm_hist = true /\
  not_under_first_b wl_cfg wl_hist = false /\ lib_weak_coh_b wl_r0 wl_hist = true /\
  not_under_first_b il_cfg il_hist = true /\ lib_weak_coh_b il_r0 il_hist = false /\
  not_under_first_b wl_cfg_disc wl_hist_disc = false.
Proof. vm_compute. repeat split; reflexivity. Qed.
