(* C01-C04, C18: the lastLongestChain cache of forkable.Forkable (computeNewLongestChain).
   The property theorems of the forkable family are about Model/Forkable.v, which always recomputes
   ReversibleSegment.  Model/ForkableCache.v carries the cache; the correspondence check runs both step
   functions against the implementation on every generated history.  Proved here: on a hit the cached
   answer IS the recomputation, for every well-formed store, under the guard ProcessBlock itself
   establishes (the block is not below the LIB); the guard is needed (witness).  That coherence is
   preserved along whole runs is exercised by the correspondence check, not proved. *)
From BV Require Import Base.Prelude Model.Block Model.ForkDB Model.Forkable Model.ForkableCache
  Proofs.Fk.StoreFacts Proofs.Fk.WalkFacts Proofs.Fk.CacheFacts.
Local Open Scope N_scope.

Theorem c01_cache_hit_is_recompute d first c b e :
  wf_store (store d) ->
  cache_coherent d first c ->
  find (bid b) (store d) = Some e -> eb e = b ->
  bid b <> ri (libref d) ->
  rn (libref d) <= bnum b ->
  cache_hit d (map (refresh d) c) b = true ->
  match reversible_segment d first (bref b) with
  | Some (l, _) => compute_longest d first c b = Some l
  | None => False
  end.
Proof. exact (cache_hit_is_recompute d first c b e). Qed.
Print Assumptions c01_cache_hit_is_recompute.

(* without a hit computeNewLongestChain is the recomputation by definition *)
Theorem c01_cache_miss_is_recompute d first c b :
  cache_hit d (map (refresh d) c) b = false ->
  compute_longest d first c b =
  match reversible_segment d first (bref b) with Some (l, _) => Some l | None => None end.
Proof. intros H. unfold compute_longest. rewrite H. reflexivity. Qed.
Print Assumptions c01_cache_miss_is_recompute.

(* ---- the hypotheses are met: LIB 100 (#1); 102 <- 103 <- 104 delivered, 113 <- 114 held back behind the head;
   the cache is the chain of 114; block 115 extends it ---- *)
Definition ex_blocks : list block :=
  [mkBlock 102 2 100 1; mkBlock 103 3 102 1; mkBlock 104 4 103 1; mkBlock 113 3 102 1; mkBlock 114 4 113 1;
   mkBlock 115 5 114 1].
Definition ex_d : forkdb := mkDB (map (fun b => mkEntry b false) ex_blocks) None (mkR 100 1).
Definition ex_c : list seg :=
  match reversible_segment ex_d 0 (mkR 114 4) with Some (l, _) => l | None => [] end.
Definition ex_b : block := mkBlock 115 5 114 1.

Lemma ex_wf : wf_store (store ex_d).
Proof.
  constructor.
  - cbn. repeat (constructor; [cbn; intuition discriminate|]). constructor.
  - intros e He. cbn in He.
    repeat (destruct He as [<-|He]; [cbn; split; discriminate|]). destruct He.
  - intros e p He Hf. cbn in He.
    repeat (destruct He as [<-|He]; [vm_compute in Hf; inversion Hf; subst; vm_compute; reflexivity|]).
    destruct He.
Qed.

Example c01_cache_hypotheses_met :
  wf_store (store ex_d) /\ cache_coherent ex_d 0 ex_c /\ length ex_c = 3%nat /\
  find (bid ex_b) (store ex_d) = Some (mkEntry ex_b false) /\ bid ex_b <> ri (libref ex_d) /\
  rn (libref ex_d) <= bnum ex_b /\ cache_hit ex_d (map (refresh ex_d) ex_c) ex_b = true.
Proof.
  split; [exact ex_wf|]. split.
  - cbn. split; [intros e He; vm_compute in He; inversion He; subst; reflexivity | vm_compute; reflexivity].
  - repeat split; try (vm_compute; reflexivity); vm_compute; discriminate.
Qed.

(* ---- the guard is needed: a block numbered BELOW the LIB that hangs off the cached tip (reachable only before
   anything was sent: the top of ProcessBlock drops it otherwise).  ReversibleSegment refuses to link past the LIB and
   returns nothing; the cached path returns the cache plus the block. ---- *)
Definition gw_d : forkdb :=
  mkDB [mkEntry (mkBlock 2 3 1 0) false; mkEntry (mkBlock 3 7 2 0) false] (Some (mkR 1 10)) (mkR 1 10).
Definition gw_c : list seg :=
  match reversible_segment gw_d 5 (mkR 2 3) with Some (l, _) => l | None => [] end.
Definition gw_b : block := mkBlock 3 7 2 0.

Theorem c01_cache_guard_needed :
  cache_coherent gw_d 5 gw_c /\ cache_hit gw_d (map (refresh gw_d) gw_c) gw_b = true /\
  bnum gw_b < rn (libref gw_d) /\
  reversible_segment gw_d 5 (bref gw_b) = Some ([], false) /\
  exists l, compute_longest gw_d 5 gw_c gw_b = Some l /\ length l = 2%nat.
Proof.
  split; [cbn; split; [intros e He; vm_compute in He; inversion He; subst; reflexivity | vm_compute; reflexivity]|].
  repeat split; try (vm_compute; reflexivity).
  eexists. split; vm_compute; reflexivity.
Qed.
Print Assumptions c01_cache_guard_needed.

(* ---- a test, not a theorem: on the held-back-fork history that found seeded mutant C01-m5 the run with the cache
   equals the run without it ---- *)
Definition hb_hist : list block :=
  [mkBlock 102 2 100 1; mkBlock 103 3 102 1; mkBlock 104 4 103 1; mkBlock 113 3 102 1; mkBlock 114 4 113 1;
   mkBlock 126 6 113 1; mkBlock 127 7 126 2].
Definition hb_cfg : config := mkCfg 0 false false 1 false (mkFilter true true true true) None.
Example c01_cache_run_test :
  fk_run_c hb_cfg (fs_init (LExcl (mkR 100 1)), []) hb_hist = fk_run hb_cfg (fs_init (LExcl (mkR 100 1))) hb_hist /\
  length (concat (map fst (fk_run hb_cfg (fs_init (LExcl (mkR 100 1))) hb_hist))) = 9%nat.
Proof. split; vm_compute; reflexivity. Qed.
