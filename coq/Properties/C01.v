(* C01 property theorems only.  Proofs live in Proofs/Fk/*.v and Proofs/C01_Proofs.v. *)
From BV Require Import Base.Prelude Model.Block Model.ForkDB Model.Forkable Spec.Consumer Spec.Universe
  Spec.C01_Spec Proofs.C01_Proofs.
Local Open Scope N_scope.

(* partial: exclusive starting LIB that the history never moves, no injected handler failure
   (c01_full in Spec/C01_Spec.v is the full statement; the gap is named in driver/thm_C01.json) *)
Theorem c01_fixed_lib_partial : c01_fixed_lib_statement.
Proof. exact c01_fixed_lib_proved. Qed.
Print Assumptions c01_fixed_lib_partial.

(* non-vacuity: a history with a fork switch (undo), a duplicate, an unlinkable block and a block
   below the LIB meets every hypothesis, under two configurations; the model's run on it contains an
   Undo and is non-trivial *)
Definition ex_r0 : ref := mkR 1 10.
Definition ex_hist : list block :=
  [ mkBlock 2 11 1 10; mkBlock 3 12 2 10; mkBlock 4 12 2 10; mkBlock 5 14 4 10;
    mkBlock 3 12 2 10; mkBlock 9 15 8 10; mkBlock 7 5 13 10; mkBlock 6 13 3 10; mkBlock 11 15 6 10 ].
Definition ex_cfg (alltrig : bool) : config := mkCfg 0 false false 2 alltrig (mkFilter true true true true) None.

Example c01_nonvacuous :
  c01_fixed_scope_b ex_r0 ex_hist = true /\
  map (fun e => (estep e, bid (eblk e))) (all_events (fk_run (ex_cfg false) (fs_init (LExcl ex_r0)) ex_hist)) =
    [(SNew, 2); (SNew, 3); (SUndo, 3); (SNew, 4); (SNew, 5); (SUndo, 5); (SUndo, 4); (SNew, 3); (SNew, 6); (SNew, 11)] /\
  existsb (fun e => step_eqb (estep e) SUndo) (all_events (fk_run (ex_cfg true) (fs_init (LExcl ex_r0)) ex_hist)) = true.
Proof. vm_compute. auto. Qed.
