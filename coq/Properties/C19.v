(* C19 property theorems only.  Proofs live in Proofs/. *)
From BV Require Import Base.Prelude Base.Decimal Model.Range Spec.C19_Spec Proofs.C19_Proofs.
Local Open Scope N_scope.

Theorem c19_split_partial : C19_split_partial.
Proof. exact c19_split_partial_pf. Qed.
Print Assumptions c19_split_partial.

Theorem c19_split_exact : C19_split_exact.
Proof. exact c19_split_exact_pf. Qed.
Print Assumptions c19_split_exact.

(* the union clause of the FULL statement fails when both bounds are exclusive: (10,20) by 5 gives
   (10,15),(15,20) and 15 is in no chunk (replayed on the real code: known finding
   C19-split-both-exclusive-inner-boundaries) *)
Theorem c19_split_full_refuted : C19_split_full_refuted.
Proof. exact c19_split_full_refuted_pf. Qed.
Print Assumptions c19_split_full_refuted.

Theorem c19_contains : C19_contains.
Proof. exact c19_contains_pf. Qed.
Print Assumptions c19_contains.

Theorem c19_reached : C19_reached.
Proof. exact c19_reached_pf. Qed.
Print Assumptions c19_reached.

Theorem c19_size : C19_size.
Proof. exact c19_size_pf. Qed.
Print Assumptions c19_size.

Theorem c19_next : C19_next.
Proof. exact c19_next_pf. Qed.
Print Assumptions c19_next.

Theorem c19_previous : C19_previous.
Proof. exact c19_previous_pf. Qed.
Print Assumptions c19_previous.

Theorem c19_isnext : C19_isnext.
Proof. exact c19_isnext_pf. Qed.
Print Assumptions c19_isnext.

Theorem c19_parse_total : C19_parse_total.
Proof. exact c19_parse_total_pf. Qed.
Print Assumptions c19_parse_total.

Theorem c19_constructors : C19_constructors.
Proof. exact c19_constructors_pf. Qed.
Print Assumptions c19_constructors.

(* what the fix patches repair, on the model of the unchanged code *)
Theorem c19_split_unfixed_refuted : C19_split_unfixed_refuted.
Proof. exact c19_split_unfixed_refuted_pf. Qed.
Print Assumptions c19_split_unfixed_refuted.

Theorem c19_parse_unfixed_refuted : C19_parse_unfixed_refuted.
Proof. exact c19_parse_unfixed_refuted_pf. Qed.
Print Assumptions c19_parse_unfixed_refuted.

(* non-vacuity: a range at the numeric limit, split by 2^63, meets every hypothesis of c19_split_partial
   and yields two chunks with the inner boundary on 2^63 (the input on which the unchanged code
   never terminated) *)
Example c19_split_nonvacuous :
  let r := mkRange 5 (Some 18446744073709551615) true false in
  split r two63 = SplitOk [mkRange 5 (Some two63) true false;
                           mkRange two63 (Some 18446744073709551615) true false].
Proof. vm_compute. reflexivity. Qed.

Example c19_split_nonvacuous_hyps :
  range_ok (mkRange 5 (Some 18446744073709551615) true false) /\ 0 < two63 < two64.
Proof. unfold range_ok, u64, two63, two64; simpl. lia. Qed.

(* Next / Previous / IsNext on a bounded range; ParseRange on a spaced, comma'd text *)
Example c19_next_nonvacuous :
  let r := mkRange 10 (Some 15) false true in
  range_ok r /\ next r 5 = mkRange 15 (Some 20) false true /\
  is_next r (mkRange 15 (Some 20) false true) 5 = true /\
  previous r 5 = mkRange 5 (Some 10) false true /\ reached r 14 = true /\ contains r 15 = false.
Proof. unfold range_ok, u64, two64. vm_compute. repeat split; try reflexivity; lia. Qed.

(* "1,000 - 9,000" *)
Example c19_parse_nonvacuous :
  parse_range [49;44;48;48;48;32;45;32;57;44;48;48;48] false true = ParseOk (mkRange 1000 (Some 9000) false true) /\
  parse_range [53;45] false false = ParseErr.
Proof. vm_compute. split; reflexivity. Qed.
