(* C01 with a failing handler: property theorems only.  Proofs: Proofs/Fk/LoopFactsFail.v, Proofs/C01_FailProofs.v. *)
From BV Require Import Base.Prelude Model.Block Model.ForkDB Model.Forkable Spec.Consumer Spec.Universe
  Spec.C01_Spec Spec.C01_More_Spec Proofs.C01_FailProofs.
Local Open Scope N_scope.

(* full (every mode, every history, every configuration): the run under a handler oracle is the run of
   the never-failing handler cut right after the failing call *)
Theorem fk_run_oracle : fk_run_oracle_statement.
Proof. exact fk_run_oracle_proved. Qed.
Print Assumptions fk_run_oracle.

(* full (every mode, every history): C01 for the never-failing handler gives C01 for every oracle *)
Theorem c01_failures_transfer : c01_failures_transfer_statement.
Proof. exact c01_failures_transfer_proved. Qed.
Print Assumptions c01_failures_transfer.

(* partial (c01_full is the full statement): exclusive starting LIB that the history never moves; the
   handler oracle is arbitrary (None or Some k for every k) *)
Theorem c01_fixed_lib_failures_partial : c01_fixed_lib_failures_statement.
Proof. exact c01_fixed_lib_failures_proved. Qed.
Print Assumptions c01_fixed_lib_failures_partial.

(* non-vacuity: the history of Properties/C01.v with the handler failing at call 2, the Undo that opens the
   fourth step (whose events without failure are Undo 3, New 4, New 5): the step is cut after that Undo
   and returns the handler error, the remaining five blocks of the history are not fed; with k = 100 the
   oracle never fires *)
Definition exf_r0 : ref := mkR 1 10.
Definition exf_hist : list block :=
  [ mkBlock 2 11 1 10; mkBlock 3 12 2 10; mkBlock 4 12 2 10; mkBlock 5 14 4 10;
    mkBlock 3 12 2 10; mkBlock 9 15 8 10; mkBlock 7 5 13 10; mkBlock 6 13 3 10; mkBlock 11 15 6 10 ].
Definition exf_cfg (k : option N) : config := mkCfg 0 false false 2 false (mkFilter true true true true) k.

Example c01_fail_nonvacuous :
  c01_fixed_scope_b exf_r0 exf_hist = true /\
  map (fun x => (map (fun e => (estep e, bid (eblk e))) (fst x), snd x)) (fk_run (exf_cfg (Some 2)) (fs_init (LExcl exf_r0)) exf_hist) =
    [([(SNew, 2)], ROk); ([(SNew, 3)], ROk); ([], ROk); ([(SUndo, 3)], RHandlerErr)] /\
  map (fun e => (estep e, bid (eblk e))) (all_events (fk_run (exf_cfg None) (fs_init (LExcl exf_r0)) exf_hist)) =
    [(SNew, 2); (SNew, 3); (SUndo, 3); (SNew, 4); (SNew, 5); (SUndo, 5); (SUndo, 4); (SNew, 3); (SNew, 6); (SNew, 11)] /\
  fk_run (exf_cfg (Some 100)) (fs_init (LExcl exf_r0)) exf_hist = fk_run (exf_cfg None) (fs_init (LExcl exf_r0)) exf_hist.
Proof. vm_compute. auto. Qed.
