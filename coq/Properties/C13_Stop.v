(* C13, the stop clause over whole runs - property theorems only.  Statements: Spec/C13_Stop_Spec.v;
   proofs: Proofs/C13_Stop.v, Proofs/C13_StopRun.v (on top of the C07 composition). *)
From Coq Require Import Sorting.Sorted.
From BV Require Import Base.Prelude Model.Block Model.ForkDB Model.Forkable Model.ForkableLookups
  Model.Burst Model.Hub Model.CursorResolver Model.Joining
  Spec.Consumer Spec.Universe Check.Burst_Check Check.C07_Check Spec.C06_Spec Spec.C07_Spec Spec.C09_Spec
  Spec.C13_Spec Spec.C07_Compose_Spec Spec.C13_Stop_Spec Proofs.C07_ComposeCheck Proofs.C13_StopRun Proofs.C13_StopCursor Proofs.C13_FullRefuted
  Properties.C07_Compose.
Local Open Scope N_scope.

(* partial with respect to C13_stop_full (which does not hold for every world / filter / cursor): number
   mode, a hub that is a state of a hub run, a step filter that lets New and new+irreversible through *)
Theorem c13_stop_num_partial : C13_stop_num.
Proof. exact c13_stop_num_proof. Qed.
Print Assumptions c13_stop_num_partial.

Theorem c13_stop_cut_partial : C13_stop_cut.
Proof. exact c13_stop_cut_proof. Qed.
Print Assumptions c13_stop_cut_partial.

(* from a cursor, when the files read up to the bundle of S reach the cursor block *)
Theorem c13_stop_cursor_partial : C13_stop_cursor.
Proof. exact c13_stop_cursor_proof. Qed.
Print Assumptions c13_stop_cursor_partial.

(* composed with c07_seamless_num: default filter, number mode *)
Theorem c13_stop_reached_partial : C13_stop_reached.
Proof. exact c13_stop_reached_proof. Qed.
Print Assumptions c13_stop_reached_partial.

(* C13_stop_full of Spec/C13_Spec.v as stated (every world, every filter, every cursor at or below S) is refutable:
   a cursor on a forked block whose canonical replacement lies beyond the bundle of S (skipped numbers) *)
Theorem c13_stop_full_refuted : ~ C13_stop_full.
Proof. exact c13_stop_full_refuted_proof. Qed.
Print Assumptions c13_stop_full_refuted.

(* ---- non-vacuity: the world of Properties/C07_Compose.v (chain 2..20 with the sibling 116 of block 16) ---- *)

Definition cx_cs (s : N) : jcfg := mkJ 2 0 10 0 5 None s 0 0.

(* every hypothesis of c13_stop_num_partial / c13_stop_cut_partial / c13_stop_reached_partial is met, for the
   stop blocks 8 (in the files), 13 (the joining block), 16 and 17 (live) *)
Example c13_stop_nonvacuous_hyps :
  forall s, In s [8; 13; 16; 17] ->
  hub_of_universe cx_U (cx_cs s) cx_w /\
  j_stop (cx_cs s) <> 0 /\ j_stop (cx_cs s) <= file_bound /\
  StronglySorted (fun a b => bnum a < bnum b) cx_merged /\ Forall (fun b => bnum b < 15) cx_merged /\
  j_mode (cx_cs s) = 0 /\ j_filter (cx_cs s) = 0 /\
  filter_pass (cx_cs s) SNew = true /\ filter_pass (cx_cs s) SNewIrr = true /\
  eventual_tip (cx_cs s) cx_w cx_canon /\
  run_start (cx_cs s) cx_w <= j_stop (cx_cs s) /\
  snd (stream_run (cx_cs s) cx_w [(3, 1); (12, 2)] 15 cx_merged []) <> JInvalidArg /\
  snd (stream_run (with_stop (cx_cs s) 0) cx_w [(3, 1); (12, 2)] 15 cx_merged []) = JNil /\
  (exists bS, In bS cx_canon /\ bnum bS = j_stop (cx_cs s)).
Proof.
  intros s Hs.
  destruct c07_compose_nonvacuous_hyps as (_ & _ & Hhub & _ & _ & _ & _ & _).
  assert (Hsorted : StronglySorted (fun a b => bnum a < bnum b) cx_merged).
  { vm_compute. repeat (constructor; [|repeat (constructor; [reflexivity|]); constructor]). constructor. }
  assert (Hlt : Forall (fun b => bnum b < 15) cx_merged).
  { apply Forall_forall. intros b Hb. unfold cx_merged in Hb. apply filter_In in Hb as [_ Hb]. apply N.ltb_lt. exact Hb. }
  assert (Hcases : s = 8 \/ s = 13 \/ s = 16 \/ s = 17) by (cbn in Hs; intuition).
  split; [exact Hhub|].
  destruct Hcases as [ -> | [ -> | [ -> | -> ] ] ];
    (split; [discriminate|]); (split; [vm_compute; discriminate|]); (split; [exact Hsorted|]); (split; [exact Hlt|]);
    (split; [reflexivity|]); (split; [reflexivity|]); (split; [reflexivity|]); (split; [reflexivity|]);
    (split; [apply eventual_tip_b_sound; vm_compute; reflexivity|]);
    (split; [vm_compute; discriminate|]); (split; [vm_compute; discriminate|]); (split; [vm_compute; reflexivity|]).
  - exists (cx_b 8). split; [vm_compute; tauto | reflexivity].
  - exists (cx_b 13). split; [vm_compute; tauto | reflexivity].
  - exists (cx_b 16). split; [vm_compute; tauto | reflexivity].
  - exists (cx_b 17). split; [vm_compute; tauto | reflexivity].
Qed.

(* the runs: S = 17 reached live after the reorganisation; S = 16 reached live BEFORE it: the block numbered 16
   that is delivered is the sibling 116 (the stream is cut at the first event at S - the canonical block 16
   arrives later); S = 8 reached in the files; S = 13 = the joining block, delivered from the hub's burst *)
Example c13_stop_nonvacuous_runs :
  cx_show (stream_run (cx_cs 17) cx_w [(3, 1); (12, 2)] 15 cx_merged [])
  = ([(SNewIrr, 5); (SNewIrr, 6); (SNewIrr, 7); (SNewIrr, 8); (SNewIrr, 9); (SNewIrr, 10); (SNewIrr, 11);
      (SNewIrr, 12); (SNewIrr, 13); (SNew, 14); (SNew, 15); (SNew, 116); (SUndo, 116); (SNew, 16); (SNew, 17)], JStop) /\
  cx_show (stream_run (cx_cs 16) cx_w [(3, 1); (12, 2)] 15 cx_merged [])
  = ([(SNewIrr, 5); (SNewIrr, 6); (SNewIrr, 7); (SNewIrr, 8); (SNewIrr, 9); (SNewIrr, 10); (SNewIrr, 11);
      (SNewIrr, 12); (SNewIrr, 13); (SNew, 14); (SNew, 15); (SNew, 116)], JStop) /\
  cx_show (stream_run (cx_cs 8) cx_w [(3, 1); (12, 2)] 15 cx_merged [])
  = ([(SNewIrr, 5); (SNewIrr, 6); (SNewIrr, 7); (SNewIrr, 8)], JStop) /\
  cx_show (stream_run (cx_cs 13) cx_w [(3, 1); (12, 2)] 15 cx_merged [])
  = ([(SNewIrr, 5); (SNewIrr, 6); (SNewIrr, 7); (SNewIrr, 8); (SNewIrr, 9); (SNewIrr, 10); (SNewIrr, 11);
      (SNewIrr, 12); (SNewIrr, 13)], JStop).
Proof. vm_compute. repeat split; reflexivity. Qed.

(* cursor mode with a stop block: the consumer of c07_compose_nonvacuous_cursor (cursor on the forked 109, LIB 6),
   stop block 17 reached live; the files read up to the bundle of 17 (blocks below 20) reach the cursor block *)
Definition cx_ccs : jcfg := mkJ 2 0 10 1 0 (Some cx_cu) 17 0 0.

Example c13_stop_nonvacuous_cursor :
  j_stop cx_ccs <> 0 /\ j_mode cx_ccs = 1 /\ j_cursor cx_ccs = Some cx_cu /\
  filter_pass cx_ccs SNew = true /\ filter_pass cx_ccs SNewIrr = true /\
  reached (file_delivery cx_merged (rn (cu_lib cx_cu)) (j_stop cx_ccs) (j_bundle cx_ccs)) cx_cu /\
  cx_show (stream_run cx_ccs cx_w [(3, 1); (12, 2)] 15 cx_merged [cx_f9])
  = ([(SUndo, 109); (SNewIrr, 9); (SNewIrr, 10); (SNewIrr, 11); (SNewIrr, 12); (SNewIrr, 13); (SNew, 14); (SNew, 15);
      (SNew, 116); (SUndo, 116); (SNew, 16); (SNew, 17)], JStop).
Proof.
  split; [discriminate|]. split; [reflexivity|]. split; [reflexivity|]. split; [reflexivity|]. split; [reflexivity|].
  split; [exists (cx_b 9); split; [vm_compute; tauto | vm_compute; discriminate]|].
  vm_compute. reflexivity.
Qed.
