(* C18 at stream level in DISCOVERY mode (no configured LIB, hold-until-LIB: the configuration of the ForkableHub):
   property theorems only.  Statements: Spec/C18_Disc_Spec.v; proofs: Proofs/Fk/DiscEvents.v (the discovering step),
   Proofs/Fk/DiscLookups.v (observation points, monitor), Proofs/C18_DiscProofs.v (scope bridge, handler oracle).
   Together with Properties/C18_Moving.v (configured LIB) these are the stream-level clauses of C18 for every LIB mode
   that establishes a LIB. *)
From BV Require Import Base.Prelude Model.Block Model.ForkDB Model.Forkable Model.ForkableLookups Model.Burst
  Spec.Consumer Spec.Universe Spec.C01_Spec Spec.C01_Moving_Spec Spec.C01_Roots_Spec Spec.C18_Spec Spec.C18_Moving_Spec
  Spec.C18_Disc_Spec Check.Fk_Check Check.Fk_Props_Check Proofs.C18_MovingProofs Proofs.C18_DiscProofs.
Local Open Scope N_scope.

(* before the first delivery: no LIB, no head, every received block in the buffer; after it: a LIB at or above the root *)
Theorem c18_disc_discovery : C18_disc_discovery.
Proof. exact c18_disc_discovery_proof. Qed.
Print Assumptions c18_disc_discovery.

(* 2. head information = top of the consumer's stack *)
Theorem c18_disc_head : C18_disc_head.
Proof. exact c18_disc_head_proof. Qed.
Print Assumptions c18_disc_head.

(* 1. canonical lookup against the consumer's chain, every height *)
Theorem c18_disc_canonical : C18_disc_canonical.
Proof. exact c18_disc_canonical_proof. Qed.
Print Assumptions c18_disc_canonical.

(* 3. lowest servable number = first block of the retained chain of the head *)
Theorem c18_disc_lowest : C18_disc_lowest.
Proof. exact c18_disc_lowest_proof. Qed.
Print Assumptions c18_disc_lowest.

(* the kept window *)
Theorem c18_disc_window : C18_disc_window.
Proof. exact c18_disc_window_proof. Qed.
Print Assumptions c18_disc_window.

(* 4. by hash / by number on any fork, inside the kept window (before the discovery: everything) *)
Theorem c18_disc_found : C18_disc_found.
Proof. exact c18_disc_found_proof. Qed.
Print Assumptions c18_disc_found.

Theorem c18_disc_full_partial : C18_disc_full.
Proof. exact c18_disc_full_proof. Qed.
Print Assumptions c18_disc_full_partial.

(* 5. the monitor of the check (c18_prop, all five clauses; the LIB-establishing announcement is not a LIB move) accepts
   every observation that corresponds to the model on the cases of c18_disc_thm_scope *)
Theorem c18_discovery_partial : C18_disc_lib.
Proof. exact c18_disc_lib_proof. Qed.
Print Assumptions c18_discovery_partial.

Theorem c18_disc_own_run : C18_disc_own_run.
Proof. exact c18_disc_own_run_proof. Qed.
Print Assumptions c18_disc_own_run.

(* ---- non-vacuity ---- *)

(* retention 1.  Blocks 2, 3 and the fork sibling 13 declare LIB number 0: held.  Block 4 declares LIB 2 = the height of
   its stored ancestor 2: the LIB 2 is established (New 3, New 4, Irreversible 2; block 2 itself is never delivered as
   New).  Block 5 moves the LIB to 3 (13 stalled), block 6 to 5 (cutoff 4: 2, 3, 13 purged). *)
Definition c18d_cfg : config := mkCfg 0 false true 1 false (mkFilter true true true true) None.
Definition c18d_h : list block :=
  [mkBlock 2 2 1 0; mkBlock 3 3 2 0; mkBlock 13 3 2 0; mkBlock 4 4 3 2; mkBlock 5 5 4 3; mkBlock 6 6 5 5].
Definition c18d_view (e : event) := (estep e, bid (eblk e), ri (elib e)).

Example c18d_scope_ex : c18d_scope c18d_cfg c18d_h.
Proof. repeat split; vm_compute; reflexivity. Qed.

(* an observation point BEFORE the discovery: nothing delivered, no LIB, no head, all three blocks in the buffer *)
Example c18d_point_before :
  exists s,
    reaches c18d_cfg (fs_init LNone) (firstn 3 c18d_h) [] s /\
    has_lib (db s) = false /\ head_info s = None /\ lowest_block_num s = Some 0 /\
    all_ids s = [2; 3; 13] /\ map (canonical_block_at s) [2; 3] = [0; 0] /\
    all_blocks_at s 3 = Some [3; 13].
Proof.
  destruct (run_to c18d_cfg (fs_init LNone) (firstn 3 c18d_h)) as [[evs s]|] eqn:R0; [|vm_compute in R0; discriminate].
  pose proof (run_to_reaches _ _ _ _ _ R0) as Hr. vm_compute in R0. injection R0 as <- <-.
  eexists. split; [exact Hr|]. repeat (split; [vm_compute; reflexivity|]). vm_compute; reflexivity.
Qed.

(* the discovering call and the end of the history: the root is block 2, the consumer's chain is 6 5 4 3 (block 2 is
   not on it), the LIB is 5 *)
Example c18d_point_after :
  (exists evs s,
     reaches c18d_cfg (fs_init LNone) (firstn 4 c18d_h) evs s /\
     map c18d_view evs = [(SNew, 3, 2); (SNew, 4, 2); (SIrr, 2, 2)] /\
     disc_root evs = mkR 2 2 /\ libref (db s) = mkR 2 2 /\ all_ids s = [2; 3; 4; 13] /\
     lowest_block_num s = Some 2 /\ map (canonical_block_at s) [1; 2; 3; 4; 5] = [0; 2; 3; 4; 4]) /\
  (exists evs s,
     reaches c18d_cfg (fs_init LNone) c18d_h evs s /\
     disc_root evs = mkR 2 2 /\
     apply_all 2 [] evs = Some [mkBlock 6 6 5 5; mkBlock 5 5 4 3; mkBlock 4 4 3 2; mkBlock 3 3 2 0] /\
     libref (db s) = mkR 5 5 /\ all_ids s = [4; 5; 6] /\ head_info s = Some (mkR 6 6, 5) /\
     lowest_block_num s = Some 4 /\ map (canonical_block_at s) [3; 4; 5; 6; 7] = [0; 4; 5; 6; 6] /\
     get_block_by_hash s 13 = false).
Proof.
  split.
  - destruct (run_to c18d_cfg (fs_init LNone) (firstn 4 c18d_h)) as [[evs s]|] eqn:R0; [|vm_compute in R0; discriminate].
    exists evs, s. split; [apply run_to_reaches; exact R0|]. vm_compute in R0. injection R0 as <- <-.
    repeat (split; [vm_compute; reflexivity|]). vm_compute; reflexivity.
  - destruct (run_to c18d_cfg (fs_init LNone) c18d_h) as [[evs s]|] eqn:R0; [|vm_compute in R0; discriminate].
    exists evs, s. split; [apply run_to_reaches; exact R0|]. vm_compute in R0. injection R0 as <- <-.
    repeat (split; [vm_compute; reflexivity|]). vm_compute; reflexivity.
Qed.

(* c18_disc_found: the fork block 13 arrives before the discovery, is not dropped, and lies in the window of the state
   after block 5 (LIB 3, cutoff 2) *)
Example c18d_found_hyps :
  exists evs1 s1 evs s2 evs2 s3,
    c18d_h = [mkBlock 2 2 1 0; mkBlock 3 3 2 0] ++ mkBlock 13 3 2 0 :: [mkBlock 4 4 3 2; mkBlock 5 5 4 3] ++ [mkBlock 6 6 5 5] /\
    reaches c18d_cfg (fs_init LNone) [mkBlock 2 2 1 0; mkBlock 3 3 2 0] evs1 s1 /\
    fk_step c18d_cfg s1 (mkBlock 13 3 2 0) = (s2, evs, ROk) /\
    below_lib s1 (mkBlock 13 3 2 0) = false /\
    reaches c18d_cfg s2 [mkBlock 4 4 3 2; mkBlock 5 5 4 3] evs2 s3 /\
    cutoff (db s3) (c_kept c18d_cfg) <= bnum (mkBlock 13 3 2 0).
Proof.
  destruct (run_to c18d_cfg (fs_init LNone) [mkBlock 2 2 1 0; mkBlock 3 3 2 0]) as [[evs1 s1]|] eqn:R1;
    [|vm_compute in R1; discriminate].
  destruct (fk_step c18d_cfg s1 (mkBlock 13 3 2 0)) as [[s2 evs] r] eqn:Hstep.
  destruct (run_to c18d_cfg s2 [mkBlock 4 4 3 2; mkBlock 5 5 4 3]) as [[evs2 s3]|] eqn:R2.
  - exists evs1, s1, evs, s2, evs2, s3. split; [reflexivity|]. split; [apply run_to_reaches; exact R1|].
    vm_compute in R1. injection R1 as <- <-. vm_compute in Hstep. injection Hstep as <- <- <-.
    split; [reflexivity|]. split; [vm_compute; reflexivity|]. split; [apply run_to_reaches; exact R2|].
    vm_compute in R2. injection R2 as <- <-. vm_compute. discriminate.
  - exfalso. vm_compute in R1. injection R1 as <- <-. vm_compute in Hstep. injection Hstep as <- <- <-.
    vm_compute in R2. discriminate.
Qed.

(* c18_discovery_partial / c18_disc_own_run: the history above with every height and id recorded; the same with a
   handler failing at call 4 (inside the first LIB move); a block that is its own LIB with retention 0 and a block
   far under it fed before (it stays in the buffer: the establishing announcement is not a LIB move) *)
Definition c18d_cfg_fail : config := mkCfg 0 false true 1 false (mkFilter true true true true) (Some 4).
Definition c18d_cfg0 : config := mkCfg 0 false true 0 false (mkFilter true true true true) None.
Definition c18d_h_own : list block := [mkBlock 1 1 9 0; mkBlock 7 7 6 7; mkBlock 8 8 7 7].

Example c18d_thm_scope_cases :
  c18_disc_thm_scope (model_case c18d_cfg LNone c18d_h [0;1;2;3;4;5;6;7] [2;3;13;4;5;6]) = true /\
  c18_disc_thm_scope (model_case c18d_cfg_fail LNone c18d_h [0;1;2;3;4;5;6;7] [2;3;13;4;5;6]) = true /\
  map (fun x => snd x) (fk_run c18d_cfg_fail (fs_init LNone) c18d_h) = [ROk; ROk; ROk; ROk; RHandlerErr] /\
  c18_disc_thm_scope (model_case c18d_cfg0 LNone c18d_h_own [0;1;6;7;8;9] [1;7;8]) = true /\
  map (fun x => map c18d_view (fst x)) (fk_run c18d_cfg0 (fs_init LNone) c18d_h_own) =
    [[]; [(SNew, 7, 7); (SIrr, 7, 7)]; [(SNew, 8, 7)]].
Proof. vm_compute. repeat split. Qed.

(* the own-LIB case at state level: block 1 (six numbers under the LIB, retention 0) is still in the buffer *)
Example c18d_own_point :
  c18d_scope c18d_cfg0 c18d_h_own /\
  exists evs s,
    reaches c18d_cfg0 (fs_init LNone) c18d_h_own evs s /\ disc_root evs = mkR 7 7 /\
    apply_all 7 [] evs = Some [mkBlock 8 8 7 7; mkBlock 7 7 6 7] /\
    libref (db s) = mkR 7 7 /\ all_ids s = [1; 7; 8] /\ lowest_block_num s = Some 7 /\
    map (canonical_block_at s) [1; 6; 7; 8; 9] = [0; 0; 7; 8; 8].
Proof.
  split; [repeat split; vm_compute; reflexivity|].
  destruct (run_to c18d_cfg0 (fs_init LNone) c18d_h_own) as [[evs s]|] eqn:R0; [|vm_compute in R0; discriminate].
  exists evs, s. split; [apply run_to_reaches; exact R0|]. vm_compute in R0. injection R0 as <- <-.
  repeat (split; [vm_compute; reflexivity|]). vm_compute; reflexivity.
Qed.
