(* C02 in the fixed-LIB class (degenerate: no finality event) for histories that may contain ROOTS: property
   theorem only.  Statement in Spec/Roots_Fixed_Spec.v; proof in Proofs/Roots_Fixed_Proofs.v. *)
From BV Require Import Base.Prelude Model.Block Model.ForkDB Model.Forkable Spec.Consumer Spec.Universe
  Spec.C01_Spec Spec.C02_Fixed_Spec Spec.Roots_Fixed_Spec Proofs.Roots_Fixed_Proofs Properties.C01_Roots_Fixed.
Local Open Scope N_scope.

(* c02_fixed_lib_no_finality WITHOUT the hypothesis "no empty parent id" *)
Theorem c02_fixed_lib_roots_no_finality : c02_fixed_lib_roots_statement.
Proof. exact c02_fixed_lib_roots_proved. Qed.
Print Assumptions c02_fixed_lib_roots_no_finality.

Example c02_fixed_roots_nonvacuous :
  c01_fixed_scope2_b rf_r0 rf_hist = true /\ c01_fixed_scope_b rf_r0 rf_hist = false /\
  map (fun e => (estep e, bid (eblk e))) (all_events (fk_run (rf_cfg false false None) (fs_init (LExcl rf_r0)) rf_hist)) =
    [(SNew, 2); (SNew, 3); (SUndo, 3); (SNew, 4); (SNew, 5); (SUndo, 5); (SUndo, 4); (SUndo, 2); (SNew, 6); (SNew, 7); (SNew, 8); (SNew, 9)].
Proof. vm_compute. repeat split. Qed.
