(* C13 over whole runs, additions - property theorems only.  Statements: Spec/C13_More_Spec.v (and Spec/C07_Shapes_Spec.v);
   proofs: Proofs/C07_Shapes.v, Proofs/C13_More.v. *)
From BV Require Import Base.Prelude Model.Block Model.ForkDB Model.Forkable Model.ForkableLookups
  Model.Burst Model.Hub Model.CursorResolver Model.Joining
  Spec.Consumer Spec.Universe Check.Burst_Check Check.C07_Check Spec.C06_Spec Spec.C07_Spec Spec.C09_Spec Spec.C13_Spec
  Spec.C07_Compose_Spec Spec.C07_Shapes_Spec Spec.C07_More_Spec Spec.C13_More_Spec
  Proofs.C07_Shapes Proofs.C13_More Proofs.C07_FiltersTarget Proofs.C07_FiltersCursor Proofs.C07_Final Proofs.C07_FinalCursor Proofs.C07_FinalTarget Proofs.C07_FullRefuted Proofs.C07_TargetRefuted Properties.C07_Compose Properties.C07_More.
Local Open Scope N_scope.

(* every filter, stop block, mode, world, schedule: the three shapes of the raw sequence of a run and what the handler
   chain makes of it (the statement of c07_run_shapes, listed under C13 as well: "filters only remove ... in unchanged
   order", "stop block ... whether S is reached in files or live") *)
Theorem c13_run_shapes : C07_run_shapes.
Proof. exact c07_run_shapes_proof. Qed.
Print Assumptions c13_run_shapes.

Theorem c13_run_over_raw : C13_run_over_raw.
Proof. exact c13_run_over_raw_proof. Qed.
Print Assumptions c13_run_over_raw.

(* a run that ends with stop-block-reached, any mode (number, cursor, target cursor), default and custom filters *)
Theorem c13_stop_over_raw : C13_stop_over_raw.
Proof. exact c13_stop_over_raw_proof. Qed.
Print Assumptions c13_stop_over_raw.

(* the stop clause at stream level in target-cursor mode: a run that ends with stop-block-reached holds canon from the start
   point up to block S itself (target cursor not beyond the stop block; no agreement hypothesis) *)
Theorem c13_stop_target : C13_stop_target.
Proof. exact c13_stop_target_proof. Qed.
Print Assumptions c13_stop_target.

(* ... and in cursor mode (the stop block a block of the chain beyond the cursor block) *)
Theorem c13_stop_cursor : C13_stop_cursor_holds.
Proof. exact c13_stop_cursor_holds_proof. Qed.
Print Assumptions c13_stop_cursor.

(* ---- non-vacuity: the runs of Properties/C07_More.v end with stop-block-reached in number, cursor and target-cursor mode *)
Example c13_more_nonvacuous :
  j_filter mx_c <> 1 /\ snd (stream_run mx_c cx_w [(3, 1); (12, 2)] 15 cx_merged []) = JStop /\
  j_filter mx_cc <> 1 /\ snd (stream_run mx_cc cx_w [(3, 1); (12, 2)] 15 cx_merged [cx_f9]) = JStop /\
  j_filter mx_c4 <> 1 /\ snd (stream_run mx_c4 cx_w [(3, 1); (12, 2)] 15 cx_merged []) = JStop.
Proof. repeat split; try discriminate; vm_compute; reflexivity. Qed.

(* the scope hypotheses of c13_stop_target / c13_stop_cursor hold of those runs (stop block 17; target cursor on 14 with LIB
   12; cursor below 17), whose other hypotheses are c07_more_nonvacuous_target / c07_more_nonvacuous_cursor; the runs end
   with stop-block-reached on block 17 *)
Example c13_stop_nonvacuous :
  rn (cu_blk cx_cu4) <= j_stop mx_c4 /\ cursor_lib_on cx_canon cx_cu4 (cx_b 14) /\
  rn (cu_blk cx_cu) < j_stop mx_cc /\ (exists bS, In bS cx_canon /\ bnum bS = j_stop mx_cc) /\
  map (fun e => bnum (eblk e)) (rev (fst (stream_run mx_c4 cx_w [(3, 1); (12, 2)] 15 cx_merged []))) <> [] /\
  hd_error (rev (map (fun e => bnum (eblk e)) (fst (stream_run mx_c4 cx_w [(3, 1); (12, 2)] 15 cx_merged [])))) = Some 17 /\
  hd_error (rev (map (fun e => bnum (eblk e)) (fst (stream_run mx_cc cx_w [(3, 1); (12, 2)] 15 cx_merged [cx_f9])))) = Some 17.
Proof.
  split; [vm_compute; discriminate|].
  split; [exists (cx_b 12); split; [vm_compute; tauto|]; split; [reflexivity|]; split; [vm_compute; discriminate | intros H; discriminate]|].
  split; [vm_compute; reflexivity|].
  split; [exists (cx_b 17); split; [vm_compute; tauto | reflexivity]|].
  split; [vm_compute; discriminate|]. split; vm_compute; reflexivity.
Qed.

(* final blocks only with a stop block, from a block number: a run that ends with stop-block-reached has delivered, from the
   start point on, exactly the canonical blocks up to block S itself, S last *)
Theorem c13_stop_final_num : C13_stop_final_num.
Proof. exact c13_stop_final_num_proof. Qed.
Print Assumptions c13_stop_final_num.

(* ... resumed from a cursor on a final block below S: exactly the canonical blocks above the cursor block up to S, S last *)
Theorem c13_stop_final_cursor : C13_stop_final_cursor.
Proof. exact c13_stop_final_cursor_proof. Qed.
Print Assumptions c13_stop_final_cursor.

(* ... and through a target cursor on a final block, not beyond S *)
Theorem c13_stop_final_target : C13_stop_final_target.
Proof. exact c13_stop_final_target_proof. Qed.
Print Assumptions c13_stop_final_target.

(* the scope hypothesis of c13_stop_target is needed (target cursor beyond the bundle of the stop block) *)
Theorem c13_stop_target_scope_needed : C13_stop_target_scope_needed.
Proof. exact c13_stop_target_scope_needed_proof. Qed.
Print Assumptions c13_stop_target_scope_needed.

(* the file source's stop marker needs the source's FIRST bundle (model fidelity W3-C13-M1): resumed from a cursor above the stop
   block (cursor LIB 16, stop 9) with the merged files ending at 10 (bundle 10), the file source polls for the bundle of 16:
   nothing is delivered and the stream waits; once that bundle exists (merged files up to 20) it ends with stop-block-reached *)
Example c13_first_bundle_example :
  let cu := mkCursor SNew (mkR 18 18) (mkR 18 18) (mkR 16 16) in
  let c := mkJ 2 5 10 1 0 (Some cu) 9 0 0 in
  stream_run c na_w [] 10 (filter (fun b => bnum b <? 10) na_canon) [] = ([], JNil) /\
  stream_run c na_w [] 20 (filter (fun b => bnum b <? 20) na_canon) [] = ([], JStop).
Proof. split; vm_compute; reflexivity. Qed.
