(* C01, addition: the property theorem for histories in which the LIB moves.
   Proofs live in Proofs/Fk/MovingLib*.v and Proofs/C02_Proofs.v. *)
From BV Require Import Base.Prelude Model.Block Model.ForkDB Model.Forkable Spec.Consumer Spec.Universe
  Spec.C01_Spec Spec.C01_Moving_Spec Proofs.C02_Proofs.
Local Open Scope N_scope.

(* partial: configured starting LIB (exclusive or inclusive) coherent with the history, any handler oracle
   (c01_full in Spec/C01_Spec.v is the full statement) *)
Theorem c01_moving_lib_partial : c01_moving_lib_statement.
Proof. exact c01_moving_lib_proved. Qed.
Print Assumptions c01_moving_lib_partial.

(* non-vacuity: a history with two fork switches, a LIB move in the same step as a reorganisation, a LIB
   jump of three blocks up to the head itself, purged blocks fed again, an unlinkable block and a block
   under the LIB meets every hypothesis; its run contains Undo, Irreversible and Stalled events *)
Definition mv_r0 : ref := mkR 1 10.
Definition mv_hist : list block :=
  [ mkBlock 2 11 1 10; mkBlock 3 12 2 10; mkBlock 4 12 2 10; mkBlock 5 14 4 11;
    mkBlock 3 12 2 10; mkBlock 9 15 8 10; mkBlock 7 5 77 3; mkBlock 6 13 3 11; mkBlock 11 15 6 12; mkBlock 12 16 5 14;
    mkBlock 13 17 11 17; mkBlock 14 18 13 17; mkBlock 15 18 13 17; mkBlock 16 19 15 18; mkBlock 2 11 1 10; mkBlock 14 18 13 17 ].
Definition mv_cfg (kept : N) (alltrig : bool) : config :=
  mkCfg 0 false false kept alltrig (mkFilter true true true true) None.
(* the handler fails at its 12th call: inside the second reorganisation *)
Definition mv_cfg_fail : config := mkCfg 0 false false 1 false (mkFilter true true true true) (Some 11).

(* inclusive mode: the LIB block itself (id 1) is fed first and is delivered as New + Irreversible *)
Definition mv_hist_incl : list block := mkBlock 1 10 100 9 :: mv_hist.
Definition mv_cfg_incl : config := mkCfg 0 true false 1 false (mkFilter true true true true) None.

Example c01_moving_nonvacuous :
  rooted_mode mv_r0 (LExcl mv_r0) /\ rooted_mode mv_r0 (LIncl mv_r0) /\
  moving_scope_b mv_r0 mv_hist = true /\ moving_scope_b mv_r0 mv_hist_incl = true /\
  map (fun x => map (fun e => (estep e, bid (eblk e))) (fst x)) (firstn 5 (fk_run mv_cfg_incl (fs_init (LIncl mv_r0)) mv_hist_incl)) =
    [ [(SNew, 1); (SIrr, 1)]; [(SNew, 2)]; [(SNew, 3)]; []; [(SUndo, 3); (SNew, 4); (SNew, 5); (SIrr, 2)] ] /\
  map (fun x => map (fun e => (estep e, bid (eblk e))) (fst x)) (fk_run (mv_cfg 0 false) (fs_init (LExcl mv_r0)) mv_hist) =
    [ [(SNew, 2)]; [(SNew, 3)]; []; [(SUndo, 3); (SNew, 4); (SNew, 5); (SIrr, 2)]; []; []; []; [];
      [(SUndo, 5); (SUndo, 4); (SNew, 3); (SNew, 6); (SNew, 11); (SIrr, 3); (SStalled, 4)]; [];
      [(SNew, 13); (SIrr, 6); (SIrr, 11); (SIrr, 13); (SStalled, 5); (SStalled, 9); (SStalled, 12)];
      [(SNew, 14)]; []; [(SUndo, 14); (SNew, 15); (SNew, 16); (SIrr, 15); (SStalled, 14)]; []; [] ] /\
  existsb (fun e => step_eqb (estep e) SUndo) (all_events (fk_run (mv_cfg 2 true) (fs_init (LExcl mv_r0)) mv_hist)) = true /\
  map (fun x => (map (fun e => (estep e, bid (eblk e))) (fst x), snd x)) (skipn 8 (fk_run mv_cfg_fail (fs_init (LExcl mv_r0)) mv_hist)) =
    [ ([(SUndo, 5); (SUndo, 4); (SNew, 3); (SNew, 6); (SNew, 11); (SIrr, 3)], RHandlerErr) ].
Proof. vm_compute. repeat split; auto. Qed.

(* discovery mode (no configured LIB, hold-until-LIB), any handler oracle *)
Theorem c01_discovery_partial : c01_discovery_statement.
Proof. exact c01_discovery_proved. Qed.
Print Assumptions c01_discovery_partial.

(* non-vacuity: four blocks are held (a child before its parents, a duplicate), the fifth block declares the
   height of its stored grand-parent: the LIB is discovered, the chain above it is delivered and the LIB is
   announced; later a multi-block LIB jump with a stalled fork, re-fed blocks, a block that is its own LIB *)
Definition dv_hist : list block :=
  [ mkBlock 3 12 2 10; mkBlock 1 10 100 8; mkBlock 2 11 1 8; mkBlock 2 11 1 8; mkBlock 4 12 2 10; mkBlock 5 13 4 11; mkBlock 9 20 77 15;
    mkBlock 6 14 5 13; mkBlock 3 12 2 10; mkBlock 1 10 100 8; mkBlock 7 15 6 15 ].
Definition dv_cfg (kept : N) (fail : option N) : config := mkCfg 0 false true kept false (mkFilter true true true true) fail.

Example c01_discovery_nonvacuous :
  disc_scope_b dv_hist = true /\ c_hold (dv_cfg 1 None) = true /\
  map (fun x => (map (fun e => (estep e, bid (eblk e))) (fst x), snd x)) (fk_run (dv_cfg 1 None) (fs_init LNone) dv_hist) =
    [ ([], ROk); ([], ROk); ([], ROk); ([], ROk); ([(SNew, 2); (SNew, 4); (SIrr, 1)], ROk); ([(SNew, 5); (SIrr, 2)], ROk); ([], ROk);
      ([(SNew, 6); (SIrr, 4); (SIrr, 5); (SStalled, 3)], ROk); ([], ROk); ([], ROk); ([(SNew, 7); (SIrr, 6); (SIrr, 7)], ROk) ] /\
  map (fun x => (map (fun e => (estep e, bid (eblk e))) (fst x), snd x)) (skipn 4 (fk_run (dv_cfg 0 (Some 4)) (fs_init LNone) dv_hist)) =
    [ ([(SNew, 2); (SNew, 4); (SIrr, 1)], ROk); ([(SNew, 5); (SIrr, 2)], RHandlerErr) ].
Proof. vm_compute. repeat split; reflexivity. Qed.
