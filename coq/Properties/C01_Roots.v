(* C01, addition: the property theorems for histories that may contain ROOTS (blocks whose parent id is
   empty).  Statements in Spec/C01_Roots_Spec.v; proofs in Proofs/Fk/RootsBase.v, Proofs/Fk/MovingLib*.v
   (whose store invariant no longer asks for non-empty parent ids) and Proofs/C01_Roots_Proofs.v. *)
From BV Require Import Base.Prelude Model.Block Model.ForkDB Model.Forkable Spec.Consumer Spec.Universe
  Spec.C01_Spec Spec.C01_Moving_Spec Spec.C01_Roots_Spec Proofs.C01_Roots_Proofs.
Local Open Scope N_scope.

(* partial: configured starting LIB (exclusive or inclusive) coherent with the history, any handler oracle;
   c01_moving_lib_partial WITHOUT the hypothesis "no empty parent id" (c01_full in Spec/C01_Spec.v is the
   full statement; the remaining gap: histories outside lib_ok_b, an incoherent configured LIB) *)
Theorem c01_moving_lib_roots_partial : c01_moving_lib_roots_statement.
Proof. exact c01_moving_lib_roots_proved. Qed.
Print Assumptions c01_moving_lib_roots_partial.

(* discovery mode (no configured LIB, hold-until-LIB), any handler oracle; c01_discovery_partial WITHOUT
   the hypothesis "no empty parent id" *)
Theorem c01_discovery_roots_partial : c01_discovery_roots_statement.
Proof. exact c01_discovery_roots_proved. Qed.
Print Assumptions c01_discovery_roots_partial.

(* the classes of c01_moving_lib_partial / c01_discovery_partial are sub-classes *)
Theorem c01_roots_scopes_subsume : roots_scopes_subsume.
Proof. exact roots_scopes_subsume_proved. Qed.
Print Assumptions c01_roots_scopes_subsume.

(* non-vacuity: a history with a root (id 50) fed FOUR times (before and after deliveries, before and after
   LIB moves), a child and a grand-child of the root (51, 52; 51 fed twice), a root under the LIB (60), a
   root at the head height fed twice (70), two fork switches and three LIB moves meets every hypothesis of
   the new theorem and NOT the hypothesis of c01_moving_lib_partial; the roots are never delivered as New,
   feeding them again delivers nothing (they are reported Stalled once when the LIB passes their height) *)
Definition rt_r0 : ref := mkR 1 10.
Definition rt_hist : list block :=
  [ mkBlock 50 12 0 10; mkBlock 2 11 1 10; mkBlock 3 12 2 10; mkBlock 50 12 0 10; mkBlock 51 13 50 10;
    mkBlock 4 12 2 10; mkBlock 5 14 4 11; mkBlock 50 12 0 10; mkBlock 51 13 50 10; mkBlock 60 5 0 3;
    mkBlock 6 15 5 14; mkBlock 50 12 0 10; mkBlock 52 16 51 10; mkBlock 70 16 0 16; mkBlock 70 16 0 16; mkBlock 7 16 6 14 ].
Definition rt_cfg (kept : N) (alltrig : bool) (fail : option N) : config :=
  mkCfg 0 false false kept alltrig (mkFilter true true true true) fail.
Definition rt_show (t : trace) := map (fun x => (map (fun e => (estep e, bid (eblk e))) (fst x), snd x)) t.

(* inclusive mode: the LIB block itself (id 1) is a ROOT; it is fed first (New + Irreversible), at once again,
   and once more at the end: the two repetitions deliver nothing *)
Definition rt_hist_incl : list block := mkBlock 1 10 0 9 :: mkBlock 1 10 0 9 :: rt_hist ++ [mkBlock 1 10 0 9].
Definition rt_cfg_incl : config := mkCfg 0 true false 3 false (mkFilter true true true true) None.

Example c01_roots_nonvacuous :
  rooted_mode rt_r0 (LExcl rt_r0) /\ rooted_mode rt_r0 (LIncl rt_r0) /\
  moving_scope2_b rt_r0 rt_hist = true /\ moving_scope_b rt_r0 rt_hist = false /\
  moving_scope2_b rt_r0 rt_hist_incl = true /\ moving_scope_b rt_r0 rt_hist_incl = false /\
  rt_show (fk_run (rt_cfg 0 false None) (fs_init (LExcl rt_r0)) rt_hist) =
    [ ([], ROk); ([(SNew, 2)], ROk); ([(SNew, 3)], ROk); ([], ROk); ([], ROk); ([], ROk);
      ([(SUndo, 3); (SNew, 4); (SNew, 5); (SIrr, 2)], ROk); ([], ROk); ([], ROk); ([], ROk);
      ([(SNew, 6); (SIrr, 4); (SIrr, 5); (SStalled, 3); (SStalled, 50); (SStalled, 51)], ROk);
      ([], ROk); ([], ROk); ([], ROk); ([], ROk); ([(SNew, 7)], ROk) ] /\
  rt_show (fk_run (rt_cfg 5 true None) (fs_init (LExcl rt_r0)) rt_hist) =
    [ ([], ROk); ([(SNew, 2)], ROk); ([(SNew, 3)], ROk); ([], ROk); ([], ROk); ([(SUndo, 3); (SNew, 4)], ROk);
      ([(SNew, 5); (SIrr, 2)], ROk); ([], ROk); ([], ROk); ([], ROk);
      ([(SNew, 6); (SIrr, 4); (SIrr, 5); (SStalled, 3); (SStalled, 50); (SStalled, 51)], ROk);
      ([], ROk); ([], ROk); ([], ROk); ([], ROk); ([(SNew, 7)], ROk) ] /\
  rt_show (skipn 6 (fk_run (rt_cfg 1 false (Some 3)) (fs_init (LExcl rt_r0)) rt_hist)) =
    [ ([(SUndo, 3); (SNew, 4)], RHandlerErr) ] /\
  rt_show (firstn 5 (fk_run rt_cfg_incl (fs_init (LIncl rt_r0)) rt_hist_incl)) =
    [ ([(SNew, 1); (SIrr, 1)], ROk); ([], ROk); ([], ROk); ([(SNew, 2)], ROk); ([(SNew, 3)], ROk) ] /\
  rt_show (skipn 17 (fk_run rt_cfg_incl (fs_init (LIncl rt_r0)) rt_hist_incl)) = [ ([(SNew, 7)], ROk); ([], ROk) ].
Proof. vm_compute. repeat split; auto. Qed.

(* non-vacuity, discovery: a root (50) and its child are held and fed again while no LIB is known; the LIB
   that is discovered (block 1) is itself a root, found as the stored grand-parent of block 4, and is fed
   again before and after its discovery; second history: a root that is its OWN LIB (declares its own
   height) is delivered through the initial inclusive path and fed again *)
Definition rd_hist : list block :=
  [ mkBlock 50 12 0 10; mkBlock 3 12 2 10; mkBlock 50 12 0 10; mkBlock 1 10 0 8; mkBlock 2 11 1 8; mkBlock 1 10 0 8; mkBlock 4 12 2 10;
    mkBlock 1 10 0 8; mkBlock 50 12 0 10; mkBlock 5 13 4 11; mkBlock 51 13 50 10; mkBlock 50 12 0 10; mkBlock 6 14 5 13; mkBlock 50 12 0 10 ].
Definition rd_hist_own : list block :=
  [ mkBlock 50 12 0 10; mkBlock 1 10 0 10; mkBlock 1 10 0 10; mkBlock 2 11 1 10; mkBlock 50 12 0 10; mkBlock 3 12 2 11; mkBlock 1 10 0 10; mkBlock 50 12 0 10 ].
Definition rd_cfg (kept : N) (fail : option N) : config := mkCfg 0 false true kept false (mkFilter true true true true) fail.

Example c01_discovery_roots_nonvacuous :
  disc_scope2_b rd_hist = true /\ disc_scope_b rd_hist = false /\ c_hold (rd_cfg 1 None) = true /\
  disc_scope2_b rd_hist_own = true /\ disc_scope_b rd_hist_own = false /\
  rt_show (fk_run (rd_cfg 1 None) (fs_init LNone) rd_hist) =
    [ ([], ROk); ([], ROk); ([], ROk); ([], ROk); ([], ROk); ([], ROk); ([(SNew, 2); (SNew, 4); (SIrr, 1)], ROk);
      ([], ROk); ([], ROk); ([(SNew, 5); (SIrr, 2)], ROk); ([], ROk); ([], ROk);
      ([(SNew, 6); (SIrr, 4); (SIrr, 5); (SStalled, 3); (SStalled, 50); (SStalled, 51)], ROk); ([], ROk) ] /\
  rt_show (skipn 6 (fk_run (rd_cfg 1 (Some 3)) (fs_init LNone) rd_hist)) =
    [ ([(SNew, 2); (SNew, 4); (SIrr, 1)], ROk); ([], ROk); ([], ROk); ([(SNew, 5)], RHandlerErr) ] /\
  rt_show (fk_run (rd_cfg 0 None) (fs_init LNone) rd_hist_own) =
    [ ([], ROk); ([(SNew, 1); (SIrr, 1)], ROk); ([], ROk); ([(SNew, 2)], ROk); ([], ROk); ([(SNew, 3); (SIrr, 2)], ROk); ([], ROk); ([], ROk) ].
Proof. vm_compute. repeat split; reflexivity. Qed.

(* OUTSIDE the property's quantifier (no LIB configured, no hold-until-LIB): a root fed twice IS delivered twice.
   Witness: the root 1, fed again at once and again after its child; all-blocks-trigger on.  The real
   Forkable does the same (notes_proof_R4/roots_refeed_test.go, TestR4PassThroughRootDeliveredAgain). *)
Definition pt_cfg : config := mkCfg 0 false false 0 true (mkFilter true true true true) None.
Definition pt_hist : list block := [ mkBlock 1 1 0 0; mkBlock 1 1 0 0; mkBlock 2 2 1 0; mkBlock 1 1 0 0; mkBlock 3 3 2 0 ].

Theorem c01_passthrough_roots_witness : c01_passthrough_roots_refuted.
Proof. exists pt_cfg, pt_hist. vm_compute. repeat split; reflexivity. Qed.
Print Assumptions c01_passthrough_roots_witness.

Example c01_passthrough_trace :
  rt_show (fk_run pt_cfg (fs_init LNone) pt_hist) =
    [ ([(SNew, 1)], ROk); ([(SNew, 1)], ROk); ([(SNew, 2)], ROk); ([(SNew, 1)], ROk); ([(SNew, 2); (SNew, 3)], ROk) ].
Proof. vm_compute. reflexivity. Qed.
