(* W1 conclusion audit (the complement of the U2 hypothesis audit): witnesses for places where the CONCLUSION of a
   theorem, a Spec definition or the checker's acceptance condition says less than (or something other than) the
   property text of properties.jsonl.  One module per property; every theorem `cxx_<what>_conclusion_weaker` is closed
   (vm_compute on concrete inputs).  Which witnesses are candidate defects of the library, and what the real code does
   there: notes_proof_W1.md.  GENERATED from notes_proof_W1/audit2_Cxx.v by notes_proof_W1/mkaudit2.py. *)

From BV Require Base.Prelude Model.FileSeq Model.Pipeline Spec.C10_Spec Spec.C11_Spec Check.C10_Check Check.C11_Check Properties.C11 Model.BlockIndex Check.C15_Check Base.Decimal Model.CursorCodec Model.Dbin Model.OneBlockName Spec.C16_Spec Check.C16_Check.

Module C11.
(* W1 conclusion audit, C11 (every fault ends a source cleanly): places where the checker's PROPERTY bit says less
   than the property text.  Every theorem is closed (vm_compute).  See notes_proof_W1/notes_C11.md. *)
Import BV.Base.Prelude BV.Model.FileSeq BV.Model.Pipeline BV.Spec.C10_Spec BV.Spec.C11_Spec BV.Check.C10_Check BV.Check.C11_Check BV.Properties.C11.
Local Open Scope N_scope.

(* the layout of the non-vacuity example of Properties/C11.v: start 2, bundle 5, stop 7; the reference run delivers
   2 3 4 5 7 9 and ends with stop-block-reached *)
Definition c11w_calls (l : list blk) : list (blk * N) := map (fun b => (b, c10_tag 0 b)) l.
Definition c11w_d : list blk := fst (expected nv_lay).

(* ------------------------------------------------------------------ "the handler is not called again afterwards".
   Fault: the handler call number 1 (block 3) fails.  Observation: the source went on and called the handler for 4 and
   5 as well, then reported the handler's error.  The PROPERTY bit of the checker accepts it ([c11_check] = true): when a
   failed call is in the log it only asks for the error class, not that the failing call is the LAST one.  Only the
   correspondence bit ([c11_model_ok], theorem c11_bound) rejects, so such a regression is reported as a model mismatch
   (verdict 1), not as a violation of the clause.  Strengthening implemented in Check/C11_Check.v: [length calls = S n]. *)
Theorem c11_call_after_failed_call_conclusion_weaker :
  map b_num c11w_d = [2; 3; 4; 5; 7; 9] /\
  let calls := c11w_calls (firstn 4 c11w_d) in
  c11_model_ok 0 nv_lay (FHandler 1) 7 false calls 7 = false /\
  (* the property bit as it was before the W1 strengthening: every conjunct of c11_check but the new one *)
  (let blocks := map fst calls in
   forallb (fun v => snd v =? c10_tag 0 (fst v)) calls && is_prefix blk_eqb blocks (eligible nv_lay) &&
   linkedb 0 blocks && (Nat.ltb 1 (length calls)) && (7 =? 7) && negb (7 =? 0)) = true /\
  (* ... and after it *)
  c11_check 0 nv_lay (FHandler 1) 7 false calls 7 = false /\
  c11_check 0 nv_lay (FHandler 1) 7 false (c11w_calls (firstn 2 c11w_d)) 7 = true.
Proof. vm_compute. repeat split; reflexivity. Qed.
Print Assumptions c11_call_after_failed_call_conclusion_weaker.

(* ------------------------------------------------------------------ "the reported error identifies the cause".
   The harness maps every error it does not recognise to class 3 ("other": header / read / decode), and for header and
   read faults the checker asks for class 3.  So for those fault sites ANY error that is not nil, stop-block-reached,
   non-sequential or one of the other injected faults "identifies the cause" - the clause is checked as "some error".
   (Observed on the real code, TestW1_C11_ErrorTextPerDamage: all 11 damage classes name the file and the failing
   operation; a zero length prefix is reported as "failed reading next dbin message: %!s(<nil>)".)  The witness shows the
   acceptance: a read fault at message 2 of file 1 accepted with class 3, whatever the text was. *)
Theorem c11_error_class_other_conclusion_weaker :
  c11_check 0 nv_lay (FRead 1 2) 3 false (c11w_calls (firstn 1 c11w_d)) 3 = true /\
  c11_model_ok 0 nv_lay (FRead 1 2) 3 false (c11w_calls (firstn 1 c11w_d)) 3 = true.
Proof. vm_compute. split; reflexivity. Qed.
Print Assumptions c11_error_class_other_conclusion_weaker.
End C11.

Module C15.
(* W1 conclusion audit, C15 (block indexes; indexed file streaming): places where the checker's PROPERTY bit says less
   than the property text.  Closed (vm_compute).  See notes_proof_W1/notes_C15.md. *)
Import BV.Base.Prelude BV.Model.BlockIndex BV.Check.C15_Check.
Local Open Scope N_scope.

(* chain 0..29, one block per number, key "a" (byte 97) on block 5 only; bundles of 10; index files of size 10 for
   [0,10) and [10,20): the index covers bundles 0 and 10 and ends at 20; bundle FILES exist for 0, 10 and 20. *)
Definition c15w_chain : feed := map (fun n => (if n =? 5 then [[97]] else [[98]], n)) (map N.of_nat (seq 0 30)).
Definition c15w_m (k : str) : bool := eqb_list k [97].
Definition c15w_names : list (N * N) := [(0, 10); (10, 10)].

(* the run of the MODEL (= the real file source on this input): start block 0, the match 5, then everything from the
   first uncovered bundle (20) on; bundle 10 (covered, no match) is skipped *)
Definition c15w_store : mstore := fst (build_store 0 c15w_chain [(10, None, 30)]).
Definition c15w_model :=
  file_source_run prov (gquery 0 c15w_store [10] c15w_m 10) 0 0 10 (fun _ => false)
    (bundle_exists c15w_chain 10) (bundle_blocks c15w_chain 10) 10 10 (Some prov0) [].

(* "in bundles the index covers other than the LAST AVAILABLE ones, nothing besides these ...": the property bit exempts
   the last bundle the INDEX covers (b + bundle < u), whether or not it is one of the last available bundle FILES.  Here
   bundle 10 is covered by the index, is not the last available file (file 20 exists), yet a delivery that hands the
   consumer all ten non-matching blocks of bundle 10 is accepted by the property bit.  Harmless for the verdict (the
   correspondence bit compares with the model's run), recorded as a weaker conclusion. *)
Theorem c15_last_covered_bundle_exempt_conclusion_weaker :
  fst c15w_model = [0; 5; 20; 21; 22; 23; 24; 25; 26; 27; 28; 29] /\ snd c15w_model = EWait 30 /\
  map (fun f => (if_low f, if_size f)) c15w_store = [(10, 10); (0, 10)] /\
  bundle_exists c15w_chain 10 20 = true /\
  stream_prop c15w_chain [10] c15w_m 10 0 0 [] false c15w_names
    ([0; 5] ++ map N.of_nat (seq 10 20)) 1 30 = true /\
  (* the same clause does reject a stray block in a bundle that is not the last covered one *)
  stream_prop c15w_chain [10] c15w_m 10 0 0 [] false c15w_names
    ([0; 5; 7] ++ map N.of_nat (seq 20 10)) 1 30 = false.
Proof. vm_compute. repeat split; reflexivity. Qed.
Print Assumptions c15_last_covered_bundle_exempt_conclusion_weaker.
End C15.

Module C16.
(* W1 conclusion audit, C16 (block files, one-block file names, fetch): places where the checker's acceptance
   condition says less than the property text.  Every theorem is closed (vm_compute on concrete inputs).
   See notes_proof_W1/notes_C16.md. *)
Import BV.Base.Prelude BV.Base.Decimal BV.Model.CursorCodec BV.Model.Dbin BV.Model.OneBlockName BV.Spec.C16_Spec BV.Check.C16_Check.
Local Open Scope N_scope.

(* ------------------------------------------------------------------ W1-C16-1: "never a crash" and the EHuge tolerance.
   File: content type "T", three 2-byte messages (26 bytes).  ONE corrupted byte: the high byte of the length prefix
   of message 2 (offset 14) 0 -> 255.  The dependency's ReadMessage then makes a buffer of 4 278 190 082 bytes for a
   stream that has 8 bytes left (model: [pb_len] of the padded buffer; real code: make([]byte, 0xff000002), observed
   runtime.MemStats.Sys = 4100 MiB, and "fatal error: out of memory" - which recover() cannot catch - when the address
   space is limited to 2 GiB: TestW1_C16_HugePrefix).  The harness never lets the real reader see such a prefix: it stops
   the read loop before that call and reports the end EHuge, which [oend_matches] pairs with the model's OFuel, and the
   property clause is evaluated on the blocks delivered before it only.  The checker accepts the observation (verdict 0):
   the crash-freedom clause of the property is NOT exercised on the one class of single-byte corruptions that is a
   resource bomb. *)
Definition c16h_ct : str := [84].
Definition c16h_ms : list str := [[1; 7]; [2; 8]; [3; 9]].
Definition c16h_file : str := file_bytes c16h_ct c16h_ms.
Definition c16h_bad : str := corrupt c16h_file 14 255.

(* the stream the reader sees when it asks for message 2 of the corrupted file *)
Definition c16h_rest : str := skipn 14 c16h_bad.

Theorem c16_huge_prefix_conclusion_weaker :
  length c16h_file = 26%nat /\ nth 14 c16h_file 0 = 0 /\
  (* what the (model of the) dependency allocates for the next message, and what it then reports *)
  (let '(m, _, e) := dbin_read_message c16h_rest in
   pb_len m = 4278190082 /\ lenN (pb_data m) = 8 /\ e = EUnexp) /\
  (* the model's own verdict on the whole corrupted file: one block, then an error - "an error or a correct prefix" *)
  read_file toy_dec c16h_bad = (Some (mkHdr 1 c16h_ct), [(1, 7)], OErr) /\
  (* the observation the harness produces (read loop stopped after 1 ReadMessage call, end = huge) is accepted *)
  fault_verdict c16h_ct c16h_ms c16h_file 3
    (mkFobs [CV 14 255 255] (Some 1) CSame [IRef 0] EHuge [IRef 0] EHuge) (FCorrupt 14 255) = 0.
Proof. vm_compute. repeat split; reflexivity. Qed.
Print Assumptions c16_huge_prefix_conclusion_weaker.

(* ------------------------------------------------------------------ fetch: "returns that block or not-found".
   The property clause of [query_verdict] accepts QNotFound unconditionally - also for a block that IS stored, intact,
   under exactly the requested number and id (the answer the model itself gives is FBlock).  Only the correspondence
   bit (1) notices.  No real-code divergence was found behind it (notes_C16.md); the witness records that the PROPERTY
   bit of the checker is safety-only. *)
Definition c16f_store : list (str * str) :=
  [(block_file_name 5 [97] [112] 3 [103], file_bytes [84] [[1; 7]])].

Theorem c16_fetch_notfound_always_accepted_conclusion_weaker :
  fetch_one_block (fun m => Some m) c16f_store 5 [97] = FBlock [1; 7] /\
  query_verdict c16f_store [[1; 7]] [(5, [97])] false (mkQuery 5 [97] QNotFound) = 1 /\   (* 1 = mismatch only; property bit (2) clear *)
  merged_query_verdict [5; 6; 7] (mkQuery 6 [] QNotFound) = 1.
Proof. vm_compute. repeat split; reflexivity. Qed.
Print Assumptions c16_fetch_notfound_always_accepted_conclusion_weaker.

(* ------------------------------------------------------------------ round trip: the property bit looks at the blocks only.
   [round_verdict] evaluates [round_ok] on the blocks read by Read(); what ReadAsBlockMeta delivered enters the
   correspondence bit only.  Observation: Read() delivers the block, ReadAsBlockMeta delivers NOTHING and ends with an
   error (a meta reader that lost every block): verdict 1 (mismatch), property bit clear. *)
Definition c16r_b : blk :=
  mkBlk 7 [97; 98] [97; 97] (Some (1700000000, 5)%Z) 6 0 0%Z [] 0 6 (Some (mkAny [116; 47; 84] [1; 2; 3])).

Theorem c16_round_meta_not_in_property_bit_conclusion_weaker :
  exists flen fsum,
    round_verdict [c16r_b] [Some [9; 9]] flen fsum true false (Some [116; 47; 84]) [None] EEof [None] EEof = 0 /\
    round_verdict [c16r_b] [Some [9; 9]] flen fsum true false (Some [116; 47; 84]) [None] EEof [] EErr = 1.
Proof.
  exists (lenN (fst (write_all (enc_lookup [c16r_b] [Some [9; 9]]) [c16r_b]))),
         (wsum (fst (write_all (enc_lookup [c16r_b] [Some [9; 9]]) [c16r_b]))).
  vm_compute. split; reflexivity.
Qed.
Print Assumptions c16_round_meta_not_in_property_bit_conclusion_weaker.
End C16.

