(* W1 conclusion audit (the complement of the U2 hypothesis audit): witnesses for places where the CONCLUSION of a
   theorem, a Spec definition or the checker's acceptance condition says less than (or something other than) the
   property text of properties.jsonl.  One module per property; every theorem `cxx_<what>_conclusion_weaker` is closed
   (vm_compute on concrete inputs).  Which witnesses are candidate defects of the library, and what the real code does
   there: notes_proof_W1.md.  GENERATED from notes_proof_W1/audit2_Cxx.v by notes_proof_W1/mkaudit2.py. *)

From BV Require Base.Prelude Model.Block Model.ForkDB Model.Forkable Model.ForkableLookups Model.Burst Model.Hub Model.HubSubs Model.HubSched Spec.Consumer Spec.C08_Spec Spec.C08_Sched_Spec Check.Fk_Check Check.Burst_Check Check.C08_Check Check.C08S_Check Spec.Universe Spec.ForkChoice Model.FileSeq Model.Pipeline Spec.C10_Spec Check.C10_Check Spec.C11_Spec Check.C11_Check Properties.C11 Model.Lifecycle Spec.C12_Spec Check.C12_Check Base.Decimal Model.CursorCodec Spec.C14_Spec Model.BlockIndex Check.C15_Check Model.Dbin Model.OneBlockName Spec.C16_Spec Check.C16_Check Spec.C18_Spec Spec.C18_Moving_Spec Check.Fk_Props_Check Model.Range Spec.C19_Spec Model.BlockServer Spec.C20_Spec Check.C20_Check.

Module C08.
(* W1 — conclusion audit of C08 (sequence level: Spec/C08_Spec.v, Check/C08_Check.v; schedule level:
   Spec/C08_Sched_Spec.v, Check/C08S_Check.v).  Closed witnesses of the places where a Spec conclusion or a
   checker's acceptance condition says less than (or something else than) the property text.  Details and the
   replays on the real code: notes_proof_W1/notes_C08.md, notes_proof_W1/c08_audit_test.go.
   Compiles alone:  cd coq && coqc -Q . BV ../notes_proof_W1/audit2_C08.v *)
Import BV.Base.Prelude BV.Model.Block BV.Model.ForkDB BV.Model.Forkable BV.Model.ForkableLookups BV.Model.Burst BV.Model.Hub BV.Model.HubSubs BV.Model.HubSched.
Import BV.Spec.Consumer BV.Spec.C08_Spec BV.Spec.C08_Sched_Spec.
Import BV.Check.Fk_Check BV.Check.Burst_Check BV.Check.C08_Check BV.Check.C08S_Check.
Local Open Scope N_scope.

(* ------------------------------------------------------------------------------------------------
   The acceptance condition of Check/C08_Check.v AS AUDITED (verbatim copy of c08_sub_ok / c08_prop of
   the original file, renamed w_sub_ok / w_prop), so that the witnesses below do not depend on whether
   notes_proof_W1/check_C08.diff has been applied to Check/C08_Check.v. *)
Definition w_sub_ok (mode : N) (log : list event) (log_at : list N) (o : sub_obs) : bool :=
  if negb (so_served o) then true else
  let recv := concat (so_chunks o) in
  let nburst := N.to_nat (so_cap o - 100) in
  let burst := if so_kind o =? 3 then [] else firstn nburst recv in
  let rest := if so_kind o =? 3 then recv else skipn nburst recv in
  (* after its burst a subscription receives every later hub event, in order, exactly once *)
  (if so_dropped o then
     (if mode =? 0 then is_prefix rest (skipn (N.to_nat (nth (N.to_nat (so_at o)) log_at 0)) log) else true)
   else
     (if mode =? 0 then events_eqb rest (skipn (N.to_nat (nth (N.to_nat (so_at o)) log_at 0)) log)
      else is_suffix_from (length log) rest log)) &&
  (* burst + later events leave the consumer where a consumer that never disconnected is *)
  (so_dropped o || (so_kind o =? 3) ||
   match cons_fold cons0 log with
   | None => false
   | Some cm =>
       if (so_kind o =? 2) || (so_kind o =? 1) then
         (* from a number / through a cursor: a consumer starting empty at `start` *)
         match fold_tolerant (so_start o) cons0 recv with
         | Some c' => eqb_list (ids (filter (fun b => so_start o <=? bnum b) (cs_stack c')))
                               (ids (filter (fun b => so_start o <=? bnum b) (cs_stack cm)))
         | None => false end
       else
         (* from a cursor: the consumer holds what the stream had delivered at the cursor's event *)
         match so_cur o with
         | None => true
         | Some cu =>
             let matches_cursor (e : event) :=
               ref_eqb (ecblk e) (cu_blk cu) &&
               (step_eqb (estep e) (cu_step cu) || (step_eqb (cu_step cu) SNew && step_eqb (estep e) SNewIrr)) in
             let fix upto (l : list event) (acc : list event) : option (list event) :=
               match l with
               | [] => None
               | e :: l' => if matches_cursor e then Some (acc ++ [e]) else upto l' (acc ++ [e])
               end in
             match upto log [] with
             | None => true
             | Some pre =>
                 match cons_fold cons0 pre with
                 | None => false
                 | Some ck0 =>
                     let ck := mkCons (cs_stack ck0) (length (filter (fun b => bnum b <=? rn (cu_lib cu)) (cs_stack ck0))) true in
                     match fold_tolerant 0 ck recv with
                     | Some c' => eqb_list (ids (cs_stack c')) (ids (cs_stack cm))
                     | None => false end
                 end
             end
         end
   end).

Definition w_prop (k : c08_case) : bool :=
  match k with
  | C08Skip => true
  | mkC08 mode first kept boot live ops log log_at subs nsubs pushed =>
      forallb (w_sub_ok mode log log_at) subs &&
      (* every served subscription that was not dropped is still registered *)
      (N.of_nat (length (filter (fun o => so_served o && negb (so_dropped o)) subs)) =? nsubs)
  end.


(* ================================================================================================
   1. Spec/C08_Spec.v, C08_exactly_once (and C08_lone, C08_registration_atomic, the c08_sched_* statements
      through push_events / hub_push): "every event the hub produces afterwards" is [push_events], i.e. what
      Model/Hub.v [hub_live] returns.  hub_live returns NO event for a block processed while the hub is
      not ready, including the block that MAKES it ready, although the hub's Forkable processes that
      block (ForkableHub.bootstrap calls forkable.ProcessBlock, whose handler is hub.processBlock: the fan-out).
      The statements are stated for every start state sh0 (ready or not); the real ForkableHub serves
      SourceFromBlockNum before it is ready (recorded by U2 for C09: NotReadyServes).

      Input (inside "every subscription obtained from the hub", "for every history"): first streamable 1,
      kept 5, linear chain (block k declares k-2 final), one-block files 1..30, live block 40 (hole 31..39: not
      ready, head 30, LIB 28); SourceFromBlockNum(26): burst 26..30; then live 31 (linkable: the hub becomes
      ready on it), 32, 33.
      Model: the subscription holds burst, New 32, Irr 30, New 33, Irr 31: the Forkable's events for 31
      (New 31, Irr 29) are produced — the hub's Forkable state after the push is fk_step's state — and
      handed to nobody; what the subscription holds is not even a consumable stream (New 32 on top of 30).
      REAL code (TestW1_C08_SubscribedBeforeReadyReceivesEverything): the subscriber receives new#31,
      irreversible#29, new#32, ...: the code conforms to the text, the Spec's [expected] says less. *)
Definition a_blk (n : N) : block := mkBlock (1000 + n) n (1000 + n - 1) (n - 2).
Definition a_files : list block := map (fun k => a_blk (N.of_nat k)) (seq 1 30).
Definition a_h1 : hub := let '(h, _, _) := hub_live 1 5 hub_init (PBlocks a_files) (a_blk 40) in h.

Theorem c08_ready_transition_events_conclusion_weaker :
  exists first kept sh0 r b post' burst evs s',
    let post := OPush b :: post' in
    let expected := burst ++ map QEv (push_events first kept (sh_hub sh0) (pushes post)) in
    (* the hypothesis of c08_exactly_once holds, and its conclusion (not dropped: taken ++ pending = expected) *)
    h_ready (sh_hub sh0) = false /\
    request_burst (sh_hub sh0) r = Some burst /\
    (exists s got, hview (run first kept (start sh0) (OSub r :: post)) 0 = Some (s, got) /\
                   ms_dropped s = false /\ got ++ ms_queue s = expected) /\
    (* the hub's Forkable processes b and produces events for it ... *)
    fk_step (hub_config first kept) (h_f (sh_hub sh0)) b = (s', evs, ROk) /\
    h_f (fst (hub_push first kept (sh_hub sh0) b)) = s' /\
    map (fun e => (estep e, bnum (eblk e))) evs = [(SNew, 31); (SIrr, 29)] /\
    (* ... which the Spec does not count among "the events the hub produces": no subscription gets them *)
    snd (hub_push first kept (sh_hub sh0) b) = [] /\
    (* the text fails on what the Spec accepts: [expected] is not a stream a consumer can follow (block 32
       arrives on top of 30), with the Forkable's events for b it is *)
    cons_fold cons0 (qitem_events expected) = None /\
    cons_fold cons0 (qitem_events burst ++ evs ++ push_events first kept (sh_hub sh0) (pushes post)) <> None.
Proof.
  exists 1, 5, (mkSH a_h1 []), (RNum 26), (a_blk 31), [OPush (a_blk 32); OPush (a_blk 33)].
  eexists. eexists. eexists. cbv zeta.
  split; [vm_compute; reflexivity|].
  split; [vm_compute; reflexivity|].
  split; [eexists; eexists; vm_compute; repeat split; reflexivity|].
  split; [vm_compute; reflexivity|].
  split; [vm_compute; reflexivity|].
  split; [vm_compute; reflexivity|].
  split; [vm_compute; reflexivity|].
  split; [vm_compute; reflexivity|].
  vm_compute. discriminate.
Qed.
Print Assumptions c08_ready_transition_events_conclusion_weaker.

(* ================================================================================================
   2. Spec/C08_Sched_Spec.v, C08_sched_no_deadlock ("the producer is never blocked by a subscriber: inside
      its critical section its next step is always enabled"), C08_sched_isolation, C08_sched_hub_unaffected:
      the clause "terminated with an error and never delays ... delivery to the hub or to other subscribers".
      In Model/HubSched.v the termination of an overflowed subscription is the producer step PDrop -> PFan:
      a filter of g_subs, enabled iff subscribersLock is free; the subscription's shutter is "not modelled".
      The lemma below is the whole content of that step: no datum of the dropped subscriber (request, channel,
      what its consumer did) occurs in it — there is no subscriber code on the producer's path in the model.
      REAL code: processBlock calls sub.Shutdown(err) on the producer goroutine, under the Forkable's write
      lock; shutter.Shutdown runs the subscription's OnTerminating / OnTerminated callbacks synchronously, and
      those are code of the slow subscriber (bstream.Source exposes OnTerminating / OnTerminated).
      TestW1_C08_TerminationCallbackDelaysHubAndOthers: while the callback runs, ProcessBlock does not return,
      a later-registered healthy subscriber is not offered the event, SourceFromBlockNum and HeadInfo wait;
      TestW1_C08_TerminationCallbackUsingHubWedgesIt: a callback that calls hub.HeadInfo() deadlocks the hub for good.
      No Coq statement can exhibit that (the observable is outside the model); the lemma pins down what
      the conclusion of c08_sched_no_deadlock rests on. *)
Theorem c08_drop_step_has_no_subscriber_code_conclusion_weaker :
  forall first kept st e k todo evs,
    g_ppc st = PDrop e k todo evs -> g_mutex st = None ->
    cstep true first kept st TProd
    = set_subs (set_ppc st (PFan e todo evs)) (filter (fun j => negb (Nat.eqb j k)) (g_subs st)).
Proof.
  intros first kept st e k todo evs Hpc Hm. unfold cstep, prod_step, mutex_free. rewrite Hpc, Hm. reflexivity.
Qed.
Print Assumptions c08_drop_step_has_no_subscriber_code_conclusion_weaker.

(* ... and a whole run: one requester whose consumer never takes a step, a producer that processes 52 blocks
   alone: the subscription overflows, is dropped and unsubscribed, the producer finishes its script — the
   schedule contains no step of the dropped subscriber after its registration *)
Definition b_blk (n : N) : block := mkBlock n n (n - 1) (n - 2).
Definition b_h0 : hub :=
  let '(h, _, _) := hub_live 2 0 hub_init (PBlocks [b_blk 2; b_blk 3; b_blk 4]) (b_blk 5) in h.
Definition b_script : list block := map (fun k => b_blk (N.of_nat k)) (seq 6 52).
Definition b_sched : list tid := repeat (TReq 0) 8 ++ repeat TProd 2000.

Theorem c08_drop_run_without_subscriber_steps_conclusion_weaker :
  let st := crun true 2 0 (cinit b_h0 b_script [RNum 4]) b_sched in
  g_ppc st = PIdle /\ g_script st = [] /\ g_subs st = [] /\ g_order st = [0%nat] /\
  (exists c s, nth_error (g_reqs st) 0 = Some c /\ r_sub c = Some s /\ ms_dropped s = true /\
               r_got c = [] /\ N.of_nat (length (ms_queue s)) = ms_cap s) /\
  forallb (fun t => match t with TCons _ => false | _ => true end) b_sched = true.
Proof.
  cbv zeta. split; [vm_compute; reflexivity|]. split; [vm_compute; reflexivity|].
  split; [vm_compute; reflexivity|]. split; [vm_compute; reflexivity|].
  split; [eexists; eexists; vm_compute; repeat split; reflexivity|]. vm_compute; reflexivity.
Qed.
Print Assumptions c08_drop_run_without_subscriber_steps_conclusion_weaker.

(* ================================================================================================
   3. Check/C08_Check.v, c08_sub_ok / c08_prop (also used by Check/C08S_Check.v, c08s_prop, with mode 1):
      with-forks subscriptions (so_kind = 3).
      (a) the burst so_forks is not read by the acceptance condition at all;
      (b) in concurrent mode the later events only have to be SOME suffix of the hub's log, and the clause
          that ties the burst to that suffix (the consumer fold) is switched off for kind 3.
      So an observation in which a with-forks subscription lost every event between its snapshot and its
      registration is accepted.  Ready hub (head 5), log = tracker; the subscription is computed after
      block 6 (burst = blocks 4, 5, 6) and receives only the events of block 8: New 7 / Irr 5 are lost. *)
Definition c_tracker_burst : list event :=
  match request_burst b_h0 (RNum 3) with Some q => qitem_events q | None => [] end.
Definition c_log : list event := c_tracker_burst ++ push_events 2 0 b_h0 [b_blk 6; b_blk 7; b_blk 8].
Definition c_h6 : hub := hub_after 2 0 b_h0 [b_blk 6].
Definition c_forks : list block :=
  match request_burst c_h6 (RForks 4) with Some q => qitem_blocks q | None => [] end.
Definition c_ev7 : list event := push_events 2 0 c_h6 [b_blk 7].
Definition c_ev8 : list event := push_events 2 0 (hub_after 2 0 c_h6 [b_blk 7]) [b_blk 8].
Definition c_sub : sub_obs := mkSubObs 3 0 4 None true [c_ev8] c_forks (100 + N.of_nat (length c_forks)) false.

Theorem c08_checker_forks_join_conclusion_weaker :
  exists mode first kept log subs nsubs o e,
    (* accepted by the property checker (the clause of run.py: verdict code 2 is never raised) *)
    w_prop (mkC08 mode first kept [] [] [] log [] subs nsubs 3) = true /\
    subs = [o] /\ so_kind o = 3 /\ so_served o = true /\ so_dropped o = false /\
    (* although: e is an event of the hub's log for a block at or above the requested start that is NOT in
       the burst (so it was produced after the snapshot), and the subscription never received it *)
    In e log /\ estep e = SNew /\ bnum (eblk e) = 7 /\ so_start o <= bnum (eblk e) /\
    memN (bid (eblk e)) (map bid (so_forks o)) = false /\
    existsb (event_eqb e) (concat (so_chunks o)) = false.
Proof.
  exists 1, 2, 0, c_log, [c_sub], 1, c_sub. eexists.
  split; [vm_compute; reflexivity|].
  split; [reflexivity|]. split; [reflexivity|]. split; [reflexivity|]. split; [reflexivity|].
  split; [vm_compute; do 5 right; left; reflexivity|].
  split; [vm_compute; reflexivity|]. split; [vm_compute; reflexivity|].
  split; [vm_compute; discriminate|].
  split; vm_compute; reflexivity.
Qed.
Print Assumptions c08_checker_forks_join_conclusion_weaker.

(* (a) as a statement of its own: the acceptance condition is the same whatever the with-forks burst is
   (empty, duplicated, blocks below the requested number, ...) *)
Theorem c08_checker_ignores_forks_burst_conclusion_weaker :
  forall mode log log_at kind at_ st cur served chunks cap dropped forks1 forks2,
    w_sub_ok mode log log_at (mkSubObs kind at_ st cur served chunks forks1 cap dropped)
    = w_sub_ok mode log log_at (mkSubObs kind at_ st cur served chunks forks2 cap dropped).
Proof. intros. reflexivity. Qed.
Print Assumptions c08_checker_ignores_forks_burst_conclusion_weaker.

(* ================================================================================================
   4. Check/C08_Check.v, c08_sub_ok: "terminated with an error" is demanded of "a subscriber that falls behind
      by more than its buffer"; every other subscription "receives ... every event".  The acceptance condition
      for a subscription reported dropped is: sequential mode, what it received is a prefix; concurrent mode,
      [true].  A subscription terminated with an error right after its registration, holding only its burst
      (3 items, capacity 103), while the hub goes on producing events, is accepted.  (Check/C08S_Check.v has
      drop_justified for the cases of its own stage.) *)
Definition d_burst : list event :=
  match request_burst c_h6 (RNum 4) with Some q => qitem_events q | None => [] end.
Definition d_sub : sub_obs := mkSubObs 2 0 4 None true [d_burst] [] (100 + N.of_nat (length d_burst)) true.

Theorem c08_checker_spurious_drop_conclusion_weaker :
  exists mode first kept log o,
    w_prop (mkC08 mode first kept [] [] [] log [] [o] 0 3) = true /\
    so_served o = true /\ so_dropped o = true /\
    (* it never fell behind: 3 items were ever put into a channel of capacity 103 *)
    N.of_nat (length (concat (so_chunks o)) + length (so_forks o)) = 3 /\ so_cap o = 103 /\
    (* and the hub produced 4 more events after its burst (New 7, Irr 5, New 8, Irr 6) that it never received *)
    length log = (length c_tracker_burst + 2 + 4)%nat.
Proof.
  exists 1, 2, 0, c_log, d_sub.
  split; [vm_compute; reflexivity|]. split; [reflexivity|]. split; [reflexivity|].
  split; [vm_compute; reflexivity|]. split; vm_compute; reflexivity.
Qed.
Print Assumptions c08_checker_spurious_drop_conclusion_weaker.

(* ================================================================================================
   5. Not weaker — STRONGER than the code, recorded because the text's "terminated" has no counterpart in the
      models: a dropped subscription keeps its queue and its consumer goes on receiving (Model/HubSubs.v
      drain_nth, Model/HubSched.v cons_step; C08_sched_complete_delivery: a dropped subscriber HAS RECEIVED
      burst ++ evs1 once "finished").  Below: subscription 0 never reads, is dropped by the 51st push with 102
      items queued, and a drain AFTER the drop hands all 102 to its consumer.
      REAL code (TestW1_C08_DroppedConsumerLosesBufferedItems): Subscription.run leaves its loop as soon as
      the shutter is terminating: a consumer blocked in its first handler call has received 1 item, the
      other cap (or cap - 1) items stay in the channel for ever.  The text asks nothing for the buffered
      items of a terminated subscriber: harmless; the state [finished] of C08_sched_complete_delivery with a
      dropped subscription is simply not reachable by the real code (Check/C08S_Check.v: ss_skip). *)
Definition e_ops : list op :=
  [OSub (RNum 4)] ++ map (fun k => OPush (b_blk (N.of_nat k))) (seq 6 60) ++ [ODrain 0].

Theorem c08_dropped_consumer_drains_in_model_only :
  exists s got, hview (run 2 0 (start (mkSH b_h0 [])) e_ops) 0 = Some (s, got) /\
                ms_dropped s = true /\ ms_cap s = 102 /\ length got = 102%nat /\ ms_queue s = [].
Proof. eexists. eexists. vm_compute. repeat split; reflexivity. Qed.
Print Assumptions c08_dropped_consumer_drains_in_model_only.
End C08.

Module C09.
(* W1 conclusion audit, C09.  Standalone: coqc -Q . BV ../notes_proof_W1/audit2_C09.v
   The witnesses are about the ACCEPTANCE CONDITION of the C09 property checker (Check/Hub_Check.v, c09_follow /
   c09_prop, verdict code 2) as it stood when the audit began.  So that this file keeps compiling when the checker is
   strengthened (check_C09.diff), the audited definitions are copied VERBATIM below under the names a2_offered,
   a2_universe_of, a2_follow_orig, a2_in_scope, a2_prop_orig (original: /tmp/ag/W1/verif/coq/Check/Hub_Check.v,
   "property checker over the observation").  Observations are built from the model's own run (a2_obs: what a faithful
   hub shows) and then altered at ONE place; every altered observation contradicts a clause of the property text and is
   still accepted.  No candidate DEFECT OF THE LIBRARY is claimed here: the real hub never shows these observations
   (replayed: see notes_C09.md); the witnesses show which violations the property checker could not have reported. *)
Import BV.Base.Prelude BV.Model.Block BV.Model.ForkDB BV.Model.Forkable BV.Model.ForkableLookups BV.Model.Burst BV.Model.Hub.
Import BV.Spec.Consumer BV.Spec.Universe BV.Spec.ForkChoice BV.Check.Fk_Check BV.Check.Burst_Check.
Local Open Scope N_scope.

(* ---- the observation record of Check/Hub_Check.v (copied: hub_obs, hub_case) ---- *)
Record a2_hub_obs := a2_mkHObs {
  a2o_result : result;
  a2o_ready : bool; a2o_lowest : N; a2o_head : option (ref * N);
  a2o_tracker : list event;
  a2o_ans : list ans }.

Record a2_hub_case := a2_mkHubCase {
  a2c_first : N; a2c_kept : N;
  a2c_live : list (block * pass);
  a2c_obs : list a2_hub_obs }.

(* ---- verbatim copy of the original property checker ---- *)
(* every block a2_offered so far: pass blocks (if the pass may have been used) and live blocks *)
Definition a2_offered (l : list (block * pass)) : list block :=
  flat_map (fun bp => match snd bp with PBlocks bl => bl ++ [fst bp] | PNil => [fst bp] end) l.

Definition a2_universe_of (k : a2_hub_case) : list block := a2_offered (a2c_live k).

Fixpoint a2_follow_orig (k : a2_hub_case) (c : cons) (was_ready : bool) (seen : list (block * pass))
         (l : list (block * pass)) (os : list a2_hub_obs) : bool :=
  match l, os with
  | (b, p) :: l', o :: os' =>
      let seen' := seen ++ [(b, p)] in
      match cons_fold c (a2o_tracker o) with
      | None => false
      | Some c' =>
          (* readiness is a latch and is reached only on a live block that links, through blocks
             received so far, to the height it declares as LIB *)
          (negb was_ready || a2o_ready o) &&
          (negb (a2o_ready o && negb was_ready) ||
           let recv := a2_offered seen' in
           match ancestor_at (S (length recv)) recv b (blib b) with Some _ => true | None => false end) &&
          (* not ready: no head, lowest is 0 (the property says nothing about snapshots before readiness) *)
          (a2o_ready o || ((a2o_lowest o =? 0) && match a2o_head o with None => true | Some _ => false end)) &&
          (* ready: head = tip of the tracked consumer; answers against the tracked chain *)
          (negb (a2o_ready o) ||
           (match a2o_head o, cs_stack c' with
            | Some (r, _), top :: _ => ri r =? bid top
            | _, _ => false end &&
            forallb (fun a =>
               let canon := rev (cs_stack c') in
               let servable := existsb (fun x => (bnum x =? a_start a) && (a2o_lowest o <=? bnum x)) canon in
               if a_kind a =? 2 then
                 Bool.eqb (a_served a) servable &&
                 (negb (a_served a) ||
                  let exp := drop_until_num (a_start a) canon in
                  let nfin := cs_nf c' in
                  let nskip := (length canon - length exp)%nat in
                  eqb_list (ids (map eblk (a_events a))) (ids exp) &&
                  forallb (fun q => let '(i, e) := q in
                             step_eqb (estep e) (if Nat.ltb (nskip + i) nfin then SNewIrr else SNew))
                          (combine (seq 0 (length (a_events a))) (a_events a)) &&
                  forallb (fun e => ref_eqb (ecblk e) (bref (eblk e)) &&
                                    match cs_stack c' with top :: _ => ref_eqb (ehead e) (bref top) | [] => false end &&
                                    (rn (elib e) <=? bnum (eblk e))) (a_events a))
               else
                 negb (a_served a) ||
                 (nondecreasing (a_forks a) && nodupN (ids (a_forks a)) &&
                  forallb (fun x => (a_start a <=? bnum x) && memN (bid x) (a_stored a)) (a_forks a) &&
                  forallb (fun id => match lookup id (a2_universe_of k) with
                                     | Some x => negb (a_start a <=? bnum x) || memN id (ids (a_forks a))
                                     | None => true end) (a_stored a)))
               (a2o_ans o))) &&
          a2_follow_orig k c' (a2o_ready o) seen' l' os'
      end
  | _, _ => true
  end.

Definition a2_in_scope (k : a2_hub_case) : bool :=
  wf_b (a2_universe_of k) && lib_ok_b LNone (a2_universe_of k).
Definition a2_prop_orig (k : a2_hub_case) : bool :=
  negb (a2_in_scope k) || a2_follow_orig k cons0 false [] (a2c_live k) (a2c_obs k).

(* ---- the model's own observation of a hub run (what a faithful hub shows) ---- *)
Definition a2_cur0 : cursor := mkCursor SNew (mkR 0 0) (mkR 0 0) (mkR 0 0).
Definition a2_stored (s : fstate) : list N := map (fun e => bid (eb e)) (store (db s)).
Definition a2_ans (s : fstate) (low m kind n : N) : ans :=
  if kind =? 2 then
    match blocks_from_num s n with
    | BOk evs => mkAns 2 m 0 a2_cur0 n true evs [] false false low (a2_stored s) false
    | _ => mkAns 2 m 0 a2_cur0 n false [] [] false false low (a2_stored s) false
    end
  else match blocks_from_num_with_forks s n with
       | Some bl => mkAns 3 m 0 a2_cur0 n true [] bl false false low (a2_stored s) false
       | None => mkAns 3 m 0 a2_cur0 n false [] [] false false low (a2_stored s) false
       end.

Fixpoint a2_obs (first kept : N) (h : hub) (tracked : bool) (m : N) (l : list (block * pass))
         (reqs : list (list (N * N))) : list a2_hub_obs :=
  match l with
  | [] => []
  | (b, p) :: l' =>
      let '(h', evs, r) := hub_live first kept h p b in
      let '(tr, tracked') :=
        if tracked then (evs, true)
        else if h_ready h' then
          match blocks_from_num (h_f h') (hub_lowest h') with BOk e => (e, true) | _ => ([], false) end
        else ([], false) in
      let rq := match reqs with q :: _ => q | [] => [] end in
      a2_mkHObs r (h_ready h') (hub_lowest h') (hub_head h') tr
                (map (fun q => a2_ans (h_f h') (hub_lowest h') (m + 1) (fst q) (snd q)) rq)
      :: a2_obs first kept h' tracked' (m + 1) l' (tl reqs)
  end.

(* chain 1..8 (ids 11..18), block k declares LIB k-2; a fork block 26 at height 6 on top of 15.
   First streamable block 1, no kept final blocks.  Live 5 with one-block files 1..4, then live 26, 6, 7, 8. *)
Definition a2_B (k : N) : block := mkBlock (10 + k) k (if k =? 1 then 0 else 9 + k) (if k <=? 3 then 1 else k - 2).
Definition a2_F6 : block := mkBlock 26 6 15 4.
Definition a2_live : list (block * pass) :=
  [(a2_B 5, PBlocks [a2_B 1; a2_B 2; a2_B 3; a2_B 4]); (a2_F6, PNil); (a2_B 6, PNil); (a2_B 7, PNil); (a2_B 8, PNil)].
(* requests (kind, number) after each live block; kind 2 = from number, 3 = with forks *)
Definition a2_reqs : list (list (N * N)) :=
  [[(2, 2); (2, 3); (2, 5); (2, 6); (3, 0)]; [(2, 3); (2, 4); (3, 4)]; [(2, 3); (2, 4); (3, 5)];
   [(2, 4); (2, 5); (3, 6); (3, 9)]; [(2, 5); (2, 6); (3, 6); (2, 0)]].
Definition a2_faithful : list a2_hub_obs := a2_obs 1 0 hub_init false 0 a2_live a2_reqs.
Definition a2_case (os : list a2_hub_obs) : a2_hub_case := a2_mkHubCase 1 0 a2_live os.

(* replace observation number i *)
Fixpoint a2_set {A} (i : nat) (f : A -> A) (l : list A) : list A :=
  match l, i with
  | [], _ => []
  | x :: l', O => f x :: l'
  | x :: l', S i' => x :: a2_set i' f l'
  end.
Definition a2_set_ans (f : list ans -> list ans) (o : a2_hub_obs) : a2_hub_obs :=
  a2_mkHObs (a2o_result o) (a2o_ready o) (a2o_lowest o) (a2o_head o) (a2o_tracker o) (f (a2o_ans o)).
Definition a2_refuse (a : ans) : ans :=
  mkAns (a_kind a) (a_m a) (a_k a) (a_cur a) (a_start a) false [] [] (a_libon a) (a_blkret a) (a_lowest a) (a_stored a) false.
Definition a2_with_forks (l : list block) (a : ans) : ans :=
  mkAns (a_kind a) (a_m a) (a_k a) (a_cur a) (a_start a) (a_served a) (a_events a) l (a_libon a) (a_blkret a) (a_lowest a) (a_stored a) false.

(* the case is inside the checker's scope, the hub is ready from the first live block on, and the faithful observation is
   accepted: lowest 3, 4, 4, 5, 6; head 15, 26, 26, 17, 18 *)
Example a2_faithful_accepted :
  a2_in_scope (a2_case a2_faithful) = true /\ a2_prop_orig (a2_case a2_faithful) = true /\
  map a2o_ready a2_faithful = [true; true; true; true; true] /\
  map a2o_lowest a2_faithful = [3; 4; 4; 5; 6].
Proof. vm_compute. repeat split; reflexivity. Qed.

(* ------------------------------------------------------------------------------------------------------------------
   W1-C09-2  "its with-forks snapshot contains every retained block at or above the requested number":
   a READY hub that REFUSES the with-forks request (nil source) although it retains blocks at or above the number is
   accepted (`negb (a_served a) || ...`: an unserved with-forks answer is never looked at).                        *)
Definition a2_obs_forks_refused : list a2_hub_obs :=
  a2_set 3 (a2_set_ans (a2_set 2 a2_refuse)) a2_faithful.

Theorem c09_forks_refused_conclusion_weaker :
  exists os a,
    (* accepted by the property checker, in scope *)
    a2_in_scope (a2_case os) = true /\ a2_prop_orig (a2_case os) = true /\
    (* a with-forks request at 6 to a ready hub, after the fourth live block *)
    nth_error os 3 = Some (a2_mkHObs ROk true 5 (Some (mkR 17 7, 5)) (a2o_tracker (nth 3 os (a2_mkHObs ROk false 0 None [] [])))
                                    (a2o_ans (nth 3 os (a2_mkHObs ROk false 0 None [] [])))) /\
    nth_error (a2o_ans (nth 3 os (a2_mkHObs ROk false 0 None [] []))) 2 = Some a /\
    a_kind a = 3 /\ a_start a = 6 /\
    (* what the text demands fails: no snapshot at all, while three retained blocks (26, 16, 17) are numbered >= 6 *)
    a_served a = false /\
    filter (fun id => match lookup id (a2_universe_of (a2_case os)) with Some x => 6 <=? bnum x | None => false end) (a_stored a)
      = [26; 16; 17].
Proof.
  exists a2_obs_forks_refused. eexists.
  split; [vm_compute; reflexivity|]. split; [vm_compute; reflexivity|].
  split; [vm_compute; reflexivity|]. split; [vm_compute; reflexivity|].
  vm_compute. repeat split; reflexivity.
Qed.
Print Assumptions c09_forks_refused_conclusion_weaker.

(* ------------------------------------------------------------------------------------------------------------------
   W1-C09-3  "the lowest block number it reports is itself servable" / "when n is the number of a retained canonical
   block": in the checker a canonical block counts as retained iff its number is >= the REPORTED lowest number
   (`ho_lowest o <=? bnum x`), so the reported number is never compared with what the hub holds.  A ready hub that
   reports lowest = 100 (far above its head 26) and refuses every from-number request is accepted, although the hub
   holds the canonical blocks 14, 15, 26 (a_stored) and no request at 100 could be served.                          *)
Definition a2_obs_lowest_100 : list a2_hub_obs :=
  a2_set 2 (fun o => a2_mkHObs (a2o_result o) true 100 (a2o_head o) (a2o_tracker o)
                               (map (fun a => if a_kind a =? 2 then a2_refuse a else a) (a2o_ans o) ++
                                [mkAns 2 3 0 a2_cur0 100 false [] [] false false 100 [14; 15; 26] false]))
         a2_faithful.

Theorem c09_lowest_unservable_conclusion_weaker :
  exists os o,
    a2_in_scope (a2_case os) = true /\ a2_prop_orig (a2_case os) = true /\
    nth_error os 2 = Some o /\ a2o_ready o = true /\ a2o_lowest o = 100 /\
    a2o_head o = Some (mkR 26 6, 4) /\
    (* the reported lowest number is not servable: the request at it is refused, as is every from-number request ... *)
    forallb (fun a => negb (a_kind a =? 2) || negb (a_served a)) (a2o_ans o) = true /\
    existsb (fun a => (a_kind a =? 2) && (a_start a =? 100)) (a2o_ans o) = true /\
    (* ... among them the request at 4, the number of the canonical block 14, which the hub holds *)
    existsb (fun a => (a_kind a =? 2) && (a_start a =? 4) && memN 14 (a_stored a)) (a2o_ans o) = true.
Proof.
  exists a2_obs_lowest_100. eexists.
  split; [vm_compute; reflexivity|]. split; [vm_compute; reflexivity|].
  split; [vm_compute; reflexivity|].
  vm_compute. repeat split; reflexivity.
Qed.
Print Assumptions c09_lowest_unservable_conclusion_weaker.

(* ------------------------------------------------------------------------------------------------------------------
   W1-C09-4  "reports ready only after a live block links through RECEIVED blocks to the LIB height it declares":
   the checker walks through every block OFFERED so far (`offered seen'`: all blocks of every pass), whether or not the
   hub ran that pass.  A hub that ignores the one-block files, holds only the live block 15 and reports ready is
   accepted: 15 -> 14 -> 13 (its declared LIB height 3) exists among the offered blocks only.                       *)
Definition a2_ev15 : event := mkEv SNew (a2_B 5) (bref (a2_B 5)) (bref (a2_B 5)) (mkR 13 3) None 0 0.
Definition a2_obs_ready_unreceived : list a2_hub_obs :=
  [a2_mkHObs ROk true 5 (Some (mkR 15 5, 3)) [a2_ev15]
     [mkAns 2 1 0 a2_cur0 4 false [] [] false false 5 [15] false;
      mkAns 2 1 0 a2_cur0 5 true [a2_ev15] [] false false 5 [15] false;
      mkAns 2 1 0 a2_cur0 6 false [] [] false false 5 [15] false;
      mkAns 3 1 0 a2_cur0 0 true [] [a2_B 5] false false 5 [15] false]].
Definition a2_case_one : a2_hub_case := a2_mkHubCase 1 0 [(a2_B 5, PBlocks [a2_B 1; a2_B 2; a2_B 3; a2_B 4])] a2_obs_ready_unreceived.

Theorem c09_ready_through_unreceived_conclusion_weaker :
  a2_in_scope a2_case_one = true /\ a2_prop_orig a2_case_one = true /\
  map a2o_ready (a2c_obs a2_case_one) = [true] /\
  (* the hub holds the live block only ... *)
  map a_stored (a2o_ans (nth 0 (a2c_obs a2_case_one) (a2_mkHObs ROk false 0 None [] []))) = [[15]; [15]; [15]; [15]] /\
  (* ... through which the live block does not reach the height 3 it declares as LIB *)
  blib (a2_B 5) = 3 /\ ancestor_at 10 [a2_B 5] (a2_B 5) 3 = None /\
  (* the checker's walk succeeds only through blocks of the pass *)
  ancestor_at 10 (a2_offered (a2c_live a2_case_one)) (a2_B 5) 3 = Some (a2_B 3).
Proof. vm_compute. repeat split; reflexivity. Qed.
Print Assumptions c09_ready_through_unreceived_conclusion_weaker.

(* ------------------------------------------------------------------------------------------------------------------
   W1-C09-1  "in non-decreasing height": the HARNESS sorted every with-forks answer by (height, id) before handing it to
   the checker (harness/hubh.go, `sort.SliceStable(ans.Forks, ...)`; the same in harness/burst.go), so the clause
   `nondecreasing (a_forks a)` and the comparison with the model only ever saw a sorted list.  a2_proj is that
   projection.  A hub that delivers the snapshot highest block first is projected onto the faithful observation.
   OBSERVED on the real code: with `blocksFromNumWithForks` sorting in DESCENDING height, `./check C09` exited 0.   *)
Definition a2_proj_ans (a : ans) : ans := a2_with_forks (fold_right insert_nb [] (a_forks a)) a.
Definition a2_proj (os : list a2_hub_obs) : list a2_hub_obs := map (a2_set_ans (map a2_proj_ans)) os.
Definition a2_obs_forks_descending : list a2_hub_obs :=
  map (a2_set_ans (map (fun a => a2_with_forks (rev (a_forks a)) a))) a2_faithful.

Theorem c09_forks_order_projection_conclusion_weaker :
  exists raw,
    (* what reaches the checker is the faithful observation: accepted, and equal to the model's answers *)
    a2_proj raw = a2_faithful /\ a2_prop_orig (a2_case (a2_proj raw)) = true /\
    (* what the hub delivered: every with-forks snapshot of two or more heights in DECREASING height *)
    map (fun o => map (fun a => map bnum (a_forks a)) (filter (fun a => a_kind a =? 3) (a2o_ans o))) raw
      = [[[5; 4; 3]]; [[6; 5; 4]]; [[6; 6; 5]]; [[7; 6; 6]; []]; [[8; 7; 6; 6]]] /\
    forallb (fun o => forallb (fun a => nondecreasing (a_forks a)) (a2o_ans o)) raw = false.
Proof.
  exists a2_obs_forks_descending.
  split; [vm_compute; reflexivity|]. split; [vm_compute; reflexivity|].
  vm_compute. split; reflexivity.
Qed.
Print Assumptions c09_forks_order_projection_conclusion_weaker.
End C09.

Module C10.
(* W1 conclusion audit, C10.  Standalone: coqc -Q . BV ../notes_proof_W1/audit2_C10.v
   One confirmed (low-ranked) divergence between the property TEXT and the conclusion of C10_seq / c10_continuity /
   the checker c10_check: the delivered sequence is described as a FILTER over all stored blocks
   (num >= start && num >= bundle base), and parent links are demanded between consecutive KEPT blocks, where the text
   speaks of the stored blocks "in exactly stored order, beginning with the first block at or above the start block"
   (a suffix of the stored sequence; the quantifier allows a legacy LEADING block) and of "consecutive STORED blocks". *)
Import BV.Base.Prelude BV.Model.FileSeq BV.Model.Pipeline BV.Spec.C10_Spec BV.Check.C10_Check.
Local Open Scope N_scope.

(* ---- the text, read literally ---- *)
(* leading blocks of file i that lie below the bundle base (the legacy leading block of the quantifier) *)
Fixpoint a2_drop_leading (base : N) (f : list blk) : list blk :=
  match f with
  | [] => []
  | b :: f' => if b_num b <? base then a2_drop_leading base f' else f
  end.

(* the stored blocks of the files read, in stored order, legacy leading blocks removed *)
Definition a2_stored_seq (L : layout) : list blk :=
  flat_map (fun i => a2_drop_leading (base_of L i) (file_of L i)) (seq 0 (nsend L)).

(* "beginning with the first block at or above the start block": the suffix from that block on *)
Fixpoint a2_from_start (start : N) (l : list blk) : list blk :=
  match l with
  | [] => []
  | b :: l' => if b_num b <? start then a2_from_start start l' else l
  end.

Definition a2_text_stream (L : layout) : list blk := a2_from_start (l_start L) (a2_stored_seq L).

(* what the text lets the handler see: the parent-linked prefix of that suffix (first block unchecked, as in the
   model), and whether the run must end with the out-of-sequence error *)
Definition a2_text_expected (L : layout) : list blk * bool := seq_cut 0 (a2_text_stream L).

Definition a2_pre (b : blk) : N := 3 * b_id b + b_num b.

(* W1-C10-1a: bundle 0 holds 1, 2, 5, 3' (parent 2), 6 (parent 5); start 4, stop 6 *)
Definition a2_lay_start : layout :=
  mkLayout [[mkBlk 1 1 0; mkBlk 2 2 1; mkBlk 5 5 2; mkBlk 33 3 2; mkBlk 6 6 5]] 4 10 6.

(* W1-C10-1b: bundle 100 holds 100, 101, 99' (number 99, parent 101 -- not leading), 102 (parent 101); start 100 *)
Definition a2_lay_base : layout :=
  mkLayout [[mkBlk 100 100 99; mkBlk 101 101 100; mkBlk 990 99 101; mkBlk 102 102 101]] 100 100 102.

Definition a2_quiet_run (L : layout) : state :=
  let C := mkCfg L 2 FNone false true true in run a2_pre C (rounds C 40) (init C).

Definition a2_weaker (L : layout) (d : list blk) : Prop :=
  (* the reference model, the interleaving model after a fair run (Run has returned) and the checker (both verdict codes) all accept
     "d delivered, stop-block-reached" ... *)
  expected L = (d, OStop) /\
  returned (a2_quiet_run L) = true /\
  s_calls (a2_quiet_run L) = pairs a2_pre d /\ s_err (a2_quiet_run L) = Some EStop /\
  c10_check L 0 false false (pairs a2_pre d) 1 = true /\
  c10_verdict (C10Case L 2 0 false false (pairs a2_pre d) 1 false false) = 0 /\
  (* ... while in stored order from the first block at or above the start block two consecutive stored blocks are
     not parent-linked, so the text demands an error in front of the out-of-sequence block, and d is not even a
     prefix of the stored sequence ("exactly stored order") *)
  snd (a2_text_expected L) = true /\
  fst (a2_text_expected L) <> d /\
  ~ prefix d (a2_text_stream L).

Lemma a2_not_prefix_by_bool : forall d l, is_prefix blk_eqb d l = false -> ~ prefix d l.
Proof.
  induction d as [|x d IH]; intros l H [r E]; simpl in *; [discriminate|].
  destruct l as [|y l]; [discriminate|]. simpl in E. injection E as E1 E2. subst y.
  assert (Hx : blk_eqb x x = true).
  { unfold blk_eqb. rewrite !N.eqb_refl. reflexivity. }
  rewrite Hx in H. simpl in H. apply (IH l H). exists r. exact E2.
Qed.

Theorem c10_filter_below_start_conclusion_weaker :
  exists L d, a2_weaker L d.
Proof.
  exists a2_lay_start, [mkBlk 5 5 2; mkBlk 6 6 5]. unfold a2_weaker.
  split; [vm_compute; reflexivity|]. split; [vm_compute; reflexivity|].
  split; [vm_compute; reflexivity|]. split; [vm_compute; reflexivity|].
  split; [vm_compute; reflexivity|]. split; [vm_compute; reflexivity|].
  split; [vm_compute; reflexivity|]. split; [vm_compute; discriminate|].
  apply a2_not_prefix_by_bool. vm_compute. reflexivity.
Qed.
Print Assumptions c10_filter_below_start_conclusion_weaker.

Theorem c10_filter_below_base_conclusion_weaker :
  exists L d, a2_weaker L d.
Proof.
  exists a2_lay_base, [mkBlk 100 100 99; mkBlk 101 101 100; mkBlk 102 102 101]. unfold a2_weaker.
  split; [vm_compute; reflexivity|]. split; [vm_compute; reflexivity|].
  split; [vm_compute; reflexivity|]. split; [vm_compute; reflexivity|].
  split; [vm_compute; reflexivity|]. split; [vm_compute; reflexivity|].
  split; [vm_compute; reflexivity|]. split; [vm_compute; discriminate|].
  apply a2_not_prefix_by_bool. vm_compute. reflexivity.
Qed.
Print Assumptions c10_filter_below_base_conclusion_weaker.

(* The two readings coincide on every layout whose stored numbers never fall back below the start block / the
   bundle base once they have reached it -- in particular on every layout with non-decreasing numbers, which is all
   the generator draws.  Stated for the filter itself: *)
Lemma a2_filter_is_suffix : forall (p : blk -> bool) l,
  (forall a b r1 r2, l = r1 ++ a :: b :: r2 -> p a = true -> p b = true) ->
  filter p l = (fix go l := match l with [] => [] | b :: l' => if p b then l else go l' end) l.
Proof.
  intros p l. induction l as [|x l IH]; intros H; [reflexivity|]. simpl.
  destruct (p x) eqn:E.
  - f_equal. clear IH. revert x E H. induction l as [|y l IHl]; intros x E H; [reflexivity|].
    simpl. assert (Hy : p y = true) by (apply (H x y [] l); [reflexivity|exact E]).
    rewrite Hy. f_equal. apply (IHl y Hy). intros a b r1 r2 Hl. apply (H a b (x :: r1) r2). simpl. f_equal. exact Hl.
  - apply IH. intros a b r1 r2 Hl. apply (H a b (x :: r1) r2). simpl. f_equal. exact Hl.
Qed.
Print Assumptions a2_filter_is_suffix.
End C10.

Module C11.
(* W1 conclusion audit, C11 (every fault ends a source cleanly): places where the checker's PROPERTY bit says less
   than the property text.  Every theorem is closed (vm_compute).  See notes_proof_W1/notes_C11.md. *)
Import BV.Base.Prelude BV.Model.FileSeq BV.Model.Pipeline BV.Spec.C10_Spec BV.Spec.C11_Spec BV.Check.C10_Check BV.Check.C11_Check BV.Properties.C11.
Local Open Scope N_scope.

(* the layout of the non-vacuity example of Properties/C11.v: start 2, bundle 5, stop 7; the reference run delivers
   2 3 4 5 7 9 and ends with stop-block-reached *)
Definition c11w_calls (l : list blk) : list (blk * N) := map (fun b => (b, c10_tag 0 b)) l.
Definition c11w_d : list blk := fst (expected nv_lay).

(* ------------------------------------------------------------------ "the handler is not called again afterwards".
   Fault: the handler call number 1 (block 3) fails.  Observation: the source went on and called the handler for 4 and
   5 as well, then reported the handler's error.  The PROPERTY bit of the checker accepts it ([c11_check] = true): when a
   failed call is in the log it only asks for the error class, not that the failing call is the LAST one.  Only the
   correspondence bit ([c11_model_ok], theorem c11_bound) rejects, so such a regression is reported as a model mismatch
   (verdict 1), not as a violation of the clause.  Strengthening implemented in Check/C11_Check.v: [length calls = S n]. *)
Theorem c11_call_after_failed_call_conclusion_weaker :
  map b_num c11w_d = [2; 3; 4; 5; 7; 9] /\
  let calls := c11w_calls (firstn 4 c11w_d) in
  c11_model_ok 0 nv_lay (FHandler 1) 7 false calls 7 = false /\
  (* the property bit as it was before the W1 strengthening: every conjunct of c11_check but the new one *)
  (let blocks := map fst calls in
   forallb (fun v => snd v =? c10_tag 0 (fst v)) calls && is_prefix blk_eqb blocks (eligible nv_lay) &&
   linkedb 0 blocks && (Nat.ltb 1 (length calls)) && (7 =? 7) && negb (7 =? 0)) = true /\
  (* ... and after it *)
  c11_check 0 nv_lay (FHandler 1) 7 false calls 7 = false /\
  c11_check 0 nv_lay (FHandler 1) 7 false (c11w_calls (firstn 2 c11w_d)) 7 = true.
Proof. vm_compute. repeat split; reflexivity. Qed.
Print Assumptions c11_call_after_failed_call_conclusion_weaker.

(* ------------------------------------------------------------------ "the reported error identifies the cause".
   The harness maps every error it does not recognise to class 3 ("other": header / read / decode), and for header and
   read faults the checker asks for class 3.  So for those fault sites ANY error that is not nil, stop-block-reached,
   non-sequential or one of the other injected faults "identifies the cause" - the clause is checked as "some error".
   (Observed on the real code, TestW1_C11_ErrorTextPerDamage: all 11 damage classes name the file and the failing
   operation; a zero length prefix is reported as "failed reading next dbin message: %!s(<nil>)".)  The witness shows the
   acceptance: a read fault at message 2 of file 1 accepted with class 3, whatever the text was. *)
Theorem c11_error_class_other_conclusion_weaker :
  c11_check 0 nv_lay (FRead 1 2) 3 false (c11w_calls (firstn 1 c11w_d)) 3 = true /\
  c11_model_ok 0 nv_lay (FRead 1 2) 3 false (c11w_calls (firstn 1 c11w_d)) 3 = true.
Proof. vm_compute. split; reflexivity. Qed.
Print Assumptions c11_error_class_other_conclusion_weaker.
End C11.

Module C12.
(* W1 — conclusion audit of C12 (complement of the hypothesis audit U2).  Standalone:
     cd coq && coqc -Q . BV ../notes_proof_W1/audit2_C12.v
   Uses only definitions that exist in the ORIGINAL Check/C12_Check.v (it also compiles against the strengthened one of
   notes_proof_W1/check_C12.diff).  No real-code defect was found for C12; the witnesses below are about what the Spec /
   the checker ACCEPT:
     c12_restart_liveness_conclusion_weaker   clause "an eternal source RESTARTS its inner source": Spec and checker only say
                                               from where a restart that happens is made (confirmed on a breaking change of
                                               the library: reported only as a correspondence failure, no replay)
     c12_mx_call_after_failure_witness         observation, NOT a divergence from the text: a handler call begins after the
                                               handler has failed, before the Shutdown it triggers closes the channel *)
Import BV.Base.Prelude BV.Model.Lifecycle BV.Spec.C12_Spec BV.Check.C12_Check.
Local Open Scope nat_scope.

(* ------------------------------------------------------------------------------------------------------------------
   1. "an eternal source restarts its inner source from the last block its handler accepted"
      Spec: C12_restart_point = forall ... log = post ++ EFactory slot r :: pre -> r = last_accepted pre   (safety only)
      Check: prop_ok (KEternal _ _ o) = common_ok o && no_begin_after_ret false (o_log o) && restarts_ok_chrono 0 (o_log o)
      An observation in which inner source 0 (script: block 1 accepted, then a failure of its own) goes down and is NEVER
      replaced — the Shutdown comes at idle time, i.e. after it — is accepted by both; the model (and the real code,
      w1_c12_eternal_restart_test.go) make a second factory call from block 1. *)
Definition w1_sup : list (list iev) := [[IBlock 1 true; IFail]].
Definition w1_log : list ev :=
  [EPoint 0; EFactory 0 0; EPoint 1; EPoint 2; EHBegin 0 1; EHEnd 0 1 true; EDown 0; EPoint 3; ERet].
Definition w1_obs : obs := mkObs w1_log true true 0 false true false.

Fixpoint w1_count_factory (l : list ev) : nat :=
  match l with
  | [] => 0
  | EFactory _ _ :: l' => S (w1_count_factory l')
  | _ :: l' => w1_count_factory l'
  end.

Lemma w1_spec_shape_holds :
  forall post r pre slot, rev w1_log = post ++ EFactory slot r :: pre -> r = last_accepted pre.
Proof.
  intros post r pre slot H. cbn in H.
  repeat (destruct post as [|? post]; cbn in H;
          [ try discriminate H; try (injection H as ? ? ?; subst; reflexivity) | injection H as ? H; subst ]).
  destruct post; discriminate H.
Qed.

Theorem c12_restart_liveness_conclusion_weaker :
  exists (sup : list (list iev)) (o : obs),
    sup = w1_sup /\
    (* the checker's acceptance condition for an eternal observation (prop_ok, KEternal arm, as audited) *)
    common_ok o && no_begin_after_ret false (o_log o) && restarts_ok_chrono 0 (o_log o) = true /\
    (* the whole verdict is 0 when the timing of the Shutdown is uncontrolled (no comparison with the model) *)
    c12_verdict (KEternal sup InjRandom o) = 0%N /\
    (* the Spec's form of the clause holds of that log (newest first, as in C12_restart_point) *)
    (forall post r pre slot, rev (o_log o) = post ++ EFactory slot r :: pre -> r = last_accepted pre) /\
    (* what the text demands fails: the inner source went down on its own and no factory call follows *)
    (exists pre post, o_log o = pre ++ EDown 0 :: post /\ forall slot r, ~ In (EFactory slot r) post) /\
    w1_count_factory (o_log o) = 1 /\
    (* the model, on the idle-time schedule of the same input, restarts (from block 1, the last accepted one) *)
    w1_count_factory (rev (Et.log (et_model sup InjIdle))) = 2 /\
    In (EFactory 0 1) (Et.log (et_model sup InjIdle)).
Proof.
  exists w1_sup, w1_obs. split; [reflexivity|].
  split; [vm_compute; reflexivity|].
  split; [vm_compute; reflexivity|].
  split; [exact w1_spec_shape_holds|].
  split.
  - exists [EPoint 0; EFactory 0 0; EPoint 1; EPoint 2; EHBegin 0 1; EHEnd 0 1 true], [EPoint 3; ERet].
    split; [reflexivity|]. intros slot r [H|[H|[]]]; discriminate H.
  - split; [vm_compute; reflexivity|]. split; [vm_compute; reflexivity|].
    vm_compute. tauto.
Qed.
Print Assumptions c12_restart_liveness_conclusion_weaker.

(* ------------------------------------------------------------------------------------------------------------------
   2. "a multiplexed source ... shuts down all its inner sources when the handler fails"
      C12_fail_stops_all: the goroutine that got the error calls Shutdown NEXT (or finds the once won); once Terminated every
      started inner source is shut down.  Nothing is said about handler calls between the failure and that Shutdown: the
      wrapper releases handlerLock first.  Schedule: two inner sources, the handler fails on block 1 of source 0, source 1
      takes the lock and its call for block 2 begins while no Shutdown has been called yet.  The theorem holds (it is proved);
      the text does not forbid the call ("after which" = after Run returned and Terminated).  Same on the real code:
      w1_c12_mux_failwindow_test.go. *)
Definition w1_mx_sched : list Mx.tid :=
  repeat Mx.TRun 7 ++ [Mx.TIn 0; Mx.TIn 0; Mx.TIn 0; Mx.TIn 1; Mx.TIn 0] ++ [Mx.TIn 1; Mx.TIn 1].
Definition w1_mx_sup : list (list iev) := [[IBlock 1 false]; [IBlock 2 true]].

Theorem c12_mx_call_after_failure_witness :
  let s0 := run (Mx.step true) (repeat Mx.TRun 7 ++ [Mx.TIn 0; Mx.TIn 0; Mx.TIn 0; Mx.TIn 1; Mx.TIn 0]) (Mx.init 2 w1_mx_sup) in
  let s := run (Mx.step true) w1_mx_sched (Mx.init 2 w1_mx_sup) in
  (* after the failed call: handlerLock free, nobody has called Shutdown *)
  Mx.failed s0 = true /\ Mx.sdst s0 = None /\ Mx.hholder s0 = None /\ Mx.hbegun s0 = 1 /\
  (* two more steps of source 1: its handler call begins, still no Shutdown, no overlap *)
  Mx.hbegun s = 2 /\ Mx.sdst s = None /\ Mx.terminating s = false /\ Mx.overlap s = false /\
  rev (Mx.log s) = [EPoint 20; EPoint 22; EFactory 0 0; EPoint 23; EPoint 24; EFactory 1 0; EPoint 23; EPoint 24; EPoint 21;
                    EPoint 25; EHBegin 0 1; EHEnd 0 1 false; EPoint 26; EPoint 25; EHBegin 1 2] /\
  (* and the clause of the Spec is met afterwards: the failing goroutine shuts the source down, both inner sources end shut *)
  (let s' := run (Mx.step true) (repeat (Mx.TIn 0) 6 ++ [Mx.TIn 1; Mx.TIn 1]) s in
   Mx.terminated s' = true /\ map Mx.i_term (Mx.inners s') = [true; true]).
Proof. vm_compute. repeat split; reflexivity. Qed.
Print Assumptions c12_mx_call_after_failure_witness.

(* ------------------------------------------------------------------------------------------------------------------
   3. audited and found harmless, kept as computations (no divergence):
      - quiet := returned in C12_no_call_after is STRONGER than the text's "Run returned and Terminated";
      - in the eternal / joining models no call begins once the source is Terminated either (the callback has shut the
        inner source down), although calls may begin while the channel is closed and the callback has not run yet. *)
Example w1_et_no_call_after_terminated :
  let s := run (Et.step true) (repeat Et.TRun 6 ++ repeat Et.TX 5) (Et.init [[IBlock 1 true; IBlock 2 true; IBlock 3 true]]) in
  Et.terminated s = true /\ Et.returned s = false /\ Et.hbegun s = 2 /\
  Et.hbegun (run (Et.step true) (repeat Et.TRun 10) s) = 2 /\ Et.done (run (Et.step true) (repeat Et.TRun 10) s) = true.
Proof. vm_compute. repeat split; reflexivity. Qed.
Example w1_et_calls_begin_between_close_and_callback :
  let s := run (Et.step true) (repeat Et.TRun 4 ++ [Et.TX; Et.TX]) (Et.init [[IBlock 1 true; IBlock 2 true; IBlock 3 true]]) in
  Et.terminating s = true /\ Et.terminated s = false /\ Et.hbegun s = 1 /\
  Et.hbegun (run (Et.step true) (repeat Et.TRun 4) s) = 3.
Proof. vm_compute. repeat split; reflexivity. Qed.
(* the 'or' of C12_fail_stops_all's first clause ("or finds the once won"): an external Shutdown has won the once and has not
   closed the channel yet; the failing goroutine shuts nothing down; everything is shut once the external thread goes on *)
Example w1_mx_failure_finds_once_won :
  let s := run (Mx.step true) (repeat Mx.TRun 7 ++ [Mx.TIn 0; Mx.TIn 0; Mx.TIn 0] ++ [Mx.TX] ++ [Mx.TIn 0; Mx.TIn 0])
               (Mx.init 2 w1_mx_sup) in
  Mx.failed s = true /\ Mx.sdst s = Some SClose /\ Mx.terminating s = false /\ map Mx.i_term (Mx.inners s) = [false; false] /\
  (let s' := run (Mx.step true) (repeat Mx.TX 4) s in Mx.terminated s' = true /\ map Mx.i_term (Mx.inners s') = [true; true]).
Proof. vm_compute. repeat split; reflexivity. Qed.
End C12.

Module C14.
(* W1 — conclusion audit of C14 (cursor text and opaque encodings).  Stand-alone:
     cd coq && timeout 600 coqc -Q . BV ../notes_proof_W1/audit2_C14.v
   No divergence between the model and the property text was found inside the quantifier.  The witnesses below record the
   two places where a conclusion is weaker than a naive reading of the sentence it stands for:
   (1) "re-encodes to an equivalent cursor" is the relation cursor_equiv (step, block reference, head id, LIB id) — the heights of
       head and LIB are NOT preserved for decoder inputs that give one id two heights (reading choice; Cursor.Equals of the code
       is weaker still);
   (2) the boolean checker's layout clause (as found, before check_C14.diff) looked at the prefix byte only: the fourth conjunct
       of Spec.C14_layout (segment count) had no counterpart; harmless for the verdict (the correspondence bit still fires). *)
Import BV.Base.Prelude BV.Base.Decimal BV.Model.CursorCodec.
Import BV.Spec.C14_Spec.
Local Open Scope N_scope.

(* "c3:1:5:aa:7:aa:3:bb": head id = block id with heights 7 and 5 *)
Definition c14_w_text : str := [99;51;58;49;58;53;58;97;97;58;55;58;97;97;58;51;58;98;98].
Definition c14_w_dec : cursor := mkCur 1 (mkRef [97;97] 5) (mkRef [97;97] 7) (mkRef [98;98] 3).
Definition c14_w_re  : cursor := mkCur 1 (mkRef [97;97] 5) (mkRef [97;97] 5) (mkRef [98;98] 3).

(* the decoder accepts the text; the decoded cursor re-encodes (c1 layout) to a cursor the Spec's conclusion calls equivalent,
   although the head height changed 7 -> 5: "equivalent" is weaker than "unchanged in ... head block" *)
Theorem c14_decode_equiv_conclusion_weaker :
  exists s c c',
    from_string s = Some c /\
    from_string (cursor_string c) = Some c' /\ cursor_equiv c' c = true /\   (* what C14_decode_total concludes *)
    cursor_eqb c' c = false /\ rnum (chead c) <> rnum (chead c').           (* "unchanged" fails *)
Proof.
  exists c14_w_text, c14_w_dec, c14_w_re.
  repeat split; try (vm_compute; reflexivity).
  vm_compute. discriminate.
Qed.
Print Assumptions c14_decode_equiv_conclusion_weaker.

(* "c3:16:5:aa:9:hh:3:aa": block id = LIB id with heights 5 and 3; the LIB height is rewritten 3 -> 5 (on the real code
   IsOnFinalBlock flips from false to true across the re-encoding: TestW1_C14_DecodeInconsistentRefs) *)
Theorem c14_decode_equiv_lib_conclusion_weaker :
  exists s c c',
    from_string s = Some c /\
    from_string (cursor_string c) = Some c' /\ cursor_equiv c' c = true /\
    (rnum (cblk c) =? rnum (clib c)) = false /\ (rnum (cblk c') =? rnum (clib c')) = true.
Proof.
  exists [99;51;58;49;54;58;53;58;97;97;58;57;58;104;104;58;51;58;97;97],
         (mkCur 16 (mkRef [97;97] 5) (mkRef [104;104] 9) (mkRef [97;97] 3)),
         (mkCur 16 (mkRef [97;97] 5) (mkRef [104;104] 9) (mkRef [97;97] 5)).
  repeat split; vm_compute; reflexivity.
Qed.
Print Assumptions c14_decode_equiv_lib_conclusion_weaker.

(* such decoded cursors are exactly the ones outside "equal ids imply equal heights": for decoded cursors inside it the
   re-encoding is the identity, so nothing is lost where the quantifier of the round-trip clause applies *)
Theorem c14_decode_equiv_only_outside_alias :
  alias_ok c14_w_dec = false /\ cursor_ok c14_w_dec = true.
Proof. split; vm_compute; reflexivity. Qed.
Print Assumptions c14_decode_equiv_only_outside_alias.

(* (2) the layout clause of the checker as found: acceptance condition copied here (C14_Check.c14_verdict, CCur, property bit).
   An observation whose text has the right prefix byte but 8 segments under "c1" passes it, while Spec.C14_layout's
   fourth conjunct (6 segments for c1/c2) fails. *)
Definition c14_old_layout_clause (c : cursor) (o_str : str) : bool :=
  layout_of o_str =? (if eqb_list (rid (chead c)) (rid (cblk c)) then 1
                      else if eqb_list (rid (cblk c)) (rid (clib c)) then 2 else 3).

Theorem c14_checker_layout_conclusion_weaker :
  exists c o_str,
    cursor_ok c = true /\ alias_ok c = true /\
    c14_old_layout_clause c o_str = true /\                                     (* the checker's clause accepts *)
    length (split colon o_str) <> (if layout_of o_str =? 3 then 8%nat else 6%nat). (* C14_layout, 4th conjunct, fails *)
Proof.
  exists (mkCur 1 (mkRef [97] 5) (mkRef [97] 5) (mkRef [98] 3)),
         (* "c1:1:5:a:3:b:5:a" *)
         [99;49;58;49;58;53;58;97;58;51;58;98;58;53;58;97].
  repeat split; try (vm_compute; reflexivity).
  vm_compute. discriminate.
Qed.
Print Assumptions c14_checker_layout_conclusion_weaker.
End C14.

Module C15.
(* W1 conclusion audit, C15 (block indexes; indexed file streaming): places where the checker's PROPERTY bit says less
   than the property text.  Closed (vm_compute).  See notes_proof_W1/notes_C15.md. *)
Import BV.Base.Prelude BV.Model.BlockIndex BV.Check.C15_Check.
Local Open Scope N_scope.

(* chain 0..29, one block per number, key "a" (byte 97) on block 5 only; bundles of 10; index files of size 10 for
   [0,10) and [10,20): the index covers bundles 0 and 10 and ends at 20; bundle FILES exist for 0, 10 and 20. *)
Definition c15w_chain : feed := map (fun n => (if n =? 5 then [[97]] else [[98]], n)) (map N.of_nat (seq 0 30)).
Definition c15w_m (k : str) : bool := eqb_list k [97].
Definition c15w_names : list (N * N) := [(0, 10); (10, 10)].

(* the run of the MODEL (= the real file source on this input): start block 0, the match 5, then everything from the
   first uncovered bundle (20) on; bundle 10 (covered, no match) is skipped *)
Definition c15w_store : mstore := fst (build_store 0 c15w_chain [(10, None, 30)]).
Definition c15w_model :=
  file_source_run prov (gquery 0 c15w_store [10] c15w_m 10) 0 0 10 (fun _ => false)
    (bundle_exists c15w_chain 10) (bundle_blocks c15w_chain 10) 10 10 (Some prov0) [].

(* "in bundles the index covers other than the LAST AVAILABLE ones, nothing besides these ...": the property bit exempts
   the last bundle the INDEX covers (b + bundle < u), whether or not it is one of the last available bundle FILES.  Here
   bundle 10 is covered by the index, is not the last available file (file 20 exists), yet a delivery that hands the
   consumer all ten non-matching blocks of bundle 10 is accepted by the property bit.  Harmless for the verdict (the
   correspondence bit compares with the model's run), recorded as a weaker conclusion. *)
Theorem c15_last_covered_bundle_exempt_conclusion_weaker :
  fst c15w_model = [0; 5; 20; 21; 22; 23; 24; 25; 26; 27; 28; 29] /\ snd c15w_model = EWait 30 /\
  map (fun f => (if_low f, if_size f)) c15w_store = [(10, 10); (0, 10)] /\
  bundle_exists c15w_chain 10 20 = true /\
  stream_prop c15w_chain [10] c15w_m 10 0 0 [] false c15w_names
    ([0; 5] ++ map N.of_nat (seq 10 20)) 1 30 = true /\
  (* the same clause does reject a stray block in a bundle that is not the last covered one *)
  stream_prop c15w_chain [10] c15w_m 10 0 0 [] false c15w_names
    ([0; 5; 7] ++ map N.of_nat (seq 20 10)) 1 30 = false.
Proof. vm_compute. repeat split; reflexivity. Qed.
Print Assumptions c15_last_covered_bundle_exempt_conclusion_weaker.
End C15.

Module C16.
(* W1 conclusion audit, C16 (block files, one-block file names, fetch): places where the checker's acceptance
   condition says less than the property text.  Every theorem is closed (vm_compute on concrete inputs).
   See notes_proof_W1/notes_C16.md. *)
Import BV.Base.Prelude BV.Base.Decimal BV.Model.CursorCodec BV.Model.Dbin BV.Model.OneBlockName BV.Spec.C16_Spec BV.Check.C16_Check.
Local Open Scope N_scope.

(* ------------------------------------------------------------------ W1-C16-1: "never a crash" and the EHuge tolerance.
   File: content type "T", three 2-byte messages (26 bytes).  ONE corrupted byte: the high byte of the length prefix
   of message 2 (offset 14) 0 -> 255.  The dependency's ReadMessage then makes a buffer of 4 278 190 082 bytes for a
   stream that has 8 bytes left (model: [pb_len] of the padded buffer; real code: make([]byte, 0xff000002), observed
   runtime.MemStats.Sys = 4100 MiB, and "fatal error: out of memory" - which recover() cannot catch - when the address
   space is limited to 2 GiB: TestW1_C16_HugePrefix).  The harness never lets the real reader see such a prefix: it stops
   the read loop before that call and reports the end EHuge, which [oend_matches] pairs with the model's OFuel, and the
   property clause is evaluated on the blocks delivered before it only.  The checker accepts the observation (verdict 0):
   the crash-freedom clause of the property is NOT exercised on the one class of single-byte corruptions that is a
   resource bomb. *)
Definition c16h_ct : str := [84].
Definition c16h_ms : list str := [[1; 7]; [2; 8]; [3; 9]].
Definition c16h_file : str := file_bytes c16h_ct c16h_ms.
Definition c16h_bad : str := corrupt c16h_file 14 255.

(* the stream the reader sees when it asks for message 2 of the corrupted file *)
Definition c16h_rest : str := skipn 14 c16h_bad.

Theorem c16_huge_prefix_conclusion_weaker :
  length c16h_file = 26%nat /\ nth 14 c16h_file 0 = 0 /\
  (* what the (model of the) dependency allocates for the next message, and what it then reports *)
  (let '(m, _, e) := dbin_read_message c16h_rest in
   pb_len m = 4278190082 /\ lenN (pb_data m) = 8 /\ e = EUnexp) /\
  (* the model's own verdict on the whole corrupted file: one block, then an error - "an error or a correct prefix" *)
  read_file toy_dec c16h_bad = (Some (mkHdr 1 c16h_ct), [(1, 7)], OErr) /\
  (* the observation the harness produces (read loop stopped after 1 ReadMessage call, end = huge) is accepted *)
  fault_verdict c16h_ct c16h_ms c16h_file 3
    (mkFobs [CV 14 255 255] (Some 1) CSame [IRef 0] EHuge [IRef 0] EHuge) (FCorrupt 14 255) = 0.
Proof. vm_compute. repeat split; reflexivity. Qed.
Print Assumptions c16_huge_prefix_conclusion_weaker.

(* ------------------------------------------------------------------ fetch: "returns that block or not-found".
   The property clause of [query_verdict] accepts QNotFound unconditionally - also for a block that IS stored, intact,
   under exactly the requested number and id (the answer the model itself gives is FBlock).  Only the correspondence
   bit (1) notices.  No real-code divergence was found behind it (notes_C16.md); the witness records that the PROPERTY
   bit of the checker is safety-only. *)
Definition c16f_store : list (str * str) :=
  [(block_file_name 5 [97] [112] 3 [103], file_bytes [84] [[1; 7]])].

Theorem c16_fetch_notfound_always_accepted_conclusion_weaker :
  fetch_one_block (fun m => Some m) c16f_store 5 [97] = FBlock [1; 7] /\
  query_verdict c16f_store [[1; 7]] [(5, [97])] false (mkQuery 5 [97] QNotFound) = 1 /\   (* 1 = mismatch only; property bit (2) clear *)
  merged_query_verdict [5; 6; 7] (mkQuery 6 [] QNotFound) = 1.
Proof. vm_compute. repeat split; reflexivity. Qed.
Print Assumptions c16_fetch_notfound_always_accepted_conclusion_weaker.

(* ------------------------------------------------------------------ round trip: the property bit looks at the blocks only.
   [round_verdict] evaluates [round_ok] on the blocks read by Read(); what ReadAsBlockMeta delivered enters the
   correspondence bit only.  Observation: Read() delivers the block, ReadAsBlockMeta delivers NOTHING and ends with an
   error (a meta reader that lost every block): verdict 1 (mismatch), property bit clear. *)
Definition c16r_b : blk :=
  mkBlk 7 [97; 98] [97; 97] (Some (1700000000, 5)%Z) 6 0 0%Z [] 0 6 (Some (mkAny [116; 47; 84] [1; 2; 3])).

Theorem c16_round_meta_not_in_property_bit_conclusion_weaker :
  exists flen fsum,
    round_verdict [c16r_b] [Some [9; 9]] flen fsum true false (Some [116; 47; 84]) [None] EEof [None] EEof = 0 /\
    round_verdict [c16r_b] [Some [9; 9]] flen fsum true false (Some [116; 47; 84]) [None] EEof [] EErr = 1.
Proof.
  exists (lenN (fst (write_all (enc_lookup [c16r_b] [Some [9; 9]]) [c16r_b]))),
         (wsum (fst (write_all (enc_lookup [c16r_b] [Some [9; 9]]) [c16r_b]))).
  vm_compute. split; reflexivity.
Qed.
Print Assumptions c16_round_meta_not_in_property_bit_conclusion_weaker.
End C16.

Module C18.
(* W1 — conclusion audit of C18 (fork buffer bounded by the window above the LIB; lookups match the stream).  Stand-alone:
     cd coq && timeout 600 coqc -Q . BV ../notes_proof_W1/audit2_C18.v
   The Spec files (C18_Spec / C18_Moving_Spec / C18_Disc_Spec) state the text at full strength over the kept window and the real
   Forkable passes a text-level oracle (notes_proof_W1/c18_text_oracle_test.go).  What is weaker is the BOOLEAN CHECKER
   (Check/Fk_Props_Check.v: look_ok / c18_follow), which is the only thing that judges the implementation's own observation:
   each witness below is an observation that the checker's property bit ACCEPTS although a clause of the text fails on it.
   (All of them differ from the model's run, so the correspondence bit still reports them: the exit code is unaffected, the
   label is `no-failing-input-found` instead of a property replay.)  The one real-code finding of this audit (HeadInfo panics
   on a block without a valid timestamp, W1-C18-1) has no Coq witness: the model has no timestamps. *)
Import BV.Base.Prelude BV.Model.Block BV.Model.ForkDB BV.Model.Forkable BV.Model.ForkableLookups.
Import BV.Spec.Consumer BV.Spec.C18_Spec BV.Spec.C18_Moving_Spec BV.Check.Fk_Check BV.Check.Fk_Props_Check.
Local Open Scope N_scope.

(* exclusive LIB 1 (id 1), chain 2..7 with a fork block 13 at height 3; block 5 declares LIB 3, blocks 6 and 7 declare LIB 4 *)
Definition c18w_hist : list block :=
  [mkBlock 2 2 1 1; mkBlock 3 3 2 1; mkBlock 13 3 2 1; mkBlock 4 4 3 1; mkBlock 5 5 4 3; mkBlock 6 6 5 4; mkBlock 7 7 6 4].
Definition c18w_qh : list N := [1;2;3;4;5;6;7].
Definition c18w_qi : list N := [1;2;3;4;5;6;7;13].
Definition c18w_cfg (kept : N) : config := mkCfg 1 false false kept false (mkFilter true true true true) None.
Definition c18w_case (kept : N) : fk_case := model_case (c18w_cfg kept) (LExcl (mkR 1 1)) c18w_hist c18w_qh c18w_qi.

(* replace the recorded lookups of observation number i *)
Fixpoint c18w_set_look (i : nat) (f : look -> look) (os : list obs) : list obs :=
  match os, i with
  | [], _ => []
  | o :: os', O => mkObs (o_events o) (o_result o) (o_head o) (o_headnum o) (option_map f (o_look o)) :: os'
  | o :: os', S j => o :: c18w_set_look j f os'
  end.
Definition c18w_tamper (k : fk_case) (i : nat) (f : look -> look) : fk_case :=
  mkFkCase (k_cfg k) (k_mode k) (k_hist k) (c18w_set_look i f (k_obs k)) (k_qh k) (k_qi k).
Definition c18w_look_at (k : fk_case) (i : nat) : option look :=
  match nth_error (k_obs k) i with Some o => o_look o | None => None end.
(* the consumer's chain after all delivered events (newest first) *)
Definition c18w_chain (k : fk_case) : option cstack :=
  apply_all (root_lib (k_mode k) (obs_trace k)) [] (all_events (obs_trace k)).

(* sanity: the untampered runs are in scope, correspond and pass *)
Example c18w_base_ok :
  c18_in_scope (c18w_case 2) = true /\ fk_corresponds (c18w_case 2) = true /\ c18_prop (c18w_case 2) = true /\
  c18_in_scope (c18w_case 0) = true /\ fk_corresponds (c18w_case 0) = true /\ c18_prop (c18w_case 0) = true.
Proof. vm_compute. repeat split. Qed.

(* ---- (1) canonical lookup: the checker looks at heights AT OR ABOVE the LIB only (`negb (libn <=? bnum c) || ...`), the text
   says "at a height present on the consumer's chain" and Spec.canonical_clause (a) covers the kept window LIB - kept.
   Retention 2, after block 7: LIB 4, blocks 2 and 3 are kept final blocks of the consumer's chain, still found by hash.
   An observation whose canonical lookup answers nil at heights 2 and 3 is accepted. *)
Definition c18w_canon_nil_below_lib (l : look) : look :=
  mkLook (l_ids l) (l_lowest l) [0; 0; 0; 4; 5; 6; 7] (l_allat l) (l_byhash l).
Definition c18w_k1 : fk_case := c18w_tamper (c18w_case 2) 6 c18w_canon_nil_below_lib.

Theorem c18_checker_canonical_window_conclusion_weaker :
  exists k c l,
    c18_in_scope k = true /\ c18_prop k = true /\                    (* the checker's property bit accepts *)
    c18w_look_at k 6 = Some l /\
    (exists S, c18w_chain k = Some S /\ In c S) /\                    (* c is on the consumer's chain ... *)
    4 - c_kept (k_cfg k) <= bnum c /\                                 (* ... inside the kept window of LIB 4 ... *)
    nth 2 (l_byhash l) false = true /\                                (* ... still returned by hash ... *)
    nth 2 (l_canon l) 0 <> bid c.                                     (* ... but the canonical lookup at its height is not c *)
Proof.
  exists c18w_k1, (mkBlock 3 3 2 1).
  eexists. split; [vm_compute; reflexivity|]. split; [vm_compute; reflexivity|].
  split; [vm_compute; reflexivity|].
  split. { eexists. split; [vm_compute; reflexivity|]. simpl. tauto. }
  split; [vm_compute; discriminate|]. split; [vm_compute; reflexivity|].
  vm_compute. discriminate.
Qed.
Print Assumptions c18_checker_canonical_window_conclusion_weaker.

(* ---- (2) bound: demanded on the step that MOVES the LIB only (`negb moved || ...`).  Retention 0: block 6 moves the LIB to 4
   (cutoff 4); block 7 moves nothing.  An observation that holds block 2 again after block 7 is accepted: "after every LIB move
   the buffer holds no block below LIB minus the retention" is checked at one instant, not from then on
   (Spec.window_clause: at every later point). *)
Definition c18w_hold_2 (l : look) : look := mkLook (2 :: l_ids l) (l_lowest l) (l_canon l) (l_allat l) (l_byhash l).
Definition c18w_k2 : fk_case := c18w_tamper (c18w_case 0) 6 c18w_hold_2.

Theorem c18_checker_bound_moving_step_only_conclusion_weaker :
  exists k l,
    c18_in_scope k = true /\ c18_prop k = true /\
    c18w_look_at k 6 = Some l /\
    In 2 (l_ids l) /\                                                 (* block 2 (height 2) is held ... *)
    (2 <? 4 - c_kept (k_cfg k)) = true.                               (* ... below LIB 4 minus retention 0, after two LIB moves *)
Proof.
  exists c18w_k2. eexists. split; [vm_compute; reflexivity|]. split; [vm_compute; reflexivity|].
  split; [vm_compute; reflexivity|]. split; [simpl; tauto|]. vm_compute. reflexivity.
Qed.
Print Assumptions c18_checker_bound_moving_step_only_conclusion_weaker.

(* ---- (3) bound: evaluated on AllIDs (the `links` map) only.  On the moving step itself (block 6, retention 0, cutoff 4) an
   observation in which GetBlockByHash and AllBlocksAt still return the purged block 2 is accepted: the buffer of the code is
   three maps (links, nums, objects) and the bound looks at one. *)
Definition c18w_ghost_2 (l : look) : look :=
  mkLook (l_ids l) (l_lowest l) (l_canon l)
         [Some []; Some [2]; Some []; Some [4]; Some [5]; Some [6]; Some []]
         [false; true; false; true; true; true; false; false].
Definition c18w_k3 : fk_case := c18w_tamper (c18w_case 0) 5 c18w_ghost_2.

Theorem c18_checker_bound_allids_only_conclusion_weaker :
  exists k l,
    c18_in_scope k = true /\ c18_prop k = true /\
    c18w_look_at k 5 = Some l /\
    ~ In 2 (l_ids l) /\                                               (* AllIDs does not list block 2 ... *)
    nth 1 (l_byhash l) false = true /\                                (* ... GetBlockByHash returns it ... *)
    nth 1 (l_allat l) None = Some [2] /\                              (* ... AllBlocksAt(2) returns it ... *)
    (2 <? 4 - c_kept (k_cfg k)) = true.                               (* ... below the cutoff, on the step that moved the LIB to 4 *)
Proof.
  exists c18w_k3. eexists. split; [vm_compute; reflexivity|]. split; [vm_compute; reflexivity|].
  split; [vm_compute; reflexivity|].
  split. { simpl. intros [H|[H|[H|H]]]; try discriminate; exact H. }
  repeat split; vm_compute; reflexivity.
Qed.
Print Assumptions c18_checker_bound_allids_only_conclusion_weaker.

(* ---- (4) head information: the property bit compares the ID of HeadInfo with the last New only; number and LIB number of the
   head information are left to the correspondence bit. *)
Fixpoint c18w_set_head (i : nat) (hd : option (ref * N)) (os : list obs) : list obs :=
  match os, i with
  | [], _ => []
  | o :: os', O => mkObs (o_events o) (o_result o) hd (o_headnum o) (o_look o) :: os'
  | o :: os', S j => o :: c18w_set_head j hd os'
  end.
Definition c18w_k4 : fk_case :=
  let k := c18w_case 2 in
  mkFkCase (k_cfg k) (k_mode k) (k_hist k) (c18w_set_head 6 (Some (mkR 7 999, 0)) (k_obs k)) (k_qh k) (k_qi k).

Theorem c18_checker_head_id_only_conclusion_weaker :
  exists k o,
    c18_in_scope k = true /\ c18_prop k = true /\
    nth_error (k_obs k) 6 = Some o /\
    last_new 0 (all_events (obs_trace k)) = 7 /\                      (* the last block delivered as New is block 7, number 7, LIB 4 *)
    o_head o = Some (mkR 7 999, 0).                                   (* accepted head information: number 999, LIB number 0 *)
Proof.
  exists c18w_k4. eexists. split; [vm_compute; reflexivity|]. split; [vm_compute; reflexivity|].
  split; [vm_compute; reflexivity|]. split; vm_compute; reflexivity.
Qed.
Print Assumptions c18_checker_head_id_only_conclusion_weaker.

(* ---- (5) "observed after every single input block": a step whose lookups were not recorded (o_look = None) is accepted
   (`| None => true`); the harness records them for every step of a C18 case, so this only matters for a harness change. *)
Definition c18w_drop_looks (os : list obs) : list obs :=
  map (fun o => mkObs (o_events o) (o_result o) (o_head o) (o_headnum o) None) os.
Theorem c18_checker_unobserved_accepted_conclusion_weaker :
  exists k, c18_in_scope k = true /\ c18_prop k = true /\ fk_corresponds k = true /\
            Forall (fun o => o_look o = None) (k_obs k) /\ k_obs k <> [].
Proof.
  exists (let k := c18w_case 2 in mkFkCase (k_cfg k) (k_mode k) (k_hist k) (c18w_drop_looks (k_obs k)) (k_qh k) (k_qi k)).
  split; [vm_compute; reflexivity|]. split; [vm_compute; reflexivity|]. split; [vm_compute; reflexivity|].
  split; [vm_compute; repeat constructor|]. vm_compute. discriminate.
Qed.
Print Assumptions c18_checker_unobserved_accepted_conclusion_weaker.
End C18.

Module C19.
(* W1 — conclusion audit of C19 (block range algebra).  Closed witnesses for the places where a CONCLUSION of
   Spec/C19_Spec.v (and the acceptance condition of Check/C19_Check.v: nextb / prevb) repeats the code's own
   formula instead of the property sentence "Next, Previous and IsNext agree with the interval arithmetic
   implied by the bounds and their inclusivity flags" (why_tests_cant: "membership at the inclusive/exclusive
   boundaries after Split and Next chains").  C19_next / C19_previous / C19_isnext say: Next(size) is
   mkRange end (end+size) with the flags kept, its Size is size, Previous undoes it — and contain NO clause
   about which numbers the produced range contains.  Replayed on the real code: TestW1_C19_... in
   notes_proof_W1/c19_next_membership_test.go. *)
Import BV.Base.Prelude BV.Base.Decimal BV.Model.Range BV.Spec.C19_Spec.
Local Open Scope N_scope.

Definition w1_nums : list N := map N.of_nat (seq 0 41).           (* 0 .. 40 *)
Definition w1_members (r : range) : list N := filter (contains r) w1_nums.

(* W1-C19-1a.  both bounds INCLUSIVE: the range Next produces shares its first number with r.
   Everything C19_next concludes holds (formula, Size = size, range_ok, Previous undoes it), and yet 15 is a
   member of [10,15] and of [10,15].Next(5) = [15,20], which has 6 members for a "size" of 5. *)
Theorem c19_next_inclusive_overlap_conclusion_weaker :
  exists r sz n,
    range_ok r /\ rend r = Some 15 /\ 15 + sz < two64 /\
    (* what the Spec concludes *)
    next r sz = mkRange 15 (Some (15 + sz)) (rexs r) (rexe r) /\
    size (next r sz) = Some sz /\ range_ok (next r sz) /\ previous (next r sz) (15 - rstart r) = r /\
    is_next r (next r sz) sz = true /\
    (* what the interval reading of the text excludes: a number in both ranges, and sz + 1 members *)
    in_range r n /\ in_range (next r sz) n /\
    w1_members (next r sz) = [15; 16; 17; 18; 19; 20] /\ sz = 5.
Proof.
  exists (mkRange 10 (Some 15) false false), 5, 15.
  unfold range_ok, u64, in_range, lower_ok, upper_ok; cbn [rstart rend rexs rexe].
  repeat split; try reflexivity; try (vm_compute; reflexivity); try (vm_compute; discriminate).
Qed.
Print Assumptions c19_next_inclusive_overlap_conclusion_weaker.

(* W1-C19-1b.  both bounds EXCLUSIVE: the chain (10,15), (15,20) leaves 15 out although it lies between the
   two ranges (above every member of r, below every member of Next); Next(5) has 4 members.  (The same
   geometry as the known finding C19-split-both-exclusive-inner-boundaries, but for Next, where the Spec has
   no union clause at all.) *)
Theorem c19_next_exclusive_gap_conclusion_weaker :
  exists r sz n,
    range_ok r /\ rend r = Some 15 /\ 15 + sz < two64 /\
    next r sz = mkRange 15 (Some (15 + sz)) (rexs r) (rexe r) /\
    size (next r sz) = Some sz /\ range_ok (next r sz) /\
    is_next r (next r sz) sz = true /\
    (forall m, in_range r m -> m < n) /\ (forall m, in_range (next r sz) m -> n < m) /\
    (exists m, in_range r m) /\ (exists m, in_range (next r sz) m) /\
    ~ in_range r n /\ ~ in_range (next r sz) n /\
    w1_members (next r sz) = [16; 17; 18; 19] /\ sz = 5.
Proof.
  exists (mkRange 10 (Some 15) true true), 5, 15.
  assert (Hn : next (mkRange 10 (Some 15) true true) 5 = mkRange 15 (Some 20) true true) by (vm_compute; reflexivity).
  rewrite Hn.
  unfold range_ok, u64, in_range, lower_ok, upper_ok; cbn [rstart rend rexs rexe].
  repeat split; try reflexivity; try (vm_compute; reflexivity); try (vm_compute; discriminate).
  - intros m [_ H]; exact H.
  - intros m [H _]; exact H.
  - exists 12. split; vm_compute; reflexivity.
  - exists 17. split; vm_compute; reflexivity.
  - intros [_ H]. revert H. vm_compute. discriminate.
  - intros [H _]. revert H. vm_compute. discriminate.
Qed.
Print Assumptions c19_next_exclusive_gap_conclusion_weaker.

(* the two half-open combinations are the ones for which Next tiles exactly (no witness possible there):
   recorded for contrast *)
Theorem c19_next_half_open_tiles :
  w1_members (mkRange 10 (Some 15) false true) = [10;11;12;13;14] /\
  w1_members (next (mkRange 10 (Some 15) false true) 5) = [15;16;17;18;19] /\
  w1_members (mkRange 10 (Some 15) true false) = [11;12;13;14;15] /\
  w1_members (next (mkRange 10 (Some 15) true false) 5) = [16;17;18;19;20].
Proof. vm_compute. repeat split. Qed.
Print Assumptions c19_next_half_open_tiles.

(* W1-C19-1c.  Previous mirrors Next: [10,15].Previous(5) = [5,10] shares 10 with r *)
Theorem c19_previous_inclusive_overlap_conclusion_weaker :
  exists r sz n,
    range_ok r /\ sz <= rstart r /\
    previous r sz = mkRange (rstart r - sz) (Some (rstart r)) (rexs r) (rexe r) /\
    size (previous r sz) = Some sz /\ range_ok (previous r sz) /\
    in_range r n /\ in_range (previous r sz) n /\
    w1_members (previous r sz) = [5; 6; 7; 8; 9; 10] /\ sz = 5.
Proof.
  exists (mkRange 10 (Some 15) false false), 5, 10.
  unfold range_ok, u64, in_range, lower_ok, upper_ok; cbn [rstart rend rexs rexe].
  repeat split; try reflexivity; try (vm_compute; reflexivity); try (vm_compute; discriminate).
Qed.
Print Assumptions c19_previous_inclusive_overlap_conclusion_weaker.

(* W1-C19-1d.  open-ended ranges: the Spec reads Next as "r moved up by size" and Previous as "r moved down
   by size".  Next is then a SUB-range of r and Previous a SUPER-range of r: every member of Next is a member
   of r, every member of r is a member of Previous; nothing follows / precedes r. *)
Theorem c19_open_ended_next_inside_conclusion_weaker :
  exists r sz,
    range_ok r /\ rend r = None /\ rstart r + sz < two64 /\ sz <= rstart r /\ 0 < sz /\
    next r sz = mkRange (rstart r + sz) None (rexs r) (rexe r) /\
    previous r sz = mkRange (rstart r - sz) None (rexs r) (rexe r) /\
    is_next r (next r sz) sz = true /\
    (forall n, in_range (next r sz) n -> in_range r n) /\
    (forall n, in_range r n -> in_range (previous r sz) n) /\
    (exists n, in_range r n /\ in_range (next r sz) n) /\
    (exists n, in_range r n /\ in_range (previous r sz) n).
Proof.
  exists (mkRange 10 None false true), 5.
  assert (Hn : next (mkRange 10 None false true) 5 = mkRange 15 None false true) by (vm_compute; reflexivity).
  assert (Hp : previous (mkRange 10 None false true) 5 = mkRange 5 None false true) by (vm_compute; reflexivity).
  rewrite Hn, Hp.
  assert (A : forall n, in_range (mkRange 15 None false true) n -> in_range (mkRange 10 None false true) n).
  { unfold in_range, lower_ok, upper_ok; cbn [rstart rend rexs rexe]. intros n [H _]. split; [|exact I].
    apply N.le_trans with 15; [vm_compute; discriminate | exact H]. }
  assert (B : forall n, in_range (mkRange 10 None false true) n -> in_range (mkRange 5 None false true) n).
  { unfold in_range, lower_ok, upper_ok; cbn [rstart rend rexs rexe]. intros n [H _]. split; [|exact I].
    apply N.le_trans with 10; [vm_compute; discriminate | exact H]. }
  assert (C : exists n, in_range (mkRange 10 None false true) n /\ in_range (mkRange 15 None false true) n).
  { exists 17. unfold in_range, lower_ok, upper_ok; cbn [rstart rend rexs rexe].
    repeat split; vm_compute; discriminate. }
  assert (D : exists n, in_range (mkRange 10 None false true) n /\ in_range (mkRange 5 None false true) n).
  { exists 12. unfold in_range, lower_ok, upper_ok; cbn [rstart rend rexs rexe].
    repeat split; vm_compute; discriminate. }
  refine (conj _ (conj _ (conj _ (conj _ (conj _ (conj _ (conj _ (conj _ (conj A (conj B (conj C D)))))))))));
    try reflexivity; try (vm_compute; reflexivity); try (vm_compute; discriminate).
  unfold range_ok, u64; cbn [rstart rend]. split; [vm_compute; reflexivity | exact I].
Qed.
Print Assumptions c19_open_ended_next_inside_conclusion_weaker.

(* W1-C19-2.  C19_constructors (an extra theorem, NewRangeContaining is not named in the property sentence)
   concludes "st <= b < st + sz" for the INCLUSIVE range [st, st+sz] it builds: two consecutive aligned
   ranges share their boundary, and the range has sz + 1 members. *)
Theorem c19_range_containing_shared_boundary_conclusion_weaker :
  exists a b,
    new_range_containing 150 100 = CtorOk a /\ new_range_containing 200 100 = CtorOk b /\
    a = mkRange 100 (Some 200) false false /\ b = mkRange 200 (Some 300) false false /\
    in_range a 200 /\ in_range b 200 /\ is_next a b 100 = true /\
    (* 200 is outside the half-open interval the conclusion speaks of for block 150 *)
    ~ (100 <= 200 < 100 + 100).
Proof.
  exists (mkRange 100 (Some 200) false false), (mkRange 200 (Some 300) false false).
  unfold in_range, lower_ok, upper_ok; cbn [rstart rend rexs rexe].
  repeat split; try reflexivity; try (vm_compute; reflexivity); try (vm_compute; discriminate).
  intros [_ H]. revert H. vm_compute. discriminate.
Qed.
Print Assumptions c19_range_containing_shared_boundary_conclusion_weaker.
End C19.

Module C20.
(* W1 — conclusion audit of C20 (block-stream server fan-out).  Closed witnesses for the places where the
   acceptance condition of the boolean property checker says LESS than the property sentence it stands for.
   No divergence of the MODEL (or of the real code) from the property text was found for C20: both witnesses
   below are about observations that the real code does not produce (Go tests TestW1_C20_...), i.e. about
   violations the property checker alone would not notice.  seq_property / conc_sub_ok are the definitions of
   Check/C20_Check.v as they were before notes_proof_W1/check_C20.diff (which leaves them unchanged and adds
   vis_check to c20_verdict). *)
Import BV.Base.Prelude BV.Model.BlockServer BV.Spec.C20_Spec BV.Check.C20_Check.
Local Open Scope Z_scope.

(* what the consumer of subscription k sees at each of its receives *)
Fixpoint w1_cons_of (k : nat) (ops : list op) (obs : list oobs) : list cres :=
  match ops, obs with
  | OConsume k' :: ops', ObCons r :: obs' =>
      if Nat.eqb k' k then r :: w1_cons_of k ops' obs' else w1_cons_of k ops' obs'
  | _ :: ops', _ :: obs' => w1_cons_of k ops' obs'
  | _, _ => []
  end.

(* ... and what the reference automaton of Spec.C20_Spec (ref_step) shows at these receives: the head of
   the queue, `closed` once the channel is closed AND drained, `empty` otherwise *)
Fixpoint w1_ref_cons (cap : N) (v : sview) (evs : list sev) : list cres :=
  match evs with
  | [] => []
  | e :: evs' =>
      let v' := ref_step cap v e in
      match e with
      | EvCons =>
          (match v_q v with
           | x :: _ => CGot x
           | [] => if v_closed v then CClosed else CEmpty
           end) :: w1_ref_cons cap v' evs'
      | EvPush _ => w1_ref_cons cap v' evs'
      end
  end.

(* W1-C20-1a.  "... until its buffer overflows, at which point only that subscriber's channel is closed":
   a capacity-2 subscription overflows at the third push; the consumer drains the two queued blocks and
   then finds the channel EMPTY for ever (the channel was never closed, only the `closed` field was set).
   seq_property accepts this observation; the reference says the third receive sees `closed`. *)
Definition w1_ops_a : list op := [OAttach 2; OPush 1; OPush 2; OPush 3; OConsume 0; OConsume 0; OConsume 0]%N.
Definition w1_obs_a : list oobs :=
  [ObSub (Some 0%nat) 2 0; ObPush [1] false; ObPush [1;2] false; ObPush [1;2;3] true;
   ObCons (CGot 1); ObCons (CGot 2); ObCons CEmpty]%N.
Definition w1_fin_a : list subobs := [SObs [] true 2%N].

Theorem c20_seq_checker_never_closed_conclusion_weaker :
  exists ops obs fin,
    (* the property checker accepts *)
    seq_property true 3 ops obs fin = true /\
    (* the subscription did overflow: the reference view of handle 0 is closed ... *)
    v_closed (ref_sub 2 (mkView [] [] false) (proj 0 true (tl ops))) = true /\
    (* ... the text demands that its channel is then closed: the consumer must see `closed` after the
       drain, but the accepted observation shows `empty` *)
    w1_ref_cons 2 (mkView [] [] false) (proj 0 true (tl ops)) = [CGot 1; CGot 2; CClosed]%N /\
    w1_cons_of 0 (tl ops) (tl obs) = [CGot 1; CGot 2; CEmpty]%N.
Proof. exists w1_ops_a, w1_obs_a, w1_fin_a. vm_compute. repeat split. Qed.
Print Assumptions c20_seq_checker_never_closed_conclusion_weaker.

(* W1-C20-1b.  the converse: a subscription that never overflowed (one push into a capacity-2 channel,
   read at once) whose consumer then sees the channel CLOSED.  Accepted by seq_property; the text allows a
   close only at the overflow of that subscriber's buffer. *)
Definition w1_ops_b : list op := [OAttach 2; OPush 1; OConsume 0; OConsume 0]%N.
Definition w1_obs_b : list oobs :=
  [ObSub (Some 0%nat) 2 0; ObPush [1] false; ObCons (CGot 1); ObCons CClosed]%N.
Definition w1_fin_b : list subobs := [SObs [] false 2%N].

Theorem c20_seq_checker_spurious_close_conclusion_weaker :
  exists ops obs fin,
    seq_property true 3 ops obs fin = true /\
    v_closed (ref_sub 2 (mkView [] [] false) (proj 0 true (tl ops))) = false /\
    w1_ref_cons 2 (mkView [] [] false) (proj 0 true (tl ops)) = [CGot 1; CEmpty]%N /\
    w1_cons_of 0 (tl ops) (tl obs) = [CGot 1; CClosed]%N.
Proof. exists w1_ops_b, w1_obs_b, w1_fin_b. vm_compute. repeat split. Qed.
Print Assumptions c20_seq_checker_spurious_close_conclusion_weaker.

(* both observations are told apart from the model's run (verdict code 1 or 3, never 0): the weakness is
   in the PROPERTY side of the verdict only *)
Theorem c20_seq_checker_gap_is_a_model_mismatch :
  model_agrees true 3 w1_ops_a w1_obs_a w1_fin_a = false /\
  model_agrees true 3 w1_ops_b w1_obs_b w1_fin_b = false.
Proof. vm_compute. split; reflexivity. Qed.
Print Assumptions c20_seq_checker_gap_is_a_model_mismatch.

(* W1-C20-2.  concurrent runs: the acceptance condition of a CLOSED subscriber is "a strict prefix of the
   later pushes and at least 200 + |burst| blocks received in all"; it does not fix the overflow point.
   For 1000 pushes and a burst-less subscriber it accepts a close after 200 blocks (the only outcome of a
   subscriber that never reads during the run) and equally a close after 900 blocks.  The text's "until
   its buffer overflows" is checked exactly in sequential cases only (ref_sub). *)
Definition w1_P : list N := map N.of_nat (seq 1 1000).
Theorem c20_conc_checker_overflow_point_conclusion_weaker :
  conc_sub_ok 3 w1_P (CSub 0 (map N.of_nat (seq 1 200)) true false) = true /\
  conc_sub_ok 3 w1_P (CSub 0 (map N.of_nat (seq 1 900)) true false) = true /\
  (* an unsubscribed subscriber may have received anything contiguous, even nothing *)
  conc_sub_ok 3 w1_P (CSub 0 [] false true) = true.
Proof. vm_compute. repeat split. Qed.
Print Assumptions c20_conc_checker_overflow_point_conclusion_weaker.
End C20.

