(* C08 with the faithful fan-out (finding W1-C08-2): property theorems only.  Statements: Spec/C08_All_Spec.v
   (events of a live block = Model/HubAll.v hub_live_all: everything the hub's Forkable hands to processBlock,
   before readiness too), Spec/C08_Gen_Spec.v, Spec/C08_Sched_Gen_Spec.v (any event production function);
   proofs: Proofs/C08_LiveAll.v, Proofs/C08G_*.v, Proofs/C08_AllThms.v. *)
From BV Require Import Base.Prelude Model.Block Model.ForkDB Model.Forkable Model.ForkableLookups
  Model.Burst Model.Hub Model.HubSubs Model.HubAll Model.HubSched Model.HubSchedG
  Spec.Consumer Spec.C08_Spec Spec.C08_Gen_Spec Spec.C08_Sched_Spec Spec.C08_Sched_Gen_Spec Spec.C08_All_Spec
  Check.Fk_Check Check.Burst_Check Proofs.C08_AllThms.
Local Open Scope N_scope.

(* ---- 0. hub_live_all against hub_live ---- *)

Theorem c08_live_all_same_hub : C08_live_all_same_hub.
Proof. exact c08_live_all_same_hub_proof. Qed.
Print Assumptions c08_live_all_same_hub.

Theorem c08_live_all_ready : C08_live_all_ready.
Proof. exact c08_live_all_ready_proof. Qed.
Print Assumptions c08_live_all_ready.

Theorem c08_live_events_sub : C08_live_events_sub.
Proof. exact c08_live_events_sub_proof. Qed.
Print Assumptions c08_live_events_sub.

Theorem c08_live_all_is_forkable : C08_live_all_is_forkable.
Proof. exact c08_live_all_is_forkable_proof. Qed.
Print Assumptions c08_live_all_is_forkable.

(* ---- 1. operation sequences, any start state (ready or not), any one-block store ---- *)

Theorem c08_exactly_once_all : C08_exactly_once_all.
Proof. exact c08_exactly_once_all_proof. Qed.
Print Assumptions c08_exactly_once_all.

Theorem c08_refused_all : C08_refused_all.
Proof. exact c08_refused_all_proof. Qed.
Print Assumptions c08_refused_all.

Theorem c08_isolation_hub_all : C08_isolation_hub_all.
Proof. exact c08_isolation_hub_all_proof. Qed.
Print Assumptions c08_isolation_hub_all.

Theorem c08_isolation_subs_all : C08_isolation_subs_all.
Proof. exact c08_isolation_subs_all_proof. Qed.
Print Assumptions c08_isolation_subs_all.

Theorem c08_lone_all : C08_lone_all.
Proof. exact c08_lone_all_proof. Qed.
Print Assumptions c08_lone_all.

Theorem c08_registration_atomic_all : C08_registration_atomic_all.
Proof. exact c08_registration_atomic_all_proof. Qed.
Print Assumptions c08_registration_atomic_all.

Theorem c08_push_events_all_not_ready : C08_push_events_all_not_ready.
Proof. exact c08_push_events_all_not_ready_proof. Qed.
Print Assumptions c08_push_events_all_not_ready.

Theorem c08_all_ready_same : C08_all_ready_same.
Proof. exact c08_all_ready_same_proof. Qed.
Print Assumptions c08_all_ready_same.

(* ---- 2. every schedule of the goroutines, any initial hub (ready or not) ---- *)

Theorem c08_serial_hub_all : C08_serial_hub_all.
Proof. exact c08_serial_hub_all_proof. Qed.
Print Assumptions c08_serial_hub_all.

Theorem c08_serial_lone_all : C08_serial_lone_all.
Proof. exact c08_serial_lone_all_proof. Qed.
Print Assumptions c08_serial_lone_all.

Theorem c08_serial_exactly_once_all : C08_serial_exactly_once_all.
Proof. exact c08_serial_exactly_once_all_proof. Qed.
Print Assumptions c08_serial_exactly_once_all.

Theorem c08_serial_isolation_all : C08_serial_isolation_all.
Proof. exact c08_serial_isolation_all_proof. Qed.
Print Assumptions c08_serial_isolation_all.

Theorem c08_seq_embeds_all : C08_seq_embeds_all.
Proof. exact c08_seq_embeds_all_proof. Qed.
Print Assumptions c08_seq_embeds_all.

Theorem c08_sched_serializable_all : C08_sched_serializable_all.
Proof. exact c08_sched_serializable_all_proof. Qed.
Print Assumptions c08_sched_serializable_all.

Theorem c08_sched_mutual_exclusion_all : C08_sched_mutual_exclusion_all.
Proof. exact c08_sched_mutual_exclusion_all_proof. Qed.
Print Assumptions c08_sched_mutual_exclusion_all.

Theorem c08_sched_burst_append_atomic_all : C08_sched_burst_append_atomic_all.
Proof. exact c08_sched_burst_append_atomic_all_proof. Qed.
Print Assumptions c08_sched_burst_append_atomic_all.

Theorem c08_sched_no_lost_registration_all : C08_sched_no_lost_registration_all.
Proof. exact c08_sched_no_lost_registration_all_proof. Qed.
Print Assumptions c08_sched_no_lost_registration_all.

Theorem c08_sched_registration_atomic_all : C08_sched_registration_atomic_all.
Proof. exact c08_sched_registration_atomic_all_proof. Qed.
Print Assumptions c08_sched_registration_atomic_all.

Theorem c08_sched_exactly_once_all : C08_sched_exactly_once_all.
Proof. exact c08_sched_exactly_once_all_proof. Qed.
Print Assumptions c08_sched_exactly_once_all.

Theorem c08_sched_isolation_all : C08_sched_isolation_all.
Proof. exact c08_sched_isolation_all_proof. Qed.
Print Assumptions c08_sched_isolation_all.

Theorem c08_sched_hub_unaffected_all : C08_sched_hub_unaffected_all.
Proof. exact c08_sched_hub_unaffected_all_proof. Qed.
Print Assumptions c08_sched_hub_unaffected_all.

Theorem c08_sched_complete_delivery_all : C08_sched_complete_delivery_all.
Proof. exact c08_sched_complete_delivery_all_proof. Qed.
Print Assumptions c08_sched_complete_delivery_all.

Theorem c08_sched_no_deadlock_all : C08_sched_no_deadlock_all.
Proof. exact c08_sched_no_deadlock_all_proof. Qed.
Print Assumptions c08_sched_no_deadlock_all.

Theorem c08_sched_all_ready_same : C08_sched_all_ready_same.
Proof. exact c08_sched_all_ready_same_proof. Qed.
Print Assumptions c08_sched_all_ready_same.

(* ---- 3. every event production function ---- *)

Theorem c08_gen_exactly_once : C08_gen_exactly_once.
Proof. exact c08_gen_exactly_once_proof. Qed.
Print Assumptions c08_gen_exactly_once.

Theorem c08_gen_refused : C08_gen_refused.
Proof. exact c08_gen_refused_proof. Qed.
Print Assumptions c08_gen_refused.

Theorem c08_gen_isolation_hub : C08_gen_isolation_hub.
Proof. exact c08_gen_isolation_hub_proof. Qed.
Print Assumptions c08_gen_isolation_hub.

Theorem c08_gen_isolation_subs : C08_gen_isolation_subs.
Proof. exact c08_gen_isolation_subs_proof. Qed.
Print Assumptions c08_gen_isolation_subs.

Theorem c08_gen_lone : C08_gen_lone.
Proof. exact c08_gen_lone_proof. Qed.
Print Assumptions c08_gen_lone.

Theorem c08_gen_registration_atomic : C08_gen_registration_atomic.
Proof. exact c08_gen_registration_atomic_proof. Qed.
Print Assumptions c08_gen_registration_atomic.

Theorem c08_gen_serial_hub : C08_gen_serial_hub.
Proof. exact c08_gen_serial_hub_proof. Qed.
Print Assumptions c08_gen_serial_hub.

Theorem c08_gen_serial_lone : C08_gen_serial_lone.
Proof. exact c08_gen_serial_lone_proof. Qed.
Print Assumptions c08_gen_serial_lone.

Theorem c08_gen_serial_exactly_once : C08_gen_serial_exactly_once.
Proof. exact c08_gen_serial_exactly_once_proof. Qed.
Print Assumptions c08_gen_serial_exactly_once.

Theorem c08_gen_serial_isolation : C08_gen_serial_isolation.
Proof. exact c08_gen_serial_isolation_proof. Qed.
Print Assumptions c08_gen_serial_isolation.

Theorem c08_gen_seq_embeds : C08_gen_seq_embeds.
Proof. exact c08_gen_seq_embeds_proof. Qed.
Print Assumptions c08_gen_seq_embeds.

Theorem c08_gen_sched_serializable : C08_gen_sched_serializable.
Proof. exact c08_gen_sched_serializable_proof. Qed.
Print Assumptions c08_gen_sched_serializable.

Theorem c08_gen_sched_mutual_exclusion : C08_gen_sched_mutual_exclusion.
Proof. exact c08_gen_sched_mutual_exclusion_proof. Qed.
Print Assumptions c08_gen_sched_mutual_exclusion.

Theorem c08_gen_sched_burst_append_atomic : C08_gen_sched_burst_append_atomic.
Proof. exact c08_gen_sched_burst_append_atomic_proof. Qed.
Print Assumptions c08_gen_sched_burst_append_atomic.

Theorem c08_gen_sched_no_lost_registration : C08_gen_sched_no_lost_registration.
Proof. exact c08_gen_sched_no_lost_registration_proof. Qed.
Print Assumptions c08_gen_sched_no_lost_registration.

Theorem c08_gen_sched_registration_atomic : C08_gen_sched_registration_atomic.
Proof. exact c08_gen_sched_registration_atomic_proof. Qed.
Print Assumptions c08_gen_sched_registration_atomic.

Theorem c08_gen_sched_exactly_once : C08_gen_sched_exactly_once.
Proof. exact c08_gen_sched_exactly_once_proof. Qed.
Print Assumptions c08_gen_sched_exactly_once.

Theorem c08_gen_sched_isolation : C08_gen_sched_isolation.
Proof. exact c08_gen_sched_isolation_proof. Qed.
Print Assumptions c08_gen_sched_isolation.

Theorem c08_gen_sched_hub_unaffected : C08_gen_sched_hub_unaffected.
Proof. exact c08_gen_sched_hub_unaffected_proof. Qed.
Print Assumptions c08_gen_sched_hub_unaffected.

Theorem c08_gen_sched_complete_delivery : C08_gen_sched_complete_delivery.
Proof. exact c08_gen_sched_complete_delivery_proof. Qed.
Print Assumptions c08_gen_sched_complete_delivery.

Theorem c08_gen_sched_no_deadlock : C08_gen_sched_no_deadlock.
Proof. exact c08_gen_sched_no_deadlock_proof. Qed.
Print Assumptions c08_gen_sched_no_deadlock.

(* ---- non-vacuity: the class the old statements were not faithful on ---- *)

(* first streamable block 1, 5 final blocks kept, a linear chain in which block k declares k-2 final.
   One-block files 1..30, live block 40: hole 31..39, the hub is NOT ready (head 30, LIB 28). *)
Definition c08a_blk (n : N) : block := mkBlock (1000 + n) n (1000 + n - 1) (n - 2).
Definition c08a_files (k : nat) : list block := map (fun k => c08a_blk (N.of_nat k)) (seq 1 k).
Definition c08a_h1 : hub := let '(h, _, _) := hub_live 1 5 hub_init (PBlocks (c08a_files 30)) (c08a_blk 40) in h.
Definition qitem_events (q : list qitem) : list event :=
  flat_map (fun x => match x with QEv e => [e] | QBlk _ => [] end) q.
Definition c08a_sig (l : list event) : list (Block.step * N) := map (fun e => (estep e, bnum (eblk e))) l.

(* SourceFromBlockNum(26) on the hub that is not ready is served (burst 26..30); the live blocks 31, 32, 33
   follow, 31 is linkable and makes the hub ready.  The faithful stream has the events of 31; hub_live's
   has not (replay on the real hub: TestW1_C08_SubscribedBeforeReadyReceivesEverything).  The subscription
   holds burst ++ all six events, a stream a consumer can follow. *)
Example c08_all_nonvacuous_ready_transition :
  let bs := [c08a_blk 31; c08a_blk 32; c08a_blk 33] in
  let post := map OPush bs in
  h_ready c08a_h1 = false /\
  (exists burst, request_burst (hub_after_all 1 5 no_pass c08a_h1 (pushes [])) (RNum 26) = Some burst /\
                 c08a_sig (qitem_events burst) = [(SNewIrr, 26); (SNewIrr, 27); (SNewIrr, 28); (SNew, 29); (SNew, 30)]) /\
  h_ready (hub_after_all 1 5 no_pass c08a_h1 [c08a_blk 31]) = true /\
  c08a_sig (push_events_all 1 5 no_pass c08a_h1 bs)
    = [(SNew, 31); (SIrr, 29); (SNew, 32); (SIrr, 30); (SNew, 33); (SIrr, 31)] /\
  c08a_sig (push_events 1 5 c08a_h1 bs) = [(SNew, 32); (SIrr, 30); (SNew, 33); (SIrr, 31)] /\
  (exists s got, hview (run_all 1 5 no_pass (start (mkSH c08a_h1 [])) ([] ++ OSub (RNum 26) :: post)) 0 = Some (s, got) /\
                 ms_dropped s = false /\ length (got ++ ms_queue s) = 11%nat /\
                 cons_fold cons0 (qitem_events (got ++ ms_queue s)) <> None) /\
  (exists s got, hview (run 1 5 (start (mkSH c08a_h1 [])) ([] ++ OSub (RNum 26) :: post)) 0 = Some (s, got) /\
                 cons_fold cons0 (qitem_events (got ++ ms_queue s)) = None).
Proof.
  cbv zeta. split; [vm_compute; reflexivity|].
  split; [eexists; vm_compute; split; reflexivity|].
  split; [vm_compute; reflexivity|]. split; [vm_compute; reflexivity|]. split; [vm_compute; reflexivity|].
  split; [eexists; eexists; vm_compute; repeat split; try reflexivity; discriminate|].
  eexists; eexists; vm_compute; repeat split; reflexivity.
Qed.

(* the bootstrap feed: the subscription of the same hub, then live block 41 arrives when the one-block
   store has files 1..39.  bootstrap() plays them through the Forkable (31..39 are new: New and Irreversible
   events), processes 41 (linkable now: New 40, New 41, Irreversible 38, 39) and the hub is ready.  The
   subscription registered before receives all of it; hub_live reports nothing for this block. *)
Definition c08a_store (b : block) : pass := if bnum b =? 41 then PBlocks (c08a_files 39) else PBlocks [].

Example c08_all_nonvacuous_bootstrap_feed :
  let bs := [c08a_blk 41; c08a_blk 42] in
  c08a_sig (push_events_all 1 5 c08a_store c08a_h1 bs)
    = [(SNew, 31); (SIrr, 29); (SNew, 32); (SIrr, 30); (SNew, 33); (SIrr, 31); (SNew, 34); (SIrr, 32);
       (SNew, 35); (SIrr, 33); (SNew, 36); (SIrr, 34); (SNew, 37); (SIrr, 35); (SNew, 38); (SIrr, 36);
       (SNew, 39); (SIrr, 37); (SNew, 40); (SNew, 41); (SIrr, 38); (SIrr, 39); (SNew, 42); (SIrr, 40)] /\
  snd (fst (hub_live 1 5 c08a_h1 (c08a_store (c08a_blk 41)) (c08a_blk 41))) = [] /\
  h_ready (hub_after_all 1 5 c08a_store c08a_h1 [c08a_blk 41]) = true /\
  (exists s got, hview (run_all 1 5 c08a_store (start (mkSH c08a_h1 [])) (OSub (RNum 26) :: map OPush bs)) 0 = Some (s, got) /\
                 ms_dropped s = false /\ length (got ++ ms_queue s) = 29%nat /\
                 cons_fold cons0 (qitem_events (got ++ ms_queue s)) <> None).
Proof.
  cbv zeta. split; [vm_compute; reflexivity|]. split; [vm_compute; reflexivity|]. split; [vm_compute; reflexivity|].
  eexists; eexists; vm_compute; repeat split; try reflexivity; discriminate.
Qed.

(* schedule level: the same hub (not ready), script 31, 32, one requester SourceFromBlockNum(26) that
   registers before the producer starts, its consumer afterwards.  Everything finishes; the consumer has
   received burst ++ New 31, Irr 29, New 32, Irr 30 (hypotheses of c08_sched_complete_delivery_all and
   c08_sched_exactly_once_all); in Model/HubSched.v (hub_live) it receives burst ++ New 32, Irr 30. *)
Definition c08a_sched : list tid := repeat (TReq 0%nat) 8 ++ repeat TProd 40 ++ repeat (TCons 0%nat) 12.

Example c08_all_nonvacuous_sched :
  let st := crun_g true (hp_all 1 5) (cinit c08a_h1 [c08a_blk 31; c08a_blk 32] [RNum 26]) c08a_sched in
  let st' := crun true 1 5 (cinit c08a_h1 [c08a_blk 31; c08a_blk 32] [RNum 26]) c08a_sched in
  h_ready c08a_h1 = false /\ h_ready (g_hub st) = true /\
  g_ppc st = PIdle /\ g_script st = [] /\ g_order st = [0%nat] /\
  map (fun c => (r_pc c, c08a_sig (qitem_events (r_got c)),
                 match r_sub c with Some s => Some (ms_queue s, ms_dropped s) | None => None end)) (g_reqs st)
    = [(RDone, [(SNewIrr, 26); (SNewIrr, 27); (SNewIrr, 28); (SNew, 29); (SNew, 30);
                (SNew, 31); (SIrr, 29); (SNew, 32); (SIrr, 30)], Some ([], false))] /\
  map (fun c => c08a_sig (qitem_events (r_got c))) (g_reqs st')
    = [[(SNewIrr, 26); (SNewIrr, 27); (SNewIrr, 28); (SNew, 29); (SNew, 30); (SNew, 32); (SIrr, 30)]].
Proof. cbv zeta. repeat split; vm_compute; reflexivity. Qed.
