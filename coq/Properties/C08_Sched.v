(* C08, schedule part: property theorems only.  Model: Model/HubSched.v; statements:
   Spec/C08_Sched_Spec.v; proofs: Proofs/C08_Sched*.v. *)
From BV Require Import Base.Prelude Model.Block Model.ForkDB Model.Forkable Model.ForkableLookups
  Model.Burst Model.Hub Model.HubSubs Model.HubSched Spec.C08_Spec Spec.C08_Sched_Spec
  Proofs.C08_SchedSerial Proofs.C08_SchedEmbed Proofs.C08_SchedReg Proofs.C08_SchedThms Proofs.C08_SchedProgress.
Local Open Scope N_scope.

(* ---- A. sequences of the atomic operations XBlock / XFan / XSub / XRecv ---- *)

Theorem c08_serial_hub : C08_serial_hub.
Proof. exact c08_serial_hub_proof. Qed.
Print Assumptions c08_serial_hub.

Theorem c08_serial_lone : C08_serial_lone.
Proof. exact c08_serial_lone_proof. Qed.
Print Assumptions c08_serial_lone.

Theorem c08_serial_exactly_once : C08_serial_exactly_once.
Proof. exact c08_serial_exactly_once_proof. Qed.
Print Assumptions c08_serial_exactly_once.

Theorem c08_serial_isolation : C08_serial_isolation.
Proof. exact c08_serial_isolation_proof. Qed.
Print Assumptions c08_serial_isolation.

Theorem c08_seq_embeds : C08_seq_embeds.
Proof. exact c08_seq_embeds_proof. Qed.
Print Assumptions c08_seq_embeds.

(* ---- B. every schedule of the goroutines (fixed code) ---- *)

Theorem c08_sched_serializable : C08_sched_serializable.
Proof. exact c08_sched_serializable_proof. Qed.
Print Assumptions c08_sched_serializable.

Theorem c08_sched_mutual_exclusion : C08_sched_mutual_exclusion.
Proof. exact c08_sched_mutual_exclusion_proof. Qed.
Print Assumptions c08_sched_mutual_exclusion.

Theorem c08_sched_burst_append_atomic : C08_sched_burst_append_atomic.
Proof. exact c08_sched_burst_append_atomic_proof. Qed.
Print Assumptions c08_sched_burst_append_atomic.

Theorem c08_sched_no_lost_registration : C08_sched_no_lost_registration.
Proof. exact c08_sched_no_lost_registration_proof. Qed.
Print Assumptions c08_sched_no_lost_registration.

Theorem c08_sched_registration_atomic : C08_sched_registration_atomic.
Proof. exact c08_sched_registration_atomic_proof. Qed.
Print Assumptions c08_sched_registration_atomic.

Theorem c08_sched_exactly_once : C08_sched_exactly_once.
Proof. exact c08_sched_exactly_once_proof. Qed.
Print Assumptions c08_sched_exactly_once.

Theorem c08_sched_isolation : C08_sched_isolation.
Proof. exact c08_sched_isolation_proof. Qed.
Print Assumptions c08_sched_isolation.

Theorem c08_sched_hub_unaffected : C08_sched_hub_unaffected.
Proof. exact c08_sched_hub_unaffected_proof. Qed.
Print Assumptions c08_sched_hub_unaffected.

Theorem c08_sched_complete_delivery : C08_sched_complete_delivery.
Proof. exact c08_sched_complete_delivery_proof. Qed.
Print Assumptions c08_sched_complete_delivery.

Theorem c08_sched_no_deadlock : C08_sched_no_deadlock.
Proof. exact c08_sched_no_deadlock_proof. Qed.
Print Assumptions c08_sched_no_deadlock.

(* ---- C. the code before the fix ---- *)

(* a linear chain, each block declaring the block two below it final; the hub is bootstrapped from
   blocks 2..4 with live block 5: ready, head 5, LIB 3; each further block produces two events *)
Definition c08s_blk (n : N) : block := mkBlock n n (n - 1) (n - 2).
Definition c08s_h0 : hub :=
  let '(h, _, _) := hub_live 2 0 hub_init (PBlocks [c08s_blk 2; c08s_blk 3; c08s_blk 4]) (c08s_blk 5) in h.

(* Two requesters inside the shared read lock both read the empty h.subscribers, then both write:
   requester 1's write overwrites requester 0's.  Both SourceFromBlockNum calls return a source;
   block 6 is then processed (two events): subscription 0 is not in the list and still holds exactly
   its burst. *)
Definition c08s_lost_sched : list tid :=
  repeat (TReq 0) 3 ++ repeat (TReq 1) 3 ++ repeat (TReq 0) 2 ++ repeat (TReq 1) 2 ++ repeat TProd 10.

Theorem c08_unfixed_lost_registration_refuted : C08_unfixed_lost_registration.
Proof.
  exists 2, 0, c08s_h0, [c08s_blk 6], [RNum 4; RNum 4], c08s_lost_sched, 0%nat.
  eexists. eexists. cbv zeta.
  split; [vm_compute; reflexivity|]. split; [reflexivity|]. split; [reflexivity|]. split; [reflexivity|].
  split; [vm_compute; reflexivity|]. split; [vm_compute; reflexivity|]. split; [discriminate|].
  split; [vm_compute; intros [H|[]]; discriminate|].
  split; [eexists; split; vm_compute; reflexivity|].
  vm_compute. discriminate.
Qed.
Print Assumptions c08_unfixed_lost_registration_refuted.

(* the same schedule on the fixed code: requester 1 waits for the mutex, nothing is lost *)
Example c08_fixed_same_schedule_keeps_both :
  let st := crun true 2 0 (cinit c08s_h0 [c08s_blk 6] [RNum 4; RNum 4])
                 (c08s_lost_sched ++ repeat (TReq 0) 4 ++ repeat (TReq 1) 6 ++ repeat TProd 12) in
  g_subs st = [0%nat; 1%nat] /\ g_ppc st = PIdle /\ g_script st = [] /\
  map (fun c => length (r_got c ++ ms_queue (sub_of_rec c))) (g_reqs st) = [4%nat; 4%nat].
Proof. vm_compute. repeat split; reflexivity. Qed.

(* ---- D. non-vacuity: a concrete interleaved schedule ---- *)

(* Requester 0 registers; block 6 is processed while requester 1 waits for the read lock (the writer
   has announced itself); consumer 0 receives once while event 1 of block 6 is in flight and has not
   been offered to it (entered BEFORE that XFan) and once after the push (entered AFTER it); requester
   1 then takes the read lock, is held at the hook while the producer announces block 7 and waits,
   registers, and block 7 goes to both. *)
Definition c08s_sched : list tid :=
  repeat (TReq 0) 8 ++ [TProd; TReq 1; TProd; TProd; TProd]
  ++ [TCons 0; TProd; TCons 0; TProd; TProd; TProd; TProd; TProd]
  ++ repeat (TReq 1) 3 ++ [TProd; TProd] ++ repeat (TReq 1) 4 ++ repeat TProd 11 ++ [TCons 1; TCons 0].

Definition c08s_brief (o : xop) : N * N :=
  match o with
  | XBlock b => (0, bnum b) | XFan e => (1, bnum (eblk e))
  | XSub (RNum n) => (2, n) | XSub _ => (2, 0) | XRecv k => (3, N.of_nat k)
  end.

Example c08_sched_nonvacuous :
  let st := crun true 2 0 (cinit c08s_h0 [c08s_blk 6; c08s_blk 7] [RNum 4; RNum 5]) c08s_sched in
  (* both registered, in this order: the hypothesis of c08_sched_exactly_once / _registration_atomic *)
  nth_error (g_order st) 0 = Some 0%nat /\ nth_error (g_order st) 1 = Some 1%nat /\
  g_ppc st = PIdle /\ g_script st = [] /\
  (* the serialisation: (0,n) block n; (1,n) event about block n; (2,n) request from n; (3,k) receive on k *)
  map (fun p => (fst p, c08s_brief (snd p))) (serial st) =
    [(TReq 0, (2, 4)); (TProd, (0, 6)); (TCons 0, (3, 0)); (TProd, (1, 6)); (TCons 0, (3, 0)); (TProd, (1, 4));
     (TReq 1, (2, 5)); (TProd, (0, 7)); (TProd, (1, 7)); (TProd, (1, 5)); (TCons 1, (3, 1)); (TCons 0, (3, 0))] /\
  (* the conclusion of c08_sched_serializable, evaluated *)
  xrun 2 0 (xstart (mkSH c08s_h0 [])) (map snd (serial st)) = sview st /\
  (* subscription 0: burst of 2, then the 4 events of blocks 6 and 7; subscription 1: burst of 2 (taken
     AFTER block 6), then the 2 events of block 7 *)
  map (fun c => (length (r_got c), length (ms_queue (sub_of_rec c)), ms_cap (sub_of_rec c))) (g_reqs st)
    = [(3%nat, 3%nat, 102); (1%nat, 3%nat, 102)].
Proof. vm_compute. repeat split; reflexivity. Qed.

(* the same schedule followed by the remaining receives: everything has finished (the hypothesis of
   c08_sched_complete_delivery), subscription 0 received 2 + 4 items, subscription 1 2 + 2 *)
Example c08_sched_nonvacuous_finished :
  let st := crun true 2 0 (cinit c08s_h0 [c08s_blk 6; c08s_blk 7] [RNum 4; RNum 5])
                 (c08s_sched ++ repeat (TCons 0) 3 ++ repeat (TCons 1) 3) in
  (g_ppc st = PIdle /\ g_script st = [] /\
   map (fun c => (r_pc c, length (ms_queue (sub_of_rec c)))) (g_reqs st) = [(RDone, 0%nat); (RDone, 0%nat)]) /\
  g_order st = [0%nat; 1%nat] /\
  map (fun c => length (r_got c)) (g_reqs st) = [6%nat; 4%nat] /\
  length (push_events 2 0 c08s_h0 [c08s_blk 6; c08s_blk 7]) = 4%nat /\
  length (push_events 2 0 (hub_after 2 0 c08s_h0 [c08s_blk 6]) [c08s_blk 7]) = 2%nat.
Proof. vm_compute. repeat split; reflexivity. Qed.

(* a state in the middle of a fan-out: the event in flight has been pushed to subscription 0 and not
   yet to subscription 1; the serial machine has it fanned out to both (sub_done) *)
Example c08_sched_nonvacuous_inflight :
  let st := crun true 2 0 (cinit c08s_h0 [c08s_blk 6] [RNum 4; RNum 5])
                 (repeat (TReq 0) 7 ++ repeat (TReq 1) 7 ++ repeat TProd 5) in
  (exists e evs, g_ppc st = PFan e [1%nat] evs) /\
  xrun 2 0 (xstart (mkSH c08s_h0 [])) (map snd (serial st)) = sview st /\
  map (fun i => length (ms_queue (sub_at st i))) [0%nat; 1%nat] = [3%nat; 1%nat] /\
  map (fun i => length (ms_queue (sub_done st i))) [0%nat; 1%nat] = [3%nat; 2%nat].
Proof. split; [eexists; eexists; vm_compute; reflexivity|]. vm_compute. repeat split; reflexivity. Qed.

(* ---- E. why the atomic operations are finer than those of Model/HubSubs.v ---- *)

(* A block is not atomic with respect to receives.  One subscription with an empty burst (capacity 100)
   and a block with 101 events: fanned out as ONE operation (push_block) the 101st event finds the
   channel full and the subscription is dropped, wherever its drains are placed around that
   operation; a consumer that receives between the events of the block keeps it alive.  Every event is
   delivered to it — more than any sequence of the three operations of HubSubs allows. *)
Definition c08s_ev (n : N) : event := mkEv SNew (c08s_blk n) (mkR n n) (mkR n n) (mkR 0 0) None 0 0.
Definition c08s_101 : list event := map (fun k => c08s_ev (N.of_nat k)) (seq 1 101).

Example c08_block_not_atomic_for_receives :
  ms_dropped (fold_left sub_push c08s_101 (new_sub [])) = true /\
  (let v := lrun (new_sub [], []) (flat_map (fun e => [LPush e; LRecv]) c08s_101) in
   ms_dropped (fst v) = false /\ snd v = map QEv c08s_101).
Proof. vm_compute. repeat split; reflexivity. Qed.

(* Requests are ordered at the append, not at the read-lock acquisition: requester 0 takes the read
   lock first, requester 1 appends first, and the subscriber list (hence the positions of the serial
   state) is in the order of the appends. *)
Example c08_order_is_append_order :
  let st := crun true 2 0 (cinit c08s_h0 [] [RNum 4; RNum 5])
                 ([TReq 0; TReq 1] ++ repeat (TReq 1) 6 ++ repeat (TReq 0) 6) in
  g_subs st = [1%nat; 0%nat] /\
  map snd (serial st) = [XSub (RNum 5); XSub (RNum 4)] /\
  xrun 2 0 (xstart (mkSH c08s_h0 [])) [XSub (RNum 5); XSub (RNum 4)] = sview st /\
  xrun 2 0 (xstart (mkSH c08s_h0 [])) [XSub (RNum 4); XSub (RNum 5)] <> sview st.
Proof.
  cbv zeta. split; [vm_compute; reflexivity|]. split; [vm_compute; reflexivity|].
  split; [vm_compute; reflexivity|]. vm_compute. discriminate.
Qed.
