(* C15 property theorems only.  Proofs live in Proofs/. *)
From BV Require Import Base.Prelude Model.BlockIndex Spec.C15_Spec
  Proofs.C15_Provider Proofs.C15_Indexer Proofs.C15_Lookup Proofs.C15_Stream Proofs.C15_Proofs.
Local Open Scope N_scope.

(* what BlockIndexer.Add writes *)
Theorem c15_indexer : forall B enc dec, C15_indexer B enc dec.
Proof. exact c15_indexer_proof. Qed.
Print Assumptions c15_indexer.

(* what GenericBlockIndexProvider.BlocksInRange returns over exact index files *)
Theorem c15_provider : forall B dec, C15_provider B dec.
Proof. exact c15_provider_proof. Qed.
Print Assumptions c15_provider.

(* both composed: indexer -> files -> provider *)
Theorem c15_indexed_provider : forall B enc dec, C15_indexed_provider B enc dec.
Proof. exact c15_indexed_provider_proof. Qed.
Print Assumptions c15_indexed_provider.

(* the generic provider is a provider in the sense of the streaming theorems *)
Theorem c15_generic_provider_ok :
  forall B (dec : B -> option kvmap) fsb st possible m fd bundle,
    bundle <> 0 -> store_exact B dec fd st ->
    provider_ok prov (generic_query dec fsb st possible m bundle) bundle (prov_inv B dec st m)
                (fun n => fsb <= n /\ exists k, m k = true /\ fed fd k n).
Proof. exact c15_generic_provider_ok_proof. Qed.
Print Assumptions c15_generic_provider_ok.

(* the file source: every matching block, in order, each once *)
Theorem c15_stream_complete :
  forall PS query start stop bundle prog exists_ blocks Inv M,
    C15_stream_complete PS query start stop bundle prog exists_ blocks Inv M.
Proof. exact c15_stream_complete_proof. Qed.
Print Assumptions c15_stream_complete.

(* the file source: nothing else while the index covers the bundles *)
Theorem c15_stream_tight :
  forall PS query start stop bundle prog exists_ blocks Inv M,
    C15_stream_tight PS query start stop bundle prog exists_ blocks Inv M.
Proof. exact c15_stream_tight_proof. Qed.
Print Assumptions c15_stream_tight.

(* the file source: every block once the index has ended *)
Theorem c15_fallback :
  forall PS query start stop bundle prog exists_ blocks Inv M,
    C15_fallback PS query start stop bundle prog exists_ blocks Inv M.
Proof. exact c15_fallback_proof. Qed.
Print Assumptions c15_fallback.

(* kept behaviour outside the property's hypothesis: PassesFilter works per bundle file *)
Theorem c15_passes_filter_is_per_bundle : forall start, passes_filter_is_per_bundle start.
Proof. exact passes_filter_is_per_bundle_proof. Qed.
Print Assumptions c15_passes_filter_is_per_bundle.

(* the code before the two fix: patches violated the provider clause (witnesses replayed on the
   real code by the harness corpus) *)
Theorem c15_unfixed_upper_bound_refuted :
  scan_unfixed 100 200 [0; 100; 200; 300; 400; 500; 600; 700; 800; 900] = [100; 200] /\
  scan 100 200 [0; 100; 200; 300; 400; 500; 600; 700; 800; 900] = [100].
Proof. exact c15_unfixed_upper_bound_witness. Qed.
Print Assumptions c15_unfixed_upper_bound_refuted.

(* non-vacuity: a chain with a skipped number, an index that ends before the chain does, a start
   block that is not a match; every hypothesis of the streaming theorems holds for it, the source
   delivers start, the two indexed matches, then every block *)
Example c15_nonvacuous_stream :
  (5 <> 0 /\
   provider_ok prov C15Example.q 5 (prov_inv kvmap (fun kv => Some kv) C15Example.st C15Example.m) C15Example.Mset /\
   chain_ok 5 C15Example.blocks /\
   prov_inv kvmap (fun kv => Some kv) C15Example.st C15Example.m prov0) /\
  file_source_run prov C15Example.q 2 13 5 (fun _ => false) C15Example.exists_ C15Example.blocks 10 10 (Some prov0) [] =
  ([2; 3; 8; 10; 11; 12; 13], EStop).
Proof. split; [exact C15Example.hyps | exact C15Example.run_result]. Qed.

(* non-vacuity of the indexer / provider clauses: the codec hypothesis is satisfiable, the feed is
   ascending, and the provider returns a non-empty answer over the files the indexer wrote *)
Example c15_nonvacuous_provider :
  codec_ok kvmap (fun kv => kv) (fun kv => Some kv) /\ feed_ascending C15Example.chain /\
  exists p', blocks_in_range (fun kv : kvmap => Some kv) 0 C15Example.st [10] C15Example.m prov0 5 5 = Ok (p', Some [8]).
Proof. split; [exact codec_id_ok|]. split; [exact C15Example.chain_asc | exact C15Example.provider_result]. Qed.
