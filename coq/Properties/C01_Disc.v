(* C01, hold-until-LIB discovery (mode LNone, holdBlocksUntilLIB) in the fixed-LIB class, every handler oracle:
   property theorem only.  Proofs: Proofs/Fk/FixedLibWeak.v, FixedLibIncl.v, FixedLibDisc.v, LoopFactsFail.v,
   Proofs/C01_FailProofs.v, Proofs/C01_DiscProofs.v. *)
From BV Require Import Base.Prelude Model.Block Model.ForkDB Model.Forkable Spec.Consumer Spec.Universe
  Spec.C01_Spec Spec.C01_More_Spec Proofs.C01_DiscProofs.
Local Open Scope N_scope.

(* partial (c01_full is the full statement): discovery with hold-until-LIB; every block at or above one
   height n0 declares n0 as its LIB; arbitrary handler oracle; everything else universally quantified *)
Theorem c01_fixed_lib_disc_partial : c01_fixed_lib_disc_statement.
Proof. exact c01_fixed_lib_disc_proved. Qed.
Print Assumptions c01_fixed_lib_disc_partial.

(* non-vacuity, n0 = 10: two blocks (3 on 2, 2 on the future LIB) arrive first and are held; block 1 of
   height 10 becomes the LIB (New + Irreversible, cursor LIB = itself); a second block of height 10 (30) is
   never delivered nor is its child 32; the held block 2 is delivered when 4 arrives; a fork switch undoes
   5 and 4; duplicates deliver nothing.  With the handler failing at call 3 the step of block 4 is cut
   after New 4 and returns the handler error. *)
Definition exd_lb : block := mkBlock 1 10 20 10.
Definition exd_h : list block :=
  [ mkBlock 3 12 2 10; mkBlock 2 11 1 10; exd_lb; mkBlock 30 10 31 10; mkBlock 4 12 2 10; mkBlock 5 14 4 10;
    mkBlock 2 11 1 10; exd_lb; mkBlock 9 15 8 10; mkBlock 6 13 3 10; mkBlock 11 15 6 10; mkBlock 32 11 30 10 ].
Definition exd_cfg (k : option N) : config := mkCfg 0 false true 2 false (mkFilter true true true true) k.
Definition exd_show (t : trace) :=
  map (fun x => (map (fun e => (estep e, bid (eblk e), ri (elib e))) (fst x), snd x)) t.

Example c01_disc_nonvacuous :
  c01_disc_scope_b 10 (c_first (exd_cfg None)) exd_h = true /\
  exd_show (fk_run (exd_cfg None) (fs_init LNone) exd_h) =
    [([], ROk); ([], ROk); ([(SNew, 1, 1); (SIrr, 1, 1)], ROk); ([], ROk); ([(SNew, 2, 1); (SNew, 4, 1)], ROk);
     ([(SNew, 5, 1)], ROk); ([], ROk); ([], ROk); ([], ROk); ([], ROk);
     ([(SUndo, 5, 1); (SUndo, 4, 1); (SNew, 3, 1); (SNew, 6, 1); (SNew, 11, 1)], ROk); ([], ROk)] /\
  exd_show (fk_run (exd_cfg (Some 3)) (fs_init LNone) exd_h) =
    [([], ROk); ([], ROk); ([(SNew, 1, 1); (SIrr, 1, 1)], ROk); ([], ROk); ([(SNew, 2, 1); (SNew, 4, 1)], RHandlerErr)].
Proof. vm_compute. repeat split; auto. Qed.
