(* C06 property theorems only.  Proofs live in Proofs/C06_*.v, statements in Spec/C06_Spec.v. *)
From BV Require Import Base.Prelude Model.Block Model.Burst Model.CursorResolver Check.Burst_Check
  Spec.C06_Spec Proofs.C06_Lists Proofs.C06_Proofs Proofs.C06_Forked Proofs.C06_Through Proofs.C06_Consumer.
Local Open Scope N_scope.

(* ---- file_delivery is a filter: membership, contiguity, chain preserved ---- *)
Theorem c06_delivery_members : C06_delivery_members.
Proof. exact c06_delivery_members_proof. Qed.
Print Assumptions c06_delivery_members.

Theorem c06_delivery_segment : C06_delivery_segment.
Proof. exact c06_delivery_segment_proof. Qed.
Print Assumptions c06_delivery_segment.

(* ---- the consumer's branch = canonical prefix ++ forked suffix ---- *)
Theorem c06_held_split : C06_held_split.
Proof. exact c06_held_split_proof. Qed.
Print Assumptions c06_held_split.

Theorem c06_held_canon_segment : C06_held_canon_segment.
Proof. exact c06_held_canon_segment_proof. Qed.
Print Assumptions c06_held_canon_segment.

(* ---- resuming ---- *)
Theorem c06_resume_on_chain : C06_resume_on_chain.
Proof. exact c06_resume_on_chain_proof. Qed.
Print Assumptions c06_resume_on_chain.

Theorem c06_resume_undo_on_chain : C06_resume_undo_on_chain.
Proof. exact c06_resume_undo_on_chain_proof. Qed.
Print Assumptions c06_resume_undo_on_chain.

Theorem c06_final_cursor : C06_final_cursor.
Proof. exact c06_final_cursor_proof. Qed.
Print Assumptions c06_final_cursor.

Theorem c06_resume_forked : C06_resume_forked.
Proof. exact c06_resume_forked_proof. Qed.
Print Assumptions c06_resume_forked.

Theorem c06_resume_forked_undo : C06_resume_forked_undo.
Proof. exact c06_resume_forked_undo_proof. Qed.
Print Assumptions c06_resume_forked_undo.

Theorem c06_missing : C06_missing.
Proof. exact c06_missing_proof. Qed.
Print Assumptions c06_missing.

Theorem c06_not_reached : C06_not_reached.
Proof. exact c06_not_reached_proof. Qed.
Print Assumptions c06_not_reached.

(* ---- never an inconsistent sequence ---- *)
Theorem c06_consumer : C06_consumer.
Proof. exact c06_consumer_proof. Qed.
Print Assumptions c06_consumer.

(* ---- pass-through mode ---- *)
Theorem c06_through_on_chain : C06_through_on_chain.
Proof. exact c06_through_on_chain_proof. Qed.
Print Assumptions c06_through_on_chain.

Theorem c06_through_forked : C06_through_forked.
Proof. exact c06_through_forked_proof. Qed.
Print Assumptions c06_through_forked.

Theorem c06_through_final_cursor : C06_through_final_cursor.
Proof. exact c06_through_final_cursor_proof. Qed.
Print Assumptions c06_through_final_cursor.

(* a target cursor below the start block has already passed: plain delivery from the start block *)
Theorem c06_through_passed : C06_through_passed.
Proof. exact c06_through_passed_proof. Qed.
Print Assumptions c06_through_passed.

(* the code before the fix C06-through-cursor-passed ended such a stream with "not implemented" *)
Theorem c06_through_passed_unfixed_refuted : C06_through_passed_unfixed_refuted.
Proof. exact c06_through_passed_unfixed_refuted_proof. Qed.
Print Assumptions c06_through_passed_unfixed_refuted.

(* the resolver before the fix did not serve a final target cursor *)
Theorem c06_through_final_cursor_unfixed_refuted : C06_through_final_cursor_unfixed_refuted.
Proof. exact c06_through_final_cursor_unfixed_refuted_proof. Qed.
Print Assumptions c06_through_final_cursor_unfixed_refuted.

(* what file_of means for a store with one file per id *)
Theorem c06_file_of_present : forall forked c b,
  NoDup (ids forked) -> In b forked -> rn (cu_lib c) <= bnum b -> file_of forked c (bid b) = Some b.
Proof. exact file_of_present. Qed.
Print Assumptions c06_file_of_present.

Theorem c06_file_of_absent : forall forked c id,
  (forall x, In x forked -> bid x = id -> bnum x < rn (cu_lib c)) -> file_of forked c id = None.
Proof. exact file_of_absent. Qed.
Print Assumptions c06_file_of_absent.

(* ================================================================== non-vacuity *)

(* canonical chain 1,2,3,4,6,7,8,9,11 (numbers 5 and 10 skipped), ids 10*n+1; bundles of 5, stop
   block 9: the source delivers through number 9.  Fork 4b (id 42) - 6b (id 62) on top of block 3. *)
Definition a (n p : N) : block := mkBlock (10 * n + 1) n (10 * p + 1) 2.
Definition nv_merged : list block := [a 1 0; a 2 1; a 3 2; a 4 3; a 6 4; a 7 6; a 8 7; a 9 8; a 11 9].
Definition nv_L : block := a 2 1.
Definition nv_rest : list block := [a 3 2; a 4 3; a 6 4; a 7 6; a 8 7; a 9 8].
Definition f4 : block := mkBlock 42 4 31 2.
Definition f6 : block := mkBlock 62 6 42 2.
Definition nv_lib : ref := mkR 21 2.
Definition cur (st : step) (b : block) : cursor := mkCursor st (bref b) (bref b) nv_lib.

Ltac nodup_ids := cbn; repeat (constructor; [cbn; lia|]); constructor.
Ltac chain_tac := split; [cbn; repeat split; lia|nodup_ids].

Lemma nv_setting : forall st b, setting nv_merged (cur st b) 9 5 nv_L nv_rest.
Proof. intros st b. split; [chain_tac|]. split; [vm_compute; reflexivity|reflexivity]. Qed.

Example c06_nonvacuous_on_chain :
  setting nv_merged (cur SNew (a 6 4)) 9 5 nv_L nv_rest /\
  matches_undo (cu_step (cur SNew (a 6 4))) = false /\
  In (a 6 4) (nv_L :: nv_rest) /\ bref (a 6 4) = cu_blk (cur SNew (a 6 4)) /\
  map (fun e => (estep e, bnum (eblk e))) (fst (from_cursor_run nv_merged [] (cur SNew (a 6 4)) 9 5)) =
    [(SIrr, 3); (SIrr, 4); (SIrr, 6); (SNewIrr, 7); (SNewIrr, 8); (SNewIrr, 9)].
Proof.
  split; [apply nv_setting|]. split; [reflexivity|]. split; [cbn; tauto|]. split; [reflexivity|].
  vm_compute. reflexivity.
Qed.

Example c06_nonvacuous_undo_on_chain :
  setting nv_merged (cur SUndo (a 6 4)) 9 5 nv_L nv_rest /\
  In (a 6 4) (nv_L :: nv_rest) /\
  map (fun e => (estep e, bnum (eblk e))) (fst (from_cursor_run nv_merged [] (cur SUndo (a 6 4)) 9 5)) =
    [(SIrr, 3); (SIrr, 4); (SNewIrr, 6); (SNewIrr, 7); (SNewIrr, 8); (SNewIrr, 9)].
Proof. split; [apply nv_setting|]. split; [cbn; tauto|]. vm_compute. reflexivity. Qed.

Example c06_nonvacuous_final :
  setting nv_merged (cur SIrr nv_L) 9 5 nv_L nv_rest /\
  matches_irr (cu_step (cur SIrr nv_L)) = true /\ cu_blk (cur SIrr nv_L) = cu_lib (cur SIrr nv_L).
Proof. split; [apply nv_setting|]. split; reflexivity. Qed.

(* New cursor on 6b: the consumer holds 3 | 4b 6b *)
Example c06_nonvacuous_forked :
  let c := cur SNew f6 in
  setting nv_merged c 9 5 nv_L nv_rest /\ cu_step c <> SUndo /\
  branch_from nv_L ([a 3 2] ++ [f4; f6]) /\
  Forall (on_canon (nv_L :: nv_rest)) [a 3 2] /\ Forall (off_canon (nv_L :: nv_rest)) [f4; f6] /\
  [f4; f6] <> [] /\ bref (last [f4; f6] nv_L) = cu_blk c /\
  (forall w, In w [f4; f6] -> file_of [f6; f4] c (bid w) = Some w) /\
  reached (nv_L :: nv_rest) c /\ base_ok nv_L [a 1 0; nv_L] /\
  map (fun e => (estep e, bid (eblk e), ejunc e)) (fst (from_cursor_run nv_merged [f6; f4] c 9 5)) =
    [(SUndo, 62, Some (mkR 31 3)); (SUndo, 42, Some (mkR 31 3)); (SIrr, 31, None);
     (SNewIrr, 41, None); (SNewIrr, 61, None); (SNewIrr, 71, None); (SNewIrr, 81, None); (SNewIrr, 91, None)].
Proof.
  cbv zeta. split; [apply nv_setting|]. split; [discriminate|].
  split; [cbn; repeat split; lia|].
  split; [repeat constructor; cbn; tauto|].
  split; [repeat constructor; unfold off_canon; cbn; lia|].
  split; [discriminate|]. split; [reflexivity|].
  split; [intros w [<-|[<-|[]]]; vm_compute; reflexivity|].
  split; [exists (a 6 4); split; [cbn; tauto|cbn; lia]|].
  split; [right; exists [a 1 0]; reflexivity|].
  vm_compute. reflexivity.
Qed.

(* Undo cursor on 6b: the consumer holds 3 | 4b, block 6b already undone *)
Example c06_nonvacuous_forked_undo :
  let c := cur SUndo f6 in
  setting nv_merged c 9 5 nv_L nv_rest /\ cu_step c = SUndo /\
  branch_from nv_L ([a 3 2] ++ [f4] ++ [f6]) /\
  Forall (on_canon (nv_L :: nv_rest)) [a 3 2] /\ Forall (off_canon (nv_L :: nv_rest)) ([f4] ++ [f6]) /\
  bref f6 = cu_blk c /\
  (forall w, In w ([f4] ++ [f6]) -> file_of [f6; f4] c (bid w) = Some w) /\
  reached (nv_L :: nv_rest) c /\
  map (fun e => (estep e, bid (eblk e))) (fst (from_cursor_run nv_merged [f6; f4] c 9 5)) =
    [(SUndo, 42); (SIrr, 31); (SNewIrr, 41); (SNewIrr, 61); (SNewIrr, 71); (SNewIrr, 81); (SNewIrr, 91)].
Proof.
  cbv zeta. split; [apply nv_setting|]. split; [reflexivity|].
  split; [cbn; repeat split; lia|].
  split; [repeat constructor; cbn; tauto|].
  split; [repeat constructor; unfold off_canon; cbn; lia|].
  split; [reflexivity|].
  split; [intros w [<-|[<-|[]]]; vm_compute; reflexivity|].
  split; [exists (a 6 4); split; [cbn; tauto|cbn; lia]|].
  vm_compute. reflexivity.
Qed.

(* the file of 4b is absent *)
Example c06_nonvacuous_missing :
  let c := cur SNew f6 in
  (forall w, In w [f4; f6] -> file_of [f6] c (bid w) = Some w \/ file_of [f6] c (bid w) = None) /\
  (exists m, In m [f4; f6] /\ file_of [f6] c (bid m) = None) /\
  from_cursor_run nv_merged [f6] c 9 5 = ([], RsResolveErr).
Proof.
  cbv zeta. split; [intros w [<-|[<-|[]]]; [right|left]; vm_compute; reflexivity|].
  split; [exists f4; split; [left; reflexivity|vm_compute; reflexivity]|].
  vm_compute. reflexivity.
Qed.

(* the merged files end below the cursor block *)
Example c06_nonvacuous_not_reached :
  let c := mkCursor SNew (mkR 122 12) (mkR 122 12) nv_lib in
  setting nv_merged c 9 5 nv_L nv_rest /\ ~ reached (nv_L :: nv_rest) c.
Proof.
  cbv zeta. split; [split; [chain_tac|split; [vm_compute; reflexivity|reflexivity]]|].
  intros (b & Hb & Hge). cbn in Hb, Hge.
  repeat (destruct Hb as [<-|Hb]; [cbn in Hge; lia|]). contradiction.
Qed.

(* consumers: base = blocks 1, 2 *)
Example c06_nonvacuous_consumer_on_chain :
  branch_from nv_L [a 3 2; a 4 3; a 6 4] /\ Forall (on_canon (nv_L :: nv_rest)) [a 3 2; a 4 3; a 6 4] /\
  bref (last [a 3 2; a 4 3; a 6 4] nv_L) = cu_blk (cur SNew (a 6 4)) /\ base_ok nv_L [a 1 0; nv_L].
Proof.
  split; [cbn; repeat split; lia|]. split; [repeat constructor; cbn; tauto|].
  split; [reflexivity|right; exists [a 1 0]; reflexivity].
Qed.

Example c06_nonvacuous_consumer_undo_on_chain :
  branch_from nv_L ([a 3 2; a 4 3] ++ [a 6 4]) /\ Forall (on_canon (nv_L :: nv_rest)) ([a 3 2; a 4 3] ++ [a 6 4]) /\
  bref (a 6 4) = cu_blk (cur SUndo (a 6 4)).
Proof. split; [cbn; repeat split; lia|]. split; [repeat constructor; cbn; tauto|reflexivity]. Qed.

(* pass-through from block 7 with a target cursor on block 6 (canonical) and on the forked f6: plain
   delivery from block 7 *)
Example c06_nonvacuous_through_passed :
  rn (cu_blk (cur SNew (a 6 4))) < 7 /\ rn (cu_blk (cur SNew f6)) < 7 /\
  through_cursor_run nv_merged [] 7 (cur SNew (a 6 4)) 9 5 = (map (file_event SNewIrr) [a 7 6; a 8 7; a 9 8], RsOk) /\
  through_cursor_run nv_merged [f4; f6] 7 (cur SNew f6) 9 5 = (map (file_event SNewIrr) [a 7 6; a 8 7; a 9 8], RsOk).
Proof. split; [cbn; lia|]. split; [cbn; lia|]. split; vm_compute; reflexivity. Qed.

(* pass-through from block 1 *)
Example c06_nonvacuous_through :
  chain_ok nv_merged /\
  In (a 6 4) (file_delivery nv_merged 1 9 5) /\ rn (cu_lib (cur SNew (a 6 4))) < rn (cu_blk (cur SNew (a 6 4))) /\
  (* forked target cursor *)
  ~ In (ri (cu_blk (cur SNew f6))) (ids (file_delivery nv_merged 1 9 5)) /\
  (exists b, In b (file_delivery nv_merged 1 9 5) /\ rn (cu_lib (cur SNew f6)) < bnum b /\ rn (cu_blk (cur SNew f6)) <= bnum b) /\
  through_cursor_run nv_merged [f4; f6] 1 (cur SNew f6) 9 5 = (map (file_event SNewIrr) [a 1 0; a 2 1], RsNotImplemented) /\
  (* final target cursor on block 2 *)
  In nv_L (file_delivery nv_merged 1 9 5) /\ bref nv_L = cu_blk (cur SIrr nv_L) /\
  rn (cu_blk (cur SIrr nv_L)) <= rn (cu_lib (cur SIrr nv_L)) /\
  through_cursor_run nv_merged [] 1 (cur SIrr nv_L) 9 5 =
    (map (file_event SNewIrr) [a 1 0; a 2 1; a 3 2; a 4 3; a 6 4; a 7 6; a 8 7; a 9 8], RsOk) /\
  (* the same input on the resolver before the fix *)
  resolver_run_unfixed (cur SIrr nv_L) rs_init (file_delivery nv_merged 1 9 5) =
    (map (file_event SNewIrr) [a 1 0; a 2 1], RsNotImplemented).
Proof.
  split; [chain_tac|]. split; [vm_compute; tauto|]. split; [cbn; lia|].
  split; [vm_compute; lia|].
  split; [exists (a 6 4); split; [vm_compute; tauto|cbn; lia]|].
  split; [vm_compute; reflexivity|].
  split; [vm_compute; tauto|]. split; [reflexivity|]. split; [cbn; lia|].
  split; vm_compute; reflexivity.
Qed.

(* held_split: a branch with both kinds of blocks *)
Example c06_nonvacuous_held_split :
  chain_ok (nv_L :: nv_rest) /\ branch_from nv_L [a 3 2; f4; f6] /\
  Forall (fun b => on_canon (nv_L :: nv_rest) b \/ off_canon (nv_L :: nv_rest) b) [a 3 2; f4; f6].
Proof.
  split; [chain_tac|]. split; [cbn; repeat split; lia|].
  constructor; [left; cbn; tauto|].
  constructor; [right; unfold off_canon; cbn; lia|].
  constructor; [right; unfold off_canon; cbn; lia|constructor].
Qed.
