(* C04 property theorems for DISCOVERY mode (no configured LIB, hold-until-LIB: the configuration of the
   ForkableHub).  Statements: Spec/C04_Disc_Spec.v; proofs: Proofs/Fk/DiscEvents.v, Proofs/C04_DiscProofs.v. *)
From BV Require Import Base.Prelude Model.Block Model.ForkDB Model.Forkable Spec.Consumer Spec.Universe
  Spec.C01_Spec Spec.C01_Moving_Spec Spec.C01_Roots_Spec Spec.C04_Spec Spec.C04_Moving_Spec Spec.C04_Disc_Spec
  Check.Fk_Check Check.Fk_Props_Check Proofs.C04_DiscProofs.
Local Open Scope N_scope.

(* partial: discovery mode with hold-until-LIB and includeInitialLIB off, histories of the class disc_scope2_b
   (wf_b, lib_ok_b LNone; roots allowed), ANY handler oracle.  c04_full (Spec/C04_Spec.v) is the full statement;
   together with c04_moving_lib_roots_partial (Properties/C04_Moving.v) what is missing is: a configured LIB that is
   incoherent with the history, histories outside lib_ok_b, LNone with includeInitialLIB. *)
Theorem c04_discovery_partial : c04_discovery_statement.
Proof. exact c04_discovery_proved. Qed.
Print Assumptions c04_discovery_partial.

(* the same on the observations of the check: c04_full restricted to the discovery-mode cases c04_disc_thm_scope *)
Theorem c04_discovery_observed_partial : c04_discovery_observed.
Proof. exact c04_discovery_observed_proved. Qed.
Print Assumptions c04_discovery_observed_partial.

(* the monitor follows from the shape alone, whatever produced the trace *)
Theorem c04_discovery_shape_accepted : forall firr h t, c04d_run firr [] h t -> c04_b firr LNone h t = true.
Proof. intros firr h t H. exact (c04d_run_accept firr h t H). Qed.
Print Assumptions c04_discovery_shape_accepted.

(* non-vacuity.  Blocks 2 and 3 (3 declares LIB number 10, no stored ancestor has it) are held; block 4 declares LIB 11 =
   the height of its stored ancestor 2: the call establishes the LIB 2, delivers New 3, New 4 (cursor LIB 2) and
   Irreversible 2.  Then: fork block 5 on 3 (same height as the head: stored only), block 6 on 5 declaring LIB 12: undo 4
   (junction 3), New 5, New 6, block 3 becomes final, the LIB moves; a block fed twice; a root (empty parent id).  With a handler failing at call 1 the trace is cut inside the
   establishing call and is still accepted. *)
Definition c04d_ex_hist : list block :=
  [ mkBlock 2 11 1 10; mkBlock 3 12 2 10; mkBlock 4 13 3 11; mkBlock 5 13 3 11; mkBlock 6 14 5 12;
    mkBlock 3 12 2 10; mkBlock 30 12 0 10 ].
Definition c04d_ex_cfg (fail : option N) : config :=
  mkCfg 0 false true 1 false (mkFilter true true true true) fail.
Definition c04d_ex_view (e : event) := (estep e, bid (eblk e), ri (elib e), ejunc e, eidx e, ecount e).

Example c04_discovery_nonvacuous :
  disc_scope2_b c04d_ex_hist = true /\
  map (fun x => map c04d_ex_view (fst x)) (fk_run (c04d_ex_cfg None) (fs_init LNone) c04d_ex_hist) =
    [ []; [];
      [(SNew, 3, 2, None, 0, 0); (SNew, 4, 2, None, 0, 0); (SIrr, 2, 2, None, 0, 1)];
      [];
      [(SUndo, 4, 2, Some (mkR 3 12), 0, 1); (SNew, 5, 2, None, 0, 0); (SNew, 6, 2, None, 0, 0); (SIrr, 3, 3, None, 0, 1)];
      []; [] ] /\
  map (fun x => (map c04d_ex_view (fst x), snd x)) (fk_run (c04d_ex_cfg (Some 1)) (fs_init LNone) c04d_ex_hist) =
    [ ([], ROk); ([], ROk); ([(SNew, 3, 2, None, 0, 0); (SNew, 4, 2, None, 0, 0)], RHandlerErr) ] /\
  c04_b true LNone c04d_ex_hist (fk_run (c04d_ex_cfg (Some 1)) (fs_init LNone) c04d_ex_hist) = true.
Proof. vm_compute. repeat split. Qed.

(* the block that is its own LIB (here also: the first streamable block): New + Irreversible of the block itself *)
Example c04_discovery_own_nonvacuous :
  let h := [mkBlock 7 20 6 19; mkBlock 8 21 7 21; mkBlock 9 22 8 21] in
  disc_scope2_b h = true /\
  map (fun x => map c04d_ex_view (fst x)) (fk_run (c04d_ex_cfg None) (fs_init LNone) h) =
    [ []; [(SNew, 8, 8, None, 0, 0); (SIrr, 8, 8, None, 0, 1)]; [(SNew, 9, 8, None, 0, 0)] ].
Proof. vm_compute. repeat split. Qed.
