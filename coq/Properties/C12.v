(* C12 property theorems only.  Proofs live in Proofs/. *)
From BV Require Import Base.Prelude Model.Lifecycle Spec.C12_Spec Proofs.C12_Proofs.

(* Run returns and Terminated is reached after Shutdown, at any instant, under every schedule: eternal (with
   fix), joining (with fix), hub subscription, multiplexed and file source *)
Theorem c12_returns : C12_returns.
Proof. exact c12_returns_proof. Qed.
Print Assumptions c12_returns.

Theorem c12_file_blocking_points : C12_file_blocking_points.
Proof. exact c12_file_blocking_points_proof. Qed.
Print Assumptions c12_file_blocking_points.

Theorem c12_no_call_after : C12_no_call_after.
Proof. exact c12_no_call_after_proof. Qed.
Print Assumptions c12_no_call_after.

Theorem c12_mutex : C12_mutex.
Proof. exact c12_mutex_proof. Qed.
Print Assumptions c12_mutex.

Theorem c12_fail_stops_all : C12_fail_stops_all.
Proof. exact c12_fail_stops_all_proof. Qed.
Print Assumptions c12_fail_stops_all.

Theorem c12_restart_point : C12_restart_point.
Proof. exact c12_restart_point_proof. Qed.
Print Assumptions c12_restart_point.

(* the code before the fix: patches (kept as documentation of what the fixes repair) *)
Theorem c12_eternal_unfixed_refuted : C12_eternal_unfixed_hangs.
Proof. exact c12_eternal_unfixed_hangs_proof. Qed.
Print Assumptions c12_eternal_unfixed_refuted.

Theorem c12_joining_unfixed_refuted : C12_joining_unfixed_hangs.
Proof. exact c12_joining_unfixed_hangs_proof. Qed.
Print Assumptions c12_joining_unfixed_refuted.

(* the handler wrapper of the multiplexed source before repo_patches/C12_fix_mux_no_call_after_shutdown.diff: a handler call
   begins after Run returned and Terminated was reached (after an external Shutdown; after a handler failure) *)
Theorem c12_mux_unfixed_refuted : C12_mux_unfixed_late_call.
Proof. exact c12_mux_unfixed_late_call_proof. Qed.
Print Assumptions c12_mux_unfixed_refuted.

(* ---- non-vacuity *)
(* eternal: Shutdown arrives during the 2nd handler call of a restarted inner source; the state meets the
   hypotheses of the liveness clause (reachable, terminating, not done), a fair schedule exists, and it ends done *)
Example c12_nonvacuous_returns :
  let sup := [[IBlock 1 true; IBlock 2 false]; [IBlock 3 true; IBlock 4 true]] in
  let s := run (Et.step true) (repeat Et.TRun 16 ++ [Et.TX; Et.TX]) (Et.init sup) in
  Et.terminating s = true /\ Et.done s = false /\ Et.hbegun s = 4 /\
  Et.done (run (Et.step true) (concat (repeat [Et.TRun; Et.TX] 12)) s) = true.
Proof. vm_compute. auto. Qed.
Example c12_nonvacuous_fair : forall n s, fair_rounds (Et.step true) n s (concat (repeat [Et.TRun; Et.TX] n)).
Proof. exact et_fair_all. Qed.

(* multiplexed: two inner sources want the handler at the same time; one waits for handlerLock *)
Example c12_nonvacuous_mutex :
  let s := run (Mx.step true) ([Mx.TRun; Mx.TRun; Mx.TRun; Mx.TRun; Mx.TRun; Mx.TRun; Mx.TRun] ++
                        [Mx.TIn 0; Mx.TIn 1; Mx.TIn 0; Mx.TIn 1; Mx.TIn 0; Mx.TIn 1])
               (Mx.init 2 [[IBlock 1 true]; [IBlock 2 true]]) in
  Mx.hactive s = 1 /\ Mx.hholder s = Some 0 /\
  (exists i, nth_error (Mx.inners s) 1 = Some i /\ Mx.i_pc i = Mx.IWant 2 true) /\
  Mx.step true s (Mx.TIn 1) = s.
Proof. vm_compute. repeat split; eauto. Qed.

(* multiplexed: a handler error shuts every started inner source down *)
Example c12_nonvacuous_fail_stops_all :
  let s := run (Mx.step true) (repeat Mx.TRun 7 ++ repeat (Mx.TIn 0) 9)
               (Mx.init 2 [[IBlock 1 false]; [IBlock 2 true]]) in
  Mx.failed s = true /\ Mx.terminated s = true /\
  map Mx.started (Mx.inners s) = [true; true] /\ map Mx.i_term (Mx.inners s) = [true; true].
Proof. vm_compute. auto. Qed.

(* multiplexed, no call after: source 0 inside the handler, source 1 waiting for handlerLock, complete Shutdown, Run
   returns: the state meets the hypothesis of both multiplexed clauses of c12_no_call_after while an inner source still
   wants the handler; the waiting source then gives up (no EHBegin), and both inner sources return *)
Example c12_nonvacuous_no_call_after_mux :
  let s := run (Mx.step true) (repeat Mx.TRun 8 ++ [Mx.TIn 0; Mx.TIn 0; Mx.TIn 0; Mx.TIn 1] ++ repeat Mx.TX 4 ++ [Mx.TRun; Mx.TRun])
               (Mx.init 2 [[IBlock 1 true]; [IBlock 2 true]]) in
  Mx.returned s = true /\ Mx.terminated s = true /\ Mx.terminating s = true /\
  map Mx.i_pc (Mx.inners s) = [Mx.IInH 1 true; Mx.IWant 2 true] /\
  let s' := run (Mx.step true) [Mx.TIn 0; Mx.TIn 1; Mx.TIn 1; Mx.TIn 1; Mx.TIn 1; Mx.TIn 0; Mx.TIn 0] s in
  Mx.hbegun s' = Mx.hbegun s /\ map Mx.i_pc (Mx.inners s') = [Mx.IRet; Mx.IRet] /\
  Mx.log s' = EPoint 25 :: EPoint 26 :: EHEnd 0 1 true :: Mx.log s.
Proof. vm_compute. repeat split; reflexivity. Qed.

(* eternal: the restart after a handler error is made from block 1, the last accepted one *)
Example c12_nonvacuous_restart :
  let s := run (Et.step true) (repeat Et.TRun 12) (Et.init [[IBlock 1 true; IBlock 2 false]]) in
  rev (Et.log s) = [EPoint 0; EFactory 0 0; EPoint 1; EPoint 2; EHBegin 0 1; EHEnd 0 1 true; EHBegin 0 2;
                    EHEnd 0 2 false; EDown 0; EPoint 3; EPoint 4; EPoint 0; EFactory 0 1; EPoint 1].
Proof. vm_compute. reflexivity. Qed.
