(* C12 property theorems only.  Proofs live in Proofs/. *)
From BV Require Import Base.Prelude Model.Lifecycle Spec.C12_Spec Proofs.C12_Proofs.

(* Run returns and Terminated is reached after Shutdown, at any instant, under every schedule: eternal (with
   fix), joining (with fix), hub subscription, multiplexed and file source *)
Theorem c12_returns : C12_returns.
Proof. exact c12_returns_proof. Qed.
Print Assumptions c12_returns.

Theorem c12_file_blocking_points : C12_file_blocking_points.
Proof. exact c12_file_blocking_points_proof. Qed.
Print Assumptions c12_file_blocking_points.

Theorem c12_no_call_after : C12_no_call_after.
Proof. exact c12_no_call_after_proof. Qed.
Print Assumptions c12_no_call_after.

Theorem c12_mutex : C12_mutex.
Proof. exact c12_mutex_proof. Qed.
Print Assumptions c12_mutex.

Theorem c12_fail_stops_all : C12_fail_stops_all.
Proof. exact c12_fail_stops_all_proof. Qed.
Print Assumptions c12_fail_stops_all.

Theorem c12_restart_point : C12_restart_point.
Proof. exact c12_restart_point_proof. Qed.
Print Assumptions c12_restart_point.

(* the code before the two fix: patches (kept as documentation of what the fixes repair) *)
Theorem c12_eternal_unfixed_refuted : C12_eternal_unfixed_hangs.
Proof. exact c12_eternal_unfixed_hangs_proof. Qed.
Print Assumptions c12_eternal_unfixed_refuted.

Theorem c12_joining_unfixed_refuted : C12_joining_unfixed_hangs.
Proof. exact c12_joining_unfixed_hangs_proof. Qed.
Print Assumptions c12_joining_unfixed_refuted.

(* ---- non-vacuity *)
(* eternal: Shutdown arrives during the 2nd handler call of a restarted inner source; the state meets the
   hypotheses of the liveness clause (reachable, terminating, not done), a fair schedule exists, and it ends done *)
Example c12_nonvacuous_returns :
  let sup := [[IBlock 1 true; IBlock 2 false]; [IBlock 3 true; IBlock 4 true]] in
  let s := run (Et.step true) (repeat Et.TRun 16 ++ [Et.TX; Et.TX]) (Et.init sup) in
  Et.terminating s = true /\ Et.done s = false /\ Et.hbegun s = 4 /\
  Et.done (run (Et.step true) (concat (repeat [Et.TRun; Et.TX] 12)) s) = true.
Proof. vm_compute. auto. Qed.
Example c12_nonvacuous_fair : forall n s, fair_rounds (Et.step true) n s (concat (repeat [Et.TRun; Et.TX] n)).
Proof. exact et_fair_all. Qed.

(* multiplexed: two inner sources want the handler at the same time; one waits for handlerLock *)
Example c12_nonvacuous_mutex :
  let s := run Mx.step ([Mx.TRun; Mx.TRun; Mx.TRun; Mx.TRun; Mx.TRun; Mx.TRun; Mx.TRun] ++
                        [Mx.TIn 0; Mx.TIn 1; Mx.TIn 0; Mx.TIn 1; Mx.TIn 0; Mx.TIn 1])
               (Mx.init 2 [[IBlock 1 true]; [IBlock 2 true]]) in
  Mx.hactive s = 1 /\ Mx.hholder s = Some 0 /\
  (exists i, nth_error (Mx.inners s) 1 = Some i /\ Mx.i_pc i = Mx.IWant 2 true) /\
  Mx.step s (Mx.TIn 1) = s.
Proof. vm_compute. repeat split; eauto. Qed.

(* multiplexed: a handler error shuts every started inner source down *)
Example c12_nonvacuous_fail_stops_all :
  let s := run Mx.step (repeat Mx.TRun 7 ++ repeat (Mx.TIn 0) 9)
               (Mx.init 2 [[IBlock 1 false]; [IBlock 2 true]]) in
  Mx.failed s = true /\ Mx.terminated s = true /\
  map Mx.started (Mx.inners s) = [true; true] /\ map Mx.i_term (Mx.inners s) = [true; true].
Proof. vm_compute. auto. Qed.

(* eternal: the restart after a handler error is made from block 1, the last accepted one *)
Example c12_nonvacuous_restart :
  let s := run (Et.step true) (repeat Et.TRun 12) (Et.init [[IBlock 1 true; IBlock 2 false]]) in
  rev (Et.log s) = [EPoint 0; EFactory 0 0; EPoint 1; EPoint 2; EHBegin 0 1; EHEnd 0 1 true; EHBegin 0 2;
                    EHEnd 0 2 false; EDown 0; EPoint 3; EPoint 4; EPoint 0; EFactory 0 1; EPoint 1].
Proof. vm_compute. reflexivity. Qed.
