(* C03: meaning of the fork-choice follower (property theorems only; proofs in Proofs/Mon/C03_Monitor_Proofs.v) *)
From BV Require Import Base.Prelude Model.Block Model.ForkDB Model.Forkable Spec.Consumer Spec.ForkChoice
  Check.Fk_Check Check.Fk_Props_Check Spec.C03_Monitor_Spec Proofs.Mon.C03_Monitor_Proofs.
Local Open Scope N_scope.

Theorem c03_monitor_sound : C03_monitor_sound.
Proof. exact c03_monitor_sound_proof. Qed.
Print Assumptions c03_monitor_sound.

(* non-vacuity: the model's own run (events + head after every block) on a history with a fork switch
   and LIB moves is accepted by the follower; the reference ends on the highest branch *)
Definition ex3_r0 : ref := mkR 1 10.
Definition ex3_hist : list block :=
  [ mkBlock 2 11 1 10; mkBlock 3 12 2 10; mkBlock 4 12 2 10; mkBlock 5 13 4 11; mkBlock 3 12 2 10; mkBlock 6 14 5 12 ].
Definition ex3_cfg : config := mkCfg 0 false false 2 false (mkFilter true true true true) None.
Definition ex3_obs : list obs :=
  let t := fk_run ex3_cfg (fs_init (LExcl ex3_r0)) ex3_hist in
  let sts := fk_states ex3_cfg (fs_init (LExcl ex3_r0)) ex3_hist in
  map (fun p => mkObs (fst (fst p)) (snd (fst p))
                      (match last_sent (snd p) with Some b => Some (bref b, 0) | None => None end) 0 None)
      (List.combine t sts).
Example c03_monitor_nonvacuous :
  c03_follow ex3_cfg (ri ex3_r0) (fc_init (LExcl ex3_r0)) [] 0 ex3_hist ex3_obs = true /\
  length ex3_obs = 6%nat /\
  oblock_id (fc_tip (fc_run ex3_cfg (fc_init (LExcl ex3_r0)) ex3_hist)) = 6 /\
  oblock_id (fc_final (fc_run ex3_cfg (fc_init (LExcl ex3_r0)) ex3_hist)) = 4.
Proof. vm_compute. auto. Qed.
