(* C01 in the fixed-LIB class for histories that may contain ROOTS (blocks whose parent id is empty):
   property theorems only.  Statements in Spec/Roots_Fixed_Spec.v; proofs in Proofs/Fk/FixedLib*.v (whose
   id hypothesis no longer asks for non-empty parent ids) and Proofs/Roots_Fixed_Proofs.v. *)
From BV Require Import Base.Prelude Model.Block Model.ForkDB Model.Forkable Spec.Consumer Spec.Universe
  Spec.C01_Spec Spec.C01_More_Spec Spec.Roots_Fixed_Spec Proofs.Roots_Fixed_Proofs.
Local Open Scope N_scope.

(* partial: c01_fixed_lib_incl_partial (exclusive or inclusive starting LIB that the history never moves,
   any includeInitialLIB flag, every handler oracle) WITHOUT the hypothesis "no empty parent id"; it contains
   c01_fixed_lib_partial and c01_fixed_lib_failures_partial for the larger class *)
Theorem c01_fixed_lib_roots_partial : c01_fixed_lib_roots_statement.
Proof. exact c01_fixed_lib_roots_proved. Qed.
Print Assumptions c01_fixed_lib_roots_partial.

(* partial: c01_fixed_lib_disc_partial (hold-until-LIB discovery, every block at or above n0 declares n0)
   WITHOUT the hypothesis "no empty parent id" *)
Theorem c01_fixed_lib_disc_roots_partial : c01_fixed_lib_disc_roots_statement.
Proof. exact c01_fixed_lib_disc_roots_proved. Qed.
Print Assumptions c01_fixed_lib_disc_roots_partial.

Theorem c01_roots_fixed_scopes_subsume : roots_fixed_scopes_subsume.
Proof. exact roots_fixed_scopes_subsume_proved. Qed.
Print Assumptions c01_roots_fixed_scopes_subsume.

(* non-vacuity: a root above the LIB (50, fed three times) with a child (51, fed twice) and a grand-child
   (52), the LIB block itself a ROOT (1, fed twice), a root under the LIB (60), two fork switches.  In
   exclusive mode no root is ever delivered; in inclusive mode the LIB root is delivered once (New +
   Irreversible) and its repetition delivers nothing; a handler failing at call 4 cuts the first switch *)
Definition rf_r0 : ref := mkR 1 10.
Definition rf_hist : list block :=
  [ mkBlock 50 12 0 10; mkBlock 1 10 0 10; mkBlock 2 11 1 10; mkBlock 3 12 2 10; mkBlock 50 12 0 10; mkBlock 51 13 50 10;
    mkBlock 4 12 2 10; mkBlock 5 13 4 10; mkBlock 1 10 0 10; mkBlock 60 5 0 10; mkBlock 6 11 1 10; mkBlock 7 12 6 10;
    mkBlock 50 12 0 10; mkBlock 8 13 7 10; mkBlock 9 14 8 10; mkBlock 3 12 2 10; mkBlock 51 13 50 10; mkBlock 52 15 51 10 ].
Definition rf_cfg (incl alltrig : bool) (k : option N) : config := mkCfg 0 incl false 2 alltrig (mkFilter true true true true) k.
Definition rf_show (t : trace) := map (fun x => (map (fun e => (estep e, bid (eblk e))) (fst x), snd x)) t.

Example c01_fixed_roots_nonvacuous :
  start_mode (LExcl rf_r0) rf_r0 /\ start_mode (LIncl rf_r0) rf_r0 /\
  c01_fixed_scope2_b rf_r0 rf_hist = true /\ c01_fixed_scope_b rf_r0 rf_hist = false /\
  rf_show (fk_run (rf_cfg false false None) (fs_init (LExcl rf_r0)) rf_hist) =
    [ ([], ROk); ([], ROk); ([(SNew, 2)], ROk); ([(SNew, 3)], ROk); ([], ROk); ([], ROk); ([], ROk);
      ([(SUndo, 3); (SNew, 4); (SNew, 5)], ROk); ([], ROk); ([], ROk); ([], ROk); ([], ROk); ([], ROk); ([], ROk);
      ([(SUndo, 5); (SUndo, 4); (SUndo, 2); (SNew, 6); (SNew, 7); (SNew, 8); (SNew, 9)], ROk); ([], ROk); ([], ROk); ([], ROk) ] /\
  rf_show (firstn 9 (fk_run (rf_cfg true false None) (fs_init (LIncl rf_r0)) rf_hist)) =
    [ ([], ROk); ([(SNew, 1); (SIrr, 1)], ROk); ([(SNew, 2)], ROk); ([(SNew, 3)], ROk); ([], ROk); ([], ROk); ([], ROk);
      ([(SUndo, 3); (SNew, 4); (SNew, 5)], ROk); ([], ROk) ] /\
  rf_show (skipn 7 (fk_run (rf_cfg true false (Some 4)) (fs_init (LIncl rf_r0)) rf_hist)) = [ ([(SUndo, 3)], RHandlerErr) ].
Proof. vm_compute. repeat split; auto. Qed.

(* non-vacuity, discovery: a root (50) is held and fed again before any LIB is known; the block of height
   n0 = 10 that becomes the LIB (1) is a root; a second ROOT of height 10 (30) and its child are never
   delivered; both roots are fed again after the discovery *)
Definition rfd_hist : list block :=
  [ mkBlock 50 12 0 10; mkBlock 3 12 2 10; mkBlock 2 11 1 10; mkBlock 50 12 0 10; mkBlock 1 10 0 10; mkBlock 30 10 0 10;
    mkBlock 4 12 2 10; mkBlock 5 14 4 10; mkBlock 2 11 1 10; mkBlock 1 10 0 10; mkBlock 50 12 0 10; mkBlock 30 10 0 10;
    mkBlock 6 13 3 10; mkBlock 11 15 6 10; mkBlock 32 11 30 10 ].
Definition rfd_cfg (k : option N) : config := mkCfg 0 false true 2 false (mkFilter true true true true) k.

Example c01_fixed_disc_roots_nonvacuous :
  c01_disc_scope2_b 10 (c_first (rfd_cfg None)) rfd_hist = true /\ c01_disc_scope_b 10 (c_first (rfd_cfg None)) rfd_hist = false /\
  rf_show (fk_run (rfd_cfg None) (fs_init LNone) rfd_hist) =
    [ ([], ROk); ([], ROk); ([], ROk); ([], ROk); ([(SNew, 1); (SIrr, 1)], ROk); ([], ROk);
      ([(SNew, 2); (SNew, 4)], ROk); ([(SNew, 5)], ROk); ([], ROk); ([], ROk); ([], ROk); ([], ROk); ([], ROk);
      ([(SUndo, 5); (SUndo, 4); (SNew, 3); (SNew, 6); (SNew, 11)], ROk); ([], ROk) ].
Proof. vm_compute. repeat split; auto. Qed.
