(* C04 on hub bursts and on the file source resuming from a cursor: property theorems only.
   Statements: Spec/C04_Burst_Spec.v; proofs: Proofs/C04_Burst.v, Proofs/C04_File.v, Proofs/C04_BurstHistory.v. *)
From Coq Require Import Sorted.
From BV Require Import Base.Prelude Model.Block Model.ForkDB Model.Forkable Model.ForkableLookups Model.Burst
  Model.CursorResolver Model.Hub Spec.Consumer Spec.Universe Check.Fk_Check Check.Burst_Check Check.C06_Check Check.C04_More
  Spec.C09_Spec Spec.C05_Spec Spec.C05_Through_Spec Spec.C04_Burst_Spec
  Proofs.C09_Store Proofs.C04_File Proofs.C04_Burst Proofs.C04_BurstHistory
  Properties.C09 Properties.C05 Properties.C05_Through Properties.C05_History Properties.C06.
Local Open Scope N_scope.

(* hub bursts: soundness of the checker cursors_ok; SourceFromBlockNum, SourceFromCursor (with the junction for the
   consumer of c05_resume_partial), SourceThroughCursor *)
Theorem c04_burst_cursors : C04_burst_cursors.
Proof. exact c04_burst_cursors_proof. Qed.
Print Assumptions c04_burst_cursors.

(* the cursor clauses written out for the three bursts *)
Theorem c04_burst_discipline : C04_burst_discipline.
Proof. exact c04_burst_discipline_proof. Qed.
Print Assumptions c04_burst_discipline.

(* the file source resuming from / through a cursor *)
Theorem c04_file_cursors : C04_file_cursors.
Proof. exact c04_file_cursors_proof. Qed.
Print Assumptions c04_file_cursors.

(* cursors minted by the same history meet the hypotheses, and their bursts are accepted *)
Theorem c04_burst_history : C04_burst_history.
Proof. exact c04_burst_history_proof. Qed.
Print Assumptions c04_burst_history.

(* ================================================================== non-vacuity *)

(* the hub states of Properties/C05.v and C05_Through.v: store 11<-12<-13<-14<-15 with the fork 23 (parent 12);
   ex_s: head 15, hub LIB 13; ex_s1: head 14, hub LIB 12.  Their LIB block is on the head's segment. *)
Example c04b_nonvacuous_states :
  wf_state ex_s /\ head_chain ex_s ex_b5 ex_sg /\ lib_anchored ex_s ex_sg /\
  wf_state ex_s1 /\ head_chain ex_s1 ex_b4 ex_sg1 /\ lib_anchored ex_s1 ex_sg1.
Proof.
  destruct c05t_nonvacuous_states as (H1 & H2 & _ & _ & H3 & H4 & _).
  split; [exact H1|]. split; [exact H2|]. split; [exists (mkSeg 13 3 (mkEntry ex_b3 true)); vm_compute; auto|].
  split; [exact H3|]. split; [exact H4|]. exists (mkSeg 12 2 (mkEntry ex_b2 true)); vm_compute; auto.
Qed.

Definition showc (b : burst) : option (list (step * N * ref * ref * option ref)) :=
  match b with BOk evs => Some (map (fun e => (estep e, bid (eblk e), ehead e, elib e, ejunc e)) evs) | _ => None end.

(* SourceFromBlockNum 2 in ex_s *)
Example c04b_nonvacuous_from_num :
  showc (blocks_from_num ex_s 2) =
    Some [(SNewIrr, 12, mkR 15 5, mkR 12 2, None); (SNewIrr, 13, mkR 15 5, mkR 13 3, None);
          (SNew, 14, mkR 15 5, mkR 13 3, None); (SNew, 15, mkR 15 5, mkR 13 3, None)].
Proof. vm_compute. reflexivity. Qed.

Lemma ex_lib_numbered : forall st b h, lib_numbered (db ex_s) (mkCursor st b h (mkR 12 2)).
Proof. intros st b h e H. vm_compute in H. injection H as <-. reflexivity. Qed.
Lemma ex_lib_numbered1 : forall st b h, lib_numbered (db ex_s1) (mkCursor st b h (mkR 12 2)).
Proof. intros st b h e H. vm_compute in H. injection H as <-. reflexivity. Qed.

(* SourceFromCursor in ex_s for the New cursor on the fork block 23 (cursor LIB 12): undo 23 naming the junction 12,
   then the chain above 12 by the hub LIB 13 *)
Example c04b_nonvacuous_from_cursor :
  lib_numbered (db ex_s) ex_c_fork /\ rn (cu_lib ex_c_fork) <= rn (libref (db ex_s)) /\
  showc (blocks_from_cursor ex_s ex_c_fork) =
    Some [(SUndo, 23, mkR 15 5, mkR 12 2, Some (mkR 12 2)); (SNewIrr, 13, mkR 15 5, mkR 13 3, None);
          (SNew, 14, mkR 15 5, mkR 13 3, None); (SNew, 15, mkR 15 5, mkR 13 3, None)] /\
  (* c04_burst_junction_consumer: the consumer holds 12 | 23 *)
  block_in (ri (cu_blk ex_c_fork)) ex_sg = false /\
  branch_to (db ex_s) ex_sg 23 [mkSeg 23 3 (mkEntry ex_b3' false)] 12 /\
  find 12 (store (db ex_s)) = Some (mkEntry ex_b2 true) /\
  held_seg (junction_cursor ex_b5 ex_c_fork (mkR 12 2)) ex_sg = [] /\
  (* fast path: the New cursor on 13 *)
  lib_numbered (db ex_s) ex_c_new /\
  showc (blocks_from_cursor ex_s ex_c_new) =
    Some [(SIrr, 13, mkR 15 5, mkR 13 3, None); (SNew, 14, mkR 15 5, mkR 13 3, None); (SNew, 15, mkR 15 5, mkR 13 3, None)].
Proof.
  split; [apply ex_lib_numbered|]. split; [vm_compute; discriminate|]. split; [vm_compute; reflexivity|].
  split; [vm_compute; reflexivity|].
  split; [apply (bt_last (db ex_s) ex_sg 23 (mkEntry ex_b3' false)); vm_compute; reflexivity|].
  split; [vm_compute; reflexivity|]. split; [vm_compute; reflexivity|].
  split; [apply ex_lib_numbered|]. vm_compute. reflexivity.
Qed.

(* SourceThroughCursor from start 2 in ex_s1 for the same cursor: own branch 12, 23 by the cursor LIB 12, undo 23, chain *)
Example c04b_nonvacuous_through :
  block_in (ri (cu_blk ex_cf)) ex_sg1 = false /\ 2 <= rn (cu_blk ex_cf) /\
  through_cursor_hyps ex_s1 ex_sg1 ex_cf /\
  showc (hub_through_cursor ex_s1 2 ex_cf) =
    Some [(SNewIrr, 12, mkR 14 4, mkR 12 2, None); (SNew, 23, mkR 14 4, mkR 12 2, None);
          (SUndo, 23, mkR 14 4, mkR 12 2, Some (mkR 12 2));
          (SNew, 13, mkR 14 4, mkR 12 2, None); (SNew, 14, mkR 14 4, mkR 12 2, None)].
Proof.
  split; [vm_compute; reflexivity|]. split; [vm_compute; discriminate|].
  split; [|vm_compute; reflexivity].
  split; [apply ex_lib_numbered1|]. split; [vm_compute; discriminate|]. split; [apply ex_numbered|].
  intros path j je B Hf.
  inversion B as [id e Hfe Hin|id e l j' Hfe Hin B']; subst; vm_compute in Hfe; injection Hfe as <-.
  - vm_compute in Hf. injection Hf as <-. vm_compute. discriminate.
  - vm_compute in Hin. discriminate.
Qed.

(* the file source: the canonical chain and the fork 4b - 6b of Properties/C06.v; New cursor on 6b (cursor LIB 2):
   two undo events with the cursor's head and LIB, junction 3; then final blocks that are their own head and LIB *)
Example c04b_nonvacuous_file :
  num_sorted nv_merged /\
  map (fun e => (estep e, bid (eblk e), ehead e, elib e, ejunc e)) (fst (from_cursor_run nv_merged [f6; f4] (cur SNew f6) 9 5)) =
    [(SUndo, 62, mkR 62 6, mkR 21 2, Some (mkR 31 3)); (SUndo, 42, mkR 62 6, mkR 21 2, Some (mkR 31 3));
     (SIrr, 31, mkR 31 3, mkR 31 3, None); (SNewIrr, 41, mkR 41 4, mkR 41 4, None); (SNewIrr, 61, mkR 61 6, mkR 61 6, None);
     (SNewIrr, 71, mkR 71 7, mkR 71 7, None); (SNewIrr, 81, mkR 81 8, mkR 81 8, None); (SNewIrr, 91, mkR 91 9, mkR 91 9, None)] /\
  map (fun e => (estep e, bid (eblk e))) (fst (through_cursor_run nv_merged [] 1 (cur SNew (a 6 4)) 9 5)) =
    [(SNewIrr, 11); (SNewIrr, 21); (SNewIrr, 31); (SNewIrr, 41); (SNewIrr, 61); (SNewIrr, 71); (SNewIrr, 81); (SNewIrr, 91)].
Proof.
  split; [|split; vm_compute; reflexivity].
  unfold num_sorted, nv_merged. repeat (constructor; [|repeat (constructor; [cbn; lia|]); constructor]). constructor.
Qed.

(* over histories: the history of Properties/C05_History.v (11 <- 12 <- {23, 13 <- 14 <- 15}, two final blocks kept, first
   streamable block 1); event 3 = New 23 (cursor LIB 11), reconnecting after the whole history (m = 6): every hypothesis of
   c04_burst_history holds, and its conclusion computed *)
Example c04b_nonvacuous_history :
  wf_b hx_h = true /\ lib_ok_b LNone hx_h = true /\
  match nth_error (hx_upto 1 (length (hx_tr 1))) 3, cons_fold cons0 (firstn 4 (hx_upto 1 (length (hx_tr 1)))),
        complete_segment (db (hx_s 1 6)) (bref hx_b5) with
  | Some ek, Some ck, Some (sg, true) =>
      estep ek = SNew /\ Nat.ltb 3 (length (hx_upto 1 6)) = true /\ last_sent (hx_s 1 6) = Some hx_b5 /\
      block_in (ri (elib ek)) sg = true /\ map bid (cs_stack ck) = [23; 12; 11] /\
      match blocks_from_cursor (hx_s 1 6) (ev_cursor ek) with
      | BOk evs =>
          map (fun e => (estep e, bid (eblk e), elib e, ejunc e)) evs =
            [(SUndo, 23, mkR 11 1, Some (mkR 12 2)); (SIrr, 12, mkR 12 2, None); (SNewIrr, 13, mkR 13 3, None);
             (SNew, 14, mkR 13 3, None); (SNew, 15, mkR 13 3, None)] /\
          cursors_ok (Some (bref hx_b5)) (Some (elib ek)) 0 evs = true /\
          junc_walk (S (length evs)) (cs_stack ck) evs = true
      | _ => False
      end
  | _, _, _ => False
  end.
Proof. vm_compute. repeat split. Qed.
