(* C05 over histories, the through-cursor variant (hub.SourceThroughCursor): theorems about the EXISTING models
   Model/Forkable.v, Model/Burst.v, Model/Hub.v (hub_config).  Statements: Spec/C05_ThroughHistory_Spec.v. *)
From Coq Require Import Sorted.
From BV Require Import Base.Prelude Model.Block Model.ForkDB Model.Forkable Model.ForkableLookups Model.Burst Model.Hub
  Spec.Consumer Spec.Universe Check.Fk_Check Check.Burst_Check Spec.C09_Spec Spec.C05_Spec Spec.C05_Through_Spec
  Spec.C01_Spec Spec.C01_Moving_Spec Spec.C05_History_Spec Spec.C05_ThroughHistory_Spec
  Proofs.Hub.C05_ThroughHistory Properties.C05_History.
Local Open Scope N_scope.

(* the kind-1 clause of Check/Burst_Check.c05_answer_ok as a theorem about the model, for all histories *)
Theorem c05_through_history : C05_through_history.
Proof. exact c05_through_history_proof. Qed.
Print Assumptions c05_through_history.

(* ---- non-vacuity: the history of Properties/C05_History.v, 11 <- 12 <- {23, 13 <- 14 <- 15} fed in the order
   11, 12, 23, 13, 14, 15, two final blocks kept, first streamable block 1 (hx_tr 1):
   events 0 New 11 | 1 Irr 11 | 2 New 12 | 3 New 23 | 4 Undo 23 | 5 New 13 | 6 New 14 | 7 Irr 12 | 8 New 15 | 9 Irr 13 | 10 Stalled 23. *)

(* every hypothesis of c05_through_history for event k, instant m and start block `start` (junction number jn), and its
   conclusion computed: the burst, the stack and the final count of the consumer that held nothing *)
Definition hxt_check (first : N) (k m : nat) (start : N) (st : step) (blk jn : N) (burst : list (step * N)) (stack : list N) (nf : nat) : Prop :=
  match nth_error (hx_upto first (length (hx_tr first))) k with
  | Some ek =>
      estep ek = st /\ bid (eblk ek) = blk /\ Nat.ltb k (length (hx_upto first m)) = true /\
      match cons_fold cons0 (firstn (S k) (hx_upto first (length (hx_tr first)))), cons_fold cons0 (hx_upto first m),
            hub_through_cursor (hx_s first m) start (ev_cursor ek) with
      | Some ck, Some cm, BOk evs =>
          junction_num (cs_stack ck) (cs_stack cm) = jn /\ start <= jn /\
          map (fun e => (estep e, bid (eblk e))) evs = burst /\
          match cons_fold cons0 (tolerate start evs) with
          | Some c' => map bid (cs_stack c') = stack /\ cs_nf c' = nf
          | None => False
          end
      | _, _, _ => False
      end
  | None => False
  end.

(* the New cursor on the forked block 23 (LIB 11), after block 14 (hub LIB 12, head 14): the junction is 12;
   from start 1 and from start 2: own branch, undo, chain to the head *)
Example c05th_nonvacuous_forked :
  hxt_check 1 3 5 1 SNew 23 2 [(SNewIrr, 11); (SNew, 12); (SNew, 23); (SUndo, 23); (SIrr, 12); (SNew, 13); (SNew, 14)] [14; 13; 12; 11] 2 /\
  hxt_check 1 3 5 2 SNew 23 2 [(SNew, 12); (SNew, 23); (SUndo, 23); (SIrr, 12); (SNew, 13); (SNew, 14)] [14; 13; 12] 1.
Proof. vm_compute. repeat split; discriminate. Qed.

(* the Undo cursor of 23, and the canonical New cursor on 13 after the whole history (hub LIB 13): the snapshot from 2 *)
Example c05th_nonvacuous_undo_and_canonical :
  hxt_check 1 4 5 2 SUndo 23 2 [(SNew, 12); (SIrr, 12); (SNew, 13); (SNew, 14)] [14; 13; 12] 1 /\
  hxt_check 1 5 6 2 SNew 13 3 [(SNewIrr, 12); (SNewIrr, 13); (SNew, 14); (SNew, 15)] [15; 14; 13; 12] 2.
Proof. vm_compute. repeat split; discriminate. Qed.

(* first streamable block 0 (hx_tr 0: the discovered LIB 11 is announced but never delivered as New; events
   0 New 12 | 1 Irr 11 | 2 New 23 | 3 Undo 23 | 4 New 13 | ...): the canonical cursor on 13 from start 1 is served from the
   retained block 11, which the never-disconnected consumer does not hold (the list d of the theorem is [11]) *)
Example c05th_nonvacuous_retained_ancestor :
  hxt_check 0 4 6 1 SNew 13 3 [(SNewIrr, 11); (SNewIrr, 12); (SNewIrr, 13); (SNew, 14); (SNew, 15)] [15; 14; 13; 12; 11] 3 /\
  match cons_fold cons0 (hx_upto 0 6) with Some cm => map bid (cs_stack cm) = [15; 14; 13; 12] /\ cs_nf cm = 2%nat | None => False end.
Proof. vm_compute. repeat split; discriminate. Qed.

(* the serving side: when a through-cursor request for a stream cursor is served, and the ONLY situation in which a request
   with start on the retained chain at or below the junction and the cursor LIB on the chain is refused (known finding
   C05-through-forked-below-hub-lib) *)
Theorem c05_through_serves_history : C05_through_serves_history.
Proof. exact c05_through_serves_history_proof. Qed.
Print Assumptions c05_through_serves_history.

(* ---- non-vacuity of the serving side: the New cursor on the forked block 23 (event 3, cursor LIB 11, junction 12 = number 2),
   start 2.  After block 14 (m = 5) the hub LIB is 12 (number 2): not above the junction, served.  After block 15 (m = 6)
   the hub LIB is 13 (number 3): it has passed the junction and the request is refused, although start 2 is on the
   retained chain 11..15, the cursor LIB 11 is on it and the cursor block 23 is retained - the known finding. *)
Definition hxs_check (m : nat) (libnum : N) (chain : list N) (served : bool) : Prop :=
  match nth_error (hx_upto 1 (length (hx_tr 1))) 3, last_sent (hx_s 1 m) with
  | Some ek, Some hd =>
      match complete_segment (db (hx_s 1 m)) (bref hd),
            cons_fold cons0 (firstn 4 (hx_upto 1 (length (hx_tr 1)))), cons_fold cons0 (hx_upto 1 m) with
      | Some (sg, true), Some ck, Some cm =>
          map sid sg = chain /\ starts_within sg 2 /\ rn (libref (db (hx_s 1 m))) = libnum /\
          block_in (ri (cu_lib (ev_cursor ek))) sg = true /\ block_in (ri (cu_blk (ev_cursor ek))) sg = false /\
          find (ri (cu_blk (ev_cursor ek))) (store (db (hx_s 1 m))) <> None /\
          junction_num (cs_stack ck) (cs_stack cm) = 2 /\
          branch_to (db (hx_s 1 m)) sg 23 [mkSeg 23 3 (mkEntry hx_b3' true)] 12 /\
          (exists je, find 12 (store (db (hx_s 1 m))) = Some je /\ bnum (eb je) = 2) /\
          match hub_through_cursor (hx_s 1 m) 2 (ev_cursor ek) with
          | BOk _ => served = true | BErr => served = false | _ => False end
      | _, _, _ => False
      end
  | _, _ => False
  end.

Example c05th_nonvacuous_served_then_refused :
  hxs_check 5 2 [11; 12; 13; 14] true /\ hxs_check 6 3 [11; 12; 13; 14; 15] false.
Proof.
  split.
  - vm_compute. repeat split; try discriminate.
    + apply (bt_last _ _ 23 (mkEntry hx_b3' true)); vm_compute; reflexivity.
    + eexists. split; reflexivity.
  - vm_compute. repeat split; try discriminate.
    + apply (bt_last _ _ 23 (mkEntry hx_b3' true)); vm_compute; reflexivity.
    + eexists. split; reflexivity.
Qed.
