(* C14 property theorems only.  Proofs live in Proofs/. *)
From BV Require Import Base.Prelude Base.Decimal Model.CursorCodec Spec.C14_Spec Proofs.C14_Proofs.
Local Open Scope N_scope.

Theorem c14_roundtrip : forall oenc odec, (forall s, odec (oenc s) = Some s) -> C14_roundtrip oenc odec.
Proof. exact c14_roundtrip_proof. Qed.
Print Assumptions c14_roundtrip.

Theorem c14_layout : C14_layout.
Proof. exact c14_layout_proof. Qed.
Print Assumptions c14_layout.

Theorem c14_decode_total : C14_decode_total.
Proof. exact c14_decode_total_proof. Qed.
Print Assumptions c14_decode_total.

(* non-vacuity: a concrete aliasing cursor with a 2^64-1 height meets the hypotheses *)
Example c14_nonvacuous :
  let c := mkCur 17 (mkRef [97;98] 18446744073709551615) (mkRef [99] 7) (mkRef [97;98] 18446744073709551615) in
  cursor_ok c = true /\ alias_ok c = true /\ layout_of (cursor_string c) = 2.
Proof. vm_compute. auto. Qed.
