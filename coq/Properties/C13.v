(* C13 property theorems only.  Proofs live in Proofs/C13_Proofs.v. *)
From BV Require Import Base.Prelude Model.Block Model.ForkDB Model.Forkable Model.ForkableLookups
  Model.Burst Model.Hub Model.CursorResolver Model.Joining Spec.C13_Spec Proofs.C13_Proofs.
Local Open Scope N_scope.

Theorem c13_filter_exact : C13_filter_exact.
Proof. exact c13_filter_exact_proof. Qed.
Print Assumptions c13_filter_exact.

Theorem c13_handler_chain : C13_handler_chain.
Proof. exact c13_handler_chain_proof. Qed.
Print Assumptions c13_handler_chain.

(* partial with respect to C13_stop_full: the stream-level "delivers block S itself when it exists"
   is proved relative to the events handed to the chain (fed), not relative to the chain of blocks *)
Theorem c13_stream_output_partial : C13_stream_output.
Proof. exact c13_stream_output_proof. Qed.
Print Assumptions c13_stream_output_partial.

Theorem c13_start : C13_start.
Proof. exact c13_start_proof. Qed.
Print Assumptions c13_start.

Theorem c13_invalid_arg_empty : C13_invalid_arg_empty.
Proof. exact c13_invalid_arg_empty_proof. Qed.
Print Assumptions c13_invalid_arg_empty.

(* ---- non-vacuity ---- *)

(* linear chain, block n declares n-2 final; hub bootstrapped from 12..14 + live 15 (ready, lowest 13,
   head 15), blocks 16..20 still to arrive; merged files hold 2..14, bundle size 10 *)
Definition c13_blk (n : N) : block := mkBlock n n (n - 1) (n - 2).
Definition c13_h0 : hub :=
  let '(h, _, _) := hub_live 2 0 hub_init (PBlocks [c13_blk 12; c13_blk 13; c13_blk 14]) (c13_blk 15) in h.
Definition c13_w : world := mkW c13_h0 (map c13_blk [16; 17; 18; 19; 20]).
Definition c13_merged : list block := map c13_blk [2; 3; 4; 5; 6; 7; 8; 9; 10; 11; 12; 13; 14].
Definition c13_show (x : list event * jerr) := (map (fun e => (estep e, enum e)) (fst x), snd x).

(* stop block 17 reached LIVE after a file phase (5..13 from files, join at 13, 14..17 live), with the
   default filter, the final-blocks-only filter and the custom mask "irreversible": block 17 is the
   last event and the result is stop-block-reached; every hypothesis (S <> 0, an event at S) is met *)
Example c13_nonvacuous_live_stop :
  c13_show (stream_run (mkJ 2 0 10 0 5 None 17 0 0) c13_w [] 10 c13_merged [])
  = ([(SNewIrr, 5); (SNewIrr, 6); (SNewIrr, 7); (SNewIrr, 8); (SNewIrr, 9); (SNewIrr, 10); (SNewIrr, 11);
      (SNewIrr, 12); (SNewIrr, 13); (SNew, 14); (SNew, 15); (SNew, 16); (SNew, 17)], JStop) /\
  c13_show (stream_run (mkJ 2 0 10 0 5 None 17 1 0) c13_w [] 10 c13_merged [])
  = ([(SNewIrr, 5); (SNewIrr, 6); (SNewIrr, 7); (SNewIrr, 8); (SNewIrr, 9); (SNewIrr, 10); (SNewIrr, 11);
      (SNewIrr, 12); (SNewIrr, 13); (SIrr, 14); (SIrr, 15); (SIrr, 16); (SIrr, 17)], JStop) /\
  stream_run (mkJ 2 0 10 0 5 None 17 2 16) c13_w [] 10 c13_merged []
  = stream_run (mkJ 2 0 10 0 5 None 17 1 0) c13_w [] 10 c13_merged [].
Proof. vm_compute. repeat split; reflexivity. Qed.

(* stop block 8 reached IN FILES; a stop on a number the chain of the handler never sees (here: the
   chain [7; 9]) delivers 7 only and stops at 9 *)
Example c13_nonvacuous_file_stop :
  c13_show (stream_run (mkJ 2 0 10 0 5 None 8 0 0) c13_w [] 10 c13_merged [])
  = ([(SNewIrr, 5); (SNewIrr, 6); (SNewIrr, 7); (SNewIrr, 8)], JStop) /\
  let e n := file_event SNewIrr (c13_blk n) in
  chain_run (mkJ 2 0 10 0 5 None 8 0 0) [e 7; e 9; e 10] = ([e 7], true) /\
  chain_run (mkJ 2 0 10 0 5 None 8 1 0) [file_event SNew (c13_blk 8); e 8; e 9] = ([e 8], true).
Proof. vm_compute. repeat split; reflexivity. Qed.

(* start: -2 from head 15 is 13; first streamable block 2 clamps; start after stop and a non-final
   cursor with final-blocks-only are rejected (hypotheses of c13_start met) *)
Example c13_nonvacuous_start :
  stream_head c13_w = 15 /\
  abs_start 2 (-2) 15 = 13 /\ abs_start 2 (-20) 15 = 2 /\ abs_start 2 0 15 = 2 /\ abs_start 2 7 15 = 7 /\
  c13_show (stream_run (mkJ 2 0 10 0 (-2) None 17 0 0) c13_w [] 10 c13_merged [])
  = ([(SNewIrr, 13); (SNew, 14); (SNew, 15); (SNew, 16); (SNew, 17)], JStop) /\
  stream_run (mkJ 2 0 10 0 (-2) None 12 0 0) c13_w [] 10 c13_merged [] = ([], JInvalidArg) /\
  (let cu := mkCursor SNew (mkR 14 14) (mkR 15 15) (mkR 13 13) in
   on_final_block cu = false /\
   stream_run (mkJ 2 0 10 1 5 (Some cu) 17 1 0) c13_w [] 10 c13_merged [] = ([], JInvalidArg)) /\
  on_final_block (mkCursor SIrr (mkR 13 13) (mkR 15 15) (mkR 13 13)) = true.
Proof. vm_compute. repeat split; reflexivity. Qed.
