(* C02: meaning of the finality monitor (property theorems only; proofs in Proofs/Mon/C02_Monitor_Proofs.v) *)
From BV Require Import Base.Prelude Model.Block Model.ForkDB Model.Forkable Spec.Consumer
  Spec.C04_Monitor_Spec Spec.C02_Monitor_Spec Proofs.Mon.C02_Monitor_Proofs.
Local Open Scope N_scope.

(* whatever trace the monitor c02_b accepts (it is evaluated on every implementation trace of the
   property's class by the check) satisfies the declarative finality statements of
   Spec/C02_Monitor_Spec.v: gap-free parent-linked chain of final blocks extending the starting LIB,
   bounded by the incoming block's declared LIB, never undone or stalled later, stalled blocks never
   final, reported once, at or below the final height and not on the consumer's chain *)
Theorem c02_monitor_sound : C02_monitor_sound.
Proof. exact c02_monitor_sound_proof. Qed.
Print Assumptions c02_monitor_sound.

(* non-vacuity: the model's own run on a history with a fork switch, two LIB moves and a stalled block
   is accepted by the monitor *)
Definition ex2_r0 : ref := mkR 1 10.
Definition ex2_hist : list block :=
  [ mkBlock 2 11 1 10; mkBlock 3 12 2 10; mkBlock 4 12 2 10; mkBlock 5 13 4 11; mkBlock 6 14 5 12 ].
Definition ex2_cfg : config := mkCfg 0 false false 2 false (mkFilter true true true true) None.
Example c02_monitor_nonvacuous :
  let t := fk_run ex2_cfg (fs_init (LExcl ex2_r0)) ex2_hist in
  c02_b (LExcl ex2_r0) ex2_hist t = true /\
  irr_ids (all_events t) = [2; 4] /\ stalled_ids (all_events t) = [3].
Proof. vm_compute. auto. Qed.
