(* C17 property theorems only.  Proofs live in Proofs/. *)
From BV Require Import Base.Prelude Model.Gates Spec.C17_Spec Check.C17_Check
  Proofs.C17_Proofs Proofs.C17_CheckSound.
Local Open Scope N_scope.

Theorem c17_suffix : C17_suffix.
Proof. exact c17_suffix_proof. Qed.
Print Assumptions c17_suffix.

Theorem c17_first : C17_first.
Proof. exact c17_first_proof. Qed.
Print Assumptions c17_first.

Theorem c17_irr_only : C17_irr_only.
Proof. exact c17_irr_only_proof. Qed.
Print Assumptions c17_irr_only.

Theorem c17_holdoff : C17_holdoff.
Proof. exact c17_holdoff_proof. Qed.
Print Assumptions c17_holdoff.

Theorem c17_filter : C17_filter.
Proof. exact c17_filter_proof. Qed.
Print Assumptions c17_filter.

Theorem c17_tripper : C17_tripper.
Proof. exact c17_tripper_proof. Qed.
Print Assumptions c17_tripper.

Theorem c17_checker_sound : C17_checker_sound.
Proof. exact c17_checker_sound_proof. Qed.
Print Assumptions c17_checker_sound.

(* IrreversibleBlockNumGate as shipped (constants 0, 1, 2 for the first-streamable rule) loses the
   irreversible event of the first streamable block when that block is not 2 *)
Theorem c17_irr_num_unfixed_refuted : C17_irr_num_unfixed_refuted.
Proof. exact c17_irr_num_unfixed_refuted_proof. Qed.
Print Assumptions c17_irr_num_unfixed_refuted.

(* IrreversibleBlockIDGate as shipped (no step test) does not ignore non-irreversible events *)
Theorem c17_irr_id_unfixed_refuted : C17_irr_id_unfixed_refuted.
Proof. exact c17_irr_id_unfixed_refuted_proof. Qed.
Print Assumptions c17_irr_id_unfixed_refuted.

(* ---- non-vacuity ---- *)

(* blocks 5,6 New, 4 irreversible, 7 New, 5 irreversible, 8 New, 6 irreversible *)
Definition nv_stream : list ev :=
  [mkEv [53;97] 5 1 false; mkEv [54;97] 6 1 false; mkEv [52;97] 4 16 false; mkEv [55;97] 7 1 false;
   mkEv [53;97] 5 16 false; mkEv [56;97] 8 1 false; mkEv [54;97] 6 16 false].

(* the irreversible id gate on "5a": the trigger exists, is position 4 (not the New event at
   position 0), and the exclusive gate forwards exactly the two events after it *)
Example c17_nonvacuous_irrid :
  first_at (T_irrid [53;97]) nv_stream 4 /\
  fw_of (irrid_gate_step [53;97] 15000%Z) (g_init false) nv_stream = skipn 5 nv_stream /\
  fw_of (irrid_gate_step [53;97] 15000%Z) (g_init true) nv_stream = skipn 4 nv_stream /\
  fw_of (irrid_gate_step_unfixed [53;97] 15000%Z) (g_init true) nv_stream = nv_stream.
Proof.
  split; [|vm_compute; auto].
  split; [eexists; split; [reflexivity | vm_compute; reflexivity]|].
  intros j e Hj He. do 4 (destruct j as [|j]; [inversion He; subst; vm_compute; reflexivity|]). lia.
Qed.

(* first-streamable rule: target 0 < first = 2, exclusive gate, stream starting at block 2 *)
Example c17_nonvacuous_first :
  let l := [mkEv [50;97] 2 1 false; mkEv [51;97] 3 1 false] in
  fw_of (num_gate_step 2 0 15000%Z) (g_init false) l = l /\
  fw_of (num_gate_step 0 0 15000%Z) (g_init false) l = skipn 1 l.
Proof. vm_compute. auto. Qed.

(* the same for the irreversible number gate: first streamable block 1, target 0, exclusive gate,
   New and Irreversible events: opens at "irreversible 1", which is forwarded *)
Example c17_nonvacuous_first_irr :
  let l := [mkEv [49;97] 1 1 false; mkEv [50;97] 2 1 false; mkEv [49;97] 1 16 false;
            mkEv [51;97] 3 1 false; mkEv [50;97] 2 16 false] in
  first_at (T_irrnum 0) l 2 /\
  fw_of (irrnum_gate_step 1 0 15000%Z) (g_init false) l = skipn 2 l /\
  fw_of (irrnum_gate_step_unfixed 0 15000%Z) (g_init false) l = skipn 3 l.
Proof.
  split; [|vm_compute; auto].
  split; [eexists; split; [reflexivity | vm_compute; reflexivity]|].
  intros j e Hj He. do 2 (destruct j as [|j]; [inversion He; subst; vm_compute; reflexivity|]). lia.
Qed.

(* hold-off: limit 2, target never reached: the third held block fails, and keeps failing *)
Example c17_nonvacuous_holdoff :
  run (num_gate_step 0 100 2%Z) (g_init true)
      [mkEv [49] 1 1 false; mkEv [50] 2 1 false; mkEv [51] 3 1 false; mkEv [52] 4 1 false]
  = [Hold; Hold; HoldErr; HoldErr] /\
  held always [mkEv [49] 1 1 false; mkEv [50] 2 1 false; mkEv [51] 3 1 false] 2 = 3%Z.
Proof. vm_compute. auto. Qed.

(* the checker accepts the observation the real gate produces on nv_stream and rejects the
   observation of the unfixed gate *)
Example c17_nonvacuous_checker :
  check_latch is_irreversible (T_irrid [53;97]) (I_id [53;97] true) (Some 15000%Z) [] nv_stream
    [(0,0,0); (0,0,0); (0,0,0); (0,0,0); (1,0,0); (1,0,0); (1,0,0)] = true /\
  check_latch is_irreversible (T_irrid [53;97]) (I_id [53;97] true) (Some 15000%Z) [] nv_stream
    [(1,0,0); (1,0,0); (1,0,0); (1,0,0); (1,0,0); (1,0,0); (1,0,0)] = false.
Proof. vm_compute. auto. Qed.
