(* C16 property theorems only.  Proofs live in Proofs/. *)
From BV Require Import Base.Prelude Base.Decimal Model.CursorCodec Model.Dbin Model.OneBlockName
  Spec.C16_Spec Proofs.DbinFacts Proofs.C16_Proofs Proofs.OneBlockNameFacts.
Local Open Scope N_scope.

(* ---- block files: for every protobuf codec satisfying codec_ok *)

Theorem c16_roundtrip : forall penc pdec pdec_meta first accept_solana,
  codec_ok penc pdec pdec_meta -> C16_roundtrip penc pdec pdec_meta first accept_solana.
Proof. exact c16_roundtrip_proof. Qed.
Print Assumptions c16_roundtrip.

Theorem c16_truncation : forall penc pdec pdec_meta first accept_solana,
  codec_ok penc pdec pdec_meta -> C16_truncation penc pdec first accept_solana.
Proof. exact c16_truncation_proof. Qed.
Print Assumptions c16_truncation.

Theorem c16_prefix_intact : forall penc pdec pdec_meta first accept_solana,
  codec_ok penc pdec pdec_meta -> C16_prefix_intact penc pdec first accept_solana.
Proof. exact c16_prefix_intact_proof. Qed.
Print Assumptions c16_prefix_intact.

Theorem c16_corruption_prefix_intact : forall penc pdec pdec_meta first accept_solana,
  codec_ok penc pdec pdec_meta -> C16_corruption_prefix_intact penc pdec first accept_solana.
Proof. exact c16_corruption_prefix_intact_proof. Qed.
Print Assumptions c16_corruption_prefix_intact.

(* partial: the full statement is C16_header_corruption_full (Spec/C16_Spec.v); the gap — the
   version byte set to 0 and the two content-type-length bytes — is refuted below *)
Theorem c16_header_corruption_partial : forall penc pdec first accept_solana,
  C16_header_corruption_partial penc pdec first accept_solana.
Proof. exact c16_header_corruption_partial_proof. Qed.
Print Assumptions c16_header_corruption_partial.

(* ---- refuted clauses (the format has no checksum): known finding C16-corruption-alters *)

Theorem c16_body_corruption_refuted : C16_body_corruption_alters.
Proof. exact c16_body_corruption_alters_proof. Qed.
Print Assumptions c16_body_corruption_refuted.

Theorem c16_no_altered_block_refuted : ~ C16_no_altered_block_full.
Proof. exact c16_no_altered_block_full_refuted. Qed.
Print Assumptions c16_no_altered_block_refuted.

Theorem c16_header_length_corruption_refuted : C16_header_length_corruption_alters.
Proof. exact c16_header_length_corruption_alters_proof. Qed.
Print Assumptions c16_header_length_corruption_refuted.

(* ---- the reader before repo_patches/C16_fix_truncated_message (fixed) *)

Theorem c16_truncation_refuted_before_fix : C16_truncation_refuted_before_fix.
Proof. exact c16_truncation_refuted_before_fix_proof. Qed.
Print Assumptions c16_truncation_refuted_before_fix.

(* ---- one-block file names and fetch *)

Theorem c16_name_roundtrip : C16_name_roundtrip.
Proof. exact c16_name_roundtrip_proof. Qed.
Print Assumptions c16_name_roundtrip.

Theorem c16_name_parse_sound : C16_name_parse_sound.
Proof. exact c16_name_parse_sound_proof. Qed.
Print Assumptions c16_name_parse_sound.

(* every sequence the writer accepted is in the class of the round-trip theorems (4 GiB bound aside) *)
Theorem c16_written_is_seq_ok : C16_written_is_seq_ok.
Proof. exact c16_written_is_seq_ok_proof. Qed.
Print Assumptions c16_written_is_seq_ok.

Theorem c16_unfixed_writer_accepts_empty : C16_unfixed_writer_accepts_empty.
Proof. exact c16_unfixed_writer_accepts_empty_proof. Qed.
Print Assumptions c16_unfixed_writer_accepts_empty.

Theorem c16_fetch : forall T dec, C16_fetch T dec.
Proof. exact c16_fetch_proof. Qed.
Print Assumptions c16_fetch.

(* ---- non-vacuity *)

(* a protobuf stand-in that knows exactly two blocks (every other block fails to marshal): it
   satisfies codec_ok, and the sequence [modern block >= 2^32; legacy ETH block] satisfies seq_ok,
   so the hypotheses of the block-file theorems can be met together *)
Definition ex_b1 : blk :=
  mkBlk 4294967296 [97; 98] [97; 97] (Some (1700000000, 5)%Z) 4294967295 0 0%Z [] 0 4294967295
        (Some (mkAny [116; 47; 84] [1; 2; 3])).
Definition ex_b2 : blk :=   (* a legacy ETH block without payload *)
  mkBlk 4294967297 [97; 99] [97; 98] None 4294967296 2 1%Z [9; 9] 0 0 None.
Definition ex_penc (b : blk) : option str :=
  if blk_eqb b ex_b1 then Some [0; 97; 98] else if blk_eqb b ex_b2 then Some [1; 97; 99] else None.
Definition ex_pdec (m : str) : option blk :=
  if eqb_list m [0; 97; 98] then Some ex_b1 else if eqb_list m [1; 97; 99] then Some ex_b2 else None.
Definition ex_pdec_meta (m : str) : option bmeta := option_map meta_of (ex_pdec m).

Example c16_nonvacuous_codec : codec_ok ex_penc ex_pdec ex_pdec_meta.
Proof.
  split; intros b m; unfold ex_penc;
    (destruct (blk_eqb b ex_b1) eqn:E1;
     [apply DbinFacts.blk_eqb_eq in E1; subst b; intros [= <-]; reflexivity|]);
    (destruct (blk_eqb b ex_b2) eqn:E2;
     [apply DbinFacts.blk_eqb_eq in E2; subst b; intros [= <-]; reflexivity|discriminate]).
Qed.

Example c16_nonvacuous_seq :
  seq_ok ex_penc [ex_b1; ex_b2] /\
  file_of ex_penc [ex_b1; ex_b2] =
    [100; 98; 105; 110; 1; 0; 3; 116; 47; 84; 0; 0; 0; 3; 0; 97; 98; 0; 0; 0; 3; 1; 97; 99] /\
  boundary ex_penc [ex_b1; ex_b2] 1 = 17%nat /\
  read_blocks ex_pdec 0 false (file_of ex_penc [ex_b1; ex_b2]) =
    (Some (mkHdr 1 [116; 47; 84]),
     [ex_b1; mkBlk 4294967297 [97; 99] [97; 98] None 4294967296 2 1%Z [9; 9] 0 4294967296
                   (Some (mkAny url_eth [9; 9]))], OEOF).
Proof.
  split; [|split; [|split]]; [|vm_compute; reflexivity ..].
  split; [discriminate|]. split; [discriminate|]. split; [cbv; discriminate|].
  constructor; [|constructor; [|constructor]].
  - exists [0; 97; 98]. split; [reflexivity|]. split; [discriminate|reflexivity].
  - exists [1; 97; 99]. split; [reflexivity|]. split; [discriminate|reflexivity].
Qed.

(* a block >= 2^32 with a 20-byte id: the name carries the last 16 bytes and parses back *)
Example c16_nonvacuous_name :
  let id := [48;49;50;51;52;53;54;55;56;57;97;98;99;100;101;102;48;49;50;51] in
  name_ok 4294967296 id [112] 18446744073709551615 [103] /\
  parse_filename (block_file_name 4294967296 id [112] 18446744073709551615 [103]) =
    Some (mkParsed 4294967296 [52;53;54;55;56;57;97;98;99;100;101;102;48;49;50;51] [112]
                   18446744073709551615
                   (join dash [pad10 4294967296; truncate_id id; [112]; print_dec 18446744073709551615])).
Proof. vm_compute. repeat split; reflexivity. Qed.

(* a store of two heights: the block of the requested height is returned *)
Example c16_nonvacuous_fetch :
  let l := [mkStored 5 [97] [112] 3 [103] [84] [1; 7]; mkStored 6 [98] [97] 3 [103] [84] [2; 8]] in
  Forall stored_ok l /\
  fetch_one_block toy_dec (store_of l) 5 [120; 97] = FBlock (1, 7) /\
  fetch_one_block toy_dec (store_of l) 5 [98] = FNotFound.
Proof.
  split; [|split]; [|vm_compute; reflexivity ..].
  constructor; [|constructor; [|constructor]];
    (split; [vm_compute; repeat split; reflexivity|]; split; [discriminate|];
     split; [vm_compute; discriminate|]; split; [discriminate|reflexivity]).
Qed.
