(* U2 hypothesis audit: necessity witnesses for hypotheses of the property theorems of C05, C06, C09, C10, C11, C12,
   C15, C16, C17, C19, C20.  One module per property; every theorem `cxx_<hyp>_needed` exhibits (vm_compute) a concrete
   input that violates hypothesis <hyp> of a proved theorem and on which the theorem's conclusion fails for the model.
   Which witnesses are inside the property's quantifier, and what the real code does there: notes_proof_U2.md.
   GENERATED from notes_proof_U2/audit_Cxx.v by notes_proof_U2/mkaudit.py (Require's hoisted, Imports kept per module). *)

From Coq Require Sorted Permutation.
From BV Require Base.Prelude Model.Block Model.ForkDB Model.Forkable Model.ForkableLookups Model.Burst Model.Hub Spec.Consumer Spec.Universe Check.Fk_Check Check.Burst_Check Spec.C09_Spec Spec.C05_Spec Spec.C05_Through_Spec Spec.C01_Spec Spec.C01_Moving_Spec Spec.C05_History_Spec Proofs.C09_Store Properties.C09 Properties.C05 Properties.C05_Through Model.CursorResolver Spec.C06_Spec Spec.C09_History_Spec Model.FileSeq Model.Pipeline Spec.C10_Spec Spec.C11_Spec Proofs.C11_Proofs Model.Lifecycle Spec.C12_Spec Properties.C12 Model.BlockIndex Spec.C15_Spec Proofs.C15_Proofs Base.Decimal Model.CursorCodec Model.Dbin Model.OneBlockName Spec.C16_Spec Proofs.PreludeFacts Proofs.DbinFacts Model.Gates Spec.C17_Spec Proofs.C17_Lists Model.Range Spec.C19_Spec Model.BlockServer Model.BlockServerSched Spec.C20_Spec Spec.C20_SchedSpec.

Module C05.
(* U2 hypothesis audit, C05 (resuming from a cursor on the live hub): necessity witnesses.
   Every theorem is closed (vm_compute on concrete inputs).  See notes_proof_U2/notes_C05.md. *)
Import BV.Base.Prelude BV.Model.Block BV.Model.ForkDB BV.Model.Forkable BV.Model.ForkableLookups BV.Model.Burst BV.Model.Hub BV.Spec.Consumer BV.Spec.Universe BV.Check.Fk_Check BV.Check.Burst_Check BV.Spec.C09_Spec BV.Spec.C05_Spec BV.Spec.C05_Through_Spec BV.Spec.C01_Spec BV.Spec.C01_Moving_Spec BV.Spec.C05_History_Spec BV.Proofs.C09_Store BV.Properties.C09 BV.Properties.C05 BV.Properties.C05_Through.
Local Open Scope N_scope.

Definition c05_show (b : burst) : option (list (step * N * N * option ref)) :=
  match b with BOk evs => Some (map (fun e => (estep e, bid (eblk e), rn (elib e), ejunc e)) evs) | _ => None end.

(* ------------------------------------------------------------------ c05_through_forked_burst / _consumer:
   hypothesis `complete_segment (db s) (cu_blk c) = Some (csg, true)` (the cursor block's own branch reaches the
   hub LIB).  CANDIDATE DEFECT, inside the quantifier.

   History (wf_b, lib_ok_b; hub configuration first streamable 1, retention 2):
     11@1 <- 12@2 <- 23@3, then 13@3 (child of 12), 14@4 (declares LIB 2), 15@5 (declares LIB 3).
   Event 3 of the stream is "New 23" with cursor {New, 23@3, head 23@3, LIB 11@1}.  After block 14 the hub LIB is
   12 = the junction and the through-cursor burst from start 2 is served.  After block 15 the hub LIB is 13, above
   the junction; cursor LIB 11 is still on the retained chain with its number, block 23 is still retained,
   blocks_from_cursor serves the cursor - but blocks_through_cursor / hub_through_cursor answer "no source" for every
   start block at or below the junction.  Replayed on the real Forkable: TestU2_C05_ThroughForkedBelowHubLIB. *)
Definition c05_b1 := mkBlock 11 1 10 0.
Definition c05_b2 := mkBlock 12 2 11 1.
Definition c05_b3' := mkBlock 23 3 12 1.
Definition c05_b3 := mkBlock 13 3 12 1.
Definition c05_b4 := mkBlock 14 4 13 2.
Definition c05_b5 := mkBlock 15 5 14 3.
Definition c05_h := [c05_b1; c05_b2; c05_b3'; c05_b3; c05_b4; c05_b5].
Definition c05_cfg := hub_config 1 2.
Definition c05_events := concat (map fst (fk_run c05_cfg (fs_init LNone) c05_h)).
Definition c05_ek := nth 3 c05_events (mkEv SNew c05_b1 ref_empty ref_empty ref_empty None 0 0).
Definition c05_cur := ev_cursor c05_ek.
Definition c05_s5 := state_after c05_cfg (fs_init LNone) c05_h 5.
Definition c05_s6 := state_after c05_cfg (fs_init LNone) c05_h 6.
Definition c05_sg6 : list seg :=
  match complete_segment (db c05_s6) (bref c05_b5) with Some (sg, _) => sg | None => [] end.

Theorem c05_through_reach_needed :
  wf_b c05_h = true /\ lib_ok_b LNone c05_h = true /\
  (* the cursor is minted by the stream: event 3 is New 23 *)
  nth_error c05_events 3 = Some c05_ek /\ estep c05_ek = SNew /\
  c05_cur = mkCursor SNew (mkR 23 3) (mkR 23 3) (mkR 11 1) /\
  (* after block 14 (hub LIB 12 = the junction) the through-cursor burst from start 2 is served *)
  libref (db c05_s5) = mkR 12 2 /\
  c05_show (blocks_through_cursor c05_s5 2 c05_cur) =
    Some [(SNew, 12, 1, None); (SNew, 23, 1, None); (SUndo, 23, 1, Some (mkR 12 2));
          (SIrr, 12, 2, None); (SNew, 13, 2, None); (SNew, 14, 2, None)] /\
  (* after block 15: hub LIB 13, head 15, retained chain 11..15; every other hypothesis of
     c05_through_forked_burst / c05_serves holds ... *)
  wf_state c05_s6 /\ head_chain c05_s6 c05_b5 c05_sg6 /\ map sid c05_sg6 = [11; 12; 13; 14; 15] /\
  libref (db c05_s6) = mkR 13 3 /\
  starts_within c05_sg6 2 /\ block_in (ri (cu_blk c05_cur)) c05_sg6 = false /\
  cursor_numbered (db c05_s6) c05_cur /\
  (exists x, In x c05_sg6 /\ sid x = ri (cu_lib c05_cur) /\ snum x = rn (cu_lib c05_cur)) /\   (* cursor LIB retained, canonical *)
  find 23 (store (db c05_s6)) <> None /\                                                       (* cursor block retained *)
  branch_to (db c05_s6) c05_sg6 23 [mkSeg 23 3 (mkEntry c05_b3' true)] 12 /\                    (* junction 12@2 *)
  (* ... the plain cursor request is served ... *)
  c05_show (blocks_from_cursor c05_s6 c05_cur) =
    Some [(SUndo, 23, 1, Some (mkR 12 2)); (SIrr, 12, 2, None); (SNewIrr, 13, 3, None); (SNew, 14, 3, None); (SNew, 15, 3, None)] /\
  (* ... but the branch of 23 does not reach the hub LIB and the target-cursor request gets no source, from every
     start block at or below the junction *)
  (exists csg, complete_segment (db c05_s6) (cu_blk c05_cur) = Some (csg, false) /\ map sid csg = [11; 12; 23]) /\
  blocks_through_cursor c05_s6 1 c05_cur = BErr /\ blocks_through_cursor c05_s6 2 c05_cur = BErr /\
  hub_through_cursor c05_s6 1 c05_cur = BErr /\ hub_through_cursor c05_s6 2 c05_cur = BErr.
Proof.
  split; [vm_compute; reflexivity|]. split; [vm_compute; reflexivity|].
  split; [vm_compute; reflexivity|]. split; [vm_compute; reflexivity|].
  split; [vm_compute; reflexivity|]. split; [vm_compute; reflexivity|].
  split; [vm_compute; reflexivity|].
  split; [apply wf_state_b_sound; vm_compute; reflexivity|].
  split; [repeat split; vm_compute; reflexivity|].
  split; [vm_compute; reflexivity|]. split; [vm_compute; reflexivity|].
  split; [vm_compute; discriminate|]. split; [vm_compute; reflexivity|].
  split; [intros e H; vm_compute in H; injection H as <-; reflexivity|].
  split; [exists (nth 0 c05_sg6 (mkSeg 0 0 (mkEntry c05_b1 false))); vm_compute; auto|].
  split; [vm_compute; discriminate|].
  split; [apply (bt_last (db c05_s6) c05_sg6 23 (mkEntry c05_b3' true)); vm_compute; reflexivity|].
  split; [vm_compute; reflexivity|].
  split; [eexists; split; vm_compute; reflexivity|].
  vm_compute. repeat split.
Qed.
Print Assumptions c05_through_reach_needed.

(* ------------------------------------------------------------------ c05_through_forked*: cursor_numbered
   A cursor naming the retained fork block 23 under number 2 instead of 3 (state ex_s1 of Properties/C05_Through.v:
   chain 11..14, fork 23 on 12, hub LIB 12): through_branch matches by NUMBER and stops at block 12, so "New 23" is
   missing from the burst while "Undo 23" is sent: the consumer that holds nothing is asked to undo a block it never
   received.  Outside the quantifier: the stream mints cursors with the block's own number (c05_cursor_meets_hypotheses). *)
Definition c05_c_misnumbered := mkCursor SNew (mkR 23 2) (mkR 23 3) (mkR 12 2).
Theorem c05_cursor_numbered_needed :
  ~ cursor_numbered (db ex_s1) c05_c_misnumbered /\
  c05_show (blocks_through_cursor ex_s1 2 c05_c_misnumbered) =
    Some [(SNewIrr, 12, 2, None); (SUndo, 23, 2, Some (mkR 12 2)); (SNew, 13, 2, None); (SNew, 14, 2, None)] /\
  (* with the right number: *)
  c05_show (blocks_through_cursor ex_s1 2 ex_cf) =
    Some [(SNewIrr, 12, 2, None); (SNew, 23, 2, None); (SUndo, 23, 2, Some (mkR 12 2)); (SNew, 13, 2, None); (SNew, 14, 2, None)] /\
  (match blocks_through_cursor ex_s1 2 c05_c_misnumbered with
   | BOk evs => cons_fold cons0 (tolerate 2 evs) = None | _ => False end).
Proof.
  split.
  - intro H. specialize (H (mkEntry ex_b3' false) eq_refl). vm_compute in H. discriminate H.
  - vm_compute. repeat split.
Qed.
Print Assumptions c05_cursor_numbered_needed.

(* ------------------------------------------------------------------ c05_through_forked_consumer:
   "the cursor LIB is not above the junction" (rn (cu_lib c) <= bnum (eb je)).
   Cursor on the fork block 23 (junction 12@2) whose LIB is 13@3, a canonical block that is NOT an ancestor of 23:
   the fork block is announced New+Irreversible, then undone, and the canonical block 13 is never delivered; the
   consumer rejects the burst.  Outside the quantifier: a stream cursor's LIB is an ancestor of its block, and final
   blocks stay canonical (lib_ok); proved for stream cursors in c05_cursor_meets_hypotheses. *)
Definition c05_c_lib_above := mkCursor SNew (mkR 23 3) (mkR 23 3) (mkR 13 3).
Theorem c05_lib_not_above_junction_needed :
  (exists x, In x ex_sg1 /\ sid x = ri (cu_lib c05_c_lib_above) /\ snum x = rn (cu_lib c05_c_lib_above)) /\
  cursor_numbered (db ex_s1) c05_c_lib_above /\
  ~ (rn (cu_lib c05_c_lib_above) <= bnum ex_b2) /\
  c05_show (blocks_through_cursor ex_s1 2 c05_c_lib_above) =
    Some [(SNewIrr, 12, 2, None); (SNewIrr, 23, 3, None); (SUndo, 23, 3, Some (mkR 12 2)); (SNew, 14, 2, None)] /\
  (match blocks_through_cursor ex_s1 2 c05_c_lib_above with
   | BOk evs => cons_fold cons0 (tolerate 2 evs) = None | _ => False end) /\
  (* the plain cursor burst loses block 13 as well *)
  c05_show (blocks_from_cursor ex_s1 c05_c_lib_above) = Some [(SUndo, 23, 3, Some (mkR 12 2)); (SNew, 14, 2, None)].
Proof.
  split; [exists (nth 2 ex_sg1 (mkSeg 0 0 (mkEntry ex_b1 false))); vm_compute; auto|].
  split; [apply ex_numbered|].
  split; [vm_compute; intro H; apply H; reflexivity|].
  vm_compute. repeat split.
Qed.
Print Assumptions c05_lib_not_above_junction_needed.

(* ------------------------------------------------------------------ c05_serves: the cursor LIB is on the chain
   "with its number" (snum x = rn (cu_lib c)).  Cursor LIB id 12 under number 0: refused by the test
   `cursor LIB number < first number of the segment`.  Outside the quantifier (malformed cursor). *)
Theorem c05_lib_number_needed :
  block_in 12 ex_sg = true /\
  blocks_from_cursor ex_s (mkCursor SNew (mkR 13 3) (mkR 13 3) (mkR 12 0)) = BErr /\
  c05_show (blocks_from_cursor ex_s (mkCursor SNew (mkR 13 3) (mkR 13 3) (mkR 12 2))) =
    Some [(SIrr, 13, 3, None); (SNew, 14, 3, None); (SNew, 15, 3, None)].
Proof. vm_compute. repeat split. Qed.
Print Assumptions c05_lib_number_needed.

(* ------------------------------------------------------------------ c05_total: last_sent s <> None
   With a LIB and without a head the MODEL takes the nil-dereference branch (BPanic).  Needed for the model only:
   the real code answers with an error in that state (Block.AsRef of package pbbstream is nil-safe; replayed:
   TestU2_C05_ConfiguredLIBNoHead, TestU2_C05_WildLIBNoHead) - a model infidelity in a state no theorem's hypotheses
   allow and the correspondence check never produces. *)
Definition c05_s_nohead : fstate := mkFS (db ex_s) None (last_lib_seen ex_s) (ncalls ex_s).
Theorem c05_last_sent_needed :
  has_lib (db c05_s_nohead) = true /\ last_sent c05_s_nohead = None /\
  blocks_from_cursor c05_s_nohead ex_c_new = BPanic /\ blocks_through_cursor c05_s_nohead 2 ex_c_new = BPanic /\
  ~ served_or_not (blocks_from_cursor c05_s_nohead ex_c_new).
Proof.
  split; [vm_compute; reflexivity|]. split; [reflexivity|].
  split; [vm_compute; reflexivity|]. split; [vm_compute; reflexivity|].
  intros [[evs H]|H]; vm_compute in H; discriminate H.
Qed.
Print Assumptions c05_last_sent_needed.
End C05.

Module C06.
(* U2 hypothesis audit, C06 (resuming from a cursor out of merged files): necessity witnesses.
   Every theorem is closed (vm_compute on concrete inputs).  See notes_proof_U2/notes_C06.md. *)
Import BV.Base.Prelude BV.Model.Block BV.Model.Burst BV.Model.CursorResolver BV.Check.Burst_Check BV.Spec.C06_Spec.
Local Open Scope N_scope.

Definition c06_show (r : list event * rres) : list (step * N) * rres :=
  (map (fun e => (estep e, bid (eblk e))) (fst r), snd r).

(* the canonical chain 1..8: ids 11..18, parent-linked *)
Definition c06_mk (n : N) : block := mkBlock (10 + n) n (if n =? 1 then 0 else 10 + n - 1) 0.
Definition c06_chain : list block := map c06_mk [1; 2; 3; 4; 5; 6; 7; 8].

(* ------------------------------------------------------------------ c06_through_on_chain / c06_through_final_cursor:
   hypothesis `In B D` (the target cursor's block is in the file source's delivery, i.e. start <= cursor block
   number).  CANDIDATE DEFECT, inside the quantifier ("pass-through (target cursor) mode from every start block").

   Target cursor {New, block 15@5, LIB 13@3}, canonical and final.  From start 5 everything is delivered; from
   start 6 or 7 the first block is above the cursor number, is not the cursor block, and the resolver ends with the
   "cannot resolve 'old cursor' from files in passthrough mode -- not implemented" error with nothing delivered -
   c06_through_forked's answer for a FORKED cursor, given here for a cursor that is on the chain.  The same for a
   final target cursor on block 13@3 from start 5.  (The hub's SourceThroughCursor ignores a cursor whose block is
   below the start block: C05_hub_through.)  Replayed on the real code: TestU2_C06_ThroughStartAboveCursor. *)
Definition c06_cur := mkCursor SNew (mkR 15 5) (mkR 15 5) (mkR 13 3).
Definition c06_cur_final := mkCursor SIrr (mkR 13 3) (mkR 15 5) (mkR 13 3).

Theorem c06_through_start_needed :
  chain_ok c06_chain /\
  (* the cursor block is on the stored canonical chain *)
  In (c06_mk 5) c06_chain /\ bref (c06_mk 5) = cu_blk c06_cur /\ rn (cu_lib c06_cur) < rn (cu_blk c06_cur) /\
  (* start 5: served, as c06_through_on_chain says *)
  c06_show (through_cursor_run c06_chain [] 5 c06_cur 8 100) = ([(SNewIrr, 15); (SNewIrr, 16); (SNewIrr, 17); (SNewIrr, 18)], RsOk) /\
  (* start 6, 7: the hypothesis fails ... *)
  ~ In (c06_mk 5) (file_delivery c06_chain 6 8 100) /\ ~ In (c06_mk 5) (file_delivery c06_chain 7 8 100) /\
  (* ... and so does the conclusion: nothing delivered, "not implemented" *)
  through_resolver_run c06_chain [] 6 c06_cur 8 100 = ([], RsNotImplemented) /\
  through_resolver_run c06_chain [] 7 c06_cur 8 100 = ([], RsNotImplemented) /\
  map (file_event SNewIrr) (file_delivery c06_chain 7 8 100) <> [] /\
  (* final target cursor on 13@3, start 5 *)
  In (c06_mk 3) c06_chain /\ bref (c06_mk 3) = cu_blk c06_cur_final /\ rn (cu_blk c06_cur_final) <= rn (cu_lib c06_cur_final) /\
  through_resolver_run c06_chain [] 5 c06_cur_final 8 100 = ([], RsNotImplemented) /\
  (* since the fix C06-through-cursor-passed (the cursor "has already passed" and is ignored, as the
     hub does) all three are served as a plain file source: *)
  c06_show (through_cursor_run c06_chain [] 6 c06_cur 8 100) = ([(SNewIrr, 16); (SNewIrr, 17); (SNewIrr, 18)], RsOk) /\
  c06_show (through_cursor_run c06_chain [] 7 c06_cur 8 100) = ([(SNewIrr, 17); (SNewIrr, 18)], RsOk) /\
  c06_show (through_cursor_run c06_chain [] 5 c06_cur_final 8 100) = ([(SNewIrr, 15); (SNewIrr, 16); (SNewIrr, 17); (SNewIrr, 18)], RsOk).
Proof.
  split.
  { split; [vm_compute; repeat split; reflexivity|].
    vm_compute. repeat constructor; intro H; repeat (destruct H as [H|H]; [discriminate H|]); exact H. }
  split; [vm_compute; tauto|]. split; [reflexivity|]. split; [vm_compute; reflexivity|].
  split; [vm_compute; reflexivity|].
  split; [vm_compute; intro H; repeat (destruct H as [H|H]; [discriminate H|]); exact H|].
  split; [vm_compute; intro H; repeat (destruct H as [H|H]; [discriminate H|]); exact H|].
  split; [vm_compute; reflexivity|]. split; [vm_compute; reflexivity|].
  split; [vm_compute; discriminate|].
  split; [vm_compute; tauto|]. split; [reflexivity|]. split; [vm_compute; discriminate|].
  split; [vm_compute; reflexivity|]. split; [vm_compute; reflexivity|]. split; vm_compute; reflexivity.
Qed.
Print Assumptions c06_through_start_needed.

(* ------------------------------------------------------------------ c06_resume_forked / c06_missing: `reached`
   (a delivered block numbered at or above the cursor block exists).  Forked cursor on 99@9 (child of the canonical
   head 18@8), merged files end at 8: nothing is delivered and the run ends Ok (with the stop block 8 the real file
   source ends with "stop block reached": TestU2_C06_NotReachedStop); the pending forked block is never undone.
   Inside the quantifier only when a forked block can be higher than the stored canonical head (all-blocks-trigger
   mode, or merged files that end below the live head); the model's answer "the source waits" is what c06_not_reached
   states. *)
Definition c06_f9 := mkBlock 99 9 18 0.
Definition c06_cur_f9 := mkCursor SNew (mkR 99 9) (mkR 99 9) (mkR 13 3).
Theorem c06_reached_needed :
  ~ reached (file_delivery c06_chain 3 8 100) c06_cur_f9 /\
  file_of [c06_f9] c06_cur_f9 99 = Some c06_f9 /\
  from_cursor_run c06_chain [c06_f9] c06_cur_f9 8 100 = ([], RsOk).
Proof.
  split.
  - intros [b [H Hle]]. vm_compute in H.
    repeat (destruct H as [H|H]; [subst b; vm_compute in Hle; apply Hle; reflexivity|]). exact H.
  - vm_compute. split; reflexivity.
Qed.
Print Assumptions c06_reached_needed.

(* ------------------------------------------------------------------ c06_resume_forked: `file_of forked c (bid w) = Some w`
   "the store answers an id of the branch with that block".  A store that answers the id of the forked block 23 with a
   DIFFERENT block (same id, parent on the chain two blocks lower): the junction is wrong, the consumer's real parent
   block 12 is announced as new.  Outside the quantifier as far as the model goes (ids are whole); on the real code the
   walk compares 16-character id SUFFIXES with strings.HasSuffix, so the hypothesis also hides an encoding assumption:
   TestU2_C06_IdSuffixJunction. *)
Definition c06_c2 : list block := [mkBlock 11 1 0 0; mkBlock 12 2 11 0; mkBlock 13 3 12 0; mkBlock 14 4 13 0].
Definition c06_f23 := mkBlock 23 3 12 0.
Definition c06_f23_wrong := mkBlock 23 3 11 0.
Definition c06_cur23 := mkCursor SNew (mkR 23 3) (mkR 23 3) (mkR 11 1).
Theorem c06_file_agreement_needed :
  file_of [c06_f23_wrong] c06_cur23 23 = Some c06_f23_wrong /\ c06_f23_wrong <> c06_f23 /\
  (match from_cursor_run c06_c2 [c06_f23] c06_cur23 4 100 with
   | (evs, r) => map (fun e => (estep e, bid (eblk e), ejunc e)) evs =
       [(SUndo, 23, Some (mkR 12 2)); (SIrr, 12, None); (SNewIrr, 13, None); (SNewIrr, 14, None)] /\ r = RsOk end) /\
  (match from_cursor_run c06_c2 [c06_f23_wrong] c06_cur23 4 100 with
   | (evs, r) => map (fun e => (estep e, bid (eblk e), ejunc e)) evs =
       [(SUndo, 23, Some (mkR 11 1)); (SNewIrr, 12, None); (SNewIrr, 13, None); (SNewIrr, 14, None)] /\ r = RsOk end) /\
  (* the consumer holding 11 <- 12 <- 23 rejects the second answer (12 delivered as new a second time) *)
  cons_fold (consumer [mkBlock 11 1 0 0] [mkBlock 12 2 11 0; c06_f23])
            (fst (from_cursor_run c06_c2 [c06_f23_wrong] c06_cur23 4 100)) = None.
Proof. vm_compute. repeat split; try reflexivity. discriminate. Qed.
Print Assumptions c06_file_agreement_needed.
End C06.

Module C09.
(* U2 hypothesis audit of C09: necessity witnesses for the hypotheses of the C09 property theorems
   (Spec/C09_Spec.v, Spec/C09_History_Spec.v).  Every theorem is closed (vm_compute on concrete inputs plus a few
   lines of destructuring); none of the violating inputs lies inside C09's quantifier except the last section, which is
   not a necessity witness but a concrete run showing what the readiness clause does NOT say. *)
Import Sorted Permutation.
Import BV.Base.Prelude BV.Model.Block BV.Model.ForkDB BV.Model.Forkable BV.Model.ForkableLookups BV.Model.Burst BV.Model.Hub BV.Spec.Consumer BV.Spec.Universe BV.Check.Fk_Check BV.Check.Burst_Check BV.Spec.C09_Spec BV.Spec.C09_History_Spec BV.Proofs.C09_Store.
Local Open Scope N_scope.

(* ------------------------------------------------------------------ helpers *)

Definition c09_E (i n p : N) : entry := mkEntry (mkBlock i n p 0) true.
Definition c09_st (l : list entry) (ex : option ref) (lib : ref) (hd : option block) : fstate :=
  mkFS (mkDB l ex lib) hd lib 0.

Lemma c09_split_In : forall (sg pre suf : list seg) (x : seg), sg = pre ++ x :: suf -> In x sg.
Proof. intros sg pre suf x ->. apply in_or_app. right. left. reflexivity. Qed.

(* ------------------------------------------------------------------ wf_universe (c09_wf_reachable, c09_hub_snapshots) *)

(* wu_parent: block 13 carries the same number as its parent 12 *)
Definition c09_e1 := mkBlock 11 1 10 0.
Definition c09_e2 := mkBlock 12 2 11 1.
Definition c09_e3 := mkBlock 13 2 12 1.
Definition c09_e4 := mkBlock 14 3 13 2.
Definition c09_e5 := mkBlock 15 4 14 2.
Definition c09_Ue := [c09_e1; c09_e2; c09_e3; c09_e4; c09_e5].
Definition c09_le := [(c09_e4, PBlocks [c09_e1; c09_e2; c09_e3]); (c09_e5, PNil)].
Definition c09_he := hub_run 1 5 hub_init c09_le.

(* every clause of wf_universe except wu_parent holds for c09_Ue; the hub is ready; the reached state is not well
   formed and the request at 2 is answered with TWO blocks numbered 2 (12 and 13): from_num_spec fails *)
Theorem c09_wu_parent_needed :
  (forall a b, In a c09_Ue -> In b c09_Ue -> bid a = bid b -> a = b) /\
  (forall b, In b c09_Ue -> bid b <> 0) /\
  (forall b p, In (b, p) c09_le -> In b c09_Ue /\ pass_in c09_Ue p) /\
  h_ready c09_he = true /\
  ~ wf_state (h_f c09_he) /\
  ~ from_num_spec (h_f c09_he) 2.
Proof.
  split; [|split; [|split; [|split; [|split]]]].
  - intros a b Ha Hb H. cbn in Ha, Hb.
    destruct Ha as [<-|[<-|[<-|[<-|[<-|[]]]]]]; destruct Hb as [<-|[<-|[<-|[<-|[<-|[]]]]]];
      try reflexivity; vm_compute in H; discriminate H.
  - intros b Hb. cbn in Hb. destruct Hb as [<-|[<-|[<-|[<-|[<-|[]]]]]]; vm_compute; discriminate.
  - intros b p H. cbn in H. destruct H as [H|[H|[]]]; inversion H; subst; split; cbn; try tauto.
    all: intros b' Hb'; cbn in Hb'; tauto.
  - vm_compute. reflexivity.
  - intros [[[_ _ Hp] _] _].
    specialize (Hp (nth 2 (store (db (h_f c09_he))) (c09_E 0 0 0)) (nth 1 (store (db (h_f c09_he))) (c09_E 0 0 0))).
    vm_compute in Hp.
    assert (H : (2 ?= 2) = Lt) by (apply Hp; [right; right; left; reflexivity | right; left; reflexivity | reflexivity]).
    discriminate H.
  - unfold from_num_spec.
    destruct (blocks_from_num (h_f c09_he) 2) eqn:Hb; try (vm_compute in Hb; discriminate Hb).
    intros (hd & sg & pre & x & suf & (_ & Hls & Hcs & Hsg & Hn & Hpre & Hsuf) & _ & _).
    vm_compute in Hls. injection Hls as <-.
    vm_compute in Hcs. injection Hcs as <-.
    (* the first element numbered 2 is 12, so 13 (also numbered 2) is in suf *)
    destruct pre as [|p0 [|p1 pre]]; cbn in Hsg.
    + injection Hsg as <- _. vm_compute in Hn. discriminate Hn.
    + injection Hsg as <- <- Hs. subst suf.
      specialize (Hsuf _ (or_introl eq_refl)). vm_compute in Hsuf. discriminate Hsuf.
    + injection Hsg as <- <- _.
      specialize (Hpre _ (or_intror (or_introl eq_refl))). vm_compute in Hpre. discriminate Hpre.
Qed.
Print Assumptions c09_wu_parent_needed.

(* ------------------------------------------------------------------ wf_state (c09_from_num, c09_head_segment, c09_fuel_sufficient) *)

(* wfs_parent: a parent cycle 11 <-> 12; CompleteSegment runs out of fuel, the answer is BFuel *)
Definition c09_s_cyc := c09_st [c09_E 11 1 12; c09_E 12 2 11] None (mkR 11 1) (Some (mkBlock 12 2 11 0)).

Theorem c09_wfs_parent_needed :
  NoDup (map key (store (db c09_s_cyc))) /\ (forall e, In e (store (db c09_s_cyc)) -> key e <> 0) /\ extra_ok (db c09_s_cyc) /\
  (forall hd e, last_sent c09_s_cyc = Some hd -> find (bid hd) (store (db c09_s_cyc)) = Some e -> bnum (eb e) = bnum hd) /\
  complete_segment (db c09_s_cyc) (mkR 12 2) = None /\        (* c09_fuel_sufficient, c09_segment_chain part 3 *)
  ~ from_num_spec c09_s_cyc 1.                                 (* c09_from_num *)
Proof.
  split; [|split; [|split; [|split; [|split]]]].
  - apply nodup_b_sound. vm_compute. reflexivity.
  - intros e He. cbn in He. destruct He as [<-|[<-|[]]]; vm_compute; discriminate.
  - intros r Hr. vm_compute in Hr. discriminate Hr.
  - intros hd e Hls Hf. vm_compute in Hls. injection Hls as <-. vm_compute in Hf. injection Hf as <-. reflexivity.
  - vm_compute. reflexivity.
  - intro H. vm_compute in H. exact H.
Qed.
Print Assumptions c09_wfs_parent_needed.

(* wst_head: the head (lastBlockSent) carries number 7 while its stored entry carries 2: the request at 7 is served
   with a block numbered 2 *)
Definition c09_s_hd := c09_st [c09_E 11 1 10; c09_E 12 2 11] None (mkR 11 1) (Some (mkBlock 12 7 11 0)).

Theorem c09_wst_head_needed :
  wf_db (db c09_s_hd) /\ ~ from_num_spec c09_s_hd 7.
Proof.
  split.
  - split; [apply wf_store_b_sound; vm_compute; reflexivity | intros r Hr; vm_compute in Hr; discriminate Hr].
  - unfold from_num_spec.
    destruct (blocks_from_num c09_s_hd 7) eqn:Hb; try (vm_compute in Hb; discriminate Hb).
    intros (hd & sg & pre & x & suf & (_ & Hls & Hcs & Hsg & Hn & _ & _) & _ & _).
    vm_compute in Hls. injection Hls as <-.
    vm_compute in Hcs. injection Hcs as <-.
    apply c09_split_In in Hsg. cbn in Hsg. destruct Hsg as [<-|[<-|[]]]; vm_compute in Hn; discriminate Hn.
Qed.
Print Assumptions c09_wst_head_needed.

(* extra_ok (c09_linkable, c09_fuel_sufficient): the number InitLIB registers under the EMPTY id; the walk of
   BlockInCurrentChain spins on id 0 (the Go loop would not terminate) *)
Definition c09_s_ex := c09_st [c09_E 11 3 0; c09_E 12 4 11] (Some (mkR 0 5)) (mkR 11 1) (Some (mkBlock 12 4 11 0)).

Theorem c09_extra_ok_needed :
  wf_store (store (db c09_s_ex)) /\
  block_in_chain (db c09_s_ex) (mkR 12 4) 1 = None /\
  ~ (linkable c09_s_ex (mkBlock 12 4 11 1) = Some true \/ linkable c09_s_ex (mkBlock 12 4 11 1) = Some false).
Proof.
  split; [apply wf_store_b_sound; vm_compute; reflexivity|].
  split; [vm_compute; reflexivity|].
  intros [H|H]; vm_compute in H; discriminate H.
Qed.
Print Assumptions c09_extra_ok_needed.

(* wfs_nodup (last clause of c09_with_forks): two entries under id 12 *)
Definition c09_s_dup := c09_st [c09_E 12 2 11; c09_E 11 1 10; c09_E 12 5 11] None (mkR 11 1) (Some (mkBlock 12 2 11 0)).

Theorem c09_wfs_nodup_needed :
  has_lib (db c09_s_dup) = true /\
  exists l, blocks_from_num_with_forks c09_s_dup 0 = Some l /\ ~ NoDup (map bid l).
Proof.
  split; [vm_compute; reflexivity|].
  eexists. split; [vm_compute; reflexivity|].
  intro H. cbn in H. inversion H as [|? ? _ H1]; subst. inversion H1 as [|? ? Hn _]; subst.
  apply Hn. left. reflexivity.
Qed.
Print Assumptions c09_wfs_nodup_needed.

(* fits (c09_wf_preserved): adding block 11 numbered 5 under its stored child 12 numbered 2 *)
Definition c09_d_fit := mkDB [c09_E 12 2 11] None (mkR 0 0).

Theorem c09_fits_needed :
  wf_store (store c09_d_fit) /\ ~ wf_store (store (fst (add_link c09_d_fit (mkBlock 11 5 10 0)))).
Proof.
  split; [apply wf_store_b_sound; vm_compute; reflexivity|].
  intros [_ _ Hp].
  specialize (Hp (c09_E 12 2 11) (mkEntry (mkBlock 11 5 10 0) false)).
  vm_compute in Hp.
  assert (H : (5 ?= 2) = Lt) by (apply Hp; [left; reflexivity | right; left; reflexivity | reflexivity]).
  discriminate H.
Qed.
Print Assumptions c09_fits_needed.

(* ------------------------------------------------------------------ c09_lowest: h_ready, has_lib *)

(* has_lib: a Forkable WITHOUT HoldBlocksUntilLIB (not the hub's configuration) sends blocks before any LIB is known;
   the chain's bottom parent id is empty = the id of the unset LIB, so the segment "reaches the LIB":
   LowestBlockNum reports 1, SourceFromBlockNum(1) refuses *)
Definition c09_n1 := mkBlock 11 1 0 0.
Definition c09_n2 := mkBlock 12 2 11 0.
Definition c09_cfg_nohold := mkCfg 5 false false 2 false (mkFilter true true true true) None.
Definition c09_s_nolib :=
  let '(s, _, _) := fk_step c09_cfg_nohold (fs_init LNone) c09_n1 in
  let '(s', _, _) := fk_step c09_cfg_nohold s c09_n2 in s'.
Definition c09_h_nolib := mkHub c09_s_nolib true.

Theorem c09_has_lib_needed :
  wf_state (h_f c09_h_nolib) /\ h_ready c09_h_nolib = true /\ has_lib (db (h_f c09_h_nolib)) = false /\
  last_sent (h_f c09_h_nolib) = Some c09_n2 /\
  (exists x0 sg, complete_segment (db (h_f c09_h_nolib)) (bref c09_n2) = Some (x0 :: sg, true) /\
                 hub_lowest c09_h_nolib = bnum (seg_blk x0)) /\
  blocks_from_num (h_f c09_h_nolib) (hub_lowest c09_h_nolib) = BErr.
Proof.
  split; [apply wf_state_b_sound; vm_compute; reflexivity|].
  repeat split; try (vm_compute; reflexivity).
  eexists. eexists. split; vm_compute; reflexivity.
Qed.
Print Assumptions c09_has_lib_needed.

(* h_ready: before readiness LowestBlockNum is 0 whatever the Forkable holds (and SourceFromBlockNum, which does not
   look at the flag, serves): files 11, 12, 13 then live 15 whose parent 14 is missing *)
Definition c09_r1 := mkBlock 11 1 10 0.
Definition c09_r2 := mkBlock 12 2 11 1.
Definition c09_r3 := mkBlock 13 3 12 1.
Definition c09_r5 := mkBlock 15 5 14 3.
Definition c09_h_nr := hub_run 1 5 hub_init [(c09_r5, PBlocks [c09_r1; c09_r2; c09_r3])].

Theorem c09_ready_needed :
  h_ready c09_h_nr = false /\ wf_state (h_f c09_h_nr) /\ has_lib (db (h_f c09_h_nr)) = true /\
  last_sent (h_f c09_h_nr) = Some c09_r3 /\
  (exists x0 sg, complete_segment (db (h_f c09_h_nr)) (bref c09_r3) = Some (x0 :: sg, true) /\
                 bnum (seg_blk x0) = 1 /\ hub_lowest c09_h_nr = 0) /\
  (exists evs, blocks_from_num (h_f c09_h_nr) 1 = BOk evs /\ map (fun e => bid (eblk e)) evs = [11; 12; 13]).
Proof.
  split; [vm_compute; reflexivity|].
  split; [apply wf_state_b_sound; vm_compute; reflexivity|].
  repeat split; try (vm_compute; reflexivity).
  - eexists. eexists. repeat split; vm_compute; reflexivity.
  - eexists. split; vm_compute; reflexivity.
Qed.
Print Assumptions c09_ready_needed.

(* ------------------------------------------------------------------ lib_ok_b (c09_chain_is_consumer_chain) *)

(* block 15 (number 5) declares LIB 9, above itself: BlockInCurrentChain gives the "hole" answer (15, 9), the LIB moves to
   it and PurgeBeforeLIB empties the store; the hub stays ready with head 15@5, lowest 0, nothing servable *)
Definition c09_a1 := mkBlock 11 1 10 0.
Definition c09_a2 := mkBlock 12 2 11 1.
Definition c09_a3 := mkBlock 13 3 12 1.
Definition c09_a4 := mkBlock 14 4 13 2.
Definition c09_a5 := mkBlock 15 5 14 9.
Definition c09_Ua := [c09_a1; c09_a2; c09_a3; c09_a4; c09_a5].
Definition c09_la := [(c09_a4, PBlocks [c09_a1; c09_a2; c09_a3]); (c09_a5, PNil)].
Definition c09_ha := hub_run 1 2 hub_init c09_la.

Theorem c09_lib_ok_needed :
  wf_b c09_Ua = true /\ lib_ok_b LNone c09_Ua = false /\
  (forall b p, In (b, p) c09_la -> In b c09_Ua /\ pass_in c09_Ua p) /\
  h_ready c09_ha = true /\
  store (db (h_f c09_ha)) = [] /\ hub_lowest c09_ha = 0 /\ blocks_from_num (h_f c09_ha) 0 = BErr /\
  blocks_from_num (h_f c09_ha) 5 = BErr /\
  (* the conclusion of C09_chain_is_consumer_chain fails: the head's segment is empty *)
  ~ (exists hist c hd lo xL hi,
       hub_fed c09_Ua 1 2 c09_ha hist /\
       cons_fold cons0 (all_events (fk_run (hub_config 1 2) (fs_init LNone) hist)) = Some c /\
       last_sent (h_f c09_ha) = Some hd /\ hd_error (cs_stack c) = Some hd /\
       complete_segment (db (h_f c09_ha)) (bref hd) = Some (lo ++ xL :: hi, true)).
Proof.
  split; [vm_compute; reflexivity|]. split; [vm_compute; reflexivity|].
  split.
  { intros b p H. cbn in H. destruct H as [H|[H|[]]]; inversion H; subst; split; cbn; try tauto.
    all: intros b' Hb'; cbn in Hb'; tauto. }
  repeat (split; [vm_compute; reflexivity|]).
  intros (hist & c & hd & lo & xL & hi & _ & _ & Hls & _ & Hcs).
  vm_compute in Hls. injection Hls as <-.
  vm_compute in Hcs. injection Hcs as Hcs. destruct lo; discriminate Hcs.
Qed.
Print Assumptions c09_lib_ok_needed.

(* ------------------------------------------------------------------ wf_b (c09_chain_is_consumer_chain) *)

(* the universe c09_Ue above (13 numbered like its parent 12) is in the class lib_ok_b; the LIB block is 13@2 and the
   retained block 12, below it on the segment, is NOT numbered below the LIB *)
Theorem c09_wf_b_needed :
  wf_b c09_Ue = false /\ lib_ok_b LNone c09_Ue = true /\ h_ready c09_he = true /\
  ~ (exists hd lo xL hi,
       last_sent (h_f c09_he) = Some hd /\
       complete_segment (db (h_f c09_he)) (bref hd) = Some (lo ++ xL :: hi, true) /\
       sid xL = ri (libref (db (h_f c09_he))) /\
       (forall x, In x lo -> snum x < rn (libref (db (h_f c09_he))))).
Proof.
  split; [vm_compute; reflexivity|]. split; [vm_compute; reflexivity|]. split; [vm_compute; reflexivity|].
  intros (hd & lo & xL & hi & Hls & Hcs & Hid & Hlo).
  vm_compute in Hls. injection Hls as <-.
  vm_compute in Hcs. injection Hcs as Hcs.
  destruct lo as [|l0 [|l1 [|l2 [|l3 [|l4 lo]]]]]; cbn in Hcs.
  - injection Hcs as <- _. vm_compute in Hid. discriminate Hid.
  - injection Hcs as _ <- _. vm_compute in Hid. discriminate Hid.
  - injection Hcs as _ <- _ _. specialize (Hlo _ (or_intror (or_introl eq_refl))). vm_compute in Hlo. discriminate Hlo.
  - injection Hcs as _ <- _ _. specialize (Hlo _ (or_intror (or_introl eq_refl))). vm_compute in Hlo. discriminate Hlo.
  - injection Hcs as _ <- _ _. specialize (Hlo _ (or_intror (or_introl eq_refl))). vm_compute in Hlo. discriminate Hlo.
  - injection Hcs as _ _ _ _ _ Hcs. destruct lo; discriminate Hcs.
Qed.
Print Assumptions c09_wf_b_needed.

(* ------------------------------------------------------------------ what the readiness clause does NOT say (inside the quantifier) *)

(* c09_ready_latch: ready is set when the live block links to the LIB height IT DECLARES.  Nothing relates the live
   block to the hub's head.  Linear chain 1..40, every block declares the LIB two below itself (wf_b, lib_ok_b);
   one-block files lag: pass 1..24 for live 31, pass 1..26 for live 32; live 33 links 33 <- 32 <- 31 through the two
   stored live blocks, so no third pass is made: the hub is READY with head 26, the live blocks 31.. are orphans above a
   hole 27..30, and since a ready hub never bootstraps again, live blocks 34..40 (even with complete files on offer)
   leave head, LIB and lowest unchanged. *)
Definition c09_k (i : N) : block := mkBlock (100 + i) i (100 + i - 1) (i - 2).
Definition c09_upto (n : nat) : list block := map (fun i => c09_k (N.of_nat i)) (seq 1 n).
Definition c09_Uk := c09_upto 40.
Definition c09_lk1 := [(c09_k 31, PBlocks (c09_upto 24)); (c09_k 32, PBlocks (c09_upto 26)); (c09_k 33, PBlocks (c09_upto 32))].
Definition c09_lk2 := c09_lk1 ++ map (fun i => (c09_k (N.of_nat i), PBlocks (c09_upto (i - 1)))) (seq 34 7).
Definition c09_hk1 := hub_run 1 5 hub_init c09_lk1.
Definition c09_hk2 := hub_run 1 5 hub_init c09_lk2.

Theorem c09_ready_head_disconnected :
  wf_b c09_Uk = true /\ lib_ok_b LNone c09_Uk = true /\
  h_ready (hub_run 1 5 hub_init (firstn 2 c09_lk1)) = false /\
  h_ready c09_hk1 = true /\
  hub_head c09_hk1 = Some (bref (c09_k 26), 24) /\ hub_lowest c09_hk1 = 19 /\
  linkable (h_f c09_hk1) (c09_k 33) = Some true /\
  (* the live blocks are stored but not on the served chain *)
  blocks_from_num (h_f c09_hk1) 31 = BErr /\
  option_map (map bid) (blocks_from_num_with_forks (h_f c09_hk1) 27) = Some [131; 132; 133] /\
  (* seven more live blocks, complete files on offer: nothing moves *)
  h_ready c09_hk2 = true /\ hub_head c09_hk2 = hub_head c09_hk1 /\ hub_lowest c09_hk2 = 19 /\
  libref (db (h_f c09_hk2)) = libref (db (h_f c09_hk1)) /\
  option_map (map bid) (blocks_from_num_with_forks (h_f c09_hk2) 27) = Some [131; 132; 133; 134; 135; 136; 137; 138; 139; 140].
Proof. vm_compute. repeat split. Qed.
Print Assumptions c09_ready_head_disconnected.
End C09.

Module C10.
(* U2 hypothesis audit of C10 (Spec/C10_Spec.v, Properties/C10.v): necessity witnesses.
   Every theorem exhibits a concrete input that violates ONE hypothesis of a C10 statement and on
   which the conclusion of that statement is false for the model (Model/Pipeline.v, FileSeq.v).
   All proofs by vm_compute; closed under the global context. *)
Import BV.Base.Prelude BV.Model.FileSeq BV.Model.Pipeline BV.Spec.C10_Spec.
Local Open Scope N_scope.

Definition c10_pre (b : blk) : N := 3 * b_id b + b_num b.
Definition c10_f := false.

(* "nobody can move": case analysis over the thread ids of a layout with at most two files of at
   most three blocks; every remaining case is closed by computation *)
Ltac c10_quiet :=
  let t := fresh "t" in let c := fresh "c" in
  intros [t c];
  destruct t as [|i|i|i k| |]; destruct c;
  try (vm_compute; reflexivity);
  try (destruct i as [|[|i]]; vm_compute; reflexivity);
  try (destruct i as [|[|i]]; [destruct k as [|[|[|k]]]|destruct k as [|[|[|k]]]|];
       vm_compute; reflexivity).

(* ---------------------------------------------------------------------------------------------
   H = [fixed C] (here: c_fix2, the code with repo_patches/C11_fix_read_error_misreported.diff)
   in C10_order_safety (and C11_prefix, same statement).
   Two bundles; the 2nd Read of bundle 0 fails; the unfixed reader closes `preprocessed` before it
   reports the error; run() drains bundle 0, moves on to bundle 1 whose first block names block 1
   as parent: it is DELIVERED right after block 1 although block 2 is missing: the deliveries
   [1; 3] are not a prefix of the reference sequence [1; 2].  Inside the quantifier (a read fault
   is C11's subject); corresponds to the KNOWN, FIXED finding "read error misreported"
   (known_findings.json, C11) — here in its silent-gap form. *)
Definition c10_b1 := mkBlk 1 1 0.
Definition c10_b2 := mkBlk 2 2 1.
Definition c10_b3 := mkBlk 3 5 1.
Definition c10_layA : layout := mkLayout [[c10_b1; c10_b2]; [c10_b3]] 1 5 0.
Definition c10_cfgA : cfg := mkCfg c10_layA 1 (FRead 0 1) false true false.
Definition c10_schedA : list (tid * bool) :=
  map (fun t => (t, c10_f))
  [TL; TL; TR 0; TR 0; TR 0; TR 0; TP 0 0; TM; TD 0; TD 0; TD 0;
   TM; TM; TD 0; TM; TL; TL; TR 1; TR 1; TR 1; TP 1 0; TM; TD 1; TD 1; TD 1; TM; TM].

Theorem c10_fixed_needed :
  exists pre C sched,
    c_fix1 C = true /\ c_fix2 C = false /\
    expected_blocks (c_lay C) = [c10_b1; c10_b2] /\
    s_calls (run pre C sched (init C)) = pairs pre [c10_b1; c10_b3] /\
    ~ prefix (s_calls (run pre C sched (init C))) (pairs pre (expected_blocks (c_lay C))).
Proof.
  exists c10_pre, c10_cfgA, c10_schedA.
  split; [reflexivity|]. split; [reflexivity|]. split; [vm_compute; reflexivity|].
  split; [vm_compute; reflexivity|].
  intros [r H]. vm_compute in H. discriminate H.
Qed.
Print Assumptions c10_fixed_needed.

(* ---------------------------------------------------------------------------------------------
   H = [c_fault C = FNone] in C10_order_complete: with a fault the run does not deliver the whole
   reference sequence.  One bundle [1;2], stop 3, OpenObject fails: quiescent, Run returned with
   EOpen, nothing delivered.  Outside C10's quantifier (faults are C11's subject). *)
Definition c10_layB : layout := mkLayout [[c10_b1; c10_b2]] 1 5 3.
Definition c10_cfgB (fl : fault) (ext : bool) : cfg := mkCfg c10_layB 1 fl ext true true.

Theorem c10_complete_nofault_needed :
  exists pre C sched, fixed C /\ c_fault C <> FNone /\ c_ext C = false /\
    let s := run pre C sched (init C) in
    quiescent pre C s /\ expected_outcome (c_lay C) = OStop /\
    s_calls s <> pairs pre (expected_blocks (c_lay C)) /\ s_err s = Some EOpen.
Proof.
  exists c10_pre, (c10_cfgB (FOpen 0) false), (rounds (c10_cfgB (FOpen 0) false) 10).
  split; [split; reflexivity|]. split; [discriminate|]. split; [reflexivity|].
  set (s := run _ _ _ _). vm_compute in s.
  split; [c10_quiet|]. split; [vm_compute; reflexivity|]. split; [vm_compute; discriminate|reflexivity].
Qed.
Print Assumptions c10_complete_nofault_needed.

(* H = [c_ext C = false] in C10_order_complete: an outside Shutdown(nil) before anything was
   delivered.  Outside the quantifier (no outside Shutdown in the property text). *)
Theorem c10_complete_noext_needed :
  exists pre C sched, fixed C /\ c_fault C = FNone /\ c_ext C = true /\
    let s := run pre C sched (init C) in
    quiescent pre C s /\ returned s = true /\ s_err s = Some ENil /\ s_calls s = [] /\
    expected_blocks (c_lay C) <> [].
Proof.
  exists c10_pre, (c10_cfgB FNone true), ((TX, c10_f) :: rounds (c10_cfgB FNone true) 10).
  split; [split; reflexivity|]. split; [reflexivity|]. split; [reflexivity|].
  set (s := run _ _ _ _). vm_compute in s.
  split; [c10_quiet|]. repeat split; vm_compute; try reflexivity; discriminate.
Qed.
Print Assumptions c10_complete_noext_needed.

(* ---------------------------------------------------------------------------------------------
   H = [quiescent pre C s] in C10_order_complete, i.e. FAIRNESS / "the preprocessor returns":
   a schedule that runs every thread except the preprocess goroutines.  After 10 such rounds the
   state is a fixpoint of a further such round: nothing was delivered, Run has not returned, no
   error is set — and this stays so for ever unless TP 0 0 (the PreprocessFunc call of block 1) is
   scheduled.  Inside the quantifier only for FINITE delays ("every assignment of delays"); a
   preprocessor that never returns is outside.  Real code: TestU2_C11_Env_PreprocessorNeverReturns
   (same picture: delivered [1] resp. nothing, Run blocked, no error; Shutdown / a fault still
   ends the run). *)
Definition c10_noTP :=
  filter (fun tc : tid * bool => match fst tc with TP _ _ => false | _ => true end).

Theorem c10_complete_fairness_needed :
  exists pre C sched, fixed C /\ c_fault C = FNone /\ c_ext C = false /\
    let s := run pre C sched (init C) in
    run pre C (c10_noTP (all_moves C)) s = s /\           (* stuck without the preprocessor *)
    ~ quiescent pre C s /\
    s_calls s = [] /\ returned s = false /\ s_err s = None /\
    expected_blocks (c_lay C) = [c10_b1; c10_b2].
Proof.
  exists c10_pre, (c10_cfgB FNone false), (c10_noTP (rounds (c10_cfgB FNone false) 10)).
  split; [split; reflexivity|]. split; [reflexivity|]. split; [reflexivity|].
  set (s := run _ _ _ _). vm_compute in s.
  split; [vm_compute; reflexivity|].
  split; [intro Q; specialize (Q (TP 0 0, false));
          apply (f_equal (fun st => f_cell (s_file st 0) 0)) in Q; vm_compute in Q; discriminate Q|].
  repeat split; vm_compute; reflexivity.
Qed.
Print Assumptions c10_complete_fairness_needed.

(* ---------------------------------------------------------------------------------------------
   H = [b_id (last d blk0) <> 0] in C10_continuity (it also implies [d <> []], which is therefore
   redundant): a stored block with the EMPTY id (0) switches the parent test off for its successor,
   exactly as `lastBlockID != ""` does.  d = [block 1 with id ""], b = block 2 naming 7 as parent:
   b is delivered, the run ends with stop-block-reached.  A block without id is malformed input:
   outside the quantifier as we read it.  Real code: TestU2_C10_EmptyIDDisablesContinuityCheck (same). *)
Definition c10_e1 := mkBlk 0 1 0.
Definition c10_e2 := mkBlk 3 2 7.
Definition c10_layC : layout := mkLayout [[c10_e1; c10_e2]] 1 5 3.
Definition c10_cfgC : cfg := mkCfg c10_layC 1 FNone false true true.

Theorem c10_cont_lastid_needed :
  exists pre C sched d b r, fixed C /\
    candidates (c_lay C) = d ++ b :: r /\ linked_from 0 d /\ d <> [] /\
    b_id (last d blk0) = 0 /\ b_par b <> b_id (last d blk0) /\
    let s := run pre C sched (init C) in
    ~ prefix (s_calls s) (pairs pre d) /\
    c_fault C = FNone /\ c_ext C = false /\ quiescent pre C s /\
    s_err s = Some EStop /\ s_calls s = pairs pre (d ++ [b]).
Proof.
  exists c10_pre, c10_cfgC, (rounds c10_cfgC 12), [c10_e1], c10_e2, [].
  split; [split; reflexivity|]. split; [vm_compute; reflexivity|].
  split; [simpl; auto|]. split; [discriminate|]. split; [reflexivity|]. split; [vm_compute; discriminate|].
  set (s := run _ _ _ _). vm_compute in s.
  split; [intros [x H]; vm_compute in H; discriminate H|].
  split; [reflexivity|]. split; [reflexivity|]. split; [c10_quiet|]. split; vm_compute; reflexivity.
Qed.
Print Assumptions c10_cont_lastid_needed.

(* H = [linked_from 0 d] in C10_continuity (second half): when d itself has a break the run stops
   earlier, after the linked prefix of d.  Structural (d is meant to be the linked prefix). *)
Definition c10_layD : layout := mkLayout [[mkBlk 1 1 0; mkBlk 2 2 9; mkBlk 3 3 8]] 1 5 3.
Definition c10_cfgD : cfg := mkCfg c10_layD 1 FNone false true true.

Theorem c10_cont_linked_needed :
  exists pre C sched d b r, fixed C /\
    candidates (c_lay C) = d ++ b :: r /\ ~ linked_from 0 d /\ d <> [] /\
    b_id (last d blk0) <> 0 /\ b_par b <> b_id (last d blk0) /\
    let s := run pre C sched (init C) in
    c_fault C = FNone /\ c_ext C = false /\ quiescent pre C s /\
    s_err s = Some ENonSeq /\ s_calls s <> pairs pre d.
Proof.
  exists c10_pre, c10_cfgD, (rounds c10_cfgD 12), [mkBlk 1 1 0; mkBlk 2 2 9], (mkBlk 3 3 8), [].
  split; [split; reflexivity|]. split; [vm_compute; reflexivity|].
  split; [simpl; intros [_ [[H|H] _]]; discriminate H|].
  split; [discriminate|]. split; [vm_compute; discriminate|]. split; [vm_compute; discriminate|].
  set (s := run _ _ _ _). vm_compute in s.
  split; [reflexivity|]. split; [reflexivity|]. split; [c10_quiet|].
  split; [reflexivity|vm_compute; discriminate].
Qed.
Print Assumptions c10_cont_linked_needed.
End C10.

Module C11.
(* U2 hypothesis audit of C11 (Spec/C11_Spec.v, Properties/C11.v): necessity witnesses.
   Every theorem exhibits a concrete input that violates ONE hypothesis of a C11 statement and on
   which the conclusion of that statement is false for the model (Model/Pipeline.v).
   All proofs by vm_compute; closed under the global context. *)
Import BV.Base.Prelude BV.Model.FileSeq BV.Model.Pipeline BV.Spec.C10_Spec BV.Spec.C11_Spec BV.Proofs.C11_Proofs.
Local Open Scope N_scope.

Definition c11_pre (b : blk) : N := 3 * b_id b + b_num b.
Definition c11_f := false.

Ltac c11_quiet :=
  let t := fresh "t" in let c := fresh "c" in
  intros [t c];
  destruct t as [|i|i|i k| |]; destruct c;
  try (vm_compute; reflexivity);
  try (destruct i as [|[|i]]; vm_compute; reflexivity);
  try (destruct i as [|[|i]]; [destruct k as [|[|[|k]]]|destruct k as [|[|[|k]]]|];
       vm_compute; reflexivity).

(* ---------------------------------------------------------------------------------------------
   H = [fixed C].
   c_fix1 (run() watches Terminating() while it receives from the per-file channel) is needed by
   C11_returns, c_fix2 (no close(preprocessed) on the error path) by C11_error: these are the two
   refutations that already exist (known, FIXED findings of known_findings.json, property C11). *)
Theorem c11_fix1_needed_returns : C11_returns_unfixed_counterexample.
Proof. exact c11_returns_unfixed_proof. Qed.
Print Assumptions c11_fix1_needed_returns.

Theorem c11_fix2_needed_error : C11_error_unfixed_counterexample.
Proof. exact c11_error_unfixed_proof. Qed.
Print Assumptions c11_fix2_needed_error.

(* c_fix2 is ALSO needed by C11_prefix ("delivered in order without gaps") and by C11_bound
   ("nothing behind the fault site is delivered"): two bundles, the 2nd Read of bundle 0 fails,
   the unfixed reader closes `preprocessed` before reporting; run() moves on to bundle 1, whose
   first block names block 1 as parent: deliveries [1; 3], block 2 is silently missing.
   Same known finding, in its silent-gap form (no error at all at that moment). *)
Definition c11_b1 := mkBlk 1 1 0.
Definition c11_b2 := mkBlk 2 2 1.
Definition c11_b3 := mkBlk 3 5 1.
Definition c11_layA : layout := mkLayout [[c11_b1; c11_b2]; [c11_b3]] 1 5 0.
Definition c11_cfgA : cfg := mkCfg c11_layA 1 (FRead 0 1) false true false.
Definition c11_schedA : list (tid * bool) :=
  map (fun t => (t, c11_f))
  [TL; TL; TR 0; TR 0; TR 0; TR 0; TP 0 0; TM; TD 0; TD 0; TD 0;
   TM; TM; TD 0; TM; TL; TL; TR 1; TR 1; TR 1; TP 1 0; TM; TD 1; TD 1; TD 1; TM; TM].

Theorem c11_fix2_needed_prefix_bound :
  exists pre C sched,
    c_fix1 C = true /\ c_fix2 C = false /\
    let s := run pre C sched (init C) in
    s_calls s = pairs pre [c11_b1; c11_b3] /\ s_err s = None /\
    ~ prefix (s_calls s) (pairs pre (expected_blocks (c_lay C))) /\
    site_limit_blocks C = Some [c11_b1] /\
    ~ prefix (s_calls s) (pairs pre [c11_b1]).
Proof.
  exists c11_pre, c11_cfgA, c11_schedA.
  split; [reflexivity|]. split; [reflexivity|].
  split; [vm_compute; reflexivity|]. split; [vm_compute; reflexivity|].
  split; [intros [r H]; vm_compute in H; discriminate H|].
  split; [vm_compute; reflexivity|].
  intros [r H]; vm_compute in H; discriminate H.
Qed.
Print Assumptions c11_fix2_needed_prefix_bound.

(* ---------------------------------------------------------------------------------------------
   H = [quiescent pre C s] in C11_returns / C11_fires, i.e. weak FAIRNESS — more precisely only
   the fairness of run()'s own goroutine: OpenObject of the only bundle has failed, Err() is set,
   and as long as TM (run()) is not scheduled Run does not return, whatever the others do (the
   state is a fixpoint of a round without TM); two steps of TM suffice.  "Go schedules every
   runnable goroutine": outside the quantifier.  The handler-side reading "the handler returns"
   is probed on the real code: TestU2_C11_Env_HandlerNeverReturns (Err() set, Run blocked until the
   handler returns, then no further call). *)
Definition c11_layB : layout := mkLayout [[c11_b1; c11_b2]] 1 5 3.
Definition c11_cfgB (fl : fault) (stop : N) : cfg :=
  mkCfg (mkLayout [[c11_b1; c11_b2]] 1 5 stop) 1 fl false true true.
Definition c11_noTM :=
  filter (fun tc : tid * bool => match fst tc with TM => false | _ => true end).

Theorem c11_returns_fairness_needed :
  exists pre C sched, fixed C /\ site_reached C = true /\
    let s := run pre C sched (init C) in
    s_err s = Some EOpen /\ returned s = false /\ ~ quiescent pre C s /\
    run pre C (c11_noTM (all_moves C)) s = s /\
    returned (run pre C [(TM, c11_f); (TM, c11_f)] s) = true.
Proof.
  exists c11_pre, (c11_cfgB (FOpen 0) 3),
    ([(TL, c11_f); (TL, c11_f); (TM, c11_f); (TR 0, c11_f)] ++
     c11_noTM (rounds (c11_cfgB (FOpen 0) 3) 4)).
  split; [split; reflexivity|]. split; [reflexivity|].
  set (s := run _ _ _ _). vm_compute in s.
  split; [reflexivity|]. split; [reflexivity|].
  split; [intro Q; specialize (Q (TM, false));
          apply (f_equal (fun st => match s_m st with MFile _ => true | _ => false end)) in Q;
          vm_compute in Q; discriminate Q|].
  split; vm_compute; reflexivity.
Qed.
Print Assumptions c11_returns_fairness_needed.

(* ---------------------------------------------------------------------------------------------
   H = [site_reached C = true] in C11_fires: a fault site that no run of the layout ever reaches
   (OpenObject of a bundle that does not exist; the preprocessor failing on a block below the
   start block, which is never submitted).  Without a stop block the source then legitimately
   keeps polling: quiescent, Run has not returned, no error.  Outside the quantifier ("every fault
   site OF A RUN"). *)
Theorem c11_fires_site_needed :
  exists pre C1 C2, fixed C1 /\ fixed C2 /\
    c_fault C1 = FOpen 3 /\ c_fault C2 = FPre 0 0 /\
    site_reached C1 = false /\ site_reached C2 = false /\
    let s1 := run pre C1 (rounds C1 12) (init C1) in
    let s2 := run pre C2 (rounds C2 12) (init C2) in
    quiescent pre C1 s1 /\ returned s1 = false /\ s_err s1 = None /\
    quiescent pre C2 s2 /\ returned s2 = false /\ s_err s2 = None.
Proof.
  exists c11_pre, (c11_cfgB (FOpen 3) 0),
    (mkCfg (mkLayout [[c11_b1; c11_b2]] 2 5 0) 1 (FPre 0 0) false true true).
  split; [split; reflexivity|]. split; [split; reflexivity|].
  split; [reflexivity|]. split; [reflexivity|].
  split; [vm_compute; reflexivity|]. split; [vm_compute; reflexivity|].
  set (s1 := run _ _ _ _). vm_compute in s1.
  set (s2 := run _ _ _ _). vm_compute in s2.
  split; [c11_quiet|]. split; [reflexivity|]. split; [reflexivity|].
  split; [c11_quiet|]. split; reflexivity.
Qed.
Print Assumptions c11_fires_site_needed.

(* ---------------------------------------------------------------------------------------------
   H = [returned s = true] in C11_error: before Run returns Err() need not be set (trivially: the
   initial state), and in C11_silence: before Run returns the handler is of course still called.
   Structural; one witness for the record. *)
Theorem c11_error_returned_needed :
  exists pre C, fixed C /\
    (forall e, s_err (run pre C [] (init C)) <> Some e) /\
    exists sched, s_calls (run pre C sched (init C)) <> s_calls (run pre C [] (init C)).
Proof.
  exists c11_pre, (c11_cfgB FNone 3).
  split; [split; reflexivity|]. split; [intros e H; vm_compute in H; discriminate H|].
  exists (rounds (c11_cfgB FNone 3) 12). vm_compute. discriminate.
Qed.
Print Assumptions c11_error_returned_needed.
End C11.

Module C12.
(* U2 hypothesis audit of C12 (Shutdown at any instant stops every source; multiplexed handlers never
   concurrent; eternal source restarts from the last accepted block).

   Hypotheses of the C12 property theorems (Spec/C12_Spec.v) and their necessity FOR THE MODEL
   (Model/Lifecycle.v).  Every theorem below is a closed witness: a concrete reachable state / schedule
   that violates the hypothesis and on which the conclusion of the theorem fails.

     c12_fairness_needed                  weak fairness (fair_rounds) of c12_returns, liveness clause
     c12_handler_returns_needed           "handler calls return" (= the thread inside the handler is scheduled)
     c12_mx_fixed_needed                  `fixed = true` (repo_patches/C12_fix_mux_no_call_after_shutdown.diff) of the multiplexed
                                          clauses of c12_no_call_after: re-export of c12_mux_unfixed_refuted (defect D1 of this
                                          audit, now repaired; before the repair the theorem carried the hypothesis
                                          `mx_all_returned`, which hid it)
     c12_mx_late_call_log                 the log of the late call on the unrepaired wrapper, and the same schedule on the
                                          repaired one (the waiting source gives up)
     c12_mx_started_needed                `Mx.started i = true` in the 2nd clause of c12_fail_stops_all
     c12_fixed_needed_eternal / _joining  `fixed = true` (the fix: patches) of c12_returns: re-export of the
                                          refutation theorems of Properties/C12.v (known findings, fixed)        *)
Import BV.Base.Prelude BV.Model.Lifecycle BV.Spec.C12_Spec BV.Properties.C12.
(* ------------------------------------------------------------------------------------------------
   1. weak fairness.  Eternal source, Shutdown complete (Terminated) while Run's thread is at its
      loop-top check.  Run's thread is enabled in every state of the run, but the schedule never gives
      it a turn: Run never returns, for schedules of every length.  So the liveness clause of
      `Returns` is false when `fair_rounds` is dropped. *)
Definition c12_s_unfair : Et.state := run (Et.step true) [Et.TX; Et.TX; Et.TX; Et.TX] (Et.init []).

Lemma c12_unfair_stutter : forall n, run (Et.step true) (repeat Et.TX n) c12_s_unfair = c12_s_unfair.
Proof. induction n as [|n IH]; [reflexivity|]. simpl repeat. unfold run in *. simpl fold_left.
  change (Et.step true c12_s_unfair Et.TX) with c12_s_unfair. exact IH. Qed.

Theorem c12_fairness_needed :
  et_reach c12_s_unfair /\ Et.terminating c12_s_unfair = true /\
  forall n, let s' := run (Et.step true) (repeat Et.TX n) c12_s_unfair in
            Et.done s' = false /\ Et.step true s' Et.TRun <> s'.
Proof.
  split; [exists [], [Et.TX; Et.TX; Et.TX; Et.TX]; reflexivity|].
  split; [vm_compute; reflexivity|].
  intros n s'. unfold s'. rewrite c12_unfair_stutter. split; [vm_compute; reflexivity|].
  vm_compute. discriminate.
Qed.
Print Assumptions c12_fairness_needed.

(* ------------------------------------------------------------------------------------------------
   2. "handler calls return".  In the model a handler call is an always-enabled step of the thread that
      makes it; a handler that never returns is that thread never being scheduled again.  Eternal source,
      Shutdown complete while the inner source is inside its 1st handler call: Terminated is reached, the
      inner source is shut down, but Run does not return as long as the handler does not. *)
Definition c12_s_inh : Et.state :=
  run (Et.step true) ([Et.TRun; Et.TRun; Et.TRun; Et.TRun] ++ [Et.TX; Et.TX; Et.TX; Et.TX])
      (Et.init [[IBlock 1 true; IBlock 2 true]]).

Lemma c12_inh_stutter : forall n, run (Et.step true) (repeat Et.TX n) c12_s_inh = c12_s_inh.
Proof. induction n as [|n IH]; [reflexivity|]. simpl repeat. unfold run in *. simpl fold_left.
  change (Et.step true c12_s_inh Et.TX) with c12_s_inh. exact IH. Qed.

Theorem c12_handler_returns_needed :
  et_reach c12_s_inh /\ Et.pcr c12_s_inh = Et.PInH 1 true /\
  Et.terminated c12_s_inh = true /\ Et.src_term c12_s_inh = true /\
  (forall n, Et.returned (run (Et.step true) (repeat Et.TX n) c12_s_inh) = false) /\
  (* as soon as the handler returns, Run returns, and no further handler call is made *)
  (let s' := run (Et.step true) [Et.TRun; Et.TRun; Et.TRun; Et.TRun; Et.TRun] c12_s_inh in
   Et.done s' = true /\ Et.hbegun s' = Et.hbegun c12_s_inh).
Proof.
  split; [exists [[IBlock 1 true; IBlock 2 true]], ([Et.TRun; Et.TRun; Et.TRun; Et.TRun] ++ [Et.TX; Et.TX; Et.TX; Et.TX]); reflexivity|].
  split; [vm_compute; reflexivity|]. split; [vm_compute; reflexivity|]. split; [vm_compute; reflexivity|].
  split.
  - intro n. rewrite c12_inh_stutter. vm_compute. reflexivity.
  - cbv zeta. split; vm_compute; reflexivity.
Qed.
Print Assumptions c12_handler_returns_needed.

(* ------------------------------------------------------------------------------------------------
   3. `fixed = true` of the multiplexed clauses of c12_no_call_after (defect D1, repaired by
      repo_patches/C12_fix_mux_no_call_after_shutdown.diff).  Two inner sources; source 0 is inside the handler,
      source 1 waits for handlerLock inside the wrapper; a complete external Shutdown (or: the handler call of
      source 0 FAILS and its goroutine shuts the source down); Run returns.  On the wrapper before the repair
      (`Mx.step false`) the state satisfies `Mx.returned /\ Mx.terminated`, both inner sources are shut down, and
      then a handler call BEGINS (source 1, block 2).  Before the repair c12_no_call_after avoided this by the
      hypothesis `mx_all_returned` ("relative to the inner sources having returned"); it now holds without it. *)
Theorem c12_mx_fixed_needed : C12_mux_unfixed_late_call.
Proof. exact c12_mux_unfixed_refuted. Qed.
Print Assumptions c12_mx_fixed_needed.

Definition c12_mx_sched1 : list Mx.tid :=
  repeat Mx.TRun 8 ++ [Mx.TIn 0; Mx.TIn 0; Mx.TIn 0; Mx.TIn 1] ++ repeat Mx.TX 4 ++ [Mx.TRun; Mx.TRun].
Definition c12_mx_s1 (fx : bool) : Mx.state := run (Mx.step fx) c12_mx_sched1 (Mx.init 2 [[IBlock 1 true]; [IBlock 2 true]]).

Theorem c12_mx_late_call_log :
  (* unrepaired wrapper *)
  (mx_reach false (c12_mx_s1 false) /\
   Mx.returned (c12_mx_s1 false) = true /\ Mx.terminated (c12_mx_s1 false) = true /\
   map Mx.i_term (Mx.inners (c12_mx_s1 false)) = [true; true] /\
   hd ERet (Mx.log (c12_mx_s1 false)) = ERet /\
   let s2 := run (Mx.step false) [Mx.TIn 0; Mx.TIn 1; Mx.TIn 1] (c12_mx_s1 false) in
   Mx.hbegun s2 = S (Mx.hbegun (c12_mx_s1 false)) /\
   Mx.log s2 = EHBegin 1 2 :: EPoint 25 :: EPoint 26 :: EHEnd 0 1 true :: Mx.log (c12_mx_s1 false)) /\
  (* repaired wrapper, same schedule: no call begins, the waiting source returns an error and shuts itself down *)
  (Mx.log (c12_mx_s1 true) = Mx.log (c12_mx_s1 false) /\
   let s2 := run (Mx.step true) [Mx.TIn 0; Mx.TIn 1; Mx.TIn 1; Mx.TIn 1; Mx.TIn 1] (c12_mx_s1 true) in
   Mx.hbegun s2 = Mx.hbegun (c12_mx_s1 true) /\
   Mx.log s2 = EPoint 25 :: EPoint 26 :: EHEnd 0 1 true :: Mx.log (c12_mx_s1 true)).
Proof.
  split.
  - split; [exists 2, [[IBlock 1 true]; [IBlock 2 true]], c12_mx_sched1; reflexivity|].
    vm_compute. repeat split; reflexivity.
  - vm_compute. repeat split; reflexivity.
Qed.
Print Assumptions c12_mx_late_call_log.

(* ------------------------------------------------------------------------------------------------
   4. `Mx.started i = true` (2nd clause of c12_fail_stops_all).  A complete Shutdown between the factory
      call and LockedInit of connectSources: LockedInit refuses, the source the factory just made is
      neither run NOR shut down (EternalSource / JoiningSource shut such a source down since their fix). *)
Definition c12_mx_sched3 : list Mx.tid :=
  [Mx.TRun; Mx.TRun; Mx.TRun; Mx.TX; Mx.TX; Mx.TX; Mx.TRun; Mx.TRun; Mx.TX; Mx.TX; Mx.TRun; Mx.TRun].
Definition c12_mx_s5 : Mx.state := run (Mx.step true) c12_mx_sched3 (Mx.init 1 [[IBlock 1 true]]).

Theorem c12_mx_started_needed :
  mx_reach true c12_mx_s5 /\ Mx.done c12_mx_s5 = true /\
  exists i, nth_error (Mx.inners c12_mx_s5) 0 = Some i /\ Mx.started i = false /\ Mx.i_term i = false /\
  rev (Mx.log c12_mx_s5) = [EPoint 20; EPoint 22; EFactory 0 0; EPoint 23; EPoint 24; EPoint 21; ERet].
Proof.
  split; [exists 1, [[IBlock 1 true]], c12_mx_sched3; reflexivity|].
  split; [vm_compute; reflexivity|].
  exists (Mx.mki 0 false Mx.INew [IBlock 1 true]).
  split; [vm_compute; reflexivity|]. split; [vm_compute; reflexivity|]. split; vm_compute; reflexivity.
Qed.
Print Assumptions c12_mx_started_needed.

(* ------------------------------------------------------------------------------------------------
   5. `fixed = true` of C12_returns_eternal / C12_returns_joining: the two known (fixed) findings. *)
Theorem c12_fixed_needed_eternal : C12_eternal_unfixed_hangs.
Proof. exact c12_eternal_unfixed_refuted. Qed.
Print Assumptions c12_fixed_needed_eternal.

Theorem c12_fixed_needed_joining : C12_joining_unfixed_hangs.
Proof. exact c12_joining_unfixed_refuted. Qed.
Print Assumptions c12_fixed_needed_joining.
End C12.

Module C15.
(* U2 hypothesis audit of C15: necessity witnesses.  Every theorem exhibits a concrete input that
   violates exactly one hypothesis H of a property theorem of Properties/C15.v, keeps the other
   hypotheses, and for which the conclusion of that theorem fails (evaluated on the executable model
   Model/BlockIndex.v). *)
Import Sorted.
Import BV.Base.Prelude BV.Model.BlockIndex BV.Spec.C15_Spec BV.Proofs.C15_Proofs.
Local Open Scope N_scope.

Definition c15_ka : str := [97].
Definition c15_ma : str -> bool := key_matches [FExact c15_ka].
Definition c15_enc (kv : kvmap) : kvmap := kv.
Definition c15_dec (kv : kvmap) : option kvmap := Some kv.

Lemma c15_codec_id : codec_ok kvmap c15_enc c15_dec.
Proof. exact codec_id_ok. Qed.

Lemma c15_fed_intro (fd : feed) k n keys : In (keys, n) fd -> In k keys -> fed fd k n.
Proof. intros H1 H2. exists keys. split; assumption. Qed.

(* ------------------------------------------------------------------------------------------ *)
(* c15_indexed_provider, hypothesis feed_ascending: the feed 0, 10, 5, 20 (index size 10).  Block 5
   lands in the file [10,20); the provider asked for [0,10) does not return it. *)
Definition c15_fd_unordered : feed := [([c15_ka], 0); ([c15_ka], 10); ([c15_ka], 5); ([c15_ka], 20)].

Theorem c15_feed_ascending_needed :
  exists ix0 ix' p' r,
    codec_ok kvmap c15_enc c15_dec /\
    ~ feed_ascending c15_fd_unordered /\
    (forall d n, @None N = Some d -> In n (map snd c15_fd_unordered) -> d <= n) /\
    new_indexer [] 10 None = Ok ix0 /\
    indexer_run c15_enc 0 ix0 c15_fd_unordered = Ok ix' /\
    blocks_in_range c15_dec 0 (ix_store ix') [10] c15_ma prov0 0 10 = Ok (p', Some r) /\
    accepted 0 10 None c15_fd_unordered = c15_fd_unordered /\
    (* the conclusion of C15_indexed_provider fails: 5 is in range, fed with a matching key, not returned *)
    ~ (forall n, In n r <->
                 (N.max 0 0 <= n < 0 + 10 /\
                  exists k, c15_ma k = true /\ fed (accepted 0 10 None c15_fd_unordered) k n)).
Proof.
  eexists. eexists. eexists. eexists.
  split; [exact c15_codec_id|].
  split.
  { unfold feed_ascending, asc. cbn. intro H.
    inversion H as [|? ? H1 _]; subst. inversion H1 as [|? ? _ H2]; subst.
    inversion H2 as [|? ? Hlt _]; subst. lia. }
  split; [intros d n Hd; discriminate|].
  split; [reflexivity|].
  split; [vm_compute; reflexivity|].
  split; [vm_compute; reflexivity|].
  split; [reflexivity|].
  intro H. specialize (H 5). destruct H as [_ H].
  assert (Hin : In 5 [0]).
  { apply H. split; [lia|]. exists c15_ka. split; [reflexivity|].
    apply c15_fed_intro with (keys := [c15_ka]); cbn; auto. }
  cbn in Hin. destruct Hin as [Hin|[]]. lia.
Qed.
Print Assumptions c15_feed_ascending_needed.

(* ------------------------------------------------------------------------------------------ *)
(* c15_indexer, hypothesis "a defined start block is not above the blocks fed": defined start 10,
   feed 5, 10, 12, 20.  Block 5 is stored in the file [10,20), which is therefore not exact; no file
   [0,10) is written. *)
Definition c15_fd_below_start : feed := [([c15_ka], 5); ([c15_ka], 10); ([c15_ka], 12); ([c15_ka], 20)].

Theorem c15_defined_start_le_needed :
  exists ix0 ix' f,
    codec_ok kvmap c15_enc c15_dec /\
    feed_ascending c15_fd_below_start /\
    ~ (forall d n, Some 10 = Some d -> In n (map snd c15_fd_below_start) -> d <= n) /\
    new_indexer [] 10 (Some 10) = Ok ix0 /\
    indexer_run c15_enc 0 ix0 c15_fd_below_start = Ok ix' /\
    ix_store ix' = [f] /\
    ~ file_exact kvmap c15_dec (accepted 0 10 (Some 10) c15_fd_below_start) f.
Proof.
  eexists. eexists. eexists.
  split; [exact c15_codec_id|].
  split.
  { unfold feed_ascending, asc. cbn.
    repeat (constructor; [| repeat (constructor; try lia)]). constructor. }
  split.
  { intro H. specialize (H 10 5 eq_refl). cbn in H. assert (10 <= 5) by (apply H; auto). lia. }
  split; [reflexivity|].
  split; [vm_compute; reflexivity|].
  split; [reflexivity|].
  intros [kv [Hdec [_ [_ Hiff]]]]. cbn in Hdec. injection Hdec as <-.
  destruct (Hiff c15_ka 5) as [H _].
  assert (Hr : fed (accepted 0 10 (Some 10) c15_fd_below_start) c15_ka 5 /\ 10 <= 5 < 10 + 10).
  { apply H. exists [5; 10; 12]. split; [reflexivity | cbn; auto]. }
  lia.
Qed.
Print Assumptions c15_defined_start_le_needed.

(* ------------------------------------------------------------------------------------------ *)
(* c15_indexer, hypothesis codec_ok (Section variables enc/dec): a serialisation that loses the
   content. *)
Definition c15_enc_lossy (kv : kvmap) : kvmap := [].
Definition c15_fd_two : feed := [([c15_ka], 0); ([], 10)].

Theorem c15_codec_ok_needed :
  exists ix0 ix' f,
    ~ codec_ok kvmap c15_enc_lossy c15_dec /\
    feed_ascending c15_fd_two /\
    new_indexer [] 10 None = Ok ix0 /\
    indexer_run c15_enc_lossy 0 ix0 c15_fd_two = Ok ix' /\
    ix_store ix' = [f] /\
    ~ file_exact kvmap c15_dec (accepted 0 10 None c15_fd_two) f.
Proof.
  eexists. eexists. eexists.
  split.
  { intro H. destruct (H [(c15_ka, [0])]) as [kv' [Hd [_ Hg]]].
    - cbn. constructor; [intros []| constructor].
    - cbn in Hd. injection Hd as <-. specialize (Hg c15_ka). cbn in Hg. discriminate. }
  split.
  { unfold feed_ascending, asc. cbn. repeat (constructor; try lia). }
  split; [reflexivity|].
  split; [vm_compute; reflexivity|].
  split; [reflexivity|].
  intros [kv [Hdec [_ [_ Hiff]]]]. cbn in Hdec. injection Hdec as <-.
  destruct (Hiff c15_ka 0) as [_ H].
  destruct H as [s [Hs _]].
  { split; [|cbn; lia]. apply c15_fed_intro with (keys := [c15_ka]); cbn; auto. }
  cbn in Hs. discriminate.
Qed.
Print Assumptions c15_codec_ok_needed.

(* ------------------------------------------------------------------------------------------ *)
(* c15_provider, hypothesis store_exact: a store written by two indexers.  The first (size 10) was fed
   the whole chain; the second (size 20, defined start block 0) was fed from block 7 on, so its file
   [0,20) lacks blocks 0 and 3.  With the possible sizes [20; 10] the provider answers from it. *)
Definition c15_chain2 : feed :=
  [([c15_ka], 0); ([c15_ka], 3); ([c15_ka], 7); ([c15_ka], 10); ([c15_ka], 15); ([c15_ka], 20);
   ([c15_ka], 25); ([c15_ka], 30); ([c15_ka], 40)].
Definition c15_store2 : store kvmap :=
  [ mkIdx 20 20 [(c15_ka, [20; 25; 30])]; mkIdx 0 20 [(c15_ka, [7; 10; 15])];
    mkIdx 30 10 [(c15_ka, [30])]; mkIdx 20 10 [(c15_ka, [20; 25])];
    mkIdx 10 10 [(c15_ka, [10; 15])]; mkIdx 0 10 [(c15_ka, [0; 3; 7])] ].

Definition c15_storeof (r : res (indexer kvmap)) : store kvmap :=
  match r with Ok ix => ix_store ix | Panic => [] end.

Theorem c15_store_exact_needed :
  (* the store is what the two indexers write *)
  (exists ixa, new_indexer [] 10 None = Ok ixa /\
     exists ixb, new_indexer (c15_storeof (indexer_run c15_enc 0 ixa c15_chain2)) 20 (Some 0) = Ok ixb /\
       c15_storeof (indexer_run c15_enc 0 ixb (skipn 2 c15_chain2)) = c15_store2) /\
  ~ store_exact kvmap c15_dec c15_chain2 c15_store2 /\
  prov_inv kvmap c15_dec c15_store2 c15_ma prov0 /\
  exists p', blocks_in_range c15_dec 0 c15_store2 [20; 10] c15_ma prov0 0 5 = Ok (p', Some []) /\
  (* the conclusion of C15_provider fails: block 0 was fed with a matching key *)
  ~ (forall n, In n (@nil N) <->
               (N.max 0 0 <= n < 0 + 5 /\ exists k, c15_ma k = true /\ fed c15_chain2 k n)).
Proof.
  split.
  { eexists. split; [reflexivity|]. eexists. split; [vm_compute; reflexivity|]. vm_compute. reflexivity. }
  split.
  { intro H. specialize (H (mkIdx 0 20 [(c15_ka, [7; 10; 15])])).
    destruct H as [kv [Hdec [_ [_ Hiff]]]]; [cbn; auto|].
    cbn in Hdec. injection Hdec as <-.
    destruct (Hiff c15_ka 0) as [_ H]. destruct H as [s [Hs Hin]].
    { split; [|cbn; lia]. apply c15_fed_intro with (keys := [c15_ka]); cbn; auto. }
    cbn in Hs. injection Hs as <-. cbn in Hin. intuition lia. }
  split; [left; split; reflexivity|].
  eexists. split; [vm_compute; reflexivity|].
  intro H. destruct (H 0) as [_ H0]. apply H0. split; [lia|].
  exists c15_ka. split; [reflexivity|]. apply c15_fed_intro with (keys := [c15_ka]); cbn; auto.
Qed.
Print Assumptions c15_store_exact_needed.

(* ------------------------------------------------------------------------------------------ *)
(* c15_provider, hypothesis prov_inv: a cache that does not come from the store. *)
Theorem c15_prov_inv_needed :
  let p := mkProv 0 10 [3] in
  store_exact kvmap c15_dec [] [] /\
  ~ prov_inv kvmap c15_dec [] c15_ma p /\
  blocks_in_range c15_dec 0 [] [10] c15_ma p 0 5 = Ok (p, Some [3]) /\
  ~ (forall n, In n [3] <-> (N.max 0 0 <= n < 0 + 5 /\ exists k, c15_ma k = true /\ fed [] k n)).
Proof.
  cbn zeta. split; [intros f []|].
  split.
  { intros [[_ H]|[f [kv [[] _]]]]. cbn in H. discriminate. }
  split; [vm_compute; reflexivity|].
  intro H. destruct (H 3) as [H3 _]. destruct H3 as [_ [k [_ [keys [[] _]]]]]. cbn. auto.
Qed.
Print Assumptions c15_prov_inv_needed.

(* ------------------------------------------------------------------------------------------ *)
(* The file source.  Chains are lists of numbers cut into bundle files of size 5. *)
Definition c15_blocks_of (chain : list N) (b : N) : list N :=
  filter (fun n => (b <=? n) && (n <? b + 5)) chain.
Definition c15_exists_of (chain : list N) (b : N) : bool :=
  match c15_blocks_of chain b with [] => false | _ => true end.
Definition c15_inb (M : list N) (base : N) : list N :=
  filter (fun n => (base <=? n) && (n <? base + 5)) M.
(* a provider that covers the bundles below lim and answers with the elements of M *)
Definition c15_q (M : list N) (lim : N) (ps : unit) (base : N) : unit * option (list N) :=
  (tt, if base <? lim then Some (c15_inb M base) else None).

Lemma c15_asc_filter (f : N -> bool) l : asc l -> asc (filter f l).
Proof.
  unfold asc. induction 1 as [|a l Hs IH Hf]; cbn; [constructor|].
  destruct (f a); [|exact IH]. constructor; [exact IH|].
  rewrite Forall_forall in *. intros x Hx. apply filter_In in Hx as [Hx _]. auto.
Qed.

Lemma c15_q_provider_ok M lim : asc M ->
  provider_ok unit (c15_q M lim) 5 (fun _ => True) (fun n => In n M).
Proof.
  intros HM ps base _ _. split; [exact I|]. unfold c15_q. cbn [snd].
  destruct (base <? lim); [|exact I]. split; [apply c15_asc_filter; exact HM|].
  intro n. unfold c15_inb. rewrite filter_In, andb_true_iff, N.leb_le, N.ltb_lt. tauto.
Qed.

Lemma c15_chain_ok chain : asc chain -> chain_ok 5 (c15_blocks_of chain).
Proof.
  intros Hc b _. split; [apply c15_asc_filter; exact Hc|].
  intros n Hn. apply filter_In in Hn as [_ Hn]. rewrite andb_true_iff, N.leb_le, N.ltb_lt in Hn. exact Hn.
Qed.

Ltac c15_asc := unfold asc; repeat (constructor; try lia).

(* hypothesis "matches are numbers of existing blocks" (on_chain m in C15_stream_complete): the index
   holds the number 9, the chain skips 9, the next existing block 10 lies in the next bundle file.
   Neither 9 nor 10 is delivered (PassesFilter works per bundle file), whereas with the skipped
   number 7 the next existing block 8 of the same bundle is delivered. *)
Definition c15_chain_skip9 : list N := [0; 1; 2; 3; 4; 5; 6; 7; 8; 10; 11; 12; 13; 14; 15; 16].
Definition c15_chain_skip7 : list N := [0; 1; 2; 3; 4; 5; 6; 8; 9; 10; 11; 12; 13; 14; 15; 16].

Theorem c15_match_on_chain_needed :
  5 <> 0 /\
  provider_ok unit (c15_q [9] 100) 5 (fun _ => True) (fun n => In n [9]) /\
  chain_ok 5 (c15_blocks_of c15_chain_skip9) /\
  file_source_run unit (c15_q [9] 100) 0 16 5 (fun _ => false)
    (c15_exists_of c15_chain_skip9) (c15_blocks_of c15_chain_skip9) 20 20 (Some tt) [] = ([0; 16], EStop) /\
  (* 9 is a match between start and stop that the run got to, it is not on the chain, the next
     existing block is 10, and 10 is not delivered *)
  In 9 [9] /\ 0 <= 9 <= 16 /\ reached 16 5 EStop 9 /\
  ~ on_chain 5 (c15_blocks_of c15_chain_skip9) 9 /\
  on_chain 5 (c15_blocks_of c15_chain_skip9) 10 /\ ~ In 10 [0; 16] /\
  (* the same with the next existing block in the same bundle: delivered *)
  file_source_run unit (c15_q [7] 100) 0 16 5 (fun _ => false)
    (c15_exists_of c15_chain_skip7) (c15_blocks_of c15_chain_skip7) 20 20 (Some tt) [] = ([0; 8; 16], EStop).
Proof.
  split; [lia|].
  split; [apply c15_q_provider_ok; c15_asc|].
  split; [apply c15_chain_ok; c15_asc|].
  split; [vm_compute; reflexivity|].
  split; [cbn; auto|]. split; [lia|].
  split; [unfold reached; vm_compute; discriminate|].
  split; [unfold on_chain; vm_compute; intuition discriminate|].
  split; [unfold on_chain; vm_compute; auto 10|].
  split; [cbn; intuition lia|].
  vm_compute; reflexivity.
Qed.
Print Assumptions c15_match_on_chain_needed.

(* hypothesis "the provider's answer is ascending" (asc r in provider_ok): a provider answering [8; 6]
   for the bundle [5,10): the match 6 is lost. *)
Definition c15_chain_0_20 : list N := [0; 1; 2; 3; 4; 5; 6; 7; 8; 9; 10; 11; 12; 13; 14; 15; 16; 17; 18; 19; 20].
Definition c15_q_unsorted (ps : unit) (base : N) : unit * option (list N) :=
  (tt, if base =? 5 then Some [8; 6] else Some []).

Theorem c15_provider_ascending_needed :
  (* the answers are the matches of the bundle, but not in ascending order *)
  (forall ps base, base mod 5 = 0 ->
     match snd (c15_q_unsorted ps base) with
     | None => True
     | Some r => forall n, In n r <-> (In n [6; 8] /\ base <= n < base + 5)
     end) /\
  ~ provider_ok unit c15_q_unsorted 5 (fun _ => True) (fun n => In n [6; 8]) /\
  chain_ok 5 (c15_blocks_of c15_chain_0_20) /\
  file_source_run unit c15_q_unsorted 0 19 5 (fun _ => false)
    (c15_exists_of c15_chain_0_20) (c15_blocks_of c15_chain_0_20) 20 20 (Some tt) [] = ([0; 8; 19], EStop) /\
  (* the conclusion of C15_stream_complete fails for the match 6 *)
  In 6 [6; 8] /\ on_chain 5 (c15_blocks_of c15_chain_0_20) 6 /\ 0 <= 6 <= 19 /\ reached 19 5 EStop 6 /\
  ~ In 6 [0; 8; 19].
Proof.
  split.
  { intros ps base Hb. unfold c15_q_unsorted. cbn [snd]. destruct (base =? 5) eqn:E.
    - apply N.eqb_eq in E. subst. intro n. cbn. intuition lia.
    - apply N.eqb_neq in E. intro n. cbn. split; [tauto|]. intros [[H|[H|[]]] Hr]; subst.
      + assert (base = 5) by (apply N.mod_divides in Hb; [destruct Hb as [c Hc]; lia | lia]). contradiction.
      + assert (base = 5) by (apply N.mod_divides in Hb; [destruct Hb as [c Hc]; lia | lia]). contradiction. }
  split.
  { intro H. destruct (H tt 5 I eq_refl) as [_ H5]. cbn in H5. destruct H5 as [Hasc _].
    unfold asc in Hasc. inversion Hasc as [|? ? _ Hf]; subst. inversion Hf; subst. lia. }
  split; [apply c15_chain_ok; c15_asc|].
  split; [vm_compute; reflexivity|].
  split; [cbn; auto|].
  split; [unfold on_chain; vm_compute; auto 10|].
  split; [lia|].
  split; [unfold reached; vm_compute; discriminate|].
  cbn; intuition lia.
Qed.
Print Assumptions c15_provider_ascending_needed.

(* hypothesis chain_ok: a bundle file whose blocks are not in ascending order (no index at all) *)
Theorem c15_chain_ok_needed :
  let blocks := fun b : N => if b =? 0 then [1; 3; 2] else [] in
  let ex := fun b : N => b =? 0 in
  provider_ok unit (c15_q [] 0) 5 (fun _ => True) (fun n => In n []) /\
  ~ chain_ok 5 blocks /\
  file_source_run unit (c15_q [] 0) 0 4 5 (fun _ => false) ex blocks 5 5 (Some tt) [] = ([1; 3; 2], EStop) /\
  ~ asc [1; 3; 2].
Proof.
  cbn zeta. split; [apply c15_q_provider_ok; c15_asc|].
  split.
  { intro H. destruct (H 0 eq_refl) as [Ha _]. cbn in Ha. unfold asc in Ha.
    inversion Ha as [|? ? H1 _]; subst. inversion H1 as [|? ? _ Hf]; subst. inversion Hf; subst. lia. }
  split; [vm_compute; reflexivity|].
  unfold asc. intro Ha. inversion Ha as [|? ? H1 _]; subst. inversion H1 as [|? ? _ Hf]; subst.
  inversion Hf; subst. lia.
Qed.
Print Assumptions c15_chain_ok_needed.

(* C15_stream_tight, hypothesis "stop = 0 or start <= stop": start 12, stop 3, the index covers every
   bundle.  The provider is dropped at once and the start bundle is read entirely: 13 is delivered
   and is not the next existing block of any wanted number. *)
Definition c15_wanted_for (blocks : N -> list N) (start stop : N) (M wl : list N) (prog : N -> bool) (x : N) : Prop :=
  exists w, next_existing start 5 blocks w x /\
            (In w M \/ w = start \/ (stop <> 0 /\ w = stop) \/ In w wl \/
             (w = low_boundary x 5 /\ prog w = true)).

Theorem c15_start_le_stop_needed :
  provider_ok unit (c15_q [2] 100) 5 (fun _ => True) (fun n => In n [2]) /\
  chain_ok 5 (c15_blocks_of c15_chain_0_20) /\
  ~ (3 = 0 \/ 12 <= 3) /\
  file_source_run unit (c15_q [2] 100) 12 3 5 (fun _ => false)
    (c15_exists_of c15_chain_0_20) (c15_blocks_of c15_chain_0_20) 20 20 (Some tt) [] = ([12; 13; 14], EStop) /\
  (* every bundle up to the one after 13's is covered *)
  (forall b', b' mod 5 = 0 -> b' <= 15 -> covered unit (c15_q [2] 100) (fun _ => True) b') /\
  ~ c15_wanted_for (c15_blocks_of c15_chain_0_20) 12 3 [2] [] (fun _ => false) 13.
Proof.
  split; [apply c15_q_provider_ok; c15_asc|].
  split; [apply c15_chain_ok; c15_asc|].
  split; [lia|].
  split; [vm_compute; reflexivity|].
  split.
  { intros b' _ Hb ps _. unfold c15_q. cbn [snd]. destruct (b' <? 100) eqn:E; [discriminate|].
    apply N.ltb_ge in E. lia. }
  intros [w [[[_ Hwx] Hmin] Hw]].
  assert (H12 : w <= 12 -> 13 <= 12).
  { intro Hle. apply Hmin; [vm_compute; auto 10 | lia | exact Hle]. }
  destruct Hw as [Hw|[Hw|[[_ Hw]|[[]|[_ Hw]]]]]; try discriminate.
  - cbn in Hw. destruct Hw as [Hw|[]]. lia.
  - lia.
  - lia.
Qed.
Print Assumptions c15_start_le_stop_needed.

(* C15_stream_tight, hypothesis "the bundle after x's is covered": the index covers [0,30), the merged
   files end at block 29.  The bundle [25,30) holds no match, is covered, and is the last available
   one: it is read entirely. *)
Definition c15_chain_0_29 : list N :=
  [0; 1; 2; 3; 4; 5; 6; 7; 8; 9; 10; 11; 12; 13; 14; 15; 16; 17; 18; 19; 20; 21; 22; 23; 24; 25; 26; 27; 28; 29].

Theorem c15_next_bundle_covered_needed :
  provider_ok unit (c15_q [2; 22] 30) 5 (fun _ => True) (fun n => In n [2; 22]) /\
  chain_ok 5 (c15_blocks_of c15_chain_0_29) /\
  file_source_run unit (c15_q [2; 22] 30) 0 0 5 (fun _ => false)
    (c15_exists_of c15_chain_0_29) (c15_blocks_of c15_chain_0_29) 20 20 (Some tt) []
    = ([0; 2; 22; 25; 26; 27; 28; 29], EWait 30) /\
  (* every bundle from the start to 26's own bundle is covered, the next one is not *)
  (forall b', b' mod 5 = 0 -> b' <= 25 -> covered unit (c15_q [2; 22] 30) (fun _ => True) b') /\
  uncovered unit (c15_q [2; 22] 30) (fun _ => True) 30 /\
  ~ c15_wanted_for (c15_blocks_of c15_chain_0_29) 0 0 [2; 22] [] (fun _ => false) 26.
Proof.
  split; [apply c15_q_provider_ok; c15_asc|].
  split; [apply c15_chain_ok; c15_asc|].
  split; [vm_compute; reflexivity|].
  split.
  { intros b' Hm Hb ps _. unfold c15_q. cbn [snd]. destruct (b' <? 30) eqn:E; [discriminate|].
    apply N.ltb_ge in E. lia. }
  split; [intros ps _; reflexivity|].
  intros [w [[[Hlow Hwx] Hmin] Hw]].
  assert (Hlb : low_boundary 26 5 = 25) by reflexivity. rewrite Hlb in *.
  assert (H25 : w <= 25 -> 26 <= 25).
  { intro Hle. apply Hmin; [vm_compute; auto 10 | lia | exact Hle]. }
  destruct Hw as [Hw|[Hw|[[Hw _]|[[]|[_ Hw]]]]]; try discriminate; try lia.
  cbn in Hw. destruct Hw as [Hw|[Hw|[]]]; lia.
Qed.
Print Assumptions c15_next_bundle_covered_needed.

(* C15_stream_tight, hypothesis "every bundle from the start bundle on is covered": an index with a hole
   at [5,10).  The provider is dropped for good at the hole; the bundle [10,15), which the index covers
   (as it does the following one), is delivered entirely. *)
Definition c15_q_hole (M : list N) (ps : unit) (base : N) : unit * option (list N) :=
  (tt, if base =? 5 then None else Some (c15_inb M base)).

Theorem c15_covered_from_start_needed :
  provider_ok unit (c15_q_hole [2; 12]) 5 (fun _ => True) (fun n => In n [2; 12]) /\
  chain_ok 5 (c15_blocks_of c15_chain_0_20) /\
  file_source_run unit (c15_q_hole [2; 12]) 0 19 5 (fun _ => false)
    (c15_exists_of c15_chain_0_20) (c15_blocks_of c15_chain_0_20) 20 20 (Some tt) []
    = ([0; 2; 5; 6; 7; 8; 9; 10; 11; 12; 13; 14; 15; 16; 17; 18; 19], EStop) /\
  uncovered unit (c15_q_hole [2; 12]) (fun _ => True) 5 /\
  covered unit (c15_q_hole [2; 12]) (fun _ => True) 10 /\
  covered unit (c15_q_hole [2; 12]) (fun _ => True) 15 /\
  ~ c15_wanted_for (c15_blocks_of c15_chain_0_20) 0 19 [2; 12] [] (fun _ => false) 13.
Proof.
  split.
  { intros ps base _ _. split; [exact I|]. unfold c15_q_hole. cbn [snd].
    destruct (base =? 5); [exact I|]. split; [apply c15_asc_filter; c15_asc|].
    intro n. unfold c15_inb. rewrite filter_In, andb_true_iff, N.leb_le, N.ltb_lt. tauto. }
  split; [apply c15_chain_ok; c15_asc|].
  split; [vm_compute; reflexivity|].
  split; [intros ps _; reflexivity|].
  split; [intros ps _; discriminate|].
  split; [intros ps _; discriminate|].
  intros [w [[[Hlow Hwx] Hmin] Hw]].
  assert (Hlb : low_boundary 13 5 = 10) by reflexivity. rewrite Hlb in *.
  assert (H12 : w <= 12 -> 13 <= 12).
  { intro Hle. apply Hmin; [vm_compute; auto 10 | lia | exact Hle]. }
  destruct Hw as [Hw|[Hw|[[_ Hw]|[[]|[_ Hw]]]]]; try discriminate; try lia.
  cbn in Hw. destruct Hw as [Hw|[Hw|[]]]; lia.
Qed.
Print Assumptions c15_covered_from_start_needed.
End C15.

Module C16.
(* U2 hypothesis audit, C16 (block files, one-block file names, fetch): necessity witnesses.
   Every theorem is closed (vm_compute on concrete inputs).  See notes_proof_U2/notes_C16.md.
   Go replays: notes_proof_U2/c16_codec_test.go, notes_proof_U2/c16_names_fetch_test.go. *)
Import BV.Base.Prelude BV.Base.Decimal BV.Model.CursorCodec BV.Model.Dbin BV.Model.OneBlockName BV.Spec.C16_Spec BV.Proofs.PreludeFacts BV.Proofs.DbinFacts.
Local Open Scope N_scope.

(* two modern blocks and one legacy block; the type URL of the modern ones is "A" *)
Definition c16_b1 : blk :=
  mkBlk 7 [97] [96] (Some (1700000000, 0)%Z) 5 0 0%Z [] 0 6 (Some (mkAny [65] [1; 2; 3])).
Definition c16_b2 : blk :=
  mkBlk 8 [98] [97] (Some (1700000001, 0)%Z) 5 0 0%Z [] 0 7 (Some (mkAny [65] [4])).
Definition c16_leg : blk :=   (* a legacy ETH block without payload *)
  mkBlk 8 [98] [97] None 5 2 1%Z [9; 9] 0 7 None.

(* a protobuf stand-in over a two-element table: b1 <-> m1, b2 <-> m2, everything else refused *)
Definition c16_tenc (m1 m2 : str) (b : blk) : option str :=
  if blk_eqb b c16_b1 then Some m1 else if blk_eqb b c16_b2 then Some m2 else None.
Definition c16_tdec (m1 m2 : str) (x1 x2 : blk) (m : str) : option blk :=
  if eqb_list m m1 then Some x1 else if eqb_list m m2 then Some x2 else None.

Lemma c16_table_codec_ok m1 m2 :
  eqb_list m1 m2 = false ->
  codec_ok (c16_tenc m1 m2) (c16_tdec m1 m2 c16_b1 c16_b2)
           (fun m => option_map meta_of (c16_tdec m1 m2 c16_b1 c16_b2 m)).
Proof.
  intro Hne.
  assert (H1 : eqb_list m1 m1 = true) by apply eqb_list_refl.
  assert (H2 : eqb_list m2 m2 = true) by apply eqb_list_refl.
  assert (H21 : eqb_list m2 m1 = false).
  { destruct (eqb_list m2 m1) eqn:E; [|reflexivity].
    apply eqb_list_eq in E. subst m2. rewrite H1 in Hne. discriminate. }
  split; intros b m; unfold c16_tenc, c16_tdec;
    (destruct (blk_eqb b c16_b1) eqn:E1;
     [apply blk_eqb_eq in E1; subst b; intros [= <-]; rewrite H1; reflexivity|]);
    (destruct (blk_eqb b c16_b2) eqn:E2;
     [apply blk_eqb_eq in E2; subst b; intros [= <-]; rewrite H21, H2; reflexivity|discriminate]).
Qed.

Ltac c16_seq_ok_tac m1 m2 :=
  split; [discriminate|]; split; [discriminate|]; split; [cbv; discriminate|];
  constructor; [|constructor; [|constructor]];
  [exists m1; split; [reflexivity|]; split; [discriminate|reflexivity]
  |exists m2; split; [reflexivity|]; split; [discriminate|reflexivity]].

(* ================================================================== codec_ok, first conjunct
   pdec (penc b) = Some b.  A decoder that returns another block for the bytes of b2 (the height
   is one too high) — everything else as in a correct codec: the round trip delivers the other
   block, and so does the read of the "truncation at n = whole file".
   The hypothesis speaks about protobuf, which the model abstracts: the real proto.Marshal /
   Unmarshal were run at the extreme points of the quantifier (TestU2_C16_CodecPoints): every
   block that Marshal accepts is read back field by field; Marshal refuses invalid UTF-8 in id,
   parent id and type URL (write error, nothing written). *)
Definition c16_b2_wrong : blk :=
  mkBlk 9 [98] [97] (Some (1700000001, 0)%Z) 5 0 0%Z [] 0 7 (Some (mkAny [65] [4])).

Theorem c16_codec_block_needed :
  let penc := c16_tenc [1] [2] in
  let pdec := c16_tdec [1] [2] c16_b1 c16_b2_wrong in
  let bs := [c16_b1; c16_b2] in
  seq_ok penc bs /\
  penc c16_b2 = Some [2] /\ pdec [2] <> Some c16_b2 /\             (* codec_ok fails exactly here *)
  expected 0 false bs = (bs, OEOF) /\
  read_blocks pdec 0 false (file_of penc bs) = (Some (mkHdr 1 [65]), [c16_b1; c16_b2_wrong], OEOF) /\
  (* C16_roundtrip, third conjunct, fails *)
  read_blocks pdec 0 false (file_of penc bs) <>
    (Some (mkHdr 1 (ctype_of bs)), fst (expected 0 false bs), snd (expected 0 false bs)) /\
  (* C16_truncation, first conjunct, fails at n = length of the file *)
  ~ prefix_of (rf_items (read_blocks pdec 0 false (firstn 18 (file_of penc bs)))) (fst (expected 0 false bs)).
Proof.
  cbv zeta. split; [c16_seq_ok_tac [1] [2]|].
  split; [reflexivity|]. split; [vm_compute; discriminate|]. split; [reflexivity|].
  split; [vm_compute; reflexivity|]. split; [vm_compute; discriminate|].
  intros [r Hr]. vm_compute in Hr. discriminate Hr.
Qed.
Print Assumptions c16_codec_block_needed.

(* ================================================================== codec_ok, second conjunct
   pdec_meta (penc b) = Some (meta_of b): a meta decoder that drops the LIB number. *)
Definition c16_meta_wrong (m : str) : option bmeta :=
  match c16_tdec [1] [2] c16_b1 c16_b2 m with
  | Some b => Some (mkMeta (b_num b) (b_id b) (b_parent b) (b_ts b) 0 (b_pnum b))
  | None => None
  end.

Theorem c16_codec_meta_needed :
  let penc := c16_tenc [1] [2] in
  let bs := [c16_b1; c16_b2] in
  seq_ok penc bs /\
  (forall b m, penc b = Some m -> c16_tdec [1] [2] c16_b1 c16_b2 m = Some b) /\   (* first conjunct holds *)
  c16_meta_wrong [1] <> Some (meta_of c16_b1) /\
  read_metas c16_meta_wrong 0 (file_of penc bs) <>
    (Some (mkHdr 1 (ctype_of bs)), fst (expected_meta 0 bs), snd (expected_meta 0 bs)).
Proof.
  cbv zeta. split; [c16_seq_ok_tac [1] [2]|].
  split; [exact (proj1 (c16_table_codec_ok [1] [2] eq_refl))|].
  split; vm_compute; discriminate.
Qed.
Print Assumptions c16_codec_meta_needed.

(* ================================================================== seq_ok: bs <> []
   The empty sequence writes no byte; reading the empty file is a header error, not "the same
   (empty) sequence followed by end-of-file".  For every codec.
   Inside the quantifier read literally ("all sequences of blocks").  Real code:
   TestU2_C16_CodecFirstBlockAndEmptySequence: 0 bytes, "unable to read file header: EOF". *)
Theorem c16_seq_nonempty_needed :
  forall penc pdec first acc,
    file_of penc [] = [] /\
    read_blocks pdec first acc (file_of penc []) = (None, [], OHdr) /\
    read_blocks pdec first acc (file_of penc []) <>
      (Some (mkHdr 1 (ctype_of [])), fst (expected first acc []), snd (expected first acc [])).
Proof. intros. split; [reflexivity|]. split; [reflexivity|]. cbv. discriminate. Qed.
Print Assumptions c16_seq_nonempty_needed.

(* ================================================================== seq_ok: ctype_of bs <> []
   First block without payload (legacy) or with an empty type URL: the writer refuses it (after
   the fixed finding C16_fix_writer_nil_payload: an error, before: a nil dereference).  The
   sequence is then not "written with the block writer": outside the quantifier. *)
Definition c16_lenc (b : blk) : option str :=
  if blk_eqb b c16_leg then Some [3] else if blk_eqb b c16_b1 then Some [1] else None.

Theorem c16_first_payload_needed :
  let bs := [c16_leg; c16_b1] in
  bs <> [] /\ ctype_of bs = [] /\
  (exists m, c16_lenc c16_leg = Some m /\ m <> [] /\ lenN m < two32) /\
  snd (write_all c16_lenc bs) = WErr /\ file_of c16_lenc bs = [].
Proof.
  cbv zeta. split; [discriminate|]. split; [reflexivity|].
  split; [exists [3]; split; [reflexivity|]; split; [discriminate|reflexivity]|].
  split; vm_compute; reflexivity.
Qed.
Print Assumptions c16_first_payload_needed.

(* ================================================================== seq_ok: lenN (ctype_of bs) <= 65535
   A type URL of 65536 bytes: dbin's WriteHeader refuses it, nothing is written.  Real code:
   TestU2_C16_CodecFirstBlockAndEmptySequence (65535 round-trips, 65536 and 70000 are refused
   with 0 bytes written).  A refusal, not an alteration: outside "written with the block writer". *)
Definition c16_big_url : str := repeat 117 65536.
Definition c16_bbig : blk :=
  mkBlk 7 [97] [96] None 5 0 0%Z [] 0 6 (Some (mkAny c16_big_url [1])).

Theorem c16_ctype_len_needed :
  let penc := fun _ : blk => Some [1] in
  lenN (ctype_of [c16_bbig]) = 65536 /\
  snd (write_all penc [c16_bbig]) = WErr /\ file_of penc [c16_bbig] = [].
Proof. vm_compute. repeat split; reflexivity. Qed.
Print Assumptions c16_ctype_len_needed.

(* ================================================================== writable: m <> []
   A codec that satisfies codec_ok and encodes b2 as the EMPTY message (in real protobuf: the
   all-default block, which is a legacy block of height 0 with empty ids: inside the quantifier).
   Every Write succeeds, the file is header ++ frame m1 ++ 00 00 00 00, and the reader stops
   with an error where b2 should be delivered: the round trip (and prefix_intact with k = 2) fail.
   Real code: TestU2_C16_CodecEmptyEncodingLosesTail ([modern, all-default, modern]: 3 writes
   succeed, 1 of 3 blocks is read back, then "failed reading next dbin message: %!s(<nil>)"). *)
(* the writer as shipped (Model/Dbin.writer_write_unfixed), all blocks of a sequence *)
Fixpoint c16_write_from_unfixed (penc : blk -> option str) (st : wstate) (bs : list blk) : wstate * wres :=
  match bs with
  | [] => (st, WOk)
  | b :: r =>
      match writer_write_unfixed penc st b with
      | (st', WOk) => c16_write_from_unfixed penc st' r
      | (st', WErr) => (st', WErr)
      end
  end.
Definition c16_write_all_unfixed (penc : blk -> option str) (bs : list blk) : str * wres :=
  let '(st, r) := c16_write_from_unfixed penc (mkW false []) bs in (w_out st, r).

Theorem c16_msg_nonempty_needed :
  let penc := c16_tenc [1] [] in
  let pdec := c16_tdec [1] [] c16_b1 c16_b2 in
  let bs := [c16_b1; c16_b2] in
  codec_ok penc pdec (fun m => option_map meta_of (pdec m)) /\
  bs <> [] /\ ctype_of bs <> [] /\ lenN (ctype_of bs) <= 65535 /\
  Forall (fun b => exists m, penc b = Some m /\ lenN m < two32) bs /\     (* writable without m <> [] *)
  (* the writer as shipped: both writes succeed *)
  c16_write_all_unfixed penc bs = ([100; 98; 105; 110; 1; 0; 1; 65; 0; 0; 0; 1; 1; 0; 0; 0; 0], WOk) /\
  expected 0 false bs = (bs, OEOF) /\
  read_blocks pdec 0 false (fst (c16_write_all_unfixed penc bs)) = (Some (mkHdr 1 [65]), [c16_b1], OErr) /\
  (* C16_prefix_intact with k = 2, f' = the file itself: the second item is missing *)
  firstn 2 (rf_items (read_blocks pdec 0 false (fst (c16_write_all_unfixed penc bs)))) <> firstn 2 (fst (expected 0 false bs)) /\
  (* since the fix C16-writer-empty-encoding the writer refuses the second block: the sequence is not
     "written with the block writer", and what was written reads back as [b1] followed by end-of-file *)
  write_all penc bs = ([100; 98; 105; 110; 1; 0; 1; 65; 0; 0; 0; 1; 1], WErr) /\
  read_blocks pdec 0 false (fst (write_all penc bs)) = (Some (mkHdr 1 [65]), [c16_b1], OEOF).
Proof.
  cbv zeta. split; [exact (c16_table_codec_ok [1] [] eq_refl)|].
  split; [discriminate|]. split; [discriminate|]. split; [cbv; discriminate|].
  split.
  { constructor; [|constructor; [|constructor]].
    - exists [1]. split; reflexivity.
    - exists []. split; reflexivity. }
  split; [vm_compute; reflexivity|].
  split; [reflexivity|]. split; [vm_compute; reflexivity|].
  split; [vm_compute; discriminate|]. split; vm_compute; reflexivity.
Qed.
Print Assumptions c16_msg_nonempty_needed.

(* C16_truncation does NOT need m <> [] on this input: every cut of that 17-byte file still gives a
   prefix of the blocks and EOF only on a block boundary (possibly not necessary there). *)
Definition c16_trunc_row (n : nat) : list blk * outcome :=
  let r := read_blocks (c16_tdec [1] [] c16_b1 c16_b2) 0 false
                       (firstn n (fst (c16_write_all_unfixed (c16_tenc [1] []) [c16_b1; c16_b2]))) in
  (rf_items r, rf_outcome r).
Example c16_msg_nonempty_not_needed_for_truncation :
  map c16_trunc_row (seq 0 18) =
    repeat ([], OHdr) 8 ++ [([], OEOF)] ++ repeat ([], OErr) 4 ++ [([c16_b1], OEOF)] ++ repeat ([c16_b1], OErr) 4.
Proof. vm_compute. reflexivity. Qed.

(* writable: lenN m < 2^32 — not evaluated in the model (a 4 GiB list).  be32_bytes drops the
   bits >= 2^32 by construction; the real dbin.Writer.WriteMessage does the same without an error:
   TestU2_C16_DbinLengthPrefixWraps (a message of 2^32+10 bytes gets the length prefix 00 00 00 0a). *)
Example c16_be32_wraps : be32_bytes (two32 + 10) = [0; 0; 0; 10].
Proof. vm_compute. reflexivity. Qed.

(* ================================================================== C16_header_corruption_partial:
   the side condition (p < 4 \/ (p = 4 /\ v <> 0) \/ 7 <= p).
   Stated with a codec that satisfies codec_ok and a sequence that satisfies seq_ok: byte 6 (low byte
   of the content-type length) changed 1 -> 6 moves the start of the message stream into the first
   message; the reader delivers b2 — a block that was never written — and a clean end-of-file.
   Inside the quantifier ("every single-byte corruption"); this IS the known finding
   C16-stream-start-corruption-alters (c16_header_length_corruption_refuted states it at the framing
   level for an arbitrary decoder); not re-reported. *)
Theorem c16_hdr_locator_bytes_excluded_needed :
  let m1 := [9; 0; 0; 0; 1; 7] in
  let penc := c16_tenc m1 [7] in
  let pdec := c16_tdec m1 [7] c16_b1 c16_b2 in
  let bs := [c16_b1] in
  codec_ok penc pdec (fun m => option_map meta_of (pdec m)) /\ seq_ok penc bs /\
  (6 < header_len (ctype_of bs))%nat /\ 6 <> nth 6 (file_of penc bs) 0 /\
  read_blocks pdec 0 false (file_of penc bs) = (Some (mkHdr 1 [65]), [c16_b1], OEOF) /\
  read_blocks pdec 0 false (corrupt (file_of penc bs) 6 6) = (Some (mkHdr 1 [65; 0; 0; 0; 6; 9]), [c16_b2], OEOF) /\
  ~ header_corruption_at penc pdec 0 false bs 6 6.
Proof.
  cbv zeta. split; [exact (c16_table_codec_ok [9; 0; 0; 0; 1; 7] [7] eq_refl)|].
  split.
  { split; [discriminate|]. split; [discriminate|]. split; [cbv; discriminate|].
    constructor; [|constructor].
    exists [9; 0; 0; 0; 1; 7]. split; [reflexivity|]. split; [discriminate|reflexivity]. }
  split; [vm_compute; lia|]. split; [vm_compute; discriminate|].
  split; [vm_compute; reflexivity|]. split; [vm_compute; reflexivity|].
  unfold header_corruption_at. cbv zeta.
  intros [[H _]|[[H _]|[H _]]]; vm_compute in H; discriminate H.
Qed.
Print Assumptions c16_hdr_locator_bytes_excluded_needed.

(* ================================================================== name_ok
   A '-' in the last 16 bytes of the id, in the last 16 bytes of the parent id, or in the suffix:
   the name has more than 5 segments and does not parse back (an error — never another block: the
   format contributes exactly 4 dashes, every extra dash gives a 6th segment).  Inside the quantifier
   ("arbitrary ids"); the property text demands that the name "parses back to the same ...".
   Real code: TestU2_C16_NameRoundTripPoints ("wrong filename format"); in a one-block store such a
   file is invisible to the fetchers (not-found, case (e) of TestU2_C16_FetchStoreAssumptions). *)
Theorem c16_name_id_nodash_needed :
  let id := [48; 49; 50; 51; 45; 53; 54; 55; 56; 57; 97; 98; 99; 100; 101; 102] in   (* "0123-56789abcdef" *)
  5 < two64 /\ 3 < two64 /\ memN dash (truncate_id id) = true /\
  memN dash (truncate_id [98]) = false /\ memN dash [120] = false /\
  parse_filename (block_file_name 5 id [98] 3 [120]) = None.
Proof. vm_compute. repeat split; reflexivity. Qed.
Print Assumptions c16_name_id_nodash_needed.

Theorem c16_name_parent_nodash_needed :
  memN dash (truncate_id [98; 45; 99]) = true /\
  parse_filename (block_file_name 5 [97] [98; 45; 99] 3 [120]) = None.
Proof. vm_compute. split; reflexivity. Qed.
Print Assumptions c16_name_parent_nodash_needed.

Theorem c16_name_suffix_nodash_needed :
  memN dash [109; 45; 49] = true /\
  parse_filename (block_file_name 5 [97] [98] 3 [109; 45; 49]) = None.
Proof. vm_compute. split; reflexivity. Qed.
Print Assumptions c16_name_suffix_nodash_needed.

(* num < 2^64, lib < 2^64: the model's numbers are unbounded; Go's are uint64: outside. *)
Theorem c16_name_num_bound_needed :
  parse_filename (block_file_name two64 [97] [98] 3 [120]) = None /\
  parse_filename (block_file_name 5 [97] [98] two64 [120]) = None.
Proof. vm_compute. split; reflexivity. Qed.
Print Assumptions c16_name_num_bound_needed.

(* ================================================================== C16_fetch: Forall stored_ok l
   (i) the part "the store holds intact one-block files" (msg_wf, store = store_of l): a one-block
   file cut exactly at the end of its header — a truncation point of the encoded file — makes the
   fetch return (nil, nil): neither the block, nor not-found, nor an error (FNil, which c16_fetch
   proves impossible on intact stores).  Real code: case (h) of TestU2_C16_FetchStoreAssumptions:
   of the 130 truncation points 129 give an error and the cut at 34 gives (nil, nil); the one-blocks
   source hands that nil block to its handler (h'). *)
Theorem c16_fetch_intact_store_needed :
  let name := block_file_name 5 [97] [112] 3 [120] in
  let whole := file_bytes [84] [[1; 7]] in
  let cut := firstn (header_len [84]) whole in
  fetch_one_block toy_dec [(name, whole)] 5 [97] = FBlock (1, 7) /\
  (* the code as shipped: (nil, nil); since fix 6b75a41: an error (outside C16_fetch's FErr clause, which
     speaks of a message the decoder refuses: the hypothesis is still needed) *)
  decode_one_block_file_unfixed toy_dec cut = FNil /\
  fetch_one_block toy_dec [(name, cut)] 5 [97] = FErr.
Proof. vm_compute. repeat split; reflexivity. Qed.
Print Assumptions c16_fetch_intact_store_needed.

(* (ii) name_ok inside stored_ok: possibly not necessary — a stored block whose truncated id has a
   dash gets an unparsable name, is skipped by the listing, and the fetch answers not-found. *)
Example c16_fetch_dash_id_invisible :
  let x := mkStored 5 [97; 45; 98] [112] 3 [120] [84] [1; 7] in
  fetch_one_block toy_dec (store_of [x]) 5 [97; 45; 98] = FNotFound.
Proof. vm_compute. reflexivity. Qed.

(* ================================================================== C16_fetch: what its conclusion does NOT say
   The property text: "fetching a block by number and id ... returns THAT block or not-found".
   c16_fetch promises only an entry of the requested height whose truncated id is a SUFFIX of the
   requested id.  The stronger reading — the returned entry has the requested id — is false on
   stores that satisfy stored_ok, i.e. it would need the extra hypotheses "stored ids have at least
   16 bytes" and "no two stored ids of one height share their last 16 bytes":
   - a stored id shorter than 16 bytes ("b") answers the request for another id ("ab");
   - the stored empty id answers every request;
   - two blocks of one height whose ids share the last 16 bytes: the request for the second
     returns the first.
   Inside the quantifier ("arbitrary ids").  Real code: cases (a), (b), (c) of
   TestU2_C16_FetchStoreAssumptions. *)
Definition C16_fetch_exact_id : Prop :=
  forall l num id b, Forall (stored_ok) l ->
    fetch_one_block toy_dec (store_of l) num id = FBlock b ->
    exists x, In x l /\ s_num x = num /\ s_id x = id /\ toy_dec (s_msg x) = Some b.

Definition c16_sfx16 : str := [100; 101; 97; 100; 98; 101; 101; 102; 99; 97; 102; 101; 48; 48; 48; 53].
Definition c16_idA : str := [97; 97] ++ c16_sfx16.
Definition c16_idB : str := [98; 98] ++ c16_sfx16.
Definition c16_store3 : list stored :=
  [mkStored 5 c16_idA [112; 65] 3 [120] [84] [1; 7]; mkStored 5 c16_idB [112; 66] 3 [120] [84] [2; 8]].

Lemma c16_stored_ok_intro x :
  (s_num x <? two64) && (s_lib x <? two64) && negb (memN dash (truncate_id (s_id x))) &&
  negb (memN dash (truncate_id (s_parent x))) && negb (memN dash (s_suffix x)) &&
  negb (eqb_list (s_ct x) []) && (lenN (s_ct x) <=? 65535) && negb (eqb_list (s_msg x) []) &&
  (lenN (s_msg x) <? two32) = true -> stored_ok x.
Proof.
  intro H. repeat (apply andb_true_iff in H; destruct H as [H ?]).
  repeat match goal with
  | h : negb _ = true |- _ => apply negb_true_iff in h
  | h : (_ <? _) = true |- _ => apply N.ltb_lt in h
  | h : (_ <=? _) = true |- _ => apply N.leb_le in h
  end.
  assert (Hne : forall s : str, eqb_list s [] = false -> s <> []).
  { intros s E ->. discriminate E. }
  unfold stored_ok, name_ok, msg_wf. repeat split; auto.
Qed.

Theorem c16_fetch_exact_id_refuted :
  (* short stored id *)
  (let l := [mkStored 5 [98] [112] 3 [120] [84] [1; 7]] in
   Forall stored_ok l /\ fetch_one_block toy_dec (store_of l) 5 [97; 98] = FBlock (1, 7)) /\
  (* empty stored id *)
  (let l := [mkStored 5 [] [112] 3 [120] [84] [1; 7]] in
   Forall stored_ok l /\ fetch_one_block toy_dec (store_of l) 5 [102; 102] = FBlock (1, 7)) /\
  (* two ids of one height sharing their last 16 bytes: asking for B returns A's content *)
  (Forall stored_ok c16_store3 /\ c16_idA <> c16_idB /\
   fetch_one_block toy_dec (store_of c16_store3) 5 c16_idA = FBlock (1, 7) /\
   fetch_one_block toy_dec (store_of c16_store3) 5 c16_idB = FBlock (1, 7)) /\
  ~ C16_fetch_exact_id.
Proof.
  assert (S1 : Forall stored_ok [mkStored 5 [98] [112] 3 [120] [84] [1; 7]]).
  { constructor; [apply c16_stored_ok_intro; vm_compute; reflexivity|constructor]. }
  split; [split; [exact S1|vm_compute; reflexivity]|].
  split.
  { split; [|vm_compute; reflexivity].
    constructor; [apply c16_stored_ok_intro; vm_compute; reflexivity|constructor]. }
  split.
  { split.
    - constructor; [apply c16_stored_ok_intro; vm_compute; reflexivity|].
      constructor; [apply c16_stored_ok_intro; vm_compute; reflexivity|constructor].
    - split; [vm_compute; discriminate|]. split; vm_compute; reflexivity. }
  intro H.
  destruct (H _ 5 [97; 98] (1, 7) S1 ltac:(vm_compute; reflexivity)) as [x [Hin [_ [Hid _]]]].
  destruct Hin as [<-|[]]. vm_compute in Hid. discriminate Hid.
Qed.
Print Assumptions c16_fetch_exact_id_refuted.

(* ================================================================== C16_roundtrip, last conjunct: Forall modern bs
   "read back as the same sequence" is claimed only for blocks WITH payload.  A legacy block
   (inside the quantifier: "including legacy blocks without payload") comes back ALTERED by design
   (supportLegacy): payload := (type URL by protocol kind, payload_buffer), and — whenever the height
   is above GetProtocolFirstStreamableBlock — parent_num := number - 1 whatever was recorded (here
   3 -> 7); NEAR (and Solana without the environment variable) legacy blocks stop the read with an
   error.  Real code: the "legacy ..." rows of TestU2_C16_CodecPoints. *)
Definition c16_leg3 : blk := mkBlk 8 [98] [97] None 5 2 1%Z [9; 9] 0 3 None.
Definition c16_near : blk := mkBlk 8 [98] [97] None 5 4 1%Z [9; 9] 0 7 None.

Theorem c16_modern_needed :
  ~ modern c16_leg3 /\
  expected 0 false [c16_b1; c16_leg3] =
    ([c16_b1; mkBlk 8 [98] [97] None 5 2 1%Z [9; 9] 0 7 (Some (mkAny url_eth [9; 9]))], OEOF) /\
  expected 0 false [c16_b1; c16_leg3] <> ([c16_b1; c16_leg3], OEOF) /\
  expected 0 false [c16_b1; c16_near; c16_b2] = ([c16_b1], OErr).
Proof.
  split; [intro H; apply H; reflexivity|].
  split; [vm_compute; reflexivity|]. split; [vm_compute; discriminate|vm_compute; reflexivity].
Qed.
Print Assumptions c16_modern_needed.

(* ================================================================== C16_prefix_intact: k <= length bs
   Structural (k indexes a block of bs): for k beyond the sequence, a file that agrees with the
   written one on all its bytes and carries one more valid frame delivers one more item. *)
Theorem c16_prefix_k_bound_needed :
  let penc := c16_tenc [1] [2] in
  let pdec := c16_tdec [1] [2] c16_b1 c16_b2 in
  let bs := [c16_b1] in
  let f' := file_of penc bs ++ frame [2] in
  seq_ok penc bs /\
  firstn (boundary penc bs 2) f' = firstn (boundary penc bs 2) (file_of penc bs) /\
  firstn 2 (rf_items (read_blocks pdec 0 false f')) <> firstn 2 (fst (expected 0 false bs)).
Proof.
  cbv zeta. split.
  { split; [discriminate|]. split; [discriminate|]. split; [cbv; discriminate|].
    constructor; [|constructor].
    exists [1]. split; [reflexivity|]. split; [discriminate|reflexivity]. }
  split; [vm_compute; reflexivity|vm_compute; discriminate].
Qed.
Print Assumptions c16_prefix_k_bound_needed.

(* ================================================================== C16_roundtrip, fourth conjunct: what [expected_meta] hides
   Not a hypothesis but a weakening inside the conclusion: ReadAsBlockMeta is required to deliver
   [decode_run (support_legacy_meta first o meta_of)], and support_legacy_meta REFUSES every block
   with parent_num = 0 and height > first + 15 — also a MODERN block (with payload) whose parent
   really is block 0 (a chain that skips heights after genesis).  Such a block is written, is read
   back intact by Read, and stops ReadAsBlockMeta (and FetchBlockMetaFromOneBlockStore) with an
   error; the blocks after it are not delivered.  Real code: row "MODERN block, height 16,
   parent_num 0" of TestU2_C16_CodecPoints, case (i) of TestU2_C16_FetchStoreAssumptions. *)
Definition c16_b16 : blk :=
  mkBlk 16 [98] [97] (Some (1700000001, 0)%Z) 0 0 0%Z [] 0 0 (Some (mkAny [65] [4])).
Definition c16_b15 : blk :=
  mkBlk 15 [98] [97] (Some (1700000001, 0)%Z) 0 0 0%Z [] 0 0 (Some (mkAny [65] [4])).

Theorem c16_meta_parent0_refused :
  modern c16_b16 /\
  expected 0 false [c16_b1; c16_b16; c16_b2] = ([c16_b1; c16_b16; c16_b2], OEOF) /\
  expected_meta 0 [c16_b1; c16_b16; c16_b2] = ([meta_of c16_b1], OErr) /\
  expected_meta 0 [c16_b1; c16_b15; c16_b2] = ([meta_of c16_b1; meta_of c16_b15; meta_of c16_b2], OEOF).
Proof.
  split; [discriminate|]. split; [vm_compute; reflexivity|]. split; vm_compute; reflexivity.
Qed.
Print Assumptions c16_meta_parent0_refused.
End C16.

Module C17.
(* U2 hypothesis audit — C17 (gates forward a suffix of the stream).
   The C17 theorems are unconditional at top level; their hypotheses sit INSIDE the Spec
   definitions: (a) c17_first conj 1/2: "the trigger block has number = first";
   (b) c17_first conj 3: the constants {0,1} / 2 instead of GetProtocolFirstStreamableBlock;
   (c) is_irreversible = "step is exactly 16" (c17_suffix for the irreversible gates, c17_irr_only);
   (d) holdoff_rule: "maxhold <> 0"; (e) holdoff_rule of the irreversible gates: only looked-at
   events are counted; (f) c17_filter: nondecreasing; (g) the number gator has no first-streamable
   rule; (h) the id gates' empty-target rule uses the constant 2.
   Each theorem below is a closed witness (vm_compute) that the conclusion fails without it. *)
Import BV.Base.Prelude BV.Model.Gates BV.Spec.C17_Spec BV.Proofs.C17_Lists.
Local Open Scope N_scope.

Definition c17_new (n : N) : ev := mkEv [48 + n; 97] n 1 false.    (* New event of block n *)
Definition c17_irr (n : N) : ev := mkEv [48 + n; 97] n 16 false.   (* Irreversible event *)
Definition c17_newirr (n : N) : ev := mkEv [48 + n; 97] n 17 false. (* StepNewIrreversible = 1|16 *)

(* ---- (a) c17_first, conjunct 1: hypothesis [enum e = first] ----
   first = 2, target 0, exclusive gate, block 2 never comes (stream 3,4): the gate opens at 3 with
   its configured type and drops it. *)
Theorem c17_first_trigger_is_first_needed :
  exists first target incl maxhold l i e,
    target < first /\ first_at (T_num target) l i /\ nth_error l i = Some e /\
    enum e <> first /\
    fw_of (num_gate_step first target maxhold) (g_init incl) l <> skipn i l.
Proof.
  exists 2, 0, false, 15000%Z, [c17_new 3; c17_new 4], 0%nat, (c17_new 3).
  split; [reflexivity|]. split; [apply first_index_some; vm_compute; reflexivity|].
  split; [reflexivity|]. split; vm_compute; discriminate.
Qed.
Print Assumptions c17_first_trigger_is_first_needed.

(* ---- (b) c17_first, conjunct 3, BEFORE the fix "IrreversibleBlockNumGate uses
   GetProtocolFirstStreamableBlock" (finding C17-irrnum-first-streamable-constants; the statement is
   now proved with `target < first`, `enum e = first`): the irreversible number gate AS SHIPPED knows
   the constants 0/1 and 2, not the first streamable block.  first = 1 (the ETH setting named in gates.go), target 0 < first,
   exclusive: the trigger is the irreversible event of block 1 = first, and it is dropped. *)
Theorem c17_irrnum_first_constants_needed :
  exists first target incl maxhold l i e,
    target < first /\ first_at (T_irrnum target) l i /\ nth_error l i = Some e /\ enum e = first /\
    fw_of (irrnum_gate_step_unfixed target maxhold) (g_init incl) l <> skipn i l /\
    (* whereas the plain number gate, same setting, same stream, forwards everything *)
    fw_of (num_gate_step first target maxhold) (g_init incl) l = skipn i l.
Proof.
  exists 1, 0, false, 15000%Z, [c17_irr 1; c17_irr 2; c17_irr 3], 0%nat, (c17_irr 1).
  split; [reflexivity|]. split; [apply first_index_some; vm_compute; reflexivity|].
  split; [reflexivity|]. split; [reflexivity|]. split; vm_compute; [discriminate|reflexivity].
Qed.
Print Assumptions c17_irrnum_first_constants_needed.

(* same with first = 5, target 3 *)
Theorem c17_irrnum_first_constants_needed_5 :
  let l := [c17_irr 5; c17_irr 6] in
  3 < 5 /\ first_at (T_irrnum 3) l 0 /\
  fw_of (irrnum_gate_step_unfixed 3 15000%Z) (g_init false) l = [c17_irr 6] /\
  fw_of (num_gate_step 5 3 15000%Z) (g_init false) l = l.
Proof.
  split; [reflexivity|]. split; [apply first_index_some; vm_compute; reflexivity|].
  split; vm_compute; reflexivity.
Qed.
Print Assumptions c17_irrnum_first_constants_needed_5.

(* ---- (c) "irreversible event" = step exactly 16.  With the reading "the step contains the
   irreversible bit" (StepType.Matches(StepIrreversible), i.e. also StepNewIrreversible = 17, the
   step hubs and cursor resolution emit for blocks already final) the suffix statement fails: the
   gate never opens, and it never fails either because ignored events are not counted. *)
Definition c17_irr_bit (e : ev) : bool := N.testbit (estep e) 4.

Theorem c17_exact_step_needed :
  exists target incl maxhold l,
    ~ suffix_of_input (fun e => c17_irr_bit e && T_num target e) (I_irrnum 0 target incl) l
        (fw_of (irrnum_gate_step 0 target maxhold) (g_init incl) l) /\
    run (irrnum_gate_step 0 target maxhold) (g_init incl) l = map (fun _ => Hold) l.
Proof.
  exists 5, true, 1%Z, [c17_newirr 5; c17_newirr 6; c17_newirr 7; c17_newirr 8].
  split; [|vm_compute; reflexivity].
  intros [_ H].
  specialize (H 0%nat (c17_newirr 5)).
  assert (Hf : first_at (fun e => c17_irr_bit e && T_num 5 e)
                 [c17_newirr 5; c17_newirr 6; c17_newirr 7; c17_newirr 8] 0)
    by (apply first_index_some; vm_compute; reflexivity).
  specialize (H Hf eq_refl). vm_compute in H. discriminate.
Qed.
Print Assumptions c17_exact_step_needed.

(* the same for the irreversible id gate *)
Theorem c17_exact_step_needed_id :
  let l := [c17_newirr 5; c17_newirr 6; c17_newirr 7] in
  ~ suffix_of_input (fun e => c17_irr_bit e && T_id [53;97] e) (I_id [53;97] true) l
      (fw_of (irrid_gate_step [53;97] 1%Z) (g_init true) l) /\
  run (irrid_gate_step [53;97] 1%Z) (g_init true) l = [Hold; Hold; Hold].
Proof.
  split; [|vm_compute; reflexivity].
  intros [_ H]. specialize (H 0%nat (c17_newirr 5)).
  assert (Hf : first_at (fun e => c17_irr_bit e && T_id [53;97] e)
                 [c17_newirr 5; c17_newirr 6; c17_newirr 7] 0)
    by (apply first_index_some; vm_compute; reflexivity).
  specialize (H Hf eq_refl). vm_compute in H. discriminate.
Qed.
Print Assumptions c17_exact_step_needed_id.

(* ---- (d) holdoff_rule: "maxhold <> 0".  The literal rule of the property text, "a gate that has
   held back more blocks than its limit fails", without the exception for 0: *)
Definition c17_holdoff_rule_literal (R T : ev -> bool) (maxhold : Z)
    (step : gstate -> ev -> gstate * action) : Prop :=
  forall incl l j e,
    nth_error l j = Some e ->
    (forall k x, (k <= j)%nat -> nth_error l k = Some x -> T x = false) ->
    nth_error (run step (g_init incl) l) j =
      Some (if R e && (held R l j >? maxhold)%Z then HoldErr else Hold).

Theorem c17_holdoff_nonzero_needed :
  exists first target,
    ~ c17_holdoff_rule_literal always (T_num target) 0%Z (num_gate_step first target 0%Z).
Proof.
  exists 0, 100. intro H.
  specialize (H true [c17_new 1; c17_new 2; c17_new 3] 2%nat (c17_new 3) eq_refl).
  assert (Hb : forall k x, (k <= 2)%nat ->
            nth_error [c17_new 1; c17_new 2; c17_new 3] k = Some x -> T_num 100 x = false).
  { intros k x Hk Hx. do 3 (destruct k as [|k]; [inversion Hx; subst; reflexivity|]). lia. }
  specialize (H Hb). vm_compute in H. discriminate.
Qed.
Print Assumptions c17_holdoff_nonzero_needed.

(* with limit 0 the gate holds back any number of blocks and never fails *)
Theorem c17_holdoff_zero_never_fails :
  forall n, run (num_gate_step 0 100 0%Z) (g_init true) (repeat (c17_new 1) n) = repeat Hold n.
Proof. induction n as [|n IH]; [reflexivity|]. simpl repeat. cbn [run].
  change (num_gate_step 0 100 0%Z (g_init true) (c17_new 1)) with (g_init true, Hold).
  cbv iota beta. f_equal. exact IH.
Qed.
Print Assumptions c17_holdoff_zero_never_fails.

(* ---- (e) hold-off of the irreversible gates counts only irreversible events: with "held back"
   read as "every block the gate did not forward" (held always) the rule fails: limit 1, five New
   events held back, no error. *)
Theorem c17_holdoff_relevant_only_needed :
  exists target maxhold l j,
    (forall k x, (k <= j)%nat -> nth_error l k = Some x -> T_irrnum target x = false) /\
    (held always l j > maxhold)%Z /\ maxhold <> 0%Z /\
    nth_error (run (irrnum_gate_step 0 target maxhold) (g_init true) l) j = Some Hold.
Proof.
  exists 100, 1%Z, [c17_new 1; c17_new 2; c17_new 3; c17_new 4; c17_new 5], 4%nat.
  split.
  { intros k x Hk Hx. do 5 (destruct k as [|k]; [inversion Hx; subst; reflexivity|]). lia. }
  split; [vm_compute; reflexivity|]. split; [discriminate|]. vm_compute. reflexivity.
Qed.
Print Assumptions c17_holdoff_relevant_only_needed.

(* ---- (f) c17_filter: [nondecreasing l].  min 5, numbers 5,4,6 (an undo / step back): the
   filter forwards 5 and 6 — not a suffix of the input. *)
Theorem c17_filter_nondecreasing_needed :
  exists min l,
    ~ nondecreasing l /\
    ~ suffix_of_input (T_num min) always l (fw_of (min_filter_step min) tt l).
Proof.
  exists 5, [c17_new 5; c17_new 4; c17_new 6]. split.
  - intro H. specialize (H 0%nat 1%nat (c17_new 5) (c17_new 4)).
    assert (Hc : enum (c17_new 5) <= enum (c17_new 4)) by (apply H; [lia|reflexivity|reflexivity]).
    vm_compute in Hc. apply Hc. reflexivity.
  - intros [_ H]. specialize (H 0%nat (c17_new 5)).
    assert (Hf : first_at (T_num 5) [c17_new 5; c17_new 4; c17_new 6] 0)
      by (apply first_index_some; vm_compute; reflexivity).
    specialize (H Hf eq_refl). vm_compute in H. discriminate.
Qed.
Print Assumptions c17_filter_nondecreasing_needed.

(* ---- (g) the number gator has no first-streamable rule: exclusive gator at 0 < first = 2 drops
   block 2, where the number gate (same setting) forwards it. *)
Theorem c17_numgator_no_first_rule :
  exists first target l,
    target < first /\ (exists e l', l = e :: l' /\ enum e = first) /\
    fw_of (num_gator_step target true) false l <> l /\
    fw_of (num_gate_step first target 15000%Z) (g_init false) l = l.
Proof.
  exists 2, 0, [c17_new 2; c17_new 3].
  split; [reflexivity|]. split; [eexists; eexists; split; reflexivity|].
  split; vm_compute; [discriminate|reflexivity].
Qed.
Print Assumptions c17_numgator_no_first_rule.

(* ---- (h) id gates, empty target id: the opening block is the constant 2, not the first
   streamable block.  first = 1: block 1 is held back; a stream that starts above 2 (first = 3)
   never opens the gate and runs into the hold-off error. *)
Theorem c17_id_empty_target_constant_2 :
  fw_of (id_gate_step [] 15000%Z) (g_init true) [c17_new 1; c17_new 2; c17_new 3]
    = [c17_new 2; c17_new 3] /\
  run (id_gate_step [] 2%Z) (g_init true) [c17_new 3; c17_new 4; c17_new 5]
    = [Hold; Hold; HoldErr].
Proof. vm_compute. split; reflexivity. Qed.
Print Assumptions c17_id_empty_target_constant_2.
End C17.

Module C19.
(* U2 hypothesis audit — C19 (block range algebra, ParseRange).
   Hypotheses of the property theorems (Spec/C19_Spec.v):
     range_ok r                      every theorem except c19_contains / c19_parse_total
     0 < chunk                       c19_split_partial / c19_split_exact
     e + sz < 2^64 (start + sz when open-ended)   c19_next, c19_isnext
     sz <= start                     c19_previous
     exists m, in_range r m          c19_reached, second clause
     a, b < 2^63                     c19_parse_total, third clause
     b - b mod sz + sz < 2^64        c19_constructors, NewRangeContaining
   Each theorem below is a closed witness (vm_compute) that the conclusion of the theorem fails
   without the hypothesis.  (u64 n / chunk < 2^64 only say "the argument is a uint64".) *)
Import BV.Base.Prelude BV.Base.Decimal BV.Model.Range BV.Spec.C19_Spec.
Local Open Scope N_scope.

Definition c19_max : N := 18446744073709551615.   (* 2^64 - 1 *)

(* ---- c19_next: guard [e + sz < two64] (bounded) ----
   [2^64-10, 2^64-5].Next(10) is the INVERTED range [2^64-5, 5]: not the range the theorem
   describes, not a constructed range, and it contains no number at all. *)
Theorem c19_next_nowrap_needed :
  exists r sz e, range_ok r /\ rend r = Some e /\ ~ e + sz < two64 /\
    next r sz <> mkRange e (Some (e + sz)) (rexs r) (rexe r) /\
    ~ range_ok (next r sz) /\
    next r sz = mkRange (c19_max - 4) (Some 5) false false /\
    contains (next r sz) (c19_max - 4) = false /\ contains (next r sz) 0 = false /\
    contains (next r sz) c19_max = false /\
    size (next r sz) = Some sz.
Proof.
  exists (mkRange (c19_max - 9) (Some (c19_max - 4)) false false), 10, (c19_max - 4).
  split; [unfold range_ok, u64; vm_compute; repeat split; reflexivity|].
  split; [reflexivity|]. split; [vm_compute; discriminate|].
  split; [vm_compute; discriminate|].
  split; [intros [_ [_ H]]; vm_compute in H; discriminate|].
  repeat split; vm_compute; reflexivity.
Qed.
Print Assumptions c19_next_nowrap_needed.

(* open-ended: [2^64-5, oo).Next(10) = [5, oo): a range that CONTAINS the low numbers *)
Theorem c19_next_nowrap_needed_open :
  exists r sz, range_ok r /\ rend r = None /\ ~ rstart r + sz < two64 /\
    next r sz <> mkRange (rstart r + sz) None (rexs r) (rexe r) /\
    next r sz = mkRange 5 None false true /\
    contains r 7 = false /\ contains (next r sz) 7 = true.
Proof.
  exists (mkRange (c19_max - 4) None false true), 10.
  split; [unfold range_ok, u64; vm_compute; split; [reflexivity|exact I]|].
  split; [reflexivity|]. split; [vm_compute; discriminate|].
  split; [vm_compute; discriminate|]. repeat split; vm_compute; reflexivity.
Qed.
Print Assumptions c19_next_nowrap_needed_open.

(* ---- c19_previous: guard [sz <= rstart r] ----
   [5,10].Previous(10) = [2^64-5, 5] (inverted); open-ended [5,oo).Previous(10) = [2^64-5, oo). *)
Theorem c19_previous_guard_needed :
  exists r sz, range_ok r /\ ~ sz <= rstart r /\
    previous r sz <> mkRange (rstart r - sz) (Some (rstart r)) (rexs r) (rexe r) /\
    previous r sz = mkRange (c19_max - 4) (Some 5) false false /\
    ~ range_ok (previous r sz) /\ contains (previous r sz) 3 = false /\
    previous (mkRange 5 None false true) sz = mkRange (c19_max - 4) None false true.
Proof.
  exists (mkRange 5 (Some 10) false false), 10.
  split; [unfold range_ok, u64; vm_compute; repeat split; reflexivity|].
  split; [vm_compute; intro H; apply H; reflexivity|].
  split; [vm_compute; discriminate|]. split; [vm_compute; reflexivity|].
  split; [intros [_ [_ H]]; vm_compute in H; discriminate|].
  split; vm_compute; reflexivity.
Qed.
Print Assumptions c19_previous_guard_needed.

(* ---- c19_isnext: same guard as Next: IsNext answers true for the wrapped range and false for the
   range of the interval arithmetic ---- *)
Theorem c19_isnext_nowrap_needed :
  exists r nx sz e, range_ok r /\ rend r = Some e /\ ~ e + sz < two64 /\
    is_next r nx sz = true /\ nx <> mkRange e (Some (e + sz)) (rexs r) (rexe r) /\
    is_next r (mkRange e (Some (e + sz)) (rexs r) (rexe r)) sz = false.
Proof.
  exists (mkRange (c19_max - 9) (Some (c19_max - 4)) false false),
         (mkRange (c19_max - 4) (Some 5) false false), 10, (c19_max - 4).
  split; [unfold range_ok, u64; vm_compute; repeat split; reflexivity|].
  split; [reflexivity|]. split; [vm_compute; discriminate|].
  split; [vm_compute; reflexivity|]. split; [vm_compute; discriminate|vm_compute; reflexivity].
Qed.
Print Assumptions c19_isnext_nowrap_needed.

(* ---- c19_size: [range_ok r] — on an inverted range (as Next / Previous produce them when they
   wrap) Size is the wrapped difference, not end - start ---- *)
Theorem c19_size_range_ok_needed :
  exists r e, rend r = Some e /\ ~ range_ok r /\
    size r <> Some (e - rstart r) /\ size r = Some (c19_max - 4).
Proof.
  exists (mkRange 10 (Some 5) false false), 5.
  split; [reflexivity|]. split; [intros [_ [_ H]]; vm_compute in H; discriminate|].
  split; vm_compute; [discriminate|reflexivity].
Qed.
Print Assumptions c19_size_range_ok_needed.

(* ---- c19_reached, second clause: hypothesis [exists m, in_range r m] (non-empty range).
   (5,6) is a constructed range (ParseRange "5-6" with both exclusive options) that contains no
   number; "no later number belongs to the range" holds at n = 4 but ReachedEndBlock(4) = false. *)
Theorem c19_reached_nonempty_needed :
  exists r n, range_ok r /\ u64 n /\ ~ (exists m, in_range r m) /\
    parse_range [53;45;54] true true = ParseOk r /\
    reached r n = false /\ (rend r <> None /\ forall m, n < m -> ~ in_range r m).
Proof.
  exists (mkRange 5 (Some 6) true true), 4.
  split; [unfold range_ok, u64; vm_compute; repeat split; reflexivity|].
  split; [vm_compute; reflexivity|].
  assert (Hempty : forall m, ~ in_range (mkRange 5 (Some 6) true true) m).
  { intros m [H1 H2]. cbn in H1, H2. lia. }
  split; [intros [m Hm]; exact (Hempty m Hm)|].
  split; [vm_compute; reflexivity|]. split; [vm_compute; reflexivity|].
  split; [discriminate|]. intros m _. apply Hempty.
Qed.
Print Assumptions c19_reached_nonempty_needed.

(* ---- c19_split_*: [0 < chunk] — chunk size 0 on any constructed range: divide by zero ---- *)
Theorem c19_split_chunk_pos_needed :
  exists r, range_ok r /\ split r 0 = SplitPanic.
Proof.
  exists (mkRange 10 (Some 20) false false).
  split; [unfold range_ok, u64; vm_compute; repeat split; reflexivity|vm_compute; reflexivity].
Qed.
Print Assumptions c19_split_chunk_pos_needed.

(* ---- c19_split_*: [range_ok r].
   (i) start = end, the value of r.Next(0): Split returns [r], which is not a list of constructed
   ranges (chunks_shape fails);
   (ii) an inverted range, the value of [2^64-15, 2^64-5].Next(105) = [2^64-5, 100]: it contains no
   number, yet Split(10) returns 11 chunks [2^64-5,0],[0,10],…,[90,100] that contain 0..100. *)
Theorem c19_split_range_ok_needed :
  (let r := next (mkRange 10 (Some 15) false false) 0 in
   r = mkRange 15 (Some 15) false false /\ split r 5 = SplitOk [r] /\ ~ chunks_shape r 5 [r]) /\
  (let r0 := mkRange (c19_max - 14) (Some (c19_max - 4)) false false in
   let r := next r0 105 in
   range_ok r0 /\ r = mkRange (c19_max - 4) (Some 100) false false /\
   (forall n, n < two64 -> contains r n = false) /\
   exists l, split r 10 = SplitOk l /\ length l = 11%nat /\
     exists c, In c l /\ contains c 50 = true).
Proof.
  split.
  - cbv zeta. split; [vm_compute; reflexivity|]. split; [vm_compute; reflexivity|].
    intros (_ & _ & _ & _ & _ & H).
    destruct (H _ (or_introl eq_refl)) as (_ & _ & (_ & _ & Hlt) & _).
    vm_compute in Hlt. discriminate.
  - cbv zeta. split; [unfold range_ok, u64; vm_compute; repeat split; reflexivity|].
    split; [vm_compute; reflexivity|].
    split.
    { intros n Hn. change (next _ 105) with (mkRange (c19_max - 4) (Some 100) false false).
      unfold contains. cbn [rstart rend rexs rexe andb].
      destruct (n <? c19_max - 4) eqn:E1; [reflexivity|].
      apply N.ltb_ge in E1.
      assert (E2 : (100 <? n) = true) by (apply N.ltb_lt; unfold c19_max in E1; lia).
      rewrite E2. reflexivity. }
    eexists. split; [vm_compute; reflexivity|]. split; [reflexivity|].
    exists (mkRange 50 (Some 60) false false). split; [|vm_compute; reflexivity].
    simpl. do 6 right. left. reflexivity.
Qed.
Print Assumptions c19_split_range_ok_needed.

(* ---- c19_parse_total, third clause: [a < two63], [b < two63] — heights from 2^63 on are 64-bit
   heights the constructors accept, but ParseRange (ParseInt, 64 bits SIGNED) answers an error ---- *)
Theorem c19_parse_below_two63_needed :
  exists a b, a < b /\ b < two64 /\ ~ b < two63 /\
    parse_range (print_dec a ++ 45 :: print_dec b) false false = ParseErr /\
    new_inclusive_range a b = CtorOk (mkRange a (Some b) false false).
Proof.
  exists 5, two63. split; [reflexivity|]. split; [reflexivity|].
  split; [vm_compute; discriminate|]. split; vm_compute; reflexivity.
Qed.
Print Assumptions c19_parse_below_two63_needed.

(* ---- c19_constructors: NewRangeContaining guard [b - b mod sz + sz < two64] — panic (through
   mustNewRange) although the function has an error result ---- *)
Theorem c19_containing_nowrap_needed :
  exists b sz, u64 b /\ u64 sz /\ 0 < sz /\ ~ b - b mod sz + sz < two64 /\
    new_range_containing b sz = CtorPanic.
Proof.
  exists c19_max, 2. unfold u64. repeat split; vm_compute; try reflexivity; discriminate.
Qed.
Print Assumptions c19_containing_nowrap_needed.
End C19.

Module C20.
(* U2 hypothesis audit, C20 (block-stream server fan-out): necessity witnesses.
   Every theorem is closed (vm_compute on concrete inputs).  See notes_proof_U2/notes_C20.md. *)
Import BV.Base.Prelude BV.Model.BlockServer BV.Model.BlockServerSched BV.Spec.C20_Spec BV.Spec.C20_SchedSpec.
Local Open Scope Z_scope.

(* ------------------------------------------------------------------ C20_window, clause 4: NoDup P

   Without `NoDup P` the window is NOT the last `size` pushes, and not even the `size` most
   recently pushed distinct ids: size 3, pushes 1,2,3,1,4.  The re-push of the still buffered id 1
   does not refresh its position, so the push of 4 evicts 1 although 1 was pushed after 2 and 3.
   (Input inside the quantifier: "repeated block ids".  Replayed on the real code:
   TestU2_C20_RepushDoesNotRefresh.) *)
Definition c20_dup_ops : list op := [OPush 1; OPush 2; OPush 3; OPush 1; OPush 4]%N.

Theorem c20_nodup_needed :
  let P := pushes_of c20_dup_ops in
  let w := window (final true 3 c20_dup_ops) in
  ~ NoDup P /\
  w = [2; 3; 4]%N /\ lastz 3 P = [3; 1; 4]%N /\ w <> lastz 3 P /\
  (* 1 is among the three most recently pushed distinct ids, 2 is not; the window holds 2, not 1 *)
  In 1%N (lastz 3 P) /\ ~ In 2%N (lastz 3 P) /\ ~ In 1%N w /\ In 2%N w.
Proof.
  cbv zeta. split.
  - intro H. inversion H as [|x l Hn _]; subst. apply Hn. vm_compute. tauto.
  - vm_compute. repeat split; try tauto; try discriminate;
      intro H; repeat (destruct H as [H|H]; [discriminate H|]); exact H.
Qed.
Print Assumptions c20_nodup_needed.

(* ------------------------------------------------------------------ C20_window, clause 5: size > 0

   For size <= 0 the newest pushed block is not buffered (the window stays empty; Ready() is true).
   Inside the quantifier ("every buffer size"), and what the property text asks ("up to its
   size"): no defect. *)
Theorem c20_size_pos_needed :
  window (final true 0 [OPush 1%N]) = [] /\ window (final true (-1) [OPush 1%N]) = [] /\
  ~ In 1%N (window (final true 0 [OPush 1%N])) /\
  ready (final true 0 []) = true.
Proof. vm_compute. repeat split. tauto. Qed.
Print Assumptions c20_size_pos_needed.

(* ------------------------------------------------------------------ C20_ref_meaning: |B| <= cap

   The reference automaton started with a burst longer than the capacity violates its own queue
   bound.  Never met: `creation` gives cap = 200 + |B| (subscribe) or B = [] (attach). *)
Theorem c20_ref_cap_needed :
  let v := ref_sub 0 (mkView [] [1%N] false) [] in
  ~ (N.of_nat (length [1%N]) <= 0)%N /\ ~ (N.of_nat (length (v_q v)) <= 0)%N.
Proof. vm_compute. split; intro H; apply H; reflexivity. Qed.
Print Assumptions c20_ref_cap_needed.

(* ------------------------------------------------------------------ C20_sched_ready_stable: g_ppc = PIdle

   Inside PushBlock, between AppendHead and the eviction, the buffer holds size+1 blocks (the fix
   C20_fix_3 appends before evicting so that Ready() never flips back).  subscribe cannot see it
   (write lock); Ready() only compares Len() >= size.  Observable on the real code only through
   the hook VerifWindow (TestU2_C20_TransientOversize). *)
Definition c20_mid_push : cstate :=
  crun (cinit true 1 [1; 2]%N []) [TProd; TProd; TProd; TProd; TProd; TProd].

Theorem c20_idle_needed :
  g_ppc c20_mid_push = PAppended 2%N /\ g_bad c20_mid_push = false /\
  cwindow c20_mid_push = [1; 2]%N /\ spec_window 1 (g_pushed c20_mid_push) = [2]%N /\
  cwindow c20_mid_push <> spec_window 1 (g_pushed c20_mid_push) /\
  zlen (cwindow c20_mid_push) > 1 /\ cready c20_mid_push = true.
Proof. vm_compute. repeat split; discriminate. Qed.
Print Assumptions c20_idle_needed.

(* ------------------------------------------------------------------ C20_sched_producer_enabled, clause 2: g_wlock = None

   Between two PushBlock calls the producer DOES wait while a client is inside subscribe /
   unsubscribe (write lock): the time of the burst loop.  Bounded (clause 3), but not zero
   (TestU2_C20_SubscribeDelaysProducer measures it on the real code). *)
Definition c20_client_in_subscribe : cstate := crun (cinit true 1 [1]%N [0]) [TClient 0].

Theorem c20_wlock_free_needed :
  g_ppc c20_client_in_subscribe = PIdle /\ g_script c20_client_in_subscribe <> [] /\
  g_wlock c20_client_in_subscribe = Some 0%nat /\
  prod_enabled c20_client_in_subscribe = false /\
  cstep c20_client_in_subscribe TProd = c20_client_in_subscribe.
Proof. vm_compute. repeat split. discriminate. Qed.
Print Assumptions c20_wlock_free_needed.

(* ------------------------------------------------------------------ single producer (environment; both models have ONE producer thread)

   subscription.Push is "test len == cap / closed, then act"; the model's sub_push is that pair
   executed atomically, which is right for one producer (only consumers touch the channel in
   between, and they only make room).  c20_push_split shows the decomposition is faithful; the
   witness interleaves the two halves of two producers A and B (both hold the READ lock, which
   does not exclude them) on a subscription of capacity 1 that nobody reads:
     A tests (room), B tests (room), B sends, A sends -> A's send BLOCKS (producer blocked for ever);
     or: A tests (room), B tests, B sends, B's next push finds the queue full and closes the
     channel, A sends -> PANIC (send on closed channel).
   Same for the buffer: Len() > size / Tail() / Delete() are three calls; two producers that read
   the same Tail() delete one block for two appended ones and the window stays above its size. *)
Inductive c20_decision := C20_DClose | C20_DSkip | C20_DSend.

Definition c20_push_test (s : sub) : c20_decision :=
  if N.eqb (qlen s) (s_cap s) then C20_DClose else if s_closed s then C20_DSkip else C20_DSend.

Definition c20_push_act (d : c20_decision) (s : sub) (x : N) : sres :=
  match d with
  | C20_DClose => if s_once s then SOk s else chan_close (set_closed (set_once s))
  | C20_DSkip => SOk s
  | C20_DSend => chan_send s x
  end.

Lemma c20_push_split : forall s x, sub_push s x = c20_push_act (c20_push_test s) s x.
Proof.
  intros s x. unfold sub_push, c20_push_test, c20_push_act.
  destruct (N.eqb (qlen s) (s_cap s)); [reflexivity|]. destruct (s_closed s); reflexivity.
Qed.
Print Assumptions c20_push_split.

Theorem c20_single_producer_needed :
  let s0 := new_sub 1 in
  (* both producers pass the test on the same state *)
  c20_push_test s0 = C20_DSend /\
  exists s1, c20_push_act C20_DSend s0 2%N = SOk s1 /\            (* B sends *)
    c20_push_act C20_DSend s1 1%N = SBlock /\                      (* A's send blocks *)
    exists s2, sub_push s1 3%N = SOk s2 /\ s_chclosed s2 = true /\ (* B's next push closes *)
      c20_push_act C20_DSend s2 1%N = SPanic.                      (* A sends on a closed channel *)
Proof. vm_compute. split; [reflexivity|]. eexists. split; [reflexivity|]. split; [reflexivity|].
  eexists. repeat split. Qed.
Print Assumptions c20_single_producer_needed.

Theorem c20_single_producer_needed_buffer :
  (* size 1, window [1]; A appends 2, B appends 3; both see Len() = 3 > 1 and both read Tail() = 1 *)
  let b := buf_append_head 3 (buf_append_head 2 (buf_append_head 1 buf_new)) in
  buf_len b >? 1 = true /\ buf_tail b = Some 1%N /\
  exists b1 b2, buf_delete (Some 1%N) b = Some b1 /\ buf_delete (Some 1%N) b1 = Some b2 /\
    buf_all b2 = [2; 3]%N /\ buf_len b2 > 1.
Proof. vm_compute. repeat split. do 2 eexists. repeat split. Qed.
Print Assumptions c20_single_producer_needed_buffer.
End C20.

