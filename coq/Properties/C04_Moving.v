(* C04 property theorems for histories in which the LIB MOVES.  Proofs live in Proofs/Fk/MovingLibEvents.v and
   Proofs/C04_MovingProofs.v. *)
From BV Require Import Base.Prelude Model.Block Model.ForkDB Model.Forkable Spec.Consumer Spec.Universe
  Spec.C01_Spec Spec.C01_Moving_Spec Spec.C01_Roots_Spec Spec.C04_Spec Spec.C04_Moving_Spec Proofs.C04_MovingProofs.
Local Open Scope N_scope.

(* partial: a configured starting LIB (exclusive or inclusive) coherent with the history, LIB declarations in
   the class lib_ok_b, no empty parent ids; ANY handler oracle.  c04_full (Spec/C04_Spec.v) is the full
   statement; missing: hold-until-LIB discovery mode (LNone), a starting LIB incoherent with the history
   (histories with empty parent ids: next theorem). *)
Theorem c04_moving_lib_partial : c04_moving_lib_statement.
Proof. exact c04_moving_lib_proved. Qed.
Print Assumptions c04_moving_lib_partial.

(* the same for histories that may contain roots (blocks with an empty parent id): class moving_scope2_b of
   Spec/C01_Roots_Spec.v, which contains moving_scope_b *)
Theorem c04_moving_lib_roots_partial : c04_moving_lib_roots_statement.
Proof. exact c04_moving_lib_roots_proved. Qed.
Print Assumptions c04_moving_lib_roots_partial.

(* the monitor follows from the per-step shape alone, whatever produced the trace *)
Theorem c04_moving_shape_accepted : forall r0 firr m h t, rooted_mode r0 m ->
  c04m_run r0 firr [] r0 [] h t -> c04_b firr m h t = true.
Proof. intros r0 firr m h t Hm H. exact (c04m_run_accept r0 firr m h t Hm H). Qed.
Print Assumptions c04_moving_shape_accepted.

(* non-vacuity: a history that meets every hypothesis and in which the LIB moves twice (blocks 2 and 4 become
   final), block 3 is reported stalled, a reorganisation happens before any LIB move (junction = block 2) and
   another one right after a LIB move whose junction is the LIB block itself (4), a block is fed twice and a
   block lies under the LIB; the cursor LIB (third component) follows the announcements.  With a handler
   failing at call 8 the trace is cut and still accepted.  Inclusive mode delivers the LIB block first. *)
Definition c04m_ex_r0 : ref := mkR 1 10.
Definition c04m_ex_hist : list block :=
  [ mkBlock 2 11 1 10; mkBlock 3 12 2 10; mkBlock 4 12 2 10; mkBlock 5 13 4 11; mkBlock 6 14 5 12;
    mkBlock 7 13 4 12; mkBlock 8 14 7 12; mkBlock 9 15 8 12; mkBlock 3 12 2 10; mkBlock 20 9 19 8 ].
Definition c04m_ex_cfg (incl : bool) (fail : option N) : config :=
  mkCfg 0 incl false 1 false (mkFilter true true true true) fail.
Definition c04m_ex_view (e : event) := (estep e, bid (eblk e), ri (elib e), ejunc e, eidx e, ecount e).

Example c04_moving_nonvacuous :
  moving_scope_b c04m_ex_r0 c04m_ex_hist = true /\
  map c04m_ex_view (all_events (fk_run (c04m_ex_cfg false None) (fs_init (LExcl c04m_ex_r0)) c04m_ex_hist)) =
    [(SNew, 2, 1, None, 0, 0); (SNew, 3, 1, None, 0, 0);
     (SUndo, 3, 1, Some (mkR 2 11), 0, 1); (SNew, 4, 1, None, 0, 0); (SNew, 5, 1, None, 0, 0);
     (SIrr, 2, 2, None, 0, 1); (SNew, 6, 2, None, 0, 0);
     (SIrr, 4, 4, None, 0, 1); (SStalled, 3, 4, None, 0, 1);
     (SUndo, 6, 4, Some (mkR 4 12), 0, 2); (SUndo, 5, 4, Some (mkR 4 12), 1, 2);
     (SNew, 7, 4, None, 0, 0); (SNew, 8, 4, None, 0, 0); (SNew, 9, 4, None, 0, 0)] /\
  map c04m_ex_view (all_events (fk_run (c04m_ex_cfg false (Some 8)) (fs_init (LExcl c04m_ex_r0)) c04m_ex_hist)) =
    [(SNew, 2, 1, None, 0, 0); (SNew, 3, 1, None, 0, 0);
     (SUndo, 3, 1, Some (mkR 2 11), 0, 1); (SNew, 4, 1, None, 0, 0); (SNew, 5, 1, None, 0, 0);
     (SIrr, 2, 2, None, 0, 1); (SNew, 6, 2, None, 0, 0);
     (SIrr, 4, 4, None, 0, 1); (SStalled, 3, 4, None, 0, 1)] /\
  moving_scope_b c04m_ex_r0 (mkBlock 1 10 99 10 :: c04m_ex_hist) = true /\
  firstn 3 (map c04m_ex_view (all_events (fk_run (c04m_ex_cfg true None) (fs_init (LIncl c04m_ex_r0))
                                                 (mkBlock 1 10 99 10 :: c04m_ex_hist)))) =
    [(SNew, 1, 1, None, 0, 0); (SIrr, 1, 1, None, 0, 1); (SNew, 2, 1, None, 0, 0)].
Proof. vm_compute. repeat split. Qed.

(* non-vacuity of the roots class: a root (block 30, empty parent id) fed twice and a block under it are never
   delivered; the root is reported stalled when the LIB passes its height *)
Definition c04m_ex_roots : list block :=
  [ mkBlock 2 11 1 10; mkBlock 30 12 0 10; mkBlock 31 13 30 10; mkBlock 3 12 2 10; mkBlock 30 12 0 10;
    mkBlock 4 13 3 12 ].
Example c04_moving_roots_nonvacuous :
  moving_scope2_b c04m_ex_r0 c04m_ex_roots = true /\ moving_scope_b c04m_ex_r0 c04m_ex_roots = false /\
  map c04m_ex_view (all_events (fk_run (c04m_ex_cfg false None) (fs_init (LExcl c04m_ex_r0)) c04m_ex_roots)) =
    [(SNew, 2, 1, None, 0, 0); (SNew, 3, 1, None, 0, 0); (SNew, 4, 1, None, 0, 0);
     (SIrr, 2, 2, None, 0, 2); (SIrr, 3, 3, None, 1, 2); (SStalled, 30, 3, None, 0, 1)].
Proof. vm_compute. repeat split. Qed.
