(* C04 in the fixed-LIB class for histories that may contain ROOTS (blocks whose parent id is empty): property
   theorem only.  Statement in Spec/Roots_Fixed_Spec.v; proofs in Proofs/Fk/FixedLibEvents.v and
   Proofs/Roots_Fixed_Proofs.v. *)
From BV Require Import Base.Prelude Model.Block Model.ForkDB Model.Forkable Spec.Consumer Spec.Universe
  Spec.C01_Spec Spec.C04_Spec Spec.Roots_Fixed_Spec Proofs.Roots_Fixed_Proofs Properties.C04 Properties.C01_Roots_Fixed.
Local Open Scope N_scope.

(* partial: c04_fixed_lib_partial WITHOUT the hypothesis "no empty parent id" (c04_full in Spec/C04_Spec.v is
   the full statement) *)
Theorem c04_fixed_lib_roots_partial : c04_fixed_lib_roots_statement.
Proof. exact c04_fixed_lib_roots_proved. Qed.
Print Assumptions c04_fixed_lib_roots_partial.

(* non-vacuity: the history of Properties/C01_Roots_Fixed.v; the LIB block (a ROOT) is in the fork database,
   so the second switch (to a branch that hangs directly under the LIB) names the junction r0 *)
Example c04_roots_nonvacuous :
  c01_fixed_scope2_b rf_r0 rf_hist = true /\ c01_fixed_scope_b rf_r0 rf_hist = false /\
  map c04_ex_view (all_events (fk_run (rf_cfg false false None) (fs_init (LExcl rf_r0)) rf_hist)) =
    [(SNew, 2, None, 0, 0); (SNew, 3, None, 0, 0);
     (SUndo, 3, Some (mkR 2 11), 0, 1); (SNew, 4, None, 0, 0); (SNew, 5, None, 0, 0);
     (SUndo, 5, Some (mkR 1 10), 0, 3); (SUndo, 4, Some (mkR 1 10), 1, 3); (SUndo, 2, Some (mkR 1 10), 2, 3);
     (SNew, 6, None, 0, 0); (SNew, 7, None, 0, 0); (SNew, 8, None, 0, 0); (SNew, 9, None, 0, 0)].
Proof. vm_compute. repeat split. Qed.
