(* C07 property theorems only (building blocks of the join logic; the full statement
   Spec/C07_Spec.v:C07_seamless_full is NOT proved).  Proofs live in Proofs/C07_*.v. *)
From BV Require Import Base.Prelude Model.Block Model.ForkDB Model.Forkable Model.ForkableLookups
  Model.Burst Model.Hub Model.CursorResolver Model.Joining Check.Burst_Check Check.C07_Check
  Spec.C06_Spec Spec.C07_Spec Proofs.C07_File Proofs.C07_Live Proofs.C07_Handoff.
Local Open Scope N_scope.

Theorem c07_join_only_on_first_delivery : C07_join_only_on_first_delivery.
Proof. exact c07_join_only_on_first_delivery_proof. Qed.
Print Assumptions c07_join_only_on_first_delivery.

Theorem c07_file_prefix_then_live : C07_file_prefix_then_live.
Proof. exact c07_file_prefix_then_live_proof. Qed.
Print Assumptions c07_file_prefix_then_live.

Theorem c07_live_phase_fifo : C07_live_phase_fifo.
Proof. exact c07_live_phase_fifo_proof. Qed.
Print Assumptions c07_live_phase_fifo.

Theorem c07_num_handoff_partial : C07_num_handoff_partial.
Proof. exact c07_num_handoff_partial_proof. Qed.
Print Assumptions c07_num_handoff_partial.

Theorem c07_burst_starts_at : C07_burst_starts_at.
Proof. exact c07_burst_starts_at_proof. Qed.
Print Assumptions c07_burst_starts_at.

(* ================================================================== non-vacuity *)

(* chain 1..8 (ids 10n+1); merged files hold 1..4; the hub was bootstrapped at block 6 with window
   4..6 and blocks 7, 8 still to arrive *)
Definition a (n p l : N) : block := mkBlock (10 * n + 1) n (10 * p + 1) l.
Definition nv_merged : list block := [a 1 0 0; a 2 1 1; a 3 2 1; a 4 3 2].
Definition nv_w : world :=
  match initial_world 1 0 (a 2 1 1) [a 3 2 1; a 4 3 2; a 5 4 3; a 6 5 4; a 7 6 5; a 8 7 6] 4 2 with
  | Some w => w | None => mkW hub_init [] end.
Definition nv_c : jcfg := mkJ 1 0 5 0 1 None 0 0 0.      (* from block 1, default filter, no stop block *)
Definition fe := file_event SNewIrr.

Example c07_nonvacuous_world :
  h_ready (w_hub nv_w) = true /\ hub_lowest (w_hub nv_w) = 4 /\ map bnum (w_rest nv_w) = [7; 8].
Proof. vm_compute. repeat split. Qed.

(* number-mode handoff at block 4 *)
Example c07_nonvacuous_handoff :
  j_mode nv_c = 0 /\ filter_pass nv_c SNewIrr = true /\ chain_ok nv_merged /\
  file_delivery nv_merged 1 1000000000000 (j_bundle nv_c) = [a 1 0 0; a 2 1 1; a 3 2 1] ++ a 4 3 2 :: [] /\
  Forall (fun b => bnum b < 4) [a 1 0 0; a 2 1 1; a 3 2 1] /\ 4 <= bnum (a 4 3 2) /\
  (j_stop nv_c = 0 \/ bnum (a 4 3 2) <= j_stop nv_c) /\ h_ready (w_hub nv_w) = true /\
  (exists burst, blocks_from_num (h_f (w_hub nv_w)) (bnum (a 4 3 2)) = BOk burst) /\
  (let res := file_phase 100 nv_c nv_w 4 (map fe nv_merged) JNil 0 [] [] in
   map (fun e => (estep e, bnum (eblk e))) (fst res) =
     [(SNewIrr, 1); (SNewIrr, 2); (SNewIrr, 3); (SNewIrr, 4); (SNew, 5); (SNew, 6); (SNew, 7); (SNew, 8)] /\
   snd res = JNil).
Proof.
  split; [reflexivity|]. split; [reflexivity|].
  split; [split; [cbn; repeat split; lia|cbn; repeat (constructor; [cbn; lia|]); constructor]|].
  split; [vm_compute; reflexivity|].
  split; [repeat constructor; cbn; lia|]. split; [cbn; lia|]. split; [left; reflexivity|].
  split; [vm_compute; reflexivity|].
  split; [eexists; vm_compute; reflexivity|].
  vm_compute. split; reflexivity.
Qed.

(* an Undo and an Irreversible event at joinable heights, and a New one below the bound, before the
   joining event: they are delivered (default filter drops the Irreversible one), not joined on *)
Definition nv_pre : list event :=
  [mkEv SUndo (mkBlock 52 5 41 3) (mkR 52 5) (mkR 52 5) (mkR 21 2) (Some (mkR 41 4)) 0 0;
   file_event SIrr (a 4 3 2); fe (a 3 2 1)].
Definition nv_p : fpos := mkFP nv_w 4 0 [(1, 1)].        (* one pause: after the first event push block 7 *)

Example c07_nonvacuous_first_delivery :
  Forall (fun e => matches_new (estep e) = false \/ bnum (eblk e) < fp_lowest nv_p) nv_pre /\
  no_stop nv_c nv_pre /\
  map (fun e => (estep e, bnum (eblk e))) (delivered nv_c nv_pre) = [(SUndo, 5); (SNewIrr, 3)].
Proof.
  split; [repeat constructor; cbn; auto; right; lia|].
  split; [repeat constructor|]. vm_compute. reflexivity.
Qed.

Definition nv_c5 : jcfg := mkJ 1 5 5 0 1 None 0 0 0.     (* the hub keeps 5 blocks below its LIB *)

Example c07_nonvacuous_prefix_then_live :
  no_join nv_c5 nv_p nv_pre /\ no_stop nv_c5 nv_pre /\
  (exists burst, join_try nv_c5 (fp_w (fafter nv_c5 nv_p nv_pre)) (fp_lowest (fafter nv_c5 nv_p nv_pre)) (fe (a 4 3 2)) = Some burst) /\
  map bnum (w_rest (fp_w (fafter nv_c5 nv_p nv_pre))) = [8] /\        (* the pause was taken *)
  (let res := file_phase_at 100 nv_c5 nv_p (nv_pre ++ fe (a 4 3 2) :: []) JNil [] in
   map (fun e => (estep e, bnum (eblk e))) (fst res) =
     [(SUndo, 5); (SNewIrr, 3); (SNewIrr, 4); (SNewIrr, 5); (SNew, 6); (SNew, 7); (SNew, 8)] /\ snd res = JNil).
Proof.
  split; [vm_compute; repeat split|]. split; [repeat constructor|].
  split; [eexists; vm_compute; reflexivity|]. split; [vm_compute; reflexivity|].
  vm_compute. split; reflexivity.
Qed.

(* a stop block inside the file phase *)
Example c07_nonvacuous_stop :
  let c := mkJ 1 0 5 0 1 None 2 0 0 in
  let p := mkFP nv_w 4 0 [] in
  no_join c p ([fe (a 1 0 0)] ++ [fe (a 2 1 1)]) /\ no_stop c [fe (a 1 0 0)] /\ stops c (fe (a 2 1 1)) = true.
Proof. vm_compute. repeat split. constructor; [reflexivity|constructor]. Qed.

(* the live phase on its own: FIFO with a pause and idle pushes, ending at the head *)
Example c07_nonvacuous_live :
  exists burst, blocks_from_num (h_f (w_hub nv_w)) 5 = BOk burst /\
    let res := live_phase 100 nv_c nv_w burst 0 [(1, 1)] [] in
    map (fun e => (estep e, bnum (eblk e))) (fst res) = [(SNew, 5); (SNew, 6); (SNew, 7); (SNew, 8)] /\
    snd res = JNil /\
    map (fun e => (estep e, bnum (eblk e))) (push_all nv_c nv_w) = [(SNew, 7); (SIrr, 5); (SNew, 8); (SIrr, 6)].
Proof. eexists. split; [vm_compute; reflexivity|]. vm_compute. repeat split. Qed.
