(* C07 over whole runs - property theorems only.  Statements: Spec/C07_Compose_Spec.v; proofs: Proofs/C07_Compose*.v. *)
From BV Require Import Base.Prelude Model.Block Model.ForkDB Model.Forkable Model.ForkableLookups
  Model.Burst Model.Hub Model.CursorResolver Model.Joining
  Spec.Consumer Spec.Universe Check.Burst_Check Check.C07_Check Spec.C06_Spec Spec.C07_Spec Spec.C09_Spec
  Spec.C07_Compose_Spec Spec.C07_Unfixed_Spec Proofs.C07_ComposeCheck Proofs.C07_Compose Proofs.C07_ComposeCursor Proofs.C07_ComposeCursorAll Proofs.C07_ComposeTarget Proofs.C07_FullRefuted Proofs.C07_FilesFinal.
Local Open Scope N_scope.

(* number mode, default filter, no stop block: hub_agrees of C07_seamless_full discharged from the world
   (hub of a hub run over the universe, canon a run of it, eventual tip); no agreement hypothesis between files and
   hub is left since the join is made on identity *)
Theorem c07_seamless_num : C07_seamless_num.
Proof. exact c07_seamless_num_proof. Qed.
Print Assumptions c07_seamless_num.

(* cursor mode out of the files (C06's output glued to the hub's burst); partial: the case in which the hub
   serves the cursor itself when the stream starts is excluded by hypothesis (no handoff: C05's subject) *)
Theorem c07_seamless_cursor_partial : C07_seamless_cursor_files.
Proof. exact c07_seamless_cursor_files_proof. Qed.
Print Assumptions c07_seamless_cursor_partial.

(* cursor mode when the hub serves the cursor itself: C05's burst applied to the consumer (given as one run of
   blocks of the universe above the cursor-LIB block), then live *)
Theorem c07_seamless_cursor_live : C07_seamless_cursor_live.
Proof. exact c07_seamless_cursor_live_proof. Qed.
Print Assumptions c07_seamless_cursor_live.

(* cursor mode, both cases: the cursor-mode conjunct with the consumer's forked blocks in the universe *)
Theorem c07_seamless_cursor : C07_seamless_cursor.
Proof. exact c07_seamless_cursor_proof. Qed.
Print Assumptions c07_seamless_cursor.

(* target-cursor mode, cursor block on canon; partial: a stored cursor block is on the hub's chain (target_on_chain).
   files_on_hub is no longer needed (fix "target join on identity"; before it: c07_target_join_by_number_refuted in
   Properties/C07_More.v) *)
Theorem c07_seamless_target_partial : C07_seamless_target.
Proof. exact c07_seamless_target_proof. Qed.
Print Assumptions c07_seamless_target_partial.

(* the statement C07_seamless_full of Spec/C07_Spec.v itself is refutable (a run that ends waiting for the next
   merged file): why the theorems above have the conclusions they have *)
Theorem c07_seamless_full_refuted : ~ C07_seamless_full.
Proof. exact c07_seamless_full_refuted_proof. Qed.
Print Assumptions c07_seamless_full_refuted.

(* BEFORE the fix "join on identity" the join was made on the block number: with every hypothesis of
   c07_seamless_num the old file phase (Spec/C07_Unfixed_Spec.v) delivers a sequence that breaks the discipline;
   the fixed model behaves differently on that input (and, by c07_seamless_num, correctly) *)
Theorem c07_join_by_number_refuted : C07_join_by_number_refuted.
Proof. exact c07_join_by_number_refuted_proof. Qed.
Print Assumptions c07_join_by_number_refuted.

(* files_agree (the hypothesis the join by number needed; no longer used) follows from "every merged block is at
   or below the ready hub's LIB" *)
Theorem c07_files_final_agree : C07_files_final_agree.
Proof. exact c07_files_final_agree_proof. Qed.
Print Assumptions c07_files_final_agree.

(* ... and so does files_on_hub (the extra hypothesis of the target-cursor theorem) *)
Theorem c07_files_final_on_hub : C07_files_final_on_hub.
Proof. exact c07_files_final_on_hub_proof. Qed.
Print Assumptions c07_files_final_on_hub.

(* ---- non-vacuity ---- *)

(* linear chain 2..20, block n declares n-2 final, plus a sibling 116 of block 16; the hub bootstrapped from
   12..14 + live 15 (ready, lowest 13, head 15); still to arrive: 116, 16, 17 (reorganisation), 18, 19, 20;
   merged files hold 2..14 (merged_end 15); stream from block 5, default filter, no stop block *)
Definition cx_b (n : N) : block := mkBlock n n (n - 1) (n - 2).
Definition cx_f16 : block := mkBlock 116 16 15 13.
Definition cx_canon : list block := map cx_b [2;3;4;5;6;7;8;9;10;11;12;13;14;15;16;17;18;19;20].
Definition cx_U : list block := cx_canon ++ [cx_f16].
Definition cx_c : jcfg := mkJ 2 0 10 0 5 None 0 0 0.
Definition cx_l : list (block * pass) := [(cx_b 15, PBlocks [cx_b 12; cx_b 13; cx_b 14])].
Definition cx_w : world := mkW (hub_run 2 0 hub_init cx_l) [cx_f16; cx_b 16; cx_b 17; cx_b 18; cx_b 19; cx_b 20].
Definition cx_merged : list block := filter (fun b => bnum b <? 15) cx_canon.
Definition cx_show (x : list event * jerr) := (map (fun e => (estep e, bid (eblk e))) (fst x), snd x).

(* every hypothesis of c07_seamless_num is met by this input (any schedule ps) *)
Example c07_compose_nonvacuous_hyps :
  wf_b cx_U = true /\ lib_ok_b LNone cx_U = true /\
  hub_of_universe cx_U cx_c cx_w /\
  chain_ok cx_canon /\ incl cx_canon cx_U /\
  eventual_tip cx_c cx_w cx_canon /\
  j_mode cx_c = 0 /\ j_filter cx_c = 0 /\ j_stop cx_c = 0 /\ 0 < j_bundle cx_c /\
  Forall (fun b => bnum b < file_bound) cx_merged /\
  (exists b, In b cx_canon /\ bnum b = run_start cx_c cx_w).
Proof.
  split; [vm_compute; reflexivity|]. split; [vm_compute; reflexivity|].
  split.
  { split.
    - exists cx_l. split; [|reflexivity]. intros b p [H|[]]. injection H as <- <-. split.
      + unfold cx_U. apply in_or_app. left. vm_compute. tauto.
      + intros x Hx. unfold cx_U. apply in_or_app. left. vm_compute in Hx. vm_compute. tauto.
    - intros b Hb. vm_compute in Hb. vm_compute. tauto. }
  split.
  { split.
    - vm_compute. repeat split.
    - apply (NoDup_map_inv (fun x => x)). rewrite map_id. vm_compute.
      repeat (constructor; [cbn; intros H; repeat (destruct H as [H|H]; [discriminate|]); exact H|]). constructor. }
  split; [intros b Hb; unfold cx_U; apply in_or_app; left; exact Hb|].
  split; [apply eventual_tip_b_sound; vm_compute; reflexivity|].
  split; [reflexivity|]. split; [reflexivity|]. split; [reflexivity|]. split; [reflexivity|].
  split.
  { apply Forall_forall. intros b Hb.
    assert (H : forallb (fun b => bnum b <? file_bound) cx_merged = true) by (vm_compute; reflexivity).
    rewrite forallb_forall in H. apply N.ltb_lt. apply H. exact Hb. }
  exists (cx_b 5). split; [vm_compute; tauto | vm_compute; reflexivity].
Qed.

(* the run: 5..12 from the files, join at 13 (the hub's lowest block), burst 13..15, then live: the sibling 116
   is delivered, undone when 17 arrives, and 16..20 follow; the stream ends waiting at the head and the consumer
   holds canon from 5 on.  With a schedule that lets the hub (kept = 0) run away from the files before the join
   the stream ends waiting for the next merged file, having delivered the merged blocks (first disjunct) *)
Example c07_compose_nonvacuous_run :
  cx_show (stream_run cx_c cx_w [(3, 1); (12, 2)] 15 cx_merged [])
  = ([(SNewIrr, 5); (SNewIrr, 6); (SNewIrr, 7); (SNewIrr, 8); (SNewIrr, 9); (SNewIrr, 10); (SNewIrr, 11);
      (SNewIrr, 12); (SNewIrr, 13); (SNew, 14); (SNew, 15); (SNew, 116); (SUndo, 116); (SNew, 16); (SNew, 17);
      (SNew, 18); (SNew, 19); (SNew, 20)], JNil) /\
  cx_show (stream_run cx_c cx_w [(3, 6)] 15 cx_merged [])
  = ([(SNewIrr, 5); (SNewIrr, 6); (SNewIrr, 7); (SNewIrr, 8); (SNewIrr, 9); (SNewIrr, 10); (SNewIrr, 11);
      (SNewIrr, 12); (SNewIrr, 13); (SNewIrr, 14)], JNil).
Proof. vm_compute. split; reflexivity. Qed.

(* cursor mode: the consumer stopped at New 109 (a sibling of block 9 that only it and the forked-blocks store
   know), cursor LIB 6: it holds 7, 8 (canonical) and 109 (forked).  The hub (lowest block 13) does not serve
   that cursor; the resolver undoes 109, the files bring 9..12, the join is at 13, the rest is live. *)
Definition cx_f9 : block := mkBlock 109 9 8 6.
Definition cx_cu : cursor := mkCursor SNew (mkR 109 9) (mkR 109 9) (mkR 6 6).
Definition cx_cc : jcfg := mkJ 2 0 10 1 0 (Some cx_cu) 0 0 0.

Example c07_compose_nonvacuous_cursor :
  hub_of_universe cx_U cx_cc cx_w /\
  eventual_tip cx_cc cx_w cx_canon /\
  j_mode cx_cc = 1 /\ j_cursor cx_cc = Some cx_cu /\ j_filter cx_cc = 0 /\ j_stop cx_cc = 0 /\ 0 < j_bundle cx_cc /\
  (h_ready (w_hub cx_w) = true -> forall evs, blocks_from_cursor (h_f (w_hub cx_w)) cx_cu <> BOk evs) /\
  from_num (rn (cu_lib cx_cu)) cx_canon = cx_b 6 :: map cx_b [7;8;9;10;11;12;13;14;15;16;17;18;19;20] /\
  bref (cx_b 6) = cu_lib cx_cu /\
  cursor_state cx_canon [cx_f9] cx_cu (cx_b 6) [cx_b 7; cx_b 8] [cx_f9] /\
  cx_show (stream_run cx_cc cx_w [(3, 1); (12, 2)] 15 cx_merged [cx_f9])
  = ([(SUndo, 109); (SNewIrr, 9); (SNewIrr, 10); (SNewIrr, 11); (SNewIrr, 12); (SNewIrr, 13); (SNew, 14); (SNew, 15);
      (SNew, 116); (SUndo, 116); (SNew, 16); (SNew, 17); (SNew, 18); (SNew, 19); (SNew, 20)], JNil).
Proof.
  destruct c07_compose_nonvacuous_hyps as (_ & _ & Hhub & _ & _ & _ & _ & _).
  split; [exact Hhub|].
  split; [apply eventual_tip_b_sound; vm_compute; reflexivity|].
  split; [reflexivity|]. split; [reflexivity|]. split; [reflexivity|]. split; [reflexivity|]. split; [reflexivity|].
  split.
  { intros _ evs. assert (E : blocks_from_cursor (h_f (w_hub cx_w)) cx_cu = BErr) by (vm_compute; reflexivity).
    rewrite E. discriminate. }
  split; [vm_compute; reflexivity|]. split; [reflexivity|].
  split.
  { unfold cursor_state. split.
    - cbn. repeat split; lia.
    - split; [repeat constructor; vm_compute; tauto|]. split.
      + constructor; [|constructor]. unfold off_canon. vm_compute. intros H.
        repeat (destruct H as [H|H]; [discriminate|]). exact H.
      + split; [intros _; reflexivity|]. split; [intros H; discriminate|].
        intros x [<-|[]]. vm_compute. reflexivity. }
  vm_compute. reflexivity.
Qed.

(* files_final holds in the example world for merged files up to block 13 (the hub's LIB when it becomes ready) *)
Example c07_compose_nonvacuous_files_final :
  files_final cx_c cx_w (filter (fun b => bnum b <? 14) cx_canon).
Proof. apply files_final_b_sound. vm_compute. reflexivity. Qed.

(* cursor mode, the hub serves the cursor: the consumer stopped at New 14 with cursor LIB 13 (it holds 14);
   the hub (13..15) answers with the burst [New 15]; then live *)
Definition cx_cu3 : cursor := mkCursor SNew (mkR 14 14) (mkR 15 15) (mkR 13 13).
Definition cx_c3 : jcfg := mkJ 2 0 10 1 0 (Some cx_cu3) 0 0 0.

Example c07_compose_nonvacuous_cursor_live :
  hub_of_universe cx_U cx_c3 cx_w /\ eventual_tip cx_c3 cx_w cx_canon /\
  j_mode cx_c3 = 1 /\ j_cursor cx_c3 = Some cx_cu3 /\ j_filter cx_c3 = 0 /\ j_stop cx_c3 = 0 /\
  In (cx_b 13) cx_canon /\ consumer_at cx_U cx_cu3 (cx_b 13) [cx_b 14] /\
  h_ready (w_hub cx_w) = true /\
  (exists burst, blocks_from_cursor (h_f (w_hub cx_w)) cx_cu3 = BOk burst /\ map (fun e => (estep e, bid (eblk e))) burst = [(SNew, 15)]) /\
  cx_show (stream_run cx_c3 cx_w [(3, 1); (12, 2)] 15 cx_merged [])
  = ([(SNew, 15); (SNew, 116); (SUndo, 116); (SNew, 16); (SNew, 17); (SNew, 18); (SNew, 19); (SNew, 20)], JNil).
Proof.
  destruct c07_compose_nonvacuous_hyps as (_ & _ & Hhub & _ & _ & _ & _ & _).
  split; [exact Hhub|].
  split; [apply eventual_tip_b_sound; vm_compute; reflexivity|].
  split; [reflexivity|]. split; [reflexivity|]. split; [reflexivity|]. split; [reflexivity|].
  split; [vm_compute; tauto|].
  split.
  { split; [reflexivity|]. split.
    - constructor; [|constructor]. unfold cx_U. apply in_or_app. left. vm_compute. tauto.
    - left. split; [discriminate|]. split; [cbn; repeat split; lia | reflexivity]. }
  split; [vm_compute; reflexivity|].
  split; [eexists; split; vm_compute; reflexivity|].
  vm_compute. reflexivity.
Qed.

(* target-cursor mode: start 5, target cursor on block 14 (in the files); the files bring 5..12, the join at 13
   asks the hub "through the cursor": the retained chain from 13 on; then live *)
Definition cx_cu4 : cursor := mkCursor SNew (mkR 14 14) (mkR 15 15) (mkR 12 12).
Definition cx_c4 : jcfg := mkJ 2 0 10 2 5 (Some cx_cu4) 0 0 0.

Example c07_compose_nonvacuous_target :
  hub_of_universe cx_U cx_c4 cx_w /\ eventual_tip cx_c4 cx_w cx_canon /\
  target_on_chain cx_c4 cx_w cx_cu4 /\
  j_mode cx_c4 = 2 /\ j_cursor cx_c4 = Some cx_cu4 /\ j_filter cx_c4 = 0 /\ j_stop cx_c4 = 0 /\ 0 < j_bundle cx_c4 /\
  In (cx_b 14) cx_canon /\ bref (cx_b 14) = cu_blk cx_cu4 /\
  (exists b, In b cx_canon /\ bnum b = run_start cx_c4 cx_w) /\
  cx_show (stream_run cx_c4 cx_w [(3, 1); (12, 2)] 15 cx_merged [])
  = ([(SNewIrr, 5); (SNewIrr, 6); (SNewIrr, 7); (SNewIrr, 8); (SNewIrr, 9); (SNewIrr, 10); (SNewIrr, 11);
      (SNewIrr, 12); (SNewIrr, 13); (SNew, 14); (SNew, 15); (SNew, 116); (SUndo, 116); (SNew, 16); (SNew, 17);
      (SNew, 18); (SNew, 19); (SNew, 20)], JNil).
Proof.
  destruct c07_compose_nonvacuous_hyps as (_ & _ & Hhub & _ & _ & _ & _ & _).
  split; [exact Hhub|].
  split; [apply eventual_tip_b_sound; vm_compute; reflexivity|].
  split; [apply target_on_chain_b_sound; vm_compute; reflexivity|].
  split; [reflexivity|]. split; [reflexivity|]. split; [reflexivity|]. split; [reflexivity|]. split; [reflexivity|].
  split; [vm_compute; tauto|]. split; [reflexivity|].
  split; [exists (cx_b 5); split; [vm_compute; tauto | vm_compute; reflexivity]|].
  vm_compute. reflexivity.
Qed.
