(* C03 property theorems for histories in which the LIB MOVES.  Proofs live in Proofs/Fk/MovingLibEvents.v,
   Proofs/Fk/MovingLibChoice.v and Proofs/C03_MovingProofs.v. *)
From BV Require Import Base.Prelude Model.Block Model.ForkDB Model.Forkable Model.ForkableLookups
  Spec.Consumer Spec.Universe Spec.ForkChoice Spec.C01_Spec Spec.C01_Moving_Spec Spec.C01_Roots_Spec Spec.C03_Spec Spec.C03_Moving_Spec
  Check.Fk_Check Check.Fk_Props_Check Proofs.C03_MovingProofs.
Local Open Scope N_scope.

(* partial: a configured starting LIB (exclusive or inclusive) coherent with the history, LIB declarations in
   the class lib_ok_b, no empty parent ids, handler that never fails.  c03_full (Spec/C03_Spec.v) is the full
   statement; missing: a starting LIB incoherent with the history, histories outside lib_ok_b. *)
Theorem c03_moving_lib_partial : c03_moving_lib_statement.
Proof. exact c03_moving_lib_proved. Qed.
Print Assumptions c03_moving_lib_partial.

(* the same for histories that may contain roots (blocks with an empty parent id): class moving_scope2_b of
   Spec/C01_Roots_Spec.v, which contains moving_scope_b *)
Theorem c03_moving_lib_roots_partial : c03_moving_lib_roots_statement.
Proof. exact c03_moving_lib_roots_proved. Qed.
Print Assumptions c03_moving_lib_roots_partial.

(* the reference fork choice has the meaning the property text gives to "the LIB becomes the tip's ancestor at
   the tip's declared LIB number if that ancestor has been received and lies above the current LIB" *)
Theorem c03_reference_lib_rule : c03_reference_lib_meaning.
Proof. exact c03_reference_lib_meaning_proved. Qed.
Print Assumptions c03_reference_lib_rule.

(* non-vacuity: a history that meets every hypothesis in which the LIB moves three times (to blocks 2, 4, 8),
   the tip switches branch after a LIB move, a block is re-fed, a block lies under the LIB, a block arrives
   before its parent (11 before 10); listed: (reference tip, reference LIB, last final) after every block,
   without and with all-blocks-trigger; the model's HeadInfo ids are the reference tips *)
Definition c03m_ex_r0 : ref := mkR 1 10.
Definition c03m_ex_hist : list block :=
  [ mkBlock 2 11 1 10; mkBlock 3 12 2 10; mkBlock 4 12 2 10; mkBlock 5 13 4 11; mkBlock 6 14 5 12;
    mkBlock 7 13 4 12; mkBlock 8 14 7 12; mkBlock 9 15 8 12; mkBlock 3 12 2 10; mkBlock 20 9 19 8;
    mkBlock 11 16 10 12; mkBlock 10 15 8 12; mkBlock 12 16 9 14 ].
Definition c03m_ex_cfg (alltrig : bool) (kept : N) : config :=
  mkCfg 0 false false kept alltrig (mkFilter true true true true) None.

Fixpoint c03m_ex_ref (cfg : config) (fc : fc_state) (h : list block) : list (N * N * N) :=
  match h with
  | [] => []
  | b :: h' => let fc' := fc_step (c_first cfg) (c_incl cfg) (c_alltrig cfg) fc b in
               (oblock_id (fc_tip fc'), ri (fc_lib fc'), oblock_id (fc_final fc')) :: c03m_ex_ref cfg fc' h'
  end.

Example c03_moving_nonvacuous :
  moving_scope_b c03m_ex_r0 c03m_ex_hist = true /\
  c03m_ex_ref (c03m_ex_cfg false 1) (fc_init (LExcl c03m_ex_r0)) c03m_ex_hist =
    [(2, 1, 0); (3, 1, 0); (3, 1, 0); (5, 2, 2); (6, 4, 4); (6, 4, 4); (6, 4, 4); (9, 4, 4);
     (9, 4, 4); (9, 4, 4); (9, 4, 4); (9, 4, 4); (12, 8, 8)] /\
  c03m_ex_ref (c03m_ex_cfg true 1) (fc_init (LExcl c03m_ex_r0)) c03m_ex_hist =
    [(2, 1, 0); (3, 1, 0); (4, 1, 0); (5, 2, 2); (6, 4, 4); (7, 4, 4); (8, 4, 4); (9, 4, 4);
     (9, 4, 4); (9, 4, 4); (9, 4, 4); (10, 4, 4); (12, 8, 8)] /\
  map (fun o => match o_head o with Some (r, _) => ri r | None => 0 end)
      (fk_obs (c03m_ex_cfg false 1) (fs_init (LExcl c03m_ex_r0)) c03m_ex_hist) = [2; 3; 3; 5; 6; 6; 6; 9; 9; 9; 9; 9; 12] /\
  (* the premise of the noise-deletion clause holds for the re-fed block 3 and the below-LIB block 20 *)
  (let fc := fc_after (c03m_ex_cfg false 1) (fc_init (LExcl c03m_ex_r0)) (firstn 8 c03m_ex_hist) in
   fc_step 0 false false fc (mkBlock 3 12 2 10) = fc) /\
  (let fc := fc_after (c03m_ex_cfg false 1) (fc_init (LExcl c03m_ex_r0)) (firstn 9 c03m_ex_hist) in
   fc_step 0 false false fc (mkBlock 20 9 19 8) = fc) /\
  (* retention really matters in this history: with kept = 0 blocks are purged that kept = 5 retains, the runs agree *)
  map (fun e => bid (eb e)) (store (db (last (fk_states (c03m_ex_cfg false 0) (fs_init (LExcl c03m_ex_r0)) c03m_ex_hist)
                                             (fs_init (LExcl c03m_ex_r0))))) <>
  map (fun e => bid (eb e)) (store (db (last (fk_states (c03m_ex_cfg false 5) (fs_init (LExcl c03m_ex_r0)) c03m_ex_hist)
                                             (fs_init (LExcl c03m_ex_r0))))) /\
  fk_run (c03m_ex_cfg false 0) (fs_init (LExcl c03m_ex_r0)) c03m_ex_hist =
  fk_run (c03m_ex_cfg false 5) (fs_init (LExcl c03m_ex_r0)) c03m_ex_hist.
Proof. vm_compute. repeat split. intros H. discriminate. Qed.
