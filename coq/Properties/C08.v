(* C08 property theorems only.  Proofs live in Proofs/C08_Abstract.v (arbitrary event production) and
   Proofs/C08_Hub.v (instantiation with the hub model). *)
From BV Require Import Base.Prelude Model.Block Model.ForkDB Model.Forkable Model.ForkableLookups
  Model.Burst Model.Hub Model.HubSubs Spec.C08_Spec Proofs.C08_Abstract Proofs.C08_Hub.
Local Open Scope N_scope.

(* ---- A. arbitrary per-push event lists ---- *)

Theorem c08_abs_exactly_once : C08_abs_exactly_once.
Proof. exact c08_abs_exactly_once_proof. Qed.
Print Assumptions c08_abs_exactly_once.

Theorem c08_abs_lone : C08_abs_lone.
Proof. exact c08_abs_lone_proof. Qed.
Print Assumptions c08_abs_lone.

Theorem c08_abs_isolation : C08_abs_isolation.
Proof. exact c08_abs_isolation_proof. Qed.
Print Assumptions c08_abs_isolation.

(* ---- B. the hub model ---- *)

Theorem c08_exactly_once : C08_exactly_once.
Proof. exact c08_exactly_once_proof. Qed.
Print Assumptions c08_exactly_once.

Theorem c08_refused : C08_refused.
Proof. exact c08_refused_proof. Qed.
Print Assumptions c08_refused.

Theorem c08_isolation_hub : C08_isolation_hub.
Proof. exact c08_isolation_hub_proof. Qed.
Print Assumptions c08_isolation_hub.

Theorem c08_isolation : C08_isolation_subs.
Proof. exact c08_isolation_subs_proof. Qed.
Print Assumptions c08_isolation.

Theorem c08_lone : C08_lone.
Proof. exact c08_lone_proof. Qed.
Print Assumptions c08_lone.

Theorem c08_registration_atomic : C08_registration_atomic.
Proof. exact c08_registration_atomic_proof. Qed.
Print Assumptions c08_registration_atomic.

(* ---- non-vacuity ---- *)

(* a linear chain, each block declaring the block two below it final; the hub is bootstrapped from
   blocks 2..4 with live block 5: ready, head 5, LIB 3.  Each further push produces two events
   (New for the block, Irreversible for the new LIB). *)
Definition c08_blk (n : N) : block := mkBlock n n (n - 1) (n - 2).
Definition c08_h0 : hub :=
  let '(h, _, _) := hub_live 2 0 hub_init (PBlocks [c08_blk 2; c08_blk 3; c08_blk 4]) (c08_blk 5) in h.
Definition c08_pushes (from : nat) (n : nat) : list op := map (fun k => OPush (c08_blk (N.of_nat k))) (seq from n).

(* a served request between two pushes, a refused one (start far above the head), a drain: the
   hypothesis of c08_exactly_once holds with a burst of 3 events; the subscription is live and has
   burst ++ 4 later events, 5 of them taken *)
Example c08_nonvacuous_live :
  let pre := [OPush (c08_blk 6)] in
  let post := [OPush (c08_blk 7); OSub (RNum 100); ODrain 0; OPush (c08_blk 8)] in
  let h1 := hub_after 2 0 c08_h0 (pushes pre) in
  h_ready c08_h0 = true /\
  (exists burst, request_burst h1 (RNum 4) = Some burst /\ length burst = 3%nat) /\
  request_burst (hub_after 2 0 h1 [c08_blk 7]) (RNum 100) = None /\
  length (push_events 2 0 h1 (pushes post)) = 4%nat /\
  (exists s got, hview (run 2 0 (start (mkSH c08_h0 [])) (pre ++ OSub (RNum 4) :: post)) 0 = Some (s, got) /\
                 ms_dropped s = false /\ length got = 5%nat /\ length (ms_queue s) = 2%nat /\ ms_cap s = 103).
Proof.
  cbv zeta. split; [vm_compute; reflexivity|]. split; [eexists; vm_compute; split; reflexivity|].
  split; [vm_compute; reflexivity|]. split; [vm_compute; reflexivity|].
  eexists. eexists. vm_compute. repeat split; reflexivity.
Qed.

(* two subscriptions created together (burst of 2, capacity 102), then 60 pushes (120 events).
   Subscription 0 never reads: its queue is full after 50 pushes and the 51st push drops it, with
   exactly the first 102 items.  Subscription 1 is drained after every push and stays live with all
   122 items.  Whether 0 is never drained (and dropped) or drained as well (and live) does not change
   what 1 has, nor the hub. *)
Definition c08_slow_fast : list op :=
  [OSub (RNum 4); OSub (RNum 4)] ++ flat_map (fun o => [o; ODrain 1]) (c08_pushes 6 60).
Definition c08_both_fast : list op :=
  [OSub (RNum 4); OSub (RNum 4)] ++ flat_map (fun o => [o; ODrain 0; ODrain 1]) (c08_pushes 6 60).

Example c08_nonvacuous_dropped :
  let st := run 2 0 (start (mkSH c08_h0 [])) c08_slow_fast in
  let st' := run 2 0 (start (mkSH c08_h0 [])) c08_both_fast in
  (exists s got, hview st 0 = Some (s, got) /\ ms_dropped s = true /\ ms_cap s = 102 /\
                 length (got ++ ms_queue s) = 102%nat) /\
  (exists s got, hview st 1 = Some (s, got) /\ ms_dropped s = false /\ length (got ++ ms_queue s) = 122%nat) /\
  (exists s got, hview st' 0 = Some (s, got) /\ ms_dropped s = false /\ length (got ++ ms_queue s) = 122%nat) /\
  erase_drains 0 c08_slow_fast = erase_drains 0 c08_both_fast /\
  hview st 1 = hview st' 1 /\
  sh_hub (hs_sh st) = sh_hub (hs_sh st').
Proof.
  cbv zeta. split; [eexists; eexists; vm_compute; repeat split; reflexivity|].
  split; [eexists; eexists; vm_compute; repeat split; reflexivity|].
  split; [eexists; eexists; vm_compute; repeat split; reflexivity|].
  split; [vm_compute; reflexivity|]. split; vm_compute; reflexivity.
Qed.

(* registration between two pushes: the hypothesis of c08_registration_atomic holds, the later push
   produces two events, both queued behind the burst *)
Example c08_nonvacuous_registration :
  let st1 := run 2 0 (start (mkSH c08_h0 [])) ([] ++ [OPush (c08_blk 6)]) in
  (exists burst, request_burst (sh_hub (hs_sh st1)) (RNum 5) = Some burst /\ length burst = 2%nat) /\
  length (snd (push_block 2 0 (hs_sh (run 2 0 st1 [OSub (RNum 5)])) (c08_blk 7))) = 2%nat.
Proof. cbv zeta. split; [eexists; vm_compute; split; reflexivity | vm_compute; reflexivity]. Qed.
