(* C02 property theorems only.  Proofs live in Proofs/Fk/MovingLib*.v and Proofs/C02_Proofs.v. *)
From BV Require Import Base.Prelude Model.Block Model.ForkDB Model.Forkable Spec.Consumer Spec.Universe
  Spec.C01_Moving_Spec Spec.C02_Spec Proofs.C02_Proofs Properties.C01_Moving.
Local Open Scope N_scope.

(* partial: configured starting LIB (exclusive or inclusive) coherent with the history, any handler oracle
   (c02_full in Spec/C02_Spec.v is the full statement; the gap is named in driver/thm_C02.json) *)
Theorem c02_moving_lib_partial : c02_moving_lib_statement.
Proof. exact c02_moving_lib_proved. Qed.
Print Assumptions c02_moving_lib_partial.

(* non-vacuity: the history of Properties/C01_Moving.v (LIB moves four times, once by three blocks up to
   the head itself, once in the same step as a reorganisation; six Irreversible and five Stalled events)
   meets every hypothesis, with and without retained final blocks *)
Example c02_nonvacuous :
  moving_scope_b mv_r0 mv_hist = true /\
  f_irr (c_filter (mv_cfg 0 false)) = true /\
  length (filter (fun e => step_eqb (estep e) SIrr) (all_events (fk_run (mv_cfg 0 false) (fs_init (LExcl mv_r0)) mv_hist))) = 6%nat /\
  length (filter (fun e => step_eqb (estep e) SStalled) (all_events (fk_run (mv_cfg 0 false) (fs_init (LExcl mv_r0)) mv_hist))) = 5%nat /\
  length (filter (fun e => step_eqb (estep e) SIrr) (all_events (fk_run (mv_cfg 3 true) (fs_init (LExcl mv_r0)) mv_hist))) = 6%nat /\
  length (filter (fun e => step_eqb (estep e) SIrr) (all_events (fk_run mv_cfg_fail (fs_init (LExcl mv_r0)) mv_hist))) = 2%nat /\
  moving_scope_b mv_r0 mv_hist_incl = true /\
  length (filter (fun e => step_eqb (estep e) SIrr) (all_events (fk_run mv_cfg_incl (fs_init (LIncl mv_r0)) mv_hist_incl))) = 7%nat.
Proof. vm_compute. repeat split; reflexivity. Qed.

(* discovery mode (no configured LIB, hold-until-LIB), any handler oracle *)
Theorem c02_discovery_partial : c02_discovery_statement.
Proof. exact c02_discovery_proved. Qed.
Print Assumptions c02_discovery_partial.

Example c02_discovery_nonvacuous :
  disc_scope_b dv_hist = true /\ c_hold (dv_cfg 1 None) = true /\ f_irr (c_filter (dv_cfg 1 None)) = true /\
  length (filter (fun e => step_eqb (estep e) SIrr) (all_events (fk_run (dv_cfg 1 None) (fs_init LNone) dv_hist))) = 6%nat /\
  length (filter (fun e => step_eqb (estep e) SStalled) (all_events (fk_run (dv_cfg 1 None) (fs_init LNone) dv_hist))) = 1%nat.
Proof. vm_compute. repeat split; reflexivity. Qed.
