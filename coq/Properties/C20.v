(* C20 property theorems only.  Proofs live in Proofs/. *)
From BV Require Import Base.Prelude Model.BlockServer Model.BlockServerSched Spec.C20_Spec Spec.C20_SchedSpec
  Check.C20_Check Proofs.C20_Proofs Proofs.C20_SchedProofs Proofs.C20_CheckSound.
Local Open Scope Z_scope.

(* ---- every sequence of operations *)

Theorem c20_window : C20_window.
Proof. exact c20_window_proof. Qed.
Print Assumptions c20_window.

Theorem c20_window_unbuffered : C20_window_unbuffered.
Proof. exact c20_window_unbuffered_proof. Qed.
Print Assumptions c20_window_unbuffered.

Theorem c20_total : C20_total.
Proof. exact c20_total_proof. Qed.
Print Assumptions c20_total.

Theorem c20_delivery : C20_delivery.
Proof. exact c20_delivery_proof. Qed.
Print Assumptions c20_delivery.

Theorem c20_ref_meaning : C20_ref_meaning.
Proof. exact c20_ref_meaning_proof. Qed.
Print Assumptions c20_ref_meaning.

Theorem c20_nonblocking : C20_nonblocking.
Proof. exact c20_nonblocking_proof. Qed.
Print Assumptions c20_nonblocking.

(* ---- every schedule of the interleaving model *)

Theorem c20_sched_safe : C20_sched_safe.
Proof. exact c20_sched_safe_proof. Qed.
Print Assumptions c20_sched_safe.

Theorem c20_sched_delivery : C20_sched_delivery.
Proof. exact c20_sched_delivery_proof. Qed.
Print Assumptions c20_sched_delivery.

Theorem c20_sched_producer_enabled : C20_sched_producer_enabled.
Proof. exact c20_sched_producer_enabled_proof. Qed.
Print Assumptions c20_sched_producer_enabled.

Theorem c20_sched_ready_stable : C20_sched_ready_stable.
Proof. exact c20_sched_ready_stable_proof. Qed.
Print Assumptions c20_sched_ready_stable.

(* ---- the boolean checker run on the implementation's observations is sound *)

Theorem c20_seq_check_sound :
  forall buffered size ops obs fin,
    seq_property buffered size ops obs fin = true ->
    windows_ok buffered size ops obs.
Proof. exact seq_property_sound. Qed.
Print Assumptions c20_seq_check_sound.

Theorem c20_sub_check_sound :
  forall k cap B post obs fin,
    sub_check k cap B post obs fin = true ->
    exists q cl, nth_error fin k = Some (SObs q cl cap) /\
      mkView (recv_of k post obs) q cl = ref_sub cap (mkView [] B false) (proj k true post).
Proof. exact sub_check_sound. Qed.
Print Assumptions c20_sub_check_sound.

Theorem c20_conc_check_sound :
  forall size P s, conc_sub_ok size P s = true -> conc_sub_spec size P s.
Proof. exact conc_sub_ok_sound. Qed.
Print Assumptions c20_conc_check_sound.

(* ---- the code before the fix patches (refutations, witnesses replayed on the real code:
        harness corpus and notes_C20.md) *)

Theorem c20_orig_negative_burst_panics : C20_orig_negative_burst_panics.
Proof. exact c20_orig_negative_burst_panics_proof. Qed.
Print Assumptions c20_orig_negative_burst_panics.

Theorem c20_orig_size0_panics : C20_orig_size0_panics.
Proof. exact c20_orig_size0_panics_proof. Qed.
Print Assumptions c20_orig_size0_panics.

Theorem c20_orig_window_shrinks : C20_orig_window_shrinks.
Proof. exact c20_orig_window_shrinks_proof. Qed.
Print Assumptions c20_orig_window_shrinks.

Theorem c20_orig_ready_flips : C20_orig_ready_flips.
Proof. exact c20_orig_ready_flips_proof. Qed.
Print Assumptions c20_orig_ready_flips.

(* ---- non-vacuity *)

(* a sequential history with a repeated id, a negative and a huge burst, a slow subscriber whose
   capacity-2 channel overflows (closed once) next to one that is read, and an unsubscribe *)
Definition c20_demo_ops : list op :=
  [OPush 2; OPush 3; OPush 4; OPush 4; OSubscribe (-5); OSubscribe 9223372036854775807;
   OAttach 2; OPush 5; OConsume 1; OPush 6; OPush 7; OConsume 1; OUnsubscribe 0; OPush 8]%N.

Example c20_nonvacuous_seq :
  let sv := final true 3 c20_demo_ops in
  window sv = [6;7;8]%N /\ ready sv = true /\
  map (fun s => (s_recv s, s_q s, s_chclosed s, s_ncloses s, s_cap s)) (sv_subs sv) =
    [ ([], [5;6;7], false, 0, 200);                       (* negative burst: no burst; unsubscribed before 8 *)
      ([2;3], [4;5;6;7;8], false, 0, 203);                (* huge burst: the 3 buffered blocks *)
      ([], [5;6], true, 1, 2) ]%N /\                      (* overflow at 7: closed exactly once *)
  Forall (fun o => is_bad o = false) (trace true 3 c20_demo_ops).
Proof. vm_compute. repeat split; repeat constructor. Qed.

(* a schedule in which client 0 subscribes in the middle of the script, the producer is caught inside
   PushBlock(2) before offering the block to client 0 (client 1 is waiting for the write lock), and the consumer has already read one block *)
Example c20_nonvacuous_sched :
  let st := crun (cinit true 2 [1;2;3]%N [1; -1])
                 [TProd; TProd; TProd; TProd; TClient 0; TClient 0; TCons 0; TProd; TProd; TClient 1; TProd] in
  g_bad st = false /\ g_pushed st = [1;2]%N /\ g_ppc st = PLoop 2%N [0%nat] /\
  pending st 0 = true /\
  option_map (fun s => (s_recv s, s_q s)) (sub_of st 0) = Some ([1]%N, []) /\
  prod_enabled st = true.
Proof. vm_compute. repeat split. Qed.
