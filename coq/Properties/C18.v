(* C18 property theorems only.  Proofs live in Proofs/C18_Store.v and Proofs/C18_Proofs.v.
   The theorems cover the first sentence of the property (bound after a LIB move, retention by hash
   and by number) and the absence of lookup crashes; they are the `_partial` part of [C18_full]
   (Spec/C18_Spec.v), whose canonical-lookup, head-information and lowest-servable clauses need the
   chain invariant of the Forkable. *)
From BV Require Import Base.Prelude Model.Block Model.ForkDB Model.Forkable Model.ForkableLookups
  Spec.C18_Spec Proofs.C18_Store Proofs.C18_Proofs.
Local Open Scope N_scope.

Theorem c18_purge_bound : C18_purge_bound.
Proof. exact c18_purge_bound_proof. Qed.
Print Assumptions c18_purge_bound.

Theorem c18_step_bounded_partial : C18_step_bounded.
Proof. exact c18_step_bounded_proof. Qed.
Print Assumptions c18_step_bounded_partial.

Theorem c18_step_purge_or_keep_partial : C18_step_purge_or_keep.
Proof. exact c18_step_purge_or_keep_proof. Qed.
Print Assumptions c18_step_purge_or_keep_partial.

Theorem c18_step_retained_partial : C18_step_retained.
Proof. exact c18_step_retained_proof. Qed.
Print Assumptions c18_step_retained_partial.

Theorem c18_step_incoming_partial : C18_step_incoming.
Proof. exact c18_step_incoming_proof. Qed.
Print Assumptions c18_step_incoming_partial.

Theorem c18_step_found_partial : C18_step_found.
Proof. exact c18_step_found_proof. Qed.
Print Assumptions c18_step_found_partial.

Theorem c18_held_found_partial : C18_held_found.
Proof. exact c18_held_found_proof. Qed.
Print Assumptions c18_held_found_partial.

Theorem c18_lookups_total : C18_lookups_total.
Proof. exact c18_lookups_total_proof. Qed.
Print Assumptions c18_lookups_total.

Theorem c18_run_bounded_partial : C18_run_bounded.
Proof. exact c18_run_bounded_proof. Qed.
Print Assumptions c18_run_bounded_partial.

Theorem c18_run_retained_partial : C18_run_retained.
Proof. exact c18_run_retained_proof. Qed.
Print Assumptions c18_run_retained_partial.

Theorem c18_run_received_found_partial : C18_run_received_found.
Proof. exact c18_run_received_found_proof. Qed.
Print Assumptions c18_run_received_found_partial.

Theorem c18_run_received_at_lib_partial : C18_run_received_at_lib.
Proof. exact c18_run_received_at_lib_proof. Qed.
Print Assumptions c18_run_received_at_lib_partial.

Theorem c18_run_lookups_total : C18_run_lookups_total.
Proof. exact c18_run_lookups_total_proof. Qed.
Print Assumptions c18_run_lookups_total.

(* ---- non-vacuity ---- *)

(* LIB 1 configured, retention 1; a fork at height 3 (ids 3 and 13); block 4 declares LIB 2, block 5
   declares LIB 4, block 6 keeps it *)
Definition c18_nv_cfg : config := mkCfg 1 false true 1 false (mkFilter true true true true) None.
Definition c18_nv_s0 : fstate := fs_init (LExcl (mkR 1 1)).
Definition c18_nv_h : list block :=
  [mkBlock 2 2 1 1; mkBlock 3 3 2 1; mkBlock 13 3 2 1; mkBlock 4 4 3 2; mkBlock 5 5 4 4; mkBlock 6 6 5 4].

(* the step of block 5 (position 4) moves an existing LIB from 2 to 4: the hypotheses of
   c18_step_bounded / c18_run_bounded hold, the cutoff is 3 and it bites: block 2 is gone while the
   fork block 13 (never sent) and block 3 stay *)
Example c18_nonvacuous_bounded :
  exists s4 s5,
    nth_error (states_of c18_nv_cfg c18_nv_s0 c18_nv_h) 4 = Some s4 /\
    nth_error (states_of c18_nv_cfg c18_nv_s0 c18_nv_h) 5 = Some s5 /\
    has_lib (db s4) = true /\ libref (db s4) = mkR 2 2 /\ libref (db s5) = mkR 4 4 /\
    cutoff (db s5) (c_kept c18_nv_cfg) = 3 /\
    get_block_by_hash s4 2 = true /\ get_block_by_hash s5 2 = false /\
    map (fun e => bid (eb e)) (store (db s5)) = [3; 13; 4; 5].
Proof. eexists. eexists. vm_compute. repeat split; reflexivity. Qed.

(* the fork block 13, received at position 2, meets every hypothesis of c18_run_received_found up
   to the last state (m = 6): it is taken and new, no later block has its id, and it stays at or
   above LIB - kept = 3; both lookups return it *)
Example c18_nonvacuous_received :
  let b := mkBlock 13 3 2 1 in
  nth_error c18_nv_h 2 = Some b /\
  (exists s2, nth_error (states_of c18_nv_cfg c18_nv_s0 c18_nv_h) 2 = Some s2 /\ stores_incoming c18_nv_cfg s2 b = true) /\
  forallb (fun s => cutoff (db s) (c_kept c18_nv_cfg) <=? bnum b) (skipn 3 (states_of c18_nv_cfg c18_nv_s0 c18_nv_h)) = true /\
  forallb (fun b' => negb (bid b' =? bid b)) (skipn 3 c18_nv_h) = true /\
  (exists s6, nth_error (states_of c18_nv_cfg c18_nv_s0 c18_nv_h) 6 = Some s6 /\
              get_block_by_hash s6 13 = true /\ all_blocks_at s6 3 = Some [3; 13]).
Proof.
  cbv zeta. split; [reflexivity|]. split; [eexists; vm_compute; split; reflexivity|].
  split; [vm_compute; reflexivity|]. split; [vm_compute; reflexivity|].
  eexists. vm_compute. repeat split; reflexivity.
Qed.

(* a duplicate: feeding block 5 again in the last state is taken, its id has a link, the store stays *)
Example c18_nonvacuous_duplicate :
  exists s6, nth_error (states_of c18_nv_cfg c18_nv_s0 c18_nv_h) 6 = Some s6 /\
    takes_incoming c18_nv_cfg s6 (mkBlock 5 5 4 4) = true /\ exists_link (db s6) 5 = true /\
    stores_incoming c18_nv_cfg s6 (mkBlock 7 7 6 4) = true /\
    (* and a block below the LIB is not taken *)
    takes_incoming c18_nv_cfg s6 (mkBlock 12 2 1 1) = false.
Proof. eexists. vm_compute. repeat split; reflexivity. Qed.
