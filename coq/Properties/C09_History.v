(* C09 over histories: theorems about the EXISTING models Model/Hub.v, Model/Forkable.v, Model/Burst.v.
   Statements: Spec/C09_History_Spec.v. *)
From BV Require Import Base.Prelude Model.Block Model.ForkDB Model.Forkable Model.ForkableLookups Model.Burst Model.Hub
  Spec.Consumer Spec.Universe Check.Fk_Check Check.Burst_Check Spec.C09_Spec Spec.C09_History_Spec Proofs.Hub.C09_History.
Local Open Scope N_scope.

(* the hub's Forkable evolves by ProcessBlock on the fed blocks, bootstrap passes included, and no call fails *)
Theorem c09_hub_is_forkable_run : C09_hub_is_forkable_run.
Proof. exact c09_hub_is_forkable_run_proof. Qed.
Print Assumptions c09_hub_is_forkable_run.

(* the retained canonical chain above the LIB is the never-disconnected consumer's pending chain; at and below the
   LIB the retained blocks and the consumer's final blocks agree on their common end *)
Theorem c09_chain_is_consumer_chain : C09_chain_is_consumer_chain.
Proof. exact c09_chain_is_consumer_chain_proof. Qed.
Print Assumptions c09_chain_is_consumer_chain.

(* ---- non-vacuity: the hub of Properties/C09.v (bootstrap pass 11, 12, 13, 23, live 14, then live 15; first
   streamable block 1, two final blocks kept).  The Forkable was fed 11, 12, 13, 23, 14, 15. *)
Definition hy_b1 := mkBlock 11 1 10 0.
Definition hy_b2 := mkBlock 12 2 11 1.
Definition hy_b3 := mkBlock 13 3 12 1.
Definition hy_b3' := mkBlock 23 3 12 1.
Definition hy_b4 := mkBlock 14 4 13 2.
Definition hy_b5 := mkBlock 15 5 14 3.
Definition hy_U := [hy_b1; hy_b2; hy_b3; hy_b3'; hy_b4; hy_b5].
Definition hy_l := [(hy_b4, PBlocks [hy_b1; hy_b2; hy_b3; hy_b3']); (hy_b5, PNil)].
Definition hy_h := hub_run 1 2 hub_init hy_l.
Definition hy_hist := [hy_b1; hy_b2; hy_b3; hy_b3'; hy_b4; hy_b5].

Example c09h_nonvacuous_hypotheses :
  wf_b hy_U = true /\ lib_ok_b LNone hy_U = true /\ h_ready hy_h = true /\
  forallb (fun bp => existsb (block_eqb (fst bp)) hy_U &&
                     match snd bp with PNil => true | PBlocks bl => forallb (fun x => existsb (block_eqb x) hy_U) bl end) hy_l = true.
Proof. vm_compute. repeat split. Qed.

Example c09h_nonvacuous_run :
  h_f hy_h = state_after (hub_config 1 2) (fs_init LNone) hy_hist (length hy_hist) /\
  map snd (fk_run (hub_config 1 2) (fs_init LNone) hy_hist) = [ROk; ROk; ROk; ROk; ROk; ROk].
Proof. vm_compute. repeat split. Qed.

(* the pieces of the conclusion, computed: segment 11..15, LIB 13; above it 14, 15 = the consumer's pending blocks;
   at and below it 11, 12, 13 = the consumer's final blocks (nothing purged yet, nothing retained below the root) *)
Example c09h_nonvacuous_conclusion :
  match cons_fold cons0 (all_events (fk_run (hub_config 1 2) (fs_init LNone) hy_hist)),
        complete_segment (db (h_f hy_h)) (bref hy_b5) with
  | Some c, Some (sg, true) =>
      last_sent (h_f hy_h) = Some hy_b5 /\ hd_error (cs_stack c) = Some hy_b5 /\
      map sid sg = [11; 12; 13; 14; 15] /\ ri (libref (db (h_f hy_h))) = 13 /\
      map bid (cons_pending c) = [14; 15] /\ map bid (cons_final c) = [11; 12; 13]
  | _, _ => False
  end.
Proof. vm_compute. repeat split. Qed.
