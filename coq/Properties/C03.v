(* C03 property theorems only.  Proofs live in Proofs/Fk/FixedLibChoice.v and Proofs/C03_Proofs.v. *)
From BV Require Import Base.Prelude Model.Block Model.ForkDB Model.Forkable Spec.Consumer Spec.Universe
  Spec.ForkChoice Spec.C01_Spec Spec.C03_Spec Check.Fk_Check Check.Fk_Props_Check Proofs.C03_Proofs.
Local Open Scope N_scope.

(* partial: exclusive starting LIB that the history never moves, no injected handler failure
   (c03_full in Spec/C03_Spec.v is the full statement; the gap is named in driver/thm_C03.json) *)
Theorem c03_fixed_lib_partial : c03_fixed_lib_statement.
Proof. exact c03_fixed_lib_proved. Qed.
Print Assumptions c03_fixed_lib_partial.

(* the reference fork choice has the meaning the property text gives to "follows the head" *)
Theorem c03_reference_tip_rule : c03_reference_meaning.
Proof. exact c03_reference_meaning_proved. Qed.
Print Assumptions c03_reference_tip_rule.

(* non-vacuity: a history in which the tip moves, stays (equal height, unlinkable-at-arrival parent
   order, re-fed block) and switches branch meets every hypothesis; the reference tips are listed *)
Definition c03_ex_r0 : ref := mkR 1 10.
Definition c03_ex_hist : list block :=
  [ mkBlock 2 11 1 10; mkBlock 3 12 2 10; mkBlock 4 12 2 10; mkBlock 5 13 4 10;
    mkBlock 7 12 6 10; mkBlock 6 11 1 10; mkBlock 8 13 7 10; mkBlock 9 14 8 10; mkBlock 3 12 2 10;
    mkBlock 20 9 19 10; mkBlock 31 16 30 10 ].
Definition c03_ex_cfg (alltrig : bool) : config := mkCfg 0 false false 2 alltrig (mkFilter true true true true) None.

Fixpoint c03_ex_tips (cfg : config) (fc : fc_state) (h : list block) : list N :=
  match h with
  | [] => []
  | b :: h' => let fc' := fc_step (c_first cfg) (c_incl cfg) (c_alltrig cfg) fc b in
               oblock_id (fc_tip fc') :: c03_ex_tips cfg fc' h'
  end.

Example c03_nonvacuous :
  c01_fixed_scope_b c03_ex_r0 c03_ex_hist = true /\
  c03_ex_tips (c03_ex_cfg false) (fc_init (LExcl c03_ex_r0)) c03_ex_hist = [2; 3; 3; 5; 5; 5; 5; 9; 9; 9; 9] /\
  c03_ex_tips (c03_ex_cfg true) (fc_init (LExcl c03_ex_r0)) c03_ex_hist = [2; 3; 4; 5; 5; 6; 8; 9; 9; 9; 9] /\
  map (fun o => match o_head o with Some (r, _) => ri r | None => 0 end)
      (fk_obs (c03_ex_cfg true) (fs_init (LExcl c03_ex_r0)) c03_ex_hist) = [2; 3; 4; 5; 5; 6; 8; 9; 9; 9; 9] /\
  (* the premise of the noise-deletion clause holds for the re-fed block 3 and the below-LIB block 20 *)
  (let fc := fc_after (c03_ex_cfg false) (fc_init (LExcl c03_ex_r0)) (firstn 8 c03_ex_hist) in
   fc_step 0 false false fc (mkBlock 3 12 2 10) = fc) /\
  (let fc := fc_after (c03_ex_cfg false) (fc_init (LExcl c03_ex_r0)) (firstn 9 c03_ex_hist) in
   fc_step 0 false false fc (mkBlock 20 9 19 10) = fc).
Proof. vm_compute. repeat split. Qed.
