(* C04: meaning of the cursor monitor (property theorems only; proofs in Proofs/Mon/C04_Monitor_Proofs.v) *)
From BV Require Import Base.Prelude Model.Block Model.ForkDB Model.Forkable Spec.Consumer
  Spec.C04_Monitor_Spec Proofs.Mon.C04_Monitor_Proofs.
Local Open Scope N_scope.

(* whatever trace the monitor c04_b accepts (it is evaluated on EVERY implementation trace by the
   check) satisfies the declarative cursor statements of Spec/C04_Monitor_Spec.v *)
Theorem c04_monitor_sound : C04_monitor_sound.
Proof. exact c04_monitor_sound_proof. Qed.
Print Assumptions c04_monitor_sound.

(* non-vacuity: the model's own run on a history with a fork switch and a LIB move is accepted by the
   monitor and contains Undo and Irreversible events *)
Definition ex4_r0 : ref := mkR 1 10.
Definition ex4_hist : list block :=
  [ mkBlock 2 11 1 10; mkBlock 3 12 2 10; mkBlock 4 12 2 10; mkBlock 5 13 4 11; mkBlock 6 14 5 12 ].
Definition ex4_cfg : config := mkCfg 0 false false 2 false (mkFilter true true true true) None.
Example c04_monitor_nonvacuous :
  let t := fk_run ex4_cfg (fs_init (LExcl ex4_r0)) ex4_hist in
  c04_b true (LExcl ex4_r0) ex4_hist t = true /\
  map (fun e => (estep e, bid (eblk e), rn (elib e))) (all_events t) =
    [(SNew, 2, 10); (SNew, 3, 10); (SUndo, 3, 10); (SNew, 4, 10); (SNew, 5, 10); (SIrr, 2, 11);
     (SNew, 6, 11); (SIrr, 4, 12); (SStalled, 3, 12)].
Proof. vm_compute. auto. Qed.
