(* C18 at stream level: property theorems only.  Statements: Spec/C18_Moving_Spec.v; proofs:
   Proofs/Fk/MovingLibLookups.v (the lookups on the states of the moving-LIB invariant) and
   Proofs/C18_MovingProofs.v (scope bridge, handler oracle).  Together with Properties/C18.v these are the
   clauses of [C18_full] (Spec/C18_Spec.v) for the modes with a configured LIB, stated on the MODEL's states
   (`c18_moving_full`); what is missing is listed in notes_proof_R2.md. *)
From BV Require Import Base.Prelude Model.Block Model.ForkDB Model.Forkable Model.ForkableLookups Model.Burst
  Spec.Consumer Spec.Universe Spec.C01_Spec Spec.C01_Moving_Spec Spec.C18_Spec Spec.C18_Moving_Spec
  Check.Fk_Check Check.Fk_Props_Check Proofs.C18_MovingProofs Proofs.Fk.MovingLibFollow.
Local Open Scope N_scope.

(* 2. head information = top of the consumer's stack *)
Theorem c18_moving_head : C18_moving_head.
Proof. exact c18_moving_head_proof. Qed.
Print Assumptions c18_moving_head.

(* 1. canonical lookup against the consumer's chain, every height *)
Theorem c18_moving_canonical : C18_moving_canonical.
Proof. exact c18_moving_canonical_proof. Qed.
Print Assumptions c18_moving_canonical.

(* 3. lowest servable number = first block of the retained chain of the head; blocksFromNum serves exactly from it *)
Theorem c18_moving_lowest : C18_moving_lowest.
Proof. exact c18_moving_lowest_proof. Qed.
Print Assumptions c18_moving_lowest.

(* which blocks are retained: the kept window *)
Theorem c18_moving_window : C18_moving_window.
Proof. exact c18_moving_window_proof. Qed.
Print Assumptions c18_moving_window.

(* 4. by hash / by number on any fork, inside the kept window *)
Theorem c18_moving_found : C18_moving_found.
Proof. exact c18_moving_found_proof. Qed.
Print Assumptions c18_moving_found.

Theorem c18_moving_full_partial : C18_moving_full.
Proof. exact c18_moving_full_proof. Qed.
Print Assumptions c18_moving_full_partial.

(* the states of fk_states / states_of are the observation points *)
Theorem c18_states_reached : C18_states_reached.
Proof. exact c18_states_reached_proof. Qed.
Print Assumptions c18_states_reached.

(* 5. the monitor of the check (c18_prop, all five clauses of C18) accepts every observation that corresponds to the
   model, on the cases of c18_moving_thm_scope: [C18_full] of Spec/C18_Spec.v for the configured-LIB modes *)
Theorem c18_moving_lib_partial : C18_moving_lib.
Proof. exact c18_moving_lib_proof. Qed.
Print Assumptions c18_moving_lib_partial.

(* ... in particular the model's own run, which corresponds to itself *)
Theorem c18_moving_own_run : C18_moving_own_run.
Proof. exact c18_moving_own_run_proof. Qed.
Print Assumptions c18_moving_own_run.

(* ---- non-vacuity ---- *)

(* exclusive LIB (1,1), retention 2.  Blocks 2, 3 and its fork sibling 13, then 5 (number 4 is skipped; declares
   LIB 2), 6 (declares LIB 5: the LIB jumps 2 -> 5, cutoff 3, block 2 is purged), 8 (number 7 skipped) *)
Definition c18m_cfg : config := mkCfg 1 false false 2 false (mkFilter true true true true) None.
Definition c18m_r0 : ref := mkR 1 1.
Definition c18m_h : list block :=
  [mkBlock 2 2 1 1; mkBlock 3 3 2 1; mkBlock 13 3 2 1; mkBlock 5 5 3 2; mkBlock 6 6 5 5; mkBlock 8 8 6 5].

Example c18m_scope : c18_scope c18m_cfg c18m_r0 (LExcl c18m_r0) c18m_h.
Proof. split; [left; reflexivity|]. split; [reflexivity|]. split; [reflexivity | vm_compute; reflexivity]. Qed.

(* the whole history is an observation point; the consumer's chain is 8 6 5 3 2, the LIB is 5; every hypothesis of
   every sub-clause is met by some block / height, and the lookups show the window, the kept final block 3, the
   purged block 2 and both quirks *)
Example c18m_point :
  exists evs s,
    reaches c18m_cfg (fs_init (LExcl c18m_r0)) c18m_h evs s /\
    apply_all (ri c18m_r0) [] evs =
      Some [mkBlock 8 8 6 5; mkBlock 6 6 5 5; mkBlock 5 5 3 2; mkBlock 3 3 2 1; mkBlock 2 2 1 1] /\
    libref (db s) = mkR 5 5 /\ cutoff (db s) (c_kept c18m_cfg) = 3 /\
    head_info s = Some (mkR 8 8, 5) /\
    (* (a): heights of the chain inside the window, above and under the LIB *)
    map (canonical_block_at s) [8; 6; 5; 3] = [8; 6; 5; 3] /\
    (* (b): the skipped number 7 above the LIB returns the block above; (f): so does 4 under the LIB *)
    canonical_block_at s 7 = 8 /\ canonical_block_at s 4 = 5 /\
    (* (c): above the head *)
    canonical_block_at s 9 = 8 /\
    (* (d): under the lowest servable number; block 2 of the chain was purged *)
    lowest_block_num s = Some 3 /\ canonical_block_at s 2 = 0 /\ get_block_by_hash s 2 = false /\
    (* the retained chain of the head *)
    retained_chain s [mkBlock 3 3 2 1; mkBlock 5 5 3 2; mkBlock 6 6 5 5; mkBlock 8 8 6 5] /\
    (* blocksFromNum: from 5 it serves 5 6 8; nothing from the skipped number 4 or from 2 *)
    (exists e5, blocks_from_num s 5 = BOk e5 /\ map eblk e5 = [mkBlock 5 5 3 2; mkBlock 6 6 5 5; mkBlock 8 8 6 5]) /\
    blocks_from_num s 4 = BErr /\ blocks_from_num s 2 = BErr /\
    (* the fork block 13 (never delivered) is inside the window: found by hash and by number *)
    get_block_by_hash s 13 = true /\ all_blocks_at s 3 = Some [3; 13].
Proof.
  destruct (run_to c18m_cfg (fs_init (LExcl c18m_r0)) c18m_h) as [[evs s]|] eqn:R; [|vm_compute in R; discriminate].
  exists evs, s. split; [apply run_to_reaches; exact R|].
  vm_compute in R. injection R as <- <-.
  repeat (split; [vm_compute; reflexivity|]).
  split.
  { cbn [retained_chain last]. split; [vm_compute; reflexivity|]. split; [cbn; auto|].
    split; [|vm_compute; reflexivity].
    repeat constructor; (eexists; split; [vm_compute; reflexivity | reflexivity]). }
  split; [eexists; split; vm_compute; reflexivity|].
  repeat (split; [vm_compute; reflexivity|]). vm_compute; reflexivity.
Qed.

(* c18_moving_found: block 13 is received third, not dropped, and lies in the window of the last state (cutoff 3) *)
Example c18m_found_hyps :
  exists evs1 s1 evs s2 evs2 s3,
    c18m_h = [mkBlock 2 2 1 1; mkBlock 3 3 2 1] ++ mkBlock 13 3 2 1 :: [mkBlock 5 5 3 2; mkBlock 6 6 5 5; mkBlock 8 8 6 5] ++ [] /\
    reaches c18m_cfg (fs_init (LExcl c18m_r0)) [mkBlock 2 2 1 1; mkBlock 3 3 2 1] evs1 s1 /\
    fk_step c18m_cfg s1 (mkBlock 13 3 2 1) = (s2, evs, ROk) /\
    below_lib s1 (mkBlock 13 3 2 1) = false /\
    reaches c18m_cfg s2 [mkBlock 5 5 3 2; mkBlock 6 6 5 5; mkBlock 8 8 6 5] evs2 s3 /\
    cutoff (db s3) (c_kept c18m_cfg) <= bnum (mkBlock 13 3 2 1).
Proof.
  destruct (run_to c18m_cfg (fs_init (LExcl c18m_r0)) [mkBlock 2 2 1 1; mkBlock 3 3 2 1]) as [[evs1 s1]|] eqn:R1;
    [|vm_compute in R1; discriminate].
  destruct (fk_step c18m_cfg s1 (mkBlock 13 3 2 1)) as [[s2 evs] r] eqn:Hstep.
  destruct (run_to c18m_cfg s2 [mkBlock 5 5 3 2; mkBlock 6 6 5 5; mkBlock 8 8 6 5]) as [[evs2 s3]|] eqn:R2.
  - exists evs1, s1, evs, s2, evs2, s3. split; [reflexivity|]. split; [apply run_to_reaches; exact R1|].
    vm_compute in R1. injection R1 as <- <-. vm_compute in Hstep. injection Hstep as <- <- <-.
    split; [reflexivity|]. split; [vm_compute; reflexivity|]. split; [apply run_to_reaches; exact R2|].
    vm_compute in R2. injection R2 as <- <-. vm_compute. discriminate.
  - exfalso. vm_compute in R1. injection R1 as <- <-. vm_compute in Hstep. injection Hstep as <- <- <-.
    vm_compute in R2. discriminate.
Qed.

(* a failing handler (call number 3 fails: the New of block 5) and an inclusive LIB with includeInitialLIB: the points
   before the failing call are observation points; the starting LIB block 1 itself is fed and delivered first *)
Definition c18m_cfg_fail : config := mkCfg 1 true false 0 false (mkFilter true true true true) (Some 3).
Definition c18m_h_incl : list block :=
  [mkBlock 1 1 9 1; mkBlock 2 2 1 1; mkBlock 3 3 2 1; mkBlock 5 5 3 2; mkBlock 6 6 5 5].

Example c18m_fail_point :
  c18_scope c18m_cfg_fail c18m_r0 (LIncl c18m_r0) c18m_h_incl /\
  exists evs s,
    reaches c18m_cfg_fail (fs_init (LIncl c18m_r0)) [mkBlock 1 1 9 1; mkBlock 2 2 1 1] evs s /\
    map estep evs = [SNew; SIrr; SNew] /\
    apply_all (ri c18m_r0) [] evs = Some [mkBlock 2 2 1 1; mkBlock 1 1 9 1] /\
    map (canonical_block_at s) [1; 2; 3] = [1; 2; 2] /\ lowest_block_num s = Some 1 /\
    (* the next call fails *)
    (let '(_, _, r) := fk_step c18m_cfg_fail s (mkBlock 3 3 2 1) in r) = RHandlerErr.
Proof.
  split; [split; [right; reflexivity|]; split; [reflexivity|]; split; [reflexivity | vm_compute; reflexivity]|].
  destruct (run_to c18m_cfg_fail (fs_init (LIncl c18m_r0)) [mkBlock 1 1 9 1; mkBlock 2 2 1 1]) as [[evs s]|] eqn:R;
    [|vm_compute in R; discriminate].
  exists evs, s. split; [apply run_to_reaches; exact R|]. vm_compute in R. injection R as <- <-.
  repeat (split; [vm_compute; reflexivity|]). vm_compute; reflexivity.
Qed.

(* c18_moving_lib / c18_moving_own_run: the history above with every height 0..9 and every id recorded; the
   inclusive-LIB history with a block under the kept window fed before the LIB block (the case that exposed the false
   alarm of the monitor's old "moved" flag); a failing handler *)
Example c18m_thm_scope_cases :
  c18_moving_thm_scope (model_case c18m_cfg (LExcl c18m_r0) c18m_h [0;1;2;3;4;5;6;7;8;9] [2;3;13;5;6;8]) = true /\
  c18_moving_thm_scope (model_case (mkCfg 1 true false 0 false (mkFilter true true true true) None) (LIncl (mkR 10 10))
                          [mkBlock 3 3 2 1; mkBlock 10 10 9 5; mkBlock 11 11 10 10] [1;2;3;9;10;11;12] [3;10;11]) = true /\
  c18_moving_thm_scope (model_case c18m_cfg_fail (LIncl c18m_r0) c18m_h_incl [0;1;2;3;4;5;6;7] [1;2;3;5;6]) = true.
Proof. vm_compute. auto. Qed.

(* why the last sub-clause of lowest_clause has the hypothesis "the parent is not in the buffer": with the exclusive LIB
   (10,10), the LIB block 10 itself and its parent 9 are fed BEFORE the first delivery (nothing is dropped while nothing
   was sent); the consumer's chain is 11 12, but the retained chain of the head is 9 10 11 12: LowestBlockNum is 9 and
   blocksFromNum 9 serves 9 and 10 (new+irreversible), which the consumer of the live stream never saw *)
Example c18m_under :
  let cfg := mkCfg 1 false false 5 false (mkFilter true true true true) None in
  let r10 := mkR 10 10 in
  let h := [mkBlock 9 9 8 1; mkBlock 10 10 9 1; mkBlock 11 11 10 10; mkBlock 12 12 11 11] in
  c18_scope cfg r10 (LExcl r10) h /\
  exists evs s, reaches cfg (fs_init (LExcl r10)) h evs s /\
    apply_all 10 [] evs = Some [mkBlock 12 12 11 11; mkBlock 11 11 10 10] /\
    lowest_block_num s = Some 9 /\ retained_chain s h /\
    exists e9, blocks_from_num s 9 = BOk e9 /\ map (fun e => (estep e, bid (eblk e))) e9 = [(SNewIrr, 9); (SNewIrr, 10); (SNewIrr, 11); (SNew, 12)].
Proof.
  cbv zeta. split; [split; [left; reflexivity|]; split; [reflexivity|]; split; [reflexivity | vm_compute; reflexivity]|].
  match goal with |- exists evs s, reaches ?c ?s0 ?h evs s /\ _ => destruct (run_to c s0 h) as [[evs s]|] eqn:R; [|vm_compute in R; discriminate] end.
  exists evs, s. split; [apply run_to_reaches; exact R|]. vm_compute in R. injection R as <- <-.
  split; [vm_compute; reflexivity|]. split; [vm_compute; reflexivity|]. split.
  { cbn [retained_chain last]. split; [vm_compute; reflexivity|]. split; [cbn; auto|].
    split; [|vm_compute; reflexivity].
    repeat constructor; (eexists; split; [vm_compute; reflexivity | reflexivity]). }
  eexists. split; vm_compute; reflexivity.
Qed.
