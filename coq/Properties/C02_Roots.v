(* C02, addition: the property theorems for histories that may contain ROOTS (blocks whose parent id is
   empty).  Statements in Spec/C01_Roots_Spec.v; proofs in Proofs/Fk/RootsBase.v, Proofs/Fk/MovingLib*.v
   and Proofs/C01_Roots_Proofs.v. *)
From BV Require Import Base.Prelude Model.Block Model.ForkDB Model.Forkable Spec.Consumer Spec.Universe
  Spec.C01_Moving_Spec Spec.C02_Spec Spec.C01_Roots_Spec Proofs.C01_Roots_Proofs Properties.C01_Roots.
Local Open Scope N_scope.

(* partial: configured starting LIB (exclusive or inclusive) coherent with the history, any handler oracle;
   c02_moving_lib_partial WITHOUT the hypothesis "no empty parent id".  With it the class is c02_scope of
   Spec/C02_Spec.v restricted to a coherent configured LIB (moving_block2_b) *)
Theorem c02_moving_lib_roots_partial : c02_moving_lib_roots_statement.
Proof. exact c02_moving_lib_roots_proved. Qed.
Print Assumptions c02_moving_lib_roots_partial.

(* discovery mode (no configured LIB, hold-until-LIB, c_incl = false): EVERY history of c02_scope *)
Theorem c02_discovery_roots_partial : c02_discovery_roots_statement.
Proof. exact c02_discovery_roots_proved. Qed.
Print Assumptions c02_discovery_roots_partial.

(* non-vacuity: the histories of Properties/C01_Roots.v (roots fed up to four times, a root LIB block in
   inclusive mode, a root discovered as LIB) meet every hypothesis; Irreversible and Stalled events occur *)
Example c02_roots_nonvacuous :
  moving_scope2_b rt_r0 rt_hist = true /\ moving_scope_b rt_r0 rt_hist = false /\
  f_irr (c_filter (rt_cfg 0 false None)) = true /\
  length (filter (fun e => step_eqb (estep e) SIrr) (all_events (fk_run (rt_cfg 0 false None) (fs_init (LExcl rt_r0)) rt_hist))) = 3%nat /\
  length (filter (fun e => step_eqb (estep e) SStalled) (all_events (fk_run (rt_cfg 0 false None) (fs_init (LExcl rt_r0)) rt_hist))) = 3%nat /\
  length (filter (fun e => step_eqb (estep e) SIrr) (all_events (fk_run (rt_cfg 5 true None) (fs_init (LExcl rt_r0)) rt_hist))) = 3%nat /\
  moving_scope2_b rt_r0 rt_hist_incl = true /\
  length (filter (fun e => step_eqb (estep e) SIrr) (all_events (fk_run rt_cfg_incl (fs_init (LIncl rt_r0)) rt_hist_incl))) = 4%nat.
Proof. vm_compute. repeat split; reflexivity. Qed.

Example c02_discovery_roots_nonvacuous :
  disc_scope2_b rd_hist = true /\ disc_scope_b rd_hist = false /\
  c_hold (rd_cfg 1 None) = true /\ f_irr (c_filter (rd_cfg 1 None)) = true /\
  length (filter (fun e => step_eqb (estep e) SIrr) (all_events (fk_run (rd_cfg 1 None) (fs_init LNone) rd_hist))) = 4%nat /\
  length (filter (fun e => step_eqb (estep e) SStalled) (all_events (fk_run (rd_cfg 1 None) (fs_init LNone) rd_hist))) = 3%nat /\
  disc_scope2_b rd_hist_own = true /\
  length (filter (fun e => step_eqb (estep e) SIrr) (all_events (fk_run (rd_cfg 0 None) (fs_init LNone) rd_hist_own))) = 2%nat.
Proof. vm_compute. repeat split; reflexivity. Qed.
