(* C05 over histories (cursors minted by the same history): theorems about the EXISTING models Model/Forkable.v,
   Model/Burst.v, Model/Hub.v (hub_config).  Statements: Spec/C05_History_Spec.v. *)
From Coq Require Import Sorted.
From BV Require Import Base.Prelude Model.Block Model.ForkDB Model.Forkable Model.ForkableLookups Model.Burst Model.Hub
  Spec.Consumer Spec.Universe Check.Fk_Check Check.Burst_Check Spec.C09_Spec Spec.C05_Spec Spec.C05_Through_Spec
  Spec.C01_Spec Spec.C01_Moving_Spec Spec.C05_History_Spec Proofs.Hub.C05_History.
Local Open Scope N_scope.

(* the clause over histories of Spec/C05_Spec.v (stated there, not proved there), at full strength *)
Theorem c05_resume_full : C05_resume_full.
Proof. exact c05_resume_full_proof. Qed.
Print Assumptions c05_resume_full.

(* the same with the stronger conclusion "the burst leaves the consumer in the state of the never-disconnected
   consumer" (named _partial2 as a part of property C05: final-only cursors, the through-cursor variant and the
   serving obligation over histories are not covered by it) *)
Theorem c05_resume_partial2 : C05_resume_history.
Proof. exact c05_resume_history_proof. Qed.
Print Assumptions c05_resume_partial2.

Theorem c05_cursor_meets_hypotheses : C05_cursor_meets_hypotheses.
Proof. exact c05_cursor_meets_hypotheses_proof. Qed.
Print Assumptions c05_cursor_meets_hypotheses.

Theorem c05_history_total : C05_history_total.
Proof. exact c05_history_total_proof. Qed.
Print Assumptions c05_history_total.

(* the serving obligation: a stream cursor whose LIB is still on the retained chain is served *)
Theorem c05_serves_history : C05_serves_history.
Proof. exact c05_serves_history_proof. Qed.
Print Assumptions c05_serves_history.

(* final-only consumers: the cursor of an Irreversible event whose block is still on the retained chain is served and
   the burst's irreversible events are exactly the consumer's final blocks after it *)
Theorem c05_final_history : C05_final_history.
Proof. exact c05_final_history_proof. Qed.
Print Assumptions c05_final_history.

(* ---- non-vacuity: the history 11 <- 12 <- {23, 13 <- 14 <- 15} fed in the order 11, 12, 23, 13, 14, 15, two final
   blocks kept.  23 is delivered, then undone when 14 arrives; 14 finalises 12, 15 finalises 13 (and 23 is stalled).
   (a) first streamable block 1: block 11 (number 1) is its own LIB, delivered New + Irreversible.
       Events: 0 New 11 | 1 Irr 11 | 2 New 12 | 3 New 23 | 4 Undo 23 | 5 New 13 | 6 New 14 | 7 Irr 12 | 8 New 15 | 9 Irr 13 | 10 Stalled 23.
   (b) first streamable block 0: 11 is held; 12 declares LIB number 1: the LIB 11 is discovered among the stored
       ancestors, it is announced Irreversible but never delivered as New.
       Events: 0 New 12 | 1 Irr 11 | 2 New 23 | 3 Undo 23 | 4 New 13 | 5 New 14 | 6 Irr 12 | 7 New 15 | 8 Irr 13 | 9 Stalled 23. *)
Definition hx_b1 := mkBlock 11 1 10 0.
Definition hx_b2 := mkBlock 12 2 11 1.
Definition hx_b3 := mkBlock 13 3 12 1.
Definition hx_b3' := mkBlock 23 3 12 1.
Definition hx_b4 := mkBlock 14 4 13 2.
Definition hx_b5 := mkBlock 15 5 14 3.
Definition hx_h := [hx_b1; hx_b2; hx_b3'; hx_b3; hx_b4; hx_b5].
(* the same tree hanging under a root (a block with an empty parent id) *)
Definition hx_r1 := mkBlock 11 1 0 0.
Definition hx_hr := [hx_r1; hx_b2; hx_b3'; hx_b3; hx_b4; hx_b5].
Definition hx_cfg (first : N) := hub_config first 2.
Definition hx_tr (first : N) := fk_run (hx_cfg first) (fs_init LNone) hx_h.
Definition hx_upto (first : N) (n : nat) := concat (map fst (firstn n (hx_tr first))).
Definition hx_s (first : N) (m : nat) := state_after (hx_cfg first) (fs_init LNone) hx_h m.

Example c05h_nonvacuous_history :
  wf_b hx_h = true /\ lib_ok_b LNone hx_h = true /\ wf_b hx_hr = true /\ lib_ok_b LNone hx_hr = true /\ length (hx_tr 1) = 6%nat /\ length (hx_tr 0) = 6%nat /\
  map (fun e => (estep e, bid (eblk e), ri (elib e))) (hx_upto 1 6) =
    [(SNew, 11, 11); (SIrr, 11, 11); (SNew, 12, 11); (SNew, 23, 11); (SUndo, 23, 11); (SNew, 13, 11); (SNew, 14, 11);
     (SIrr, 12, 12); (SNew, 15, 12); (SIrr, 13, 13); (SStalled, 23, 13)] /\
  map (fun e => (estep e, bid (eblk e), ri (elib e))) (hx_upto 0 6) =
    [(SNew, 12, 11); (SIrr, 11, 11); (SNew, 23, 11); (SUndo, 23, 11); (SNew, 13, 11); (SNew, 14, 11);
     (SIrr, 12, 12); (SNew, 15, 12); (SIrr, 13, 13); (SStalled, 23, 13)].
Proof. vm_compute. repeat split. Qed.

(* every hypothesis of c05_resume_partial2 (and its conclusion, computed) for event k and instant m *)
Definition hx_check (first : N) (k m : nat) (st : step) (blk : N) (burst : list (step * N)) (stack : list N) (nf : nat) : Prop :=
  match nth_error (hx_upto first (length (hx_tr first))) k with
  | Some ek =>
      estep ek = st /\ bid (eblk ek) = blk /\ Nat.ltb k (length (hx_upto first m)) = true /\
      match cons_fold cons0 (firstn (S k) (hx_upto first (length (hx_tr first)))), cons_fold cons0 (hx_upto first m),
            blocks_from_cursor (hx_s first m) (ev_cursor ek) with
      | Some ck, Some cm, BOk evs =>
          map (fun e => (estep e, bid (eblk e))) evs = burst /\
          map bid (cs_stack cm) = stack /\ cs_nf cm = nf /\
          cons_fold (mkCons (cs_stack ck) (length (filter (fun b => bnum b <=? rn (elib ek)) (cs_stack ck))) true) evs = Some cm
      | _, _, _ => False
      end
  | None => False
  end.

(* the New cursor on the forked block 23, reconnecting after the whole history and right after its own call *)
Example c05h_nonvacuous_new_forked :
  hx_check 1 3 6 SNew 23 [(SUndo, 23); (SIrr, 12); (SNewIrr, 13); (SNew, 14); (SNew, 15)] [15; 14; 13; 12; 11] 3 /\
  hx_check 0 2 6 SNew 23 [(SUndo, 23); (SIrr, 12); (SNewIrr, 13); (SNew, 14); (SNew, 15)] [15; 14; 13; 12] 2.
Proof. vm_compute. repeat split. Qed.

Example c05h_nonvacuous_new_same_step :
  hx_check 1 3 3 SNew 23 [] [23; 12; 11] 1 /\ hx_check 0 2 3 SNew 23 [] [23; 12] 0.
Proof. vm_compute. repeat split. Qed.

(* the Undo cursor of 23 *)
Example c05h_nonvacuous_undo :
  hx_check 1 4 6 SUndo 23 [(SIrr, 12); (SNewIrr, 13); (SNew, 14); (SNew, 15)] [15; 14; 13; 12; 11] 3 /\
  hx_check 0 3 6 SUndo 23 [(SIrr, 12); (SNewIrr, 13); (SNew, 14); (SNew, 15)] [15; 14; 13; 12] 2.
Proof. vm_compute. repeat split. Qed.

(* canonical New cursors: the fast path; the cursor of the discovered LIB block itself (event 0 of (a)) *)
Example c05h_nonvacuous_new_canonical :
  hx_check 1 5 6 SNew 13 [(SIrr, 12); (SIrr, 13); (SNew, 14); (SNew, 15)] [15; 14; 13; 12; 11] 3 /\
  hx_check 1 0 6 SNew 11 [(SNewIrr, 12); (SNewIrr, 13); (SNew, 14); (SNew, 15)] [15; 14; 13; 12; 11] 3.
Proof. vm_compute. repeat split. Qed.

(* the hypotheses of c05_cursor_meets_hypotheses for the New cursor on 23 at m = 6: head 15, its segment 11..15 reaches the
   LIB and contains the cursor LIB 11; the branch of 23 ends on the junction 12, which is not below the cursor LIB *)
Example c05h_nonvacuous_meets :
  last_sent (hx_s 1 6) = Some hx_b5 /\
  match nth_error (hx_upto 1 (length (hx_tr 1))) 3, complete_segment (db (hx_s 1 6)) (bref hx_b5) with
  | Some ek, Some (sg, true) =>
      map sid sg = [11; 12; 13; 14; 15] /\ block_in (ri (elib ek)) sg = true /\ block_in (ri (ecblk ek)) sg = false /\
      branch_to (db (hx_s 1 6)) sg 23 [mkSeg 23 3 (mkEntry hx_b3' true)] 12
  | _, _ => False
  end.
Proof.
  split; [vm_compute; reflexivity|]. vm_compute. split; [reflexivity|]. split; [reflexivity|]. split; [reflexivity|].
  apply (bt_last _ _ 23 (mkEntry hx_b3' true)); vm_compute; reflexivity.
Qed.

(* with the root: the same events as (b) when the first streamable block is 0, and the resume clause on them *)
Example c05h_nonvacuous_root :
  let tr := fk_run (hub_config 0 2) (fs_init LNone) hx_hr in
  let upto n := concat (map fst (firstn n tr)) in
  map (fun e => (estep e, bid (eblk e), ri (elib e))) (upto 6%nat) =
    [(SNew, 12, 11); (SIrr, 11, 11); (SNew, 23, 11); (SUndo, 23, 11); (SNew, 13, 11); (SNew, 14, 11);
     (SIrr, 12, 12); (SNew, 15, 12); (SIrr, 13, 13); (SStalled, 23, 13)] /\
  match nth_error (upto 6%nat) 2%nat with
  | Some ek =>
      match cons_fold cons0 (firstn 3%nat (upto 6%nat)), cons_fold cons0 (upto 6%nat),
            blocks_from_cursor (state_after (hub_config 0 2) (fs_init LNone) hx_hr 6%nat) (ev_cursor ek) with
      | Some ck, Some cm, BOk evs =>
          map (fun e => (estep e, bid (eblk e))) evs = [(SUndo, 23); (SIrr, 12); (SNewIrr, 13); (SNew, 14); (SNew, 15)] /\
          cons_fold (mkCons (cs_stack ck) (length (filter (fun b => bnum b <=? rn (elib ek)) (cs_stack ck))) true) evs = Some cm
      | _, _, _ => False
      end
  | None => False
  end.
Proof. vm_compute. repeat split. Qed.

(* the boundary of c05_serves_history: with no final block kept (kept = 0) the cursor LIB 11 of the New cursor on 23 is
   purged once the LIB reaches 13; the segment is then [13; 14; 15], the cursor LIB is off the chain: no source.
   With kept = 2 (c05h_nonvacuous_meets) the hypotheses hold and the burst is served (c05h_nonvacuous_new_forked). *)
Example c05h_nonvacuous_not_served :
  let cfg := hub_config 1 0 in
  let tr := fk_run cfg (fs_init LNone) hx_h in
  let s := state_after cfg (fs_init LNone) hx_h 6%nat in
  match nth_error (concat (map fst tr)) 3%nat, complete_segment (db s) (bref hx_b5) with
  | Some ek, Some (sg, true) =>
      estep ek = SNew /\ bid (eblk ek) = 23 /\ ri (elib ek) = 11 /\ map sid sg = [13; 14; 15] /\
      block_in (ri (elib ek)) sg = false /\ blocks_from_cursor s (ev_cursor ek) = BErr
  | _, _ => False
  end.
Proof. vm_compute. repeat split. Qed.

(* the hypotheses of c05_final_history for the Irreversible event of block 12 (event 7 of (a)) at m = 6, and its conclusion
   computed: the burst announces 13 (New+Irreversible) and delivers 14, 15; the consumer's final blocks are 11, 12 | 13 *)
Example c05h_nonvacuous_final :
  match nth_error (hx_upto 1 (length (hx_tr 1))) 7, cons_fold cons0 (hx_upto 1 6),
        complete_segment (db (hx_s 1 6)) (bref hx_b5) with
  | Some ek, Some cm, Some (sg, true) =>
      estep ek = SIrr /\ bid (eblk ek) = 12 /\ Nat.ltb 7 (length (hx_upto 1 6)) = true /\
      last_sent (hx_s 1 6) = Some hx_b5 /\ block_in (ri (ecblk ek)) sg = true /\
      map bid (finals_of cm) = [11; 12; 13] /\
      match blocks_from_cursor (hx_s 1 6) (ev_cursor ek) with
      | BOk evs => map (fun e => (estep e, bid (eblk e))) evs = [(SNewIrr, 13); (SNew, 14); (SNew, 15)] /\
                   map bid (map eblk (irr_events evs)) = [13]
      | _ => False
      end
  | _, _, _ => False
  end.
Proof. vm_compute. repeat split. Qed.
