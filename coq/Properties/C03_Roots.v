(* C03 in the fixed-LIB class for histories that may contain ROOTS (blocks whose parent id is empty): property
   theorem only.  Statement in Spec/Roots_Fixed_Spec.v; proofs in Proofs/Fk/FixedLibChoice.v and
   Proofs/Roots_Fixed_Proofs.v. *)
From BV Require Import Base.Prelude Model.Block Model.ForkDB Model.Forkable Spec.Consumer Spec.Universe
  Spec.ForkChoice Spec.C01_Spec Spec.C03_Spec Spec.Roots_Fixed_Spec Check.Fk_Check Check.Fk_Props_Check
  Proofs.Roots_Fixed_Proofs Properties.C03 Properties.C01_Roots_Fixed.
Local Open Scope N_scope.

(* partial: c03_fixed_lib_partial WITHOUT the hypothesis "no empty parent id" (c03_full in Spec/C03_Spec.v is
   the full statement) *)
Theorem c03_fixed_lib_roots_partial : c03_fixed_lib_roots_statement.
Proof. exact c03_fixed_lib_roots_proved. Qed.
Print Assumptions c03_fixed_lib_roots_partial.

(* non-vacuity: the history of Properties/C01_Roots_Fixed.v (roots above, at and under the LIB, fed several
   times; two fork switches): the reference never makes a root or a descendant of a root its tip (they do not
   link back to the LIB), a root fed again is ignored by the reference (not new to the stream) and by the
   model; the reference tips and the model's HeadInfo ids are listed *)
Example c03_roots_nonvacuous :
  c01_fixed_scope2_b rf_r0 rf_hist = true /\ c01_fixed_scope_b rf_r0 rf_hist = false /\
  c03_ex_tips (rf_cfg false false None) (fc_init (LExcl rf_r0)) rf_hist = [0; 0; 2; 3; 3; 3; 3; 5; 5; 5; 5; 5; 5; 5; 9; 9; 9; 9] /\
  c03_ex_tips (rf_cfg false true None) (fc_init (LExcl rf_r0)) rf_hist = [0; 0; 2; 3; 3; 3; 4; 5; 5; 5; 6; 7; 7; 8; 9; 9; 9; 9] /\
  map (fun o => match o_head o with Some (r, _) => ri r | None => 0 end)
      (fk_obs (rf_cfg false true None) (fs_init (LExcl rf_r0)) rf_hist) = [0; 0; 2; 3; 3; 3; 4; 5; 5; 5; 6; 7; 7; 8; 9; 9; 9; 9] /\
  (* the premise of the noise-deletion clause holds for the re-fed root 50 *)
  (let fc := fc_after (rf_cfg false false None) (fc_init (LExcl rf_r0)) (firstn 4 rf_hist) in
   fc_step 0 false false fc (mkBlock 50 12 0 10) = fc).
Proof. vm_compute. repeat split. Qed.
