(* Y1: theorems that go with the checker clauses the conclusion audits (W1, W3) stated but did not implement.
   One module per property.  Everything is closed under the global context (Print Assumptions after each theorem).
   See notes_Y1.md. *)

From BV Require Base.Prelude Base.Decimal Model.FileSeq Check.C10_Check Model.Range Check.C19_Check.
From Coq Require Import List NArith Lia Bool.
Import ListNotations.

Module C10.
(* The suffix clause [c10_suffix_y1] (Check/C10_Check.v) states the sentence "in exactly stored order, beginning with
   the first block at or above the start block" literally (a SUFFIX of the stored sequence, leading below-base blocks
   of each file removed).  [c10_check] uses [eligible], a FILTER copied from the two per-block tests of streamReader.
   On every layout in the scope of the suffix clause (stored numbers never go backwards) the two are the SAME LIST:
   the filter reading loses nothing there, and no change of the library can be told apart by one clause and not by
   the other on such a layout.  They differ exactly on bundles whose numbers go backwards (W1-C10-1a/1b), which the
   suffix clause exempts. *)
Import BV.Base.Prelude BV.Model.FileSeq BV.Check.C10_Check.
Local Open Scope N_scope.

Lemma nondecr_weaken : forall l a b, a <= b -> nondecr b l = true -> nondecr a l = true.
Proof.
  destruct l as [|x l]; intros a b Hab H; simpl in *; [reflexivity|].
  apply andb_true_iff in H. destruct H as [H1 H2]. apply N.leb_le in H1.
  apply andb_true_iff. split; [apply N.leb_le; lia|exact H2].
Qed.

Lemma nondecr_all_ge : forall l last, nondecr last l = true -> Forall (fun b => last <= b_num b) l.
Proof.
  induction l as [|x l IH]; intros last H; simpl in *; [constructor|].
  apply andb_true_iff in H. destruct H as [H1 H2]. apply N.leb_le in H1.
  constructor; [exact H1|]. apply IH. apply (nondecr_weaken l last (b_num x)); assumption.
Qed.

Lemma nondecr_app : forall a b last, nondecr last (a ++ b) = true ->
  nondecr last a = true /\ nondecr last b = true /\ (forall x y, In x a -> In y b -> b_num x <= b_num y).
Proof.
  induction a as [|x a IH]; intros b last H; simpl in *.
  - split; [reflexivity|]. split; [exact H|]. intros x y [].
  - apply andb_true_iff in H. destruct H as [H1 H2]. apply N.leb_le in H1.
    destruct (IH b (b_num x) H2) as [Ha [Hb Hc]].
    split; [apply andb_true_iff; split; [apply N.leb_le; exact H1|exact Ha]|].
    split; [apply (nondecr_weaken b last (b_num x)); assumption|].
    intros u y [Hu|Hu] Hy.
    + subst u. pose proof (nondecr_all_ge b (b_num x) Hb) as F. rewrite Forall_forall in F. apply F. exact Hy.
    + apply Hc; assumption.
Qed.

Lemma nondecr_filter : forall (p : blk -> bool) l last, nondecr last l = true -> nondecr last (filter p l) = true.
Proof.
  induction l as [|x l IH]; intros last H; simpl in *; [reflexivity|].
  apply andb_true_iff in H. destruct H as [H1 H2].
  destruct (p x); simpl.
  - rewrite H1. simpl. apply IH. exact H2.
  - apply N.leb_le in H1. apply (nondecr_weaken _ last (b_num x)); [exact H1|]. apply IH. exact H2.
Qed.

Lemma all_ge_filter : forall p l, Forall (fun b => p <= b_num b) l -> filter (fun b => p <=? b_num b) l = l.
Proof.
  induction l as [|x l IH]; intros F; simpl; [reflexivity|].
  inversion F as [|? ? Hx Hl]; subst. apply N.leb_le in Hx. rewrite Hx. f_equal. apply IH. exact Hl.
Qed.

Lemma all_ge_drop : forall p l, Forall (fun b => p <= b_num b) l -> drop_leading p l = l.
Proof.
  destruct l as [|x l]; intros F; simpl; [reflexivity|].
  inversion F as [|? ? Hx Hl]; subst. apply N.ltb_ge in Hx. rewrite Hx. reflexivity.
Qed.

Lemma from_start_is_drop : forall s l, from_start s l = drop_leading s l.
Proof. induction l as [|x l IH]; simpl; [reflexivity|]. rewrite IH. reflexivity. Qed.

Lemma Forall_ge_trans : forall (l : list blk) a b, a <= b -> Forall (fun x => b <= b_num x) l -> Forall (fun x => a <= b_num x) l.
Proof. intros l a b Hab F. eapply Forall_impl; [|exact F]. simpl. intros. lia. Qed.

(* dropping the leading blocks below p from (A ++ T), A and A-before-T in non-decreasing order *)
Lemma drop_app_sorted : forall s A T last,
  nondecr last A = true -> (forall x y, In x A -> In y T -> b_num x <= b_num y) ->
  drop_leading s (A ++ T) = filter (fun b => s <=? b_num b) A ++ drop_leading s T.
Proof.
  induction A as [|x A IH]; intros T last HA HX; simpl; [reflexivity|].
  simpl in HA. apply andb_true_iff in HA. destruct HA as [H1 H2].
  destruct (b_num x <? s) eqn:E.
  - apply N.ltb_lt in E. assert (E' : (s <=? b_num x) = false) by (apply N.leb_gt; exact E). rewrite E'.
    apply (IH T (b_num x) H2). intros u y Hu Hy. apply HX; [right; exact Hu|exact Hy].
  - apply N.ltb_ge in E. assert (E' : (s <=? b_num x) = true) by (apply N.leb_le; exact E). rewrite E'.
    simpl. f_equal.
    rewrite all_ge_filter.
    + rewrite all_ge_drop; [reflexivity|].
      apply Forall_forall. intros y Hy. specialize (HX x y (or_introl eq_refl) Hy). lia.
    + apply (Forall_ge_trans A s (b_num x) E). apply nondecr_all_ge. exact H2.
Qed.

Lemma drop_is_filter : forall p l last, nondecr last l = true -> drop_leading p l = filter (fun b => p <=? b_num b) l.
Proof.
  intros p l last H. pose proof (drop_app_sorted p l [] last H (fun x y _ (F : In y []) => match F with end)) as E.
  rewrite !app_nil_r in E. exact E.
Qed.

Lemma filter_and : forall (p q : blk -> bool) l, filter (fun b => p b && q b) l = filter p (filter q l).
Proof.
  induction l as [|x l IH]; simpl; [reflexivity|].
  destruct (q x); simpl; destruct (p x); simpl; rewrite ?IH; reflexivity.
Qed.

Lemma text_files_eq : forall L fs i last, nondecr last (concat fs) = true ->
  drop_leading (l_start L) (text_files L i fs) = eligible_from L i fs /\
  (forall y, In y (text_files L i fs) -> In y (concat fs)).
Proof.
  intros L. induction fs as [|f fs IH]; intros i last H; simpl in *.
  - split; [reflexivity|]. intros y [].
  - destruct (nondecr_app f (concat fs) last H) as [Hf [Hr Hx]].
    destruct (IH (S i) last Hr) as [IH1 IH2].
    rewrite (drop_is_filter (base_of L i) f last Hf).
    split.
    + rewrite (drop_app_sorted (l_start L) _ (text_files L (S i) fs) last).
      * rewrite IH1. f_equal. symmetry.
        apply (filter_and (fun b => l_start L <=? b_num b) (fun b => base_of L i <=? b_num b) f).
      * apply nondecr_filter. exact Hf.
      * intros x y Hin Hy. apply filter_In in Hin. destruct Hin as [Hin _]. apply Hx; [exact Hin|]. apply IH2. exact Hy.
    + intros y Hy. apply in_app_or in Hy. apply in_or_app. destruct Hy as [Hy|Hy].
      * left. apply filter_In in Hy. tauto.
      * right. apply IH2. exact Hy.
Qed.

Theorem c10_suffix_is_filter_on_monotone_layouts :
  forall L, mono_layout L = true -> text_stream L = eligible L.
Proof.
  intros L H. unfold text_stream, eligible. rewrite from_start_is_drop.
  exact (proj1 (text_files_eq L (l_files L) 0%nat 0 H)).
Qed.
Print Assumptions c10_suffix_is_filter_on_monotone_layouts.

(* hence on those layouts the second clause adds nothing that [c10_check]'s second conjunct does not already demand,
   and demands nothing less *)
Corollary c10_suffix_y1_on_monotone_layouts :
  forall L calls, mono_layout L = true ->
    c10_suffix_y1 L calls = is_prefix blk_eqb (map fst calls) (eligible L).
Proof.
  intros L calls H. unfold c10_suffix_y1. rewrite H. simpl.
  rewrite (c10_suffix_is_filter_on_monotone_layouts L H). reflexivity.
Qed.
Print Assumptions c10_suffix_y1_on_monotone_layouts.

(* ... and they DO differ where the numbers go backwards: W1-C10-1a (start 4; 3b after 5) *)
Definition y1_lay : layout := mkLayout [[mkBlk 1 1 0; mkBlk 2 2 1; mkBlk 5 5 2; mkBlk 33 3 2; mkBlk 6 6 5]] 4 10 6.
Theorem c10_suffix_differs_from_filter_when_numbers_go_backwards :
  mono_layout y1_lay = false /\
  eligible y1_lay = [mkBlk 5 5 2; mkBlk 6 6 5] /\
  text_stream y1_lay = [mkBlk 5 5 2; mkBlk 33 3 2; mkBlk 6 6 5] /\
  (* exempt: the verdict stays what c10_verdict says *)
  c10_verdict_y1 (C10Case y1_lay 2 0 false false [(mkBlk 5 5 2, 20); (mkBlk 6 6 5, 24)] 1 false false) = 0.
Proof. vm_compute. repeat split; reflexivity. Qed.
Print Assumptions c10_suffix_differs_from_filter_when_numbers_go_backwards.
End C10.

Module C19.
(* W1-C19-1 "boundary owned exactly once".  Range.Next keeps both inclusivity flags and starts at the old end
   ([nextb] of Check/C19_Check.v, the guarded form of Model.Range.next that c19_next is about).  The property text
   speaks of "the interval arithmetic implied by the bounds and their inclusivity flags"; read as membership, a chain
   r, r.Next(s), r.Next(s).Next(s), ... should own every number exactly once.  The unchanged library does NOT do that
   for closed-closed, open-open and open-ended ranges, BY DESIGN (upstream TestRange_Next expects [10,15].Next(5) =
   [15,20]); so this is not wired into the verdict of ./check C19.  Instead, the exact characterisation, for the
   model's next:

     c19_next_chain_tiles_iff        a bounded range r with start < end, size > 0, at least one Next step: the chain
                                     r, Next r, ..., (K steps, stopping early where the uint64 guard of nextb fails)
                                     owns every number of its span exactly once  IFF  exactly one of the two flags
                                     is set ([a,b) and (a,b] tile; [a,b] and (a,b) do not);
     c19_next_chain_closed_shares    [a,b]: the boundary b is owned TWICE (by r and by Next r);
     c19_next_chain_open_loses       (a,b): the boundary b lies inside the span and is owned by NO range;
     c19_next_chain_open_ended_nests open-ended ranges, every flag combination: Next r is a sub-range of r, every
                                     number above start + size is owned at least twice - the chain never tiles;
     c19_previous_boundary           one Previous step: the shared boundary (the start of r) is owned twice / not at
                                     all / once in the same flag cases.
   Membership is [in_rangeb]; [c19_contains_is_in_rangeb] shows that it is Model.Range.contains. *)
Import BV.Base.Prelude BV.Base.Decimal BV.Model.Range BV.Check.C19_Check.
Local Open Scope N_scope.

Lemma c19_contains_is_in_rangeb : forall r n, contains r n = in_rangeb r n.
Proof.
  intros [s e xs xe] n. unfold contains, in_rangeb. simpl.
  destruct (n <? s) eqn:E1.
  - apply N.ltb_lt in E1. destruct xs.
    + assert (H : (s <? n) = false) by (apply N.ltb_ge; lia). rewrite H. reflexivity.
    + assert (H : (s <=? n) = false) by (apply N.leb_gt; lia). rewrite H. reflexivity.
  - apply N.ltb_ge in E1. destruct xs; simpl.
    + destruct (n =? s) eqn:E2.
      * apply N.eqb_eq in E2. subst. rewrite N.ltb_irrefl. reflexivity.
      * apply N.eqb_neq in E2. assert (H : (s <? n) = true) by (apply N.ltb_lt; lia). rewrite H. simpl.
        destruct e as [e|]; [|reflexivity]. destruct xe; simpl.
        -- destruct (e <? n) eqn:E3.
           ++ apply N.ltb_lt in E3. symmetry. apply N.ltb_ge. lia.
           ++ apply N.ltb_ge in E3. destruct (n =? e) eqn:E4.
              ** apply N.eqb_eq in E4. subst. rewrite N.ltb_irrefl. reflexivity.
              ** apply N.eqb_neq in E4. symmetry. apply N.ltb_lt. lia.
        -- destruct (e <? n) eqn:E3.
           ++ apply N.ltb_lt in E3. symmetry. apply N.leb_gt. lia.
           ++ apply N.ltb_ge in E3. symmetry. apply N.leb_le. lia.
    + assert (H : (s <=? n) = true) by (apply N.leb_le; lia). rewrite H. simpl.
      destruct e as [e|]; [|reflexivity]. destruct xe; simpl.
      * destruct (e <? n) eqn:E3.
        -- apply N.ltb_lt in E3. symmetry. apply N.ltb_ge. lia.
        -- apply N.ltb_ge in E3. destruct (n =? e) eqn:E4.
           ++ apply N.eqb_eq in E4. subst. rewrite N.ltb_irrefl. reflexivity.
           ++ apply N.eqb_neq in E4. symmetry. apply N.ltb_lt. lia.
      * destruct (e <? n) eqn:E3.
        -- apply N.ltb_lt in E3. symmetry. apply N.leb_gt. lia.
        -- apply N.ltb_ge in E3. symmetry. apply N.leb_le. lia.
Qed.

(* the chain r, Next r, Next (Next r), ... : at most K steps, cut where nextb's uint64 guard fails *)
Fixpoint chain_from (r : range) (sz : N) (k : nat) : list range :=
  match k with
  | O => [r]
  | S k' => r :: match nextb r sz with Some x => chain_from x sz k' | None => [] end
  end.

Definition end_of (r : range) : N := match rend r with Some e => e | None => 0 end.

(* the end bound of the last range of that chain *)
Fixpoint chain_end (r : range) (sz : N) (k : nat) : N :=
  match k with
  | O => end_of r
  | S k' => match nextb r sz with Some x => chain_end x sz k' | None => end_of r end
  end.

(* by how many ranges of l the number n is owned *)
Definition count_in (l : list range) (n : N) : nat := length (filter (fun r => in_rangeb r n) l).

(* the numbers from the first member of r to the last member of the last range (flags of r: Next copies them) *)
Definition in_span (r : range) (E : N) (n : N) : Prop :=
  (if rexs r then rstart r < n else rstart r <= n) /\ (if rexe r then n < E else n <= E).

Definition tiles (r : range) (sz : N) (K : nat) : Prop :=
  forall n, in_span r (chain_end r sz K) n -> count_in (chain_from r sz K) n = 1%nat.

(* n lies before the first member of x *)
Definition before (x : range) (n : N) : Prop := if rexs x then n <= rstart x else n < rstart x.

Lemma not_in_when_before : forall x n, before x n -> in_rangeb x n = false.
Proof.
  intros [s e xs xe] n H. unfold before in H. unfold in_rangeb. simpl in *. destruct xs.
  - assert (E : (s <? n) = false) by (apply N.ltb_ge; exact H). rewrite E. reflexivity.
  - assert (E : (s <=? n) = false) by (apply N.leb_gt; exact H). rewrite E. reflexivity.
Qed.

Lemma count_cons : forall x l n, count_in (x :: l) n = ((if in_rangeb x n then 1 else 0) + count_in l n)%nat.
Proof. intros. unfold count_in. simpl. destruct (in_rangeb x n); reflexivity. Qed.

Lemma before_zero : forall K s e xs xe sz n, 0 < sz -> s < e -> before (mkRange s (Some e) xs xe) n ->
  count_in (chain_from (mkRange s (Some e) xs xe) sz K) n = 0%nat.
Proof.
  induction K as [|K IH]; intros s e xs xe sz n Hsz Hse Hb; simpl.
  - rewrite count_cons, (not_in_when_before _ _ Hb). reflexivity.
  - rewrite count_cons, (not_in_when_before _ _ Hb). simpl. unfold nextb. simpl.
    destruct (e + sz <? two64); [|reflexivity].
    apply IH; [exact Hsz|lia|]. unfold before in *. simpl in *. destruct xs; lia.
Qed.

Lemma chain_end_ge : forall K s e xs xe sz, e <= chain_end (mkRange s (Some e) xs xe) sz K.
Proof.
  induction K as [|K IH]; intros s e xs xe sz; simpl; [unfold end_of; simpl; lia|].
  unfold nextb. simpl. destruct (e + sz <? two64); [|unfold end_of; simpl; lia].
  specialize (IH e (e + sz) xs xe sz). lia.
Qed.

(* exactly one flag set: b = exclusive start, negb b = exclusive end *)
Lemma tile_ok : forall K b s e sz n, s < e -> 0 < sz ->
  in_span (mkRange s (Some e) b (negb b)) (chain_end (mkRange s (Some e) b (negb b)) sz K) n ->
  count_in (chain_from (mkRange s (Some e) b (negb b)) sz K) n = 1%nat.
Proof.
  assert (Base : forall b s e n, in_span (mkRange s (Some e) b (negb b)) e n ->
                 in_rangeb (mkRange s (Some e) b (negb b)) n = true).
  { intros b s e n [H1 H2]. unfold in_rangeb. simpl in *. destruct b; simpl in *.
    - apply andb_true_iff. split; [apply N.ltb_lt; exact H1|apply N.leb_le; exact H2].
    - apply andb_true_iff. split; [apply N.leb_le; exact H1|apply N.ltb_lt; exact H2]. }
  induction K as [|K IH]; intros b s e sz n Hse Hsz Hsp.
  - simpl in *. rewrite count_cons. rewrite (Base b s e n Hsp). reflexivity.
  - simpl in Hsp. simpl. unfold nextb in *. simpl in *.
    destruct (e + sz <? two64) eqn:G.
    + rewrite count_cons.
      destruct (in_rangeb (mkRange s (Some e) b (negb b)) n) eqn:In.
      * (* owned by r: before the start of Next r *)
        rewrite before_zero; [reflexivity|exact Hsz|lia|].
        unfold in_rangeb in In. simpl in In. apply andb_true_iff in In. destruct In as [_ In].
        unfold before. simpl. destruct b; simpl in *.
        -- apply N.leb_le in In. exact In.
        -- apply N.ltb_lt in In. exact In.
      * (* not owned by r although it is past the start: it is past the end *)
        simpl. apply IH; [lia|exact Hsz|].
        destruct Hsp as [H1 H2]. split; [|exact H2].
        unfold in_rangeb in In. simpl in *. destruct b; simpl in *.
        -- assert (T : (s <? n) = true) by (apply N.ltb_lt; exact H1). rewrite T in In. simpl in In.
           apply N.leb_gt in In. exact In.
        -- assert (T : (s <=? n) = true) by (apply N.leb_le; exact H1). rewrite T in In. simpl in In.
           apply N.ltb_ge in In. exact In.
    + rewrite count_cons. simpl in Hsp. rewrite (Base b s e n Hsp). reflexivity.
Qed.

(* [a,b]: b is owned by r and by Next r *)
Theorem c19_next_chain_closed_shares : forall s e sz K, s < e -> 0 < sz -> e + sz < two64 ->
  let r := mkRange s (Some e) false false in
  in_span r (chain_end r sz (S K)) e /\ count_in (chain_from r sz (S K)) e = 2%nat.
Proof.
  intros s e sz K Hse Hsz G r. subst r. apply N.ltb_lt in G.
  split.
  - split; simpl; [lia|]. unfold nextb. simpl. rewrite G.
    pose proof (chain_end_ge K e (e + sz) false false sz). lia.
  - simpl. unfold nextb at 1. simpl. rewrite G. rewrite count_cons.
    assert (I0 : in_rangeb (mkRange s (Some e) false false) e = true).
    { unfold in_rangeb. simpl. apply andb_true_iff. split; apply N.leb_le; lia. }
    rewrite I0.
    destruct K as [|K]; simpl.
    + rewrite count_cons.
      assert (I1 : in_rangeb (mkRange e (Some (e + sz)) false false) e = true).
      { unfold in_rangeb. simpl. apply andb_true_iff. split; apply N.leb_le; lia. }
      rewrite I1. reflexivity.
    + rewrite count_cons.
      assert (I1 : in_rangeb (mkRange e (Some (e + sz)) false false) e = true).
      { unfold in_rangeb. simpl. apply andb_true_iff. split; apply N.leb_le; lia. }
      rewrite I1. unfold nextb. simpl. destruct (e + sz + sz <? two64); [|reflexivity].
      rewrite before_zero; [reflexivity|exact Hsz|lia|]. unfold before. simpl. lia.
Qed.
Print Assumptions c19_next_chain_closed_shares.

(* (a,b): b is inside the span and owned by no range *)
Theorem c19_next_chain_open_loses : forall s e sz K, s < e -> 0 < sz -> e + sz < two64 ->
  let r := mkRange s (Some e) true true in
  in_span r (chain_end r sz (S K)) e /\ count_in (chain_from r sz (S K)) e = 0%nat.
Proof.
  intros s e sz K Hse Hsz G r. subst r. apply N.ltb_lt in G.
  split.
  - split; simpl; [lia|]. unfold nextb. simpl. rewrite G.
    pose proof (chain_end_ge K e (e + sz) true true sz). lia.
  - simpl. unfold nextb at 1. simpl. rewrite G. rewrite count_cons.
    assert (I0 : in_rangeb (mkRange s (Some e) true true) e = false).
    { unfold in_rangeb. simpl. rewrite N.ltb_irrefl. apply andb_false_r. }
    rewrite I0. simpl.
    apply before_zero; [exact Hsz|lia|]. unfold before. simpl. lia.
Qed.
Print Assumptions c19_next_chain_open_loses.

Theorem c19_next_chain_tiles_iff : forall s e xs xe sz K, s < e -> 0 < sz -> e + sz < two64 ->
  (tiles (mkRange s (Some e) xs xe) sz (S K) <-> xs <> xe).
Proof.
  intros s e xs xe sz K Hse Hsz G. destruct xs, xe.
  - (* (a,b) *) split; [|intros H; exfalso; apply H; reflexivity].
    intros T. exfalso. destruct (c19_next_chain_open_loses s e sz K Hse Hsz G) as [Sp C].
    specialize (T e Sp). rewrite C in T. discriminate.
  - (* (a,b] *) split; [intros _; discriminate|]. intros _ n Sp.
    exact (tile_ok (S K) true s e sz n Hse Hsz Sp).
  - (* [a,b) *) split; [intros _; discriminate|]. intros _ n Sp.
    exact (tile_ok (S K) false s e sz n Hse Hsz Sp).
  - (* [a,b] *) split; [|intros H; exfalso; apply H; reflexivity].
    intros T. exfalso. destruct (c19_next_chain_closed_shares s e sz K Hse Hsz G) as [Sp C].
    specialize (T e Sp). rewrite C in T. discriminate.
Qed.
Print Assumptions c19_next_chain_tiles_iff.

(* open-ended ranges: Next r = r moved up by size, still open-ended: a SUB-range of r *)
Theorem c19_next_chain_open_ended_nests : forall s xs xe sz K n, s + sz < two64 -> s + sz < n ->
  (2 <= count_in (chain_from (mkRange s None xs xe) sz (S K)) n)%nat.
Proof.
  intros s xs xe sz K n G Hn. apply N.ltb_lt in G. simpl. unfold nextb at 1. simpl. rewrite G.
  rewrite count_cons.
  assert (I0 : in_rangeb (mkRange s None xs xe) n = true).
  { unfold in_rangeb. simpl. rewrite andb_true_r. destruct xs; [apply N.ltb_lt|apply N.leb_le]; lia. }
  rewrite I0.
  assert (I1 : in_rangeb (mkRange (s + sz) None xs xe) n = true).
  { unfold in_rangeb. simpl. rewrite andb_true_r. destruct xs; [apply N.ltb_lt|apply N.leb_le]; lia. }
  destruct K as [|K]; simpl; rewrite count_cons, I1; simpl; apply le_n_S, le_n_S, Nat.le_0_l.
Qed.
Print Assumptions c19_next_chain_open_ended_nests.

(* one Previous step ([prevb]): the boundary between r.Previous(size) and r is the start of r *)
Theorem c19_previous_boundary : forall s e xs xe sz, s < e -> 0 < sz -> sz <= s ->
  exists p, prevb (mkRange s (Some e) xs xe) sz = Some p /\
    count_in [p; mkRange s (Some e) xs xe] s =
      (if xs then (if xe then 0 else 1) else (if xe then 1 else 2))%nat.
Proof.
  intros s e xs xe sz Hse Hsz Hle. unfold prevb. simpl.
  assert (G : (sz <=? s) = true) by (apply N.leb_le; exact Hle). rewrite G.
  eexists. split; [reflexivity|].
  unfold count_in, in_rangeb. simpl.
  assert (A1 : (s - sz <? s) = true) by (apply N.ltb_lt; lia).
  assert (A2 : (s - sz <=? s) = true) by (apply N.leb_le; lia).
  assert (A3 : (s <? e) = true) by (apply N.ltb_lt; lia).
  assert (A4 : (s <=? e) = true) by (apply N.leb_le; lia).
  rewrite N.ltb_irrefl, N.leb_refl.
  destruct xs, xe; simpl; rewrite ?A1, ?A2, ?A3, ?A4, ?N.ltb_irrefl, ?N.leb_refl; simpl; reflexivity.
Qed.
Print Assumptions c19_previous_boundary.

(* the numbers of W1-C19-1, computed *)
Example c19_w1_numbers :
  nextb (mkRange 10 (Some 15) false false) 5 = Some (mkRange 15 (Some 20) false false) /\
  count_in (chain_from (mkRange 10 (Some 15) false false) 5 2) 15 = 2%nat /\
  count_in (chain_from (mkRange 10 (Some 15) false false) 5 2) 20 = 2%nat /\
  count_in (chain_from (mkRange 10 (Some 15) true true) 5 2) 15 = 0%nat /\
  count_in (chain_from (mkRange 10 (Some 15) true true) 5 2) 20 = 0%nat /\
  map (count_in (chain_from (mkRange 10 (Some 15) false true) 5 2)) [10; 14; 15; 19; 20; 24] = [1; 1; 1; 1; 1; 1]%nat /\
  map (count_in (chain_from (mkRange 10 (Some 15) true false) 5 2)) [11; 15; 16; 20; 21; 25] = [1; 1; 1; 1; 1; 1]%nat /\
  count_in (chain_from (mkRange 10 None false true) 5 2) 17 = 2%nat.
Proof. vm_compute. repeat split; reflexivity. Qed.
End C19.
