(* Y1: theorems that go with the checker clauses the conclusion audits (W1, W3) stated but did not implement.
   One module per property.  Everything is closed under the global context (Print Assumptions after each theorem).
   See notes_Y1.md. *)

From BV Require Base.Prelude Model.FileSeq Check.C10_Check Model.Range Check.C19_Check.
From Coq Require Import List NArith Lia Bool.
Import ListNotations.

Module C10.
(* The suffix clause [c10_suffix_y1] (Check/C10_Check.v) states the sentence "in exactly stored order, beginning with
   the first block at or above the start block" literally (a SUFFIX of the stored sequence, leading below-base blocks
   of each file removed).  [c10_check] uses [eligible], a FILTER copied from the two per-block tests of streamReader.
   On every layout in the scope of the suffix clause (stored numbers never go backwards) the two are the SAME LIST:
   the filter reading loses nothing there, and no change of the library can be told apart by one clause and not by
   the other on such a layout.  They differ exactly on bundles whose numbers go backwards (W1-C10-1a/1b), which the
   suffix clause exempts. *)
Import BV.Base.Prelude BV.Model.FileSeq BV.Check.C10_Check.
Local Open Scope N_scope.

Lemma nondecr_weaken : forall l a b, a <= b -> nondecr b l = true -> nondecr a l = true.
Proof.
  destruct l as [|x l]; intros a b Hab H; simpl in *; [reflexivity|].
  apply andb_true_iff in H. destruct H as [H1 H2]. apply N.leb_le in H1.
  apply andb_true_iff. split; [apply N.leb_le; lia|exact H2].
Qed.

Lemma nondecr_all_ge : forall l last, nondecr last l = true -> Forall (fun b => last <= b_num b) l.
Proof.
  induction l as [|x l IH]; intros last H; simpl in *; [constructor|].
  apply andb_true_iff in H. destruct H as [H1 H2]. apply N.leb_le in H1.
  constructor; [exact H1|]. apply IH. apply (nondecr_weaken l last (b_num x)); assumption.
Qed.

Lemma nondecr_app : forall a b last, nondecr last (a ++ b) = true ->
  nondecr last a = true /\ nondecr last b = true /\ (forall x y, In x a -> In y b -> b_num x <= b_num y).
Proof.
  induction a as [|x a IH]; intros b last H; simpl in *.
  - split; [reflexivity|]. split; [exact H|]. intros x y [].
  - apply andb_true_iff in H. destruct H as [H1 H2]. apply N.leb_le in H1.
    destruct (IH b (b_num x) H2) as [Ha [Hb Hc]].
    split; [apply andb_true_iff; split; [apply N.leb_le; exact H1|exact Ha]|].
    split; [apply (nondecr_weaken b last (b_num x)); assumption|].
    intros u y [Hu|Hu] Hy.
    + subst u. pose proof (nondecr_all_ge b (b_num x) Hb) as F. rewrite Forall_forall in F. apply F. exact Hy.
    + apply Hc; assumption.
Qed.

Lemma nondecr_filter : forall (p : blk -> bool) l last, nondecr last l = true -> nondecr last (filter p l) = true.
Proof.
  induction l as [|x l IH]; intros last H; simpl in *; [reflexivity|].
  apply andb_true_iff in H. destruct H as [H1 H2].
  destruct (p x); simpl.
  - rewrite H1. simpl. apply IH. exact H2.
  - apply N.leb_le in H1. apply (nondecr_weaken _ last (b_num x)); [exact H1|]. apply IH. exact H2.
Qed.

Lemma all_ge_filter : forall p l, Forall (fun b => p <= b_num b) l -> filter (fun b => p <=? b_num b) l = l.
Proof.
  induction l as [|x l IH]; intros F; simpl; [reflexivity|].
  inversion F as [|? ? Hx Hl]; subst. apply N.leb_le in Hx. rewrite Hx. f_equal. apply IH. exact Hl.
Qed.

Lemma all_ge_drop : forall p l, Forall (fun b => p <= b_num b) l -> drop_leading p l = l.
Proof.
  destruct l as [|x l]; intros F; simpl; [reflexivity|].
  inversion F as [|? ? Hx Hl]; subst. apply N.ltb_ge in Hx. rewrite Hx. reflexivity.
Qed.

Lemma from_start_is_drop : forall s l, from_start s l = drop_leading s l.
Proof. induction l as [|x l IH]; simpl; [reflexivity|]. rewrite IH. reflexivity. Qed.

Lemma Forall_ge_trans : forall (l : list blk) a b, a <= b -> Forall (fun x => b <= b_num x) l -> Forall (fun x => a <= b_num x) l.
Proof. intros l a b Hab F. eapply Forall_impl; [|exact F]. simpl. intros. lia. Qed.

(* dropping the leading blocks below p from (A ++ T), A and A-before-T in non-decreasing order *)
Lemma drop_app_sorted : forall s A T last,
  nondecr last A = true -> (forall x y, In x A -> In y T -> b_num x <= b_num y) ->
  drop_leading s (A ++ T) = filter (fun b => s <=? b_num b) A ++ drop_leading s T.
Proof.
  induction A as [|x A IH]; intros T last HA HX; simpl; [reflexivity|].
  simpl in HA. apply andb_true_iff in HA. destruct HA as [H1 H2].
  destruct (b_num x <? s) eqn:E.
  - apply N.ltb_lt in E. assert (E' : (s <=? b_num x) = false) by (apply N.leb_gt; exact E). rewrite E'.
    apply (IH T (b_num x) H2). intros u y Hu Hy. apply HX; [right; exact Hu|exact Hy].
  - apply N.ltb_ge in E. assert (E' : (s <=? b_num x) = true) by (apply N.leb_le; exact E). rewrite E'.
    simpl. f_equal.
    rewrite all_ge_filter.
    + rewrite all_ge_drop; [reflexivity|].
      apply Forall_forall. intros y Hy. specialize (HX x y (or_introl eq_refl) Hy). lia.
    + apply (Forall_ge_trans A s (b_num x) E). apply nondecr_all_ge. exact H2.
Qed.

Lemma drop_is_filter : forall p l last, nondecr last l = true -> drop_leading p l = filter (fun b => p <=? b_num b) l.
Proof.
  intros p l last H. pose proof (drop_app_sorted p l [] last H (fun x y _ (F : In y []) => match F with end)) as E.
  rewrite !app_nil_r in E. exact E.
Qed.

Lemma filter_and : forall (p q : blk -> bool) l, filter (fun b => p b && q b) l = filter p (filter q l).
Proof.
  induction l as [|x l IH]; simpl; [reflexivity|].
  destruct (q x); simpl; destruct (p x); simpl; rewrite ?IH; reflexivity.
Qed.

Lemma text_files_eq : forall L fs i last, nondecr last (concat fs) = true ->
  drop_leading (l_start L) (text_files L i fs) = eligible_from L i fs /\
  (forall y, In y (text_files L i fs) -> In y (concat fs)).
Proof.
  intros L. induction fs as [|f fs IH]; intros i last H; simpl in *.
  - split; [reflexivity|]. intros y [].
  - destruct (nondecr_app f (concat fs) last H) as [Hf [Hr Hx]].
    destruct (IH (S i) last Hr) as [IH1 IH2].
    rewrite (drop_is_filter (base_of L i) f last Hf).
    split.
    + rewrite (drop_app_sorted (l_start L) _ (text_files L (S i) fs) last).
      * rewrite IH1. f_equal. symmetry.
        apply (filter_and (fun b => l_start L <=? b_num b) (fun b => base_of L i <=? b_num b) f).
      * apply nondecr_filter. exact Hf.
      * intros x y Hin Hy. apply filter_In in Hin. destruct Hin as [Hin _]. apply Hx; [exact Hin|]. apply IH2. exact Hy.
    + intros y Hy. apply in_app_or in Hy. apply in_or_app. destruct Hy as [Hy|Hy].
      * left. apply filter_In in Hy. tauto.
      * right. apply IH2. exact Hy.
Qed.

Theorem c10_suffix_is_filter_on_monotone_layouts :
  forall L, mono_layout L = true -> text_stream L = eligible L.
Proof.
  intros L H. unfold text_stream, eligible. rewrite from_start_is_drop.
  exact (proj1 (text_files_eq L (l_files L) 0%nat 0 H)).
Qed.
Print Assumptions c10_suffix_is_filter_on_monotone_layouts.

(* hence on those layouts the second clause adds nothing that [c10_check]'s second conjunct does not already demand,
   and demands nothing less *)
Corollary c10_suffix_y1_on_monotone_layouts :
  forall L calls, mono_layout L = true ->
    c10_suffix_y1 L calls = is_prefix blk_eqb (map fst calls) (eligible L).
Proof.
  intros L calls H. unfold c10_suffix_y1. rewrite H. simpl.
  rewrite (c10_suffix_is_filter_on_monotone_layouts L H). reflexivity.
Qed.
Print Assumptions c10_suffix_y1_on_monotone_layouts.

(* ... and they DO differ where the numbers go backwards: W1-C10-1a (start 4; 3b after 5) *)
Definition y1_lay : layout := mkLayout [[mkBlk 1 1 0; mkBlk 2 2 1; mkBlk 5 5 2; mkBlk 33 3 2; mkBlk 6 6 5]] 4 10 6.
Theorem c10_suffix_differs_from_filter_when_numbers_go_backwards :
  mono_layout y1_lay = false /\
  eligible y1_lay = [mkBlk 5 5 2; mkBlk 6 6 5] /\
  text_stream y1_lay = [mkBlk 5 5 2; mkBlk 33 3 2; mkBlk 6 6 5] /\
  (* exempt: the verdict stays what c10_verdict says *)
  c10_verdict_y1 (C10Case y1_lay 2 0 false false [(mkBlk 5 5 2, 20); (mkBlk 6 6 5, 24)] 1 false false) = 0.
Proof. vm_compute. repeat split; reflexivity. Qed.
Print Assumptions c10_suffix_differs_from_filter_when_numbers_go_backwards.
End C10.
