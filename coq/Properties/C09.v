(* C09 property theorems only.  Proofs live in Proofs/C09_*.v, statements in Spec/C09_Spec.v. *)
From BV Require Import Base.Prelude Model.Block Model.ForkDB Model.Forkable Model.ForkableLookups Model.Burst Model.Hub
  Spec.Universe Spec.C09_Spec Proofs.C09_Store Proofs.C09_Segment Proofs.C09_Proofs Proofs.C09_Ready Proofs.C09_Invariant.
Local Open Scope N_scope.

Theorem c09_wf_preserved : C09_wf_preserved.
Proof. exact c09_wf_preserved_proof. Qed.
Print Assumptions c09_wf_preserved.

(* every state a Forkable / a hub reaches from blocks of a well-formed universe is a wf_state *)
Theorem c09_wf_reachable : C09_wf_reachable.
Proof. exact c09_wf_reachable_proof. Qed.
Print Assumptions c09_wf_reachable.

Theorem c09_wf_universe_b : forall U, wf_b U = true -> wf_universe U.
Proof. exact Proofs.C09_Invariant.c09_wf_universe_b. Qed.
Print Assumptions c09_wf_universe_b.

Theorem c09_hub_head_has_lib : C09_hub_head_has_lib.
Proof. exact c09_hub_head_has_lib_proof. Qed.
Print Assumptions c09_hub_head_has_lib.

Theorem c09_hub_snapshots : C09_hub_snapshots.
Proof. exact c09_hub_snapshots_proof. Qed.
Print Assumptions c09_hub_snapshots.

Theorem c09_fuel_sufficient : C09_fuel_sufficient.
Proof. exact c09_fuel_sufficient_proof. Qed.
Print Assumptions c09_fuel_sufficient.

Theorem c09_segment_chain : C09_segment_chain.
Proof. exact c09_segment_chain_proof. Qed.
Print Assumptions c09_segment_chain.

Theorem c09_head_segment : C09_head_segment.
Proof. exact c09_head_segment_proof. Qed.
Print Assumptions c09_head_segment.

Theorem c09_from_num : C09_from_num.
Proof. exact c09_from_num_proof. Qed.
Print Assumptions c09_from_num.

Theorem c09_snapshot_cursor : C09_snapshot_cursor.
Proof. exact c09_snapshot_cursor_proof. Qed.
Print Assumptions c09_snapshot_cursor.

Theorem c09_lowest : C09_lowest.
Proof. exact c09_lowest_proof. Qed.
Print Assumptions c09_lowest.

Theorem c09_lowest_zero : C09_lowest_zero.
Proof. exact c09_lowest_zero_proof. Qed.
Print Assumptions c09_lowest_zero.

Theorem c09_not_ready : C09_not_ready.
Proof. exact c09_not_ready_proof. Qed.
Print Assumptions c09_not_ready.

Theorem c09_with_forks : C09_with_forks.
Proof. exact c09_with_forks_proof. Qed.
Print Assumptions c09_with_forks.

Theorem c09_linkable : C09_linkable.
Proof. exact c09_linkable_proof. Qed.
Print Assumptions c09_linkable.

Theorem c09_ready_latch : C09_ready_latch.
Proof. exact c09_ready_latch_proof. Qed.
Print Assumptions c09_ready_latch.

(* ---- non-vacuity: a hub bootstrapped from a one-block pass with a fork at height 3, then one live
   block.  The state is well formed, ready, has a LIB, its head's segment reaches the LIB and is not
   empty; the request at 3 is served (hypotheses of c09_from_num / c09_lowest / c09_with_forks /
   c09_ready_latch / c09_linkable all met), the request at 0 is not. *)
Definition ex_b1 := mkBlock 11 1 10 0.
Definition ex_b2 := mkBlock 12 2 11 1.
Definition ex_b3 := mkBlock 13 3 12 1.
Definition ex_b3' := mkBlock 23 3 12 1.
Definition ex_b4 := mkBlock 14 4 13 2.
Definition ex_b5 := mkBlock 15 5 14 3.
Definition ex_h0 := hub_live 1 2 hub_init (PBlocks [ex_b1; ex_b2; ex_b3; ex_b3']) ex_b4.
Definition ex_h1 := fst (fst ex_h0).
Definition ex_h2 := fst (fst (hub_live 1 2 ex_h1 PNil ex_b5)).

Example c09_nonvacuous_state :
  wf_state_b (h_f ex_h2) = true /\ h_ready ex_h2 = true /\ has_lib (db (h_f ex_h2)) = true /\
  last_sent (h_f ex_h2) = Some ex_b5 /\
  match complete_segment (db (h_f ex_h2)) (bref ex_b5) with
  | Some (x0 :: sg, true) => map sid (x0 :: sg) = [11; 12; 13; 14; 15]
  | _ => False end /\
  hub_lowest ex_h2 = 1 /\
  match blocks_from_num (h_f ex_h2) 3 with
  | BOk evs => map (fun e => bid (eblk e)) evs = [13; 14; 15] /\ map estep evs = [SNewIrr; SNew; SNew]
  | _ => False end /\
  blocks_from_num (h_f ex_h2) 0 = BErr /\
  blocks_from_num_with_forks (h_f ex_h2) 3 = Some [ex_b3; ex_b3'; ex_b4; ex_b5].
Proof. vm_compute. repeat split. Qed.

Example c09_nonvacuous_latch :
  h_ready hub_init = false /\ h_ready ex_h1 = true /\ snd ex_h0 = ROk /\
  linkable (h_f ex_h1) ex_b4 = Some true /\ wf_state_b (h_f ex_h1) = true /\
  (* a live block that does not link leaves the hub not ready *)
  h_ready (fst (fst (hub_live 1 2 hub_init (PBlocks [ex_b1]) ex_b4))) = false.
Proof. vm_compute. repeat split. Qed.

(* a well-formed store and a block that fits it, for c09_wf_preserved *)
Example c09_nonvacuous_fits :
  wf_store_b (store (db (h_f ex_h1))) = true /\
  forallb (fun p => (negb (key p =? bparent ex_b5) || (bnum (eb p) <? bnum ex_b5)) &&
                    (negb (bparent (eb p) =? bid ex_b5) || (bnum ex_b5 <? bnum (eb p))))
          (store (db (h_f ex_h1))) = true.
Proof. vm_compute. auto. Qed.

(* the universe of the examples is well formed, and the example hub is a run over it *)
Example c09_nonvacuous_universe :
  wf_b [ex_b1; ex_b2; ex_b3; ex_b3'; ex_b4; ex_b5] = true /\
  ex_h2 = hub_run 1 2 hub_init [(ex_b4, PBlocks [ex_b1; ex_b2; ex_b3; ex_b3']); (ex_b5, PNil)].
Proof. vm_compute. auto. Qed.
