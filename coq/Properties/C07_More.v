(* C07 over whole runs for every step filter and stop block - property theorems only.
   Statements: Spec/C07_Shapes_Spec.v, Spec/C07_More_Spec.v, Spec/C07_Final_Spec.v, Spec/C07_FinalUnfixed_Spec.v,
   Spec/C07_TargetUnfixed_Spec.v; proofs: Proofs/C07_Shapes.v, C07_Raw.v, C07_Filters.v, C07_ChainFacts.v, C07_FiltersNum.v,
   C07_FiltersCursor.v, C07_FiltersTarget.v, C07_FinalHub.v, C07_Final.v, C07_FinalMem.v, C07_FinalCursor.v,
   C07_FinalTarget.v, C07_FinalRefuted.v, C07_TargetRefuted.v, C07_TargetOff.v. *)
From BV Require Import Base.Prelude Model.Block Model.ForkDB Model.Forkable Model.ForkableLookups
  Model.Burst Model.Hub Model.CursorResolver Model.Joining
  Spec.Consumer Spec.Universe Check.Burst_Check Check.C07_Check Spec.C06_Spec Spec.C07_Spec Spec.C09_Spec Spec.C13_Spec
  Spec.C07_Compose_Spec Spec.C07_Shapes_Spec Spec.C07_More_Spec Spec.C07_Final_Spec Spec.C07_FinalUnfixed_Spec Spec.C07_TargetUnfixed_Spec Spec.C07_Fuel_Spec
  Proofs.C07_ComposeRun Proofs.C07_ComposeCheck Proofs.C07_FullRefuted Proofs.C07_Shapes Proofs.C07_FiltersNum Proofs.C07_FiltersCursor Proofs.C07_FiltersTarget Proofs.C07_Final Proofs.C07_FinalMem Proofs.C07_FinalCursor Proofs.C07_FinalTarget Proofs.C07_TargetRefuted Proofs.C07_FinalRefuted Proofs.C07_Fuel
  Properties.C07_Compose.
Local Open Scope N_scope.

(* every filter, stop block, mode, world, schedule (no hypothesis): a run is the handler chain over a raw sequence of
   one of three shapes that do not depend on the chain *)
Theorem c07_run_shapes : C07_run_shapes.
Proof. exact c07_run_shapes_proof. Qed.
Print Assumptions c07_run_shapes.

(* number mode, EVERY filter and stop block: the raw sequence follows the discipline and is complete *)
Theorem c07_num_raw : C07_num_raw.
Proof. exact c07_num_raw_proof. Qed.
Print Assumptions c07_num_raw.

(* number mode, filters with New and Undo (default; custom masks containing New and Undo), ANY stop block: discipline
   for every outcome, completeness when the stream ends waiting, and the stop clause of C07 ("canon from start up to
   block S itself") when it ends with stop-block-reached *)
Theorem c07_seamless_num_nu : C07_seamless_num_nu.
Proof. exact c07_seamless_num_nu_proof. Qed.
Print Assumptions c07_seamless_num_nu.

(* cursor mode (both cases: the hub serves the cursor, or the stream starts in the files), filters with New and Undo, ANY
   stop block: discipline for every outcome, the four outcomes of c07_seamless_cursor when the stream ends waiting *)
Theorem c07_seamless_cursor_nu : C07_seamless_cursor_nu.
Proof. exact c07_seamless_cursor_nu_proof. Qed.
Print Assumptions c07_seamless_cursor_nu.

(* target-cursor mode, filters with New and Undo, ANY stop block; partial: target_on_chain remains (a stored cursor block
   is on the hub's chain).  files_on_hub is no longer needed: since the fix "target join on identity" a target cursor
   below the file block joins on the block's identity, and a cursor at or above it joins "through the cursor", where the
   hub's block of that height is the ancestor of the canonical cursor block *)
Theorem c07_seamless_target_nu_partial : C07_seamless_target_nu.
Proof. exact c07_seamless_target_nu_proof. Qed.
Print Assumptions c07_seamless_target_nu_partial.

(* target-cursor mode WITHOUT any agreement hypothesis between files, cursor and hub: FULL for a cursor minted on the chain
   (its LIB is a canonical block at or below its block: cursor_lib_on).  Also covers the hub that stores the cursor block off
   its current chain (the branch target_on_chain excluded): Proofs/C07_TargetOff.v *)
Theorem c07_seamless_target_nu : C07_seamless_target_nu_full.
Proof. exact c07_seamless_target_nu_full_proof. Qed.
Print Assumptions c07_seamless_target_nu.

(* ... default filter, no stop block (the form of c07_seamless_target_partial) *)
Theorem c07_seamless_target : C07_seamless_target_full.
Proof. exact c07_seamless_target_full_proof. Qed.
Print Assumptions c07_seamless_target.

(* the hypothesis on the cursor LIB cannot simply be dropped: a malformed cursor (LIB reference with a wrong number) breaks the
   discipline in the model *)
Theorem c07_target_cursor_lib_needed : C07_target_cursor_lib_needed.
Proof. exact c07_target_cursor_lib_needed_proof. Qed.
Print Assumptions c07_target_cursor_lib_needed.

(* BEFORE that fix (stream_run_tnum, Spec/C07_TargetUnfixed_Spec.v) target-cursor mode joined the hub by block NUMBER when
   the cursor was below the file block: with every hypothesis of c07_seamless_target_nu_partial the hub on a fork at the
   join height broke the discipline - found by this proof, reproduced on the real code, repaired *)
Theorem c07_target_join_by_number_refuted : C07_target_join_by_number_refuted.
Proof. exact c07_target_join_by_number_refuted_proof. Qed.
Print Assumptions c07_target_join_by_number_refuted.

(* number mode, final blocks only (the stateful filter of the fix "each final block once"), any stop block: each
   delivered block extends the previous one; complete on the final chain.  No files_final hypothesis. *)
Theorem c07_seamless_num_final : C07_seamless_num_final.
Proof. exact c07_seamless_num_final_proof. Qed.
Print Assumptions c07_seamless_num_final.

(* BEFORE that fix (stateless filter, Spec/C07_FinalUnfixed_Spec.v) final blocks were delivered twice *)
Theorem c07_final_only_refuted : C07_final_only_refuted.
Proof. exact c07_final_only_refuted_proof. Qed.
Print Assumptions c07_final_only_refuted.

(* BEFORE the second fix (the filter's memory started empty also in cursor mode: stream_run_nomem of
   Spec/C07_FinalUnfixed_Spec.v) a final-blocks-only stream from a cursor ahead of the hub's LIB got blocks at or below its
   cursor again; the model now starts the memory at the cursor block (Model/Joining.start_mem) *)
Theorem c07_final_cursor_refuted : C07_final_cursor_refuted.
Proof. exact c07_final_cursor_refuted_proof. Qed.
Print Assumptions c07_final_cursor_refuted.

(* final blocks only, every mode / world / schedule / stop block, no hypothesis: delivered block numbers strictly
   increase; from a cursor nothing at or below the cursor block *)
Theorem c07_final_increasing : C07_final_increasing.
Proof. exact c07_final_increasing_proof. Qed.
Print Assumptions c07_final_increasing.

(* final blocks only, CURSOR mode (cursor on a final canonical block), any stop block: the first delivered block is the
   child of the cursor block, each delivered block extends the previous one; complete on the final chain.  World
   hypotheses only *)
Theorem c07_seamless_cursor_final : C07_seamless_cursor_final_full.
Proof. exact c07_seamless_cursor_final_proof. Qed.
Print Assumptions c07_seamless_cursor_final.

(* final blocks only, TARGET-cursor mode (final target cursor on canon), any stop block: each delivered block extends the
   previous one; complete on the final chain.  World hypotheses only: neither files_on_hub nor target_on_chain *)
Theorem c07_seamless_target_final : C07_seamless_target_final_full.
Proof. exact c07_seamless_target_final_proof. Qed.
Print Assumptions c07_seamless_target_final.

(* the fuel: a run ends with JFuel only if a burst of the hub exceeds the explicit bound (or through the fuel of the
   hub's lookups / the cursor resolver); partial: the bound is a hypothesis, the stream's fuel does not cover every world *)
Theorem c07_fuel_enough_partial : C07_fuel_enough.
Proof. exact c07_fuel_enough_proof. Qed.
Print Assumptions c07_fuel_enough_partial.

Theorem c07_live_fuel_enough : C07_live_fuel_enough.
Proof. exact c07_live_fuel_enough_proof. Qed.
Print Assumptions c07_live_fuel_enough.

(* ---- non-vacuity ---- *)

(* the world of Properties/C07_Compose.v (chain 2..20, sibling 116 of 16, hub 12..15, merged files 2..14), custom filter
   New|Undo (mask 3), stop block 17: every hypothesis of c07_seamless_num_nu holds *)
Definition mx_c : jcfg := mkJ 2 0 10 0 5 None 17 2 3.

Example c07_more_nonvacuous_hyps :
  wf_b cx_U = true /\ lib_ok_b LNone cx_U = true /\
  hub_of_universe cx_U mx_c cx_w /\
  chain_ok cx_canon /\ incl cx_canon cx_U /\
  eventual_tip mx_c cx_w cx_canon /\
  j_mode mx_c = 0 /\ has_nu (j_filter mx_c) (j_custom mx_c) = true /\ 0 < j_bundle mx_c /\
  Forall (fun b => bnum b < file_bound) cx_merged /\
  (exists b, In b cx_canon /\ bnum b = run_start mx_c cx_w).
Proof.
  destruct c07_compose_nonvacuous_hyps as (H1 & H2 & Hhub & H4 & H5 & _ & _ & _ & _ & _ & H10 & _).
  split; [exact H1|]. split; [exact H2|]. split; [exact Hhub|]. split; [exact H4|]. split; [exact H5|].
  split; [apply eventual_tip_b_sound; vm_compute; reflexivity|].
  split; [reflexivity|]. split; [reflexivity|]. split; [reflexivity|]. split; [exact H10|].
  exists (cx_b 5). split; [vm_compute; tauto | vm_compute; reflexivity].
Qed.

(* the run: 5..12 from the files, join at 13, live; the sibling 116 is delivered and undone, 16 and 17 follow, the stop
   block 17 is delivered and the stream ends with stop-block-reached holding canon 5..17 (second alternative of
   stop_reached, e = New 17); with the stop block 14 the file source delivers 14 itself and the chain stops in the
   files *)
Example c07_more_nonvacuous_run :
  cx_show (stream_run mx_c cx_w [(3, 1); (12, 2)] 15 cx_merged [])
  = ([(SNewIrr, 5); (SNewIrr, 6); (SNewIrr, 7); (SNewIrr, 8); (SNewIrr, 9); (SNewIrr, 10); (SNewIrr, 11);
      (SNewIrr, 12); (SNewIrr, 13); (SNew, 14); (SNew, 15); (SNew, 116); (SUndo, 116); (SNew, 16); (SNew, 17)], JStop) /\
  cx_show (stream_run (mkJ 2 0 10 0 5 None 14 2 3) cx_w [(3, 6)] 15 cx_merged [])
  = ([(SNewIrr, 5); (SNewIrr, 6); (SNewIrr, 7); (SNewIrr, 8); (SNewIrr, 9); (SNewIrr, 10); (SNewIrr, 11);
      (SNewIrr, 12); (SNewIrr, 13); (SNewIrr, 14)], JStop).
Proof. vm_compute. split; reflexivity. Qed.

(* final blocks only: the witness world of c07_final_only_refuted (the join above the hub's LIB) meets every hypothesis of
   c07_seamless_num_final; the stateful filter delivers 5..10 once (Proofs/C07_FinalRefuted.c07_final_only_witness_runs) *)
Example c07_final_nonvacuous_hyps :
  wf_b fo_canon = true /\ lib_ok_b LNone fo_canon = true /\
  hub_of_universe fo_canon fo_c fo_w /\
  chain_ok fo_canon /\ incl fo_canon fo_canon /\
  eventual_tip fo_c fo_w fo_canon /\
  j_mode fo_c = 0 /\ j_filter fo_c = 1 /\ 0 < j_bundle fo_c /\
  Forall (fun b => bnum b < file_bound) (filter (fun b => bnum b <? 12) fo_canon) /\
  (exists b, In b fo_canon /\ bnum b = run_start fo_c fo_w).
Proof.
  destruct c07_final_only_refuted_proof as (U & c & w & ps & me & canon & forked & _).
  split; [vm_compute; reflexivity|]. split; [vm_compute; reflexivity|].
  split.
  { split.
    - exists []. split; [intros b p []|reflexivity].
    - intros b Hb. vm_compute in Hb. vm_compute. tauto. }
  split.
  { split.
    - vm_compute. repeat split.
    - apply (NoDup_map_inv (fun x => x)). rewrite map_id. vm_compute.
      repeat (constructor; [cbn; intros K; repeat (destruct K as [K|K]; [discriminate|]); exact K|]). constructor. }
  split; [intros b Hb; exact Hb|].
  split; [apply eventual_tip_b_sound; vm_compute; reflexivity|].
  split; [reflexivity|]. split; [reflexivity|]. split; [reflexivity|].
  split.
  { apply Forall_forall. intros b Hb.
    assert (H : forallb (fun b => bnum b <? file_bound) (filter (fun b => bnum b <? 12) fo_canon) = true) by (vm_compute; reflexivity).
    rewrite forallb_forall in H. apply N.ltb_lt. apply H. exact Hb. }
  exists (fo_b 5). split; [vm_compute; tauto | vm_compute; reflexivity].
Qed.

(* a final-blocks-only run that joins at the hub's LIB block and goes on live: chain 2..20 of Properties/C07_Compose.v *)
Example c07_final_nonvacuous_run :
  cx_show (stream_run (mkJ 2 0 10 0 5 None 0 1 0) cx_w [(3, 1); (12, 2)] 15 cx_merged [])
  = ([(SNewIrr, 5); (SNewIrr, 6); (SNewIrr, 7); (SNewIrr, 8); (SNewIrr, 9); (SNewIrr, 10); (SNewIrr, 11);
      (SNewIrr, 12); (SNewIrr, 13); (SIrr, 14); (SIrr, 15); (SIrr, 16); (SIrr, 17); (SIrr, 18)], JNil).
Proof. vm_compute. reflexivity. Qed.

(* the fuel bound holds in the example world (number mode): every burst of every world ahead is within the fuel *)
Example c07_fuel_nonvacuous :
  let fuel := run_fuel cx_w cx_merged in
  (forall burst, live_try cx_c (w_hub cx_w) (run_start cx_c cx_w) = BOk burst -> (live_work cx_c cx_w burst < fuel)%nat) /\
  joins_within fuel cx_c cx_w.
Proof.
  cbv zeta.
  assert (Hall : forallb (fun k => bursts_b (h_f (w_hub (world_after cx_c k cx_w)))
                      (fun _ evs => Nat.ltb (live_work cx_c (world_after cx_c k cx_w) evs) (run_fuel cx_w cx_merged)))
                   (seq 0 (S (length (w_rest cx_w)))) = true) by (vm_compute; reflexivity).
  rewrite forallb_forall in Hall.
  assert (Hk : forall k n evs, blocks_from_num (h_f (w_hub (world_after cx_c k cx_w))) n = BOk evs ->
             (live_work cx_c (world_after cx_c k cx_w) evs < run_fuel cx_w cx_merged)%nat).
  { intros k n evs Hb. rewrite (world_after_min cx_c k cx_w) in Hb |- *.
    assert (Hin : In (Nat.min k (length (w_rest cx_w))) (seq 0 (S (length (w_rest cx_w))))) by (apply in_seq; lia).
    pose proof (bursts_b_sound _ _ (Hall _ Hin) n evs Hb) as H. apply Nat.ltb_lt. exact H. }
  split.
  - intros burst Hl. unfold live_try in Hl. destruct (h_ready (w_hub cx_w)); cbn [negb] in Hl; [|discriminate].
    change (j_mode cx_c =? 0) with true in Hl. cbv iota in Hl. exact (Hk 0%nat _ burst Hl).
  - intros m lowest e burst Hj.
    destruct (join_mode0 cx_c (world_after cx_c m cx_w) lowest e burst eq_refl Hj) as (Hb & _). exact (Hk m _ burst Hb).
Qed.

(* cursor mode with a custom filter New|Undo|Irreversible (mask 19) and stop block 17: the cursor of
   Properties/C07_Compose.v (New 109, a forked sibling of block 9, cursor LIB 6): the resolver undoes 109 and
   announces 7, 8 final (the mask lets Irreversible through; the New|Undo consumer ignores them), the files bring 9..12, the join is at 13, the rest is live up to the stop block *)
Definition mx_cc : jcfg := mkJ 2 0 10 1 0 (Some cx_cu) 17 2 19.

Example c07_more_nonvacuous_cursor :
  hub_of_universe cx_U mx_cc cx_w /\ eventual_tip mx_cc cx_w cx_canon /\
  j_mode mx_cc = 1 /\ j_cursor mx_cc = Some cx_cu /\ has_nu (j_filter mx_cc) (j_custom mx_cc) = true /\ 0 < j_bundle mx_cc /\
  from_num (rn (cu_lib cx_cu)) cx_canon = cx_b 6 :: map cx_b [7;8;9;10;11;12;13;14;15;16;17;18;19;20] /\
  bref (cx_b 6) = cu_lib cx_cu /\
  cursor_state cx_canon [cx_f9] cx_cu (cx_b 6) [cx_b 7; cx_b 8] [cx_f9] /\
  cx_show (stream_run mx_cc cx_w [(3, 1); (12, 2)] 15 cx_merged [cx_f9])
  = ([(SUndo, 109); (SIrr, 7); (SIrr, 8); (SNewIrr, 9); (SNewIrr, 10); (SNewIrr, 11); (SNewIrr, 12); (SNewIrr, 13); (SNew, 14);
      (SNew, 15); (SNew, 116); (SUndo, 116); (SNew, 16); (SNew, 17)], JStop).
Proof.
  destruct c07_compose_nonvacuous_cursor as (Hhub & _ & _ & _ & _ & _ & _ & _ & Hf & HLr & Hst & _).
  split; [exact Hhub|].
  split; [apply eventual_tip_b_sound; vm_compute; reflexivity|].
  split; [reflexivity|]. split; [reflexivity|]. split; [reflexivity|]. split; [reflexivity|].
  split; [exact Hf|]. split; [exact HLr|]. split; [exact Hst|].
  vm_compute. reflexivity.
Qed.

(* ... with the forked block 109 in the universe (hypothesis `Forall (In U) hf` of c07_seamless_cursor_nu): the universe
   cx_U ++ [109] is in the class of the theorems and the hub is a hub run over it *)
Definition mx_U : list block := cx_U ++ [cx_f9].

Example c07_more_nonvacuous_cursor_universe :
  wf_b mx_U = true /\ lib_ok_b LNone mx_U = true /\ hub_of_universe mx_U mx_cc cx_w /\ incl cx_canon mx_U /\
  Forall (fun x => In x mx_U) [cx_f9] /\ Forall (fun b => bnum b < file_bound) cx_merged /\
  (cu_step cx_cu = SUndo -> exists X, In X mx_U /\ bref X = cu_blk cx_cu /\ branch_from (cx_b 6) ([cx_b 7; cx_b 8] ++ [cx_f9] ++ [X])).
Proof.
  destruct c07_compose_nonvacuous_hyps as (_ & _ & [[l [Hl Hh]] Hr] & _ & _ & _ & _ & _ & _ & _ & Hb & _).
  split; [vm_compute; reflexivity|]. split; [vm_compute; reflexivity|].
  split.
  { split.
    - exists l. split; [|exact Hh]. intros b p Hin. destruct (Hl b p Hin) as [H1 H2]. split; [unfold mx_U; apply in_or_app; left; exact H1|].
      destruct p; [exact I|]. intros x Hx. unfold mx_U. apply in_or_app. left. exact (H2 x Hx).
    - intros b Hbr. unfold mx_U. apply in_or_app. left. exact (Hr b Hbr). }
  split; [intros b Hbc; unfold mx_U, cx_U; apply in_or_app; left; apply in_or_app; left; exact Hbc|].
  split; [constructor; [unfold mx_U; apply in_or_app; right; left; reflexivity | constructor]|].
  split; [exact Hb | intros H; discriminate].
Qed.

(* target-cursor mode with the custom filter New|Undo and stop block 17: the target cursor of Properties/C07_Compose.v *)
Definition mx_c4 : jcfg := mkJ 2 0 10 2 5 (Some cx_cu4) 17 2 3.

Example c07_more_nonvacuous_target :
  hub_of_universe cx_U mx_c4 cx_w /\ eventual_tip mx_c4 cx_w cx_canon /\
  target_on_chain mx_c4 cx_w cx_cu4 /\
  j_mode mx_c4 = 2 /\ j_cursor mx_c4 = Some cx_cu4 /\ has_nu (j_filter mx_c4) (j_custom mx_c4) = true /\ 0 < j_bundle mx_c4 /\
  In (cx_b 14) cx_canon /\ bref (cx_b 14) = cu_blk cx_cu4 /\
  (exists b, In b cx_canon /\ bnum b = run_start mx_c4 cx_w) /\
  cx_show (stream_run mx_c4 cx_w [(3, 1); (12, 2)] 15 cx_merged [])
  = ([(SNewIrr, 5); (SNewIrr, 6); (SNewIrr, 7); (SNewIrr, 8); (SNewIrr, 9); (SNewIrr, 10); (SNewIrr, 11);
      (SNewIrr, 12); (SNewIrr, 13); (SNew, 14); (SNew, 15); (SNew, 116); (SUndo, 116); (SNew, 16); (SNew, 17)], JStop).
Proof.
  destruct c07_compose_nonvacuous_hyps as (_ & _ & Hhub & _ & _ & _ & _ & _).
  split; [exact Hhub|].
  split; [apply eventual_tip_b_sound; vm_compute; reflexivity|].
  split; [apply target_on_chain_b_sound; vm_compute; reflexivity|].
  split; [reflexivity|]. split; [reflexivity|]. split; [reflexivity|]. split; [reflexivity|].
  split; [vm_compute; tauto|]. split; [reflexivity|].
  split; [exists (cx_b 5); split; [vm_compute; tauto | vm_compute; reflexivity]|].
  vm_compute. reflexivity.
Qed.

(* final blocks only from a cursor: the world of c07_final_cursor_refuted (cursor on the final block 12, ahead of the hub's
   LIB 10; longer tail of arrivals fc_w2) meets every hypothesis of c07_seamless_cursor_final; the stream delivers 13, 14
   (Proofs/C07_FinalRefuted.c07_final_cursor_witness_run) *)
Definition fc_canon2 : list block := map fo_b [2;3;4;5;6;7;8;9;10;11;12;13;14;15;16;17;18].
Example c07_cursor_final_nonvacuous_hyps :
  wf_b fc_canon2 = true /\ lib_ok_b LNone fc_canon2 = true /\
  hub_of_universe fc_canon2 fc_c fc_w2 /\
  chain_ok fc_canon2 /\ incl fc_canon2 fc_canon2 /\
  eventual_tip fc_c fc_w2 fc_canon2 /\
  j_mode fc_c = 1 /\ j_cursor fc_c = Some fc_cu /\ j_filter fc_c = 1 /\ 0 < j_bundle fc_c /\
  on_final_block fc_cu = true /\
  from_num (rn (cu_lib fc_cu)) fc_canon2 = fo_b 12 :: map fo_b [13;14;15;16;17;18] /\
  bref (fo_b 12) = cu_lib fc_cu /\ bref (fo_b 12) = cu_blk fc_cu.
Proof.
  split; [vm_compute; reflexivity|]. split; [vm_compute; reflexivity|].
  split.
  { split.
    - exists fc_l. split; [|reflexivity]. intros b p Hin. unfold fc_l in Hin. apply in_map_iff in Hin as (n & E & Hn). injection E as <- <-.
      split; [|intros x []]. vm_compute in Hn. repeat (destruct Hn as [<-|Hn]; [vm_compute; tauto|]). destruct Hn.
    - intros b Hb. vm_compute in Hb. vm_compute. tauto. }
  split.
  { split.
    - vm_compute. repeat split.
    - apply (NoDup_map_inv (fun x => x)). rewrite map_id. vm_compute.
      repeat (constructor; [cbn; intros K; repeat (destruct K as [K|K]; [discriminate|]); exact K|]). constructor. }
  split; [intros b Hb; exact Hb|].
  split; [apply eventual_tip_b_sound; vm_compute; reflexivity|].
  split; [reflexivity|]. split; [reflexivity|]. split; [reflexivity|]. split; [reflexivity|]. split; [reflexivity|].
  split; [vm_compute; reflexivity|]. split; reflexivity.
Qed.

(* target-cursor mode with the cursor block stored OFF the hub's chain: chain 2..20, the hub gets 6..14, then the fork
   13 <- 114 <- 115 (head 115, the canonical 14 stored off the chain), then 15..20; target cursor {New 14, LIB 12}; the files hold
   2..9.  target_on_chain fails; every hypothesis of c07_seamless_target holds.  The join at 8 is answered with the cursor's
   own branch 8..14, then Undo 14, New 114, New 115; later the hub reorganises back *)
Definition off_cu : cursor := mkCursor SNew (mkR 14 14) (mkR 14 14) (mkR 12 12).
Definition off_c : jcfg := mkJ 2 5 10 2 5 (Some off_cu) 0 0 0.
Example c07_target_off_chain_nonvacuous :
  wf_b na_U = true /\ lib_ok_b LNone na_U = true /\ hub_of_universe na_U off_c off_w /\
  chain_ok na_canon /\ incl na_canon na_U /\ eventual_tip off_c off_w na_canon /\
  target_on_chain_b off_c off_w off_cu = false /\
  j_mode off_c = 2 /\ j_cursor off_c = Some off_cu /\ j_filter off_c = 0 /\ j_stop off_c = 0 /\ 0 < j_bundle off_c /\
  In (na_b 14) na_canon /\ bref (na_b 14) = cu_blk off_cu /\ cursor_lib_on na_canon off_cu (na_b 14) /\
  (exists b, In b na_canon /\ bnum b = run_start off_c off_w) /\
  cx_show (stream_run off_c off_w [(2, 11)] 10 (filter (fun b => bnum b <? 10) na_canon) [])
  = ([(SNewIrr, 5); (SNewIrr, 6); (SNewIrr, 7); (SNewIrr, 8); (SNewIrr, 9); (SNewIrr, 10); (SNewIrr, 11); (SNewIrr, 12);
      (SNew, 13); (SNew, 14); (SUndo, 14); (SNew, 114); (SNew, 115); (SUndo, 115); (SUndo, 114); (SNew, 14); (SNew, 15);
      (SNew, 16); (SNew, 17); (SNew, 18); (SNew, 19); (SNew, 20)], JNil).
Proof.
  split; [vm_compute; reflexivity|]. split; [vm_compute; reflexivity|].
  split.
  { split.
    - exists []. split; [intros b p []|reflexivity].
    - intros b Hb. vm_compute in Hb. vm_compute. tauto. }
  split.
  { split.
    - vm_compute. repeat split.
    - apply (NoDup_map_inv (fun x => x)). rewrite map_id. vm_compute.
      repeat (constructor; [cbn; intros K; repeat (destruct K as [K|K]; [discriminate|]); exact K|]). constructor. }
  split; [intros b Hb; unfold na_U; apply in_or_app; left; exact Hb|].
  split; [apply eventual_tip_b_sound; vm_compute; reflexivity|].
  split; [vm_compute; reflexivity|].
  split; [reflexivity|]. split; [reflexivity|]. split; [reflexivity|]. split; [reflexivity|]. split; [reflexivity|].
  split; [vm_compute; tauto|]. split; [reflexivity|].
  split.
  { exists (na_b 12). split; [vm_compute; tauto|]. split; [reflexivity|]. split; [vm_compute; discriminate | intros H; discriminate]. }
  split; [exists (na_b 5); split; [vm_compute; tauto | vm_compute; reflexivity]|].
  vm_compute. reflexivity.
Qed.

(* final blocks only through a target cursor: the world of c07_join_by_number_refuted (the hub becomes ready on the fork
   13 <- 114 <- 115 while the files hold 14, 15) with the final target cursor on block 12 meets every hypothesis of
   c07_seamless_target_final; the join happens at 13 with the hub on the fork, the handler sees nothing of the fork *)
Definition ft_cu : cursor := mkCursor SIrr (mkR 12 12) (mkR 12 12) (mkR 12 12).
Definition ft_c : jcfg := mkJ 2 5 10 2 5 (Some ft_cu) 0 1 0.
Example c07_target_final_nonvacuous :
  wf_b na_U = true /\ lib_ok_b LNone na_U = true /\ hub_of_universe na_U ft_c na_w /\
  chain_ok na_canon /\ incl na_canon na_U /\ eventual_tip ft_c na_w na_canon /\
  j_mode ft_c = 2 /\ j_cursor ft_c = Some ft_cu /\ j_filter ft_c = 1 /\ 0 < j_bundle ft_c /\
  In (na_b 12) na_canon /\ bref (na_b 12) = cu_blk ft_cu /\ cu_lib ft_cu = cu_blk ft_cu /\
  (exists b, In b na_canon /\ bnum b = run_start ft_c na_w) /\
  cx_show (stream_run ft_c na_w [(8, 4)] 16 (filter (fun b => bnum b <? 16) na_canon) [])
  = ([(SNewIrr, 5); (SNewIrr, 6); (SNewIrr, 7); (SNewIrr, 8); (SNewIrr, 9); (SNewIrr, 10); (SNewIrr, 11); (SNewIrr, 12);
      (SNewIrr, 13); (SIrr, 14); (SIrr, 15); (SIrr, 16); (SIrr, 17); (SIrr, 18)], JNil).
Proof.
  destruct c07_join_by_number_refuted_proof as (U & c & w & ps & me & canon & forked & _).
  split; [vm_compute; reflexivity|]. split; [vm_compute; reflexivity|].
  split.
  { split.
    - exists []. split; [intros b p []|reflexivity].
    - intros b Hb. vm_compute in Hb. vm_compute. tauto. }
  split.
  { split.
    - vm_compute. repeat split.
    - apply (NoDup_map_inv (fun x => x)). rewrite map_id. vm_compute.
      repeat (constructor; [cbn; intros K; repeat (destruct K as [K|K]; [discriminate|]); exact K|]). constructor. }
  split; [intros b Hb; unfold na_U; apply in_or_app; left; exact Hb|].
  split; [apply eventual_tip_b_sound; vm_compute; reflexivity|].
  split; [reflexivity|]. split; [reflexivity|]. split; [reflexivity|]. split; [reflexivity|].
  split; [vm_compute; tauto|]. split; [reflexivity|]. split; [reflexivity|].
  split; [exists (na_b 5); split; [vm_compute; tauto | vm_compute; reflexivity]|].
  vm_compute. reflexivity.
Qed.
