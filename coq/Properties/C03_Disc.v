(* C03 in discovery mode (no configured LIB, hold-until-LIB: the hub's configuration): property theorem only.
   Statements in Spec/C03_Disc_Spec.v, proofs in Proofs/C03_DiscProofs.v. *)
From BV Require Import Base.Prelude Model.Block Model.ForkDB Model.Forkable Model.ForkableLookups
  Spec.Consumer Spec.Universe Spec.ForkChoice Spec.C01_Spec Spec.C01_Moving_Spec Spec.C01_Roots_Spec Spec.C03_Spec
  Spec.C03_Disc_Spec Check.Fk_Check Check.Fk_Props_Check Proofs.C03_DiscProofs Proofs.C03_DiscFull Properties.C03.
Local Open Scope N_scope.

(* partial: c03_discovery_full (Spec/C03_Disc_Spec.v) is the full statement against the holding reference fcd_step.
   Proved: nothing is delivered and no head is reported before the establishing call; the establishing call puts the
   consumer on the path from the established LIB block a (the incoming block itself or a lower block received before) to the
   incoming block, which becomes the head, and announces a; from then on the run follows the reference fork choice fc_step
   rooted at a with every block fed so far as received (c03_follows, c03_noise).
   Missing HERE (all three closed by the theorem c03_discovery below): that the establishing call and its LIB block are the ones fcd_step picks (a sits at the number the incoming
   block declares / the incoming block is the first streamable block, and no earlier call qualifies); the retention and
   noise-deletion clauses across the discovery. *)
Theorem c03_discovery_partial : c03_discovery_statement.
Proof. exact c03_discovery_proved. Qed.
Print Assumptions c03_discovery_partial.

(* ---- non-vacuity: 11 <- 12 <- {23, 13 <- 14 <- 15} fed in the order 11, 12, 23, 13, 14, 15 (block 11 has number 1 and
   declares 0, 12 and the two blocks numbered 3 declare 1, 14 declares 2, 15 declares 3), two final blocks kept.
   (a) first streamable block 0: 11 is HELD (nothing delivered, no head); 12 declares the number of the held block 11:
       the LIB 11 is established (New 12, Irreversible 11), head 12; then the reference rooted at 11 with 12 and 11 received
       has the tips 23, 23, 14, 15 (13 does not move the tip, 14 switches the branch).
   (b) first streamable block 1: block 11 is the first streamable block and establishes itself (New 11, Irreversible 11). *)
Definition cd_b1 := mkBlock 11 1 10 0.
Definition cd_b2 := mkBlock 12 2 11 1.
Definition cd_b3 := mkBlock 13 3 12 1.
Definition cd_b3' := mkBlock 23 3 12 1.
Definition cd_b4 := mkBlock 14 4 13 2.
Definition cd_b5 := mkBlock 15 5 14 3.
Definition cd_h := [cd_b1; cd_b2; cd_b3'; cd_b3; cd_b4; cd_b5].
Definition cd_cfg (first : N) : config := mkCfg first false true 2 false (mkFilter true true true true) None.

Example c03_discovery_nonvacuous :
  disc_scope2_b cd_h = true /\
  map (fun x => (map (fun e => (estep e, bid (eblk e), ri (elib e))) (fst x), snd x)) (fk_run (cd_cfg 0) (fs_init LNone) cd_h) =
    [([], ROk); ([(SNew, 12, 11); (SIrr, 11, 11)], ROk); ([(SNew, 23, 11)], ROk); ([], ROk);
     ([(SUndo, 23, 11); (SNew, 13, 11); (SNew, 14, 11); (SIrr, 12, 12)], ROk); ([(SNew, 15, 12); (SIrr, 13, 13); (SStalled, 23, 13)], ROk)] /\
  map (fun o => match o_head o with Some (r, _) => ri r | None => 0 end) (fk_obs (cd_cfg 0) (fs_init LNone) cd_h) = [0; 12; 23; 23; 14; 15] /\
  (* the hand-over reference of the theorem: rooted at 11, tip 12, last final 11, received 12 and 11 *)
  c03_ex_tips (cd_cfg 0) (mkFC [cd_b2; cd_b1] (bref cd_b1) (Some cd_b2) (Some cd_b1)) [cd_b3'; cd_b3; cd_b4; cd_b5] = [23; 23; 14; 15] /\
  (* ... which is what the holding reference fcd_step does on the whole history *)
  map (fun fc => (oblock_id (fc_tip fc), ri (fc_lib fc), oblock_id (fc_final fc)))
      (tl (fold_left (fun acc b => acc ++ [fcd_step 0 false (last acc (fc_init LNone)) b]) cd_h [fc_init LNone])) =
    [(0, 0, 0); (12, 11, 11); (23, 11, 11); (23, 11, 11); (14, 12, 12); (15, 13, 13)] /\
  (* (b) *)
  map (fun x => map (fun e => (estep e, bid (eblk e))) (fst x)) (firstn 2 (fk_run (cd_cfg 1) (fs_init LNone) cd_h)) =
    [[(SNew, 11); (SIrr, 11)]; [(SNew, 12)]].
Proof. vm_compute. repeat split. Qed.

(* FULL: c03_discovery_full of Spec/C03_Disc_Spec.v - the conclusion clauses of c03_moving_lib_roots_partial in the hub's
   configuration (no configured LIB, hold-until-LIB, never-failing handler, class disc_scope2_b) against the HOLDING reference
   fcd_step: the reference and the Forkable establish the LIB at the same call and on the same block (the incoming block when
   it is the first streamable block or declares its own number, else its received ancestor at the number it declares); after
   every call consumer tip = reference tip = reported head, stack = path to the established LIB, last final = reference final;
   a call that leaves the reference's tip and LIB unchanged delivers nothing; the run is the same for every keptFinalBlocks
   value (although the establishing call purges differently); a block the reference ignores can be deleted.
   (c03_discovery_partial above is kept: it states the shape of the run in terms of the blocks fed so far.) *)
Theorem c03_discovery : c03_discovery_full.
Proof. exact c03_discovery_full_proved. Qed.
Print Assumptions c03_discovery.

(* non-vacuity of the retention and noise-deletion clauses: with no final block kept the establishing call and the LIB moves
   purge blocks that retention 5 keeps, the runs agree; block 12 fed a second time (position 4) is ignored by the holding
   reference, and so is block 11 fed again after the discovery (position 3) *)
Definition cd_cfgk (k : N) : config := mkCfg 0 false true k false (mkFilter true true true true) None.
Example c03_discovery_nonvacuous_full :
  fk_run (cd_cfgk 0) (fs_init LNone) cd_h = fk_run (cd_cfgk 5) (fs_init LNone) cd_h /\
  map (fun e => bid (eb e)) (store (db (last (fk_states (cd_cfgk 0) (fs_init LNone) cd_h) (fs_init LNone)))) <>
  map (fun e => bid (eb e)) (store (db (last (fk_states (cd_cfgk 5) (fs_init LNone) cd_h) (fs_init LNone)))) /\
  (let fc := fold_left (fcd_step 0 false) (firstn 4 cd_h) (fc_init LNone) in fcd_step 0 false fc cd_b2 = fc) /\
  (let fc := fold_left (fcd_step 0 false) (firstn 3 cd_h) (fc_init LNone) in fcd_step 0 false fc cd_b1 = fc) /\
  (let fc := fold_left (fcd_step 0 false) (firstn 1 cd_h) (fc_init LNone) in fcd_step 0 false fc cd_b1 = fc).
Proof. vm_compute. repeat split. intros H. discriminate. Qed.
