(* C11 property theorems only.  Proofs live in Proofs/. *)
From BV Require Import Base.Prelude Model.FileSeq Model.Pipeline Spec.C10_Spec Spec.C11_Spec
  Proofs.C11_Proofs.
Local Open Scope N_scope.

Theorem c11_returns : C11_returns /\ C11_quiesces /\ C11_fires.
Proof. exact (conj c11_returns_proof (conj c11_quiesces_proof c11_fires_proof)). Qed.
Print Assumptions c11_returns.

Theorem c11_error : C11_error.
Proof. exact c11_error_proof. Qed.
Print Assumptions c11_error.

Theorem c11_prefix : C11_prefix.
Proof. exact c11_prefix_proof. Qed.
Print Assumptions c11_prefix.

Theorem c11_bound : C11_bound.
Proof. exact c11_bound_proof. Qed.
Print Assumptions c11_bound.

Theorem c11_silence : C11_silence.
Proof. exact c11_silence_proof. Qed.
Print Assumptions c11_silence.

(* the code WITHOUT the two fix patches (model flags off) violates c11_returns and c11_error:
   witnesses replayed on the real code by the harness corpus (see notes_C11.md) *)
Theorem c11_returns_refuted_unfixed : C11_returns_unfixed_counterexample.
Proof. exact c11_returns_unfixed_proof. Qed.
Print Assumptions c11_returns_refuted_unfixed.

Theorem c11_error_refuted_unfixed : C11_error_unfixed_counterexample.
Proof. exact c11_error_unfixed_proof. Qed.
Print Assumptions c11_error_refuted_unfixed.

(* ---- non-vacuity: every kind of fault site, on a layout with a mid-file start, skipped
   numbers, a legacy leading block and a stop block; fair schedule; Run returns with the
   fault's class and a proper prefix of the reference sequence ---- *)
Definition nv_pre (b : blk) : N := 3 * b_id b + b_num b.
Definition nv_lay : layout :=
  mkLayout [[mkBlk 1 1 0; mkBlk 2 2 1; mkBlk 3 3 2; mkBlk 4 4 3];
            [mkBlk 4 4 3; mkBlk 5 5 4; mkBlk 7 7 5; mkBlk 9 9 7];
            [mkBlk 10 10 9]] 2 5 7.
Definition nv_run (f : fault) : option errc * bool * list N :=
  let C := mkCfg nv_lay 2 f false true true in
  let s := run nv_pre C (rounds C 40) (init C) in
  (s_err s, returned s, map (fun v => b_num (fst v)) (s_calls s)).

Example c11_nonvacuous :
  fixed (mkCfg nv_lay 2 (FOpen 1) false true true) /\
  forallb (fun f => site_reached (mkCfg nv_lay 2 f false true true))
    [FExists 1; FOpen 1; FHeader 0; FRead 1 2; FRead 0 4; FPre 1 2; FHandler 3] = true /\
  nv_run (FExists 1) = (Some EExists, true, []) /\
  nv_run (FOpen 1) = (Some EOpen, true, []) /\
  nv_run (FHeader 0) = (Some EHeader, true, []) /\
  nv_run (FRead 1 2) = (Some ERead, true, [2]) /\
  nv_run (FRead 0 4) = (Some ERead, true, [2]) /\
  nv_run (FPre 1 2) = (Some EPre, true, [2]) /\
  nv_run (FHandler 3) = (Some EHandler, true, [2; 3; 4; 5]) /\
  nv_run FNone = (Some EStop, true, [2; 3; 4; 5; 7; 9]).
Proof. vm_compute. repeat split; reflexivity. Qed.
