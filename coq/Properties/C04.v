(* C04 property theorems only.  Proofs live in Proofs/Fk/FixedLibEvents.v and Proofs/C04_Proofs.v. *)
From BV Require Import Base.Prelude Model.Block Model.ForkDB Model.Forkable Spec.Consumer Spec.Universe
  Spec.C01_Spec Spec.C04_Spec Proofs.C04_Proofs.
Local Open Scope N_scope.

(* partial: exclusive starting LIB that the history never moves, no injected handler failure
   (c04_full in Spec/C04_Spec.v is the full statement; the gap is named in driver/thm_C04.json) *)
Theorem c04_fixed_lib_partial : c04_fixed_lib_statement.
Proof. exact c04_fixed_lib_proved. Qed.
Print Assumptions c04_fixed_lib_partial.

(* the monitor and the field rules follow from the per-step shape alone, whatever produced the trace *)
Theorem c04_shape_accepted : forall check r0 h t, c04_run r0 [] [] h t ->
  c04_b check (LExcl r0) h t = true /\ c04_fields r0 h t.
Proof. intros check r0 h t H. split; [apply c04_run_accept; exact H | eapply c04_run_fields; exact H]. Qed.
Print Assumptions c04_shape_accepted.

(* non-vacuity: a history with a fork switch whose junction is a block (2), then a switch to a branch
   that hangs directly under the LIB (junction = the LIB): without the LIB block in the fork database
   the undo events carry no junction, with it (second history) they name r0 *)
Definition c04_ex_r0 : ref := mkR 1 10.
Definition c04_ex_hist : list block :=
  [ mkBlock 2 11 1 10; mkBlock 3 12 2 10; mkBlock 4 12 2 10; mkBlock 5 13 4 10;
    mkBlock 6 11 1 10; mkBlock 7 12 6 10; mkBlock 8 13 7 10; mkBlock 9 14 8 10; mkBlock 3 12 2 10 ].
Definition c04_ex_cfg (alltrig : bool) : config := mkCfg 0 false false 2 alltrig (mkFilter true true true true) None.
Definition c04_ex_view (e : event) := (estep e, bid (eblk e), ejunc e, eidx e, ecount e).

Example c04_nonvacuous :
  c01_fixed_scope_b c04_ex_r0 c04_ex_hist = true /\
  map c04_ex_view (all_events (fk_run (c04_ex_cfg false) (fs_init (LExcl c04_ex_r0)) c04_ex_hist)) =
    [(SNew, 2, None, 0, 0); (SNew, 3, None, 0, 0);
     (SUndo, 3, Some (mkR 2 11), 0, 1); (SNew, 4, None, 0, 0); (SNew, 5, None, 0, 0);
     (SUndo, 5, None, 0, 3); (SUndo, 4, None, 1, 3); (SUndo, 2, None, 2, 3);
     (SNew, 6, None, 0, 0); (SNew, 7, None, 0, 0); (SNew, 8, None, 0, 0); (SNew, 9, None, 0, 0)] /\
  c01_fixed_scope_b c04_ex_r0 (mkBlock 1 10 99 10 :: c04_ex_hist) = true /\
  map c04_ex_view (filter (fun e => step_eqb (estep e) SUndo)
       (all_events (fk_run (c04_ex_cfg false) (fs_init (LExcl c04_ex_r0)) (mkBlock 1 10 99 10 :: c04_ex_hist)))) =
    [(SUndo, 3, Some (mkR 2 11), 0, 1);
     (SUndo, 5, Some (mkR 1 10), 0, 3); (SUndo, 4, Some (mkR 1 10), 1, 3); (SUndo, 2, Some (mkR 1 10), 2, 3)] /\
  existsb (fun e => step_eqb (estep e) SUndo) (all_events (fk_run (c04_ex_cfg true) (fs_init (LExcl c04_ex_r0)) c04_ex_hist)) = true.
Proof. vm_compute. repeat split. Qed.
