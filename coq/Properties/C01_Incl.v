(* C01, fixed-LIB class with an inclusive (or exclusive) starting LIB and every handler oracle: property theorem only.
   Proofs: Proofs/Fk/FixedLibIncl.v, Proofs/Fk/LoopFactsFail.v, Proofs/C01_FailProofs.v, Proofs/C01_InclProofs.v. *)
From BV Require Import Base.Prelude Model.Block Model.ForkDB Model.Forkable Spec.Consumer Spec.Universe
  Spec.C01_Spec Spec.C01_More_Spec Proofs.C01_InclProofs.
Local Open Scope N_scope.

(* partial (c01_full is the full statement): starting LIB r0, inclusive or exclusive, that the history never
   moves; includeInitialLIB on or off; arbitrary handler oracle; everything else universally quantified *)
Theorem c01_fixed_lib_incl_partial : c01_fixed_lib_incl_statement.
Proof. exact c01_fixed_lib_incl_proved. Qed.
Print Assumptions c01_fixed_lib_incl_partial.

(* non-vacuity, inclusive LIB (1,10).
   exi_h1: the LIB block arrives before anything is sent (after a block below the LIB): it is delivered as
   New + Irreversible by the initial inclusive path and stays at the bottom of the consumer's stack
   through two fork switches; it is fed again later and delivers nothing.
   exi_h2: a child of the LIB is sent first: the LIB block, fed twice afterwards, is never delivered.
   With the handler failing at call 1 (the Irreversible call of the initial path) the run stops there. *)
Definition exi_r0 : ref := mkR 1 10.
Definition exi_lb : block := mkBlock 1 10 20 10.
Definition exi_h1 : list block :=
  [ mkBlock 7 5 13 10; exi_lb; mkBlock 2 11 1 10; mkBlock 3 12 2 10; mkBlock 4 12 2 10; mkBlock 5 14 4 10;
    exi_lb; mkBlock 9 15 8 10; mkBlock 6 13 3 10; mkBlock 11 15 6 10 ].
Definition exi_h2 : list block :=
  [ mkBlock 3 12 2 10; mkBlock 2 11 1 10; exi_lb; mkBlock 4 12 2 10; mkBlock 5 14 4 10; mkBlock 20 9 21 10;
    exi_lb; mkBlock 6 13 3 10; mkBlock 11 15 6 10 ].
Definition exi_cfg (k : option N) : config := mkCfg 0 true false 2 false (mkFilter true true true true) k.
Definition exi_show (t : trace) := map (fun x => (map (fun e => (estep e, bid (eblk e))) (fst x), snd x)) t.

Example c01_incl_nonvacuous :
  start_mode (LIncl exi_r0) exi_r0 /\
  c01_fixed_scope_b exi_r0 exi_h1 = true /\ c01_fixed_scope_b exi_r0 exi_h2 = true /\
  exi_show (fk_run (exi_cfg None) (fs_init (LIncl exi_r0)) exi_h1) =
    [([], ROk); ([(SNew, 1); (SIrr, 1)], ROk); ([(SNew, 2)], ROk); ([(SNew, 3)], ROk); ([], ROk);
     ([(SUndo, 3); (SNew, 4); (SNew, 5)], ROk); ([], ROk); ([], ROk); ([], ROk);
     ([(SUndo, 5); (SUndo, 4); (SNew, 3); (SNew, 6); (SNew, 11)], ROk)] /\
  exi_show (fk_run (exi_cfg None) (fs_init (LIncl exi_r0)) exi_h2) =
    [([], ROk); ([(SNew, 2)], ROk); ([], ROk); ([(SNew, 4)], ROk); ([(SNew, 5)], ROk); ([], ROk); ([], ROk); ([], ROk);
     ([(SUndo, 5); (SUndo, 4); (SNew, 3); (SNew, 6); (SNew, 11)], ROk)] /\
  exi_show (fk_run (exi_cfg (Some 1)) (fs_init (LIncl exi_r0)) exi_h1) =
    [([], ROk); ([(SNew, 1); (SIrr, 1)], RHandlerErr)].
Proof. vm_compute. repeat split; auto. Qed.
