(* C02 property theorems only.  Proofs live in Proofs/Fk/FixedLibEvents.v, Proofs/C04_Proofs.v, Proofs/C02_Proofs.v. *)
From BV Require Import Base.Prelude Model.Block Model.ForkDB Model.Forkable Spec.Consumer Spec.Universe
  Spec.C01_Spec Spec.C02_Fixed_Spec Proofs.C02_Fixed_Proofs.
Local Open Scope N_scope.

(* the degenerate fixed-LIB case only: no Irreversible/Stalled/New+Irreversible event is ever delivered
   (c02_full in Spec/C02_Spec.v is the full statement; the gap is named in driver/thm_C02.json) *)
Theorem c02_fixed_lib_no_finality : c02_fixed_lib_statement.
Proof. exact c02_fixed_lib_proved. Qed.
Print Assumptions c02_fixed_lib_no_finality.

(* non-vacuity: a fixed-LIB history with a fork switch, full filter (Irreversible and Stalled wanted):
   in scope, events are delivered, none is a finality event *)
Definition c02_ex_r0 : ref := mkR 1 10.
Definition c02_ex_hist : list block :=
  [ mkBlock 2 11 1 10; mkBlock 3 12 2 10; mkBlock 4 12 2 10; mkBlock 5 13 4 10; mkBlock 6 14 5 10 ].
Definition c02_ex_cfg : config := mkCfg 0 false false 0 false (mkFilter true true true true) None.

Example c02_nonvacuous :
  c01_fixed_scope_b c02_ex_r0 c02_ex_hist = true /\
  map (fun e => (estep e, bid (eblk e))) (all_events (fk_run c02_ex_cfg (fs_init (LExcl c02_ex_r0)) c02_ex_hist)) =
    [(SNew, 2); (SNew, 3); (SUndo, 3); (SNew, 4); (SNew, 5); (SNew, 6)].
Proof. vm_compute. repeat split. Qed.
