(* C10 property theorems only.  Proofs live in Proofs/. *)
From BV Require Import Base.Prelude Model.FileSeq Model.Pipeline Spec.C10_Spec
  Proofs.FileSeqFacts Proofs.C10_Proofs.
Local Open Scope N_scope.

Theorem c10_order : C10_order.
Proof. exact c10_order_proof. Qed.
Print Assumptions c10_order.

Theorem c10_continuity : C10_continuity.
Proof. exact c10_continuity_proof. Qed.
Print Assumptions c10_continuity.

Theorem c10_seq : C10_seq.
Proof. exact c10_seq_proof. Qed.
Print Assumptions c10_seq.

(* ---- non-vacuity ---- *)
Definition nv_pre (b : blk) : N := 3 * b_id b + b_num b.

(* bundles of size 5; start 2 is mid-file; numbers 6 and 8 are skipped; the second bundle starts
   with a legacy leading block (4, below its base 5); stop block 7 lies in the second bundle *)
Definition nv_lay : layout :=
  mkLayout [[mkBlk 1 1 0; mkBlk 2 2 1; mkBlk 3 3 2; mkBlk 4 4 3];
            [mkBlk 4 4 3; mkBlk 5 5 4; mkBlk 7 7 5; mkBlk 9 9 7];
            [mkBlk 10 10 9]] 2 5 7.
Definition nv_cfg (T : nat) (ext : bool) : cfg := mkCfg nv_lay T FNone ext true true.

(* a fair schedule drives the fixed model (2 threads, and the unbuffered case 0 threads) to a
   state in which Run has returned with the stop error after exactly the reference sequence *)
Example c10_nonvacuous_run :
  let s := run nv_pre (nv_cfg 2 false) (rounds (nv_cfg 2 false) 40) (init (nv_cfg 2 false)) in
  let s0 := run nv_pre (nv_cfg 0 false) (rounds (nv_cfg 0 false) 60) (init (nv_cfg 0 false)) in
  fixed (nv_cfg 2 false) /\
  map b_num (expected_blocks nv_lay) = [2; 3; 4; 5; 7; 9] /\ expected_outcome nv_lay = OStop /\
  returned s = true /\ s_err s = Some EStop /\ s_calls s = pairs nv_pre (expected_blocks nv_lay) /\
  returned s0 = true /\ s_err s0 = Some EStop /\ s_calls s0 = pairs nv_pre (expected_blocks nv_lay).
Proof. vm_compute. repeat split; reflexivity. Qed.

(* with an outside Shutdown in the middle of the run the deliveries are a proper prefix *)
Definition nv_noX := filter (fun tc : tid * bool => match fst tc with TX => false | _ => true end).
Example c10_nonvacuous_shutdown :
  let C := nv_cfg 2 true in
  let s := run nv_pre C (nv_noX (rounds C 8) ++ rounds C 40) (init C) in
  returned s = true /\ s_err s = Some ENil /\ map (fun v => b_num (fst v)) (s_calls s) = [2; 3; 4; 5].
Proof. vm_compute. repeat split; reflexivity. Qed.

(* the hypotheses of c10_continuity are satisfiable: block 6 names 40 as parent, not 5 *)
Definition nv_break : layout :=
  mkLayout [[mkBlk 1 1 0; mkBlk 2 2 1]; [mkBlk 5 5 2; mkBlk 6 6 40; mkBlk 7 7 6]] 1 5 0.
Example c10_nonvacuous_break :
  let d := [mkBlk 1 1 0; mkBlk 2 2 1; mkBlk 5 5 2] in
  let C := mkCfg nv_break 3 FNone false true true in
  let s := run nv_pre C (rounds C 40) (init C) in
  candidates nv_break = d ++ mkBlk 6 6 40 :: [mkBlk 7 7 6] /\ linked_from 0 d /\ d <> [] /\
  b_id (last d blk0) <> 0 /\ b_par (mkBlk 6 6 40) <> b_id (last d blk0) /\
  returned s = true /\ s_err s = Some ENonSeq /\ s_calls s = pairs nv_pre d.
Proof. vm_compute. repeat split; auto; discriminate. Qed.
