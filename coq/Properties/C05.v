(* C05 property theorems only.  Proofs live in Proofs/C05_*.v, statements in Spec/C05_Spec.v.
   `C05_resume_full` (the clause over histories) is stated in the Spec and NOT proved; the theorems
   named _partial are its single-state part. *)
From Coq Require Import Sorted.
From BV Require Import Base.Prelude Model.Block Model.ForkDB Model.Forkable Model.ForkableLookups Model.Burst Model.Hub
  Spec.Consumer Spec.Universe Check.Fk_Check Check.Burst_Check
  Spec.C09_Spec Spec.C05_Spec Proofs.C09_Store Proofs.C09_Segment Proofs.C05_Fast Proofs.C05_Forked Properties.C09.
Local Open Scope N_scope.

Theorem c05_fast_path_shape : C05_fast_path_shape.
Proof. exact c05_fast_path_shape_proof. Qed.
Print Assumptions c05_fast_path_shape.

Theorem c05_fast_path_consumer_partial : C05_fast_path_consumer.
Proof. exact c05_fast_path_consumer_proof. Qed.
Print Assumptions c05_fast_path_consumer_partial.

Theorem c05_forked_path : C05_forked_path.
Proof. exact c05_forked_path_proof. Qed.
Print Assumptions c05_forked_path.

Theorem c05_resume_partial : C05_resume_partial.
Proof. exact c05_resume_partial_proof. Qed.
Print Assumptions c05_resume_partial.

Theorem c05_serves : C05_serves.
Proof. exact c05_serves_proof. Qed.
Print Assumptions c05_serves.

Theorem c05_serves_no_orphans : C05_serves_no_orphans.
Proof. exact c05_serves_no_orphans_proof. Qed.
Print Assumptions c05_serves_no_orphans.

Theorem c05_no_lib_no_source : C05_no_lib_no_source.
Proof. exact c05_no_lib_no_source_proof. Qed.
Print Assumptions c05_no_lib_no_source.

Theorem c05_foreign_lib_err : C05_foreign_lib_err.
Proof. exact c05_foreign_lib_err_proof. Qed.
Print Assumptions c05_foreign_lib_err.

(* ---- non-vacuity, on the hub state of Properties/C09.v: store 11<-12<-13<-14<-15 with the fork
   23 (parent 12), head 15, hub LIB 13 (number 3); the head's segment is 11..15. *)
Definition ex_s := h_f ex_h2.
Definition ex_sg : list seg :=
  match complete_segment (db ex_s) (bref ex_b5) with Some (sg, _) => sg | None => [] end.

(* the hypotheses on the state and the segment are met (good_seg / seg_stored follow from wf_state
   by c09_head_segment) *)
Example c05_nonvacuous_segment :
  good_seg ex_sg /\ seg_stored (db ex_s) ex_sg /\ wf_state ex_s /\ map sid ex_sg = [11; 12; 13; 14; 15].
Proof.
  assert (W : wf_state ex_s) by (apply wf_state_b_sound; vm_compute; reflexivity).
  assert (E : complete_segment (db ex_s) (bref ex_b5) = Some (ex_sg, true)) by (vm_compute; reflexivity).
  destruct (c09_head_segment ex_s ex_b5 ex_sg true W eq_refl E) as [H1 [H2 [H3 [H4 [H5 _]]]]].
  split; [constructor; assumption|]. split; [exact H5|]. split; [exact W|]. vm_compute. reflexivity.
Qed.

(* fast path: a New cursor on 13 with LIB 12, and an Undo cursor on 13 (the fix: 13, now final, comes
   back as new+irreversible); the consumers of c05_fast_path_consumer_partial with P = [12] *)
Definition ex_c_new := mkCursor SNew (mkR 13 3) (mkR 14 4) (mkR 12 2).
Definition ex_c_undo := mkCursor SUndo (mkR 13 3) (mkR 14 4) (mkR 12 2).
Example c05_nonvacuous_fast :
  block_in (ri (cu_blk ex_c_new)) ex_sg = true /\ block_in (ri (cu_lib ex_c_new)) ex_sg = true /\
  map (fun e => (estep e, bid (eblk e))) (from_cursor_fast ex_s ex_b5 ex_sg ex_c_new) = [(SIrr, 13); (SNew, 14); (SNew, 15)] /\
  map (fun e => (estep e, bid (eblk e))) (from_cursor_fast ex_s ex_b5 ex_sg ex_c_undo) = [(SNewIrr, 13); (SNew, 14); (SNew, 15)] /\
  map sid (held_seg ex_c_new ex_sg) = [13] /\ held_seg ex_c_undo ex_sg = [] /\
  stack_links [ex_b2] (above_seg ex_c_undo ex_sg) /\
  (match cons_fold (mkCons (rev ([ex_b2] ++ map seg_blk (held_seg ex_c_undo ex_sg))) 1 true)
                   (from_cursor_fast ex_s ex_b5 ex_sg ex_c_undo) with
   | Some k => map bid (cs_stack k) = [15; 14; 13; 12] /\ cs_nf k = 2%nat | None => False end).
Proof. vm_compute. repeat split. Qed.

(* forked path: a cursor on the fork block 23; the branch is [23], the junction 12 *)
Definition ex_c_fork := mkCursor SNew (mkR 23 3) (mkR 23 3) (mkR 12 2).
Example c05_nonvacuous_forked :
  block_in (ri (cu_lib ex_c_fork)) ex_sg = true /\ block_in (ri (cu_blk ex_c_fork)) ex_sg = false /\
  branch_to (db ex_s) ex_sg 23 [mkSeg 23 3 (mkEntry ex_b3' false)] 12 /\
  ~ branch_broken (db ex_s) ex_sg (ri (cu_blk ex_c_fork)) /\
  (exists x, In x ex_sg /\ sid x = ri (cu_lib ex_c_fork) /\ snum x = rn (cu_lib ex_c_fork)) /\
  match blocks_from_cursor ex_s ex_c_fork with
  | BOk evs => map (fun e => (estep e, bid (eblk e), ejunc e)) evs =
               [(SUndo, 23, Some (mkR 12 2)); (SNewIrr, 13, None); (SNew, 14, None); (SNew, 15, None)]
  | _ => False end.
Proof.
  assert (B : branch_to (db ex_s) ex_sg 23 [mkSeg 23 3 (mkEntry ex_b3' false)] 12).
  { apply (bt_last (db ex_s) ex_sg 23 (mkEntry ex_b3' false)); vm_compute; reflexivity. }
  split; [vm_compute; reflexivity|]. split; [vm_compute; reflexivity|]. split; [exact B|].
  split; [intros K; exact (branch_exclusive _ _ _ _ _ B K)|].
  split; [exists (mkSeg 12 2 (mkEntry ex_b2 true)); vm_compute; auto|].
  vm_compute. reflexivity.
Qed.

(* no source: a cursor LIB that is not on the chain, a cursor block that is not retained *)
Example c05_nonvacuous_no_source :
  block_in 99 ex_sg = false /\
  blocks_from_cursor ex_s (mkCursor SNew (mkR 23 3) (mkR 23 3) (mkR 99 2)) = BErr /\
  branch_broken (db ex_s) ex_sg 77 /\
  blocks_from_cursor ex_s (mkCursor SNew (mkR 77 3) (mkR 23 3) (mkR 12 2)) = BErr.
Proof.
  split; [vm_compute; reflexivity|]. split; [vm_compute; reflexivity|].
  split; [apply bb_here; vm_compute; reflexivity|vm_compute; reflexivity].
Qed.
