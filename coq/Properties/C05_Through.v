(* C05, second part: property theorems only (through-cursor bursts, hub.SourceThroughCursor, final-only
   cursors).  Statements in Spec/C05_Through_Spec.v, proofs in Proofs/C05_Through.v,
   Proofs/C05_ThroughConsumer.v, Proofs/C05_Final.v. *)
From Coq Require Import Sorted.
From BV Require Import Base.Prelude Model.Block Model.ForkDB Model.Forkable Model.ForkableLookups Model.Burst Model.Hub
  Spec.Consumer Spec.Universe Check.Fk_Check Check.Burst_Check
  Spec.C09_Spec Spec.C05_Spec Spec.C05_Through_Spec
  Proofs.C09_Store Proofs.C09_Segment Proofs.C05_Fast Proofs.C05_Forked
  Proofs.C05_Through Proofs.C05_ThroughConsumer Proofs.C05_Final Proofs.C05_Total Properties.C09 Properties.C05.
Local Open Scope N_scope.

Theorem c05_through_on_chain : C05_through_on_chain.
Proof. exact c05_through_on_chain_proof. Qed.
Print Assumptions c05_through_on_chain.

Theorem c05_through_is_snapshot : C05_through_is_snapshot.
Proof. exact c05_through_is_snapshot_proof. Qed.
Print Assumptions c05_through_is_snapshot.

Theorem c05_through_forked : C05_through_forked.
Proof. exact c05_through_forked_proof. Qed.
Print Assumptions c05_through_forked.

Theorem c05_through_forked_burst : C05_through_forked_burst.
Proof. exact c05_through_forked_burst_proof. Qed.
Print Assumptions c05_through_forked_burst.

Theorem c05_through_forked_consumer : C05_through_forked_consumer.
Proof. exact c05_through_forked_consumer_proof. Qed.
Print Assumptions c05_through_forked_consumer.

Theorem c05_hub_through : C05_hub_through.
Proof. exact c05_hub_through_proof. Qed.
Print Assumptions c05_hub_through.

Theorem c05_final_only : C05_final_only.
Proof. exact c05_final_only_proof. Qed.
Print Assumptions c05_final_only.

Theorem c05_through_no_source : C05_through_no_source.
Proof. exact c05_through_no_source_proof. Qed.
Print Assumptions c05_through_no_source.

Theorem c05_total : C05_total.
Proof. exact c05_total_proof. Qed.
Print Assumptions c05_total.

(* ---- non-vacuity.  Two states of the hub of Properties/C09.v (store 11<-12<-13<-14(<-15) with the
   fork 23 on 12):
   ex_s  = after block 15: head 15, hub LIB 13 (number 3), chain 11..15 (Properties/C05.v);
   ex_s1 = after block 14: head 14, hub LIB 12 (number 2), chain 11..14; the fork 23 is still above the LIB. *)
Definition show (b : burst) : option (list (step * N * N * option ref)) :=
  match b with BOk evs => Some (map (fun e => (estep e, bid (eblk e), rn (elib e), ejunc e)) evs) | _ => None end.

Definition ex_s1 := h_f ex_h1.
Definition ex_sg1 : list seg :=
  match complete_segment (db ex_s1) (bref ex_b4) with Some (sg, _) => sg | None => [] end.
Definition ex_csg1 : list seg :=
  match complete_segment (db ex_s1) (mkR 23 3) with Some (sg, _) => sg | None => [] end.

Example c05t_nonvacuous_states :
  wf_state ex_s /\ head_chain ex_s ex_b5 ex_sg /\ map sid ex_sg = [11; 12; 13; 14; 15] /\ libref (db ex_s) = mkR 13 3 /\
  wf_state ex_s1 /\ head_chain ex_s1 ex_b4 ex_sg1 /\ map sid ex_sg1 = [11; 12; 13; 14] /\ libref (db ex_s1) = mkR 12 2.
Proof.
  split; [apply wf_state_b_sound; vm_compute; reflexivity|].
  split; [repeat split; vm_compute; reflexivity|]. split; [vm_compute; reflexivity|]. split; [vm_compute; reflexivity|].
  split; [apply wf_state_b_sound; vm_compute; reflexivity|].
  split; [repeat split; vm_compute; reflexivity|]. split; vm_compute; reflexivity.
Qed.

(* 1. cursor block on the chain: a New cursor on 13, from start 2 *)
Example c05t_nonvacuous_on_chain :
  block_in (ri (cu_blk ex_c_new)) ex_sg = true /\ starts_within ex_sg 2 /\
  show (blocks_through_cursor ex_s 2 ex_c_new) =
    Some [(SNewIrr, 12, 2, None); (SNewIrr, 13, 3, None); (SNew, 14, 3, None); (SNew, 15, 3, None)] /\
  (* c05_through_is_snapshot: the snapshot from 2 is served *)
  show (blocks_from_num ex_s 2) = show (blocks_through_cursor ex_s 2 ex_c_new).
Proof. vm_compute. repeat split; try reflexivity. discriminate. Qed.

(* 2. cursor block off the chain: New / Undo cursors on the fork block 23 with LIB 12, in ex_s1 *)
Definition ex_cf := mkCursor SNew (mkR 23 3) (mkR 23 3) (mkR 12 2).
Definition ex_cfu := mkCursor SUndo (mkR 23 3) (mkR 23 3) (mkR 12 2).
Definition ex_cf1 := mkCursor SNew (mkR 23 3) (mkR 23 3) (mkR 11 1).     (* cursor LIB 11 *)

Example ex_numbered : forall st h l, cursor_numbered (db ex_s1) (mkCursor st (mkR 23 3) h l).
Proof. intros st h l e H. vm_compute in H. injection H as <-. reflexivity. Qed.

Example c05t_nonvacuous_forked :
  starts_within ex_sg1 2 /\ block_in (ri (cu_blk ex_cf)) ex_sg1 = false /\
  cursor_numbered (db ex_s1) ex_cf /\ cursor_numbered (db ex_s1) ex_cfu /\
  complete_segment (db ex_s1) (cu_blk ex_cf) = Some (ex_csg1, true) /\ map sid ex_csg1 = [11; 12; 23] /\
  starts_within ex_csg1 2 /\ 2 <= rn (cu_blk ex_cf) /\
  (exists x, In x ex_sg1 /\ sid x = ri (cu_lib ex_cf) /\ snum x = rn (cu_lib ex_cf)) /\
  branch_to (db ex_s1) ex_sg1 23 [mkSeg 23 3 (mkEntry ex_b3' false)] 12 /\
  find 12 (store (db ex_s1)) = Some (mkEntry ex_b2 true) /\
  rn (cu_lib ex_cf) <= bnum ex_b2 /\ 2 <= bnum ex_b2 + 1 /\
  (* the bursts: own branch, undo to the junction 12, chain to the head *)
  show (blocks_through_cursor ex_s1 2 ex_cf) =
    Some [(SNewIrr, 12, 2, None); (SNew, 23, 2, None); (SUndo, 23, 2, Some (mkR 12 2)); (SNew, 13, 2, None); (SNew, 14, 2, None)] /\
  show (blocks_through_cursor ex_s1 2 ex_cfu) =
    Some [(SNewIrr, 12, 2, None); (SNew, 13, 2, None); (SNew, 14, 2, None)] /\
  (* the consumer that holds nothing ends on 12, 13, 14 *)
  (match blocks_through_cursor ex_s1 2 ex_cf with
   | BOk evs => match cons_fold cons0 (tolerate 2 evs) with
                | Some k => map bid (cs_stack k) = [14; 13; 12] /\ cs_nf k = 1%nat /\ tolerate 2 evs = evs
                | None => False end
   | _ => False end).
Proof.
  assert (B : branch_to (db ex_s1) ex_sg1 23 [mkSeg 23 3 (mkEntry ex_b3' false)] 12).
  { apply (bt_last (db ex_s1) ex_sg1 23 (mkEntry ex_b3' false)); vm_compute; reflexivity. }
  split; [vm_compute; discriminate|]. split; [vm_compute; reflexivity|].
  split; [apply ex_numbered|]. split; [apply ex_numbered|].
  split; [vm_compute; reflexivity|]. split; [vm_compute; reflexivity|].
  split; [vm_compute; discriminate|]. split; [vm_compute; discriminate|].
  split; [exists (mkSeg 12 2 (mkEntry ex_b2 true)); vm_compute; auto|].
  split; [exact B|]. split; [vm_compute; reflexivity|].
  split; [vm_compute; discriminate|]. split; [vm_compute; discriminate|].
  split; [vm_compute; reflexivity|]. split; [vm_compute; reflexivity|].
  vm_compute. repeat split.
Qed.

(* start 3 (the block after the junction) with a cursor LIB 11: the Irreversible announcement of 12,
   which this consumer never received, is set aside by `tolerate` *)
Example c05t_nonvacuous_tolerate :
  starts_within ex_sg1 3 /\ starts_within ex_csg1 3 /\ rn (cu_lib ex_cf1) <= bnum ex_b2 /\ 3 <= bnum ex_b2 + 1 /\
  (exists x, In x ex_sg1 /\ sid x = ri (cu_lib ex_cf1) /\ snum x = rn (cu_lib ex_cf1)) /\
  show (blocks_through_cursor ex_s1 3 ex_cf1) =
    Some [(SNew, 23, 1, None); (SUndo, 23, 1, Some (mkR 12 2)); (SIrr, 12, 2, None); (SNew, 13, 2, None); (SNew, 14, 2, None)] /\
  (match blocks_through_cursor ex_s1 3 ex_cf1 with
   | BOk evs => match cons_fold cons0 (tolerate 3 evs) with
                | Some k => map bid (cs_stack k) = [14; 13] /\ cs_nf k = 0%nat /\ length (tolerate 3 evs) = 4%nat
                | None => False end
   | _ => False end).
Proof.
  split; [vm_compute; discriminate|]. split; [vm_compute; discriminate|].
  split; [vm_compute; discriminate|]. split; [vm_compute; discriminate|].
  split; [exists (nth 0 ex_sg1 (mkSeg 0 0 (mkEntry ex_b1 false))); vm_compute; auto|].
  split; [vm_compute; reflexivity|]. vm_compute. repeat split.
Qed.

(* no source: start above the cursor block; and, in ex_s (hub LIB 13), the branch of 23 no longer
   reaches the LIB *)
Example c05t_nonvacuous_no_source :
  rn (cu_blk ex_cf) < 4 /\ blocks_through_cursor ex_s1 4 ex_cf = BErr /\
  (match complete_segment (db ex_s) (cu_blk ex_cf) with Some (csg, reach) => map sid csg = [11; 12; 23] /\ reach = false | None => False end) /\
  block_in (ri (cu_blk ex_cf)) ex_sg = false /\ cursor_numbered (db ex_s) ex_cf /\
  blocks_through_cursor ex_s 2 ex_cf = BErr /\
  (* ... while blocksFromCursor still serves that cursor (Properties/C05.c05_nonvacuous_forked) *)
  (exists evs, blocks_from_cursor ex_s ex_cf = BOk evs).
Proof.
  split; [vm_compute; reflexivity|]. split; [vm_compute; reflexivity|]. split; [vm_compute; auto|].
  split; [vm_compute; reflexivity|]. split; [intros e H; vm_compute in H; injection H as <-; reflexivity|].
  split; [vm_compute; reflexivity|]. eexists. vm_compute. reflexivity.
Qed.

(* no source: a cursor block that is not retained (its segment is empty) *)
Example c05t_nonvacuous_not_retained :
  let c := mkCursor SNew (mkR 77 3) (mkR 77 3) (mkR 12 2) in
  block_in (ri (cu_blk c)) ex_sg1 = false /\ cursor_numbered (db ex_s1) c /\
  complete_segment (db ex_s1) (cu_blk c) = Some ([], false) /\ blocks_through_cursor ex_s1 2 c = BErr.
Proof.
  cbn zeta. split; [vm_compute; reflexivity|]. split; [intros e H; vm_compute in H; discriminate|].
  split; vm_compute; reflexivity.
Qed.

(* no source: start below the first block of the cursor's branch.  A hand-made well-formed state: chain
   11<-12<-13<-14 resting on the LIB id 10, and a block 31 (number 5) whose parent is 10 too: its
   segment is [31], reaches the LIB, and starts above start = 2 *)
Definition ex_b31 := mkBlock 31 5 10 0.
Definition ex_s2 : fstate :=
  mkFS (mkDB [mkEntry ex_b1 true; mkEntry ex_b2 true; mkEntry ex_b3 true; mkEntry ex_b4 true; mkEntry ex_b31 false]
             None (mkR 10 0)) (Some ex_b4) ref_empty 0.
Example c05t_nonvacuous_below_branch :
  let c := mkCursor SNew (mkR 31 5) (mkR 31 5) (mkR 10 0) in
  wf_state ex_s2 /\
  (exists sg, head_chain ex_s2 ex_b4 sg /\ starts_within sg 2 /\ block_in (ri (cu_blk c)) sg = false) /\
  cursor_numbered (db ex_s2) c /\
  (exists c0, complete_segment (db ex_s2) (cu_blk c) = Some ([c0], true) /\ 2 < bnum (seg_blk c0)) /\
  blocks_through_cursor ex_s2 2 c = BErr.
Proof.
  cbn zeta. split; [apply wf_state_b_sound; vm_compute; reflexivity|].
  split.
  { eexists. split; [repeat split; vm_compute; reflexivity|]. split; [vm_compute; discriminate|vm_compute; reflexivity]. }
  split; [intros e H; vm_compute in H; injection H as <-; reflexivity|].
  split; [eexists; split; [vm_compute; reflexivity|vm_compute; reflexivity]|].
  vm_compute. reflexivity.
Qed.

(* no source: start below the retained chain; no LIB (the initial state) *)
Example c05t_nonvacuous_below_chain :
  (match ex_sg1 with s0 :: _ => 0 < snum s0 | [] => False end) /\ blocks_through_cursor ex_s1 0 ex_cf = BErr /\
  has_lib (db (fs_init LNone)) = false /\ blocks_through_cursor (fs_init LNone) 2 ex_cf = BErr /\
  last_sent ex_s1 <> None.
Proof. vm_compute. repeat split; try reflexivity; discriminate. Qed.

(* 3. hub.SourceThroughCursor: cursor block 13 (number 3) below start 4 = the snapshot from 4;
   start 2 = blocksThroughCursor *)
Example c05t_nonvacuous_hub :
  rn (cu_blk ex_c_new) < 4 /\
  show (hub_through_cursor ex_s 4 ex_c_new) = Some [(SNew, 14, 3, None); (SNew, 15, 3, None)] /\
  2 <= rn (cu_blk ex_c_new) /\
  show (hub_through_cursor ex_s 2 ex_c_new) = show (blocks_through_cursor ex_s 2 ex_c_new).
Proof. vm_compute. repeat split; try reflexivity; discriminate. Qed.

(* 4. final-only cursors in ex_s (hub LIB 13): the cursor of the Irreversible event of 12 (LIB = the
   block itself), and a New+Irreversible cursor on 12 with LIB 11 *)
Definition ex_c_irr := mkCursor SIrr (mkR 12 2) (mkR 14 4) (mkR 12 2).
Definition ex_c_newirr := mkCursor SNewIrr (mkR 12 2) (mkR 14 4) (mkR 11 1).
Definition ex_lo := firstn 1 ex_sg.
Definition ex_xc := nth 1 ex_sg (mkSeg 0 0 (mkEntry ex_b1 false)).
Definition ex_hi := skipn 2 ex_sg.

Example c05t_nonvacuous_final :
  matches_undo (cu_step ex_c_irr) = false /\ matches_undo (cu_step ex_c_newirr) = false /\
  ex_sg = ex_lo ++ ex_xc :: ex_hi /\ sid ex_xc = 12 /\ snum ex_xc = 2 /\
  (exists x, In x ex_sg /\ sid x = ri (cu_lib ex_c_irr) /\ snum x = rn (cu_lib ex_c_irr)) /\
  (exists x, In x ex_sg /\ sid x = ri (cu_lib ex_c_newirr) /\ snum x = rn (cu_lib ex_c_newirr)) /\
  rn (cu_lib ex_c_irr) = rn (cu_blk ex_c_irr) /\ rn (cu_blk ex_c_irr) <= rn (libref (db ex_s)) /\
  show (blocks_from_cursor ex_s ex_c_irr) = Some [(SNewIrr, 13, 3, None); (SNew, 14, 3, None); (SNew, 15, 3, None)] /\
  show (blocks_from_cursor ex_s ex_c_newirr) =
    Some [(SIrr, 12, 2, None); (SNewIrr, 13, 3, None); (SNew, 14, 3, None); (SNew, 15, 3, None)] /\
  map sid (filter (final_now ex_s) ex_hi) = [13].
Proof.
  split; [reflexivity|]. split; [reflexivity|]. split; [vm_compute; reflexivity|].
  split; [vm_compute; reflexivity|]. split; [vm_compute; reflexivity|].
  split; [exists ex_xc; vm_compute; auto|].
  split; [exists (nth 0 ex_sg (mkSeg 0 0 (mkEntry ex_b1 false))); vm_compute; auto|].
  split; [reflexivity|]. split; [vm_compute; discriminate|].
  split; [vm_compute; reflexivity|]. split; vm_compute; reflexivity.
Qed.
