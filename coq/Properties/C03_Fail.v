(* C03 with a failing handler: property theorem only.  Statement in Spec/C03_Fail_Spec.v, proof in
   Proofs/C03_FailProofs.v (fk_run_oracle + c03_moving_lib_roots_partial). *)
From BV Require Import Base.Prelude Model.Block Model.ForkDB Model.Forkable Model.ForkableLookups
  Spec.Consumer Spec.Universe Spec.ForkChoice Spec.C01_Spec Spec.C01_More_Spec Spec.C01_Moving_Spec Spec.C01_Roots_Spec
  Spec.C03_Spec Spec.C03_Moving_Spec Spec.C03_Fail_Spec
  Check.Fk_Check Check.Fk_Props_Check Proofs.C03_FailProofs Properties.C03 Properties.C03_Moving.
Local Open Scope N_scope.

(* the class of c03_moving_lib_roots_partial (configured starting LIB, exclusive or inclusive, coherent with the history;
   moving LIBs; roots allowed) with ANY handler oracle: the conclusion clauses of c03_moving_lib_roots_partial for the
   calls before the failing one.  Not named _partial relative to its own statement; relative to c03_full (Spec/C03_Spec.v)
   the scope restriction is the one of c03_moving_lib_roots_partial (coherent configured LIB, lib_ok_b). *)
Theorem c03_moving_lib_failures : c03_moving_lib_failures_statement.
Proof. exact c03_moving_lib_failures_proved. Qed.
Print Assumptions c03_moving_lib_failures.

(* non-vacuity: the history of Properties/C03_Moving.v (LIB moves to 2, 4, 8; branch switch; re-fed block; block under the
   LIB; block before its parent) with the handler failing at call 7 (Irreversible and Stalled steps delivered):
   the never-failing run has 13 entries; the failing call (handler calls are numbered from 0) is the second of the 5th
   entry (block 6: New 6, Irreversible 4, Stalled 3): that entry is cut after Irreversible 4, the run stops there with a handler error after 4 normal entries, which are the first 4 entries of the never-failing run;
   the reference tips after those calls are 2, 3, 3, 5 *)
Definition c03f_cfg (fail : option N) : config :=
  mkCfg 0 false false 1 false (mkFilter true true true true) fail.

Example c03_failures_nonvacuous :
  moving_scope2_b c03m_ex_r0 c03m_ex_hist = true /\ rooted_mode c03m_ex_r0 (LExcl c03m_ex_r0) /\
  nofail (c03f_cfg (Some 7)) = c03f_cfg None /\
  let t0 := fk_run (c03f_cfg None) (fs_init (LExcl c03m_ex_r0)) c03m_ex_hist in
  let t := fk_run (c03f_cfg (Some 7)) (fs_init (LExcl c03m_ex_r0)) c03m_ex_hist in
  length t0 = 13%nat /\ length t = 5%nat /\ map snd t = [ROk; ROk; ROk; ROk; RHandlerErr] /\
  ok_prefix t = firstn 4 t0 /\
  map (fun x => length (fst x)) t = [1; 1; 0; 4; 2]%nat /\ map (fun x => length (fst x)) (firstn 5 t0) = [1; 1; 0; 4; 3]%nat /\
  c03_ex_tips (c03f_cfg (Some 7)) (fc_init (LExcl c03m_ex_r0)) (firstn 4 c03m_ex_hist) = [2; 3; 3; 5].
Proof. vm_compute. repeat split; left; reflexivity. Qed.
