(* Common imports and small list utilities shared by every model. Stdlib only. *)
From Coq Require Export List NArith ZArith Bool Lia Arith.
From Coq Require Export ZifyBool ZifyNat ZifyN.
Export ListNotations.

Ltac Zify.zify_post_hook ::= Z.div_mod_to_equations.

(* Byte strings are lists of N, one N per byte (0..255). *)
Definition str := list N.

Fixpoint eqb_list (a b : list N) : bool :=
  match a, b with
  | [], [] => true
  | x :: a', y :: b' => N.eqb x y && eqb_list a' b'
  | _, _ => false
  end.

Fixpoint memN (x : N) (l : list N) : bool :=
  match l with [] => false | y :: l' => N.eqb x y || memN x l' end.

Definition opt_eqb {A} (eqb : A -> A -> bool) (a b : option A) : bool :=
  match a, b with
  | None, None => true
  | Some x, Some y => eqb x y
  | _, _ => false
  end.

Fixpoint list_eqb {A} (eqb : A -> A -> bool) (a b : list A) : bool :=
  match a, b with
  | [], [] => true
  | x :: a', y :: b' => eqb x y && list_eqb eqb a' b'
  | _, _ => false
  end.

(* indices (from 0) of the entries with a non-zero code: what the driver prints *)
Fixpoint nonzero_from (i : N) (l : list N) : list (N * N) :=
  match l with
  | [] => []
  | c :: l' => if N.eqb c 0 then nonzero_from (i + 1) l' else (i, c) :: nonzero_from (i + 1) l'
  end.
Definition nonzero (l : list N) : list (N * N) := nonzero_from 0 l.
