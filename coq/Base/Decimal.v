(* Decimal printing (Go's %d on uint64 / int) and parsing (strconv.ParseUint / ParseInt, base 10). *)
From BV Require Import Base.Prelude.
Local Open Scope N_scope.

Definition two64 : N := 18446744073709551616.
Definition two63 : N := 9223372036854775808.
Definition two32 : N := 4294967296.
Definition two31 : N := 2147483648.

(* digits of n pushed in front of acc; fuel bounds the number of digits *)
Fixpoint pd (fuel : nat) (n : N) (acc : str) : str :=
  match fuel with
  | O => acc
  | S f =>
      let d := 48 + n mod 10 in
      let q := n / 10 in
      if q =? 0 then d :: acc else pd f q (d :: acc)
  end.

Definition print_dec (n : N) : str := pd (S (N.to_nat (N.size n))) n [].

Definition is_digit (c : N) : bool := (48 <=? c) && (c <=? 57).

Fixpoint dval_from (a : N) (s : str) : N :=
  match s with [] => a | c :: s' => dval_from (a * 10 + (c - 48)) s' end.

(* digits only, non-empty; the unbounded value *)
Definition parse_digits (s : str) : option N :=
  match s with
  | [] => None
  | _ => if forallb is_digit s then Some (dval_from 0 s) else None
  end.

(* strconv.ParseUint(s, 10, bits): no sign, value < 2^bits *)
Definition parse_uint (lim : N) (s : str) : option N :=
  match parse_digits s with
  | Some v => if v <? lim then Some v else None
  | None => None
  end.

(* strconv.ParseInt(s, 10, 64): optional sign, range [-2^(b-1), 2^(b-1)-1]; lim = 2^(b-1) *)
Definition parse_int (lim : N) (s : str) : option Z :=
  match s with
  | 43 :: s' => (* '+' *)
      match parse_digits s' with
      | Some v => if v <? lim then Some (Z.of_N v) else None
      | None => None
      end
  | 45 :: s' => (* '-' *)
      match parse_digits s' with
      | Some v => if v <=? lim then Some (- Z.of_N v)%Z else None
      | None => None
      end
  | _ =>
      match parse_digits s with
      | Some v => if v <? lim then Some (Z.of_N v) else None
      | None => None
      end
  end.

(* Go %d of a signed int *)
Definition print_int (z : Z) : str :=
  match z with
  | Zneg p => 45 :: print_dec (Npos p)
  | _ => print_dec (Z.to_N z)
  end.
