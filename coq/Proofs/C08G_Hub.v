(* C08, part B for an arbitrary event production function hp (Spec/C08_Gen_Spec.v): the hub model is an
   instance of the abstract machine of part A, the fan-out lists being the events hp produces for the
   pushed blocks.  Proofs/C08_Hub.v with [hub_push first kept] replaced by hp. *)
From BV Require Import Base.Prelude Model.Block Model.ForkDB Model.Forkable Model.ForkableLookups
  Model.Burst Model.Hub Model.HubSubs Model.HubAll Spec.C08_Spec Spec.C08_Gen_Spec Proofs.C08_Abstract.
Local Open Scope N_scope.

(* ---------------------------------------------------------------- the model operations, spelled out *)

Lemma push_block_eq hp sh b :
  push_block_g hp sh b =
  (mkSH (fst (hp (sh_hub sh) b))
        (fold_left fan_out (snd (hp (sh_hub sh) b)) (sh_subs sh)),
   snd (hp (sh_hub sh) b)).
Proof.
  unfold push_block_g. destruct (hp (sh_hub sh) b) as [h' evs]. reflexivity.
Qed.

Lemma subscribe_eq sh r :
  subscribe sh r =
  match request_burst (sh_hub sh) r with
  | None => (sh, false)
  | Some burst => (mkSH (sh_hub sh) (sh_subs sh ++ [new_sub burst]), true)
  end.
Proof. reflexivity. Qed.

(* ---------------------------------------------------------------- abstraction *)

(* the abstract operations a sequence of hub operations amounts to, from hub state h *)
Fixpoint abstract (hp : hprod) (h : hub) (ops : list op) : list aop :=
  match ops with
  | [] => []
  | OPush b :: ops' =>
      AFan (snd (hp h b)) :: abstract hp (fst (hp h b)) ops'
  | OSub r :: ops' =>
      match request_burst h r with
      | Some burst => ASub burst :: abstract hp h ops'
      | None => abstract hp h ops'
      end
  | ODrain k :: ops' => ADrain k :: abstract hp h ops'
  end.

Definition abs_of (st : hstate) : astate := mkA (sh_subs (hs_sh st)) (hs_got st).

Lemma run_abstract hp ops : forall st,
  run_g hp st ops =
  let a := arun (abs_of st) (abstract hp (sh_hub (hs_sh st)) ops) in
  mkHS (mkSH (hub_after_g hp (sh_hub (hs_sh st)) (pushes ops)) (a_subs a)) (a_got a).
Proof.
  induction ops as [|o ops IH]; intros st.
  - destruct st as [[h subs] got]. reflexivity.
  - cbn [run_g fold_left]. fold (run_g hp (step_g hp st o) ops). rewrite IH. clear IH.
    destruct st as [[h subs] got]. destruct o as [b|r|k]; cbn [step_g hs_sh hs_got sh_hub sh_subs].
    + rewrite push_block_eq. cbn [fst sh_hub sh_subs hs_sh hs_got abstract pushes flat_map app hub_after_g abs_of].
      reflexivity.
    + rewrite subscribe_eq. cbn [sh_hub sh_subs abstract pushes flat_map app].
      destruct (request_burst h r) as [burst|]; reflexivity.
    + cbn [abstract pushes flat_map app arun fold_left abs_of hs_sh hs_got sh_subs astep a_subs a_got].
      destruct (drain_nth k subs) as [subs' q]. reflexivity.
Qed.

Lemma hview_run hp st ops i :
  hview (run_g hp st ops) i = aview (arun (abs_of st) (abstract hp (sh_hub (hs_sh st)) ops)) i.
Proof. rewrite run_abstract. reflexivity. Qed.

Lemma run_hub hp st ops :
  sh_hub (hs_sh (run_g hp st ops)) = hub_after_g hp (sh_hub (hs_sh st)) (pushes ops).
Proof. rewrite run_abstract. reflexivity. Qed.

Lemma run_subs hp st ops :
  sh_subs (hs_sh (run_g hp st ops)) = a_subs (arun (abs_of st) (abstract hp (sh_hub (hs_sh st)) ops)).
Proof. rewrite run_abstract. reflexivity. Qed.

Lemma run_app hp st a b : run_g hp st (a ++ b) = run_g hp (run_g hp st a) b.
Proof. unfold run_g. apply fold_left_app. Qed.

Lemma pushes_app a b : pushes (a ++ b) = pushes a ++ pushes b.
Proof. unfold pushes. apply flat_map_app. Qed.

Lemma hub_after_app hp : forall a h b,
  hub_after_g hp h (a ++ b) = hub_after_g hp (hub_after_g hp h a) b.
Proof. induction a as [|x a IH]; intros h b; cbn [app hub_after_g]; [reflexivity | apply IH]. Qed.

Lemma push_events_app hp : forall a h b,
  push_events_g hp h (a ++ b) =
  push_events_g hp h a ++ push_events_g hp (hub_after_g hp h a) b.
Proof.
  induction a as [|x a IH]; intros h b; cbn [app push_events_g hub_after_g]; [reflexivity|].
  rewrite IH, app_assoc. reflexivity.
Qed.

Lemma abstract_app hp : forall a h b,
  abstract hp h (a ++ b) =
  abstract hp h a ++ abstract hp (hub_after_g hp h (pushes a)) b.
Proof.
  induction a as [|o a IH]; intros h b; [reflexivity|].
  destruct o as [x|r|k]; cbn [app abstract pushes flat_map hub_after_g].
  - fold (pushes a). rewrite IH. reflexivity.
  - fold (pushes a). rewrite IH. destruct (request_burst h r); reflexivity.
  - fold (pushes a). rewrite IH. reflexivity.
Qed.

Lemma fed_abstract hp : forall ops h,
  fed (abstract hp h ops) = map QEv (push_events_g hp h (pushes ops)).
Proof.
  induction ops as [|o ops IH]; intros h; [reflexivity|].
  destruct o as [x|r|k]; cbn [abstract pushes flat_map app push_events_g].
  - fold (pushes ops). change (fed (AFan ?e :: ?l)) with (map QEv e ++ fed l). rewrite IH, map_app. reflexivity.
  - fold (pushes ops). destruct (request_burst h r); [change (fed (ASub ?e :: ?l)) with (fed l)|]; apply IH.
  - fold (pushes ops). change (fed (ADrain ?e :: ?l)) with (fed l). apply IH.
Qed.

Lemma own_abstract hp i : forall ops h,
  own i (abstract hp h ops) = own_ops_g hp h i ops.
Proof.
  induction ops as [|o ops IH]; intros h; [reflexivity|].
  destruct o as [x|r|k]; cbn [abstract own_ops_g].
  - rewrite own_cons. cbn [own1 app]. rewrite IH. reflexivity.
  - destruct (request_burst h r); [rewrite own_cons; cbn [own1 app]|]; apply IH.
  - rewrite own_cons. cbn [own1]. destruct (Nat.eqb k i); cbn [app]; rewrite IH; reflexivity.
Qed.

Lemma abstract_erase hp j : forall ops h,
  abstract hp h (erase_drains j ops) = aerase j (abstract hp h ops).
Proof.
  induction ops as [|o ops IH]; intros h; [reflexivity|].
  destruct o as [x|r|k]; cbn [erase_drains filter abstract aerase].
  - fold (erase_drains j ops). fold (aerase j (abstract hp (fst (hp h x)) ops)).
    rewrite <- IH. reflexivity.
  - fold (erase_drains j ops). cbn [abstract]. destruct (request_burst h r); cbn [aerase filter];
      fold (aerase j (abstract hp h ops)); rewrite <- IH; reflexivity.
  - fold (erase_drains j ops). fold (aerase j (abstract hp h ops)).
    destruct (Nat.eqb k j); cbn [negb abstract]; rewrite <- IH; reflexivity.
Qed.

(* a fan-out in the abstract sequence is one push of the operation sequence *)
Lemma abstract_split hp : forall ops h A1 evs A2,
  abstract hp h ops = A1 ++ AFan evs :: A2 ->
  exists ops1 b ops2,
    ops = ops1 ++ OPush b :: ops2 /\
    abstract hp h ops1 = A1 /\
    snd (hp (hub_after_g hp h (pushes ops1)) b) = evs /\
    abstract hp (hub_after_g hp h (pushes (ops1 ++ [OPush b]))) ops2 = A2.
Proof.
  induction ops as [|o ops IH]; intros h A1 evs A2 H.
  - destruct A1; discriminate.
  - destruct o as [x|r|k]; cbn [abstract] in H.
    + destruct A1 as [|a A1]; cbn [app] in H; inversion H; subst.
      * exists [], x, ops. repeat split.
      * destruct (IH _ _ _ _ H2) as [ops1 [b [ops2 [E1 [E2 [E3 E4]]]]]].
        exists (OPush x :: ops1), b, ops2. subst ops. split; [reflexivity|].
        cbn [abstract pushes flat_map app hub_after_g]. fold (pushes ops1). fold (pushes (ops1 ++ [OPush b])).
        rewrite E2. auto.
    + destruct (request_burst h r) as [burst|] eqn:Hr.
      * destruct A1 as [|a A1]; cbn [app] in H; inversion H; subst.
        destruct (IH _ _ _ _ H2) as [ops1 [b [ops2 [E1 [E2 [E3 E4]]]]]].
        exists (OSub r :: ops1), b, ops2. subst ops. split; [reflexivity|].
        cbn [abstract pushes flat_map app]. fold (pushes ops1). fold (pushes (ops1 ++ [OPush b])).
        rewrite Hr, E2. auto.
      * destruct (IH _ _ _ _ H) as [ops1 [b [ops2 [E1 [E2 [E3 E4]]]]]].
        exists (OSub r :: ops1), b, ops2. subst ops. split; [reflexivity|].
        cbn [abstract pushes flat_map app]. fold (pushes ops1). fold (pushes (ops1 ++ [OPush b])).
        rewrite Hr. auto.
    + destruct A1 as [|a A1]; cbn [app] in H; inversion H; subst.
      destruct (IH _ _ _ _ H2) as [ops1 [b [ops2 [E1 [E2 [E3 E4]]]]]].
      exists (ODrain k :: ops1), b, ops2. subst ops. split; [reflexivity|].
      cbn [abstract pushes flat_map app]. fold (pushes ops1). fold (pushes (ops1 ++ [OPush b])).
      rewrite E2. auto.
Qed.

Lemma awf_start sh0 : awf (abs_of (start sh0)).
Proof. unfold awf, abs_of, start. cbn [hs_sh hs_got a_subs a_got]. rewrite map_length. reflexivity. Qed.

(* the operation sequence around a served request, abstractly *)
Lemma abstract_around hp h0 pre r post burst :
  request_burst (hub_after_g hp h0 (pushes pre)) r = Some burst ->
  abstract hp h0 (pre ++ OSub r :: post) =
  abstract hp h0 pre ++ ASub burst :: abstract hp (hub_after_g hp h0 (pushes pre)) post.
Proof. intros H. rewrite abstract_app. cbn [abstract]. rewrite H. reflexivity. Qed.

(* ---------------------------------------------------------------- theorems *)

Theorem c08_exactly_once_proof hp : C08_exactly_once_g hp.
Proof.
  intros sh0 pre r post burst h1 Hreq i expected.
  pose proof (c08_abs_exactly_once_proof (abs_of (start sh0)) (abstract hp (sh_hub sh0) pre) burst
                (abstract hp h1 post) (awf_start sh0)) as H.
  cbv zeta in H.
  assert (Hi : length (a_subs (arun (abs_of (start sh0)) (abstract hp (sh_hub sh0) pre))) = i).
  { subst i. rewrite run_subs. reflexivity. }
  rewrite Hi in H. destruct H as [s [got [Hv [Hcap [Hlive Hdrop]]]]].
  exists s, got. split.
  { rewrite hview_run. cbn [start hs_sh]. rewrite (abstract_around _ _ _ _ _ _ Hreq). exact Hv. }
  split; [exact Hcap|]. split.
  { intros Hd. rewrite (Hlive Hd). subst expected. rewrite fed_abstract. reflexivity. }
  intros Hd. destruct (Hdrop Hd) as [A1 [evs1 [e [evs2 [A2 [s1 [got1 [Hp [Hv1 [Hd1 [Hfull [Hq1 Hq2]]]]]]]]]]]].
  destruct (abstract_split _ _ _ _ _ _ Hp) as [post1 [b [post2 [E1 [E2 [E3 _]]]]]].
  exists post1, b, post2, evs1, e, evs2, s1, got1.
  split; [exact E1|]. split; [exact E3|]. split.
  { rewrite hview_run. cbn [start hs_sh]. rewrite (abstract_around _ _ _ _ _ _ Hreq). fold h1. rewrite E2. exact Hv1. }
  split; [exact Hd1|]. split; [exact Hfull|]. split; [exact Hq1|].
  assert (Hq3 : got ++ ms_queue s = burst ++ map QEv (push_events_g hp h1 (pushes post1)) ++ map QEv evs1).
  { rewrite Hq2, <- E2, fed_abstract. reflexivity. }
  split; [exact Hq3|].
  exists (map QEv (e :: evs2 ++ push_events_g hp (hub_after_g hp h1 (pushes (post1 ++ [OPush b]))) (pushes post2))).
  subst expected. rewrite Hq3, E1.
  replace (post1 ++ OPush b :: post2) with ((post1 ++ [OPush b]) ++ post2) by (rewrite <- app_assoc; reflexivity).
  rewrite (pushes_app (post1 ++ [OPush b])), push_events_app.
  rewrite (pushes_app post1), push_events_app. cbn [pushes flat_map app push_events_g]. rewrite E3.
  rewrite !map_app, !app_nil_r. cbn [map]. rewrite <- !app_assoc. cbn [app]. rewrite ?map_app. reflexivity.
Qed.

Theorem c08_lone_proof hp : C08_lone_g hp.
Proof.
  intros sh0 pre r post burst h1 Hreq i.
  rewrite hview_run. cbn [start hs_sh]. rewrite (abstract_around _ _ _ _ _ _ Hreq). fold h1.
  pose proof (c08_abs_lone_proof (abs_of (start sh0)) (abstract hp (sh_hub sh0) pre) burst
                (abstract hp h1 post) (awf_start sh0)) as H.
  cbv zeta in H.
  assert (Hi : length (a_subs (arun (abs_of (start sh0)) (abstract hp (sh_hub sh0) pre))) = i).
  { subst i. rewrite run_subs. reflexivity. }
  rewrite Hi in H. rewrite H. rewrite own_abstract. reflexivity.
Qed.

Theorem c08_refused_proof hp : C08_refused_g hp.
Proof.
  intros st pre r post H. rewrite !run_app. change (OSub r :: post) with ([OSub r] ++ post).
  rewrite run_app. f_equal.
  cbn [run_g fold_left step_g]. rewrite subscribe_eq, H. destruct (run_g hp st pre). reflexivity.
Qed.

Theorem c08_isolation_hub_proof hp : C08_isolation_hub_g hp.
Proof.
  intros st ops. split; [apply run_hub|]. intros b. rewrite push_block_eq. cbn [snd].
  rewrite run_hub. reflexivity.
Qed.

Theorem c08_isolation_subs_proof hp : C08_isolation_subs_g hp.
Proof.
  intros st ops1 ops2 i j Hij He. rewrite !hview_run.
  apply (c08_abs_isolation_proof _ _ _ i j Hij). rewrite <- !abstract_erase, He. reflexivity.
Qed.

Theorem c08_registration_atomic_proof hp : C08_registration_atomic_g hp.
Proof.
  intros sh0 pre b1 r b2 post burst st1 Hreq st2 evs2 i.
  set (pre' := pre ++ [OPush b1]).
  set (h1 := hub_after_g hp (sh_hub sh0) (pushes pre')).
  assert (Hh1 : sh_hub (hs_sh st1) = h1) by (subst st1 h1; rewrite run_hub; reflexivity).
  rewrite Hh1 in Hreq.
  assert (Hst2 : forall l, run_g hp st2 l = run_g hp (start sh0) (pre' ++ OSub r :: l)).
  { intros l. subst st2 st1. rewrite (run_app _ _ pre'). change (OSub r :: l) with ([OSub r] ++ l).
    rewrite (run_app _ _ [OSub r]). reflexivity. }
  assert (Hevs2 : evs2 = snd (hp h1 b2)).
  { subst evs2. rewrite push_block_eq. cbn [snd].
    change (hs_sh st2) with (hs_sh (run_g hp st2 [])).
    rewrite (Hst2 []), run_hub. cbn [start hs_sh]. rewrite pushes_app, hub_after_app.
    cbn [pushes flat_map app hub_after_g]. reflexivity. }
  split; [|split].
  - change st2 with (run_g hp st2 []). rewrite Hst2.
    exact (c08_lone_proof hp sh0 pre' r [] burst Hreq).
  - rewrite Hst2.
    pose proof (c08_lone_proof hp sh0 pre' r [OPush b2] burst Hreq) as HL. cbv zeta in HL.
    change (length (sh_subs (hs_sh (run_g hp (start sh0) pre')))) with i in HL.
    rewrite HL. clear HL. fold h1.
    cbn [own_ops_g srun fold_left sstep fst snd]. rewrite <- Hevs2.
    eexists. eexists. split; [reflexivity|]. split.
    + intros Hd. destruct (fold_push_live evs2 (new_sub burst) eq_refl) as [H|[evs1 [e [evs3 [_ [_ H]]]]]];
        rewrite H in Hd |- *; [reflexivity | discriminate].
    + intros Hlen. rewrite fold_push_room; [reflexivity | reflexivity|]. cbn [new_sub ms_queue ms_cap]. lia.
  - replace (pre ++ [OPush b1; OSub r; OPush b2] ++ post) with (pre' ++ OSub r :: OPush b2 :: post)
      by (subst pre'; rewrite <- app_assoc; reflexivity).
    destruct (c08_exactly_once_proof hp sh0 pre' r (OPush b2 :: post) burst Hreq)
      as [s [got [Hv [_ [Hlive _]]]]].
    exists s, got. split; [exact Hv|]. intros Hd. rewrite (Hlive Hd). fold h1.
    cbn [pushes flat_map app push_events_g]. rewrite <- Hevs2. rewrite map_app. eexists. reflexivity.
Qed.

(* ---------------------------------------------------------------- the old development is the instance
   hp := hub_push first kept (Model/Hub.v hub_live with an empty one-block pass) *)

Lemma push_block_g_old first kept sh b :
  push_block_g (hub_push first kept) sh b = push_block first kept sh b.
Proof.
  unfold push_block_g, push_block, hub_push.
  destruct (hub_live first kept (sh_hub sh) (PBlocks []) b) as [[h' evs] r]. reflexivity.
Qed.

Lemma step_g_old first kept st o : step_g (hub_push first kept) st o = step first kept st o.
Proof. destruct o; cbn [step_g step]; [rewrite push_block_g_old|..]; reflexivity. Qed.

Lemma run_g_old first kept ops : forall st, run_g (hub_push first kept) st ops = run first kept st ops.
Proof.
  induction ops as [|o ops IH]; intro st; [reflexivity|].
  cbn [run_g run fold_left]. rewrite step_g_old. apply IH.
Qed.

Lemma hub_after_g_old first kept bs : forall h, hub_after_g (hub_push first kept) h bs = hub_after first kept h bs.
Proof. induction bs as [|b bs IH]; intro h; cbn [hub_after_g hub_after]; [reflexivity | apply IH]. Qed.

Lemma push_events_g_old first kept bs : forall h,
  push_events_g (hub_push first kept) h bs = push_events first kept h bs.
Proof. induction bs as [|b bs IH]; intro h; cbn [push_events_g push_events]; [reflexivity | rewrite IH; reflexivity]. Qed.
