(* C06: pass-through (target cursor) mode of the resolver. *)
From BV Require Import Base.Prelude Model.Block Model.Burst Model.CursorResolver Check.Burst_Check
  Spec.C06_Spec Proofs.C06_Lists Proofs.C06_Resolver Proofs.C06_Proofs.
Local Open Scope N_scope.

Lemma pass_low : forall c forked low seen l,
  Forall (fun b => bnum b <= rn (cu_lib c) /\ bid b <> ri (cu_blk c)) low ->
  resolver_run c true forked (mkRS seen false) (low ++ l) =
  (map (file_event SNewIrr) low ++ fst (resolver_run c true forked (mkRS seen false) l),
   snd (resolver_run c true forked (mkRS seen false) l)).
Proof.
  intros c forked low seen l H. induction H as [|a low [Ha Hid] _ IH].
  - cbn [app map]. destruct (resolver_run c true forked (mkRS seen false) l). reflexivity.
  - cbn [app resolver_run]. unfold resolver_step at 1. cbn [r_resolved r_seen andb].
    replace (bnum a <=? rn (cu_lib c)) with true by (symmetry; apply N.leb_le; exact Ha).
    replace (bid a =? ri (cu_blk c)) with false by (symmetry; apply N.eqb_neq; exact Hid).
    rewrite IH. reflexivity.
Qed.

(* the fix: the cursor block goes by at or below the LIB and is recognised there *)
Lemma pass_low_hit : forall c forked seen b l,
  bnum b <= rn (cu_lib c) -> bid b = ri (cu_blk c) ->
  resolver_run c true forked (mkRS seen false) (b :: l) = (map (file_event SNewIrr) (b :: l), RsOk).
Proof.
  intros c forked seen b l Hb Hid.
  cbn [resolver_run]. unfold resolver_step at 1. cbn [r_resolved r_seen andb].
  replace (bnum b <=? rn (cu_lib c)) with true by (symmetry; apply N.leb_le; exact Hb).
  replace (bid b =? ri (cu_blk c)) with true by (symmetry; apply N.eqb_eq; exact Hid).
  rewrite run_resolved. reflexivity.
Qed.

Lemma pass_buffer : forall c forked mid seen l,
  Forall (fun b => rn (cu_lib c) < bnum b /\ bnum b < rn (cu_blk c)) mid ->
  resolver_run c true forked (mkRS seen false) (mid ++ l) =
  resolver_run c true forked (mkRS (seen ++ mid) false) l.
Proof.
  intros c forked mid. induction mid as [|a mid IH]; intros seen l H.
  - rewrite app_nil_r. reflexivity.
  - inversion H as [|? ? [Ha1 Ha2] H']; subst.
    cbn [app resolver_run]. unfold resolver_step at 1. cbn [r_resolved r_seen andb].
    replace (bnum a <=? rn (cu_lib c)) with false by (symmetry; apply N.leb_gt; exact Ha1).
    replace (bnum a <? rn (cu_blk c)) with true by (symmetry; apply N.ltb_lt; exact Ha2).
    rewrite (IH (seen ++ [a]) l H'). rewrite <- app_assoc. cbn [app].
    destruct (resolver_run c true forked (mkRS (seen ++ a :: mid) false) l) as [evs r]. reflexivity.
Qed.

Lemma pass_hit : forall c forked seen b post,
  rn (cu_lib c) < bnum b -> rn (cu_blk c) <= bnum b -> bid b = ri (cu_blk c) ->
  resolver_run c true forked (mkRS seen false) (b :: post) =
  (send_between SNewIrr (seen ++ [b]) (rn (cu_lib c)) (rn (cu_blk c)) ++ map (file_event SNewIrr) post, RsOk).
Proof.
  intros c forked seen b post H1 H2 Hid.
  cbn [resolver_run]. unfold resolver_step at 1. cbn [r_resolved r_seen andb].
  replace (bnum b <=? rn (cu_lib c)) with false by (symmetry; apply N.leb_gt; exact H1).
  replace (bnum b <? rn (cu_blk c)) with false by (symmetry; apply N.ltb_ge; exact H2).
  replace (bid b =? ri (cu_blk c)) with true by (symmetry; apply N.eqb_eq; exact Hid).
  rewrite run_resolved. reflexivity.
Qed.

Lemma pass_miss : forall c forked seen b post,
  rn (cu_lib c) < bnum b -> rn (cu_blk c) <= bnum b -> bid b <> ri (cu_blk c) ->
  resolver_run c true forked (mkRS seen false) (b :: post) = ([], RsNotImplemented).
Proof.
  intros c forked seen b post H1 H2 Hid.
  cbn [resolver_run]. unfold resolver_step at 1. cbn [r_resolved r_seen andb].
  replace (bnum b <=? rn (cu_lib c)) with false by (symmetry; apply N.leb_gt; exact H1).
  replace (bnum b <? rn (cu_blk c)) with false by (symmetry; apply N.ltb_ge; exact H2).
  replace (bid b =? ri (cu_blk c)) with false by (symmetry; apply N.eqb_neq; exact Hid).
  reflexivity.
Qed.

(* an ascending delivery: passed on (<= LIB) ++ buffered ++ from the first block that is above the
   LIB and at or above the cursor number *)
Lemma through_split : forall (c : cursor) D, asc D ->
  exists low mid top, D = low ++ mid ++ top /\
    Forall (fun b => bnum b <= rn (cu_lib c)) low /\
    Forall (fun b => rn (cu_lib c) < bnum b /\ bnum b < rn (cu_blk c)) mid /\
    Forall (fun b => rn (cu_lib c) < bnum b /\ rn (cu_blk c) <= bnum b) top /\ asc top.
Proof.
  intros c D H.
  destruct (asc_split D (rn (cu_lib c) + 1) H) as (low & hi & -> & Hlow & Hhi).
  apply asc_app_inv in H. destruct H as (_ & Hhiasc & _).
  destruct (asc_split hi (rn (cu_blk c)) Hhiasc) as (mid & top & -> & Hmid & Htop).
  apply Forall_app in Hhi. destruct Hhi as [Hhm Hht].
  apply asc_app_inv in Hhiasc. destruct Hhiasc as (_ & Htopasc & _).
  exists low, mid, top. split; [reflexivity|]. split; [|split; [|split]].
  - eapply Forall_impl; [|exact Hlow]. cbn beta. intros b Hb. lia.
  - rewrite Forall_forall in *. intros b Hb. specialize (Hhm b Hb). specialize (Hmid b Hb). lia.
  - rewrite Forall_forall in *. intros b Hb. specialize (Hht b Hb). specialize (Htop b Hb). lia.
  - exact Htopasc.
Qed.

Lemma upto_low : forall (c : cursor) low mid top,
  Forall (fun b => bnum b <= rn (cu_lib c)) low ->
  Forall (fun b => rn (cu_lib c) < bnum b /\ bnum b < rn (cu_blk c)) mid ->
  Forall (fun b => rn (cu_lib c) < bnum b /\ rn (cu_blk c) <= bnum b) top ->
  upto (rn (cu_lib c)) (low ++ mid ++ top) = low.
Proof.
  intros c low mid top Hl Hm Ht. unfold upto. rewrite !filter_app.
  rewrite (filter_all _ _ low), (filter_none _ _ mid), (filter_none _ _ top), !app_nil_r; [reflexivity| | |].
  - eapply Forall_impl; [|exact Ht]. cbn beta. intros b Hb. apply N.leb_gt. lia.
  - eapply Forall_impl; [|exact Hm]. cbn beta. intros b Hb. apply N.leb_gt. lia.
  - eapply Forall_impl; [|exact Hl]. cbn beta. intros b Hb. apply N.leb_le. lia.
Qed.

(* the deciding block is not the cursor block: not served *)
Lemma through_miss : forall c forked low mid b post,
  Forall (fun x => bnum x <= rn (cu_lib c)) low ->
  Forall (fun x => bid x <> ri (cu_blk c)) low ->
  Forall (fun x => rn (cu_lib c) < bnum x /\ bnum x < rn (cu_blk c)) mid ->
  Forall (fun x => rn (cu_lib c) < bnum x /\ rn (cu_blk c) <= bnum x) (b :: post) ->
  bid b <> ri (cu_blk c) ->
  resolver_run c true forked rs_init (low ++ mid ++ b :: post) =
    (map (file_event SNewIrr) (upto (rn (cu_lib c)) (low ++ mid ++ b :: post)), RsNotImplemented).
Proof.
  intros c forked low mid b post Hl Hlid Hm Ht Hid.
  rewrite (upto_low c low mid (b :: post) Hl Hm Ht).
  assert (Hl2 : Forall (fun x => bnum x <= rn (cu_lib c) /\ bid x <> ri (cu_blk c)) low).
  { rewrite Forall_forall in *. intros x Hx. split; [apply Hl|apply Hlid]; exact Hx. }
  unfold rs_init. rewrite pass_low by exact Hl2. rewrite pass_buffer by exact Hm.
  inversion Ht as [|? ? [Hb1 Hb2] _]; subst.
  rewrite pass_miss by assumption. cbn [fst snd]. rewrite app_nil_r. reflexivity.
Qed.

(* no block of `low` carries the id of a block that lies elsewhere in the delivery *)
Lemma low_ids_differ : forall (D low others : list block) B,
  NoDup (ids D) -> D = low ++ others -> In B others ->
  Forall (fun x => bid x <> bid B) low.
Proof.
  intros D low others B Hn E HB. rewrite Forall_forall. intros x Hx Eid.
  rewrite E, ids_app in Hn. clear E. induction low as [|y low IH]; [contradiction|].
  cbn in Hn. inversion Hn as [|? ? Hy Hn']; subst. destruct Hx as [->|Hx].
  - apply Hy. rewrite Eid. apply in_or_app. right. apply in_ids. exact HB.
  - apply IH; assumption.
Qed.

Lemma delivery_start merged start stop bundle B : In B (file_delivery merged start stop bundle) -> start <= bnum B.
Proof.
  unfold file_delivery. intros H. apply filter_In in H as [_ H]. apply andb_true_iff in H as [H _].
  apply N.leb_le in H. exact H.
Qed.

Lemma through_not_passed merged forked start c stop bundle : start <= rn (cu_blk c) ->
  through_cursor_run merged forked start c stop bundle = through_resolver_run merged forked start c stop bundle.
Proof.
  intros H. unfold through_cursor_run. replace (rn (cu_blk c) <? start) with false; [reflexivity|].
  symmetry. apply N.ltb_ge. exact H.
Qed.

Lemma c06_through_passed_proof : C06_through_passed.
Proof.
  intros merged forked start c stop bundle H. unfold through_cursor_run.
  replace (rn (cu_blk c) <? start) with true; [reflexivity|]. symmetry. apply N.ltb_lt. exact H.
Qed.

(* the code before the fix: chain 1..4, target cursor on block 2 (canonical), start block 3 *)
Lemma c06_through_passed_unfixed_refuted_proof : C06_through_passed_unfixed_refuted.
Proof.
  exists [mkBlock 11 1 1 0; mkBlock 21 2 11 1; mkBlock 31 3 21 1; mkBlock 41 4 31 2], 3,
         (mkCursor SNew (mkR 21 2) (mkR 21 2) (mkR 11 1)), 4, 100, (mkBlock 21 2 11 1).
  split.
  { split; [vm_compute; repeat split; reflexivity|].
    vm_compute. repeat constructor; intro H; repeat (destruct H as [H|H]; [discriminate H|]); exact H. }
  split; [vm_compute; tauto|]. split; [reflexivity|]. split; [vm_compute; reflexivity|].
  split; [vm_compute; discriminate | vm_compute; reflexivity].
Qed.

Lemma c06_through_on_chain_proof : C06_through_on_chain.
Proof.
  intros merged forked start c stop bundle B Hc D Hin HB Hlt.
  destruct (bref_eq _ _ HB) as [Hid Hnum].
  assert (HDc : chain_ok D) by (apply c06_delivery_segment_proof; exact Hc).
  pose proof (chain_ok_asc _ HDc) as Hasc.
  rewrite (through_not_passed merged forked start c stop bundle) by (rewrite <- Hnum; eapply delivery_start; exact Hin).
  unfold through_resolver_run. fold D.
  destruct (through_split c D Hasc) as (low & mid & top & E & Hl & Hm & Ht & Htasc).
  (* B is the first block of top *)
  assert (HBtop : In B top).
  { rewrite E in Hin. apply in_app_or in Hin. destruct Hin as [Hin|Hin].
    - rewrite Forall_forall in Hl. apply Hl in Hin. lia.
    - apply in_app_or in Hin. destruct Hin as [Hin|Hin]; [|exact Hin].
      rewrite Forall_forall in Hm. apply Hm in Hin. lia. }
  assert (Hlid : Forall (fun x => bid x <> bid B) low).
  { apply (low_ids_differ D low (mid ++ top) B); [apply HDc|exact E|apply in_or_app; right; exact HBtop]. }
  destruct top as [|b post]; [contradiction|].
  assert (Eb : b = B).
  { apply (asc_in_eq (b :: post)); [exact Htasc|left; reflexivity|exact HBtop|].
    inversion Ht as [|? ? [_ Hb2] _]; subst.
    destruct HBtop as [->|HBp]; [reflexivity|].
    destruct Htasc as [Hbp _]. rewrite Forall_forall in Hbp. apply Hbp in HBp. lia. }
  subst b. rewrite E.
  assert (Hl2 : Forall (fun x => bnum x <= rn (cu_lib c) /\ bid x <> ri (cu_blk c)) low).
  { rewrite Forall_forall in *. intros x Hx. split; [apply Hl; exact Hx|]. rewrite <- Hid. apply Hlid. exact Hx. }
  unfold rs_init. rewrite pass_low by exact Hl2. rewrite pass_buffer by exact Hm.
  inversion Ht as [|? ? [Hb1 Hb2] _]; subst.
  rewrite pass_hit by assumption. cbn [fst snd app].
  rewrite sb_all.
  - rewrite <- !map_app. rewrite <- app_assoc. reflexivity.
  - apply Forall_app. split.
    + eapply Forall_impl; [|exact Hm]. cbn beta. intros x Hx. lia.
    + constructor; [lia|constructor].
Qed.

Lemma c06_through_forked_proof : C06_through_forked.
Proof.
  intros merged forked start c stop bundle Hc D Hstart Hnot (b0 & Hb0 & Hb0l & Hb0b).
  assert (HDc : chain_ok D) by (apply c06_delivery_segment_proof; exact Hc).
  pose proof (chain_ok_asc _ HDc) as Hasc.
  rewrite (through_not_passed merged forked start c stop bundle) by exact Hstart.
  unfold through_resolver_run. fold D.
  destruct (through_split c D Hasc) as (low & mid & top & E & Hl & Hm & Ht & Htasc).
  assert (Hb0top : In b0 top).
  { rewrite E in Hb0. apply in_app_or in Hb0. destruct Hb0 as [Hin|Hin].
    - rewrite Forall_forall in Hl. apply Hl in Hin. lia.
    - apply in_app_or in Hin. destruct Hin as [Hin|Hin]; [|exact Hin].
      rewrite Forall_forall in Hm. apply Hm in Hin. lia. }
  destruct top as [|b post]; [contradiction|].
  rewrite E. apply through_miss; try assumption.
  - rewrite Forall_forall. intros x Hx Eid. apply Hnot. rewrite <- Eid, E. apply in_ids.
    apply in_or_app. left. exact Hx.
  - intro Eid. apply Hnot. rewrite <- Eid, E. apply in_ids.
    apply in_or_app. right. apply in_or_app. right. left. reflexivity.
Qed.

Lemma c06_through_final_cursor_proof : C06_through_final_cursor.
Proof.
  intros merged forked start c stop bundle B Hc D Hin HB Hle.
  destruct (bref_eq _ _ HB) as [Hid Hnum].
  assert (HDc : chain_ok D) by (apply c06_delivery_segment_proof; exact Hc).
  rewrite (through_not_passed merged forked start c stop bundle) by (rewrite <- Hnum; eapply delivery_start; exact Hin).
  unfold through_resolver_run. fold D.
  destruct (in_split _ _ Hin) as (l1 & l2 & E).
  pose proof (chain_ok_asc _ HDc) as Hasc. rewrite E in Hasc.
  destruct (asc_app_inv _ _ Hasc) as (_ & _ & H12).
  assert (Hl2 : Forall (fun x => bnum x <= rn (cu_lib c) /\ bid x <> ri (cu_blk c)) l1).
  { pose proof (low_ids_differ D l1 (B :: l2) B (proj2 HDc) E (or_introl eq_refl)) as Hd.
    rewrite Forall_forall in H12, Hd. rewrite Forall_forall. intros x Hx. split.
    - specialize (H12 x Hx). pose proof (Forall_inv H12) as HxB. cbn beta in HxB. lia.
    - rewrite <- Hid. apply Hd. exact Hx. }
  rewrite E. unfold rs_init. rewrite pass_low by exact Hl2.
  rewrite pass_low_hit by (try assumption; lia). cbn [fst snd].
  rewrite <- map_app. reflexivity.
Qed.

(* the code before the fix: chain 1,2,3 from block 1, final target cursor on block 2 *)
Lemma c06_through_final_cursor_unfixed_refuted_proof : C06_through_final_cursor_unfixed_refuted.
Proof.
  exists [mkBlock 11 1 1 0; mkBlock 21 2 11 1; mkBlock 31 3 21 2], 1, (mkCursor SIrr (mkR 21 2) (mkR 31 3) (mkR 21 2)), 3, 5,
         (mkBlock 21 2 11 1).
  split; [split; [cbn; repeat split; lia|cbn; repeat (constructor; [cbn; lia|]); constructor]|].
  split; [vm_compute; tauto|]. split; [reflexivity|]. split; [cbn; lia|].
  vm_compute. reflexivity.
Qed.
