(* GENERIC COPY of Proofs/C08_SchedReg.v: the same proofs with the event production function [hub_push first kept]
   (Model/Hub.v hub_live) replaced by an arbitrary hp : hprod (Model/HubAll.v); see Spec/C08_Sched_Gen_Spec.v. *)
(* C08, schedule part, 3: invariants about the requesters' records and the subscriber list: the burst held
   between lookup and append is the burst of the current hub state; the list holds exactly the
   registered subscriptions that were not dropped (no registration is lost). *)
From BV Require Import Base.Prelude Model.Block Model.ForkDB Model.Forkable Model.ForkableLookups
  Model.Burst Model.Hub Model.HubSubs Model.HubAll Model.HubSched Model.HubSchedG Spec.C08_Spec Spec.C08_Gen_Spec Spec.C08_Sched_Spec Spec.C08_Sched_Gen_Spec
  Proofs.C08G_SchedSerial Proofs.C08G_SchedInv.
Local Open Scope N_scope.

Definition registered (c : req) : bool :=
  linearized c && match r_sub c with Some _ => true | None => false end.

Definition rec_ok (h : hub) (c : req) : Prop :=
  match r_pc c with
  | RStart | RLocked => r_sub c = None /\ r_got c = []
  | RHook | RMutex | RRead _ | RWritten =>
      exists burst, request_burst h (r_req c) = Some burst /\ r_sub c = Some (new_sub burst) /\ r_got c = []
  | RUnlocking => r_got c = []
  | RDone => True
  end.

Definition fan_ok (st : cstate) : Prop :=
  match g_ppc st with
  | PFan e todo evs => NoDup todo /\ (forall j, In j todo -> In j (g_subs st))
  | PDrop e k todo evs =>
      NoDup todo /\ (forall j, In j todo -> In j (g_subs st)) /\ ~ In k todo /\ ms_dropped (sub_at st k) = true
  | _ => True
  end.

Record RegInv (st : cstate) : Prop := mkRegInv {
  ri_nodup : NoDup (g_order st);
  ri_order : forall i, In i (g_order st) <->
                       exists c, nth_error (g_reqs st) i = Some c /\ registered c = true;
  ri_subs : g_subs st = filter (keeps st) (g_order st);
  ri_snap : forall i c snap, nth_error (g_reqs st) i = Some c -> r_pc c = RRead snap -> snap = g_subs st;
  ri_rec : forall i c, nth_error (g_reqs st) i = Some c -> rec_ok (g_hub st) c;
  ri_fan : fan_ok st
}.

Lemma reg_init h0 script reqs : RegInv (cinit h0 script reqs).
Proof.
  assert (Hall : forall i c, nth_error (map (fun r => mkReq r RStart None []) reqs) i = Some c ->
                             r_pc c = RStart /\ r_sub c = None /\ r_got c = []).
  { intros i c H. apply nth_error_In in H. apply in_map_iff in H. destruct H as [r [<- _]]. auto. }
  constructor; cbn [cinit g_order g_reqs g_subs g_hub g_ppc].
  - constructor.
  - intros i. split; [intros []|]. intros [c [Hc Hr]]. destruct (Hall _ _ Hc) as [Hpc _].
    unfold registered, linearized in Hr. rewrite Hpc in Hr. discriminate.
  - reflexivity.
  - intros i c snap Hc Hpc. destruct (Hall _ _ Hc) as [Hpc' _]. congruence.
  - intros i c Hc. destruct (Hall _ _ Hc) as [Hpc [Hs Hg]]. unfold rec_ok. rewrite Hpc. auto.
  - exact I.
Qed.

(* ---------------------------------------------------------------- helpers *)

Lemma sub_at_put st i c c' j :
  nth_error (g_reqs st) i = Some c ->
  sub_at (put_req st i c') j =
  if Nat.eqb j i then match r_sub c' with Some s => s | None => mkSub [] 0 false end else sub_at st j.
Proof.
  intros Hc. unfold sub_at. simp_st. rewrite (rq_put _ _ _ _ _ Hc). destruct (Nat.eqb j i); reflexivity.
Qed.

Lemma got_at_put st i c c' j :
  nth_error (g_reqs st) i = Some c ->
  got_at (put_req st i c') j = if Nat.eqb j i then r_got c' else got_at st j.
Proof.
  intros Hc. unfold got_at. simp_st. rewrite (rq_put _ _ _ _ _ Hc). destruct (Nat.eqb j i); reflexivity.
Qed.

(* a change of requester i's record that keeps "registered" keeps the characterisation of the order *)
Lemma order_put st i c c' (l : list nat) :
  nth_error (g_reqs st) i = Some c -> registered c' = registered c ->
  (forall j, In j l <-> exists cj, nth_error (g_reqs st) j = Some cj /\ registered cj = true) ->
  (forall j, In j l <-> exists cj, nth_error (set_nth i c' (g_reqs st)) j = Some cj /\ registered cj = true).
Proof.
  intros Hc Hr H j. rewrite (H j). rewrite (rq_put _ _ _ _ _ Hc). destruct (Nat.eqb j i) eqn:Hji.
  - apply Nat.eqb_eq in Hji. subst j. split.
    + intros [cj [Hj Hreg]]. rewrite Hc in Hj. inversion Hj; subst cj. exists c'. split; [reflexivity | congruence].
    + intros [cj [Hj Hreg]]. inversion Hj; subst cj. exists c. split; [exact Hc | congruence].
  - reflexivity.
Qed.

Lemma rec_put st i c c' h :
  nth_error (g_reqs st) i = Some c -> rec_ok h c' ->
  (forall j cj, nth_error (g_reqs st) j = Some cj -> rec_ok h cj) ->
  (forall j cj, nth_error (set_nth i c' (g_reqs st)) j = Some cj -> rec_ok h cj).
Proof.
  intros Hc Hok H j cj Hj. rewrite (rq_put _ _ _ _ _ Hc) in Hj. destruct (Nat.eqb j i).
  - inversion Hj; subst cj. exact Hok.
  - apply (H j cj Hj).
Qed.

Lemma snap_put st i c c' (subs : list nat) :
  nth_error (g_reqs st) i = Some c ->
  (forall snap, r_pc c' = RRead snap -> snap = subs) ->
  (forall j cj snap, nth_error (g_reqs st) j = Some cj -> j <> i -> r_pc cj = RRead snap -> snap = subs) ->
  (forall j cj snap, nth_error (set_nth i c' (g_reqs st)) j = Some cj -> r_pc cj = RRead snap -> snap = subs).
Proof.
  intros Hc Hme H j cj snap Hj Hpc. rewrite (rq_put _ _ _ _ _ Hc) in Hj. destruct (Nat.eqb j i) eqn:Hji.
  - inversion Hj; subst cj. apply Hme, Hpc.
  - apply Nat.eqb_neq in Hji. apply (H j cj snap Hj Hji Hpc).
Qed.

Lemma filter_ext_in' {A} (f g : A -> bool) l : (forall x, In x l -> f x = g x) -> filter f l = filter g l.
Proof.
  induction l as [|x l IH]; intros H; [reflexivity|]. cbn [filter].
  rewrite (H x (or_introl eq_refl)), IH; [reflexivity|]. intros y Hy. apply H. right. exact Hy.
Qed.

Lemma filter_filter' {A} (f g : A -> bool) l : filter f (filter g l) = filter (fun x => g x && f x) l.
Proof.
  induction l as [|x l IH]; [reflexivity|]. cbn [filter]. destruct (g x); cbn [filter andb]; rewrite IH; reflexivity.
Qed.

Lemma NoDup_app_one {A} (x : A) l : NoDup l -> ~ In x l -> NoDup (l ++ [x]).
Proof.
  induction 1 as [|y l Hy Hl IH]; intros Hx; cbn [app]; [constructor; [intros []|constructor]|].
  constructor.
  - rewrite in_app_iff. intros [H|[H|[]]]; [contradiction|]. subst. apply Hx. left. reflexivity.
  - apply IH. intros H. apply Hx. right. exact H.
Qed.

Lemma NoDup_filter {A} (f : A -> bool) l : NoDup l -> NoDup (filter f l).
Proof.
  induction 1 as [|x l Hx Hl IH]; cbn [filter]; [constructor|].
  destruct (f x); [constructor; [|exact IH]|exact IH]. intros Hin. apply filter_In in Hin. tauto.
Qed.

(* a registered requester is outside every critical section as soon as the writer is inside *)
Lemma registered_done st i c :
  LockInv st -> g_writer st = true -> nth_error (g_reqs st) i = Some c -> registered c = true -> r_pc c = RDone.
Proof.
  intros L Hw Hc Hr. destruct (lock_writer_excludes st L Hw) as [_ Hz]. specialize (Hz i c Hc).
  unfold registered, linearized in Hr. unfold in_read_cs in Hz. destruct (r_pc c); try discriminate. reflexivity.
Qed.

Lemma writer_of_pc st : LockInv st -> in_write_cs st = true -> g_writer st = true.
Proof. intros L H. rewrite (li_writer _ L). exact H. Qed.

(* ---------------------------------------------------------------- the producer *)

Lemma keeps_ppc st pc' j :
  (match g_ppc st with PDrop _ _ _ _ => false | _ => true end) = true ->
  (match pc' with PDrop _ _ _ _ => false | _ => true end) = true ->
  keeps (set_ppc st pc') j = keeps st j.
Proof.
  intros H1 H2. unfold keeps, sub_at. simp_st. destruct (g_ppc st); try discriminate; destruct pc'; try discriminate; reflexivity.
Qed.

Lemma reg_step_prod hp st :
  LockInv st -> RegInv st -> RegInv (prod_step_g true hp st).
Proof.
  intros L R. unfold prod_step_g.
  destruct (g_ppc st) as [|b|b|evs|e todo evs|e k todo evs] eqn:Hpc.
  - (* PIdle *)
    destruct (g_script st) as [|b rest]; [exact R|]. destruct R as [R1 R2 R3 R4 R5 R6].
    constructor; simp_st; try assumption.
    + rewrite R3. apply filter_ext_in'. intros j _. unfold keeps, sub_at. simp_st. rewrite Hpc. reflexivity.
    + unfold fan_ok. simp_st. exact I.
  - (* PWait *)
    destruct (Nat.eqb (g_readers st) 0); [|exact R]. destruct R as [R1 R2 R3 R4 R5 R6].
    constructor; simp_st; try assumption.
    + rewrite R3. apply filter_ext_in'. intros j _. unfold keeps, sub_at. simp_st. rewrite Hpc. reflexivity.
    + unfold fan_ok. simp_st. exact I.
  - (* PLocked: the hub changes; no requester is between lookup and append *)
    rewrite (hub_push_live hp (g_hub st) b).
    assert (Hw : g_writer st = true) by (apply writer_of_pc; [exact L | unfold in_write_cs; rewrite Hpc; reflexivity]).
    destruct (lock_writer_excludes st L Hw) as [_ Hz].
    destruct R as [R1 R2 R3 R4 R5 R6].
    constructor; simp_st; try assumption.
    + rewrite R3. apply filter_ext_in'. intros j _. unfold keeps, sub_at. simp_st. rewrite Hpc. reflexivity.
    + intros i c Hc. specialize (R5 i c Hc). specialize (Hz i c Hc). unfold rec_ok in *. unfold in_read_cs in Hz.
      destruct (r_pc c); try discriminate; exact R5.
    + unfold fan_ok. simp_st. exact I.
  - (* PEvents *)
    destruct evs as [|e evs].
    + destruct R as [R1 R2 R3 R4 R5 R6]. constructor; simp_st; try assumption.
      * rewrite R3. apply filter_ext_in'. intros j _. unfold keeps, sub_at. simp_st. rewrite Hpc. reflexivity.
      * unfold fan_ok. simp_st. exact I.
    + destruct (mutex_free true st); [|exact R]. destruct R as [R1 R2 R3 R4 R5 R6].
      constructor; simp_st; try assumption.
      * rewrite R3. apply filter_ext_in'. intros j _. unfold keeps, sub_at. simp_st. rewrite Hpc. reflexivity.
      * unfold fan_ok. simp_st. split; [rewrite R3; apply NoDup_filter; exact R1 | auto].
  - (* PFan *)
    destruct todo as [|k todo].
    + destruct R as [R1 R2 R3 R4 R5 R6]. constructor; simp_st; try assumption.
      * rewrite R3. apply filter_ext_in'. intros j _. unfold keeps, sub_at. simp_st. rewrite Hpc. reflexivity.
      * unfold fan_ok. simp_st. exact I.
    + assert (Hw : g_writer st = true) by (apply writer_of_pc; [exact L | unfold in_write_cs; rewrite Hpc; reflexivity]).
      pose proof R as R'. destruct R' as [R1 R2 R3 R4 R5 R6].
      unfold fan_ok in R6. rewrite Hpc in R6. destruct R6 as [Hnd Hsub].
      assert (Hk : In k (g_subs st)) by (apply Hsub; left; reflexivity).
      rewrite R3 in Hk. apply filter_In in Hk. destruct Hk as [Hko Hkk].
      apply (R2 k) in Hko. destruct Hko as [c [Hc Hreg]].
      pose proof (registered_done st k c L Hw Hc Hreg) as Hdone.
      unfold keeps in Hkk. rewrite Hpc in Hkk. rewrite orb_false_r in Hkk. apply negb_true_iff in Hkk.
      rewrite Hc. unfold registered in Hreg. apply andb_true_iff in Hreg. destruct Hreg as [Hlin Hsome].
      destruct (r_sub c) as [s|] eqn:Hs; [|discriminate].
      assert (Hsat : sub_at st k = s) by (unfold sub_at; rewrite Hc, Hs; reflexivity).
      inversion Hnd as [|k' todo' Hnotin Hnd']; subst k' todo'.
      assert (Hcommon : forall s' pc',
                 (match pc' with PFan _ _ _ => ms_dropped s' = false | PDrop _ k' _ _ => k' = k /\ ms_dropped s' = true | _ => False end) ->
                 (match pc' with PFan e' t' _ => t' = todo | PDrop _ _ t' _ => t' = todo | _ => False end) ->
                 RegInv (set_ppc (put_req st k (set_rsub c s')) pc')).
      { intros s' pc' Hflag Htodo.
        constructor; simp_st; try assumption.
        - apply (order_put st k c); [exact Hc | unfold registered, linearized; cbn [set_rsub r_pc r_sub]; rewrite Hs; reflexivity | exact R2].
        - rewrite R3. apply filter_ext_in'. intros j Hj. unfold keeps. simp_st. rewrite Hpc.
          change (sub_at (set_ppc (put_req st k (set_rsub c s')) pc') j) with (sub_at (put_req st k (set_rsub c s')) j).
          rewrite (sub_at_put st k c _ j Hc). cbn [set_rsub r_sub]. rewrite orb_false_r.
          destruct (Nat.eqb j k) eqn:Hjk.
          + apply Nat.eqb_eq in Hjk. subst j. rewrite Hkk. cbn [negb].
            destruct pc'; try contradiction.
            * rewrite Hflag. reflexivity.
            * destruct Hflag as [-> ->]. rewrite Nat.eqb_refl. reflexivity.
          + destruct pc'; try contradiction; rewrite ?orb_false_r; try reflexivity.
            destruct Hflag as [-> _]. rewrite Hjk, orb_false_r. reflexivity.
        - apply (snap_put st k c); [exact Hc | cbn [set_rsub r_pc]; intros snap Hp; congruence|].
          intros j cj snap Hj _ Hp. apply (R4 j cj snap Hj Hp).
        - apply (rec_put st k c); [exact Hc | unfold rec_ok; cbn [set_rsub r_pc]; rewrite Hdone; exact I | exact R5].
        - unfold fan_ok. simp_st. destruct pc'; try contradiction; subst.
          + split; [exact Hnd' | intros j Hj; apply Hsub; right; exact Hj].
          + destruct Hflag as [-> Hdr]. split; [exact Hnd'|]. split; [intros j Hj; apply Hsub; right; exact Hj|].
            split; [exact Hnotin|].
            match goal with |- ms_dropped (sub_at (set_ppc ?X _) k) = true => change (ms_dropped (sub_at X k) = true) end.
            rewrite (sub_at_put st k c _ k Hc), Nat.eqb_refl. cbn [set_rsub r_sub]. exact Hdr. }
      destruct (N.of_nat (length (ms_queue s)) =? ms_cap s).
      * apply Hcommon; cbn [ms_dropped]; auto.
      * apply Hcommon; cbn [ms_dropped]; [congruence | reflexivity].
  - (* PDrop *)
    destruct (mutex_free true st); [|exact R].
    assert (Hw : g_writer st = true) by (apply writer_of_pc; [exact L | unfold in_write_cs; rewrite Hpc; reflexivity]).
    destruct (lock_writer_excludes st L Hw) as [_ Hz].
    destruct R as [R1 R2 R3 R4 R5 R6]. unfold fan_ok in R6. rewrite Hpc in R6. destruct R6 as [Hnd [Hsub [Hnotin Hdr]]].
    constructor; simp_st; try assumption.
    + rewrite R3. rewrite filter_filter'. apply filter_ext_in'. intros j _.
      unfold keeps. simp_st. rewrite Hpc. unfold sub_at at 2. simp_st. fold (sub_at st j).
      destruct (Nat.eqb j k) eqn:Hjk; cbn [negb]; rewrite ?orb_false_r, ?andb_true_r, ?andb_false_r.
      * apply Nat.eqb_eq in Hjk. subst j. rewrite Hdr. reflexivity.
      * reflexivity.
    + intros i c snap Hc Hp. specialize (Hz i c Hc). unfold in_read_cs in Hz. rewrite Hp in Hz. discriminate.
    + unfold fan_ok. simp_st. split; [exact Hnd|]. intros j Hj. apply filter_In. split; [apply Hsub, Hj|].
      apply negb_true_iff, Nat.eqb_neq. intros ->. contradiction.
Qed.

(* ---------------------------------------------------------------- requesters and consumers *)

Definition sub_of_rec (c : req) : msub := match r_sub c with Some s => s | None => mkSub [] 0 false end.

Lemma sub_at_rec st i c : nth_error (g_reqs st) i = Some c -> sub_at st i = sub_of_rec c.
Proof. intros H. unfold sub_at, sub_of_rec. rewrite H. reflexivity. Qed.

Lemma sub_at_ext st st' j : g_reqs st' = g_reqs st -> sub_at st' j = sub_at st j.
Proof. intros H. unfold sub_at. rewrite H. reflexivity. Qed.

Lemma keeps_ext st st' :
  g_ppc st' = g_ppc st -> (forall j, ms_dropped (sub_at st' j) = ms_dropped (sub_at st j)) ->
  forall j, keeps st' j = keeps st j.
Proof. intros Hp Hd j. unfold keeps. rewrite Hp, Hd. reflexivity. Qed.

Lemma fan_ok_ext st st' :
  g_ppc st' = g_ppc st -> g_subs st' = g_subs st ->
  (forall j, ms_dropped (sub_at st' j) = ms_dropped (sub_at st j)) -> fan_ok st -> fan_ok st'.
Proof. intros Hp Hs Hd H. unfold fan_ok in *. rewrite Hp, Hs. destruct (g_ppc st); try exact H. rewrite Hd. exact H. Qed.

(* a step_g that only changes the record of requester i *)
Lemma reg_put st st' i c c' :
  RegInv st -> nth_error (g_reqs st) i = Some c ->
  g_reqs st' = set_nth i c' (g_reqs st) -> g_ppc st' = g_ppc st -> g_subs st' = g_subs st ->
  g_order st' = g_order st -> g_hub st' = g_hub st ->
  registered c' = registered c ->
  ms_dropped (sub_of_rec c') = ms_dropped (sub_of_rec c) ->
  (forall snap, r_pc c' = RRead snap -> snap = g_subs st) ->
  rec_ok (g_hub st) c' ->
  RegInv st'.
Proof.
  intros [R1 R2 R3 R4 R5 R6] Hc Hreqs Hppc Hsubs Hord Hhub Hreg Hdr Hsnap Hrec.
  assert (Hd : forall j, ms_dropped (sub_at st' j) = ms_dropped (sub_at st j)).
  { intros j. unfold sub_at at 1. rewrite Hreqs, (rq_put _ _ _ _ _ Hc). destruct (Nat.eqb j i) eqn:Hji.
    - apply Nat.eqb_eq in Hji. subst j. rewrite (sub_at_rec _ _ _ Hc). exact Hdr.
    - reflexivity. }
  constructor.
  - rewrite Hord. exact R1.
  - rewrite Hord, Hreqs. apply (order_put st i c); assumption.
  - rewrite Hsubs, Hord, R3. apply filter_ext_in'. intros j _. symmetry. apply keeps_ext; assumption.
  - rewrite Hreqs, Hsubs. apply (snap_put st i c); [exact Hc | exact Hsnap|].
    intros j cj snap Hj _ Hp. apply (R4 j cj snap Hj Hp).
  - rewrite Hreqs, Hhub. apply (rec_put st i c); assumption.
  - apply (fan_ok_ext st); assumption.
Qed.

Lemma read_cs_not_writer st i c :
  LockInv st -> nth_error (g_reqs st) i = Some c -> in_read_cs c = true -> in_write_cs st = false.
Proof.
  intros L Hc Hin. destruct (in_write_cs st) eqn:Hw; [|reflexivity].
  destruct (lock_writer_excludes st L (writer_of_pc st L Hw)) as [_ Hz]. rewrite (Hz i c Hc) in Hin. discriminate.
Qed.

Lemma reg_step_req st i : LockInv st -> RegInv st -> RegInv (req_step true st i).
Proof.
  intros L R. unfold req_step. destruct (nth_error (g_reqs st) i) as [c|] eqn:Hc; [|exact R].
  pose proof (ri_rec _ R i c Hc) as Hrec. unfold rec_ok in Hrec.
  destruct (r_pc c) as [| | | |snap| | |] eqn:Hpc.
  - (* RStart *)
    destruct (negb (g_writer st) && negb (g_wpend st)); [|exact R].
    apply (reg_put st _ i c (set_rpc c RLocked) R Hc); try reflexivity.
    + unfold registered, linearized. cbn [set_rpc r_pc r_sub]. rewrite Hpc. reflexivity.
    + cbn [set_rpc r_pc]. discriminate.
    + unfold rec_ok. cbn [set_rpc r_pc r_sub r_got]. exact Hrec.
  - (* RLocked *)
    destruct Hrec as [Hs Hg].
    destruct (request_burst (g_hub st) (r_req c)) as [burst|] eqn:Hb.
    + eapply (reg_put st _ i c _ R Hc); try reflexivity.
      * unfold registered, linearized. cbn [r_pc r_sub]. rewrite Hpc. reflexivity.
      * unfold sub_of_rec. cbn [r_sub]. rewrite Hs. reflexivity.
      * cbn [r_pc]. discriminate.
      * unfold rec_ok. cbn [r_pc r_sub r_got r_req]. exists burst. auto.
    + apply (reg_put st _ i c (set_rpc c RUnlocking) R Hc); try reflexivity.
      * unfold registered, linearized. cbn [set_rpc r_pc r_sub]. rewrite Hpc, Hs. reflexivity.
      * cbn [set_rpc r_pc]. discriminate.
      * unfold rec_ok. cbn [set_rpc r_pc r_sub r_got]. exact Hg.
  - (* RHook *)
    destruct (g_mutex st); [exact R|].
    apply (reg_put st _ i c (set_rpc c RMutex) R Hc); try reflexivity.
    + unfold registered, linearized. cbn [set_rpc r_pc r_sub]. rewrite Hpc. reflexivity.
    + cbn [set_rpc r_pc]. discriminate.
    + unfold rec_ok. cbn [set_rpc r_pc r_sub r_got]. exact Hrec.
  - (* RMutex *)
    apply (reg_put st _ i c (set_rpc c (RRead (g_subs st))) R Hc); try reflexivity.
    + unfold registered, linearized. cbn [set_rpc r_pc r_sub]. rewrite Hpc. reflexivity.
    + cbn [set_rpc r_pc]. intros snap Hs. congruence.
    + unfold rec_ok. cbn [set_rpc r_pc r_sub r_got]. exact Hrec.
  - (* RRead: the append *)
    destruct Hrec as [burst [Hb [Hs Hg]]].
    pose proof R as R'. destruct R' as [R1 R2 R3 R4 R5 R6].
    assert (Hsnap : snap = g_subs st) by (apply (R4 i c snap Hc Hpc)). subst snap.
    assert (Hnw : in_write_cs st = false)
      by (apply (read_cs_not_writer st i c L Hc); unfold in_read_cs; rewrite Hpc; reflexivity).
    assert (Hnot : ~ In i (g_order st)).
    { intros Hin. apply R2 in Hin. destruct Hin as [c0 [Hc0 Hreg]]. rewrite Hc in Hc0. inversion Hc0; subst c0.
      unfold registered, linearized in Hreg. rewrite Hpc in Hreg. discriminate. }
    assert (Hd : forall j, sub_at (put_req st i (set_rpc c RWritten)) j = sub_at st j).
    { intros j. rewrite (sub_at_put st i c _ j Hc). destruct (Nat.eqb j i) eqn:Hji; [|reflexivity].
      apply Nat.eqb_eq in Hji. subst j. cbn [set_rpc r_sub]. rewrite (sub_at_rec _ _ _ Hc). reflexivity. }
    constructor; simp_st.
    + apply NoDup_app_one; assumption.
    + intros j. rewrite in_app_iff. rewrite (rq_put _ _ _ _ _ Hc). destruct (Nat.eqb j i) eqn:Hji.
      * apply Nat.eqb_eq in Hji. subst j. split; [intros _|intros _; right; left; reflexivity].
        exists (set_rpc c RWritten). split; [reflexivity|]. unfold registered, linearized. cbn [set_rpc r_pc r_sub].
        rewrite Hs. reflexivity.
      * apply Nat.eqb_neq in Hji. rewrite (R2 j). split; [intros [H|[H|[]]]; [exact H | congruence] | intros H; left; exact H].
    + rewrite filter_app. cbn [filter].
      assert (Hki : keeps (set_log (set_order (set_subs (put_req st i (set_rpc c RWritten)) (g_subs st ++ [i])) (g_order st ++ [i]))
                                   (g_log st ++ [(TReq i, XSub (r_req c))])) i = true).
      { unfold keeps. simp_st.
        match goal with |- negb (ms_dropped (sub_at ?X i)) || _ = true => change (sub_at X i) with (sub_at (put_req st i (set_rpc c RWritten)) i) end.
        rewrite Hd, (sub_at_rec _ _ _ Hc). unfold sub_of_rec. rewrite Hs. reflexivity. }
      rewrite Hki. f_equal. rewrite R3. apply filter_ext_in'. intros j _. unfold keeps. simp_st.
      match goal with |- _ = negb (ms_dropped (sub_at ?X j)) || _ => change (sub_at X j) with (sub_at (put_req st i (set_rpc c RWritten)) j) end.
      rewrite Hd. reflexivity.
    + intros j cj snap Hj Hp. rewrite (rq_put _ _ _ _ _ Hc) in Hj. destruct (Nat.eqb j i) eqn:Hji.
      * inversion Hj; subst cj. cbn [set_rpc r_pc] in Hp. discriminate.
      * exfalso. apply Nat.eqb_neq in Hji. apply Hji.
        assert (Hmj : g_mutex st = Some j) by (apply (li_mutex_in _ L j cj Hj); unfold in_mutex_cs; rewrite Hp; reflexivity).
        assert (Hmi : g_mutex st = Some i) by (apply (li_mutex_in _ L i c Hc); unfold in_mutex_cs; rewrite Hpc; reflexivity).
        congruence.
    + apply (rec_put st i c); [exact Hc | | exact R5]. unfold rec_ok. cbn [set_rpc r_pc r_sub r_got r_req]. exists burst. auto.
    + unfold fan_ok. simp_st. unfold in_write_cs in Hnw. destruct (g_ppc st); try discriminate; exact I.
  - (* RWritten *)
    destruct Hrec as [burst [Hb [Hs Hg]]].
    apply (reg_put st _ i c (set_rpc c RUnlocking) R Hc); try reflexivity.
    + unfold registered, linearized. cbn [set_rpc r_pc r_sub]. rewrite Hpc. reflexivity.
    + cbn [set_rpc r_pc]. discriminate.
    + unfold rec_ok. cbn [set_rpc r_pc r_sub r_got]. exact Hg.
  - (* RUnlocking *)
    apply (reg_put st _ i c (set_rpc c RDone) R Hc); try reflexivity.
    + unfold registered, linearized. cbn [set_rpc r_pc r_sub]. rewrite Hpc. reflexivity.
    + cbn [set_rpc r_pc]. discriminate.
  - exact R.
Qed.

Lemma reg_step_cons st i : RegInv st -> RegInv (cons_step st i).
Proof.
  intros R. destruct (cons_step_cases st i) as [E|[c [s [x [q [Hc [Hpc [Hs [Hq E]]]]]]]]]; rewrite E; [exact R|]. clear E.
  assert (H : forall st', g_reqs st' = set_nth i (recv_req c s x q) (g_reqs st) -> g_ppc st' = g_ppc st ->
                          g_subs st' = g_subs st -> g_order st' = g_order st -> g_hub st' = g_hub st -> RegInv st').
  { intros st' H1 H2 H3 H4 H5. apply (reg_put st st' i c (recv_req c s x q) R Hc H1 H2 H3 H4 H5).
    - unfold registered, linearized. cbn [recv_req r_pc r_sub]. rewrite Hpc, Hs. reflexivity.
    - unfold sub_of_rec. cbn [recv_req r_sub]. rewrite Hs. reflexivity.
    - cbn [recv_req r_pc]. discriminate.
    - unfold rec_ok. cbn [recv_req r_pc]. exact I. }
  destruct (inflight st) as [[e todo]|]; [destruct (memb i todo)|]; apply H; reflexivity.
Qed.

Lemma reg_step hp st t : LockInv st -> RegInv st -> RegInv (cstep_g true hp st t).
Proof.
  intros L R. destruct t as [|i|i]; cbn [cstep_g].
  - apply reg_step_prod; assumption.
  - apply reg_step_req; assumption.
  - apply reg_step_cons; assumption.
Qed.
