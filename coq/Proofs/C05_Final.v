(* C05: blocksFromCursor for cursors that are not Undo cursors and whose block is on the head's
   segment - in particular the cursors of final-only consumers (Irreversible / New+Irreversible). *)
From Coq Require Import Sorted Permutation.
From BV Require Import Base.Prelude Model.Block Model.ForkDB Model.Forkable Model.ForkableLookups
  Model.Burst Model.Hub Spec.Consumer Spec.Universe Check.Fk_Check Check.Burst_Check
  Spec.C09_Spec Spec.C05_Spec Spec.C05_Through_Spec
  Proofs.C09_Store Proofs.C09_Segment Proofs.C09_Proofs Proofs.C05_Fast Proofs.C05_Forked Proofs.C05_Through.
Local Open Scope N_scope.

(* a predicate that holds on a lower part of a sorted list splits it *)
Lemma anti_filter_split : forall {A} (R : A -> A -> Prop) (p : A -> bool) l,
  StronglySorted R l -> (forall x y, R x y -> p y = true -> p x = true) ->
  l = filter p l ++ filter (fun x => negb (p x)) l.
Proof.
  intros A R p l HS Ha. induction HS as [|x l HS IH Hall]; [reflexivity|].
  cbn [filter]. destruct (p x) eqn:E; cbn [negb app].
  - f_equal. exact IH.
  - rewrite (filter_none p l).
    + cbn [app]. f_equal. symmetry. apply filter_all. intros y Hy.
      rewrite Forall_forall in Hall. destruct (p y) eqn:Ey; [|reflexivity].
      rewrite (Ha x y (Hall y Hy) Ey) in E. discriminate.
    + intros y Hy. rewrite Forall_forall in Hall. destruct (p y) eqn:Ey; [|reflexivity].
      rewrite (Ha x y (Hall y Hy) Ey) in E. discriminate.
Qed.

Lemma irr_events_app : forall l1 l2, irr_events (l1 ++ l2) = irr_events l1 ++ irr_events l2.
Proof. intros. unfold irr_events. apply filter_app. Qed.

Lemma irr_events_final : forall st hd l, matches_irr st = true ->
  irr_events (map (final_event st hd) l) = map (final_event st hd) l.
Proof.
  intros st hd l H. unfold irr_events. apply filter_all. intros e He.
  rewrite in_map_iff in He. destruct He as [x [<- _]]. exact H.
Qed.

Lemma irr_events_new : forall s hd l, irr_events (map (new_event s hd) l) = [].
Proof.
  intros s hd l. unfold irr_events. apply filter_none. intros e He.
  rewrite in_map_iff in He. destruct He as [x [<- _]]. reflexivity.
Qed.

Lemma map_eblk_final : forall st hd l, map eblk (map (final_event st hd) l) = map seg_blk l.
Proof. intros. rewrite map_map. reflexivity. Qed.

Lemma c05_final_only_proof : C05_final_only.
Proof.
  intros s hd sg c lo xc hi W HC Hnu Esg Hcid Hcnum Hlib held after fin rest evs.
  destruct (head_chain_good s hd sg W HC) as [G [Hstored _]].
  pose proof G as [Hstd Hlk Hinc Hnd].
  pose proof (snum_sorted sg Hstd Hinc) as HS. rewrite Esg in HS.
  destruct (StronglySorted_split _ _ _ _ HS) as [Hlo Hhi].
  assert (HShi : StronglySorted (fun x y => snum x < snum y) hi).
  { apply StronglySorted_app_r in HS. inversion HS; assumption. }
  (* below / above the cursor block *)
  assert (Hlow : forall y, In y (lo ++ [xc]) -> snum y <= rn (cu_blk c)).
  { intros y Hy. apply in_app_iff in Hy. destruct Hy as [Hy|[<-|[]]]; [specialize (Hlo y Hy)|]; lia. }
  assert (Hhigh : forall y, In y hi -> rn (cu_blk c) < snum y).
  { intros y Hy. specialize (Hhi y Hy). lia. }
  assert (Hnh_lo : forall y, In y (lo ++ [xc]) -> not_held c y = false).
  { intros y Hy. specialize (Hlow y Hy). unfold not_held, is_undo. rewrite Hnu. cbn [andb]. lia. }
  assert (Hnh_hi : forall y, In y hi -> not_held c y = true).
  { intros y Hy. specialize (Hhigh y Hy). unfold not_held. lia. }
  (* the fast path applies *)
  assert (Hbin : block_in (ri (cu_blk c)) sg = true).
  { apply block_in_spec. exists xc. split; [rewrite Esg; apply in_app_iff; right; left; reflexivity|exact Hcid]. }
  assert (Hburst : blocks_from_cursor s c = BOk (from_cursor_fast s hd sg c)).
  { destruct sg as [|s0 sg'] eqn:Es0; [destruct lo; discriminate|]. rewrite <- Es0 in *.
    destruct (lib_on_chain sg s0 sg' c G Es0 Hlib) as [Hs0 Hlin].
    pose proof HC as [Hl [Hh Eh]]. rewrite Es0 in Eh.
    rewrite (blocks_from_cursor_eq s c hd s0 sg' Hl Hh Eh Hs0). rewrite <- Es0.
    destruct (c05_fast_path_shape_proof s hd sg c G) as [_ [_ Hloop]].
    exact (Hloop (S (length (store (db s)))) Hbin Hlin). }
  destruct (c05_fast_path_shape_proof s hd sg c G) as [Hshape _].
  (* the kept elements *)
  assert (Ekeep : filter (fast_keep s c) sg = held ++ after).
  { rewrite Esg. replace (lo ++ xc :: hi) with ((lo ++ [xc]) ++ hi) by (rewrite <- app_assoc; reflexivity).
    rewrite filter_app. f_equal.
    - apply filter_ext_in. intros y Hy. unfold fast_keep. rewrite (Hnh_lo y Hy), orb_false_r. reflexivity.
    - apply filter_ext_in. intros y Hy. unfold fast_keep. rewrite (Hnh_hi y Hy), orb_true_r, andb_true_r. reflexivity. }
  assert (Eafter : after = fin ++ rest).
  { unfold fin, rest, not_final_now. apply (anti_filter_split (fun x y => snum x < snum y)).
    - unfold after. clear - HShi. induction HShi as [|x l HS IH Hall]; cbn; [constructor|].
      destruct (above_clib c x); [|exact IH]. constructor; [exact IH|].
      rewrite Forall_forall in *. intros y Hy. apply filter_In in Hy. apply Hall. tauto.
    - intros x y Hxy. unfold final_now. lia. }
  assert (Eevs : from_cursor_fast s hd sg c = evs).
  { rewrite Hshape, Ekeep, Eafter, !map_app. unfold evs. f_equal; [|f_equal].
    - apply map_ext_in. intros y Hy. unfold held in Hy. apply filter_In in Hy. destruct Hy as [Hy Hk].
      apply andb_true_iff in Hk. destruct Hk as [_ Hf].
      unfold fast_event, fast_step, final_event. rewrite Hf, (Hnh_lo y Hy). reflexivity.
    - apply map_ext_in. intros y Hy. unfold fin in Hy. apply filter_In in Hy. destruct Hy as [Hy Hf].
      unfold after in Hy. apply filter_In in Hy. destruct Hy as [Hy _].
      unfold fast_event, fast_step, final_event. rewrite Hf, (Hnh_hi y Hy). reflexivity.
    - apply map_ext_in. intros y Hy. unfold rest in Hy. apply filter_In in Hy. destruct Hy as [Hy Hf].
      unfold not_final_now in Hf. apply negb_true_iff in Hf.
      unfold fast_event, fast_step, new_event. rewrite Hf. reflexivity. }
  assert (Eirr : map eblk (irr_events evs) = map seg_blk (held ++ fin)).
  { unfold evs. rewrite !irr_events_app, !irr_events_final, irr_events_new by reflexivity.
    rewrite app_nil_r, map_app, !map_eblk_final, map_app. reflexivity. }
  split; [rewrite Hburst, Eevs; reflexivity|].
  split; [exact Eafter|]. split; [exact Eirr|].
  assert (Hafter_hi : rn (cu_lib c) <= rn (cu_blk c) -> after = hi).
  { intros Hle. unfold after. apply filter_all. intros y Hy. specialize (Hhigh y Hy). unfold above_clib. lia. }
  split; [exact Hafter_hi|].
  split.
  { intros Hle. unfold held. apply filter_ext_in. intros y Hy. specialize (Hlow y Hy).
    assert (Ef : final_now s y = true) by (unfold final_now; lia). rewrite Ef. apply andb_true_r. }
  intros Heq.
  assert (Hheld : held = []).
  { unfold held. apply filter_none. intros y Hy. specialize (Hlow y Hy).
    assert (Ea : above_clib c y = false) by (unfold above_clib; lia). rewrite Ea. reflexivity. }
  assert (Hah : after = hi) by (apply Hafter_hi; lia).
  split; [exact Hheld|].
  assert (Efin : fin = filter (final_now s) hi) by (unfold fin; rewrite Hah; reflexivity).
  split; [exact Efin|]. split.
  - rewrite Hburst, Eevs. unfold evs. rewrite Hheld. cbn [map app]. unfold rest. rewrite Hah. reflexivity.
  - rewrite Eirr, Hheld, Efin. reflexivity.
Qed.
