(* C12 — EternalSource: invariants over all schedules, termination after Shutdown (fixed code),
   the hang of the unfixed code, restart point. *)
From BV Require Import Base.Prelude Model.Lifecycle Proofs.C12_Sched.
Import Et.

Definition in_src (p : pc) : bool :=
  match p with PRun | PInH _ _ | PWait => true | _ => false end.
Definition cb_ran (x : option sdstage) : bool :=
  match x with Some STerm | Some SDone => true | _ => false end.
Definition closed (x : option sdstage) : bool :=
  match x with Some SCb | Some STerm | Some SDone => true | _ => false end.

(* invariant of the fixed code *)
Definition Inv (s : state) : Prop :=
  terminating s = closed (xs s) /\
  terminated s = sd_done s /\
  (in_src (pcr s) = true -> cur_is_src s = true) /\
  (cb_ran (xs s) = true -> cur_is_src s = true -> src_term s = true).

Lemma inv_init : forall sup, Inv (init sup).
Proof. intros sup. unfold Inv, init; simpl. repeat split; intros; discriminate. Qed.

Ltac split_ifs :=
  repeat match goal with
  | |- context [if ?b then _ else _] => destruct b eqn:?; simpl
  | |- context [match ?x with _ => _ end] => destruct x eqn:?; simpl
  end.
Ltac fin := repeat split; intros; simpl in *; subst; try discriminate; try congruence; auto.

Lemma inv_step : forall s t, Inv s -> Inv (step true s t).
Proof.
  intros s t (I1 & I2 & I3 & I4).
  destruct s as [p x tg td n cis st sc sup la lg hb]; simpl in *.
  destruct t; simpl.
  - unfold step_run, shut_src, emit, set_pc, set_script, Inv, sd_done; simpl.
    destruct p; simpl; split_ifs; fin.
    all: destruct x as [[]|]; simpl in *; fin.
  - unfold step_x, shut_src, set_xs, Inv, sd_done; simpl.
    destruct x as [[]|]; simpl; split_ifs; fin.
Qed.

Lemma inv_run : forall sup sched, Inv (run (step true) sched (init sup)).
Proof. intros. apply (run_inv (step true) Inv inv_step). apply inv_init. Qed.

(* ------------------------------------------------------------ termination after Shutdown *)
Definition rank_run (s : state) : nat :=
  match pcr s with
  | PCheck => 1 | PFactory => 2 | PAssign => 1
  | PRun => 2 * length (script s) + 4
  | PInH _ _ => 2 * length (script s) + 5
  | PWait => 3 | PSleep => 2 | PRet => 0
  end.
Definition rank_x (s : state) : nat :=
  match xs s with None => 4 | Some g => sd_rank g end.
Definition rank (s : state) : nat := rank_run s + rank_x s.

(* phase in which the ranking argument holds: the terminating channel is closed *)
Definition Ph (s : state) : Prop := Inv s /\ terminating s = true.

Lemma ph_step : forall s t, Ph s -> Ph (step true s t).
Proof.
  intros s t [Hi Ht]. split; [apply inv_step; exact Hi|].
  destruct s as [p x tg td n cis st sc sup la lg hb]; simpl in *. rewrite Ht in *.
  destruct t; simpl.
  - unfold step_run, shut_src, emit, set_pc, set_script; simpl.
    destruct p; simpl; auto.
    + destruct st; auto.
    + destruct st; simpl; auto. destruct sc as [|[b ok|] r]; simpl; auto.
    + destruct ok; simpl; auto. destruct st; auto.
    + destruct st; auto.
  - unfold step_x, shut_src, set_xs; simpl.
    destruct x as [[]|]; simpl; auto. destruct cis; simpl; auto. destruct st; auto.
Qed.

Lemma rank_step : forall s t, Ph s -> step true s t = s \/ rank (step true s t) < rank s.
Proof.
  intros s t [(I1 & I2 & I3 & I4) Ht].
  destruct s as [p x tg td n cis st sc sup la lg hb]; simpl in *. rewrite Ht in *.
  destruct t; simpl.
  - unfold step_run, shut_src, emit, set_pc, set_script, rank, rank_run, rank_x; simpl.
    destruct p; simpl.
    + right; lia.
    + right; lia.
    + right. destruct st; simpl; lia.
    + destruct st; simpl; [right; lia|].
      destruct sc as [|[b ok|] r]; simpl; [left; reflexivity | right; lia | right; lia].
    + right. destruct ok; simpl; [lia|]. destruct st; simpl; lia.
    + destruct st; simpl; [right; lia | left; reflexivity].
    + right; lia.
    + left; reflexivity.
  - unfold step_x, shut_src, set_xs, rank, rank_run, rank_x; simpl.
    destruct x as [[]|]; simpl in *; try discriminate.
    + right. destruct cis; simpl; [destruct st; simpl|]; lia.
    + right; lia.
    + left; reflexivity.
Qed.

Lemma neq_by_pc : forall s s', pcr s' <> pcr s -> s' <> s.
Proof. intros s s' H E. apply H. rewrite E. reflexivity. Qed.
Lemma neq_by_xs : forall s s', xs s' <> xs s -> s' <> s.
Proof. intros s s' H E. apply H. rewrite E. reflexivity. Qed.

Lemma progress : forall s, Ph s -> done s = false -> exists t, step true s t <> s.
Proof.
  intros s [(I1 & I2 & I3 & I4) Ht] Hd.
  destruct s as [p x tg td n cis st sc sup la lg hb]; unfold done, returned, sd_done in *; simpl in *. rewrite Ht in *.
  destruct x as [[]|]; simpl in *; try discriminate.
  - exists TX. apply neq_by_xs; simpl. unfold step_x; simpl. destruct cis; [destruct st|]; simpl; discriminate.
  - exists TX. apply neq_by_xs; simpl. discriminate.
  - (* the Shutdown call is complete: the Run thread itself is enabled *)
    exists TRun. subst td. rewrite andb_true_r in Hd.
    apply neq_by_pc; simpl. unfold step_run, shut_src, emit, set_pc, set_script; simpl.
    destruct p; simpl; try discriminate.
    + rewrite (I4 eq_refl (I3 eq_refl)). simpl. discriminate.
    + destruct ok; simpl; [discriminate|]. destruct st; simpl; discriminate.
    + rewrite (I4 eq_refl (I3 eq_refl)). simpl. discriminate.
Qed.

Lemma done_step : forall s t, Ph s -> done s = true -> done (step true s t) = true.
Proof.
  intros s t _ Hd.
  destruct s as [p x tg td n cis st sc sup la lg hb]; unfold done, returned in *; simpl in *.
  apply andb_prop in Hd. destruct Hd as [Hp Htd]. destruct p; try discriminate. subst td.
  destruct t; simpl; [reflexivity|].
  unfold step_x, shut_src, set_xs; simpl.
  destruct x as [[]|]; simpl; auto. destruct cis; simpl; auto. destruct st; auto.
Qed.

Theorem et_fair_termination : forall sup sched0 sched,
  let s := run (step true) sched0 (init sup) in
  terminating s = true ->
  fair_rounds (step true) (rank s) s sched ->
  done (run (step true) sched s) = true.
Proof.
  intros sup sched0 sched s Ht Hf.
  apply (fair_termination (step true) Ph rank done ph_step rank_step progress done_step (rank s) s sched);
    [split; [apply inv_run | exact Ht] | apply le_n | exact Hf].
Qed.

(* the Shutdown call, once made, always gets to close the terminating channel: its steps are never disabled *)
Theorem et_closing : forall fx s, xs s <> Some SDone -> step fx s TX <> s.
Proof.
  intros fx s H. apply neq_by_xs. simpl. unfold step_x.
  destruct s as [p x tg td n cis st sc sup la lg hb]; simpl in *.
  destruct x as [[]|]; simpl; try discriminate; try congruence.
Qed.
Theorem et_close_step : forall fx s, xs s = Some SClose -> terminating (step fx s TX) = true.
Proof. intros fx s H. simpl. unfold step_x. rewrite H. reflexivity. Qed.

(* no reachable state in which the Shutdown call is complete and Run's thread is blocked *)
Theorem et_no_deadlock : forall sup sched,
  let s := run (step true) sched (init sup) in
  sd_done s = true -> returned s = false -> step true s TRun <> s.
Proof.
  intros sup sched s Hsd Hr. pose proof (inv_run sup sched) as Hi. fold s in Hi.
  destruct Hi as (I1 & I2 & I3 & I4).
  destruct s as [p x tg td n cis st sc sup' la lg hb]; unfold sd_done, returned in *; simpl in *.
  destruct x as [[]|]; try discriminate. simpl in *.
  apply neq_by_pc; simpl. unfold step_run, shut_src, emit, set_pc, set_script; simpl. subst tg.
  destruct p; simpl; try discriminate.
  - rewrite (I4 eq_refl (I3 eq_refl)). simpl. discriminate.
  - destruct ok; simpl; [discriminate|]. destruct st; simpl; discriminate.
  - rewrite (I4 eq_refl (I3 eq_refl)). simpl. discriminate.
Qed.

(* ------------------------------------------------------------ the unfixed code hangs *)
(* Shutdown runs to completion while Run is between the termination check and the assignment
   of currentSource: the new inner source is never stopped, Run is blocked for ever *)
Definition hang_sched : list tid := [TRun; TX; TX; TX; TX; TRun; TRun].

Theorem et_unfixed_hangs :
  let s := run (step false) hang_sched (init []) in
  sd_done s = true /\ terminated s = true /\ returned s = false /\ forall t, step false s t = s.
Proof. vm_compute. repeat split; auto. intros []; reflexivity. Qed.

(* the same schedule on the fixed code: Run has returned *)
Example et_fixed_same_schedule : done (run (step true) hang_sched (init [])) = true.
Proof. vm_compute. reflexivity. Qed.

(* ------------------------------------------------------------ no handler call after Run returned *)
Lemma returned_step : forall fx s t, returned s = true ->
  returned (step fx s t) = true /\ hbegun (step fx s t) = hbegun s.
Proof.
  intros fx s t H. destruct s as [p x tg td n cis st sc sup la lg hb]; unfold returned in *; simpl in *.
  destruct p; try discriminate. destruct t; simpl; auto.
  unfold step_x, shut_src, set_xs; simpl.
  destruct x as [[]|]; simpl; auto. destruct cis; simpl; auto. destruct st; auto.
Qed.

Theorem et_no_call_after : forall fx sched s, returned s = true ->
  hbegun (run (step fx) sched s) = hbegun s /\ returned (run (step fx) sched s) = true.
Proof.
  intros fx sched. induction sched as [|t sched IH]; intros s H; [auto|].
  rewrite run_cons. destruct (returned_step fx s t H) as [Hr Hh].
  destruct (IH _ Hr) as [A B]. split; [congruence | exact B].
Qed.

(* ------------------------------------------------------------ restart point *)
(* newest-first log: block of the most recent accepted handler call, 0 = BlockRefEmpty *)
Fixpoint last_accepted (l : list ev) : nat :=
  match l with
  | [] => 0
  | EHEnd _ b true :: _ => b
  | _ :: l' => last_accepted l'
  end.
Fixpoint restarts_ok (l : list ev) : bool :=
  match l with
  | [] => true
  | EFactory _ r :: l' => Nat.eqb r (last_accepted l') && restarts_ok l'
  | _ :: l' => restarts_ok l'
  end.

Definition RInv (s : state) : Prop := last s = last_accepted (log s) /\ restarts_ok (log s) = true.

Lemma rinv_step : forall fx s t, RInv s -> RInv (step fx s t).
Proof.
  intros fx s t [H1 H2].
  destruct s as [p x tg td n cis st sc sup la lg hb]; unfold RInv in *; simpl in *.
  destruct t; simpl.
  - unfold step_run, shut_src, emit, set_pc, set_script; simpl.
    destruct p; simpl.
    + destruct tg; simpl; auto.
    + simpl. subst la. rewrite Nat.eqb_refl. simpl. auto.
    + destruct (fx && tg); simpl; auto. destruct st; simpl; auto.
    + destruct st; simpl; auto. destruct sc as [|[b ok|] r]; simpl; auto.
    + destruct ok; simpl; auto. destruct st; simpl; auto.
    + destruct st; simpl; auto.
    + auto.
    + auto.
  - unfold step_x, shut_src, set_xs; simpl.
    destruct x as [[]|]; simpl; auto. destruct cis; simpl; auto. destruct st; simpl; auto.
Qed.

Lemma rinv_run : forall fx sup sched, RInv (run (step fx) sched (init sup)).
Proof. intros. apply (run_inv (step fx) RInv (rinv_step fx)). split; reflexivity. Qed.

(* chronological reading: whenever the factory is called, it is given the last block accepted before *)
Lemma restarts_ok_split : forall l post r pre sl,
  restarts_ok l = true -> l = post ++ EFactory sl r :: pre -> r = last_accepted pre.
Proof.
  induction l as [|e l IH]; intros post r pre sl H E.
  - destruct post; discriminate.
  - destruct post as [|e' post]; simpl in E; inversion E; subst.
    + simpl in H. apply andb_prop in H. destruct H as [H _]. apply Nat.eqb_eq in H. exact H.
    + apply (IH post r pre sl); [|reflexivity].
      destruct e'; simpl in H; auto. apply andb_prop in H. tauto.
Qed.

Theorem et_restart_point : forall fx sup sched post r pre sl,
  log (run (step fx) sched (init sup)) = post ++ EFactory sl r :: pre -> r = last_accepted pre.
Proof.
  intros fx sup sched post r pre sl E.
  destruct (rinv_run fx sup sched) as [_ H]. eapply restarts_ok_split; eauto.
Qed.
