(* C07_seamless_full of Spec/C07_Spec.v does not hold in the model: a world that meets chain_ok and hub_agrees
   whose run ends waiting for the next merged file (the schedule lets the hub, retention 0, run away from the
   files before the join): the stream has delivered the merged blocks, not all of canon.  Executable form of
   hub_agrees: a burst for a number is determined by the segment element that carries the number. *)
From BV Require Import Base.Prelude Model.Block Model.ForkDB Model.Forkable Model.ForkableLookups Model.Burst Model.Hub
  Model.CursorResolver Model.Joining
  Spec.Consumer Spec.Universe Check.Burst_Check Check.C07_Check Spec.C06_Spec Spec.C07_Spec Spec.C09_Spec Spec.C07_Compose_Spec Spec.C07_Unfixed_Spec
  Proofs.C09_Proofs Proofs.C09_Invariant Proofs.C07_Live Proofs.C07_ComposeCheck.
Local Open Scope N_scope.

(* every burst of state s for a number: P n evs *)
Definition bursts_b (s : fstate) (P : N -> list event -> bool) : bool :=
  if negb (has_lib (db s)) then true else
  match last_sent s with
  | None => true
  | Some hd =>
      match complete_segment (db s) (bref hd) with
      | Some (sg, true) =>
          forallb (fun x => match fn_go (libref (db s)) (bref hd) (snum x) sg false with
                            | [] => true | evs => P (snum x) evs end) sg
      | Some (_, false) => true
      | None => false
      end
  end.

Lemma bursts_b_sound s P : bursts_b s P = true ->
  forall n evs, blocks_from_num s n = BOk evs -> P n evs = true.
Proof.
  unfold bursts_b. intros H n evs. rewrite blocks_from_num_eq.
  destruct (negb (has_lib (db s))); [discriminate|].
  destruct (last_sent s) as [hd|]; [|discriminate].
  destruct (complete_segment (db s) (bref hd)) as [[sg [|]]|]; try discriminate.
  destruct (split_first n sg) as [(pre & x & suf & Esg & Hx & _)|Hnone].
  - rewrite forallb_forall in H. specialize (H x). rewrite Hx in H.
    assert (Hin : In x sg) by (rewrite Esg; apply in_or_app; right; left; reflexivity).
    specialize (H Hin). destruct (fn_go (libref (db s)) (bref hd) n sg false) as [|e l]; [discriminate|].
    intros E. injection E as <-. exact H.
  - rewrite (fn_go_none s hd n sg Hnone). discriminate.
Qed.

Definition memb (b : block) (l : list block) : bool := existsb (block_eqb b) l.
Lemma memb_in b l : memb b l = true -> In b l.
Proof. unfold memb. intros H. apply existsb_exists in H as (x & Hx & E). apply block_eqb_eq in E. subst x. exact Hx. Qed.

Definition hub_agrees_b (c : jcfg) (w : world) (canon : list block) (merged_end : N) : bool :=
  (hub_lowest (w_hub w) <=? merged_end) &&
  forallb (fun k => bursts_b (h_f (w_hub (world_after c k w)))
                      (fun _ evs => forallb (fun e => negb (step_eqb (estep e) SNewIrr) || memb (eblk e) canon) evs))
          (seq 0 (S (length (w_rest w)))) &&
  bursts_b (h_f (w_hub (world_after c (length (w_rest w)) w)))
           (fun n evs => list_eqb block_eqb (map eblk evs) (from_num n canon)).

Lemma list_eqb_block_eq : forall l1 l2, list_eqb block_eqb l1 l2 = true -> l1 = l2.
Proof.
  induction l1 as [|a l1 IH]; intros [|b l2] H; try discriminate; [reflexivity|].
  cbn [list_eqb] in H. apply andb_true_iff in H as [H1 H2]. apply block_eqb_eq in H1. subst b. f_equal. apply IH. exact H2.
Qed.

Lemma hub_agrees_b_sound c w canon merged_end : hub_agrees_b c w canon merged_end = true -> hub_agrees c w canon merged_end.
Proof.
  unfold hub_agrees_b. intros H. apply andb_true_iff in H as [H H3]. apply andb_true_iff in H as [H1 H2].
  split; [apply N.leb_le; exact H1|]. split.
  - intros k n evs Hb e He Hs. change (fst (push_n c k w)) with (world_after c k w) in Hb.
    rewrite (world_after_min c k w) in Hb. rewrite forallb_forall in H2.
    assert (Hin : In (Nat.min k (length (w_rest w))) (seq 0 (S (length (w_rest w))))) by (apply in_seq; lia).
    pose proof (bursts_b_sound _ _ (H2 _ Hin) n evs Hb) as HP. rewrite forallb_forall in HP. specialize (HP e He).
    rewrite Hs in HP. cbn in HP. apply memb_in. exact HP.
  - intros n evs Hb. change (fst (push_n c (length (w_rest w)) w)) with (world_after c (length (w_rest w)) w) in Hb.
    apply list_eqb_block_eq. exact (bursts_b_sound _ _ H3 n evs Hb).
Qed.

(* ------------------------------------------------------------------ the counterexample *)

Definition rf_b (n : N) : block := mkBlock n n (n - 1) (n - 2).
Definition rf_canon : list block := map rf_b [2;3;4;5;6;7;8;9;10;11;12;13;14;15;16;17;18;19;20].
Definition rf_c : jcfg := mkJ 2 0 10 0 5 None 0 0 0.
Definition rf_w : world :=
  mkW (hub_run 2 0 hub_init [(rf_b 15, PBlocks [rf_b 12; rf_b 13; rf_b 14])]) (map rf_b [16; 17; 18; 19; 20]).

Lemma c07_seamless_full_refuted_proof : ~ C07_seamless_full.
Proof.
  intros H.
  assert (Hchain : chain_ok rf_canon).
  { split.
    - vm_compute. repeat split.
    - apply (NoDup_map_inv (fun x => x)). rewrite map_id. vm_compute.
      repeat (constructor; [cbn; intros K; repeat (destruct K as [K|K]; [discriminate|]); exact K|]). constructor. }
  assert (Hagr : hub_agrees rf_c rf_w rf_canon 15) by (apply hub_agrees_b_sound; vm_compute; reflexivity).
  pose proof (H rf_c rf_w [(3, 5)] 15 rf_canon [] Hchain Hagr eq_refl eq_refl) as H0. cbv zeta in H0.
  remember (stream_run rf_c rf_w [(3, 5)] 15 (filter (fun b => bnum b <? 15) rf_canon) []) as r eqn:Er.
  remember (abs_start (j_first rf_c) (j_start rf_c)
              match hub_head (w_hub rf_w) with Some (r0, _) => rn r0 | None => 0 end) as st eqn:Est.
  assert (Hst : st = 5) by (rewrite Est; vm_compute; reflexivity).
  assert (Hres : r = (map (file_event SNewIrr) (map rf_b [5;6;7;8;9;10;11;12;13;14]), JNil)) by (rewrite Er; vm_compute; reflexivity).
  clear Er Est. subst st r. destruct H0 as [Hnum _].
  destruct (Hnum (or_introl eq_refl)) as (c' & Hfold & Hfin).
  { exists (rf_b 5). split; [vm_compute; tauto | reflexivity]. }
  cbn [fst snd] in Hfold, Hfin.
  assert (Ec : cons_fold_aside cons0 (map as_new (map (file_event SNewIrr) (map rf_b [5;6;7;8;9;10;11;12;13;14])))
               = Some (mkCons (rev (map rf_b [5;6;7;8;9;10;11;12;13;14])) 0 false)) by (vm_compute; reflexivity).
  rewrite Ec in Hfold. injection Hfold as <-. specialize (Hfin eq_refl). vm_compute in Hfin. discriminate.
Qed.

(* ------------------------------------------------------------------ the join by block number (before the fix) *)

Definition na_b (n : N) : block := mkBlock n n (n - 1) (n - 2).
Definition na_f14 : block := mkBlock 114 14 13 12.
Definition na_f15 : block := mkBlock 115 15 114 13.
Definition na_canon : list block := map na_b [2;3;4;5;6;7;8;9;10;11;12;13;14;15;16;17;18;19;20].
Definition na_U : list block := na_canon ++ [na_f14; na_f15].
Definition na_c : jcfg := mkJ 2 5 10 0 5 None 0 0 0.
Definition na_w : world :=
  mkW (hub_run 2 5 hub_init []) ([na_b 12; na_b 13; na_f14; na_f15] ++ map na_b [14;15;16;17;18;19;20]).

Lemma c07_join_by_number_refuted_proof : C07_join_by_number_refuted.
Proof.
  exists na_U, na_c, na_w, [(10, 4)], 16, na_canon, [].
  split; [vm_compute; reflexivity|]. split; [vm_compute; reflexivity|].
  split.
  { split.
    - exists []. split; [intros b p []|reflexivity].
    - intros b Hb. vm_compute in Hb. vm_compute. tauto. }
  split.
  { split.
    - vm_compute. repeat split.
    - apply (NoDup_map_inv (fun x => x)). rewrite map_id. vm_compute.
      repeat (constructor; [cbn; intros K; repeat (destruct K as [K|K]; [discriminate|]); exact K|]). constructor. }
  split; [intros b Hb; unfold na_U; apply in_or_app; left; exact Hb|].
  split; [apply eventual_tip_b_sound; vm_compute; reflexivity|].
  split; [reflexivity|]. split; [reflexivity|]. split; [reflexivity|]. split; [reflexivity|].
  split.
  { apply Forall_forall. intros b Hb.
    assert (H : forallb (fun b => bnum b <? file_bound) (filter (fun b => bnum b <? 16) na_canon) = true) by (vm_compute; reflexivity).
    rewrite forallb_forall in H. apply N.ltb_lt. apply H. exact Hb. }
  split; [exists (na_b 5); split; [vm_compute; tauto | vm_compute; reflexivity]|].
  split; [vm_compute; reflexivity|].
  intros E. apply (f_equal (fun x => length (fst x))) in E. vm_compute in E. discriminate.
Qed.
