(* C07 composition, part 3: stream_run in number mode (default filter, no stop block) over a world whose
   hub is a state of a hub run over a universe of the Forkable class: file phase, join, live phase. *)
From Coq Require Import Sorted.
From BV Require Import Base.Prelude Model.Block Model.ForkDB Model.Forkable Model.ForkableLookups Model.Burst Model.Hub
  Model.CursorResolver Model.Joining
  Spec.Consumer Spec.Universe Check.Fk_Check Check.Burst_Check Check.C07_Check
  Spec.C09_Spec Spec.C05_Spec Spec.C06_Spec Spec.C07_Spec Spec.C13_Spec Spec.C07_Compose_Spec
  Spec.C01_Spec Spec.C01_Moving_Spec Spec.C01_Roots_Spec
  Proofs.C09_Store Proofs.C09_Segment Proofs.C09_Proofs
  Proofs.Fk.LoopFacts Proofs.Fk.MovingLibDisc Proofs.C02_Proofs Proofs.C01_Roots_Proofs
  Proofs.Hub.ConsFacts Proofs.Hub.HubFed Proofs.Hub.LinkedRuns Proofs.Hub.C09_History
  Proofs.C07_File Proofs.C07_Live Proofs.C13_Proofs
  Proofs.C07_ComposeStack Proofs.C07_ComposeHub.
Local Open Scope N_scope.

Notation fev := (file_event SNewIrr).

(* ------------------------------------------------------------------ small facts *)

Lemma world_after_add c a b w : world_after c b (world_after c a w) = world_after c (a + b) w.
Proof. unfold world_after. rewrite push_n_add. reflexivity. Qed.

Lemma world_after_0 c w : world_after c 0 w = w.
Proof. reflexivity. Qed.

Lemma map_eblk_fev l : map eblk (map fev l) = l.
Proof. induction l as [|b l IH]; [reflexivity|]. cbn [map]. rewrite IH. reflexivity. Qed.

Lemma fev_new l : Forall (fun e => matches_new (estep e) = true) (map fev l).
Proof. apply Forall_forall. intros e He. apply in_map_iff in He as (b & <- & _). reflexivity. Qed.

(* pushes only *)
Lemma sfold_pushes : forall evs st,
  Forall (fun e => matches_new (estep e) = true) evs ->
  match st with top :: _ => lnk (bid top) (map eblk evs) | [] => exists x, lnk x (map eblk evs) end ->
  sfold st evs = Some (rev (map eblk evs) ++ st).
Proof.
  induction evs as [|e evs IH]; intros st Hs Hl; [reflexivity|].
  pose proof (Forall_inv Hs) as He. cbn beta in He. cbn [sfold map rev]. unfold sapply.
  assert (Hgo : forall st', st' = eblk e :: st -> lnk (bid (eblk e)) (map eblk evs) ->
            sfold st' evs = Some ((rev (map eblk evs) ++ [eblk e]) ++ st)).
  { intros st' -> Hl'. rewrite (IH (eblk e :: st) (Forall_inv_tail Hs) Hl'), <- app_assoc. reflexivity. }
  destruct st as [|top st0].
  - destruct Hl as [x Hl]. cbn [map lnk] in Hl. destruct Hl as [_ Hl].
    destruct (estep e); try discriminate; apply Hgo; auto.
  - cbn [map lnk] in Hl. destruct Hl as [Hp Hl]. rewrite Hp, N.eqb_refl.
    destruct (estep e); try discriminate; apply Hgo; auto.
Qed.

Section Run.
  Variable U : list block.
  Variable c : jcfg.
  Variable canon : list block.
  Variable start : N.

  Hypothesis U_id : forall b, In b U -> bid b <> 0 /\ bid b <> bparent b.
  Hypothesis U_uniq : forall x y, In x U -> In y U -> bid x = bid y -> x = y.
  Hypothesis U_up : forall x y, In x U -> In y U -> bparent x = bid y -> bnum y < bnum x.
  Hypothesis D_decl : forall b, In b U -> decl_none U b.

  Hypothesis Hfilter : j_filter c = 0.
  Hypothesis Hstop : j_stop c = 0.

  Hypothesis Hcanon_U : Forall (fun x => In x U) canon.
  Hypothesis Hcanon_l : exists x, lnk x canon.
  Hypothesis Hcanon_start : exists b, In b canon /\ bnum b <= start.

  Let first := j_first c.
  Let kept := j_kept c.

  (* ---------------------------------------------------------------- the handler chain *)

  Lemma chain_default e : Joining.chain c e = (nu_ev e, false).
  Proof.
    unfold Joining.chain, filter_pass, nu_ev. rewrite Hfilter, Hstop. cbn [N.eqb negb andb].
    destruct (matches_new (estep e) || matches_undo (estep e)); reflexivity.
  Qed.

  Lemma delivered_nu l : delivered c l = filter nu_ev l.
  Proof.
    unfold delivered. apply filter_ext. intros e. rewrite chain_default. reflexivity.
  Qed.

  Lemma no_stops l : snd (upto_stop c l) = false.
  Proof.
    induction l as [|e l IH]; [reflexivity|]. cbn [upto_stop]. unfold stops. rewrite chain_default. cbn [snd]. exact IH.
  Qed.

  (* ---------------------------------------------------------------- the world *)

  Definition WOK (w : world) : Prop :=
    hub_ok U first kept (w_hub w) /\ (forall b, In b (w_rest w) -> In b U).

  Lemma wok_push_one w : WOK w -> WOK (fst (push_one c w)).
  Proof.
    intros [Hh Hr]. unfold push_one. destruct (w_rest w) as [|b r] eqn:Er; [split; [exact Hh | cbn [fst]; rewrite Er; exact Hr]|].
    fold first kept. destruct (hub_live first kept (w_hub w) (PBlocks []) b) as [[h' evs] res] eqn:E. cbn [fst].
    split; cbn [w_hub w_rest].
    - apply (hub_live_ok U first kept U_id U_uniq U_up D_decl (w_hub w) (PBlocks []) b h' evs res Hh); [|intros x []|exact E].
      apply Hr. left. reflexivity.
    - intros x Hx. apply Hr. right. exact Hx.
  Qed.

  Lemma wok_after k : forall w, WOK w -> WOK (world_after c k w).
  Proof.
    unfold world_after. induction k as [|k IH]; intros w H; [exact H|].
    cbn [push_n]. pose proof (wok_push_one w H) as H1. destruct (push_one c w) as [w1 e1]. cbn [fst] in H1.
    specialize (IH w1 H1). destruct (push_n c k w1) as [w2 e2]. exact IH.
  Qed.

  Lemma pauses_after count ps w : exists m, snd (fst (apply_pauses c count ps w)) = world_after c m w.
  Proof. destruct (apply_pauses_push c count ps w) as (m & E & _). exists m. symmetry. exact E. Qed.

  (* the hypotheses about the future are hypotheses about every later world *)
  Lemma tip_after w m : eventual_tip c w canon -> eventual_tip c (world_after c m w) canon.
  Proof. intros H k hd. rewrite world_after_add. apply H. Qed.

  Lemma agree_after w m merged : files_agree c w merged -> files_agree c (world_after c m w) merged.
  Proof. intros H k hd sg x b. rewrite world_after_add. apply H. Qed.

  (* ---------------------------------------------------------------- the live hub *)

  Definition LOK (w : world) (V : list block) : Prop :=
    h_ready (w_hub w) = true /\ VState U first kept (h_f (w_hub w)) V /\ (forall b, In b (w_rest w) -> In b U).

  Definition newsU (l : list event) : Prop := Forall (fun e => matches_new (estep e) = true -> In (eblk e) U) l.

  Lemma lok_push_one w V : LOK w V ->
    exists V', LOK (fst (push_one c w)) V' /\ vfold V (snd (push_one c w)) = Some V' /\ newsU (snd (push_one c w)).
  Proof.
    intros (Hrd & HV & Hr). unfold push_one. destruct (w_rest w) as [|b r] eqn:Er.
    - exists V. split; [split; [exact Hrd | split; [exact HV | cbn [fst]; rewrite Er; exact Hr]]|]. split; [reflexivity | constructor].
    - destruct (vstate_step U first kept U_id U_uniq U_up D_decl (h_f (w_hub w)) V b HV (Hr b (or_introl eq_refl)))
        as (s' & evs & V' & Hstep & HV' & Hvf & HnU).
      unfold hub_live. fold first kept. rewrite Hrd, Hstep. cbn [fst snd].
      exists V'. split; [|split; [exact Hvf | exact HnU]].
      split; [reflexivity|]. split; [exact HV'|]. cbn [w_rest]. intros x Hx. apply Hr. right. exact Hx.
  Qed.

  Lemma lok_push_n k : forall w V, LOK w V ->
    exists V', LOK (world_after c k w) V' /\ vfold V (pushed c k w) = Some V' /\ newsU (pushed c k w).
  Proof.
    unfold world_after, pushed. induction k as [|k IH]; intros w V H.
    - exists V. split; [exact H|]. split; [reflexivity | constructor].
    - cbn [push_n]. destruct (lok_push_one w V H) as (V1 & H1 & Hv1 & Hn1).
      destruct (push_one c w) as [w1 e1]. cbn [fst snd] in *.
      destruct (IH w1 V1 H1) as (V2 & H2 & Hv2 & Hn2).
      destruct (push_n c k w1) as [w2 e2]. cbn [fst snd] in *.
      exists V2. split; [exact H2|]. split; [rewrite vfold_app, Hv1; exact Hv2 | apply Forall_app; split; assumption].
  Qed.

  (* the live phase from a queue the joined consumer has yet to receive: J1 = its stack once it has; the
     reference stack may be continued downwards by E (blocks the hub retains under its discovered LIB) *)
  Lemma live_run_below fuel w V E queue count ps J0 out Jout J1 :
    LOK w V -> eventual_tip c w canon ->
    sfold J0 out = Some Jout -> sfold Jout queue = Some J1 -> Rel U start (V ++ E) J1 ->
    let res := live_phase fuel c w queue count ps out in
    exists st, sfold J0 (fst res) = Some st /\
               (snd res = JNil -> from_num start (rev st) = from_num start canon).
  Proof.
    intros HL Htip Hout Hq HR res.
    destruct (live_fifo fuel c w queue count ps out) as (k & Hk). fold res in Hk.
    destruct (lok_push_n k w V HL) as (Vk & HLk & Hvk & Hnk).
    pose proof (vfold_below E _ _ _ Hvk) as Hvk'.
    destruct (rel_fold U U_id U_uniq U_up start (pushed c k w) (V ++ E) J1 (Vk ++ E) HR Hvk' Hnk) as (Jk & HJk & HRk).
    assert (Hall : sfold Jout (queue ++ pushed c k w) = Some Jk) by (rewrite sfold_app, Hq; exact HJk).
    unfold live_ok in Hk. destruct (snd res) eqn:Er.
    - destruct Hk as (Ha & _ & Ho). exists Jk. split.
      + rewrite Ho, sfold_app, Hout, delivered_nu, sfold_filter. exact Hall.
      + intros _. destruct HLk as (_ & HVk & _).
        destruct (vstate_facts U first kept U_id U_uniq U_up (h_f (w_hub (world_after c k w))) Vk HVk)
          as (HVkne & _ & _ & hd & Hls & Hhd).
        destruct (Htip k hd Ha Hls) as [pre Hcan].
        assert (Hhd' : hd_error (Vk ++ E) = Some hd) by (destruct Vk; [contradiction | exact Hhd]).
        exact (rel_final U U_id U_uniq U_up start (Vk ++ E) Jk canon pre hd HRk Hhd' Hcan Hcanon_U Hcanon_l Hcanon_start).
    - destruct Hk as (Hst & _). rewrite no_stops in Hst. discriminate.
    - contradiction.
    - contradiction.
    - destruct Hk as (S1 & S2 & HS & _ & Ho). rewrite HS in Hall.
      destruct (sfold_prefix S1 S2 Jout Jk Hall) as [st1 Hst1]. exists st1. split; [|discriminate].
      rewrite Ho, sfold_app, Hout, delivered_nu, sfold_filter. exact Hst1.
  Qed.

  Lemma live_run fuel w V queue count ps J0 out Jout J1 :
    LOK w V -> eventual_tip c w canon ->
    sfold J0 out = Some Jout -> sfold Jout queue = Some J1 -> Rel U start V J1 ->
    let res := live_phase fuel c w queue count ps out in
    exists st, sfold J0 (fst res) = Some st /\
               (snd res = JNil -> from_num start (rev st) = from_num start canon).
  Proof.
    intros HL Htip Hout Hq HR. apply (live_run_below fuel w V [] queue count ps J0 out Jout J1 HL Htip Hout Hq).
    rewrite app_nil_r. exact HR.
  Qed.

  (* ---------------------------------------------------------------- the burst for a block number *)

  Lemma burst_shape s V n evs : VState U first kept s V -> blocks_from_num s n = BOk evs ->
    exists hd sg x suf l,
      last_sent s = Some hd /\ hd_error V = Some hd /\
      complete_segment (db s) (bref hd) = Some (sg, true) /\ In x sg /\ bnum (seg_blk x) = n /\
      map eblk evs = seg_blk x :: map seg_blk suf /\
      Forall (fun e => matches_new (estep e) = true) evs /\
      Forall (fun y => In y U) (seg_blk x :: map seg_blk suf) /\
      lnk (bid (seg_blk x)) (map seg_blk suf) /\
      seg_blk x :: map seg_blk suf = l ++ [hd].
  Proof.
    intros HV Hb.
    destruct (vstate_facts U first kept U_id U_uniq U_up s V HV) as (_ & _ & W & hd & Hls & Hhd).
    pose proof (c09_from_num_proof s n W) as Hspec. unfold from_num_spec in Hspec. rewrite Hb in Hspec.
    destruct Hspec as (hd' & sg & pre & x & suf & (_ & Hls' & Eseg & Hsg & Hnx & _ & _) & Hevs & _).
    rewrite Hls in Hls'. injection Hls' as <-.
    destruct (vstate_segment U first kept U_id U_uniq U_up s V hd sg true HV Hls Eseg) as (Hgood & HsU & pre' & z & Hsg' & Hz).
    destruct (good_seg_split sg pre x suf Hgood Hsg) as (_ & _ & Hstd & Hlk).
    assert (Hxin : In x sg) by (rewrite Hsg; apply in_or_app; right; left; reflexivity).
    assert (HsufU : Forall (fun y => In y U) (map seg_blk (x :: suf))).
    { apply Forall_forall. intros y Hy. apply in_map_iff in Hy as (q & <- & Hq). rewrite Forall_forall in HsU. apply HsU.
      rewrite Hsg. apply in_or_app. right. exact Hq. }
    (* the last element is the head *)
    destruct (exists_last (l := x :: suf)) as (l' & z' & El); [discriminate|].
    assert (Ez : z' = z).
    { rewrite Hsg, El, app_assoc in Hsg'. apply app_inj_tail in Hsg' as [_ E]. exact E. }
    subst z'.
    assert (Hzstd : seg_std z).
    { rewrite Forall_forall in Hstd. apply Hstd. rewrite El. apply in_or_app. right. left. reflexivity. }
    assert (HzU : In (seg_blk z) U).
    { rewrite Forall_forall in HsufU. apply HsufU. rewrite El, map_app. apply in_or_app. right. left. reflexivity. }
    assert (HhdU : In hd U).
    { destruct HV as (a & Fin & S & c0 & A & HP & _ & _).
      destruct (Proofs.Hub.CursorLife.post_head U (hub_config first kept) U_id U_uniq U_up a s Fin S c0 HP) as (hd2 & p & Hls2 & HhU & _).
      rewrite Hls in Hls2. injection Hls2 as <-. exact HhU. }
    assert (Ehd : seg_blk z = hd).
    { apply U_uniq; [exact HzU | exact HhdU|]. destruct Hzstd as [Hz1 _]. rewrite <- Hz1. exact Hz. }
    exists hd, sg, x, suf, (map seg_blk l').
    split; [exact Hls|]. split; [exact Hhd|]. split; [exact Eseg|]. split; [exact Hxin|]. split; [exact Hnx|].
    split; [rewrite Hevs, map_eblk_snap; reflexivity|].
    split.
    { rewrite Hevs. apply Forall_forall. intros e He. apply in_map_iff in He as (q & <- & _).
      unfold snap_event. cbn [estep]. destruct (bnum (seg_blk q) <=? rn (libref (db s))); reflexivity. }
    split; [exact HsufU|]. split.
    { pose proof (Forall_inv Hstd) as [Hx1 _]. rewrite <- Hx1. apply seg_linked; assumption. }
    change (seg_blk x :: map seg_blk suf) with (map seg_blk (x :: suf)). rewrite El, map_app. cbn [map]. rewrite Ehd. reflexivity.
  Qed.

  (* the consumer that holds the file blocks Dpre receives a burst bn :: sufb that ends with the head *)
  Lemma join_rel_core V evs Dpre bn sufb l hd :
    V <> [] -> chainU U V -> hd_error V = Some hd ->
    map eblk evs = bn :: sufb -> Forall (fun e => matches_new (estep e) = true) evs ->
    Forall (fun y => In y U) (bn :: sufb) -> lnk (bid bn) sufb -> bn :: sufb = l ++ [hd] ->
    (exists x, lnk x (Dpre ++ [bn])) -> Forall (fun y => In y U) Dpre ->
    (forall z r, Dpre ++ [bn] = z :: r -> bnum z <= start) ->
    exists J1, sfold (rev Dpre) evs = Some J1 /\ Rel U start V J1.
  Proof.
    intros HVne HcV Hhd Hmap Hnew HbU Hlsuf Hlast [x0 HlD] HDU Hbot.
    assert (Hlall : lnk x0 (Dpre ++ bn :: sufb)).
    { change (bn :: sufb) with ([bn] ++ sufb). rewrite app_assoc.
      apply linked_app_iff. split; [exact HlD|]. rewrite tip_snoc. exact Hlsuf. }
    exists (rev (map eblk evs) ++ rev Dpre). split.
    - apply sfold_pushes; [exact Hnew|]. rewrite Hmap.
      destruct (rev Dpre) as [|top r] eqn:Er.
      + exists (bparent bn). cbn [lnk]. split; [reflexivity | exact Hlsuf].
      + assert (ED : Dpre = rev r ++ [top]).
        { rewrite <- (rev_involutive Dpre), Er. reflexivity. }
        cbn [lnk]. split; [|exact Hlsuf].
        rewrite ED in HlD. pose proof (linked_mid _ _ _ _ HlD) as Hp. rewrite tip_snoc in Hp. exact Hp.
    - rewrite Hmap. split; [exact HVne|]. split; [exact HcV|]. left.
      assert (EJ : rev (bn :: sufb) ++ rev Dpre = rev (Dpre ++ bn :: sufb)).
      { rewrite rev_app_distr. reflexivity. }
      rewrite EJ.
      assert (Etop : rev (Dpre ++ bn :: sufb) = hd :: rev (Dpre ++ l)).
      { rewrite Hlast, app_assoc, rev_app_distr. reflexivity. }
      split; [rewrite Etop; discriminate|]. split; [rewrite Etop, Hhd; reflexivity|]. split.
      + split.
        * apply Forall_forall. intros y Hy. apply in_rev in Hy. rewrite Forall_forall in HDU, HbU.
          apply in_app_or in Hy as [Hy|Hy]; [apply HDU | apply HbU]; exact Hy.
        * exists x0. rewrite rev_involutive. exact Hlall.
      + destruct (Dpre ++ [bn]) as [|z r] eqn:Ez; [destruct Dpre; discriminate|].
        exists (rev (r ++ sufb)), z. split; [|apply (Hbot z r eq_refl)].
        change (bn :: sufb) with ([bn] ++ sufb). rewrite app_assoc, Ez. cbn [app rev]. reflexivity.
  Qed.

  (* ---------------------------------------------------------------- the file phase *)

  Variable merged : list block.
  Hypothesis Hmerged_U : forall b, In b merged -> In b U.

  (* what a successful join on the file block bn hands over: a burst bn :: sufb of New / new+irreversible events,
     a parent-linked run of the universe that ends with the head *)
  Definition join_good (w : world) : Prop :=
    forall lowest bn burst, In bn merged -> join_try c w lowest (fev bn) = Some burst ->
      h_ready (w_hub w) = true /\
      forall V, VState U first kept (h_f (w_hub w)) V ->
        exists hd sufb l, hd_error V = Some hd /\ map eblk burst = bn :: sufb /\
          Forall (fun e => matches_new (estep e) = true) burst /\
          Forall (fun y => In y U) (bn :: sufb) /\ lnk (bid bn) sufb /\ bn :: sufb = l ++ [hd].
  Definition joins_good (w : world) : Prop := forall m, join_good (world_after c m w).

  Lemma joins_after w m : joins_good w -> joins_good (world_after c m w).
  Proof. intros H k. rewrite world_after_add. apply H. Qed.

  Lemma join_mode0 w lowest e burst : (j_mode c =? 2) = false -> join_try c w lowest e = Some burst ->
    blocks_from_num (h_f (w_hub w)) (bnum (eblk e)) = BOk burst /\ h_ready (w_hub w) = true /\
    exists b0 tl, burst = b0 :: tl /\ bid (eblk b0) = bid (eblk e).
  Proof.
    intros Hmode2. unfold join_try. rewrite Hmode2. cbn [orb].
    destruct ((lowest <=? bnum (eblk e)) && matches_new (estep e)); [|discriminate].
    destruct (blocks_from_num (h_f (w_hub w)) (bnum (eblk e))) as [evs| | |]; try discriminate.
    destruct (h_ready (w_hub w)); [|discriminate]. cbn [andb].
    destruct evs as [|b0 tl]; [discriminate|]. destruct (N.eqb_spec (bid (eblk b0)) (bid (eblk e))) as [E|E]; [|discriminate].
    intros H. injection H as <-. split; [reflexivity|]. split; [reflexivity|]. exists b0, tl. auto.
  Qed.

  (* from a number or from a cursor the join is made on the identity of the file block: the hub's canonical block
     of that height is the file block itself *)
  Lemma id_joins w : (j_mode c =? 2) = false -> joins_good w.
  Proof.
    intros Hmode2 m lowest bn burst Hbn Ej.
    destruct (join_mode0 _ lowest (fev bn) burst Hmode2 Ej) as (Hb & Hrd & b0 & tl & Eb0 & Hid). cbn [eblk file_event] in Hb, Hid.
    split; [exact Hrd|]. intros V HV.
    destruct (burst_shape _ V (bnum bn) burst HV Hb)
      as (hd & sg & x & suf & l & Hls & Hhd & Eseg & Hxin & Hnx & Hmap & Hnew & HbU & Hlsuf & Hlast).
    assert (Ex : seg_blk x = bn).
    { apply U_uniq; [exact (Forall_inv HbU) | apply Hmerged_U; exact Hbn|].
      rewrite Eb0 in Hmap. cbn [map] in Hmap. injection Hmap as E _. rewrite <- E. exact Hid. }
    rewrite Ex in *. exists hd, (map seg_blk suf), l.
    split; [exact Hhd|]. split; [exact Hmap|]. split; [exact Hnew|]. split; [exact HbU|]. split; [exact Hlsuf | exact Hlast].
  Qed.

  (* J0: the consumer before the stream; out: what it has been given so far, after which it holds Dpre *)
  Lemma file_run fuel J0 fend : forall D' Dpre out w lowest count ps,
    WOK w -> eventual_tip c w canon -> joins_good w ->
    sfold J0 out = Some (rev Dpre) ->
    (exists x, lnk x (Dpre ++ D')) -> (forall b, In b (Dpre ++ D') -> In b merged) ->
    (forall z r, Dpre ++ D' = z :: r -> bnum z <= start) ->
    let res := file_phase fuel c w lowest (map fev D') fend count ps out in
    exists st, sfold J0 (fst res) = Some st /\
      (snd res = JNil -> rev st = Dpre ++ D' \/ (D' <> [] /\ from_num start (rev st) = from_num start canon)).
  Proof.
    induction D' as [|bn D' IH]; intros Dpre out w lowest count ps HW Htip Hjg Hout [x0 Hl] Hin Hbot res.
    - unfold res. cbn [map file_phase fst snd]. exists (rev Dpre). split; [exact Hout|].
      intros _. left. rewrite app_nil_r, rev_involutive. reflexivity.
    - assert (HlD : lnk x0 (Dpre ++ [bn])).
      { change (bn :: D') with ([bn] ++ D') in Hl. rewrite app_assoc in Hl. eapply linked_prefix. exact Hl. }
      assert (HDU : Forall (fun y => In y U) Dpre).
      { apply Forall_forall. intros y Hy. apply Hmerged_U. apply Hin. apply in_or_app. left. exact Hy. }
      assert (Hbn : In bn merged) by (apply Hin; apply in_or_app; right; left; reflexivity).
      unfold res. cbn [map]. rewrite file_phase_cons.
      destruct (join_try c w lowest (fev bn)) as [burst|] eqn:Ej.
      + (* the join *)
        destruct (Hjg 0%nat lowest bn burst Hbn Ej) as [Hrd HJ].
        destruct HW as [Hok Hrest].
        destruct (vstate_of_hub U first kept U_id U_uniq U_up D_decl (w_hub w) Hok Hrd) as [V HV].
        destruct (HJ V HV) as (hd & sufb & l & Hhd & Hmap & Hnew & HbU & Hlsuf & Hlast).
        destruct (vstate_facts U first kept U_id U_uniq U_up (h_f (w_hub w)) V HV) as (HVne & HcV & _).
        assert (Hbot' : forall z r, Dpre ++ [bn] = z :: r -> bnum z <= start).
        { intros z r Ez. apply (Hbot z (r ++ D')). change (bn :: D') with ([bn] ++ D'). rewrite app_assoc, Ez. reflexivity. }
        destruct (join_rel_core V burst Dpre bn sufb l hd HVne HcV Hhd Hmap Hnew HbU Hlsuf Hlast
                    (ex_intro _ x0 HlD) HDU Hbot') as (J1 & HJ1 & HR).
        destruct (live_run fuel w V burst count ps J0 out (rev Dpre) J1 (conj Hrd (conj HV Hrest)) Htip Hout HJ1 HR)
          as (st & Hst & Hfin).
        exists st. split; [exact Hst|]. intros Hn. right. split; [discriminate | exact (Hfin Hn)].
      + (* delivered from the file *)
        rewrite chain_default. cbn [nu_ev file_event estep matches_new orb].
        destruct (pauses_after (count + 1) ps w) as [m Em].
        destruct (apply_pauses c (count + 1) ps w) as [[ps' w'] evs'] eqn:Ep. cbn [fst snd] in Em. subst w'.
        assert (Hout' : sfold J0 (out ++ [fev bn]) = Some (rev (Dpre ++ [bn]))).
        { rewrite sfold_app, Hout. cbn [sfold]. unfold sapply. cbn [estep file_event eblk].
          rewrite rev_app_distr. cbn [rev app].
          destruct (rev Dpre) as [|top r] eqn:Er; [reflexivity|].
          assert (ED : Dpre = rev r ++ [top]) by (rewrite <- (rev_involutive Dpre), Er; reflexivity).
          rewrite ED in HlD. pose proof (linked_mid _ _ _ _ HlD) as Hp. rewrite tip_snoc in Hp.
          rewrite Hp, N.eqb_refl. reflexivity. }
        assert (EDD : (Dpre ++ [bn]) ++ D' = Dpre ++ bn :: D') by (rewrite <- app_assoc; reflexivity).
        specialize (IH (Dpre ++ [bn]) (out ++ [fev bn]) (world_after c m w)
                      (if (lowest <=? bnum (eblk (fev bn))) && matches_new (estep (fev bn)) then hub_lowest (w_hub w) else lowest)
                      (count + 1) ps' (wok_after m w HW) (tip_after w m Htip) (joins_after w m Hjg) Hout').
        rewrite EDD in IH. destruct (IH (ex_intro _ x0 Hl) Hin Hbot) as (st & Hst & Hfin).
        exists st. split; [exact Hst|]. intros Hn. destruct (Hfin Hn) as [H|[_ H]]; [left; exact H | right; split; [discriminate | exact H]].
  Qed.

  (* ---------------------------------------------------------------- Stream.Run from a block number *)

  Lemma stream_num w ps merged_end forked :
    j_mode c = 0 -> run_start c w = start ->
    WOK w -> eventual_tip c w canon ->
    let D := file_delivery merged start file_bound (j_bundle c) in
    (exists x, lnk x D) -> (forall z r, D = z :: r -> bnum z <= start) ->
    let res := stream_run c w ps merged_end merged forked in
    exists st, sfold [] (fst res) = Some st /\
      (snd res = JNil -> rev st = D \/ from_num start (rev st) = from_num start canon).
  Proof.
    intros Hmode Hstart HW Htip D HlD HbotD res.
    assert (Hmode2 : (j_mode c =? 2) = false) by (rewrite Hmode; reflexivity).
    pose proof (id_joins w Hmode2) as Hjg.
    assert (HinD : forall b, In b ([] ++ D) -> In b merged).
    { intros b Hb. cbn [app] in Hb. unfold D, file_delivery in Hb. apply filter_In in Hb as [Hb _]. exact Hb. }
    assert (Hfile : forall fuel lowest,
              exists st, sfold [] (fst (file_phase fuel c w lowest (map fev D) JNil 0 ps [])) = Some st /\
                (snd (file_phase fuel c w lowest (map fev D) JNil 0 ps []) = JNil ->
                 rev st = D \/ from_num start (rev st) = from_num start canon)).
    { intros fuel lowest. destruct (file_run fuel [] JNil D [] [] w lowest 0 ps HW Htip Hjg eq_refl HlD HinD HbotD) as (st & Hst & Hfin).
      exists st. split; [exact Hst|]. intros Hn. destruct (Hfin Hn) as [H|[_ H]]; [left; exact H | right; exact H]. }
    unfold res, stream_run. cbv zeta.
    change (abs_start (j_first c) (j_start c) match hub_head (w_hub w) with Some (r, _) => rn r | None => 0 end)
      with (run_start c w).
    rewrite (file_end_nostop c merged_end Hstop), Hstart, Hstop, Hfilter, Hmode. cbn [N.eqb negb andb].
    unfold live_try. rewrite Hmode. cbn [N.eqb].
    destruct (h_ready (w_hub w)) eqn:Hrd; cbn [negb].
    - destruct (blocks_from_num (h_f (w_hub w)) start) as [burst| | |] eqn:Hb.
      + (* live from the start *)
        destruct HW as [Hok Hrest].
        destruct (vstate_of_hub U first kept U_id U_uniq U_up D_decl (w_hub w) Hok Hrd) as [V HV].
        destruct (burst_shape (h_f (w_hub w)) V start burst HV Hb)
          as (hd & sg & x & suf & l & Hls & Hhd & Eseg & Hxin & Hnx & Hmap & Hnew & HbU & Hlsuf & Hlast).
        destruct (vstate_facts U first kept U_id U_uniq U_up (h_f (w_hub w)) V HV) as (HVne & HcV & _).
        assert (Hl1 : exists x1, lnk x1 ([] ++ [seg_blk x])) by (exists (bparent (seg_blk x)); cbn; auto).
        assert (Hbot1 : forall z r, [] ++ [seg_blk x] = z :: r -> bnum z <= start).
        { intros z r Ez. cbn [app] in Ez. injection Ez as <- _. lia. }
        destruct (join_rel_core V burst [] (seg_blk x) (map seg_blk suf) l hd HVne HcV Hhd Hmap Hnew HbU Hlsuf Hlast
                    Hl1 (Forall_nil _) Hbot1) as (J1 & HJ1 & HR).
        pose proof (fun f => live_run f w V burst 0 ps [] [] [] J1 (conj Hrd (conj HV Hrest)) Htip eq_refl HJ1 HR) as HL.
        match goal with |- context [live_phase ?f _ _ _ _ _ _] => destruct (HL f) as (st & Hst & Hfin) end.
        exists st. split; [exact Hst|]. intros Hn. right. exact (Hfin Hn).
      + apply Hfile.
      + exists []. split; [reflexivity | discriminate].
      + exists []. split; [reflexivity | discriminate].
    - apply Hfile.
  Qed.
End Run.
