(* C20: invariants of the sequential model and the effect of every operation *)
From BV Require Import Base.Prelude Proofs.PreludeFacts Model.BlockServer Spec.C20_Spec Proofs.C20_Window.
Local Open Scope Z_scope.
Arguments chan_base : simpl never.

(* ------------------------------------------------------------------ Buffer *)

Record buf_ok (b : buffer) : Prop := {
  bo_nodup : NoDup (blist b);
  bo_set : forall x, In x (bset b) <-> In x (blist b)
}.

Lemma buf_new_ok : buf_ok buf_new.
Proof. constructor; simpl; [constructor|tauto]. Qed.

Lemma set_remove_In x y s : In y (set_remove x s) <-> In y s /\ y <> x.
Proof.
  unfold set_remove. rewrite filter_In. split; intros [H1 H2]; split; auto.
  - intros ->. rewrite N.eqb_refl in H2. discriminate.
  - apply negb_true_iff, N.eqb_neq. congruence.
Qed.

Lemma memN_set b x : buf_ok b -> memN x (bset b) = memN x (blist b).
Proof.
  intros Hok. destruct (memN x (blist b)) eqn:E.
  - apply memN_In. apply (bo_set b Hok). now apply memN_In.
  - apply memN_false. intros Hin. apply (bo_set b Hok) in Hin. apply memN_In in Hin. congruence.
Qed.

Lemma zlen_nat {A} (l : list A) : zlen l = Z.of_nat (length l).
Proof. reflexivity. Qed.

(* the buffer part of PushBlock is the reference window step *)
Lemma push_buffer_ok b size x :
  buf_ok b -> (length (blist b) <= Z.to_nat size)%nat ->
  exists b', push_buffer (Some b) size x = BOk (Some b') /\ buf_ok b' /\
             blist b' = win_step size (blist b) x /\ (length (blist b') <= Z.to_nat size)%nat.
Proof.
  intros Hok Hlen. unfold push_buffer.
  destruct (size >? 0) eqn:Es.
  - rewrite win_step_unfold. unfold buf_append_head. rewrite (memN_set b x Hok).
    destruct (memN x (blist b)) eqn:Em.
    + (* already buffered *)
      assert (E : buf_len b >? size = false) by (unfold buf_len, zlen; lia).
      rewrite E. exists b. repeat split; auto; apply Hok.
    + assert (Hnin : ~ In x (blist b)) by now apply memN_false.
      unfold buf_len at 1. simpl blist. rewrite zlen_nat, app_length. simpl length.
      destruct (Z.of_nat (length (blist b) + 1) >? size) eqn:Eg.
      * (* evict the tail *)
        destruct (blist b) as [|y w] eqn:Eb.
        { simpl in Eg. lia. }
        unfold buf_tail. simpl hd_error. unfold buf_delete. simpl bset. simpl blist.
        assert (Hy : memN y (x :: bset b) = true).
        { apply memN_In. right. apply (bo_set b Hok). rewrite Eb. now left. }
        rewrite Hy. simpl remove_first. rewrite N.eqb_refl.
        eexists. split; [reflexivity|]. simpl blist.
        assert (Hl : lastn (Z.to_nat size) ((y :: w) ++ [x]) = w ++ [x]).
        { unfold lastn. simpl length. rewrite app_length. simpl length.
          simpl in Hlen, Eg.
          replace (S (length w + 1) - Z.to_nat size)%nat with 1%nat by lia. reflexivity. }
        rewrite Hl. split; [|split; [reflexivity|]].
        -- pose proof (bo_nodup b Hok) as Hnd. rewrite Eb in Hnd. inversion Hnd; subst.
           constructor; cbn [bset blist].
           ++ apply NoDup_snoc; auto. intros Hin. apply Hnin. now right.
           ++ intros z. rewrite set_remove_In. simpl. rewrite (bo_set b Hok), Eb. simpl.
              rewrite in_app_iff. simpl. split.
              ** intros [[->|[->|Hz]] Hne]; auto; congruence.
              ** intros [Hz|[->|[]]].
                 --- split; auto. intros ->. contradiction.
                 --- split; auto. intros ->. apply Hnin. now left.
        -- rewrite app_length. simpl in *. lia.
      * eexists. split; [reflexivity|]. simpl blist.
        rewrite lastn_snoc_small by lia. split; [|split; [reflexivity|]].
        -- constructor; simpl.
           ++ apply NoDup_snoc; auto. apply Hok.
           ++ intros z. rewrite in_app_iff. simpl. rewrite (bo_set b Hok). tauto.
        -- rewrite app_length. simpl. lia.
  - (* size <= 0: nothing is buffered *)
    exists b. assert (Hn : Z.to_nat size = 0%nat) by lia.
    assert (Hb : blist b = []) by (destruct (blist b); simpl in *; [auto|lia]).
    repeat split; auto; try apply Hok.
    rewrite win_step_unfold, Hb. simpl. rewrite Hn. now rewrite lastn_zero.
Qed.

(* ------------------------------------------------------------------ subscription *)

Record sub_ok (s : sub) : Prop := {
  so_len : (qlen s <= s_cap s)%N;
  so_once : s_once s = s_closed s;
  so_ch : s_chclosed s = s_closed s;
  so_n : s_ncloses s = if s_closed s then 1%N else 0%N
}.

Lemma new_sub_ok c : sub_ok (new_sub c).
Proof. constructor; simpl; auto. unfold qlen. simpl. lia. Qed.

(* the total form of subscription.Push *)
Definition sub_push_fn (s : sub) (x : N) : sub :=
  if N.eqb (qlen s) (s_cap s) then
    if s_closed s then s
    else mkSub (s_q s) (s_cap s) true true true (s_ncloses s + 1)%N (s_recv s) (s_listed s)
  else if s_closed s then s
  else mkSub (s_q s ++ [x]) (s_cap s) false (s_once s) (s_chclosed s) (s_ncloses s) (s_recv s) (s_listed s).

Lemma sub_push_ok s x : sub_ok s -> sub_push s x = SOk (sub_push_fn s x) /\ sub_ok (sub_push_fn s x).
Proof.
  intros [Hl Ho Hc Hn]. unfold sub_push, sub_push_fn.
  destruct (N.eqb (qlen s) (s_cap s)) eqn:Ef.
  - rewrite Ho. destruct (s_closed s) eqn:Ecl.
    + split; auto. constructor; rewrite ?Ecl; auto.
    + unfold chan_close, set_closed, set_once. simpl. rewrite Hc. split; [reflexivity|].
      constructor; simpl; auto. rewrite Hn. reflexivity.
  - destruct (s_closed s) eqn:Ecl.
    + split; auto. constructor; rewrite ?Ecl; auto.
    + unfold chan_send. rewrite Hc.
      apply N.eqb_neq in Ef.
      assert (Hlt : N.ltb (qlen s) (s_cap s) = true) by (apply N.ltb_lt; lia).
      rewrite Hlt, Ecl. split; [reflexivity|].
      constructor; simpl; auto.
      unfold qlen in *. simpl. rewrite app_length. simpl. lia.
Qed.

Lemma sub_push_fn_cap s x : s_cap (sub_push_fn s x) = s_cap s.
Proof. unfold sub_push_fn. destruct (N.eqb _ _), (s_closed s); reflexivity. Qed.
Lemma sub_push_fn_listed s x : s_listed (sub_push_fn s x) = s_listed s.
Proof. unfold sub_push_fn. destruct (N.eqb _ _), (s_closed s); reflexivity. Qed.

Lemma sub_recv_ok s : sub_ok s -> sub_ok (snd (sub_recv s)).
Proof.
  intros [Hl Ho Hc Hn]. unfold sub_recv. destruct (s_q s) as [|x q] eqn:Eq; simpl.
  - constructor; auto.
  - constructor; simpl; auto. unfold qlen in *. rewrite Eq in Hl. simpl in *. lia.
Qed.

(* one PushBlock on one element of Server.subscriptions *)
Definition push_one (x : N) (s : sub) : sub :=
  if s_listed s && negb (s_closed s) then sub_push_fn s x else s.

Lemma push_one_ok x s : sub_ok s -> sub_ok (push_one x s).
Proof.
  intros H. unfold push_one. destruct (s_listed s && negb (s_closed s)); auto.
  now apply sub_push_ok.
Qed.

Lemma push_subs_ok l x :
  Forall sub_ok l -> push_subs l x = LOk (map (push_one x) l).
Proof.
  induction l as [|s l IH]; intros H; simpl; auto.
  inversion H; subst. rewrite (IH H3). unfold push_one.
  destruct (s_listed s); simpl.
  - destruct (s_closed s); simpl; auto.
    destruct (sub_push_ok s x H2) as [-> _]. reflexivity.
  - reflexivity.
Qed.

(* the burst loop of subscribe on a fresh subscription never overflows *)
Lemma burst_push_ok blocks : forall s,
  sub_ok s -> s_closed s = false -> (qlen s + N.of_nat (length blocks) <= s_cap s)%N ->
  burst_push s blocks =
    BuOk (mkSub (s_q s ++ blocks) (s_cap s) false (s_once s) (s_chclosed s) (s_ncloses s) (s_recv s) (s_listed s)).
Proof.
  induction blocks as [|x bl IH]; intros s Hok Hcl Hlen; simpl.
  - rewrite app_nil_r. destruct s; simpl in *; subst; reflexivity.
  - rewrite Hcl. destruct (sub_push_ok s x Hok) as [Hp Hok']. rewrite Hp.
    assert (Hfn : sub_push_fn s x =
              mkSub (s_q s ++ [x]) (s_cap s) false (s_once s) (s_chclosed s) (s_ncloses s) (s_recv s) (s_listed s)).
    { unfold sub_push_fn. rewrite Hcl.
      assert (E : N.eqb (qlen s) (s_cap s) = false) by (apply N.eqb_neq; simpl length in Hlen; lia).
      now rewrite E. }
    rewrite Hfn in *. rewrite IH; auto.
    + simpl. now rewrite <- app_assoc.
    + unfold qlen in *. simpl in *. rewrite app_length. simpl. lia.
Qed.

(* ------------------------------------------------------------------ Server invariant *)

Record sv_ok (sv : server) : Prop := {
  vo_buf : match sv_buf sv with
           | Some b => buf_ok b /\ (length (blist b) <= Z.to_nat (sv_size sv))%nat
           | None => True
           end;
  vo_subs : Forall sub_ok (sv_subs sv)
}.

Lemma init_ok buffered size : sv_ok (init_server buffered size).
Proof.
  constructor; simpl; auto. destruct buffered; auto. split; [apply buf_new_ok|simpl; lia].
Qed.

(* the plan of subscribe is the spec's burst *)
Lemma burst_plan_spec ob b :
  burst_plan ob b =
    let w := match ob with Some bf => buf_all bf | None => [] end in
    Some (burst_of b w, chan_base + zlen (burst_of b w)).
Proof.
  unfold burst_plan. cbv zeta. destruct ob as [bf|].
  - set (w := buf_all bf). set (r := if b <? 0 then 0 else b).
    assert (Hr : 0 <= r) by (unfold r; destruct (b <? 0) eqn:E; lia).
    destruct (r <? zlen w) eqn:El.
    + unfold slice_from.
      assert (E1 : ((zlen w - r <? 0) || (zlen w - r >? zlen w)) = false).
      { apply orb_false_iff. split; lia. }
      rewrite E1. rewrite burst_of_unfold. unfold lastn.
      assert (E2 : (length w - Z.to_nat (Z.min b (zlen w)))%nat = Z.to_nat (zlen w - r)).
      { unfold r, zlen in *. destruct (b <? 0) eqn:E; lia. }
      rewrite E2.
      assert (E3 : zlen (skipn (Z.to_nat (zlen w - r)) w) = r).
      { rewrite zlen_nat, skipn_length. unfold r, zlen in *. destruct (b <? 0) eqn:E; lia. }
      now rewrite E3.
    + assert (E : burst_of b w = w).
      { rewrite burst_of_unfold. apply lastn_all. unfold r, zlen in *. destruct (b <? 0) eqn:E; lia. }
      now rewrite E.
  - assert (E : burst_of b [] = []) by (rewrite burst_of_unfold; apply lastn_all; simpl; lia).
    rewrite E. reflexivity.
Qed.

Definition created_sub (B : list N) (cap : N) : sub := mkSub B cap false false false 0 [] true.

Lemma subscribe_ok sv b :
  sv_ok sv ->
  let B := burst_of b (window sv) in
  let s := created_sub B (Z.to_N (chan_base + zlen B)) in
  subscribe sv b = SubOk (mkSrv (sv_buf sv) (sv_size sv) (sv_subs sv ++ [s])) (length (sv_subs sv)) /\
  sub_ok s.
Proof.
  intros Hok B s. unfold subscribe. rewrite burst_plan_spec.
  assert (Hw : match sv_buf sv with Some bf => buf_all bf | None => [] end = window sv)
    by (unfold window; destruct (sv_buf sv); reflexivity).
  cbv zeta. rewrite Hw. fold B.
  unfold mk_sub. assert (E : chan_base + zlen B <? 0 = false) by (unfold chan_base, zlen; lia).
  rewrite E.
  rewrite burst_push_ok.
  - simpl. split; [reflexivity|].
    subst s. constructor; cbn [s_q s_cap s_closed s_once s_chclosed s_ncloses created_sub]; auto.
    unfold qlen, created_sub, chan_base, zlen. cbn [s_q]. lia.
  - apply new_sub_ok.
  - reflexivity.
  - unfold qlen, new_sub, chan_base, zlen. cbn [s_q s_cap length]. lia.
Qed.

Lemma Forall_upd_nth {A} (P : A -> Prop) k f (l : list A) :
  Forall P l -> (forall a, P a -> P (f a)) -> Forall P (upd_nth k f l).
Proof.
  revert k. induction l as [|a l IH]; intros k H Hf.
  - simpl. constructor.
  - inversion H; subst. destruct k; simpl; constructor; auto.
Qed.

Lemma nth_error_upd_nth {A} k j f (l : list A) :
  nth_error (upd_nth k f l) j =
    if Nat.eqb k j then option_map f (nth_error l j) else nth_error l j.
Proof.
  revert k j. induction l as [|a l IH]; intros k j; simpl.
  - destruct j; simpl; destruct (Nat.eqb k _); reflexivity.
  - destruct k, j; simpl; auto.
Qed.

Lemma upd_nth_length {A} k f (l : list A) : length (upd_nth k f l) = length l.
Proof. revert k. induction l as [|a l IH]; intros k; simpl; auto. destruct k; simpl; auto. Qed.

(* the total form of one operation *)
Definition step_fn (sv : server) (o : op) : server :=
  match step sv o with StOk sv' _ => sv' | StStop _ => sv end.

Definition push_fn (sv : server) (x : N) : server :=
  mkSrv (match sv_buf sv with
         | Some b => Some (mkBuf (win_step (sv_size sv) (blist b) x) [])
         | None => None end)
        (sv_size sv) (map (push_one x) (sv_subs sv)).

Lemma push_block_ok sv x :
  sv_ok sv ->
  exists sv', push_block sv x = POk sv' /\ sv_ok sv' /\
    sv_size sv' = sv_size sv /\
    sv_subs sv' = map (push_one x) (sv_subs sv) /\
    window sv' = window (push_fn sv x) /\
    (sv_buf sv' = None <-> sv_buf sv = None).
Proof.
  intros [Hb Hs]. unfold push_block. rewrite (push_subs_ok _ x Hs).
  destruct (sv_buf sv) as [b|] eqn:Eb.
  - destruct Hb as [Hbo Hlen].
    destruct (push_buffer_ok b (sv_size sv) x Hbo Hlen) as (b' & Hp & Hbo' & Hl' & Hlen').
    rewrite Hp. eexists. split; [reflexivity|].
    split; [|split; [reflexivity|split; [reflexivity|split]]].
    + constructor; simpl; auto. rewrite Forall_forall in *. intros s Hin.
      apply in_map_iff in Hin. destruct Hin as (s0 & <- & Hin). apply push_one_ok; auto.
    + unfold window, push_fn. simpl. rewrite Eb. simpl. exact Hl'.
    + simpl. split; discriminate.
  - simpl. eexists. split; [reflexivity|].
    split; [|split; [reflexivity|split; [reflexivity|split]]].
    + constructor; simpl; auto. rewrite Forall_forall in *. intros s Hin.
      apply in_map_iff in Hin. destruct Hin as (s0 & <- & Hin). apply push_one_ok; auto.
    + unfold window, push_fn. simpl. now rewrite Eb.
    + simpl. tauto.
Qed.

Lemma step_ok sv o :
  sv_ok sv -> exists sv' ob, step sv o = StOk sv' ob /\ sv_ok sv' /\ is_bad ob = false.
Proof.
  intros Hok. destruct o as [x|b|c|k|k]; simpl.
  - destruct (push_block_ok sv x Hok) as (sv' & Hp & Hok' & _). rewrite Hp.
    do 2 eexists. split; [reflexivity|]. split; auto.
  - destruct (subscribe_ok sv b Hok) as [Hs Hsok]. rewrite Hs.
    do 2 eexists. split; [reflexivity|]. split; auto.
    destruct Hok as [Hb Hsubs]. constructor; simpl; auto.
    apply Forall_app. split; auto.
  - do 2 eexists. split; [reflexivity|]. split; auto.
    destruct Hok as [Hb Hsubs]. constructor; simpl; auto.
    apply Forall_app. split; auto. constructor; auto. apply new_sub_ok.
  - do 2 eexists. split; [reflexivity|]. split; auto.
    destruct Hok as [Hb Hsubs]. constructor; simpl; auto.
    apply Forall_upd_nth; auto. intros a [H1 H2 H3 H4]. constructor; auto.
  - unfold consume. destruct (nth_error (sv_subs sv) k) as [s|] eqn:En.
    + destruct (sub_recv s) as [r s'] eqn:Er. do 2 eexists. split; [reflexivity|]. split; auto.
      destruct Hok as [Hb Hsubs]. constructor; simpl; auto.
      apply Forall_upd_nth; auto. intros _ _.
      replace s' with (snd (sub_recv s)) by now rewrite Er.
      apply sub_recv_ok. rewrite Forall_forall in Hsubs. apply Hsubs. eapply nth_error_In; eauto.
    + do 2 eexists. split; [reflexivity|]. split; auto.
Qed.

Lemma step_fn_ok sv o : sv_ok sv -> sv_ok (step_fn sv o).
Proof.
  intros Hok. unfold step_fn. destruct (step_ok sv o Hok) as (sv' & ob & -> & H & _). exact H.
Qed.

Lemma run_fold ops : forall sv,
  sv_ok sv ->
  fst (run sv ops) = fold_left step_fn ops sv /\
  sv_ok (fold_left step_fn ops sv) /\
  length (snd (run sv ops)) = length ops /\
  Forall (fun o => is_bad o = false) (snd (run sv ops)).
Proof.
  induction ops as [|o ops IH]; intros sv Hok; simpl.
  - split; [reflexivity|]. split; [exact Hok|]. split; [reflexivity|constructor].
  - destruct (step_ok sv o Hok) as (sv' & ob & Hs & Hok' & Hnb).
    assert (Hfn : step_fn sv o = sv') by (unfold step_fn; now rewrite Hs).
    rewrite Hs. destruct (run sv' ops) as [svf tr] eqn:Er.
    destruct (IH sv' Hok') as (H1 & H2 & H3 & H4). rewrite Er in *. simpl in *.
    rewrite Hfn. split; [exact H1|]. split; [exact H2|]. split; [simpl; lia|constructor; auto].
Qed.

Lemma final_fold buffered size ops :
  final buffered size ops = fold_left step_fn ops (init_server buffered size).
Proof. unfold final. apply run_fold, init_ok. Qed.

Lemma final_ok buffered size ops : sv_ok (final buffered size ops).
Proof. rewrite final_fold. apply run_fold, init_ok. Qed.

Lemma final_app buffered size a b :
  final buffered size (a ++ b) = fold_left step_fn b (final buffered size a).
Proof. now rewrite !final_fold, fold_left_app. Qed.

(* ------------------------------------------------------------------ effect of one operation *)

Lemma step_fn_size sv o : sv_ok sv -> sv_size (step_fn sv o) = sv_size sv.
Proof.
  intros Hok. unfold step_fn. destruct o as [x|b|c|k|k]; simpl.
  - destruct (push_block_ok sv x Hok) as (sv' & -> & _ & Hs & _). exact Hs.
  - destruct (subscribe_ok sv b Hok) as [-> _]. reflexivity.
  - reflexivity.
  - reflexivity.
  - unfold consume. destruct (nth_error (sv_subs sv) k); [destruct (sub_recv s)|]; reflexivity.
Qed.

Lemma step_fn_buffered sv o : sv_ok sv -> (sv_buf (step_fn sv o) = None <-> sv_buf sv = None).
Proof.
  intros Hok. unfold step_fn. destruct o as [x|b|c|k|k]; simpl.
  - destruct (push_block_ok sv x Hok) as (sv' & -> & _ & _ & _ & _ & Hb). exact Hb.
  - destruct (subscribe_ok sv b Hok) as [-> _]. simpl. tauto.
  - simpl. tauto.
  - simpl. tauto.
  - unfold consume. destruct (nth_error (sv_subs sv) k); [destruct (sub_recv s)|]; simpl; tauto.
Qed.

Lemma step_fn_window sv o :
  sv_ok sv ->
  window (step_fn sv o) =
    match o with
    | OPush x => match sv_buf sv with Some _ => win_step (sv_size sv) (window sv) x | None => [] end
    | _ => window sv
    end.
Proof.
  intros Hok. unfold step_fn. destruct o as [x|b|c|k|k]; simpl.
  - destruct (push_block_ok sv x Hok) as (sv' & -> & _ & _ & _ & Hw & _). rewrite Hw.
    unfold window, push_fn. simpl. destruct (sv_buf sv); reflexivity.
  - destruct (subscribe_ok sv b Hok) as [-> _]. reflexivity.
  - reflexivity.
  - reflexivity.
  - unfold consume. destruct (nth_error (sv_subs sv) k); [destruct (sub_recv s)|]; reflexivity.
Qed.

Lemma step_fn_subs sv o :
  sv_ok sv ->
  sv_subs (step_fn sv o) =
    match o with
    | OPush x => map (push_one x) (sv_subs sv)
    | OSubscribe b =>
        let B := burst_of b (window sv) in
        sv_subs sv ++ [created_sub B (Z.to_N (chan_base + zlen B))]
    | OAttach c => sv_subs sv ++ [new_sub c]
    | OUnsubscribe k => upd_nth k (set_listed false) (sv_subs sv)
    | OConsume k => upd_nth k (fun s => snd (sub_recv s)) (sv_subs sv)
    end.
Proof.
  intros Hok. unfold step_fn. destruct o as [x|b|c|k|k]; simpl.
  - destruct (push_block_ok sv x Hok) as (sv' & -> & _ & _ & Hs & _). exact Hs.
  - destruct (subscribe_ok sv b Hok) as [-> _]. reflexivity.
  - reflexivity.
  - reflexivity.
  - unfold consume. destruct (nth_error (sv_subs sv) k) as [s|] eqn:En.
    + destruct (sub_recv s) as [r s'] eqn:Er. simpl.
      clear Hok. revert k En. induction (sv_subs sv) as [|a l IH]; intros k En.
      * destruct k; discriminate.
      * destruct k; simpl in *.
        -- inversion En; subst. now rewrite Er.
        -- f_equal. now apply IH.
    + simpl. clear Hok. revert k En. induction (sv_subs sv) as [|a l IH]; intros k En; auto.
      destruct k; simpl in *; [discriminate|]. f_equal. now apply IH.
Qed.
