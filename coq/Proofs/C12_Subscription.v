(* C12 — hub.Subscription: invariants over all schedules, termination after Shutdown,
   no handler call after Run returned. *)
From BV Require Import Base.Prelude Model.Lifecycle Proofs.C12_Sched.
Import Sb.

Definition active (x : option sdstage) : bool :=
  match x with Some SClose | Some SCb | Some STerm => true | _ => false end.
Definition xbusy (s : state) : bool := match pcx s with XBusy => true | _ => false end.
Definition rbusy (s : state) : bool := match pcr s with PSdBusy => true | _ => false end.
Definition hbusy (s : state) : bool := match pcp s with HBusy => true | _ => false end.

(* exactly one thread performs the effective Shutdown() while it is in progress *)
Definition Inv (s : state) : Prop :=
  (xbusy s = true -> active (sdst s) = true) /\
  (rbusy s = true -> active (sdst s) = true) /\
  (hbusy s = true -> active (sdst s) = true) /\
  (active (sdst s) = true -> xbusy s = true \/ rbusy s = true \/ hbusy s = true) /\
  (xbusy s = true -> rbusy s = true -> False) /\
  (xbusy s = true -> hbusy s = true -> False) /\
  (rbusy s = true -> hbusy s = true -> False).

Ltac unfI := unfold Inv, xbusy, rbusy, hbusy in *.
Ltac unfS := unfold step, step_run, step_push, step_x, recv, sd_advance, terminating, terminated, emit.
Ltac fin2 := rw_hyps; simpl in *;
  try match goal with
      | |- context [sdst ?s] => destruct (sdst s) as [[]|] eqn:?
      | _ : context [sdst ?s] |- _ => destruct (sdst s) as [[]|] eqn:?
      end;
  simpl in *; intuition (discriminate || congruence).

Lemma inv_init : forall cap ps, Inv (init cap ps).
Proof. intros. unfold Inv, init, xbusy, rbusy, hbusy; simpl. fin. Qed.

Lemma inv_step : forall s t, Inv s -> Inv (step s t).
Proof.
  intros s t H. unfS.
  destruct t; [destruct (pcr s) eqn:Ep | destruct (pcp s) eqn:Ep | destruct (pcx s) eqn:Ep]; red_proj.
  all: case_step.
  all: unfI; destruct H as (A1 & A2 & A3 & A4 & B1 & B2 & B3); rw_hyps.
  all: case_step.
  all: fin.
  all: fin2.
Qed.

Lemma inv_run : forall cap ps sched, Inv (run step sched (init cap ps)).
Proof. intros. apply (run_inv step Inv inv_step). apply inv_init. Qed.

Definition rank_run (s : state) : nat :=
  match pcr s with
  | PInH _ _ => 5 | PSel => 4 | PChk _ _ => 3 | PShut => 1 | PSdBusy => 0 | PRet => 0
  end.
Definition rank_x (s : state) : nat := match pcx s with XIdle => 1 | _ => 0 end.
Definition rank_sd (s : state) : nat := match sdst s with None => 4 | Some g => sd_rank g end.
Definition rank (s : state) : nat := rank_run s + rank_x s + length (pscript s) + rank_sd s.
Ltac unfR := unfold rank, rank_run, rank_x, rank_sd in *.

Definition Ph (s : state) : Prop := Inv s /\ terminating s = true.

Lemma term_step : forall s t, terminating s = true -> terminating (step s t) = true.
Proof.
  intros s t H. unfold terminating in H. unfS.
  destruct t; [destruct (pcr s) eqn:Ep | destruct (pcp s) eqn:Ep | destruct (pcx s) eqn:Ep]; red_proj.
  all: case_step.
  all: try discriminate; try reflexivity.
Qed.

Lemma ph_step : forall s t, Ph s -> Ph (step s t).
Proof. intros s t [Hi Ht]. split; [apply inv_step; exact Hi | apply term_step; exact Ht]. Qed.

Lemma rank_step : forall s t, Ph s -> step s t = s \/ rank (step s t) < rank s.
Proof.
  intros s t [Hi Ht]. unfold terminating in Ht. unfS.
  destruct t; [destruct (pcr s) eqn:Ep | destruct (pcp s) eqn:Ep | destruct (pcx s) eqn:Ep]; red_proj.
  all: case_step.
  all: try (left; reflexivity).
  all: right; unfR; red_proj; case_step; simpl; try rewrite app_length; simpl; try lia; try discriminate.
  all: exfalso; unfI; destruct Hi as (A1 & A2 & A3 & A4 & B1 & B2 & B3); rw_hyps; simpl in *; intuition discriminate.
Qed.

Lemma neq_by_pcr : forall s s', pcr s' <> pcr s -> s' <> s.
Proof. intros s s' H E. apply H. rewrite E. reflexivity. Qed.
Lemma neq_by_sdst : forall s s', sdst s' <> sdst s -> s' <> s.
Proof. intros s s' H E. apply H. rewrite E. reflexivity. Qed.

(* with the terminating channel closed, the Run thread is never blocked, whichever arm the select takes *)
Lemma run_enabled : forall s c, Inv s -> terminating s = true ->
  returned s = false -> active (sdst s) = false -> pcr (step s (TRun c)) <> pcr s.
Proof.
  intros s c Hi Ht Hr Ha. unfold terminating, returned in *. unfS.
  unfI; destruct Hi as (A1 & A2 & A3 & A4 & B1 & B2 & B3).
  destruct (sdst s) as [[]|] eqn:Eg; try discriminate.
  destruct (pcr s) eqn:Ep; try discriminate; simpl in *.
  all: case_step; try discriminate.
  all: rw_hyps; simpl in *; intuition discriminate.
Qed.

Lemma progress : forall s, Ph s -> done s = false -> exists t, step s t <> s.
Proof.
  intros s [Hi Ht] Hd. unfold done in Hd.
  destruct (active (sdst s)) eqn:Ea.
  - pose proof Hi as Hi'. unfI. destruct Hi' as (A1 & A2 & A3 & A4 & B1 & B2 & B3).
    unfold terminating in Ht.
    destruct (A4 Ea) as [Hx|[Hx|Hx]].
    + exists TX. apply neq_by_sdst. unfS. destruct (pcx s); try discriminate. red_proj.
      destruct (sdst s) as [[]|]; try discriminate; case_step; discriminate.
    + exists (TRun true). apply neq_by_sdst. unfS. destruct (pcr s); try discriminate. red_proj.
      destruct (sdst s) as [[]|]; try discriminate; case_step; discriminate.
    + exists TPush. apply neq_by_sdst. unfS. destruct (pcp s); try discriminate. red_proj.
      destruct (sdst s) as [[]|]; try discriminate; case_step; discriminate.
  - exists (TRun true). apply neq_by_pcr. apply run_enabled; auto.
    unfold terminating, terminated, active in *.
    destruct (sdst s) as [[]|]; try discriminate. rewrite andb_true_r in Hd. exact Hd.
Qed.

Lemma done_step : forall s t, done s = true -> done (step s t) = true.
Proof.
  intros s t Hd. unfold done, returned, terminated in *. apply andb_prop in Hd. destruct Hd as [Hr Ht].
  destruct (pcr s) eqn:Ep; try discriminate. destruct (sdst s) as [[]|] eqn:Eg; try discriminate.
  unfS. destruct t; [|destruct (pcp s) eqn:Ex|destruct (pcx s) eqn:Ex]; red_proj; case_step; auto.
Qed.

Theorem sb_fair_termination : forall cap ps sched0 sched,
  let s := run step sched0 (init cap ps) in
  terminating s = true ->
  fair_rounds step (rank s) s sched ->
  done (run step sched s) = true.
Proof.
  intros cap ps sched0 sched s Ht Hf.
  apply (fair_termination step Ph rank done ph_step rank_step progress
           (fun s t _ => done_step s t) (rank s) s sched);
    [split; [apply inv_run | exact Ht] | apply le_n | exact Hf].
Qed.

Theorem sb_closing : forall cap ps sched,
  let s := run step sched (init cap ps) in
  sdst s = Some SClose -> exists t, terminating (step s t) = true.
Proof.
  intros cap ps sched s Hg. pose proof (inv_run cap ps sched) as Hi. fold s in Hi.
  unfI. destruct Hi as (A1 & A2 & A3 & A4 & B1 & B2 & B3). rewrite Hg in *. simpl in *.
  destruct (A4 eq_refl) as [Hx|[Hx|Hx]].
  - exists TX. unfold terminating. unfS. destruct (pcx s); try discriminate. red_proj. reflexivity.
  - exists (TRun true). unfold terminating. unfS. destruct (pcr s); try discriminate. red_proj. reflexivity.
  - exists TPush. unfold terminating. unfS. destruct (pcp s); try discriminate. red_proj. reflexivity.
Qed.

Theorem sb_no_deadlock : forall cap ps sched c,
  let s := run step sched (init cap ps) in
  terminated s = true -> returned s = false -> step s (TRun c) <> s.
Proof.
  intros cap ps sched c s Ht Hr. apply neq_by_pcr.
  unfold terminated in Ht. destruct (sdst s) as [[]|] eqn:Eg; try discriminate.
  apply run_enabled; auto; [apply inv_run | unfold terminating; fold s; rewrite Eg; reflexivity | fold s; rewrite Eg; reflexivity].
Qed.

Lemma returned_step : forall s t, returned s = true ->
  returned (step s t) = true /\ hbegun (step s t) = hbegun s.
Proof.
  intros s t H. unfold returned in *. destruct (pcr s) eqn:Ep; try discriminate.
  unfS. destruct t; [|destruct (pcp s) eqn:Ex|destruct (pcx s) eqn:Ex]; red_proj; case_step; auto.
Qed.

Theorem sb_no_call_after : forall sched s, returned s = true ->
  hbegun (run step sched s) = hbegun s /\ returned (run step sched s) = true.
Proof.
  intros sched. induction sched as [|t sched IH]; intros s H; [auto|].
  rewrite run_cons. destruct (returned_step s t H) as [Hr Hh].
  destruct (IH _ Hr) as [A B]. split; [congruence | exact B].
Qed.

(* what the re-check after the select buys: a handler call never BEGINS in a step taken while the
   terminating channel is closed *)
Theorem sb_no_call_begins_when_terminating : forall s t,
  terminating s = true -> hbegun (step s t) = hbegun s.
Proof.
  intros s t H. unfold terminating in H. unfS.
  destruct t; [destruct (pcr s) eqn:Ep | destruct (pcp s) eqn:Ep | destruct (pcx s) eqn:Ep]; red_proj.
  all: case_step; try reflexivity; try discriminate.
Qed.
