(* GENERIC COPY of Proofs/C08_SchedSerial.v: the same proofs with the event production function [hub_push first kept]
   (Model/Hub.v hub_live) replaced by an arbitrary hp : hprod (Model/HubAll.v); see Spec/C08_Sched_Gen_Spec.v. *)
(* C08, schedule part, 1: facts about the serial machine of Spec/C08_Sched_Spec.v (XBlock / XFan / XSub /
   XRecv).  No threads here. *)
From BV Require Import Base.Prelude Model.Block Model.ForkDB Model.Forkable Model.ForkableLookups
  Model.Burst Model.Hub Model.HubSubs Model.HubAll Model.HubSched Model.HubSchedG Spec.C08_Spec Spec.C08_Gen_Spec Proofs.C08_Abstract Proofs.C08G_Hub
  Spec.C08_Sched_Spec Spec.C08_Sched_Gen_Spec.
Local Open Scope N_scope.

(* ---------------------------------------------------------------- runs *)

Lemma xrun_app hp st a b : xrun_g hp st (a ++ b) = xrun_g hp (xrun_g hp st a) b.
Proof. unfold xrun_g. apply fold_left_app. Qed.

Lemma xrun_cons hp st o ops : xrun_g hp st (o :: ops) = xrun_g hp (xstep_g hp st o) ops.
Proof. reflexivity. Qed.

Lemma xrun_snoc hp st ops o : xrun_g hp st (ops ++ [o]) = xstep_g hp (xrun_g hp st ops) o.
Proof. rewrite xrun_app. reflexivity. Qed.

Lemma xvalid_app hp : forall a st b,
  xvalid_g hp st (a ++ b) <-> xvalid_g hp st a /\ xvalid_g hp (xrun_g hp st a) b.
Proof.
  induction a as [|o a IH]; intros st b; cbn [app xvalid_g].
  - cbn. tauto.
  - rewrite IH. rewrite xrun_cons. tauto.
Qed.

Lemma lrun_app v a b : lrun v (a ++ b) = lrun (lrun v a) b.
Proof. unfold lrun. apply fold_left_app. Qed.

Lemma blocks_app a b : blocks (a ++ b) = blocks a ++ blocks b.
Proof. unfold blocks. apply flat_map_app. Qed.

Lemma fans_app a b : fans (a ++ b) = fans a ++ fans b.
Proof. unfold fans. apply flat_map_app. Qed.

Lemma lown_app i a b : lown i (a ++ b) = lown i a ++ lown i b.
Proof. unfold lown. apply flat_map_app. Qed.

Definition lown1 (i : nat) (o : xop) : list lop :=
  match o with
  | XFan e => [LPush e]
  | XRecv k => if Nat.eqb k i then [LRecv] else []
  | _ => []
  end.

Lemma lown_cons i o ops : lown i (o :: ops) = lown1 i o ++ lown i ops.
Proof. reflexivity. Qed.

(* ---------------------------------------------------------------- one step_g, field by field *)

Lemma subscribe_hub sh r : sh_hub (fst (subscribe sh r)) = sh_hub sh.
Proof. unfold subscribe. destruct (request_burst (sh_hub sh) r); reflexivity. Qed.

Lemma hub_push_live (hp : hprod) h b : hp h b = (fst (hp h b), snd (hp h b)).
Proof. destruct (hp h b). reflexivity. Qed.

Lemma xstep_block hp st b :
  xstep_g hp st (XBlock b) =
  mkX (mkSH (fst (hp (sh_hub (x_sh st)) b)) (sh_subs (x_sh st))) (x_got st)
      (x_pend st ++ snd (hp (sh_hub (x_sh st)) b)).
Proof. cbn [xstep_g]. destruct (hp (sh_hub (x_sh st)) b). reflexivity. Qed.

Lemma xstep_sub_some hp st r burst :
  request_burst (sh_hub (x_sh st)) r = Some burst ->
  xstep_g hp st (XSub r) =
  mkX (mkSH (sh_hub (x_sh st)) (sh_subs (x_sh st) ++ [new_sub burst])) (x_got st ++ [[]]) (x_pend st).
Proof. intros H. cbn [xstep_g]. unfold subscribe. rewrite H. reflexivity. Qed.

Lemma xstep_sub_none hp st r :
  request_burst (sh_hub (x_sh st)) r = None -> xstep_g hp st (XSub r) = st.
Proof. intros H. cbn [xstep_g]. unfold subscribe. rewrite H. destruct st as [[h s] g p]. reflexivity. Qed.

Lemma xstep_hub hp st o :
  sh_hub (x_sh (xstep_g hp st o)) =
  match o with XBlock b => fst (hp (sh_hub (x_sh st)) b) | _ => sh_hub (x_sh st) end.
Proof.
  destruct o as [b|e|r|k].
  - rewrite xstep_block. reflexivity.
  - reflexivity.
  - cbn [xstep_g]. pose proof (subscribe_hub (x_sh st) r) as H.
    destruct (subscribe (x_sh st) r) as [sh' ok]. exact H.
  - cbn [xstep_g]. destruct (recv_nth k (sh_subs (x_sh st))). reflexivity.
Qed.

Lemma xstep_pend hp st o :
  x_pend (xstep_g hp st o) =
  match o with
  | XBlock b => x_pend st ++ snd (hp (sh_hub (x_sh st)) b)
  | XFan _ => tl (x_pend st)
  | _ => x_pend st
  end.
Proof.
  destruct o as [b|e|r|k].
  - rewrite xstep_block. reflexivity.
  - reflexivity.
  - cbn [xstep_g]. destruct (subscribe (x_sh st) r) as [sh' ok]. reflexivity.
  - cbn [xstep_g]. destruct (recv_nth k (sh_subs (x_sh st))). reflexivity.
Qed.

(* ---------------------------------------------------------------- the hub alone *)

Lemma xrun_hub_gen hp : forall ops st,
  xvalid_g hp st ops ->
  sh_hub (x_sh (xrun_g hp st ops)) = hub_after_g hp (sh_hub (x_sh st)) (blocks ops) /\
  fans ops ++ x_pend (xrun_g hp st ops)
  = x_pend st ++ push_events_g hp (sh_hub (x_sh st)) (blocks ops).
Proof.
  induction ops as [|o ops IH]; intros st Hv.
  - cbn. rewrite app_nil_r. auto.
  - destruct Hv as [Hok Hv]. rewrite xrun_cons. destruct (IH _ Hv) as [Hh Hp]. clear IH.
    rewrite xstep_hub in Hh. rewrite xstep_pend, xstep_hub in Hp.
    destruct o as [b|e|r|k]; cbn [xok] in Hok; cbn [blocks fans flat_map app] in *;
      fold (blocks ops) in *; fold (fans ops) in *.
    + cbn [hub_after_g push_events_g]. split; [exact Hh|]. rewrite Hp, Hok, app_assoc. reflexivity.
    + destruct Hok as [rest Hr]. rewrite Hr in *. cbn [tl] in Hp. split; [exact Hh|].
      cbn [app]. rewrite Hp. reflexivity.
    + split; [exact Hh | exact Hp].
    + split; [exact Hh | exact Hp].
Qed.

Theorem c08_serial_hub_proof hp : C08_serial_hub_g hp.
Proof.
  intros sh0 ops Hv st. subst st.
  destruct (xrun_hub_gen hp ops (xstart sh0) Hv) as [Hh Hp]. split; [exact Hh|].
  rewrite Hp. reflexivity.
Qed.

(* ---------------------------------------------------------------- receive on the n-th subscription *)

Lemma recv_nth_spec : forall subs k subs' q,
  recv_nth k subs = (subs', q) ->
  length subs' = length subs /\
  (forall i, i <> k -> nth_error subs' i = nth_error subs i) /\
  match nth_error subs k with
  | Some s => nth_error subs' k = Some (fst (sub_recv (s, []))) /\ q = snd (sub_recv (s, []))
  | None => nth_error subs' k = None /\ q = []
  end.
Proof.
  induction subs as [|s rest IH]; intros k subs' q H.
  - assert (H' : subs' = [] /\ q = []) by (destruct k; cbn [recv_nth] in H; inversion H; auto).
    destruct H' as [-> ->]. split; [reflexivity|]. split; [reflexivity|]. destruct k; cbn; auto.
  - destruct k as [|k]; cbn [recv_nth] in H.
    + unfold sub_recv. cbn [fst snd nth_error]. destruct (ms_queue s) as [|x qq] eqn:Hq; inversion H; subst.
      * split; [reflexivity|]. split; [reflexivity|]. auto.
      * split; [reflexivity|]. split; [intros [|i] Hi; [congruence|reflexivity]|]. auto.
    + destruct (recv_nth k rest) as [rest' q'] eqn:Hd. inversion H; subst.
      destruct (IH _ _ _ Hd) as [Hl [Hn Hk]]. split; [cbn [length]; congruence|].
      split; [intros [|i] Hi; [reflexivity|]; cbn [nth_error]; apply Hn; congruence|].
      cbn [nth_error]. exact Hk.
Qed.

Definition xwf (st : xstate) : Prop := length (sh_subs (x_sh st)) = length (x_got st).

Lemma xwf_step hp st o : xwf st -> xwf (xstep_g hp st o).
Proof.
  unfold xwf. intros H. destruct o as [b|e|r|k].
  - rewrite xstep_block. exact H.
  - cbn [xstep_g x_sh x_got sh_subs]. rewrite fan_out_map, map_length. exact H.
  - cbn [xstep_g]. unfold subscribe. destruct (request_burst (sh_hub (x_sh st)) r); cbn [x_sh x_got sh_subs];
      [rewrite !app_length; cbn [length]; lia | exact H].
  - cbn [xstep_g]. destruct (recv_nth k (sh_subs (x_sh st))) as [subs' q] eqn:Hd. cbn [x_sh x_got sh_subs].
    destruct (recv_nth_spec _ _ _ _ Hd) as [Hl _]. destruct (add_got_spec (x_got st) k q) as [Hl' _]. lia.
Qed.

Lemma xwf_run hp ops : forall st, xwf st -> xwf (xrun_g hp st ops).
Proof. induction ops as [|o ops IH]; intros st H; [exact H|]. apply IH, xwf_step, H. Qed.

Lemma xwf_start sh0 : xwf (xstart sh0).
Proof. unfold xwf, xstart. cbn. rewrite map_length. reflexivity. Qed.

(* number of subscriptions *)
Lemma xstep_nsubs hp st o :
  length (sh_subs (x_sh (xstep_g hp st o))) =
  match o with
  | XSub r => match request_burst (sh_hub (x_sh st)) r with
              | Some _ => S (length (sh_subs (x_sh st)))
              | None => length (sh_subs (x_sh st))
              end
  | _ => length (sh_subs (x_sh st))
  end.
Proof.
  destruct o as [b|e|r|k].
  - rewrite xstep_block. reflexivity.
  - cbn [xstep_g x_sh sh_subs]. rewrite fan_out_map, map_length. reflexivity.
  - cbn [xstep_g]. unfold subscribe. destruct (request_burst (sh_hub (x_sh st)) r); cbn [x_sh sh_subs];
      [rewrite app_length; cbn [length]; lia | reflexivity].
  - cbn [xstep_g]. destruct (recv_nth k (sh_subs (x_sh st))) as [subs' q] eqn:Hd. cbn [x_sh sh_subs].
    destruct (recv_nth_spec _ _ _ _ Hd) as [Hl _]. exact Hl.
Qed.

(* ---------------------------------------------------------------- one subscription inside the machine *)

Lemma xview_step hp st o i v :
  xview st i = Some v -> xview (xstep_g hp st o) i = Some (lrun v (lown1 i o)).
Proof.
  destruct v as [s g]. unfold xview. intros H. apply view_at_some in H. destruct H as [Hs Hg].
  destruct o as [b|e|r|k]; cbn [lown1 lrun fold_left].
  - rewrite xstep_block. cbn [x_sh x_got sh_subs]. apply view_at_some. auto.
  - cbn [xstep_g x_sh x_got sh_subs lstep fst snd]. apply view_at_some.
    rewrite fan_out_map, nth_error_map, Hs. auto.
  - assert (Hl1 : (i < length (sh_subs (x_sh st)))%nat) by (apply nth_error_Some; congruence).
    assert (Hl2 : (i < length (x_got st))%nat) by (apply nth_error_Some; congruence).
    cbn [xstep_g]. unfold subscribe. destruct (request_burst (sh_hub (x_sh st)) r); cbn [x_sh x_got sh_subs];
      apply view_at_some; [rewrite !nth_error_app1 by assumption|]; auto.
  - cbn [xstep_g]. destruct (recv_nth k (sh_subs (x_sh st))) as [subs' q] eqn:Hd. cbn [x_sh x_got sh_subs].
    destruct (recv_nth_spec _ _ _ _ Hd) as [_ [Hn Hk]]. destruct (add_got_spec (x_got st) k q) as [_ Hg'].
    destruct (Nat.eqb k i) eqn:Hki; cbn [fold_left].
    + apply Nat.eqb_eq in Hki. subst k. rewrite Hs in Hk. destruct Hk as [Hk ->].
      cbn [lstep]. unfold sub_recv in *. cbn [fst snd] in *.
      destruct (ms_queue s); cbn [fst snd app] in *; apply view_at_some;
        rewrite Hg', Nat.eqb_refl, Hk, Hg; cbn [option_map]; rewrite ?app_nil_r; auto.
    + apply view_at_some. rewrite Hg'. rewrite Nat.eqb_sym, Hki.
      apply Nat.eqb_neq in Hki. rewrite Hn by congruence. auto.
Qed.

Lemma xview_run hp ops : forall st i v,
  xview st i = Some v -> xview (xrun_g hp st ops) i = Some (lrun v (lown i ops)).
Proof.
  induction ops as [|o ops IH]; intros st i v H; [exact H|].
  rewrite xrun_cons, lown_cons, lrun_app. apply IH. apply xview_step. exact H.
Qed.

(* operations that do not concern an existing subscription i leave it alone *)
Lemma xview_run_none hp ops st i v :
  xview st i = Some v -> lown i ops = [] -> xview (xrun_g hp st ops) i = Some v.
Proof. intros Hv H. rewrite (xview_run hp ops st i v Hv), H. reflexivity. Qed.

(* the subscription just created *)
Lemma xview_new hp st r burst :
  xwf st -> request_burst (sh_hub (x_sh st)) r = Some burst ->
  xview (xstep_g hp st (XSub r)) (length (sh_subs (x_sh st))) = Some (new_sub burst, []).
Proof.
  unfold xwf, xview. intros H Hb. rewrite (xstep_sub_some _ _ _ _ Hb). cbn [x_sh x_got sh_subs].
  apply view_at_some. rewrite !nth_error_snoc. rewrite <- H. rewrite Nat.ltb_irrefl, Nat.eqb_refl. auto.
Qed.

Theorem c08_serial_lone_proof hp : C08_serial_lone_g hp.
Proof.
  intros sh0 pre r post burst x1 Hb i. subst x1 i.
  rewrite xrun_app, xrun_cons. apply xview_run. apply xview_new; [apply xwf_run, xwf_start | exact Hb].
Qed.

(* ---------------------------------------------------------------- exactly once *)

Lemma sub_recv_keeps v :
  ms_cap (fst (sub_recv v)) = ms_cap (fst v) /\ ms_dropped (fst (sub_recv v)) = ms_dropped (fst v) /\
  snd (sub_recv v) ++ ms_queue (fst (sub_recv v)) = snd v ++ ms_queue (fst v).
Proof.
  destruct v as [s g]. unfold sub_recv. cbn [fst snd]. destruct (ms_queue s) as [|x q] eqn:Hq; cbn [fst snd ms_cap ms_dropped ms_queue].
  - rewrite Hq. auto.
  - rewrite <- app_assoc. auto.
Qed.

Lemma xrun_around hp st pre r post o :
  xrun_g hp st (pre ++ XSub r :: post ++ [o]) = xstep_g hp (xrun_g hp st (pre ++ XSub r :: post)) o.
Proof.
  change (pre ++ XSub r :: post ++ [o]) with (pre ++ (XSub r :: post) ++ [o]).
  rewrite app_assoc. apply xrun_snoc.
Qed.

Theorem c08_serial_exactly_once_proof hp : C08_serial_exactly_once_g hp.
Proof.
  intros sh0 pre r post burst x1 Hb i. subst x1 i.
  set (x0 := xstart sh0). set (i := length (sh_subs (x_sh (xrun_g hp x0 pre)))).
  induction post as [|o post IH] using rev_ind.
  - exists (new_sub burst), []. rewrite xrun_app, xrun_cons. cbn [xrun_g fold_left].
    split; [apply xview_new; [apply xwf_run, xwf_start | exact Hb]|]. split; [reflexivity|].
    split; [intros _; cbn; rewrite app_nil_r; reflexivity | discriminate].
  - destruct IH as [s [got [Hv [Hcap [Hlive Hdrop]]]]].
    rewrite xrun_around. pose proof (xview_step hp _ o _ _ Hv) as Hv'.
    destruct (ms_dropped s) eqn:Hd.
    + clear Hlive. specialize (Hdrop eq_refl).
      assert (Hstay : exists s' got', lrun (s, got) (lown1 i o) = (s', got') /\ ms_cap s' = ms_cap s /\
                                      ms_dropped s' = true /\ got' ++ ms_queue s' = got ++ ms_queue s).
      { destruct o as [b|e|r'|k]; cbn [lown1 lrun fold_left lstep fst snd].
        - exists s, got; auto.
        - unfold sub_push. rewrite Hd. exists s, got; auto.
        - exists s, got; auto.
        - destruct (Nat.eqb k i); cbn [fold_left lstep]; [|exists s, got; auto].
          destruct (sub_recv_keeps (s, got)) as [H1 [H2 H3]]. cbn [fst snd] in *.
          destruct (sub_recv (s, got)) as [s' got'] eqn:Hr. cbn [fst snd] in *.
          exists s', got'. split; [reflexivity|]. split; [exact H1|]. split; [congruence | exact H3]. }
      destruct Hstay as [s' [got' [Hrun [Hc' [Hd' Hq']]]]]. rewrite Hrun in Hv'.
      exists s', got'. split; [exact Hv'|]. split; [congruence|]. split; [congruence|]. intros _.
      destruct Hdrop as [post1 [e [post2 [s1 [got1 [Hp [Hv1 [Hd1 [Hfull [Hq1 Hq2]]]]]]]]]].
      exists post1, e, (post2 ++ [o]), s1, got1.
      split; [rewrite Hp, <- app_assoc; reflexivity|]. split; [exact Hv1|]. split; [exact Hd1|].
      split; [exact Hfull|]. split; congruence.
    + clear Hdrop. specialize (Hlive eq_refl).
      destruct o as [b|e|r'|k]; cbn [lown1 lrun fold_left lstep fst snd] in Hv'.
      * exists s, got. split; [exact Hv'|]. split; [exact Hcap|]. split; [|congruence]. intros _.
        rewrite fans_app. cbn [fans flat_map]. rewrite !app_nil_r. exact Hlive.
      * unfold sub_push in Hv'. rewrite Hd in Hv'.
        destruct (N.of_nat (length (ms_queue s)) =? ms_cap s) eqn:Hfull.
        -- eexists. eexists. split; [exact Hv'|]. cbn [ms_cap ms_dropped ms_queue]. split; [exact Hcap|].
           split; [discriminate|]. intros _.
           exists post, e, [], s, got. split; [reflexivity|]. split; [exact Hv|]. split; [exact Hd|].
           split; [apply N.eqb_eq; exact Hfull|]. split; [reflexivity | exact Hlive].
        -- eexists. eexists. split; [exact Hv'|]. cbn [ms_cap ms_dropped ms_queue]. split; [exact Hcap|].
           split; [|discriminate]. intros _. rewrite fans_app. cbn [fans flat_map app]. rewrite map_app. cbn [map].
           rewrite app_assoc, Hlive, <- app_assoc. reflexivity.
      * exists s, got. split; [exact Hv'|]. split; [exact Hcap|]. split; [|congruence]. intros _.
        rewrite fans_app. cbn [fans flat_map]. rewrite !app_nil_r. exact Hlive.
      * assert (Hf : fans (post ++ [XRecv k]) = fans post)
          by (rewrite fans_app; cbn [fans flat_map]; rewrite !app_nil_r; reflexivity).
        rewrite Hf. destruct (Nat.eqb k i); cbn [fold_left lstep] in Hv'.
        -- destruct (sub_recv_keeps (s, got)) as [H1 [H2 H3]]. cbn [fst snd] in *.
           destruct (sub_recv (s, got)) as [s' got'] eqn:Hr. cbn [fst snd] in *.
           exists s', got'. split; [exact Hv'|]. split; [congruence|].
           split; [intros _; rewrite H3; exact Hlive | congruence].
        -- exists s, got. split; [exact Hv'|]. split; [exact Hcap|]. split; [intros _; exact Hlive | congruence].
Qed.

(* ---------------------------------------------------------------- isolation *)

Definition xsame_but (j : nat) (st st' : xstate) : Prop :=
  sh_hub (x_sh st) = sh_hub (x_sh st') /\ x_pend st = x_pend st' /\
  length (sh_subs (x_sh st)) = length (sh_subs (x_sh st')) /\ length (x_got st) = length (x_got st') /\
  forall i, i <> j -> nth_error (sh_subs (x_sh st)) i = nth_error (sh_subs (x_sh st')) i /\
                      nth_error (x_got st) i = nth_error (x_got st') i.

Lemma xsame_but_refl j st : xsame_but j st st.
Proof. repeat split. Qed.

Lemma xsame_but_sym j a b : xsame_but j a b -> xsame_but j b a.
Proof.
  intros [H0 [H0' [H1 [H2 H3]]]]. repeat split; try congruence; symmetry; apply H3; assumption.
Qed.

Lemma xsame_but_trans j a b c : xsame_but j a b -> xsame_but j b c -> xsame_but j a c.
Proof.
  intros [H0 [H0' [H1 [H2 H3]]]] [K0 [K0' [K1 [K2 K3]]]].
  split; [congruence|]. split; [congruence|]. split; [congruence|]. split; [congruence|].
  intros i Hi. destruct (H3 i Hi), (K3 i Hi). split; congruence.
Qed.

Lemma xsame_but_step hp j st st' o :
  xsame_but j st st' -> xsame_but j (xstep_g hp st o) (xstep_g hp st' o).
Proof.
  intros [H0 [H0' [H1 [H2 H3]]]]. unfold xsame_but. destruct o as [b|e|r|k].
  - rewrite !xstep_block. cbn [x_sh x_got x_pend sh_hub sh_subs]. rewrite H0, H0'. repeat split; try assumption; apply H3; assumption.
  - cbn [xstep_g x_sh x_got x_pend sh_hub sh_subs]. split; [exact H0|]. split; [congruence|].
    split; [rewrite !fan_out_map, !map_length; exact H1|]. split; [exact H2|].
    intros i Hi. destruct (H3 i Hi) as [Ha Hb]. rewrite !fan_out_map, !nth_error_map, Ha. auto.
  - cbn [xstep_g]. unfold subscribe. rewrite <- H0. destruct (request_burst (sh_hub (x_sh st)) r);
      cbn [x_sh x_got x_pend sh_hub sh_subs].
    + split; [reflexivity|]. split; [exact H0'|]. split; [rewrite !app_length; cbn [length]; lia|].
      split; [rewrite !app_length; cbn [length]; lia|].
      intros i Hi. destruct (H3 i Hi) as [Ha Hb]. rewrite !nth_error_snoc, Ha, Hb, H1, H2. auto.
    + repeat split; try assumption; apply H3; assumption.
  - cbn [xstep_g]. destruct (recv_nth k (sh_subs (x_sh st))) as [subs1 q1] eqn:Hd1.
    destruct (recv_nth k (sh_subs (x_sh st'))) as [subs2 q2] eqn:Hd2. cbn [x_sh x_got x_pend sh_hub sh_subs].
    destruct (recv_nth_spec _ _ _ _ Hd1) as [Hl1 [Hn1 Hk1]].
    destruct (recv_nth_spec _ _ _ _ Hd2) as [Hl2 [Hn2 Hk2]].
    destruct (add_got_spec (x_got st) k q1) as [Hg1 Hm1]. destruct (add_got_spec (x_got st') k q2) as [Hg2 Hm2].
    split; [exact H0|]. split; [exact H0'|]. split; [lia|]. split; [lia|].
    intros i Hi. destruct (H3 i Hi) as [Ha Hb]. rewrite Hm1, Hm2.
    destruct (Nat.eqb i k) eqn:Hik.
    + apply Nat.eqb_eq in Hik. subst k. rewrite <- Ha in Hk2.
      destruct (nth_error (sh_subs (x_sh st)) i) as [s|].
      * destruct Hk1 as [E1 ->]. destruct Hk2 as [E2 ->]. rewrite E1, E2, Hb. auto.
      * destruct Hk1 as [E1 ->]. destruct Hk2 as [E2 ->]. rewrite E1, E2, Hb. auto.
    + apply Nat.eqb_neq in Hik. rewrite (Hn1 i Hik), (Hn2 i Hik). auto.
Qed.

Lemma xsame_but_recv hp j st : xsame_but j (xstep_g hp st (XRecv j)) st.
Proof.
  unfold xsame_but. cbn [xstep_g]. destruct (recv_nth j (sh_subs (x_sh st))) as [subs1 q1] eqn:Hd1.
  cbn [x_sh x_got x_pend sh_hub sh_subs].
  destruct (recv_nth_spec _ _ _ _ Hd1) as [Hl1 [Hn1 _]]. destruct (add_got_spec (x_got st) j q1) as [Hg1 Hm1].
  split; [reflexivity|]. split; [reflexivity|]. split; [lia|]. split; [lia|]. intros i Hi.
  rewrite (Hn1 i Hi), Hm1. apply Nat.eqb_neq in Hi. rewrite Hi. auto.
Qed.

Lemma xsame_but_erase hp j ops : forall st st',
  xsame_but j st st' -> xsame_but j (xrun_g hp st ops) (xrun_g hp st' (xerase j ops)).
Proof.
  induction ops as [|o ops IH]; intros st st' H; [exact H|].
  rewrite xrun_cons. cbn [xerase filter].
  destruct o as [b|e|r|k]; cbn [negb]; try (rewrite xrun_cons; apply IH; apply xsame_but_step; exact H).
  destruct (Nat.eqb k j) eqn:Hk; cbn [negb].
  - apply Nat.eqb_eq in Hk. subst k. apply IH. eapply xsame_but_trans; [apply xsame_but_recv | exact H].
  - rewrite xrun_cons. apply IH. apply xsame_but_step. exact H.
Qed.

Lemma xsame_but_view j a b i : xsame_but j a b -> i <> j -> xview a i = xview b i.
Proof.
  intros [_ [_ [_ [_ H]]]] Hi. destruct (H i Hi) as [Ha Hb]. unfold xview, view_at. rewrite Ha, Hb. reflexivity.
Qed.

Theorem c08_serial_isolation_proof hp : C08_serial_isolation_g hp.
Proof.
  intros st0 ops1 ops2 i j Hij He.
  pose proof (xsame_but_erase hp j ops1 st0 st0 (xsame_but_refl j st0)) as H1.
  pose proof (xsame_but_erase hp j ops2 st0 st0 (xsame_but_refl j st0)) as H2.
  rewrite He in H1.
  apply (xsame_but_view j); [|exact Hij].
  eapply xsame_but_trans; [exact H1 | apply xsame_but_sym; exact H2].
Qed.
