(* C07, final blocks only - the hub side: the Irreversible events of one ProcessBlock call of a hub past the discovery
   announce exactly the blocks that become final, a parent-linked run resting on the LIB block (StepOut of
   MovingLibInv.v through the hub invariant Post); the new+irreversible events of a burst for a block number are
   the burst's blocks up to the LIB. *)
From Coq Require Import Sorted.
From BV Require Import Base.Prelude Model.Block Model.ForkDB Model.Forkable Model.ForkableLookups Model.Burst Model.Hub
  Model.Joining
  Spec.Consumer Spec.Universe Check.Fk_Check Check.Burst_Check Spec.C09_Spec Spec.C07_Spec Spec.C07_Compose_Spec
  Proofs.Fk.StoreFacts Proofs.Fk.WalkFacts Proofs.Fk.LoopFacts Proofs.Fk.StoreChange Proofs.Fk.SwitchFacts
  Proofs.Fk.FixedLib Proofs.Fk.MovingLibStore Proofs.Fk.MovingLibWalk Proofs.Fk.MovingLibLoops
  Proofs.Fk.MovingLibInv Proofs.Fk.MovingLibFin Proofs.Fk.MovingLibDisc
  Proofs.Hub.StepFields Proofs.Hub.ConsFacts Proofs.Hub.StepStore Proofs.Hub.Retention Proofs.Hub.StepIrr
  Proofs.Hub.HubInv Proofs.Hub.HubRun Proofs.Hub.HubFed Proofs.Hub.LinkedRuns Proofs.Hub.CursorLife
  Proofs.C09_Store Proofs.C09_Segment Proofs.C09_Proofs Proofs.Hub.C09_History
  Proofs.C06_Lists Proofs.C07_Live Proofs.C07_ComposeStack Proofs.C07_ComposeHub Proofs.C07_ComposeRun.
Local Open Scope N_scope.

(* the events a final-blocks-only handler receives *)
Definition irr_ev (e : event) : bool := matches_irr (estep e).

Lemma filter_irr_app l1 l2 : filter irr_ev (l1 ++ l2) = filter irr_ev l1 ++ filter irr_ev l2.
Proof. apply filter_app. Qed.

Lemma filter_irr_none l : Forall (fun e => matches_irr (estep e) = false) l -> filter irr_ev l = [].
Proof. intros H. apply C06_Lists.filter_none. exact H. Qed.

Lemma filter_irr_all l : Forall (fun e => estep e = SIrr) l -> filter irr_ev l = l.
Proof.
  intros H. apply C06_Lists.filter_all. eapply Forall_impl; [|exact H]. cbn beta. intros e He. unfold irr_ev. rewrite He. reflexivity.
Qed.

Section FinalHub.
  Variable U : list block.
  Variables first kept : N.

  Hypothesis U_id : forall b, In b U -> bid b <> 0 /\ bid b <> bparent b.
  Hypothesis U_uniq : forall x y, In x U -> In y U -> bid x = bid y -> x = y.
  Hypothesis U_up : forall x y, In x U -> In y U -> bparent x = bid y -> bnum y < bnum x.
  Hypothesis D_decl : forall b, In b U -> decl_none U b.

  Let cfg := hub_config first kept.
  Let Hnofail : c_fail_at cfg = None := eq_refl.
  Let Hnew : f_new (c_filter cfg) = true := eq_refl.
  Let Hundo : f_undo (c_filter cfg) = true := eq_refl.
  Let Hirr : f_irr (c_filter cfg) = true := eq_refl.
  Let Hhold : c_hold cfg = true := eq_refl.
  Let Hincl : c_incl cfg = false := eq_refl.

  Notation Post := (Post U cfg).

  (* one call: the Irreversible events announce Fnew, the blocks that become final *)
  Lemma post_step_irr a s Fin S c b : Post a s Fin S c -> In b U ->
    exists s' evs Fnew S' c',
      fk_step cfg s b = (s', evs, ROk) /\ Post a s' (Fin ++ Fnew) S' c' /\
      map eblk (filter irr_ev evs) = Fnew /\
      lnk (bid (libblk a Fin)) Fnew /\
      Forall (fun x => In x U /\ bnum (libblk a Fin) < bnum x) Fnew.
  Proof.
    intros [Ha HI Hc Hcl Hne Hx] Hb.
    destruct (inv_lib U cfg a s Fin S Ha HI) as (HLU & Hlib).
    set (L := libblk a Fin) in *.
    assert (HrnL : rn (libref (db s)) = bnum L) by (rewrite Hlib; reflexivity).
    assert (HriL : ri (libref (db s)) = bid L) by (rewrite Hlib; reflexivity).
    destruct (step_inv U (R a) cfg Hnofail Hnew Hundo U_id U_uniq U_up (R_id U U_id a Ha) (R_num U U_uniq a Ha)
                (R_up U U_up a Ha) (R_decl U U_uniq D_decl a Ha) s Fin S b HI Hb)
      as (s' & evA & evI & evS & Fnew & S' & Hstep & Happ & HI' & HsA & HuA & HsI & HsS & HmI & Hmono & HFnew & _ & _ & _ & HSS & _).
    change (f_irr (c_filter cfg)) with true in HmI. cbv iota in HmI.
    pose proof HI as [Hd Hfin Hflast Hh]. pose proof HI' as [Hd' Hfin' Hflast' Hh'].
    assert (Hhd : exists hd, last_sent s = Some hd).
    { destruct (last_sent s) as [hd|]; [eauto|]. destruct Hh as (HS0 & _). contradiction. }
    destruct Hhd as [hd Els].
    destruct HFnew as [[HFn HFl]|(Hls0 & _)]; [|congruence].
    assert (HS'ne : S' <> []) by (destruct HSS as [HSS|HSS]; [contradiction | exact HSS]).
    assert (Hhl : has_lib (db s) = true) by (apply (di_has_lib U (R a)); exact Hd).
    destruct (fk_step_fields cfg Hnofail Hincl s b Hhl Hcl (proj1 (U_id b Hb)))
      as (s2 & evU & evN & evL & r & Hrun & HsU & HsN & HsL & HF & Hc2 & Hx2).
    rewrite Hstep in Hrun. injection Hrun as <- Hevs <-.
    exists s', (evA ++ evI ++ evS), Fnew, S', (mkCons S' (length (Fin ++ Fnew)) true).
    split; [exact Hstep|]. split.
    { constructor; try assumption; try reflexivity.
      - destruct (Hc2 eq_refl) as [H|(f & Hf & _)]; [exact H | discriminate].
      - apply Hx2. exact Hx. }
    split.
    { rewrite !filter_irr_app, (filter_irr_none evA), (filter_irr_all evI HsI), (filter_irr_none evS), app_nil_r; [exact HmI| |].
      - eapply Forall_impl; [|exact HsS]. cbn beta. intros e He. rewrite He. reflexivity.
      - eapply Forall_impl; [|exact HsA]. cbn beta. intros e [He|He]; rewrite He; reflexivity. }
    split; [rewrite <- HriL; exact HFl|].
    apply Forall_forall. intros x Hxin. rewrite Forall_forall in HFn, Hfin'. destruct (HFn x Hxin) as [H1 _].
    split; [apply Hfin'; apply in_or_app; right; exact Hxin | lia].
  Qed.

  (* the same on the reference stack with the final part explicit *)
  Lemma vstatex_step_irr a Fin A s V b : VStateX U first kept a Fin A s V -> In b U ->
    exists s' evs Fnew V', fk_step cfg s b = (s', evs, ROk) /\ VStateX U first kept a (Fin ++ Fnew) A s' V' /\
      map eblk (filter irr_ev evs) = Fnew /\ lnk (bid (libblk a Fin)) Fnew /\
      Forall (fun x => In x U /\ bnum (libblk a Fin) < bnum x) Fnew.
  Proof.
    intros (S & c & HP & HR & ->) Hb.
    destruct (post_step_irr a s Fin S c b HP Hb) as (s' & evs & Fnew & S' & c' & Hstep & HP' & Hirrs & HlF & HFU).
    exists s', evs, Fnew, (S' ++ rev A). split; [exact Hstep|]. split; [|split; [exact Hirrs | split; [exact HlF | exact HFU]]].
    exists S', c'. split; [exact HP'|]. split; [apply rooted_app; assumption | reflexivity].
  Qed.
End FinalHub.

(* ------------------------------------------------------------------ the arrivals of a world *)

Section FinalWorld.
  Variable U : list block.
  Variable c : jcfg.
  Hypothesis U_id : forall b, In b U -> bid b <> 0 /\ bid b <> bparent b.
  Hypothesis U_uniq : forall x y, In x U -> In y U -> bid x = bid y -> x = y.
  Hypothesis U_up : forall x y, In x U -> In y U -> bparent x = bid y -> bnum y < bnum x.
  Hypothesis D_decl : forall b, In b U -> decl_none U b.

  Let first := j_first c.
  Let kept := j_kept c.

  (* a ready hub with the final part of its history explicit *)
  Definition LOKX (a : block) (Fin A : list block) (w : world) : Prop :=
    h_ready (w_hub w) = true /\ (exists V, VStateX U first kept a Fin A (h_f (w_hub w)) V) /\
    (forall b, In b (w_rest w) -> In b U).

  Lemma lokx_push_one a Fin A w : LOKX a Fin A w ->
    exists F, LOKX a (Fin ++ F) A (fst (push_one c w)) /\
      map eblk (filter irr_ev (snd (push_one c w))) = F /\ lnk (bid (libblk a Fin)) F /\
      Forall (fun x => In x U /\ bnum (libblk a Fin) < bnum x) F.
  Proof.
    intros (Hrd & [V HV] & Hr). unfold push_one. destruct (w_rest w) as [|b r] eqn:Er.
    - exists []. rewrite app_nil_r. cbn [fst snd filter map]. split; [|split; [reflexivity | split; [exact I | constructor]]].
      split; [exact Hrd|]. split; [exists V; exact HV | rewrite Er; exact Hr].
    - destruct (vstatex_step_irr U first kept U_id U_uniq U_up D_decl a Fin A (h_f (w_hub w)) V b HV (Hr b (or_introl eq_refl)))
        as (s' & evs & Fnew & V' & Hstep & HV' & Hirrs & HlF & HFU).
      unfold hub_live. fold first kept. rewrite Hrd, Hstep. cbn [fst snd].
      exists Fnew. split; [|split; [exact Hirrs | split; [exact HlF | exact HFU]]].
      split; [reflexivity|]. split; [exists V'; exact HV'|]. cbn [w_rest]. intros x Hx. apply Hr. right. exact Hx.
  Qed.

  Lemma libblk_app_tip a Fin F : lnk (bid (libblk a Fin)) F -> forall G, lnk (bid (libblk a (Fin ++ F))) G -> lnk (bid (libblk a Fin)) (F ++ G).
  Proof. intros HF G HG. apply linked_app_iff. split; [exact HF|]. rewrite <- libblk_tip. exact HG. Qed.

  Lemma lokx_push_n k : forall a Fin A w, LOKX a Fin A w ->
    exists F, LOKX a (Fin ++ F) A (world_after c k w) /\
      map eblk (filter irr_ev (pushed c k w)) = F /\ lnk (bid (libblk a Fin)) F /\
      Forall (fun x => In x U /\ bnum (libblk a Fin) < bnum x) F.
  Proof.
    unfold world_after, pushed. induction k as [|k IH]; intros a Fin A w H.
    - exists []. rewrite app_nil_r. split; [exact H|]. split; [reflexivity|]. split; [exact I | constructor].
    - cbn [push_n]. destruct (lokx_push_one a Fin A w H) as (F1 & H1 & Hi1 & Hl1 & HU1).
      destruct (push_one c w) as [w1 e1]. cbn [fst snd] in *.
      destruct (IH a (Fin ++ F1) A w1 H1) as (F2 & H2 & Hi2 & Hl2 & HU2).
      destruct (push_n c k w1) as [w2 e2]. cbn [fst snd] in *.
      exists (F1 ++ F2). rewrite app_assoc. split; [exact H2|]. split; [rewrite filter_irr_app, map_app, Hi1, Hi2; reflexivity|].
      split; [apply libblk_app_tip; assumption|].
      apply Forall_app. split; [exact HU1|].
      eapply Forall_impl; [|exact HU2]. cbn beta. intros x [Hx1 Hx2]. split; [exact Hx1|].
      assert (Hm : bnum (libblk a Fin) <= bnum (libblk a (Fin ++ F1))).
      { apply libblk_mono. eapply Forall_impl; [|exact HU1]. cbn beta. tauto. }
      lia.
  Qed.

  Lemma lokx_of_lok w V : LOK U c w V -> exists a Fin A, LOKX a Fin A w.
  Proof.
    intros (Hrd & HV & Hr). destruct (vstate_x U first kept _ _ HV) as (a & Fin & A & HX).
    exists a, Fin, A. split; [exact Hrd|]. split; [exists V; exact HX | exact Hr].
  Qed.
End FinalWorld.
