(* C08, schedule part, 5: from the invariants to the statements of Spec/C08_Sched_Spec.v. *)
From BV Require Import Base.Prelude Model.Block Model.ForkDB Model.Forkable Model.ForkableLookups
  Model.Burst Model.Hub Model.HubSubs Model.HubSched Spec.C08_Spec Spec.C08_Sched_Spec
  Proofs.C08_Abstract Proofs.C08_SchedSerial Proofs.C08_SchedInv Proofs.C08_SchedReg Proofs.C08_SchedRefine.
Local Open Scope N_scope.

Lemma list_ext_nth {A} : forall (l l' : list A),
  length l = length l' -> (forall p x, nth_error l' p = Some x -> nth_error l p = Some x) -> l = l'.
Proof.
  induction l as [|a l IH]; intros [|b l'] Hl H; try discriminate; [reflexivity|].
  pose proof (H O b eq_refl) as H0. cbn in H0. inversion H0; subst. f_equal.
  apply IH; [cbn in Hl; lia|]. intros p x Hp. apply (H (S p) x Hp).
Qed.

Section Thms.
  Variables (first kept : N) (h0 : hub) (script : list block).
  Notation x0 := (xstart (mkSH h0 [])).
  Notation Cof := (Cof first kept h0).

  Definition Fof (st : cstate) : xstate := xrun first kept x0 (map snd (serial st)).

  Lemma serial_ops st :
    map snd (serial st) =
    map snd (g_log st) ++ match inflight st with Some (e, _) => XFan e :: map snd (g_tail st) | None => [] end.
  Proof.
    unfold serial. destruct (inflight st) as [[e todo]|]; [|rewrite app_nil_r; reflexivity].
    rewrite map_app. reflexivity.
  Qed.

  (* the full serialisation on the serial machine, from the invariant on its committed part *)
  Lemma F_facts st :
    RegInv st -> SerInv first kept h0 script st ->
    xvalid first kept x0 (map snd (serial st)) /\
    sh_hub (x_sh (Fof st)) = g_hub st /\
    x_pend (Fof st) = pend_of st /\
    length (sh_subs (x_sh (Fof st))) = length (g_order st) /\
    forall p i, nth_error (g_order st) p = Some i -> xview (Fof st) p = Some (sub_done st i, got_at st i).
  Proof.
    intros R S. pose proof (tail_recvs first kept h0 script st S) as Hro.
    pose proof (tail_lown_nil first kept h0 script st) as Hnil.
    pose proof S as S'. destruct S' as [S1 S2 S3 S4 S5 S6 S7 S8 S9].
    unfold Fof. rewrite serial_ops. unfold sub_done.
    destruct (inflight st) as [[e todo]|] eqn:Hinf.
    - rewrite xrun_app. change (xrun first kept x0 (map snd (g_log st))) with (Cof st). rewrite xrun_cons.
      destruct (recvs_only_run first kept _ (xstep first kept (Cof st) (XFan e)) Hro) as [Hv [Hh [Hp [Hn _]]]].
      rewrite xstep_hub in Hh. rewrite xstep_pend, S4 in Hp. rewrite xstep_nsubs in Hn. cbn [tl] in Hp.
      split; [apply xvalid_app; split; [exact S2|]; cbn [xvalid xok]; split; [eexists; exact S4 | exact Hv]|].
      split; [rewrite Hh; exact S3|]. split; [exact Hp|]. split; [rewrite Hn; exact S5|].
      intros p i Hpi. destruct (S6 p i Hpi) as [v [Hv' Hr]].
      rewrite <- xrun_cons. rewrite (xview_run first kept _ _ _ _ Hv'). rewrite lown_cons. cbn [lown1 app].
      unfold after in Hr. rewrite Hinf in Hr. destruct (memb i todo) eqn:Hm.
      + rewrite (Hnil e todo p i R S eq_refl Hpi Hm). cbn [lrun fold_left] in *. subst v. reflexivity.
      + rewrite Hr. reflexivity.
    - rewrite app_nil_r. change (xrun first kept x0 (map snd (g_log st))) with (Cof st).
      split; [exact S2|]. split; [exact S3|]. split; [exact S4|]. split; [exact S5|].
      intros p i Hpi. destruct (S6 p i Hpi) as [v [Hv' Hr]]. unfold after in Hr. rewrite Hinf in Hr.
      cbn [lrun fold_left] in Hr. subst v. exact Hv'.
  Qed.

  Lemma F_state st :
    RegInv st -> SerInv first kept h0 script st -> Fof st = sview st.
  Proof.
    intros R S. destruct (F_facts st R S) as [_ [Hh [Hp [Hn Hview]]]].
    pose proof (xwf_run first kept (map snd (serial st)) x0 (xwf_start _)) as Hwf. fold (Fof st) in Hwf.
    unfold xwf in Hwf. unfold sview.
    destruct (Fof st) as [[h subs] got pend] eqn:HF. cbn [x_sh x_got x_pend sh_hub sh_subs] in *.
    subst h pend. f_equal; [f_equal|].
    - apply list_ext_nth; [rewrite map_length; exact Hn|]. intros p s Hs.
      rewrite nth_error_map in Hs. destruct (nth_error (g_order st) p) as [i|] eqn:Hpi; [|discriminate].
      inversion Hs; subst s. specialize (Hview p i Hpi). unfold xview in Hview. cbn [x_sh x_got sh_subs] in Hview.
      apply view_at_some in Hview. apply Hview.
    - apply list_ext_nth; [rewrite map_length; lia|]. intros p g Hg.
      rewrite nth_error_map in Hg. destruct (nth_error (g_order st) p) as [i|] eqn:Hpi; [|discriminate].
      inversion Hg; subst g. specialize (Hview p i Hpi). unfold xview in Hview. cbn [x_sh x_got sh_subs] in Hview.
      apply view_at_some in Hview. apply Hview.
  Qed.

End Thms.
