(* C20: list facts and the reference window (spec_window) *)
From BV Require Import Base.Prelude Proofs.PreludeFacts Model.BlockServer Spec.C20_Spec.
Local Open Scope nat_scope.

(* ------------------------------------------------------------------ lastn *)

Lemma lastn_length {A} n (l : list A) : length (lastn n l) = Nat.min n (length l).
Proof. unfold lastn. rewrite skipn_length. lia. Qed.

Lemma lastn_all {A} n (l : list A) : length l <= n -> lastn n l = l.
Proof. intros H. unfold lastn. replace (length l - n) with 0 by lia. reflexivity. Qed.

Lemma lastn_zero {A} (l : list A) : lastn 0 l = [].
Proof. unfold lastn. rewrite Nat.sub_0_r. apply skipn_all. Qed.

Lemma lastn_incl {A} n (l : list A) x : In x (lastn n l) -> In x l.
Proof.
  unfold lastn. intros H. rewrite <- (firstn_skipn (length l - n) l). apply in_or_app. now right.
Qed.

Lemma skipn_NoDup {A} n (l : list A) : NoDup l -> NoDup (skipn n l).
Proof.
  revert l. induction n as [|n IH]; intros l H; simpl; auto.
  destruct l as [|a l]; auto. inversion H; subst. now apply IH.
Qed.

Lemma lastn_NoDup {A} n (l : list A) : NoDup l -> NoDup (lastn n l).
Proof. apply skipn_NoDup. Qed.

Lemma lastn_snoc_in {A} n (l : list A) x : 1 <= n -> In x (lastn n (l ++ [x])).
Proof.
  intros Hn. unfold lastn. rewrite skipn_app. apply in_or_app. right.
  rewrite app_length. simpl.
  replace (length l + 1 - n - length l) with 0 by lia. simpl. now left.
Qed.

Lemma skipn_skipn' {A} a b (l : list A) : skipn a (skipn b l) = skipn (a + b) l.
Proof.
  revert l. induction b as [|b IH]; intros l.
  - now rewrite Nat.add_0_r.
  - rewrite Nat.add_succ_r. destruct l as [|y l]; simpl.
    + now rewrite skipn_nil.
    + apply IH.
Qed.

Lemma lastn_app_lastn {A} n (l : list A) x : lastn n (lastn n l ++ [x]) = lastn n (l ++ [x]).
Proof.
  destruct (Nat.le_gt_cases (length l) n) as [Hle|Hgt].
  - now rewrite (lastn_all n l Hle).
  - unfold lastn at 1 3. rewrite !skipn_app, !app_length, lastn_length. simpl.
    replace (Nat.min n (length l)) with n by lia.
    unfold lastn. rewrite skipn_skipn'.
    replace (n + 1 - n + (length l - n)) with (length l + 1 - n) by lia.
    replace (n + 1 - n - n) with (length l + 1 - n - length l) by lia.
    reflexivity.
Qed.

Lemma lastn_snoc_small {A} n (l : list A) x : length l + 1 <= n -> lastn n (l ++ [x]) = l ++ [x].
Proof. intros H. apply lastn_all. rewrite app_length. simpl. lia. Qed.

Lemma lastz_lastn {A} (n : Z) (l : list A) : lastz n l = lastn (Z.to_nat n) l.
Proof. unfold lastz, lastn, zlen. f_equal. lia. Qed.

(* ------------------------------------------------------------------ membership / distinct *)

Lemma memN_false x l : memN x l = false <-> ~ In x l.
Proof.
  split; intros H.
  - intros Hin. apply memN_In in Hin. congruence.
  - destruct (memN x l) eqn:E; auto. apply memN_In in E. contradiction.
Qed.

Lemma memN_app x a b : memN x (a ++ b) = memN x a || memN x b.
Proof. induction a as [|y a IH]; simpl; auto. rewrite IH. now rewrite orb_assoc. Qed.

Lemma NoDup_snoc (l : list N) x : NoDup l -> ~ In x l -> NoDup (l ++ [x]).
Proof.
  induction l as [|a l IH]; intros Hnd Hnin; simpl.
  - constructor; [auto|constructor].
  - inversion Hnd; subst. constructor.
    + intros Hin. apply in_app_or in Hin. destruct Hin as [Hin|[Hin|[]]]; auto.
      subst. apply Hnin. now left.
    + apply IH; auto. intros Hin. apply Hnin. now right.
Qed.

Lemma NoDup_snoc_inv (l : list N) x : NoDup (l ++ [x]) -> NoDup l /\ ~ In x l.
Proof.
  induction l as [|a l IH]; simpl; intros H.
  - split; [constructor|auto].
  - inversion H; subst. destruct (IH H3) as [Hnd Hnin]. split.
    + constructor; auto. intros Hin. apply H2. apply in_or_app. now left.
    + intros [Heq|Hin]; auto. subst. apply H2. apply in_or_app. right. now left.
Qed.

Lemma distinct_snoc l x : distinct (l ++ [x]) = if memN x l then distinct l else S (distinct l).
Proof.
  induction l as [|a l IH]; simpl; auto.
  rewrite memN_app. simpl. rewrite orb_false_r.
  rewrite IH.
  destruct (N.eqb_spec x a) as [->|Hne].
  - rewrite N.eqb_refl. simpl.
    destruct (memN a l) eqn:E; simpl; auto.
  - assert (Hax : N.eqb a x = false) by (apply N.eqb_neq; congruence). rewrite Hax. simpl.
    destruct (memN a l) eqn:E1; destruct (memN x l) eqn:E2; simpl; auto.
Qed.

Lemma distinct_app_le a b : distinct a <= distinct (a ++ b).
Proof.
  revert a. induction b as [|x b IH] using rev_ind; intros a.
  - rewrite app_nil_r. lia.
  - rewrite app_assoc, distinct_snoc. specialize (IH a).
    destruct (memN x (a ++ b)); lia.
Qed.

Lemma distinct_le_length l : distinct l <= length l.
Proof. induction l as [|x l IH]; simpl; auto. destruct (memN x l); lia. Qed.

(* ------------------------------------------------------------------ the reference window *)

Lemma spec_window_snoc size P x :
  spec_window size (P ++ [x]) = win_step size (spec_window size P) x.
Proof. unfold spec_window. now rewrite fold_left_app. Qed.

Lemma win_step_unfold size w x :
  win_step size w x = if memN x w then w else lastn (Z.to_nat size) (w ++ [x]).
Proof. unfold win_step. now rewrite lastz_lastn. Qed.

Lemma burst_of_unfold b w : burst_of b w = lastn (Z.to_nat (Z.min b (zlen w))) w.
Proof. unfold burst_of. apply lastz_lastn. Qed.

Lemma win_step_NoDup size w x : NoDup w -> NoDup (win_step size w x).
Proof.
  intros H. rewrite win_step_unfold. destruct (memN x w) eqn:E; auto.
  apply lastn_NoDup. apply NoDup_snoc; auto. now apply memN_false.
Qed.

Lemma win_step_incl size w x y : In y (win_step size w x) -> In y w \/ y = x.
Proof.
  rewrite win_step_unfold. destruct (memN x w); auto.
  intros H. apply lastn_incl in H. apply in_app_or in H. destruct H as [H|[H|[]]]; auto.
Qed.

Lemma win_step_length size w x :
  length w <= Z.to_nat size -> length (win_step size w x) <= Z.to_nat size.
Proof.
  intros H. rewrite win_step_unfold. destruct (memN x w); auto. rewrite lastn_length. lia.
Qed.

(* the invariant tying the window to all the pushes *)
Record win_inv (n : nat) (P w : list N) : Prop := {
  wi_nodup : NoDup w;
  wi_incl : forall y, In y w -> In y P;
  wi_len : length w = Nat.min n (distinct P);
  wi_full : (forall y, In y P -> In y w) \/ length w = n
}.

Lemma spec_window_inv size P : win_inv (Z.to_nat size) P (spec_window size P).
Proof.
  set (n := Z.to_nat size).
  induction P as [|x P IH] using rev_ind.
  - unfold spec_window. simpl. constructor; simpl; auto.
    + constructor.
    + lia.
  - rewrite spec_window_snoc. set (w := spec_window size P) in *.
    destruct IH as [Hnd Hincl Hlen Hfull].
    assert (Hstep : win_step size w x = if memN x w then w else lastn n (w ++ [x])) by apply win_step_unfold.
    destruct (memN x w) eqn:Ew.
    + (* re-push of a buffered id *)
      rewrite Hstep. assert (HxP : memN x P = true) by (apply memN_In, Hincl, memN_In; exact Ew).
      constructor; auto.
      * intros y Hy. apply in_or_app. left. auto.
      * rewrite distinct_snoc, HxP. exact Hlen.
      * destruct Hfull as [Hall|Hf]; auto. left. intros y Hy.
        apply in_app_or in Hy. destruct Hy as [Hy|[<-|[]]]; auto. now apply memN_In.
    + rewrite Hstep. assert (Hxw : ~ In x w) by now apply memN_false.
      constructor.
      * apply lastn_NoDup, NoDup_snoc; auto.
      * intros y Hy. apply lastn_incl in Hy. apply in_app_or in Hy. apply in_or_app.
        destruct Hy as [Hy|Hy]; auto.
      * rewrite lastn_length, app_length, distinct_snoc. simpl.
        destruct (memN x P) eqn:EP.
        -- (* evicted earlier and pushed again: the window was full *)
           destruct Hfull as [Hall|Hf].
           ++ exfalso. apply Hxw, Hall. now apply memN_In.
           ++ lia.
        -- lia.
      * destruct (Nat.le_gt_cases (length w + 1) n) as [Hs|Hb].
        -- destruct Hfull as [Hall|Hf]; [|lia]. left.
           rewrite lastn_snoc_small by exact Hs. intros y Hy.
           apply in_app_or in Hy. apply in_or_app. destruct Hy as [Hy|Hy]; auto.
        -- right. rewrite lastn_length, app_length. simpl. lia.
Qed.

Lemma spec_window_NoDup_pushes size P :
  NoDup P -> spec_window size P = lastz size P.
Proof.
  rewrite lastz_lastn.
  induction P as [|x P IH] using rev_ind; intros Hnd.
  - reflexivity.
  - apply NoDup_snoc_inv in Hnd. destruct Hnd as [Hnd Hnin].
    rewrite spec_window_snoc, IH by exact Hnd. rewrite win_step_unfold.
    assert (E : memN x (lastn (Z.to_nat size) P) = false).
    { apply memN_false. intros Hin. apply Hnin. eapply lastn_incl; eauto. }
    rewrite E. apply lastn_app_lastn.
Qed.

Lemma spec_window_newest size P x :
  (size > 0)%Z -> In x (spec_window size (P ++ [x])).
Proof.
  intros Hs. rewrite spec_window_snoc, win_step_unfold.
  destruct (memN x (spec_window size P)) eqn:E.
  - now apply memN_In.
  - apply lastn_snoc_in. lia.
Qed.

Lemma pushes_of_app a b : pushes_of (a ++ b) = pushes_of a ++ pushes_of b.
Proof.
  induction a as [|o a IH]; simpl; auto. destruct o; simpl; rewrite ?IH; auto.
Qed.
