(* A second invariant of Model/Pipeline.v, about the fault site: the pipeline cannot get past it.
   Consequence (c11_fires): when the fault site lies on the path of a complete run, every
   quiescent state has Run returned — the source cannot be "tailing" with an unreported fault. *)
From BV Require Import Base.Prelude Model.FileSeq Model.Pipeline Spec.C10_Spec Spec.C11_Spec
  Proofs.FileSeqFacts Proofs.PipelineDefs Proofs.PipelineInv Proofs.PipelineLive Proofs.C10_Proofs.
Local Open Scope nat_scope.

Section Bound.
  Variable pre : blk -> N.
  Variable C : cfg.
  Hypothesis Hfix : fixed C.
  Let L := c_lay C.

  Record BInv (s : state) : Prop := {
    b_exists : forall i, c_fault C = FExists i ->
                 s_sent s <= i /\ (forall j, s_l s = LSend j -> j < i);
    b_open : forall i, c_fault C = FOpen i \/ c_fault C = FHeader i -> f_d (s_file s i) = DIdle;
    b_read : forall i k, c_fault C = FRead i k -> k <= len C i ->
               f_rk (s_file s i) <= k /\ f_qclosed (s_file s i) = false /\
               (f_r (s_file s i) = RSend -> f_rk (s_file s i) < k);
    b_pre : forall i k, c_fault C = FPre i k ->
              match f_cell (s_file s i) k with CFull _ | CTaken => False | _ => True end;
    b_cells : forall i j b, j < f_rk (s_file s i) -> nth_error (file_of L i) j = Some b ->
                keep L i b = true -> f_cell (s_file s i) j <> CNone;
    b_handler : forall n, c_fault C = FHandler n ->
                  match s_m s with MRet _ | MDone _ => True | _ => length (s_calls s) <= n end;
    b_ddone : forall i, f_d (s_file s i) = DDone -> term s = true \/ f_qclosed (s_file s i) = true
  }.

  Lemma BInv_init : BInv (init C).
  Proof.
    constructor; simpl; intros; auto; try lia; try discriminate.
    - split; [lia|intros; discriminate].
    - repeat split; [lia|discriminate].
  Qed.

  Ltac brk := repeat match goal with |- context[match ?x with _ => _ end] => destruct x eqn:? end.

  (* fields that only depend on parts of the state a step does not touch *)
  Lemma BInv_frame_files : forall s s', BInv s ->
    s_file s' = s_file s -> s_sent s' = s_sent s -> s_l s' = s_l s -> s_m s' = s_m s ->
    s_calls s' = s_calls s -> (term s = true -> term s' = true) -> BInv s'.
  Proof.
    intros s s' [] Ef Es El Em Ec Ht. constructor; rewrite ?Ef, ?Es, ?El, ?Em, ?Ec; auto.
    intros i Hd. destruct (b_ddone0 i Hd); auto.
  Qed.

  Lemma BInv_local : forall s i0 f' (sh : option errc), BInv s ->
    let s0 := match sh with Some e => shut e s | None => s end in
    (c_fault C = FOpen i0 \/ c_fault C = FHeader i0 -> f_d f' = DIdle) ->
    (forall k, c_fault C = FRead i0 k -> k <= len C i0 ->
       f_rk f' <= k /\ f_qclosed f' = false /\ (f_r f' = RSend -> f_rk f' < k)) ->
    (forall k, c_fault C = FPre i0 k -> match f_cell f' k with CFull _ | CTaken => False | _ => True end) ->
    (forall j b, j < f_rk f' -> nth_error (file_of L i0) j = Some b -> keep L i0 b = true -> f_cell f' j <> CNone) ->
    (f_d f' = DDone -> term s0 = true \/ f_qclosed f' = true) ->
    BInv (upd_file i0 f' s0).
  Proof.
    intros s i0 f' sh B s0 H1 H2 H3 H4 H5.
    assert (Htm : term s = true -> term s0 = true).
    { subst s0. destruct sh; [intros; apply term_shut|auto]. }
    assert (E : s_sent s0 = s_sent s /\ s_l s0 = s_l s /\ s_m s0 = s_m s /\
                s_file s0 = s_file s /\ s_calls s0 = s_calls s).
    { subst s0. destruct sh; autorewrite with pl; repeat split. }
    destruct E as (E1 & E2 & E3 & E4 & E5). destruct B.
    constructor; simpl; rewrite ?E1, ?E2, ?E3, ?E4, ?E5; auto.
    - intros i Hf. destruct (Nat.eqb_spec i i0) as [->|]; auto.
    - intros i k Hf Hk. destruct (Nat.eqb_spec i i0) as [->|]; auto.
    - intros i k Hf. destruct (Nat.eqb_spec i i0) as [->|]; [apply H3; auto|apply b_pre0; auto].
    - intros i j b. destruct (Nat.eqb_spec i i0) as [->|]; [apply H4|apply b_cells0].
    - intros i. destruct (Nat.eqb_spec i i0) as [->|]; auto.
      intros Hd. destruct (b_ddone0 i Hd); auto.
  Qed.

  Lemma is_FOpen_false : forall i, is_FOpen C i = false -> c_fault C <> FOpen i.
  Proof. intros i H E. unfold is_FOpen in H. rewrite E, Nat.eqb_refl in H. discriminate. Qed.
  Lemma is_FHeader_false : forall i, is_FHeader C i = false -> c_fault C <> FHeader i.
  Proof. intros i H E. unfold is_FHeader in H. rewrite E, Nat.eqb_refl in H. discriminate. Qed.
  Lemma is_FRead_false : forall i k, is_FRead C i k = false -> c_fault C <> FRead i k.
  Proof. intros i k H E. unfold is_FRead in H. rewrite E, !Nat.eqb_refl in H. discriminate. Qed.
  Lemma is_FPre_false : forall i k, is_FPre C i k = false -> c_fault C <> FPre i k.
  Proof. intros i k H E. unfold is_FPre in H. rewrite E, !Nat.eqb_refl in H. discriminate. Qed.
  Lemma is_FExists_false : forall i, is_FExists C i = false -> c_fault C <> FExists i.
  Proof. intros i H E. unfold is_FExists in H. rewrite E, Nat.eqb_refl in H. discriminate. Qed.
  Lemma is_FHandler_false : forall n, is_FHandler C n = false -> c_fault C <> FHandler n.
  Proof. intros n H E. unfold is_FHandler in H. rewrite E, Nat.eqb_refl in H. discriminate. Qed.

  (* discharge the five side conditions of BInv_local from the old facts *)
  Ltac bside :=
    simpl; intros; autorewrite with pl;
    repeat match goal with
           | H : c_fault C = FRead ?i ?k, H' : ?k <= len C ?i, B : forall i k, c_fault C = FRead i k -> _ |- _ =>
               let A1 := fresh in let A2 := fresh in let A3 := fresh in
               destruct (B _ _ H H') as (A1 & A2 & A3); clear B
           end;
    try match goal with
        | Hn : c_fault C <> FRead ?i ?r, H : c_fault C = FRead ?i ?k |- _ =>
            assert (k <> r) by (let E := fresh in intro E; apply Hn; rewrite <- E; exact H)
        end;
    try solve [repeat split; auto; try congruence; try lia; eauto]; try solve [exfalso; tauto];
    try solve [exfalso; unfold len in *; lia];
    try solve [match goal with B : forall i k, c_fault C = FPre i k -> _ |- _ => apply B; assumption end].

  Lemma R_bpres : forall s i c, Inv pre C s -> BInv s -> BInv (step_R C i c s).
  Proof.
    intros s i c I B. pose proof (inv_f _ _ _ I i) as F.
    unfold step_R. cbv zeta. destruct (f_r (s_file s i)) eqn:Hr; auto.
    - (* ROpen *)
      assert (Hd : f_d (s_file s i) = DIdle) by (apply (fi_open _ _ _ _ _ _ _ F); auto).
      destruct (fi_didle _ _ _ _ _ _ _ F Hd) as (Hq & Hqc & Hrk & Hc & _).
      destruct (is_FOpen C i) eqn:E1; [|destruct (is_FHeader C i) eqn:E2].
      + destruct B. apply (BInv_local s i _ (Some EOpen)); [constructor; assumption|..]; bside.
      + destruct B. apply (BInv_local s i _ (Some EHeader)); [constructor; assumption|..]; bside.
      + pose proof (is_FOpen_false i E1). pose proof (is_FHeader_false i E2).
        destruct B. apply (BInv_local s i _ None); [constructor; assumption|..]; bside.
    - (* RLoop *)
      destruct (term s) eqn:Ht.
      { destruct B. apply (BInv_local s i _ None); [constructor; assumption|..]; bside. }
      destruct (is_FRead C i (f_rk (s_file s i))) eqn:E1.
      { destruct Hfix as [_ ->]. destruct B. apply (BInv_local s i _ (Some ERead)); [constructor; assumption|..]; bside. }
      pose proof (is_FRead_false _ _ E1) as Hnr.
      destruct (nth_error (file_of (c_lay C) i) (f_rk (s_file s i))) as [b|] eqn:En.
      + destruct (keep (c_lay C) i b) eqn:Ek.
        * destruct B. apply (BInv_local s i _ None); [constructor; assumption|..]; bside.
        * destruct B. apply (BInv_local s i _ None); [constructor; assumption|..]; bside.
          destruct (Nat.eq_dec j (f_rk (s_file s i))) as [->|Hne].
          -- unfold L in *. congruence.
          -- eapply b_cells0; eauto. lia.
      + apply nth_error_None in En.
        destruct B. apply (BInv_local s i _ None); [constructor; assumption|..]; bside.
    - (* RSend *)
      destruct (fi_rsend _ _ _ _ _ _ _ F Hr) as (b & En & Ek).
      destruct (term s && (c || negb ((length (f_q (s_file s i)) <? c_threads C) || (c_threads C =? 0) && is_DSel (f_d (s_file s i))))).
      { destruct B. apply (BInv_local s i _ None); [constructor; assumption|..]; bside. }
      destruct (length (f_q (s_file s i)) <? c_threads C).
      { destruct B. apply (BInv_local s i _ None); [constructor; assumption|..]; bside.
        - destruct (Nat.eqb_spec k (f_rk (s_file s i))); [exact Logic.I|apply b_pre0; assumption].
        - destruct (Nat.eqb_spec j (f_rk (s_file s i))); [discriminate|]. eapply b_cells0; eauto. lia. }
      destruct ((c_threads C =? 0) && is_DSel (f_d (s_file s i))) eqn:Eh; [|exact B].
      apply andb_prop in Eh. destruct Eh as [_ Ed].
      assert (Hd : f_d (s_file s i) = DSel) by (destruct (f_d (s_file s i)); simpl in Ed; congruence).
      destruct B. apply (BInv_local s i _ None); [constructor; assumption|..]; bside.
      + pose proof (b_open0 i H). congruence.
      + destruct (Nat.eqb_spec k (f_rk (s_file s i))); [exact Logic.I|apply b_pre0; assumption].
      + destruct (Nat.eqb_spec j (f_rk (s_file s i))); [discriminate|]. eapply b_cells0; eauto. lia.
    - (* RFail *) exfalso. exact (fi_nofail _ _ _ _ _ _ _ F Hr).
    - (* RWait *)
      destruct (is_DDone (f_d (s_file s i))); [|exact B].
      destruct B. apply (BInv_local s i _ None); [constructor; assumption|..]; bside.
  Qed.

  Lemma P_bpres : forall s i k c, Inv pre C s -> BInv s -> BInv (step_P pre C i k c s).
  Proof.
    intros s i k c I B. unfold step_P. cbv zeta.
    destruct (f_cell (s_file s i) k) eqn:Hc; auto.
    assert (Hgen : forall x sh, (is_FPre C i k = true -> x = CDead) -> x <> CNone -> x <> CTaken ->
              BInv (upd_file i (set_cell k x (s_file s i)) (match sh with Some e => shut e s | None => s end))).
    { intros x sh Hx Hn Ht. destruct B. apply (BInv_local s i _ sh); [constructor; assumption|..]; bside.
      - destruct (Nat.eqb_spec k0 k) as [->|]; [|apply b_pre0; assumption].
        unfold is_FPre in Hx. rewrite H, !Nat.eqb_refl in Hx. rewrite Hx by reflexivity. exact Logic.I.
      - destruct (Nat.eqb_spec j k) as [->|]; [assumption|]. eapply b_cells0; eauto.
      - destruct sh; [left; apply term_shut|]. auto. }
    destruct (is_FPre C i k) eqn:E1; [apply (Hgen CDead (Some EPre)); auto; discriminate|].
    destruct (term s && c); [apply (Hgen CDead None)|apply (Hgen (CFull (pv pre C i k)) None)]; auto; discriminate.
  Qed.

  Lemma D_bpres : forall s i c, Inv pre C s -> BInv s -> BInv (step_D i c s).
  Proof.
    intros s i c I B. pose proof (inv_f _ _ _ I i) as F.
    assert (Hexit : term s = true \/ f_qclosed (s_file s i) = true -> f_d (s_file s i) <> DIdle ->
              BInv (upd_file i (d_exit (s_file s i)) s)).
    { intros Hx Hn. destruct B. apply (BInv_local s i _ None); [constructor; assumption|..]; bside.
      pose proof (b_open0 i H). contradiction. }
    unfold step_D. cbv zeta. destruct (f_d (s_file s i)) as [| |k|v|] eqn:Hd; auto.
    - destruct (f_q (s_file s i)) as [|k q'] eqn:Hq.
      + destruct (term s) eqn:Ht; simpl.
        * apply Hexit; auto. congruence.
        * destruct (f_qclosed (s_file s i)) eqn:Hqc; [|exact B]. apply Hexit; auto. congruence.
      + destruct (term s && c) eqn:E0.
        * apply Hexit; [apply andb_prop in E0; tauto|congruence].
        * destruct B. apply (BInv_local s i _ None); [constructor; assumption|..]; bside.
          pose proof (b_open0 i H). congruence.
    - destruct (f_cell (s_file s i) k) eqn:Hc.
      1,2,4,5: destruct (term s) eqn:Ht; [apply Hexit; auto; congruence|exact B].
      destruct (term s && c) eqn:E0.
      + apply Hexit; [apply andb_prop in E0; tauto|congruence].
      + destruct B. apply (BInv_local s i _ None); [constructor; assumption|..]; bside.
        * pose proof (b_open0 i H). congruence.
        * destruct (Nat.eqb_spec k0 k) as [->|]; [|apply b_pre0; assumption].
          pose proof (b_pre0 i k H) as Hp. rewrite Hc in Hp. contradiction.
        * destruct (Nat.eqb_spec j k) as [->|]; [discriminate|]. eapply b_cells0; eauto.
    - destruct (term s && (c || negb (m_waits_on i s))) eqn:E0.
      + apply Hexit; [apply andb_prop in E0; tauto|congruence].
      + destruct (m_waits_on i s) eqn:Ew; [|exact B].
        unfold m_waits_on in Ew. destruct (s_m s) eqn:Hm; try discriminate.
        assert (B' : BInv (upd_file i (set_d DSel (set_out (f_out (s_file s i) ++ [v]) (s_file s i))) s)).
        { destruct B. apply (BInv_local s i _ None); [constructor; assumption|..]; bside.
          pose proof (b_open0 i H). congruence. }
        destruct B'. constructor; simpl in *; auto.
        intros n Hn. specialize (b_handler0 n Hn). now rewrite Hm in b_handler0.
  Qed.

  Lemma X_bpres : forall s, BInv s -> BInv (step_X s).
  Proof.
    intros s B. unfold step_X. destruct (s_x s); [|exact B].
    eapply BInv_frame_files; [exact B|simpl; autorewrite with pl; auto ..].
  Qed.

  Lemma M_bpres : forall s c, Inv pre C s -> BInv s -> BInv (step_M C c s).
  Proof.
    intros s c I B.
    assert (Hgen : forall s', s_file s' = s_file s -> s_sent s' = s_sent s -> s_l s' = s_l s ->
              (term s = true -> term s' = true) ->
              (forall n, c_fault C = FHandler n ->
                 match s_m s' with MRet _ | MDone _ => True | _ => length (s_calls s') <= n end) ->
              BInv s').
    { intros s' Ef Es El Ht Hh. destruct B. constructor; rewrite ?Ef, ?Es, ?El; auto.
      intros i Hd. destruct (b_ddone0 i Hd); auto. }
    pose proof (b_handler _ B) as Hh.
    unfold step_M. destruct (s_m s) as [|i|i v|i v|e|e] eqn:Hm; auto.
    - destruct (s_fs s) as [|[i|] r].
      + destruct (term s || s_fsclosed s); [|exact B]. apply Hgen; simpl; auto.
      + destruct (term s && c); apply Hgen; simpl; auto.
      + destruct (term s && c); apply Hgen; simpl; auto.
    - destruct (c_fix1 C && term s && (c || negb (f_bclosed (s_file s i)))); [apply Hgen; simpl; auto|].
      destruct (f_bclosed (s_file s i)); [apply Hgen; simpl; auto|exact B].
    - destruct (term s) eqn:Ht; apply Hgen; simpl; autorewrite with pl; auto; congruence.
    - destruct (negb (s_last s =? 0)%N && negb (b_par (fst v) =? s_last s)%N); [apply Hgen; simpl; auto|].
      destruct (is_FHandler C (length (s_calls s))) eqn:Eh; apply Hgen; simpl; auto.
      intros n Hn. specialize (Hh n Hn). simpl in Hh. rewrite app_length. simpl.
      pose proof (is_FHandler_false _ Eh) as Hne.
      assert (length (s_calls s) <> n) by (intros E; apply Hne; now rewrite E). lia.
    - apply Hgen; simpl; autorewrite with pl; auto.
  Qed.

  Lemma L_bpres : forall s c, Inv pre C s -> BInv s -> BInv (step_L C c s).
  Proof.
    intros s c I B.
    assert (Hexit : forall sh, BInv (l_exit (match sh with Some e => shut e s | None => s end))).
    { intros sh. unfold l_exit. destruct B. constructor; simpl; destruct sh; autorewrite with pl; auto;
        try (intros i Hf; destruct (b_exists0 i Hf) as [H1 _]; split; [exact H1|intros; discriminate]);
        try (intros i Hd; destruct (b_ddone0 i Hd); auto). }
    unfold step_L. destruct (s_l s) as [i|i| |] eqn:Hl; auto.
    - destruct (term s && c); [apply (Hexit None)|].
      destruct (is_FExists C i) eqn:E1; [apply (Hexit (Some EExists))|].
      destruct (i <? nfiles (c_lay C)); [|destruct (term s); [apply (Hexit None)|exact B]].
      pose proof (is_FExists_false _ E1) as Hne.
      pose proof (li_pc _ _ (inv_l _ _ _ I)) as Hpc. rewrite Hl in Hpc. destruct Hpc as [Hs _].
      destruct B. constructor; simpl; auto.
      intros i0 Hf. destruct (b_exists0 i0 Hf) as [H1 _]. split; [exact H1|].
      intros j Hj. inversion Hj; subst j.
      assert (i <> i0) by (intros E; apply Hne; now rewrite E). lia.
    - destruct (term s && (c || fs_full s)); [apply (Hexit None)|].
      destruct (fs_full s); [exact B|].
      destruct B. constructor; simpl; auto.
      + intros i0 Hf. destruct (b_exists0 i0 Hf) as [H1 H2]. specialize (H2 i Hl). split; [lia|].
        intros j Hj. destruct (stop_after (c_lay C) i); discriminate.
      + intros i0 Hf. destruct (Nat.eqb_spec i0 i) as [->|]; simpl; auto.
      + intros i0 k Hf Hk. destruct (Nat.eqb_spec i0 i) as [->|]; simpl; auto.
        destruct (b_read0 i k Hf Hk) as (A1 & A2 & A3). repeat split; auto. discriminate.
      + intros i0 k Hf. destruct (Nat.eqb_spec i0 i) as [->|]; simpl; apply b_pre0; auto.
      + intros i0 j b. destruct (Nat.eqb_spec i0 i) as [->|]; simpl; apply b_cells0.
      + intros i0 Hd. autorewrite with pl. destruct (Nat.eqb_spec i0 i) as [E|E]; simpl in *; auto.
    - destruct (fs_full s); [exact B|]. apply (Hexit None) || idtac.
      unfold l_exit. destruct B. constructor; simpl; auto.
      intros i Hf. destruct (b_exists0 i Hf) as [H1 _]. split; [exact H1|intros; discriminate].
  Qed.

  Lemma step_bpres : forall s tc, Inv pre C s -> BInv s -> BInv (step pre C s tc).
  Proof.
    intros s [t c] I B. destruct t; simpl.
    - now apply L_bpres.
    - now apply R_bpres.
    - now apply D_bpres.
    - now apply P_bpres.
    - now apply M_bpres.
    - now apply X_bpres.
  Qed.

  Lemma run_bpres : forall sched s, Inv pre C s -> BInv s -> BInv (run pre C sched s).
  Proof.
    induction sched as [|tc sched IH]; intros s I B; simpl; [exact B|].
    apply IH; [now apply step_pres|now apply step_bpres].
  Qed.

  Lemma reachable_binv : forall sched, BInv (run pre C sched (init C)).
  Proof. intros. apply run_bpres; [apply Inv_init|apply BInv_init]. Qed.

  (* in a quiescent state Run has returned whenever the fault site lies on the path of a
     complete run: the source is never left tailing with an unreported fault *)
  Lemma fires_core : forall s, Inv pre C s -> BInv s -> quiescent pre C s ->
    site_reached C = true -> returned s = true.
  Proof.
    intros s I B Q Hsite.
    destruct (quiescent_shape pre C Hfix s I Q) as [[e Hm]|(Ht & Hm & Hfs & i0 & Hl & Hi)].
    { unfold returned. now rewrite Hm. }
    exfalso.
    destruct (tail_state pre C s i0 I Ht Hm Hfs Hl Hi) as [Hcalls _].
    pose proof (L_stuck C s (fun c => Q (TL, c))) as HL. rewrite Hl in HL. destruct HL as (_ & HLe & _).
    destruct I as [Il If Ig].
    pose proof (li_pc _ _ Il) as Hpc. rewrite Hl in Hpc. destruct Hpc as [Hsent _].
    pose proof (li_sent _ _ Il) as Hle. fold L in Hle, Hi.
    assert (Hi0 : i0 = nfiles L) by lia.
    assert (Htk : s_taken s = s_sent s).
    { pose proof (li_taken _ _ Il). pose proof (li_fs _ _ Il) as H'. rewrite Hfs in H'.
      destruct H' as [H'|[H' _]].
      - destruct (s_sent s - s_taken s) eqn:E; [lia|discriminate].
      - destruct (map IFile (seq (s_taken s) (s_sent s - s_taken s))); discriminate. }
    assert (Hclosed : forall j, j < nfiles L -> f_d (s_file s j) = DDone).
    { intros j Hj. apply (fi_bclosed _ _ _ _ _ _ _ (If j)). apply (gi_left _ _ _ Ig).
      unfold left. rewrite Hm. lia. }
    unfold site_reached in Hsite. fold L in Hsite.
    destruct (c_fault C) as [|i|i|i|i k|i k|n] eqn:Hf; try discriminate.
    - (* FExists *)
      apply Nat.leb_le in Hsite. destruct (b_exists _ B i Hf) as [Hs _].
      assert (i = i0) by lia. subst i. unfold is_FExists in HLe. rewrite Hf, Nat.eqb_refl in HLe. discriminate.
    - (* FOpen *)
      apply Nat.ltb_lt in Hsite. pose proof (b_open _ B i (or_introl Hf)) as H.
      rewrite (Hclosed i Hsite) in H. discriminate.
    - (* FHeader *)
      apply Nat.ltb_lt in Hsite. pose proof (b_open _ B i (or_intror Hf)) as H.
      rewrite (Hclosed i Hsite) in H. discriminate.
    - (* FRead *)
      apply andb_prop in Hsite. destruct Hsite as [H1 H2]. apply Nat.ltb_lt in H1. apply Nat.leb_le in H2.
      destruct (b_read _ B i k Hf H2) as (_ & Hq & _).
      destruct (b_ddone _ B i (Hclosed i H1)); congruence.
    - (* FPre *)
      apply andb_prop in Hsite. destruct Hsite as [H1 H2]. apply Nat.ltb_lt in H1.
      destruct (nth_error (file_of L i) k) as [b|] eqn:En; [|discriminate].
      pose proof (Hclosed i H1) as Hd. pose proof (If i) as F. rewrite Ht in F.
      destruct (b_ddone _ B i Hd) as [H|Hq]; [congruence|].
      pose proof (fi_qclosed _ _ _ _ _ _ _ F Hq) as Hlen.
      assert (Hk : k < len C i) by (unfold len; apply nth_error_Some; fold L; congruence).
      pose proof (b_cells _ B i k b) as Hc. pose proof (b_pre _ B i k Hf) as Hp.
      destruct (f_cell (s_file s i) k) eqn:Ec; try contradiction.
      + apply Hc; auto. lia.
      + exact (P_stuck pre C s i k (fun c => Q (TP i k, c)) Ec).
      + pose proof (fi_cdead _ _ _ _ _ _ _ F k Ec). discriminate.
    - (* FHandler *)
      apply Nat.ltb_lt in Hsite. pose proof (b_handler _ B n Hf) as Hh. rewrite Hm in Hh.
      rewrite Hcalls in Hh. unfold pairs in Hh. rewrite map_length in Hh. fold L in Hh. lia.
  Qed.
End Bound.

(* ---------- the deliveries stay in front of the fault site ---------- *)
Lemma skipn_add : forall A (l : list A) a b, skipn b (skipn a l) = skipn (a + b) l.
Proof.
  intros A l a. revert l. induction a as [|a IH]; intros l b; simpl; [reflexivity|].
  destruct l as [|x l]; [now rewrite !skipn_nil|]. apply IH.
Qed.

Section Limit.
  Variable pre : blk -> N.
  Variable C : cfg.
  Hypothesis Hfix : fixed C.
  Let L := c_lay C.

  Notation FP := (FP pre C).
  Notation FPfrom := (FPfrom pre C).
  Notation EPn := (EPn pre C).

  Definition FPupto (i k : nat) : list pblk := map (pr pre) (filter (keep L i) (firstn k (file_of L i))).

  Lemma FP_split : forall i k, FP i = FPupto i k ++ FPfrom i k.
  Proof.
    intros i k. unfold PipelineDefs.FP, PipelineDefs.FPfrom, FPupto. fold L. simpl.
    rewrite <- map_app, <- filter_app, firstn_skipn. reflexivity.
  Qed.

  Lemma FPfrom_split : forall i a b, a <= b -> exists mid, FPfrom i a = mid ++ FPfrom i b.
  Proof.
    intros i a b H. unfold PipelineDefs.FPfrom. fold L.
    replace b with (a + (b - a)) by lia. rewrite <- skipn_add.
    exists (map (pr pre) (filter (keep L i) (firstn (b - a) (skipn a (file_of L i))))).
    rewrite <- map_app, <- filter_app, firstn_skipn. reflexivity.
  Qed.

  Lemma before_pairs : forall i k, pairs pre (before_site L i k) = EPn i ++ FPupto i k.
  Proof.
    intros i k. unfold before_site, pairs. rewrite map_app. f_equal.
    unfold PipelineDefs.EPn. induction (seq 0 i) as [|j l IH]; simpl; [reflexivity|].
    rewrite map_app, IH. now rewrite FP_kept.
  Qed.

  (* the position of a fault in the files, when it has one that the run certainly meets *)
  Definition site_pos : option (nat * nat) :=
    match c_fault C with
    | FExists i | FOpen i | FHeader i => Some (i, 0)
    | FRead i k => if Nat.leb k (len C i) then Some (i, k) else None
    | _ => None
    end.

  Record CInv (s : state) : Prop := {
    c_out : forall i k, site_pos = Some (i, k) -> prefix (f_out (s_file s i)) (FPupto i k);
    c_mcall : forall i k i' v, site_pos = Some (i, k) -> s_m s = MCall i' v -> i' <= i;
    c_limit : forall i k, site_pos = Some (i, k) -> prefix (s_calls s) (EPn i ++ FPupto i k);
    c_hlimit : forall n, c_fault C = FHandler n -> length (s_calls s) <= S n
  }.

  Lemma CInv_init : CInv (init C).
  Proof. constructor; simpl; intros; try apply prefix_nil; try discriminate; lia. Qed.

  (* the drain goroutine of the faulty file can only have ended because the source was shut down *)
  Lemma site_ddone : forall s i k, Inv pre C s -> BInv C s -> site_pos = Some (i, k) ->
    f_d (s_file s i) = DDone -> term s = true.
  Proof.
    intros s i k I B Hs Hd. unfold site_pos in Hs. pose proof (inv_f _ _ _ I i) as F.
    destruct (c_fault C) as [|j|j|j|j k'|j k'|n] eqn:Hf; try discriminate.
    - inversion Hs; subst. destruct (b_exists _ _ B i Hf) as [Hle _].
      assert (Hr : f_r (s_file s i) = RIdle) by (apply (fi_idle _ _ _ _ _ _ _ F); lia).
      assert (Hdi : f_d (s_file s i) = DIdle) by (apply (fi_open _ _ _ _ _ _ _ F); auto). congruence.
    - inversion Hs; subst. pose proof (b_open _ _ B i (or_introl Hf)). congruence.
    - inversion Hs; subst. pose proof (b_open _ _ B i (or_intror Hf)). congruence.
    - destruct (Nat.leb k' (len C j)) eqn:El; [|discriminate]. inversion Hs; subst.
      apply Nat.leb_le in El. destruct (b_read _ _ B i k Hf El) as (_ & Hq & _).
      destruct (b_ddone _ _ B i Hd); congruence.
  Qed.

  Lemma step_cpres : forall s tc, Inv pre C s -> BInv C s -> CInv s -> CInv (step pre C s tc).
  Proof.
    intros s [t c] I B Cv.
    (* steps that neither hand a block to run() nor move run() *)
    assert (Hframe : forall s', (forall j, f_out (s_file s' j) = f_out (s_file s j)) ->
              s_m s' = s_m s -> s_calls s' = s_calls s -> CInv s').
    { intros s' Ho Em Ec. destruct Cv. constructor; rewrite ?Em, ?Ec; auto.
      intros i k Hs. rewrite Ho. auto. }
    destruct t as [|i|i|i k| |]; simpl.
    - (* launch reader *)
      apply Hframe; unfold step_L, l_exit;
        repeat match goal with |- context[match ?x with _ => _ end] => destruct x end;
        simpl; autorewrite with pl; auto; intros j; simpl;
        try (destruct (Nat.eqb_spec j i)); subst; reflexivity.
    - (* file reader *)
      apply Hframe; unfold step_R; cbv zeta;
        repeat match goal with |- context[match ?x with _ => _ end] => destruct x end;
        simpl; autorewrite with pl; auto; intros j; simpl; autorewrite with pl;
        try (destruct (Nat.eqb_spec j i)); subst; reflexivity.
    - (* drain goroutine *)
      pose proof (inv_f _ _ _ I i) as F.
      unfold step_D. cbv zeta. destruct (f_d (s_file s i)) as [| |k|v|] eqn:Hd; auto.
      + apply Hframe; repeat match goal with |- context[match ?x with _ => _ end] => destruct x end;
          simpl; auto; intros j; simpl; try (destruct (Nat.eqb_spec j i)); subst; reflexivity.
      + apply Hframe; repeat match goal with |- context[match ?x with _ => _ end] => destruct x end;
          simpl; auto; intros j; simpl; try (destruct (Nat.eqb_spec j i)); subst; reflexivity.
      + destruct (term s && (c || negb (m_waits_on i s))).
        { apply Hframe; simpl; auto; intros j; simpl; destruct (Nat.eqb_spec j i); subst; reflexivity. }
        destruct (m_waits_on i s) eqn:Ew; [|exact Cv].
        unfold m_waits_on in Ew. destruct (s_m s) eqn:Hm; try discriminate.
        destruct Cv. constructor; simpl; auto; try discriminate.
        intros i1 k1 Hs. destruct (Nat.eqb_spec i1 i) as [->|]; [|auto]. simpl.
        (* a block of the faulty file is handed over: it lies in front of the site *)
        pose proof (fi_pf _ _ _ _ _ _ _ F) as Hpf. rewrite Hd in Hpf. unfold hand_d in Hpf. rewrite Hd in Hpf.
        specialize (Hpf ltac:(discriminate)).
        assert (Hrk : f_rk (s_file s i) <= k1).
        { unfold site_pos in Hs. destruct (c_fault C) as [|j|j|j|j k'|j k'|n] eqn:Hf; try discriminate.
          - inversion Hs; subst. destruct (b_exists _ _ B i Hf) as [Hle _].
            assert (Hr : f_r (s_file s i) = RIdle) by (apply (fi_idle _ _ _ _ _ _ _ F); lia).
            assert (Hdi : f_d (s_file s i) = DIdle) by (apply (fi_open _ _ _ _ _ _ _ F); auto). congruence.
          - inversion Hs; subst. pose proof (b_open _ _ B i (or_introl Hf)). congruence.
          - inversion Hs; subst. pose proof (b_open _ _ B i (or_intror Hf)). congruence.
          - destruct (Nat.leb k' (len C j)) eqn:El; [|discriminate]. inversion Hs; subst.
            apply Nat.leb_le in El. destruct (b_read _ _ B i k1 Hf El) as (Hle & _). exact Hle. }
        destruct (FPfrom_split i _ _ Hrk) as [mid Hmid].
        rewrite (FP_split i k1), Hmid in Hpf. rewrite !app_assoc in Hpf. apply app_inv_tail in Hpf.
        exists (map (pv pre C i) (f_q (s_file s i)) ++ mid). rewrite <- Hpf. now rewrite <- !app_assoc.
    - (* preprocess goroutine *)
      apply Hframe; unfold step_P; cbv zeta;
        repeat match goal with |- context[match ?x with _ => _ end] => destruct x end;
        simpl; autorewrite with pl; auto; intros j; simpl; autorewrite with pl;
        try (destruct (Nat.eqb_spec j i)); subst; reflexivity.
    - (* run() *)
      assert (Hm_other : forall s', (forall j, f_out (s_file s' j) = f_out (s_file s j)) ->
                s_calls s' = s_calls s -> (forall i' v, s_m s' <> MCall i' v) -> CInv s').
      { intros s' Ho Ec Hn. destruct Cv. constructor; rewrite ?Ec; auto.
        - intros i k Hs. rewrite Ho. auto.
        - intros i k i' v _ Hm. exfalso. exact (Hn _ _ Hm). }
      unfold step_M. destruct (s_m s) as [|i|i v|i v|e|e] eqn:Hm; try exact Cv.
      + destruct (s_fs s) as [|[i|] r].
        * destruct (term s || s_fsclosed s); [|exact Cv]. apply Hm_other; simpl; auto; discriminate.
        * destruct (term s && c); apply Hm_other; simpl; auto; discriminate.
        * destruct (term s && c); apply Hm_other; simpl; auto; discriminate.
      + destruct (c_fix1 C && term s && (c || negb (f_bclosed (s_file s i)))); [apply Hm_other; simpl; auto; discriminate|].
        destruct (f_bclosed (s_file s i)); [apply Hm_other; simpl; auto; discriminate|exact Cv].
      + destruct (term s) eqn:Ht; [apply Hm_other; simpl; auto; discriminate|].
        destruct Cv. constructor; simpl; auto.
        intros i0 k0 i' v' Hs Hc. inversion Hc; subst i' v'.
        destruct (le_lt_dec i i0) as [|Hlt]; [assumption|exfalso].
        assert (Hb : f_bclosed (s_file s i0) = true).
        { apply (gi_left _ _ _ (inv_g _ _ _ I)). unfold left. now rewrite Hm. }
        apply (fi_bclosed _ _ _ _ _ _ _ (inv_f _ _ _ I i0)) in Hb.
        pose proof (site_ddone s i0 k0 I B Hs Hb). congruence.
      + destruct (negb (s_last s =? 0)%N && negb (b_par (fst v) =? s_last s)%N); [apply Hm_other; simpl; auto; discriminate|].
        assert (Hlim : forall i0 k0, site_pos = Some (i0, k0) -> prefix (s_calls s ++ [v]) (EPn i0 ++ FPupto i0 k0)).
        { intros i0 k0 Hs. destruct I as [Il If Ig].
          pose proof (gi_g1 _ _ _ Ig) as Hg. rewrite Hm in Hg. unfold hand_m in Hg. rewrite Hm in Hg.
          pose proof (gi_m _ _ _ Ig) as Htk. rewrite Hm in Htk.
          rewrite Hg, Htk, flat_map_seq_S.
          rewrite (flat_map_ext_seq _ (outs s) FP i) by (intros; eapply (gi_mc _ _ _ Ig); eauto).
          fold (EPn i).
          pose proof (c_mcall _ Cv i0 k0 i v Hs Hm) as Hle.
          destruct (Nat.eq_dec i i0) as [->|Hne].
          - destruct (c_out _ Cv i0 k0 Hs) as [r Hr]. unfold outs. rewrite Hr. exists r. now rewrite app_assoc.
          - destruct (fi_pfx _ _ _ _ _ _ _ (If i)) as [r Hr].
            eapply prefix_trans; [|eapply prefix_trans; [apply (EPn_prefix pre C (S i) i0); lia|apply prefix_app_r]].
            rewrite EPn_S. unfold outs. rewrite Hr. exists r. now rewrite app_assoc. }
        assert (Hhl : forall n, c_fault C = FHandler n -> length (s_calls s ++ [v]) <= S n).
        { intros n Hn. pose proof (b_handler _ _ B n Hn) as Hh. rewrite Hm in Hh. rewrite app_length. simpl. lia. }
        destruct (is_FHandler C (length (s_calls s))).
        * destruct Cv. constructor; simpl; auto. intros; discriminate.
        * destruct Cv. constructor; simpl; auto. intros; discriminate.
      + apply Hm_other; simpl; autorewrite with pl; auto; discriminate.
    - apply Hframe; unfold step_X; destruct (s_x s); simpl; autorewrite with pl; auto.
  Qed.
End Limit.

Lemma run_cpres : forall pre C, fixed C -> forall sched s,
  Inv pre C s -> BInv C s -> CInv pre C s -> CInv pre C (run pre C sched s).
Proof.
  intros pre C Hfix. induction sched as [|tc sched IH]; intros s I B Cv; simpl; [exact Cv|].
  apply IH; [now apply step_pres|now apply step_bpres|now apply step_cpres].
Qed.

Lemma bound_core : forall pre C sched, fixed C ->
  let s := run pre C sched (init C) in
  (forall l, site_limit_blocks C = Some l -> prefix (s_calls s) (pairs pre l)) /\
  (forall n, c_fault C = FHandler n -> length (s_calls s) <= S n).
Proof.
  intros pre C sched Hfix s.
  assert (Cv : CInv pre C s).
  { apply run_cpres; auto; [apply Inv_init|apply (BInv_init pre)|apply CInv_init]. }
  split.
  - intros l Hl. unfold site_limit_blocks in Hl.
    assert (Hpos : forall i k, site_pos C = Some (i, k) -> l = before_site (c_lay C) i k ->
              prefix (s_calls s) (pairs pre l)).
    { intros i k Hs ->. rewrite before_pairs. apply (c_limit _ _ _ Cv i k Hs). }
    unfold site_pos in Hpos. unfold len in Hpos.
    destruct (c_fault C) as [|i|i|i|i k|i k|n]; try discriminate.
    + inversion Hl; subst. apply (Hpos i 0); reflexivity.
    + inversion Hl; subst. apply (Hpos i 0); reflexivity.
    + inversion Hl; subst. apply (Hpos i 0); reflexivity.
    + destruct (Nat.leb k (length (file_of (c_lay C) i))); [|discriminate].
      inversion Hl; subst. apply (Hpos i k); reflexivity.
  - intros n Hn. apply (c_hlimit _ _ _ Cv n Hn).
Qed.
