(* C08, part A: the fan-out / registration / drain machine over ARBITRARY per-push event lists.
   Nothing of the fork-aware model is used here. *)
From BV Require Import Base.Prelude Model.Block Model.ForkDB Model.Forkable Model.ForkableLookups
  Model.Burst Model.Hub Model.HubSubs Spec.C08_Spec.
Local Open Scope N_scope.

(* ---------------------------------------------------------------- pointwise descriptions *)

Lemma fan_out_map subs e : fan_out subs e = map (fun s => sub_push s e) subs.
Proof. reflexivity. Qed.

Lemma fold_fan_out evs : forall subs,
  fold_left fan_out evs subs = map (fun s => fold_left sub_push evs s) subs.
Proof.
  induction evs as [|e evs IH]; intros subs; cbn [fold_left].
  - symmetry. apply map_id.
  - rewrite IH, fan_out_map, map_map. reflexivity.
Qed.

Lemma nth_fan_out evs subs i :
  nth_error (fold_left fan_out evs subs) i = option_map (fold_left sub_push evs) (nth_error subs i).
Proof. rewrite fold_fan_out. apply nth_error_map. Qed.

Definition drained (s : msub) : msub := mkSub [] (ms_cap s) (ms_dropped s).

Lemma drain_nth_spec : forall subs k subs' q,
  drain_nth k subs = (subs', q) ->
  q = match nth_error subs k with Some s => ms_queue s | None => [] end /\
  length subs' = length subs /\
  forall i, nth_error subs' i =
            if Nat.eqb i k then option_map drained (nth_error subs i) else nth_error subs i.
Proof.
  induction subs as [|s rest IH]; intros k subs' q H.
  - assert (H' : subs' = [] /\ q = []) by (destruct k; cbn [drain_nth] in H; inversion H; auto).
    destruct H' as [-> ->]. split; [destruct k; reflexivity|]. split; [reflexivity|].
    intros i. destruct (Nat.eqb i k); destruct i; reflexivity.
  - destruct k as [|k]; cbn [drain_nth] in H.
    + inversion H; subst. split; [reflexivity|]. split; [reflexivity|]. intros [|i]; reflexivity.
    + destruct (drain_nth k rest) as [rest' q'] eqn:Hd. inversion H; subst.
      destruct (IH _ _ _ Hd) as [Hq [Hl Hn]]. split; [exact Hq|]. split; [cbn [length]; congruence|].
      intros [|i]; [reflexivity|]. cbn [nth_error Nat.eqb]. apply Hn.
Qed.

Lemma add_got_spec : forall got k q,
  length (add_got k q got) = length got /\
  forall i, nth_error (add_got k q got) i =
            if Nat.eqb i k then option_map (fun g => g ++ q) (nth_error got i) else nth_error got i.
Proof.
  induction got as [|g rest IH]; intros k q; cbn [add_got].
  - split; [reflexivity|]. intros i. destruct (Nat.eqb i k); destruct i; reflexivity.
  - destruct k as [|k].
    + split; [reflexivity|]. intros [|i]; reflexivity.
    + destruct (IH k q) as [Hl Hn]. split; [cbn [length]; congruence|].
      intros [|i]; [reflexivity|]. cbn [nth_error Nat.eqb]. apply Hn.
Qed.

Lemma nth_error_snoc {A} (l : list A) x i :
  nth_error (l ++ [x]) i =
  if Nat.ltb i (length l) then nth_error l i else if Nat.eqb i (length l) then Some x else None.
Proof.
  destruct (Nat.ltb i (length l)) eqn:Hlt.
  - apply Nat.ltb_lt in Hlt. apply nth_error_app1. exact Hlt.
  - apply Nat.ltb_ge in Hlt. rewrite nth_error_app2 by exact Hlt.
    destruct (Nat.eqb i (length l)) eqn:He.
    + apply Nat.eqb_eq in He. subst. rewrite Nat.sub_diag. reflexivity.
    + apply Nat.eqb_neq in He. destruct (i - length l)%nat eqn:Hd; [lia|]. cbn. destruct n; reflexivity.
Qed.

(* ---------------------------------------------------------------- one subscription *)

Lemma fold_push_dropped evs : forall s, ms_dropped s = true -> fold_left sub_push evs s = s.
Proof.
  induction evs as [|e evs IH]; intros s H; cbn [fold_left]; [reflexivity|].
  assert (Hp : sub_push s e = s) by (unfold sub_push; rewrite H; reflexivity).
  rewrite Hp. apply IH. exact H.
Qed.

(* a fan-out on a live subscription: all events queued, or dropped at the first event that finds the
   queue full *)
Lemma fold_push_live evs : forall s, ms_dropped s = false ->
  fold_left sub_push evs s = mkSub (ms_queue s ++ map QEv evs) (ms_cap s) false \/
  exists evs1 e evs2,
    evs = evs1 ++ e :: evs2 /\
    N.of_nat (length (ms_queue s ++ map QEv evs1)) = ms_cap s /\
    fold_left sub_push evs s = mkSub (ms_queue s ++ map QEv evs1) (ms_cap s) true.
Proof.
  induction evs as [|e evs IH]; intros s Hd; cbn [fold_left].
  - left. destruct s as [q c d]. cbn in *. subst. rewrite app_nil_r. reflexivity.
  - assert (Hp : sub_push s e = if N.of_nat (length (ms_queue s)) =? ms_cap s
                                  then mkSub (ms_queue s) (ms_cap s) true
                                  else mkSub (ms_queue s ++ [QEv e]) (ms_cap s) false)
      by (unfold sub_push; rewrite Hd; reflexivity).
    rewrite Hp. clear Hp.
    destruct (N.of_nat (length (ms_queue s)) =? ms_cap s) eqn:Hfull.
    + right. exists [], e, evs. cbn [map app]. rewrite app_nil_r. split; [reflexivity|].
      split; [apply N.eqb_eq; exact Hfull|]. apply fold_push_dropped. reflexivity.
    + destruct (IH (mkSub (ms_queue s ++ [QEv e]) (ms_cap s) false) eq_refl) as [H|[evs1 [e' [evs2 [H1 [H2 H3]]]]]];
        cbn [ms_queue ms_cap] in *.
      * left. rewrite H. rewrite <- app_assoc. reflexivity.
      * right. exists (e :: evs1), e', evs2. split; [rewrite H1; reflexivity|].
        cbn [map]. rewrite <- app_assoc in H2, H3. cbn [app] in H2, H3. split; [exact H2 | exact H3].
Qed.

Lemma fold_push_cap evs : forall s, ms_cap (fold_left sub_push evs s) = ms_cap s.
Proof.
  induction evs as [|e evs IH]; intros s; cbn [fold_left]; [reflexivity|].
  rewrite IH. unfold sub_push. destruct (ms_dropped s); [reflexivity|].
  destruct (N.of_nat (length (ms_queue s)) =? ms_cap s); reflexivity.
Qed.

(* with room for all events nothing is dropped *)
Lemma fold_push_room evs s :
  ms_dropped s = false -> (N.of_nat (length (ms_queue s)) + N.of_nat (length evs) <= ms_cap s) ->
  fold_left sub_push evs s = mkSub (ms_queue s ++ map QEv evs) (ms_cap s) false.
Proof.
  intros Hd Hroom. destruct (fold_push_live evs s Hd) as [H|[evs1 [e [evs2 [H1 [H2 _]]]]]]; [exact H|].
  exfalso. rewrite H1 in Hroom. rewrite app_length in H2, Hroom. rewrite map_length in H2.
  cbn [length] in Hroom. lia.
Qed.

(* ---------------------------------------------------------------- a subscription inside the machine *)

Definition own1 (i : nat) (o : aop) : list sop :=
  match o with
  | AFan evs => [SFan evs]
  | ASub _ => []
  | ADrain k => if Nat.eqb k i then [SDrain] else []
  end.

Lemma own_cons i o ops : own i (o :: ops) = own1 i o ++ own i ops.
Proof. reflexivity. Qed.

Lemma own_app i a b : own i (a ++ b) = own i a ++ own i b.
Proof. unfold own. apply flat_map_app. Qed.

Lemma view_at_some subs got i s g :
  view_at subs got i = Some (s, g) <-> nth_error subs i = Some s /\ nth_error got i = Some g.
Proof.
  unfold view_at. destruct (nth_error subs i); destruct (nth_error got i); split; intros H;
    try discriminate; try (destruct H; discriminate).
  - inversion H; auto.
  - destruct H as [H1 H2]. inversion H1; inversion H2; reflexivity.
Qed.

(* one operation, seen from an existing subscription i *)
Lemma aview_step st o i v :
  aview st i = Some v -> aview (astep st o) i = Some (srun v (own1 i o)).
Proof.
  destruct v as [s g]. unfold aview. intros H. apply view_at_some in H. destruct H as [Hs Hg].
  destruct o as [evs|burst|k]; cbn [astep own1 a_subs a_got].
  - apply view_at_some. cbn [srun fold_left sstep fst snd]. rewrite nth_fan_out, Hs. auto.
  - apply view_at_some. cbn [srun fold_left].
    assert (Hl1 : (i < length (a_subs st))%nat) by (apply nth_error_Some; congruence).
    assert (Hl2 : (i < length (a_got st))%nat) by (apply nth_error_Some; congruence).
    rewrite !nth_error_app1 by assumption. auto.
  - destruct (drain_nth k (a_subs st)) as [subs' q] eqn:Hd. cbn [a_subs a_got].
    destruct (drain_nth_spec _ _ _ _ Hd) as [Hq [_ Hn]]. destruct (add_got_spec (a_got st) k q) as [_ Hg'].
    destruct (Nat.eqb k i) eqn:Hki; cbn [srun fold_left sstep fst snd]; apply view_at_some;
      rewrite Hn, Hg'; rewrite Nat.eqb_sym, Hki.
    + apply Nat.eqb_eq in Hki. subst k. rewrite Hs in Hq. subst q. rewrite Hs, Hg.
      cbn [option_map]. auto.
    + auto.
Qed.

Lemma srun_app v a b : srun v (a ++ b) = srun (srun v a) b.
Proof. unfold srun. apply fold_left_app. Qed.

Lemma aview_run ops : forall st i v,
  aview st i = Some v -> aview (arun st ops) i = Some (srun v (own i ops)).
Proof.
  induction ops as [|o ops IH]; intros st i v H; [exact H|].
  cbn [arun fold_left]. rewrite own_cons, srun_app. apply IH. apply aview_step. exact H.
Qed.

Lemma arun_app st a b : arun st (a ++ b) = arun (arun st a) b.
Proof. unfold arun. apply fold_left_app. Qed.

Lemma awf_step st o : awf st -> awf (astep st o).
Proof.
  unfold awf. intros H. destruct o as [evs|burst|k]; cbn [astep a_subs a_got].
  - rewrite fold_fan_out, map_length. exact H.
  - rewrite !app_length. cbn [length]. lia.
  - destruct (drain_nth k (a_subs st)) as [subs' q] eqn:Hd. cbn [a_subs a_got].
    destruct (drain_nth_spec _ _ _ _ Hd) as [_ [Hl _]]. destruct (add_got_spec (a_got st) k q) as [Hl' _]. lia.
Qed.

Lemma awf_run ops : forall st, awf st -> awf (arun st ops).
Proof. induction ops as [|o ops IH]; intros st H; [exact H|]. apply IH. apply awf_step. exact H. Qed.

(* the subscription just created *)
Lemma aview_new st burst :
  awf st -> aview (astep st (ASub burst)) (length (a_subs st)) = Some (new_sub burst, []).
Proof.
  unfold awf, aview. intros H. cbn [astep a_subs a_got]. apply view_at_some.
  rewrite !nth_error_snoc. rewrite <- H. rewrite Nat.ltb_irrefl, Nat.eqb_refl. auto.
Qed.

Theorem c08_abs_lone_proof : C08_abs_lone.
Proof.
  intros st0 pre burst post Hwf i. subst i.
  rewrite arun_app. cbn [arun fold_left]. apply aview_run. apply aview_new. apply awf_run. exact Hwf.
Qed.

(* ---------------------------------------------------------------- exactly once *)

Lemma fed_app a b : fed (a ++ b) = fed a ++ fed b.
Proof. unfold fed. apply flat_map_app. Qed.

Lemma app_snoc_run st pre burst post o :
  arun st (pre ++ ASub burst :: post ++ [o]) = astep (arun st (pre ++ ASub burst :: post)) o.
Proof.
  change (pre ++ ASub burst :: post ++ [o]) with (pre ++ (ASub burst :: post) ++ [o]).
  rewrite app_assoc. rewrite arun_app. reflexivity.
Qed.

Theorem c08_abs_exactly_once_proof : C08_abs_exactly_once.
Proof.
  intros st0 pre burst post Hwf i. subst i. set (i := length (a_subs (arun st0 pre))).
  induction post as [|o post IH] using rev_ind.
  - exists (new_sub burst), []. rewrite arun_app. cbn [arun fold_left].
    split; [apply aview_new; apply awf_run; exact Hwf|]. split; [reflexivity|].
    split; [intros _; cbn; rewrite app_nil_r; reflexivity | discriminate].
  - destruct IH as [s [got [Hv [Hcap [Hlive Hdrop]]]]].
    rewrite app_snoc_run. pose proof (aview_step _ o _ _ Hv) as Hv'.
    destruct (ms_dropped s) eqn:Hd.
    + (* already dropped: it stays so, and taken ++ pending does not change *)
      clear Hlive. specialize (Hdrop eq_refl).
      assert (Hstay : exists s' got', srun (s, got) (own1 i o) = (s', got') /\ ms_cap s' = ms_cap s /\
                                      ms_dropped s' = true /\ got' ++ ms_queue s' = got ++ ms_queue s).
      { destruct o as [evs|b|k]; cbn [own1 srun fold_left sstep fst snd].
        - rewrite fold_push_dropped by exact Hd. exists s, got; auto.
        - exists s, got; auto.
        - destruct (Nat.eqb k i); cbn [fold_left sstep fst snd]; [|exists s, got; auto].
          eexists. eexists. split; [reflexivity|]. cbn [ms_cap ms_dropped ms_queue]. rewrite app_nil_r. auto. }
      destruct Hstay as [s' [got' [Hrun [Hc' [Hd' Hq']]]]]. rewrite Hrun in Hv'.
      exists s', got'. split; [exact Hv'|]. split; [congruence|]. split; [congruence|]. intros _.
      destruct Hdrop as [post1 [evs1 [e [evs2 [post2 [s1 [got1 [Hp [Hv1 [Hd1 [Hfull [Hq1 Hq2]]]]]]]]]]]].
      exists post1, evs1, e, evs2, (post2 ++ [o]), s1, got1.
      split; [rewrite Hp, <- app_assoc; reflexivity|]. split; [exact Hv1|]. split; [exact Hd1|].
      split; [exact Hfull|]. split; congruence.
    + clear Hdrop. specialize (Hlive eq_refl).
      destruct o as [evs|b|k]; cbn [own1 srun fold_left sstep fst snd] in Hv'.
      * (* a fan-out on a live subscription *)
        destruct (fold_push_live evs s Hd) as [H|[evs1 [e [evs2 [H1 [H2 H3]]]]]]; rewrite ?H, ?H3 in Hv'.
        -- eexists. eexists. split; [exact Hv'|]. cbn [ms_cap ms_dropped ms_queue]. split; [exact Hcap|].
           split; [|discriminate]. intros _. rewrite fed_app. cbn [fed flat_map]. rewrite app_nil_r.
           rewrite app_assoc, Hlive, <- app_assoc. reflexivity.
        -- eexists. eexists. split; [exact Hv'|]. cbn [ms_cap ms_dropped ms_queue]. split; [exact Hcap|].
           split; [discriminate|]. intros _.
           exists post, evs1, e, evs2, [], s, got. split; [rewrite H1; reflexivity|]. split; [exact Hv|].
           split; [exact Hd|]. split; [exact H2|]. split; [reflexivity|].
           rewrite app_assoc, Hlive, <- app_assoc. reflexivity.
      * exists s, got. split; [exact Hv'|]. split; [exact Hcap|]. split; [|congruence]. intros _.
        rewrite fed_app. cbn [fed flat_map]. rewrite !app_nil_r. exact Hlive.
      * assert (Hf : fed (post ++ [ADrain k]) = fed post) by (rewrite fed_app; cbn [fed flat_map]; rewrite !app_nil_r; reflexivity).
        rewrite Hf. destruct (Nat.eqb k i); cbn [fold_left sstep fst snd] in Hv'.
        -- eexists. eexists. split; [exact Hv'|]. cbn [ms_cap ms_dropped ms_queue]. split; [exact Hcap|].
           split; [|congruence]. intros _. rewrite app_nil_r. exact Hlive.
        -- exists s, got. split; [exact Hv'|]. split; [exact Hcap|]. split; [intros _; exact Hlive | congruence].
Qed.

(* ---------------------------------------------------------------- isolation *)

(* equal except (possibly) at position j *)
Definition same_but (j : nat) (st st' : astate) : Prop :=
  length (a_subs st) = length (a_subs st') /\ length (a_got st) = length (a_got st') /\
  forall i, i <> j -> nth_error (a_subs st) i = nth_error (a_subs st') i /\
                      nth_error (a_got st) i = nth_error (a_got st') i.

Lemma same_but_refl j st : same_but j st st.
Proof. repeat split. Qed.

Lemma same_but_sym j a b : same_but j a b -> same_but j b a.
Proof. intros [H1 [H2 H3]]. repeat split; try congruence; symmetry; apply H3; assumption. Qed.

Lemma same_but_trans j a b c : same_but j a b -> same_but j b c -> same_but j a c.
Proof.
  intros [H1 [H2 H3]] [K1 [K2 K3]]. split; [congruence|]. split; [congruence|].
  intros i Hi. destruct (H3 i Hi), (K3 i Hi). split; congruence.
Qed.

Lemma same_but_step j st st' o : same_but j st st' -> same_but j (astep st o) (astep st' o).
Proof.
  intros [H1 [H2 H3]]. unfold same_but. destruct o as [evs|burst|k]; cbn [astep].
  - cbn [a_subs a_got]. split; [rewrite !fold_fan_out, !map_length; exact H1|]. split; [exact H2|].
    intros i Hi. destruct (H3 i Hi) as [Ha Hb]. rewrite !nth_fan_out, Ha. auto.
  - cbn [a_subs a_got]. split; [rewrite !app_length; cbn [length]; lia|].
    split; [rewrite !app_length; cbn [length]; lia|].
    intros i Hi. destruct (H3 i Hi) as [Ha Hb]. rewrite !nth_error_snoc, Ha, Hb, H1, H2. auto.
  - destruct (drain_nth k (a_subs st)) as [subs1 q1] eqn:Hd1.
    destruct (drain_nth k (a_subs st')) as [subs2 q2] eqn:Hd2. cbn [a_subs a_got].
    destruct (drain_nth_spec _ _ _ _ Hd1) as [Hq1 [Hl1 Hn1]].
    destruct (drain_nth_spec _ _ _ _ Hd2) as [Hq2 [Hl2 Hn2]].
    destruct (add_got_spec (a_got st) k q1) as [Hg1 Hm1]. destruct (add_got_spec (a_got st') k q2) as [Hg2 Hm2].
    split; [lia|]. split; [lia|]. intros i Hi. destruct (H3 i Hi) as [Ha Hb].
    rewrite Hn1, Hn2, Hm1, Hm2, Ha, Hb. destruct (Nat.eqb i k) eqn:Hik; [|auto].
    apply Nat.eqb_eq in Hik. subst k. rewrite Ha in Hq1. split; [reflexivity | rewrite Hq1, Hq2; reflexivity].
Qed.

Lemma same_but_drain j st : same_but j (astep st (ADrain j)) st.
Proof.
  unfold same_but. cbn [astep]. destruct (drain_nth j (a_subs st)) as [subs1 q1] eqn:Hd1. cbn [a_subs a_got].
  destruct (drain_nth_spec _ _ _ _ Hd1) as [_ [Hl1 Hn1]]. destruct (add_got_spec (a_got st) j q1) as [Hg1 Hm1].
  split; [lia|]. split; [lia|]. intros i Hi. rewrite Hn1, Hm1.
  apply Nat.eqb_neq in Hi. rewrite Hi. auto.
Qed.

Lemma same_but_erase j ops : forall st st', same_but j st st' -> same_but j (arun st ops) (arun st' (aerase j ops)).
Proof.
  induction ops as [|o ops IH]; intros st st' H; [exact H|].
  cbn [arun fold_left aerase filter].
  destruct o as [evs|burst|k]; cbn [negb]; try (cbn [fold_left]; apply IH; apply same_but_step; exact H).
  destruct (Nat.eqb k j) eqn:Hk; cbn [negb fold_left].
  - apply Nat.eqb_eq in Hk. subst k. apply IH. eapply same_but_trans; [apply same_but_drain | exact H].
  - apply IH. apply same_but_step. exact H.
Qed.

Theorem c08_abs_isolation_proof : C08_abs_isolation.
Proof.
  intros st0 ops1 ops2 i j Hij He.
  pose proof (same_but_erase j ops1 st0 st0 (same_but_refl j st0)) as H1.
  pose proof (same_but_erase j ops2 st0 st0 (same_but_refl j st0)) as H2.
  rewrite He in H1. pose proof (same_but_trans _ _ _ _ H1 (same_but_sym _ _ _ H2)) as [_ [_ H]].
  destruct (H i Hij) as [Ha Hb]. unfold aview, view_at. rewrite Ha, Hb. reflexivity.
Qed.
