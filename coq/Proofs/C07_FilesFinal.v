(* C07 composition: files_agree from "every merged block is at or below the ready hub's LIB" (files_final) and
   eventual_tip.  What is final for the hub stays on the chain of its eventual head: the final part of the
   reference stack only grows (vstatex_step), the retained blocks under the LIB are ancestors of the LIB block. *)
From Coq Require Import Sorted.
From BV Require Import Base.Prelude Model.Block Model.ForkDB Model.Forkable Model.ForkableLookups Model.Burst Model.Hub
  Model.CursorResolver Model.Joining
  Spec.Consumer Spec.Universe Check.Fk_Check Check.Burst_Check Check.C07_Check
  Spec.C09_Spec Spec.C05_Spec Spec.C06_Spec Spec.C07_Spec Spec.C07_Compose_Spec
  Spec.C01_Spec Spec.C01_Moving_Spec Spec.C01_Roots_Spec
  Proofs.C06_Lists Proofs.C09_Store Proofs.C09_Proofs
  Proofs.Fk.LoopFacts Proofs.Fk.MovingLibDisc Proofs.C02_Proofs Proofs.C01_Roots_Proofs
  Proofs.Hub.ConsFacts Proofs.Hub.HubInv Proofs.Hub.HubFed Proofs.Hub.LinkedRuns Proofs.Hub.C09_History
  Proofs.C07_Live Proofs.C07_ComposeStack Proofs.C07_ComposeHub Proofs.C07_ComposeRun Proofs.C07_ComposeCheck Proofs.C07_Compose.
Local Open Scope N_scope.

Lemma sorted_same_num : forall l a b, StronglySorted blt l -> In a l -> In b l -> bnum a = bnum b -> a = b.
Proof.
  induction l as [|x l IH]; intros a b HS Ha Hb E; [destruct Ha|].
  inversion HS as [|? ? HS' Hall]; subst. rewrite Forall_forall in Hall.
  destruct Ha as [<-|Ha], Hb as [<-|Hb]; [reflexivity| | |apply IH; assumption].
  - specialize (Hall b Hb). unfold blt in Hall. lia.
  - specialize (Hall a Ha). unfold blt in Hall. lia.
Qed.

Section FilesFinal.
  Variable U : list block.
  Variable c : jcfg.
  Hypothesis U_id : forall b, In b U -> bid b <> 0 /\ bid b <> bparent b.
  Hypothesis U_uniq : forall x y, In x U -> In y U -> bid x = bid y -> x = y.
  Hypothesis U_up : forall x y, In x U -> In y U -> bparent x = bid y -> bnum y < bnum x.
  Hypothesis D_decl : forall b, In b U -> decl_none U b.
  Let first := j_first c.
  Let kept := j_kept c.

  Definition LOKX (a : block) (Fin A : list block) (w : world) (V : list block) : Prop :=
    h_ready (w_hub w) = true /\ VStateX U first kept a Fin A (h_f (w_hub w)) V /\ (forall b, In b (w_rest w) -> In b U).

  Lemma lokx_push_one a Fin A w V : LOKX a Fin A w V ->
    exists F2 V', LOKX a (Fin ++ F2) A (fst (push_one c w)) V'.
  Proof.
    intros (Hrd & HV & Hr). unfold push_one. destruct (w_rest w) as [|b r] eqn:Er.
    - exists [], V. rewrite app_nil_r. split; [exact Hrd | split; [exact HV | cbn [fst]; rewrite Er; exact Hr]].
    - destruct (vstatex_step U first kept U_id U_uniq U_up D_decl a Fin A (h_f (w_hub w)) V b HV (Hr b (or_introl eq_refl)))
        as (s' & evs & Fnew & V' & Hstep & HV').
      unfold hub_live. fold first kept. rewrite Hrd, Hstep. cbn [fst].
      exists Fnew, V'. split; [reflexivity|]. split; [exact HV'|]. cbn [w_rest]. intros x Hx. apply Hr. right. exact Hx.
  Qed.

  Lemma lokx_push_n k : forall a Fin A w V, LOKX a Fin A w V ->
    exists F2 V', LOKX a (Fin ++ F2) A (world_after c k w) V'.
  Proof.
    induction k as [|k IH]; intros a Fin A w V H.
    - exists [], V. rewrite app_nil_r. exact H.
    - rewrite world_after_S. destruct (lokx_push_one a Fin A w V H) as (F1 & V1 & H1).
      destruct (IH a (Fin ++ F1) A _ V1 H1) as (F2 & V2 & H2).
      exists (F1 ++ F2), V2. rewrite app_assoc. exact H2.
  Qed.

  Lemma files_final_agree_core w canon merged :
    WOK U c w -> Forall (fun x => In x U) canon -> (exists x, lnk x canon) ->
    (forall b, In b merged -> In b canon) ->
    eventual_tip c w canon -> files_final c w merged -> files_agree c w merged.
  Proof.
    intros HW HcU [xc Hlc] Hmc Htip Hff k hd sg x b Hrd Hls Eseg Hx Hb Hnum.
    pose proof (wok_after U c U_id U_uniq U_up D_decl k w HW) as [Hok Hrest].
    set (wk := world_after c k w) in *.
    destruct (vstate_of_hub U first kept U_id U_uniq U_up D_decl (w_hub wk) Hok Hrd) as [V HV].
    destruct (vstate_x U first kept _ V HV) as (a & Fin & A & HVX).
    destruct (vstatex_rev U first kept U_id U_uniq U_up a Fin A _ V HVX) as (pre & pend & Hpre & HrV & HLU & Hlib).
    set (L := libblk a Fin) in *.
    destruct (vstatex_segment U first kept U_id U_uniq U_up a Fin A _ V hd sg HVX Hls Eseg) as (lo & xL & hi & Hsg & HxL & Hhi & Hgood & HsU).
    pose proof (Hff k b Hrd Hb) as HbL. fold wk in HbL. rewrite Hlib in HbL. cbn [bref rn] in HbL.
    destruct Hgood as [Hstd Hlk _ _].
    (* x lies at or below the LIB block on the segment *)
    assert (Hxlo : In x (lo ++ [xL])).
    { rewrite Hsg in Hx. apply in_app_or in Hx as [Hx|[<-|Hx]]; [apply in_or_app; left; exact Hx | apply in_or_app; right; left; reflexivity|].
      exfalso. specialize (Hhi x Hx). rewrite Forall_forall in Hstd.
      destruct (Hstd x) as [_ Hn]; [rewrite Hsg; apply in_or_app; right; right; exact Hx|]. unfold seg_blk, L in *. lia. }
    (* the retained chain up to the LIB block: a parent-linked run ending with it *)
    assert (HY : exists x0, lnk x0 (map seg_blk lo ++ [L])).
    { rewrite Hsg in Hstd, Hlk. change (xL :: hi) with ([xL] ++ hi) in Hstd, Hlk. rewrite app_assoc in Hstd, Hlk.
      apply Sorted_app_l in Hlk. apply Forall_app in Hstd as [Hstd _].
      destruct (seg_linked_all _ Hlk Hstd) as [x0 Hx0]. exists x0. rewrite map_app in Hx0. cbn [map] in Hx0. rewrite HxL in Hx0. exact Hx0. }
    destruct HY as [x0 HY].
    assert (HYU : Forall (fun y => In y U) (map seg_blk lo)).
    { apply Forall_forall. intros y Hy. apply in_map_iff in Hy as (q & <- & Hq). rewrite Forall_forall in HsU. apply HsU.
      rewrite Hsg. apply in_or_app. left. exact Hq. }
    (* to the end of the arrivals *)
    destruct (lokx_push_n (length (w_rest wk)) a Fin A wk V (conj Hrd (conj HVX Hrest))) as (F2 & VF & (HrdF & HVXF & _)).
    set (wF := world_after c (length (w_rest wk)) wk) in *.
    assert (HrestF : w_rest wF = []).
    { pose proof (world_after_rest c (length (w_rest wk)) wk) as Hl. fold wF in Hl. rewrite Nat.sub_diag in Hl.
      destruct (w_rest wF); [reflexivity | discriminate]. }
    destruct (vstatex_rev U first kept U_id U_uniq U_up a (Fin ++ F2) A _ VF HVXF) as (_ & pendF & _ & HrVF & _ & _).
    destruct (vstate_facts U first kept U_id U_uniq U_up _ VF (vstatex_vstate U first kept a (Fin ++ F2) A _ VF HVXF))
      as (HVFne & [HVFU [xv HlVF]] & _ & hdF & HlsF & HhdF).
    assert (Htip' : exists cpre, canon = cpre ++ [hdF]).
    { unfold wF, wk in HrestF, HlsF. rewrite world_after_add in HrestF, HlsF. exact (Htip _ hdF HrestF HlsF). }
    destruct Htip' as [cpre Hcan].
    (* rev VF = pre ++ L :: tl, ending with hdF *)
    set (tl := F2 ++ pendF).
    assert (EZ : rev VF = pre ++ L :: tl).
    { rewrite HrVF. unfold tl. rewrite (app_assoc A Fin F2), Hpre, <- !app_assoc. reflexivity. }
    assert (Hend : exists r', L :: tl = r' ++ [hdF]).
    { destruct VF as [|v0 VF0]; [contradiction|]. cbn [hd_error] in HhdF. injection HhdF as ->.
      cbn [rev] in EZ. destruct (exists_last (l := L :: tl)) as (r' & z & Er); [discriminate|].
      exists r'. rewrite Er in EZ |- *. rewrite app_assoc in EZ. apply app_inj_tail in EZ as [_ <-]. reflexivity. }
    destruct Hend as [r' Hr'].
    rewrite EZ in HlVF.
    assert (Hltl : lnk (bid L) tl).
    { apply linked_app_iff in HlVF as [_ H]. cbn [lnk] in H. apply H. }
    assert (HZ' : lnk x0 ((map seg_blk lo ++ r') ++ [hdF])).
    { rewrite <- app_assoc, <- Hr'. change (L :: tl) with ([L] ++ tl). rewrite app_assoc.
      apply linked_app_iff. split; [exact HY|]. rewrite tip_snoc. exact Hltl. }
    assert (HZ'U : Forall (fun y => In y U) ((map seg_blk lo ++ r') ++ [hdF])).
    { rewrite <- app_assoc, <- Hr'. apply Forall_app. split; [exact HYU|].
      apply Forall_forall. intros y Hy. rewrite Forall_forall in HVFU. apply HVFU. apply in_rev. rewrite EZ.
      apply in_or_app. right. exact Hy. }
    rewrite Hcan in Hlc, HcU.
    assert (HxZ : In (seg_blk x) ((map seg_blk lo ++ r') ++ [hdF])).
    { rewrite <- app_assoc, <- Hr'. apply in_app_or in Hxlo as [Hq|[<-|[]]].
      - apply in_or_app. left. apply in_map. exact Hq.
      - apply in_or_app. right. left. symmetry. exact HxL. }
    assert (HbC : In b (cpre ++ [hdF])) by (rewrite <- Hcan; apply Hmc; exact Hb).
    destruct (linked_same_end U U_uniq (map seg_blk lo ++ r') cpre x0 xc hdF HZ' Hlc HZ'U HcU) as [[d Hd]|[d Hd]].
    - (* canon is the end of the hub's chain *)
      apply (sorted_same_num ((map seg_blk lo ++ r') ++ [hdF])); [apply (linked_sorted U U_id U_uniq U_up _ x0 HZ' HZ'U) | exact HxZ | | exact Hnum].
      rewrite Hd, <- app_assoc. apply in_or_app. right. exact HbC.
    - apply (sorted_same_num (cpre ++ [hdF])); [apply (linked_sorted U U_id U_uniq U_up _ xc Hlc HcU) | | exact HbC | exact Hnum].
      rewrite Hd, <- app_assoc. apply in_or_app. right. exact HxZ.
  Qed.
  Lemma files_final_on_hub_core w canon merged :
    WOK U c w -> Forall (fun x => In x U) canon -> (exists x, lnk x canon) ->
    (forall b, In b merged -> In b canon) ->
    eventual_tip c w canon -> files_final c w merged -> files_on_hub c w merged.
  Proof.
    intros HW HcU [xc Hlc] Hmc Htip Hff k hd s00 sg00 b Hrd Hls Eseg Hb Hlow Hhigh. set (sg := s00 :: sg00) in *.
    pose proof (wok_after U c U_id U_uniq U_up D_decl k w HW) as [Hok Hrest].
    set (wk := world_after c k w) in *.
    destruct (vstate_of_hub U first kept U_id U_uniq U_up D_decl (w_hub wk) Hok Hrd) as [V HV].
    destruct (vstate_x U first kept _ V HV) as (a & Fin & A & HVX).
    destruct (vstatex_rev U first kept U_id U_uniq U_up a Fin A _ V HVX) as (pre & pend & Hpre & HrV & HLU & Hlib).
    set (L := libblk a Fin) in *.
    destruct (vstatex_segment U first kept U_id U_uniq U_up a Fin A _ V hd sg HVX Hls Eseg) as (lo & xL & hi & Hsg & HxL & Hhi & Hgood & HsU).
    pose proof (Hff k b Hrd Hb) as HbL. fold wk in HbL. rewrite Hlib in HbL. cbn [bref rn] in HbL.
    destruct Hgood as [Hstd Hlk _ _].
    (* the retained chain up to the LIB block: a parent-linked run ending with it *)
    assert (HY : exists x0, lnk x0 (map seg_blk lo ++ [L])).
    { rewrite Hsg in Hstd, Hlk. change (xL :: hi) with ([xL] ++ hi) in Hstd, Hlk. rewrite app_assoc in Hstd, Hlk.
      apply Sorted_app_l in Hlk. apply Forall_app in Hstd as [Hstd _].
      destruct (seg_linked_all _ Hlk Hstd) as [x0 Hx0]. exists x0. rewrite map_app in Hx0. cbn [map] in Hx0. rewrite HxL in Hx0. exact Hx0. }
    destruct HY as [x0 HY].
    assert (HYU : Forall (fun y => In y U) (map seg_blk lo)).
    { apply Forall_forall. intros y Hy. apply in_map_iff in Hy as (q & <- & Hq). rewrite Forall_forall in HsU. apply HsU.
      rewrite Hsg. apply in_or_app. left. exact Hq. }
    (* to the end of the arrivals *)
    destruct (lokx_push_n (length (w_rest wk)) a Fin A wk V (conj Hrd (conj HVX Hrest))) as (F2 & VF & (HrdF & HVXF & _)).
    set (wF := world_after c (length (w_rest wk)) wk) in *.
    assert (HrestF : w_rest wF = []).
    { pose proof (world_after_rest c (length (w_rest wk)) wk) as Hl. fold wF in Hl. rewrite Nat.sub_diag in Hl.
      destruct (w_rest wF); [reflexivity | discriminate]. }
    destruct (vstatex_rev U first kept U_id U_uniq U_up a (Fin ++ F2) A _ VF HVXF) as (_ & pendF & _ & HrVF & _ & _).
    destruct (vstate_facts U first kept U_id U_uniq U_up _ VF (vstatex_vstate U first kept a (Fin ++ F2) A _ VF HVXF))
      as (HVFne & [HVFU [xv HlVF]] & _ & hdF & HlsF & HhdF).
    assert (Htip' : exists cpre, canon = cpre ++ [hdF]).
    { unfold wF, wk in HrestF, HlsF. rewrite world_after_add in HrestF, HlsF. exact (Htip _ hdF HrestF HlsF). }
    destruct Htip' as [cpre Hcan].
    (* rev VF = pre ++ L :: tl, ending with hdF *)
    set (tl := F2 ++ pendF).
    assert (EZ : rev VF = pre ++ L :: tl).
    { rewrite HrVF. unfold tl. rewrite (app_assoc A Fin F2), Hpre, <- !app_assoc. reflexivity. }
    assert (Hend : exists r', L :: tl = r' ++ [hdF]).
    { destruct VF as [|v0 VF0]; [contradiction|]. cbn [hd_error] in HhdF. injection HhdF as ->.
      cbn [rev] in EZ. destruct (exists_last (l := L :: tl)) as (r' & z & Er); [discriminate|].
      exists r'. rewrite Er in EZ |- *. rewrite app_assoc in EZ. apply app_inj_tail in EZ as [_ <-]. reflexivity. }
    destruct Hend as [r' Hr'].
    rewrite EZ in HlVF.
    assert (Hltl : lnk (bid L) tl).
    { apply linked_app_iff in HlVF as [_ H]. cbn [lnk] in H. apply H. }
    assert (HZ' : lnk x0 ((map seg_blk lo ++ r') ++ [hdF])).
    { rewrite <- app_assoc, <- Hr'. change (L :: tl) with ([L] ++ tl). rewrite app_assoc.
      apply linked_app_iff. split; [exact HY|]. rewrite tip_snoc. exact Hltl. }
    assert (HZ'U : Forall (fun y => In y U) ((map seg_blk lo ++ r') ++ [hdF])).
    { rewrite <- app_assoc, <- Hr'. apply Forall_app. split; [exact HYU|].
      apply Forall_forall. intros y Hy. rewrite Forall_forall in HVFU. apply HVFU. apply in_rev. rewrite EZ.
      apply in_or_app. right. exact Hy. }
    rewrite Hcan in Hlc, HcU.
    assert (HbC : In b (cpre ++ [hdF])) by (rewrite <- Hcan; apply Hmc; exact Hb).
    (* everything after L on the chain is numbered above L *)
    assert (Htlgt : forall y, In y tl -> bnum L < bnum y).
    { assert (HtlU : Forall (fun y => In y U) tl).
      { apply Forall_forall. intros y Hy. rewrite Forall_forall in HVFU. apply HVFU. apply in_rev. rewrite EZ.
        apply in_or_app. right. right. exact Hy. }
      pose proof (linked_above U U_id U_uniq U_up tl L HLU Hltl HtlU) as Hab. rewrite Forall_forall in Hab.
      intros y Hy. exact (Hab y Hy). }
    (* a block of Z' numbered at most like L is a retained block at or below the LIB *)
    assert (HinZ : In b ((map seg_blk lo ++ r') ++ [hdF]) -> exists x, In x sg /\ seg_blk x = b).
    { intros Hin. rewrite <- app_assoc, <- Hr' in Hin. apply in_app_or in Hin as [Hin|[Hin|Hin]].
      - apply in_map_iff in Hin as (x & Ex & Hx). exists x. split; [rewrite Hsg; apply in_or_app; left; exact Hx | exact Ex].
      - exists xL. split; [rewrite Hsg; apply in_or_app; right; left; reflexivity | rewrite HxL; exact Hin].
      - exfalso. specialize (Htlgt b Hin). unfold L in *. lia. }
    destruct (linked_same_end U U_uniq (map seg_blk lo ++ r') cpre x0 xc hdF HZ' Hlc HZ'U HcU) as [[d Hd]|[d Hd]].
    - apply HinZ. rewrite Hd, <- app_assoc. apply in_or_app. right. exact HbC.
    - rewrite Hd, <- app_assoc in HbC. apply in_app_or in HbC as [HbD|HbZ]; [|apply HinZ; exact HbZ].
      exfalso.
      (* d lies below the first retained block *)
      pose proof (linked_sorted U U_id U_uniq U_up _ xc Hlc HcU) as HSc. rewrite Hd, <- app_assoc in HSc.
      assert (Hfirst : exists f rr, (map seg_blk lo ++ r') ++ [hdF] = f :: rr /\ bnum f = snum s00).
      { rewrite <- app_assoc, <- Hr'. unfold sg in Hsg. destruct lo as [|l0 lo0].
        - cbn [app] in Hsg. injection Hsg as E _. exists L, tl. split; [reflexivity|].
          rewrite Forall_forall in Hstd. destruct (Hstd s00) as [_ Hn]; [left; reflexivity|]. rewrite Hn, E, HxL. reflexivity.
        - cbn [app] in Hsg. injection Hsg as E _. exists (seg_blk l0), (map seg_blk lo0 ++ L :: tl). split; [reflexivity|].
          rewrite Forall_forall in Hstd. destruct (Hstd s00) as [_ Hn]; [left; reflexivity|]. rewrite Hn, E. reflexivity. }
      destruct Hfirst as (f & rr & Ef & Hfn). rewrite Ef in HSc.
      destruct (Proofs.C09_Proofs.StronglySorted_split blt d f rr HSc) as [Hlt _]. specialize (Hlt b HbD). unfold blt in Hlt. lia.
  Qed.

End FilesFinal.

Lemma c07_files_final_agree_proof : C07_files_final_agree.
Proof.
  intros U c w merged_end canon Hwfb Hlok [[l [Hl Hhub]] Hrest] Hchain Hincl Htip merged Hff.
  assert (Hscope : disc_scope2_b U = true) by (unfold disc_scope2_b; rewrite Hwfb, Hlok; reflexivity).
  pose proof (bridge_id U Hwfb) as Hid. pose proof (bridge_uniq U Hwfb) as Huniq. pose proof (bridge_up U Hwfb) as Hup.
  pose proof (bridge2_decl_none U Hscope) as Hdecl.
  assert (HW : WOK U c w).
  { split; [|exact Hrest]. rewrite Hhub. apply (hub_ok_run U (j_first c) (j_kept c) Hwfb Hlok l Hl). }
  apply (files_final_agree_core U c Hid Huniq Hup Hdecl w canon merged HW).
  - apply Forall_forall. exact Hincl.
  - apply lnk_of_chain_ok. exact Hchain.
  - intros b Hb. unfold merged in Hb. apply filter_In in Hb as [Hb _]. exact Hb.
  - exact Htip.
  - exact Hff.
Qed.

Lemma c07_files_final_on_hub_proof : C07_files_final_on_hub.
Proof.
  intros U c w merged_end canon Hwfb Hlok [[l [Hl Hhub]] Hrest] Hchain Hincl Htip merged Hff.
  assert (Hscope : disc_scope2_b U = true) by (unfold disc_scope2_b; rewrite Hwfb, Hlok; reflexivity).
  pose proof (bridge_id U Hwfb) as Hid. pose proof (bridge_uniq U Hwfb) as Huniq. pose proof (bridge_up U Hwfb) as Hup.
  pose proof (bridge2_decl_none U Hscope) as Hdecl.
  assert (HW : WOK U c w).
  { split; [|exact Hrest]. rewrite Hhub. apply (hub_ok_run U (j_first c) (j_kept c) Hwfb Hlok l Hl). }
  apply (files_final_on_hub_core U c Hid Huniq Hup Hdecl w canon merged HW).
  - apply Forall_forall. exact Hincl.
  - apply lnk_of_chain_ok. exact Hchain.
  - intros b Hb. unfold merged in Hb. apply filter_In in Hb as [Hb _]. exact Hb.
  - exact Htip.
  - exact Hff.
Qed.
