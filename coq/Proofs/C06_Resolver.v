(* C06: the resolver's run, phase by phase, and the walk over the one-block files. *)
From BV Require Import Base.Prelude Model.Block Model.Burst Model.CursorResolver Check.Burst_Check
  Spec.C06_Spec Proofs.C06_Lists.
Local Open Scope N_scope.

(* ------------------------------------------------------------------ send_between *)

Lemma sb_app : forall st l1 l2 lo hi,
  send_between st (l1 ++ l2) lo hi = send_between st l1 lo hi ++ send_between st l2 lo hi.
Proof. intros. unfold send_between. rewrite filter_app, map_app. reflexivity. Qed.

Lemma sb_all : forall st l lo hi,
  Forall (fun b => lo < bnum b /\ bnum b <= hi) l -> send_between st l lo hi = map (file_event st) l.
Proof.
  intros st l lo hi H. unfold send_between. rewrite filter_all; [reflexivity|].
  eapply Forall_impl; [|exact H]. cbn beta. intros b [H1 H2].
  apply andb_true_iff. split; [apply N.ltb_lt|apply N.leb_le]; assumption.
Qed.

Lemma sb_none : forall st l lo hi,
  Forall (fun b => bnum b <= lo \/ hi < bnum b) l -> send_between st l lo hi = [].
Proof.
  intros st l lo hi H. unfold send_between. rewrite filter_none; [reflexivity|].
  eapply Forall_impl; [|exact H]. cbn beta. intros b Hb.
  apply andb_false_iff. destruct Hb as [Hb|Hb]; [left; apply N.ltb_ge|right; apply N.leb_gt]; assumption.
Qed.

Lemma sb_between : forall st l lo hi, send_between st l lo hi = map (file_event st) (between lo hi l).
Proof. reflexivity. Qed.

(* ------------------------------------------------------------------ phases of resolver_run *)

Lemma run_resolved : forall c pass forked seen l,
  resolver_run c pass forked (mkRS seen true) l = (map (file_event SNewIrr) l, RsOk).
Proof.
  intros c pass forked seen l. induction l as [|b l IH]; [reflexivity|].
  cbn [resolver_run]. unfold resolver_step at 1. cbn [r_resolved].
  rewrite IH. reflexivity.
Qed.

Lemma run_buffer : forall c forked pre seen l,
  Forall (fun b => bnum b < rn (cu_blk c)) pre ->
  resolver_run c false forked (mkRS seen false) (pre ++ l) =
  resolver_run c false forked (mkRS (seen ++ pre) false) l.
Proof.
  intros c forked pre. induction pre as [|a pre IH]; intros seen l H.
  - rewrite app_nil_r. reflexivity.
  - inversion H as [|? ? Ha H']; subst.
    cbn [app resolver_run]. unfold resolver_step at 1. cbn [r_resolved r_seen andb].
    replace (bnum a <? rn (cu_blk c)) with true by (symmetry; apply N.ltb_lt; exact Ha).
    rewrite (IH (seen ++ [a]) l H'). rewrite <- app_assoc. cbn [app].
    destruct (resolver_run c false forked (mkRS (seen ++ a :: pre) false) l) as [evs r]. reflexivity.
Qed.

Lemma run_all_buffered : forall c forked l seen,
  Forall (fun b => bnum b < rn (cu_blk c)) l ->
  resolver_run c false forked (mkRS seen false) l = ([], RsOk).
Proof.
  intros c forked l seen H. rewrite <- (app_nil_r l). rewrite run_buffer; [reflexivity|exact H].
Qed.

(* the block at which the cursor is recognised, non-Undo cursor *)
Lemma run_hit : forall c forked seen b post,
  rn (cu_blk c) <= bnum b -> bid b = ri (cu_blk c) -> matches_undo (cu_step c) = false ->
  resolver_run c false forked (mkRS seen false) (b :: post) =
  (send_between SIrr (seen ++ [b]) (rn (cu_lib c)) (rn (cu_blk c)) ++ map (file_event SNewIrr) post, RsOk).
Proof.
  intros c forked seen b post Hge Hid Hst.
  cbn [resolver_run]. unfold resolver_step at 1. cbn [r_resolved r_seen andb].
  replace (bnum b <? rn (cu_blk c)) with false by (symmetry; apply N.ltb_ge; exact Hge).
  replace (bid b =? ri (cu_blk c)) with true by (symmetry; apply N.eqb_eq; exact Hid).
  rewrite Hst. rewrite run_resolved. reflexivity.
Qed.

Lemma run_hit_undo : forall c forked seen b post,
  rn (cu_blk c) <= bnum b -> bid b = ri (cu_blk c) -> matches_undo (cu_step c) = true ->
  resolver_run c false forked (mkRS seen false) (b :: post) =
  ((if 0 <? rn (cu_blk c) then send_between SIrr (seen ++ [b]) (rn (cu_lib c)) (rn (cu_blk c) - 1) else [])
   ++ file_event SNewIrr b :: map (file_event SNewIrr) post, RsOk).
Proof.
  intros c forked seen b post Hge Hid Hst.
  cbn [resolver_run]. unfold resolver_step at 1. cbn [r_resolved r_seen andb].
  replace (bnum b <? rn (cu_blk c)) with false by (symmetry; apply N.ltb_ge; exact Hge).
  replace (bid b =? ri (cu_blk c)) with true by (symmetry; apply N.eqb_eq; exact Hid).
  rewrite Hst. rewrite run_resolved. rewrite <- app_assoc. reflexivity.
Qed.

(* the block at which a fork is detected *)
Lemma run_fork : forall c forked seen b post,
  rn (cu_blk c) <= bnum b -> bid b <> ri (cu_blk c) ->
  resolver_run c false forked (mkRS seen false) (b :: post) =
  match resolve_walk (S (length (filter (fun x => rn (cu_lib c) <=? bnum x) forked))) c (seen ++ [b])
          (filter (fun x => rn (cu_lib c) <=? bnum x) forked) (ri (cu_blk c)) [] with
  | None => ([], RsFuel)
  | Some None => ([], RsResolveErr)
  | Some (Some (undos, j)) =>
      (map (fun u => mkEv SUndo u (bref u) (cu_head c) (cu_lib c) (Some (bref j)) 0 0) undos
       ++ send_between SIrr (seen ++ [b]) (rn (cu_lib c)) (bnum j)
       ++ send_between SNewIrr (seen ++ [b]) (bnum j) (bnum b)
       ++ map (file_event SNewIrr) post, RsOk)
  end.
Proof.
  intros c forked seen b post Hge Hid.
  cbn [resolver_run]. unfold resolver_step at 1. cbn [r_resolved r_seen andb].
  replace (bnum b <? rn (cu_blk c)) with false by (symmetry; apply N.ltb_ge; exact Hge).
  replace (bid b =? ri (cu_blk c)) with false by (symmetry; apply N.eqb_neq; exact Hid).
  destruct (resolve_walk _ c (seen ++ [b]) _ (ri (cu_blk c)) []) as [[[undos j]|]|]; try reflexivity.
  rewrite run_resolved. rewrite <- !app_assoc. reflexivity.
Qed.

(* ------------------------------------------------------------------ the walk *)

(* W, newest first: the first block has id `prev`, each next block is the parent of the one before,
   and the parent of the last one is `target` *)
Fixpoint wlinked (prev : N) (W : list block) (target : N) : Prop :=
  match W with
  | [] => prev = target
  | w :: W' => bid w = prev /\ wlinked (bparent w) W' target
  end.

Lemma wlinked_snoc : forall W prev a target,
  wlinked prev W (bid a) -> bparent a = target -> wlinked prev (W ++ [a]) target.
Proof.
  induction W as [|w W IH]; intros prev a target H E.
  - cbn in *. split; [symmetry; exact H|exact E].
  - destruct H as [Hw H]. split; [exact Hw|]. apply IH; assumption.
Qed.

Lemma wlinked_prefix : forall W1 m W2 prev target,
  wlinked prev (W1 ++ m :: W2) target -> wlinked prev W1 (bid m).
Proof.
  induction W1 as [|w W1 IH]; intros m W2 prev target H.
  - destruct H as [H _]. cbn. symmetry. exact H.
  - destruct H as [Hw H]. split; [exact Hw|]. eapply IH. exact H.
Qed.

Lemma branch_wlinked : forall l p, branch_from p l -> wlinked (bid (last l p)) (rev l) (bid p).
Proof.
  induction l as [|a l IH]; intros p H; [reflexivity|].
  destruct H as (Hp & _ & H). rewrite last_cons. cbn [rev].
  apply wlinked_snoc; [apply IH; exact H|exact Hp].
Qed.

Definition skipped (c : cursor) (w : block) : bool := (bnum w =? rn (cu_blk c)) && step_eqb (cu_step c) SUndo.

Lemma walk_ok : forall c seen vis W prev acc fuel j,
  wlinked prev W (bid j) ->
  Forall (fun w => lookup_blk (bid w) seen = None) W ->
  Forall (fun w => lookup_blk (bid w) vis = Some w) W ->
  Forall (fun w => rn (cu_lib c) <= bnum w) W ->
  lookup_blk (bid j) seen = Some j ->
  (length W < fuel)%nat ->
  resolve_walk fuel c seen vis prev acc = Some (Some (acc ++ filter (fun w => negb (skipped c w)) W, j)).
Proof.
  intros c seen vis W. induction W as [|w W IH]; intros prev acc fuel j Hl Hs Hv Hn Hj Hf.
  - cbn in Hl. subst prev. destruct fuel as [|f]; [cbn in Hf; lia|].
    cbn [resolve_walk]. rewrite Hj. cbn [filter]. rewrite app_nil_r. reflexivity.
  - destruct Hl as [Hw Hl]. subst prev.
    inversion Hs as [|? ? Hsw Hs']; subst. inversion Hv as [|? ? Hvw Hv']; subst.
    inversion Hn as [|? ? Hnw Hn']; subst.
    destruct fuel as [|f]; [cbn in Hf; lia|]. cbn [length] in Hf.
    cbn [resolve_walk]. rewrite Hsw, Hvw.
    replace (bnum w <? rn (cu_lib c)) with false by (symmetry; apply N.ltb_ge; exact Hnw).
    rewrite (IH (bparent w) _ f j Hl Hs' Hv' Hn' Hj) by lia.
    cbn [filter]. unfold skipped at 2.
    destruct ((bnum w =? rn (cu_blk c)) && step_eqb (cu_step c) SUndo); cbn [negb].
    + reflexivity.
    + rewrite <- app_assoc. reflexivity.
Qed.

Lemma walk_missing : forall c seen vis W prev acc fuel mid,
  wlinked prev W mid ->
  Forall (fun w => lookup_blk (bid w) seen = None) W ->
  Forall (fun w => lookup_blk (bid w) vis = Some w) W ->
  Forall (fun w => rn (cu_lib c) <= bnum w) W ->
  lookup_blk mid seen = None -> lookup_blk mid vis = None ->
  (length W < fuel)%nat ->
  resolve_walk fuel c seen vis prev acc = Some None.
Proof.
  intros c seen vis W. induction W as [|w W IH]; intros prev acc fuel mid Hl Hs Hv Hn Hm1 Hm2 Hf.
  - cbn in Hl. subst prev. destruct fuel as [|f]; [cbn in Hf; lia|].
    cbn [resolve_walk]. rewrite Hm1, Hm2. reflexivity.
  - destruct Hl as [Hw Hl]. subst prev.
    inversion Hs as [|? ? Hsw Hs']; subst. inversion Hv as [|? ? Hvw Hv']; subst.
    inversion Hn as [|? ? Hnw Hn']; subst.
    destruct fuel as [|f]; [cbn in Hf; lia|]. cbn [length] in Hf.
    cbn [resolve_walk]. rewrite Hsw, Hvw.
    replace (bnum w <? rn (cu_lib c)) with false by (symmetry; apply N.ltb_ge; exact Hnw).
    apply (IH (bparent w) _ f mid Hl Hs' Hv' Hn' Hm1 Hm2). lia.
Qed.

(* the first absent block, walking newest first *)
Lemma first_none : forall (f : block -> option block) W,
  (forall w, In w W -> f w = Some w \/ f w = None) ->
  (exists m, In m W /\ f m = None) ->
  exists W1 m W2, W = W1 ++ m :: W2 /\ (forall w, In w W1 -> f w = Some w) /\ f m = None.
Proof.
  intros f W. induction W as [|w W IH]; intros Hall (m & Hm & Hnone); [contradiction|].
  destruct (Hall w (or_introl eq_refl)) as [Hw|Hw].
  - destruct Hm as [->|Hm]; [congruence|].
    destruct IH as (W1 & m' & W2 & -> & H1 & H2).
    + intros x Hx. apply Hall. right. exact Hx.
    + exists m. split; assumption.
    + exists (w :: W1), m', W2. split; [reflexivity|]. split; [|exact H2].
      intros x [<-|Hx]; [exact Hw|apply H1; exact Hx].
  - exists [], w, W. split; [reflexivity|]. split; [intros x []|exact Hw].
Qed.
