(* Proofs of Spec/C08_All_Spec.v: the C08 statements with the faithful event function [hub_live_all]
   (every event the hub's Forkable hands to processBlock, before readiness too) are instances of the
   generic theorems (Proofs/C08G_*.v, any event production function). *)
From BV Require Import Base.Prelude Model.Block Model.ForkDB Model.Forkable Model.ForkableLookups
  Model.Burst Model.Hub Model.HubSubs Model.HubAll Model.HubSched Model.HubSchedG
  Spec.C08_Spec Spec.C08_Gen_Spec Spec.C08_Sched_Spec Spec.C08_Sched_Gen_Spec Spec.C08_All_Spec
  Proofs.C08_LiveAll Proofs.C08G_Hub
  Proofs.C08G_SchedSerial Proofs.C08G_SchedEmbed Proofs.C08G_SchedInv Proofs.C08G_SchedThms Proofs.C08G_SchedProgress.
Local Open Scope N_scope.

(* ================================================================ 0. hub_live_all against hub_live *)

Theorem c08_live_all_same_hub_proof : C08_live_all_same_hub.
Proof. exact hub_live_all_state. Qed.

Theorem c08_live_all_ready_proof : C08_live_all_ready.
Proof. exact hub_live_all_ready. Qed.

Theorem c08_live_events_sub_proof : C08_live_events_sub.
Proof. exact hub_live_events_sub. Qed.

Lemma fk_all_app cfg : forall l1 s l2,
  fk_all cfg s (l1 ++ l2) =
  (fst (fk_all cfg (fst (fk_all cfg s l1)) l2), snd (fk_all cfg s l1) ++ snd (fk_all cfg (fst (fk_all cfg s l1)) l2)).
Proof.
  induction l1 as [|b l1 IH]; intros s l2; cbn [app fk_all fst snd].
  - destruct (fk_all cfg s l2). reflexivity.
  - destruct (fk_step cfg s b) as [[s' evs] r]. rewrite IH.
    destruct (fk_all cfg s' l1) as [s1 evs1]. cbn [fst snd].
    destruct (fk_all cfg s1 l2) as [s2 evs2]. cbn [fst snd]. rewrite app_assoc. reflexivity.
Qed.

Lemma fk_all_one cfg s b : fk_all cfg s [b] = (fst (fst (fk_step cfg s b)), snd (fst (fk_step cfg s b))).
Proof. cbn [fk_all]. destruct (fk_step cfg s b) as [[s' evs] r]. cbn [fst snd]. rewrite app_nil_r. reflexivity. Qed.

(* a feed is the Forkable fed with a prefix of the list: up to and including the first failing block *)
Lemma feed_ev_prefix cfg : forall l s, exists l1 l2, l = l1 ++ l2 /\ feed_ev cfg s l = fk_all cfg s l1.
Proof.
  induction l as [|b l IH]; intro s.
  - exists [], []. split; reflexivity.
  - cbn [feed_ev]. destruct (fk_step cfg s b) as [[s' evs] r] eqn:Hs.
    assert (Herr : r <> ROk -> exists l1 l2, b :: l = l1 ++ l2 /\ (s', evs) = fk_all cfg s l1).
    { intros _. exists [b], l. split; [reflexivity|]. rewrite fk_all_one, Hs. reflexivity. }
    destruct r; try (apply Herr; discriminate).
    destruct (IH s') as [l1 [l2 [El Ef]]]. exists (b :: l1), l2. split; [rewrite El; reflexivity|].
    cbn [fk_all]. rewrite Hs, Ef. destruct (fk_all cfg s' l1). reflexivity.
Qed.

Theorem c08_live_all_is_forkable_proof : C08_live_all_is_forkable.
Proof.
  intros first kept h p b. set (cfg := hub_config first kept).
  (* the common tail: one more call, on b, after the calls on [fed] *)
  assert (Htail : forall fed s1 evs1 (X : hub * list event * result),
    (s1, evs1) = fk_all cfg (h_f h) fed ->
    (forall x, In x fed -> exists bl, p = PBlocks bl /\ In x bl) ->
    h_f (fst (fst X)) = fst (fst (fk_step cfg s1 b)) ->
    snd (fst X) = evs1 ++ snd (fst (fk_step cfg s1 b)) ->
    exists l, (h_f (fst (fst X)), snd (fst X)) = fk_all cfg (h_f h) l /\
              (l = [] \/ exists fed, l = fed ++ [b] /\ forall x, In x fed -> exists bl, p = PBlocks bl /\ In x bl)).
  { intros fed s1 evs1 X Hf Hin Hs He. exists (fed ++ [b]). split.
    - rewrite fk_all_app, <- Hf. cbn [fst snd]. rewrite fk_all_one. cbn [fst snd]. rewrite Hs, He. reflexivity.
    - right. exists fed. split; [reflexivity | exact Hin]. }
  assert (Hboot : forall fed s1 evs1,
    (s1, evs1) = fk_all cfg (h_f h) fed ->
    (forall x, In x fed -> exists bl, p = PBlocks bl /\ In x bl) ->
    let X := (let '(s2, evs2, r) := fk_step cfg s1 b in
              let evs := evs1 ++ evs2 in
              match r with
              | ROk => match linkable s2 b with
                       | None => (mkHub s2 false, evs, RFuel)
                       | Some true => (mkHub s2 (match head_info s2 with Some _ => true | None => false end), evs, ROk)
                       | Some false => (mkHub s2 false, evs, ROk)
                       end
              | _ => (mkHub s2 false, evs, r)
              end) in
    exists l, (h_f (fst (fst X)), snd (fst X)) = fk_all cfg (h_f h) l /\
              (l = [] \/ exists fed, l = fed ++ [b] /\ forall x, In x fed -> exists bl, p = PBlocks bl /\ In x bl)).
  { intros fed s1 evs1 Hf Hin X. apply (Htail fed s1 evs1 X Hf Hin); subst X;
      destruct (fk_step cfg s1 b) as [[s2 evs2] r]; cbn [fst snd];
      destruct r; try reflexivity; destruct (linkable s2 b) as [[|]|]; reflexivity. }
  unfold hub_live_all. fold cfg.
  destruct (h_ready h).
  { apply (Htail [] (h_f h) []); try reflexivity; [intros x []| |];
      destruct (fk_step cfg (h_f h) b) as [[s' evs] r]; reflexivity. }
  destruct (bnum b <? head_num (h_f h)).
  { apply (Htail [] (h_f h) []); try reflexivity; [intros x []| |];
      destruct (fk_step cfg (h_f h) b) as [[s' evs] r]; reflexivity. }
  destruct (linkable (h_f h) b) as [l0|]; [|exists []; split; [reflexivity | left; reflexivity]].
  destruct l0.
  { apply (Hboot [] (h_f h) []); [reflexivity | intros x []]. }
  destruct p as [|bl]; [exists []; split; [reflexivity | left; reflexivity]|].
  destruct (feed_ev_prefix cfg (filter (fun x => sub_round first (blib b) kept <=? bnum x) bl) (h_f h))
    as [l1 [l2 [El Ef]]].
  destruct (feed_ev cfg (h_f h) (filter (fun x => sub_round first (blib b) kept <=? bnum x) bl)) as [s1 evs1].
  apply (Hboot l1 s1 evs1 Ef).
  intros x Hx. exists bl. split; [reflexivity|].
  assert (Hx' : In x (filter (fun x => sub_round first (blib b) kept <=? bnum x) bl))
    by (rewrite El; apply in_or_app; left; exact Hx).
  apply filter_In in Hx'. exact (proj1 Hx').
Qed.

(* ================================================================ 1. operation sequences *)

Theorem c08_exactly_once_all_proof : C08_exactly_once_all.
Proof. intros first kept pf. exact (c08_exactly_once_proof (hub_push_all first kept pf)). Qed.

Theorem c08_refused_all_proof : C08_refused_all.
Proof. intros first kept pf. exact (c08_refused_proof _). Qed.

Theorem c08_isolation_hub_all_proof : C08_isolation_hub_all.
Proof. intros first kept pf. exact (c08_isolation_hub_proof _). Qed.

Theorem c08_isolation_subs_all_proof : C08_isolation_subs_all.
Proof. intros first kept pf. exact (c08_isolation_subs_proof _). Qed.

Theorem c08_lone_all_proof : C08_lone_all.
Proof. intros first kept pf. exact (c08_lone_proof _). Qed.

Theorem c08_registration_atomic_all_proof : C08_registration_atomic_all.
Proof. intros first kept pf. exact (c08_registration_atomic_proof _). Qed.

Lemma hub_push_all_eq first kept pf h b :
  hub_push_all first kept pf h b =
  (fst (fst (hub_live first kept h (pf b) b)), snd (fst (hub_live_all first kept h (pf b) b))).
Proof.
  unfold hub_push_all. pose proof (hub_live_all_state first kept h (pf b) b) as [H _].
  destruct (hub_live_all first kept h (pf b) b) as [[h' evs] r]. cbn [fst snd] in *. rewrite H. reflexivity.
Qed.

Theorem c08_push_events_all_not_ready_proof : C08_push_events_all_not_ready.
Proof.
  intros first kept pf h b bs _. unfold push_events_all. cbn [push_events_g].
  rewrite hub_push_all_eq. reflexivity.
Qed.

(* a ready hub: the faithful function is the old one, whatever the pass *)
Lemma hub_push_all_ready first kept pf h b :
  h_ready h = true ->
  hub_push_all first kept pf h b = hub_push first kept h b /\ h_ready (fst (hub_push first kept h b)) = true.
Proof.
  intro Hr. unfold hub_push_all, hub_push, hub_live_all, hub_live. rewrite Hr.
  destruct (fk_step (hub_config first kept) (h_f h) b) as [[s' evs] r]. split; reflexivity.
Qed.

Lemma push_events_all_ready first kept pf : forall bs h, h_ready h = true ->
  push_events_g (hub_push_all first kept pf) h bs = push_events first kept h bs /\
  hub_after_g (hub_push_all first kept pf) h bs = hub_after first kept h bs.
Proof.
  induction bs as [|b bs IH]; intros h Hr; [split; reflexivity|].
  cbn [push_events_g push_events hub_after_g hub_after].
  destruct (hub_push_all_ready first kept pf h b Hr) as [E R]. rewrite E.
  destruct (IH _ R) as [E1 E2]. rewrite E1, E2. split; reflexivity.
Qed.

Lemma step_g_hub hp st o :
  sh_hub (hs_sh (step_g hp st o)) = match o with OPush b => fst (hp (sh_hub (hs_sh st)) b) | _ => sh_hub (hs_sh st) end.
Proof.
  destruct o as [b|r|k]; cbn [step_g].
  - rewrite push_block_eq. reflexivity.
  - unfold subscribe. destruct (request_burst (sh_hub (hs_sh st)) r); reflexivity.
  - destruct (drain_nth k (sh_subs (hs_sh st))). reflexivity.
Qed.

Lemma run_all_ready first kept pf : forall ops st, h_ready (sh_hub (hs_sh st)) = true ->
  run_g (hub_push_all first kept pf) st ops = run first kept st ops.
Proof.
  induction ops as [|o ops IH]; intros st Hr; [reflexivity|].
  cbn [run_g run fold_left].
  assert (E : step_g (hub_push_all first kept pf) st o = step first kept st o).
  { rewrite <- step_g_old. destruct o as [b|r|k]; cbn [step_g]; [|reflexivity|reflexivity].
    unfold push_block_g. rewrite (proj1 (hub_push_all_ready first kept pf _ b Hr)). reflexivity. }
  rewrite E. apply IH. rewrite <- E, step_g_hub. destruct o as [b|r|k]; try exact Hr.
  rewrite (proj1 (hub_push_all_ready first kept pf _ b Hr)). exact (proj2 (hub_push_all_ready first kept pf _ b Hr)).
Qed.

Theorem c08_all_ready_same_proof : C08_all_ready_same.
Proof.
  intros first kept pf h bs st ops Hr Hs. unfold push_events_all, hub_after_all, run_all.
  destruct (push_events_all_ready first kept pf bs h Hr) as [E1 E2].
  split; [exact E1|]. split; [exact E2|]. apply run_all_ready. exact Hs.
Qed.

(* ================================================================ 2. schedules *)

Theorem c08_sched_serializable_all_proof : C08_sched_serializable_all.
Proof. intro first. intro kept. exact (c08_sched_serializable_proof _). Qed.
Theorem c08_sched_mutual_exclusion_all_proof : C08_sched_mutual_exclusion_all.
Proof. intro first. intro kept. exact (c08_sched_mutual_exclusion_proof _). Qed.
Theorem c08_sched_burst_append_atomic_all_proof : C08_sched_burst_append_atomic_all.
Proof. intro first. intro kept. exact (c08_sched_burst_append_atomic_proof _). Qed.
Theorem c08_sched_no_lost_registration_all_proof : C08_sched_no_lost_registration_all.
Proof. intro first. intro kept. exact (c08_sched_no_lost_registration_proof _). Qed.
Theorem c08_sched_registration_atomic_all_proof : C08_sched_registration_atomic_all.
Proof. intro first. intro kept. exact (c08_sched_registration_atomic_proof _). Qed.
Theorem c08_sched_isolation_all_proof : C08_sched_isolation_all.
Proof. intro first. intro kept. exact (c08_sched_isolation_proof _). Qed.
Theorem c08_sched_no_deadlock_all_proof : C08_sched_no_deadlock_all.
Proof. intro first. intro kept. exact (c08_sched_no_deadlock_proof _). Qed.
Theorem c08_sched_hub_unaffected_all_proof : C08_sched_hub_unaffected_all.
Proof. intro first. intro kept. exact (c08_sched_hub_unaffected_proof _). Qed.
Theorem c08_serial_hub_all_proof : C08_serial_hub_all.
Proof. intro first. intro kept. exact (c08_serial_hub_proof _). Qed.
Theorem c08_serial_lone_all_proof : C08_serial_lone_all.
Proof. intro first. intro kept. exact (c08_serial_lone_proof _). Qed.
Theorem c08_serial_exactly_once_all_proof : C08_serial_exactly_once_all.
Proof. intro first. intro kept. exact (c08_serial_exactly_once_proof _). Qed.
Theorem c08_serial_isolation_all_proof : C08_serial_isolation_all.
Proof. intro first. intro kept. exact (c08_serial_isolation_proof _). Qed.
Theorem c08_seq_embeds_all_proof : C08_seq_embeds_all.
Proof. intro first. intro kept. exact (c08_seq_embeds_proof _). Qed.
Theorem c08_sched_exactly_once_all_proof : C08_sched_exactly_once_all.
Proof. intro first. intro kept. exact (c08_sched_exactly_once_proof (hp_all first kept)). Qed.
Theorem c08_sched_complete_delivery_all_proof : C08_sched_complete_delivery_all.
Proof. intro first. intro kept. exact (c08_sched_complete_delivery_proof (hp_all first kept)). Qed.

(* the old schedule model is an instance; on a ready hub it is the faithful one *)
Lemma prod_step_g_old fixed first kept st :
  prod_step_g fixed (hub_push first kept) st = prod_step fixed first kept st.
Proof.
  unfold prod_step_g, prod_step, hub_push. destruct (g_ppc st); try reflexivity.
  destruct (hub_live first kept (g_hub st) (PBlocks []) b) as [[h' evs] r]. reflexivity.
Qed.

Lemma cstep_g_old fixed first kept st t : cstep_g fixed (hub_push first kept) st t = cstep fixed first kept st t.
Proof. destruct t; cbn [cstep_g cstep]; [apply prod_step_g_old | reflexivity | reflexivity]. Qed.

Lemma crun_g_old fixed first kept sched : forall st,
  crun_g fixed (hub_push first kept) st sched = crun fixed first kept st sched.
Proof.
  induction sched as [|t sched IH]; intro st; [reflexivity|].
  cbn [crun_g crun fold_left]. rewrite cstep_g_old. apply IH.
Qed.

Lemma cstep_g_ready first kept st t :
  h_ready (g_hub st) = true ->
  cstep_g true (hp_all first kept) st t = cstep_g true (hub_push first kept) st t /\
  h_ready (g_hub (cstep_g true (hub_push first kept) st t)) = true.
Proof.
  intro Hr. destruct t as [|i|i]; cbn [cstep_g].
  - unfold prod_step_g.
    destruct (g_ppc st) as [|b|b|evs|e todo evs|e k todo evs] eqn:Hpc.
    + destruct (g_script st); split; try reflexivity; simp_st; exact Hr.
    + destruct (Nat.eqb (g_readers st) 0); split; try reflexivity; simp_st; exact Hr.
    + unfold hp_all. destruct (hub_push_all_ready first kept no_pass (g_hub st) b Hr) as [E R]. rewrite E.
      split; [reflexivity|]. destruct (hub_push first kept (g_hub st) b) as [h' evs]. simp_st. exact R.
    + destruct evs as [|e evs]; [split; [reflexivity | simp_st; exact Hr]|].
      destruct (mutex_free true st); split; try reflexivity; simp_st; exact Hr.
    + destruct todo as [|k todo]; [split; [reflexivity | simp_st; exact Hr]|].
      destruct (nth_error (g_reqs st) k) as [c|]; [|split; [reflexivity | simp_st; exact Hr]].
      destruct (r_sub c) as [s|]; [|split; [reflexivity | simp_st; exact Hr]].
      destruct (N.of_nat (length (ms_queue s)) =? ms_cap s); split; try reflexivity; simp_st; exact Hr.
    + destruct (mutex_free true st); split; try reflexivity; simp_st; exact Hr.
  - split; [reflexivity|]. unfold req_step.
    destruct (nth_error (g_reqs st) i) as [c|]; [|exact Hr].
    destruct (r_pc c); try exact Hr.
    + destruct (negb (g_writer st) && negb (g_wpend st)); simp_st; exact Hr.
    + destruct (request_burst (g_hub st) (r_req c)); simp_st; exact Hr.
    + destruct (g_mutex st); simp_st; exact Hr.
  - split; [reflexivity|]. unfold cons_step.
    destruct (nth_error (g_reqs st) i) as [c|]; [|exact Hr].
    destruct (r_pc c); try exact Hr. destruct (r_sub c) as [s|]; [|exact Hr].
    destruct (ms_queue s); [exact Hr|].
    destruct (inflight st) as [[e todo]|]; [destruct (memb i todo)|]; simp_st; exact Hr.
Qed.

Lemma crun_g_ready first kept sched : forall st, h_ready (g_hub st) = true ->
  crun_g true (hp_all first kept) st sched = crun_g true (hub_push first kept) st sched.
Proof.
  induction sched as [|t sched IH]; intros st Hr; [reflexivity|].
  cbn [crun_g fold_left]. destruct (cstep_g_ready first kept st t Hr) as [E R]. rewrite E. apply IH. exact R.
Qed.

Theorem c08_sched_all_ready_same_proof : C08_sched_all_ready_same.
Proof.
  intros first kept h0 script reqs sched. split; [apply crun_g_old|].
  intro Hr. rewrite crun_g_ready; [apply crun_g_old | exact Hr].
Qed.

(* ================================================================ 3. every event production function *)

Theorem c08_gen_exactly_once_proof : C08_gen_exactly_once.
Proof. exact c08_exactly_once_proof. Qed.
Theorem c08_gen_refused_proof : C08_gen_refused.
Proof. exact c08_refused_proof. Qed.
Theorem c08_gen_isolation_hub_proof : C08_gen_isolation_hub.
Proof. exact c08_isolation_hub_proof. Qed.
Theorem c08_gen_isolation_subs_proof : C08_gen_isolation_subs.
Proof. exact c08_isolation_subs_proof. Qed.
Theorem c08_gen_lone_proof : C08_gen_lone.
Proof. exact c08_lone_proof. Qed.
Theorem c08_gen_registration_atomic_proof : C08_gen_registration_atomic.
Proof. exact c08_registration_atomic_proof. Qed.
Theorem c08_gen_serial_hub_proof : C08_gen_serial_hub.
Proof. exact c08_serial_hub_proof. Qed.
Theorem c08_gen_serial_lone_proof : C08_gen_serial_lone.
Proof. exact c08_serial_lone_proof. Qed.
Theorem c08_gen_serial_exactly_once_proof : C08_gen_serial_exactly_once.
Proof. exact c08_serial_exactly_once_proof. Qed.
Theorem c08_gen_serial_isolation_proof : C08_gen_serial_isolation.
Proof. exact c08_serial_isolation_proof. Qed.
Theorem c08_gen_seq_embeds_proof : C08_gen_seq_embeds.
Proof. exact c08_seq_embeds_proof. Qed.
Theorem c08_gen_sched_serializable_proof : C08_gen_sched_serializable.
Proof. exact c08_sched_serializable_proof. Qed.
Theorem c08_gen_sched_mutual_exclusion_proof : C08_gen_sched_mutual_exclusion.
Proof. exact c08_sched_mutual_exclusion_proof. Qed.
Theorem c08_gen_sched_burst_append_atomic_proof : C08_gen_sched_burst_append_atomic.
Proof. exact c08_sched_burst_append_atomic_proof. Qed.
Theorem c08_gen_sched_no_lost_registration_proof : C08_gen_sched_no_lost_registration.
Proof. exact c08_sched_no_lost_registration_proof. Qed.
Theorem c08_gen_sched_registration_atomic_proof : C08_gen_sched_registration_atomic.
Proof. exact c08_sched_registration_atomic_proof. Qed.
Theorem c08_gen_sched_exactly_once_proof : C08_gen_sched_exactly_once.
Proof. exact c08_sched_exactly_once_proof. Qed.
Theorem c08_gen_sched_isolation_proof : C08_gen_sched_isolation.
Proof. exact c08_sched_isolation_proof. Qed.
Theorem c08_gen_sched_hub_unaffected_proof : C08_gen_sched_hub_unaffected.
Proof. exact c08_sched_hub_unaffected_proof. Qed.
Theorem c08_gen_sched_complete_delivery_proof : C08_gen_sched_complete_delivery.
Proof. exact c08_sched_complete_delivery_proof. Qed.
Theorem c08_gen_sched_no_deadlock_proof : C08_gen_sched_no_deadlock.
Proof. exact c08_sched_no_deadlock_proof. Qed.
