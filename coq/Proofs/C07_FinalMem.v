(* What the memory of the final-blocks-only filter guarantees for every run (C07_final_increasing of
   Spec/C07_Final_Spec.v): from the run shapes, no hypothesis on the world. *)
From Coq Require Import Sorted.
From BV Require Import Base.Prelude Model.Block Model.ForkDB Model.Forkable Model.ForkableLookups Model.Burst Model.Hub
  Model.CursorResolver Model.Joining
  Spec.Consumer Check.Burst_Check Check.C07_Check Spec.C06_Spec Spec.C07_Spec Spec.C13_Spec
  Spec.C07_Compose_Spec Spec.C07_Shapes_Spec Spec.C07_More_Spec Spec.C07_Final_Spec
  Proofs.C06_Lists Proofs.C07_File Proofs.C07_Live Proofs.C13_Proofs Proofs.C07_ComposeStack
  Proofs.C07_Shapes Proofs.C07_ChainFacts.
Local Open Scope N_scope.

Notation elt := (fun a b : event => bnum (eblk a) < bnum (eblk b)).

(* what the filter lets through: passes, numbered above the memory, numbers strictly increasing *)
Lemma undup_sorted c : forall X lf,
  Forall (fun e => filter_pass c (estep e) = true) (undup c lf X) /\
  StronglySorted elt (undup c lf X) /\
  match lf with Some n => Forall (fun e => n < bnum (eblk e)) (undup c lf X) | None => True end.
Proof.
  induction X as [|e X IH]; intros lf.
  - cbn [undup]. split; [constructor|]. split; [constructor|]. destruct lf; [constructor | exact I].
  - cbn [undup]. destruct (filter_pass c (estep e)) eqn:Ep; [|apply IH].
    destruct (match lf with Some n => bnum (eblk e) <=? n | None => false end) eqn:Ed; [apply IH|].
    destruct (IH (Some (bnum (eblk e)))) as (Hp & HS & Hab).
    split; [constructor; assumption|]. split; [constructor; assumption|].
    destruct lf as [n|]; [|exact I]. apply N.leb_gt in Ed. constructor; [exact Ed|].
    eapply Forall_impl; [|exact Hab]. cbn beta. intros x Hx. lia.
Qed.

Lemma sorted_prefix {A} (R : A -> A -> Prop) l1 l2 : StronglySorted R (l1 ++ l2) -> StronglySorted R l1.
Proof.
  induction l1 as [|a l1 IH]; intros H; [constructor|]. cbn [app] in H. inversion H as [|? ? HS Hall]; subst.
  constructor; [apply IH; exact HS|]. apply Forall_app in Hall as [H1 _]. exact H1.
Qed.

(* the output is a beginning of a sequence Y of passing events the chain of c runs over *)
Lemma pass_delivered c Y : Forall (fun e => filter_pass c (estep e) = true) Y -> snd (upto_stop c Y) = false -> delivered c Y = Y.
Proof. intros Hp Hns. rewrite (delivered_nostop c Y Hns). apply C06_Lists.filter_all. exact Hp. Qed.

Lemma pass_upto_prefix c Y : Forall (fun e => filter_pass c (estep e) = true) Y -> snd (upto_stop c Y) = true ->
  exists rest, Y = fst (upto_stop c Y) ++ rest.
Proof.
  intros Hp Hs. destruct (upto_stop_split c Y Hs) as (Y1 & e & Y2 & EY & Hns & Hse & Hf).
  assert (Hp1 : Forall (fun e => filter_pass c (estep e) = true) Y1) by (rewrite EY in Hp; apply Forall_app in Hp as [H _]; exact H).
  rewrite Hf, (pass_delivered c Y1 Hp1 Hns). destruct (fst (Joining.chain c e)).
  - exists Y2. rewrite EY, <- app_assoc. reflexivity.
  - exists (e :: Y2). rewrite app_nil_r. exact EY.
Qed.

Lemma raw_out_prefix_of c Y (res : list event * jerr) P : Forall (fun e => filter_pass c (estep e) = true) Y ->
  raw_out c Y res P -> exists rest, Y = fst res ++ rest.
Proof.
  intros Hp. unfold raw_out. destruct (snd res); try contradiction.
  - intros (_ & Hns & Hf). exists []. rewrite Hf, (pass_delivered c Y Hp Hns), app_nil_r. reflexivity.
  - intros (Hs & Hf). rewrite Hf. apply pass_upto_prefix; assumption.
  - intros (Y1 & Y2 & EY & Hns & Hf). exists Y2. rewrite Hf, pass_delivered; [exact EY | | exact Hns].
    rewrite EY in Hp. apply Forall_app in Hp as [H _]. exact H.
Qed.

Lemma files_out_prefix_of c Y fe (res : list event * jerr) : Forall (fun e => filter_pass c (estep e) = true) Y ->
  files_out c Y fe res -> exists rest, Y = fst res ++ rest.
Proof.
  intros Hp [[Hns Hr]|[Hs Hr]]; rewrite Hr; cbn [fst].
  - exists []. rewrite (pass_delivered c Y Hp Hns), app_nil_r. reflexivity.
  - apply pass_upto_prefix; assumption.
Qed.

Lemma c07_final_increasing_proof : C07_final_increasing.
Proof.
  intros c w ps merged_end merged forked Hf res.
  pose proof (c07_run_shapes_proof c w ps merged_end merged forked) as Hsh. cbv zeta in Hsh. fold res in Hsh.
  (* the output is a beginning of undup c (start_mem c) X for some X *)
  assert (Hpre : exists X rest, undup c (start_mem c) X = fst res ++ rest).
  { destruct Hsh as [[_ Hr]|[_ [(burst & k & _ & Hro)|[[_ Hr]|[_ [(pre & e & rest0 & m & lowest & burst & k & _ & _ & _ & Hro)|Hfo]]]]]].
    - exists [], []. rewrite Hr. reflexivity.
    - rewrite (seen_final c _ Hf) in Hro. eexists. eapply raw_out_prefix_of; [|exact Hro]. apply undup_sorted.
    - exists [], []. rewrite Hr. reflexivity.
    - rewrite (seen_final c _ Hf) in Hro. eexists. eapply raw_out_prefix_of; [|exact Hro]. apply undup_sorted.
    - rewrite (seen_final c _ Hf) in Hfo. eexists. eapply files_out_prefix_of; [|exact Hfo]. apply undup_sorted. }
  destruct Hpre as (X & rest & E).
  destruct (undup_sorted c X (start_mem c)) as (Hp & HS & Hab). rewrite E in Hp, HS, Hab.
  split; [exact (sorted_prefix _ _ _ HS)|]. split; [apply Forall_app in Hp as [H _]; exact H|].
  intros cu Hm Hc. rewrite (start_mem_cursor c cu Hm Hc) in Hab. apply Forall_app in Hab as [H _]. exact H.
Qed.
