(* C07 for every step filter and stop block, number mode: the raw sequence X of a run (Spec/C07_Shapes_Spec.v) follows
   the undo/new discipline - a statement that does not mention the handler chain - for each of the three shapes.
   Reuses the hub-side lemmas of C07_ComposeRun.v (none of which depends on the filter or the stop block). *)
From Coq Require Import Sorted.
From BV Require Import Base.Prelude Model.Block Model.ForkDB Model.Forkable Model.ForkableLookups Model.Burst Model.Hub
  Model.CursorResolver Model.Joining
  Spec.Consumer Spec.Universe Check.Fk_Check Check.Burst_Check Check.C07_Check
  Spec.C09_Spec Spec.C05_Spec Spec.C06_Spec Spec.C07_Spec Spec.C13_Spec Spec.C07_Compose_Spec Spec.C07_Shapes_Spec
  Spec.C01_Spec Spec.C01_Moving_Spec Spec.C01_Roots_Spec
  Proofs.C09_Store Proofs.C09_Segment Proofs.C09_Proofs
  Proofs.Fk.LoopFacts Proofs.Fk.MovingLibDisc Proofs.C02_Proofs Proofs.C01_Roots_Proofs
  Proofs.Hub.ConsFacts Proofs.Hub.HubFed Proofs.Hub.LinkedRuns Proofs.Hub.C09_History
  Proofs.C07_File Proofs.C07_Live Proofs.C13_Proofs
  Proofs.C07_ComposeStack Proofs.C07_ComposeHub Proofs.C07_ComposeRun Proofs.C07_Raw Proofs.C07_Shapes.
Local Open Scope N_scope.

Section RawRun.
  Variable U : list block.
  Variable c : jcfg.
  Variable canon : list block.
  Variable start : N.

  Hypothesis U_id : forall b, In b U -> bid b <> 0 /\ bid b <> bparent b.
  Hypothesis U_uniq : forall x y, In x U -> In y U -> bid x = bid y -> x = y.
  Hypothesis U_up : forall x y, In x U -> In y U -> bparent x = bid y -> bnum y < bnum x.
  Hypothesis D_decl : forall b, In b U -> decl_none U b.

  Hypothesis Hcanon_U : Forall (fun x => In x U) canon.
  Hypothesis Hcanon_l : exists x, lnk x canon.
  Hypothesis Hcanon_start : exists b, In b canon /\ bnum b <= start.

  Let first := j_first c.
  Let kept := j_kept c.

  Notation Rel := (Rel U start).
  Notation disc := (disc U start).
  Notation Stand := (Stand U start).

  (* ---------------------------------------------------------------- the live part of a raw sequence *)

  (* J1: the consumer when the events of the arrivals begin; the reference stack may be continued downwards by E *)
  Lemma live_raw w V E J1 k :
    LOK U c w V -> eventual_tip c w canon -> Rel (V ++ E) J1 ->
    disc J1 (pushed c k w) /\
    exists Vk Jk, sfold J1 (pushed c k w) = Some Jk /\ Rel (Vk ++ E) Jk /\ LOK U c (world_after c k w) Vk /\
      (w_rest (world_after c k w) = [] -> from_num start (rev Jk) = from_num start canon).
  Proof.
    intros HL Htip HR.
    destruct (lok_push_n U c U_id U_uniq U_up D_decl k w V HL) as (Vk & HLk & Hvk & Hnk).
    pose proof (vfold_below E _ _ _ Hvk) as Hvk'.
    destruct (live_disc U U_id U_uniq U_up start (pushed c k w) (V ++ E) J1 (Vk ++ E) HR Hvk' Hnk) as (Hd & Jk & HJk & HRk).
    split; [exact Hd|]. exists Vk, Jk. split; [exact HJk|]. split; [exact HRk|]. split; [exact HLk|].
    intros Ha. destruct HLk as (_ & HVk & _).
    destruct (vstate_facts U first kept U_id U_uniq U_up (h_f (w_hub (world_after c k w))) Vk HVk)
      as (HVkne & _ & _ & hd & Hls & Hhd).
    destruct (Htip k hd Ha Hls) as [pre Hcan].
    assert (Hhd' : hd_error (Vk ++ E) = Some hd) by (destruct Vk; [contradiction | exact Hhd]).
    exact (rel_final U U_id U_uniq U_up start (Vk ++ E) Jk canon pre hd HRk Hhd' Hcan Hcanon_U Hcanon_l Hcanon_start).
  Qed.

  (* ---------------------------------------------------------------- file blocks, then a burst that starts with bn *)

  Variable merged : list block.
  Hypothesis Hmerged_U : forall b, In b merged -> In b U.

  Lemma fev_blocks l : map eblk (map fev l) = l.
  Proof. apply map_eblk_fev. Qed.

  (* the file blocks alone *)
  Lemma files_raw D : (exists x, lnk x D) -> (forall b, In b D -> In b merged) ->
    (forall z r, D = z :: r -> bnum z <= start) ->
    sfold [] (map fev D) = Some (rev D) /\ disc [] (map fev D) /\ (rev D = [] \/ Stand (rev D)).
  Proof.
    intros Hl Hin Hbot.
    destruct (pushes_disc U start (map fev D) [] (or_introl eq_refl) (fev_new D)) as (Hf & Hd & Hs).
    - rewrite fev_blocks. apply Forall_forall. intros y Hy. apply Hmerged_U, Hin, Hy.
    - rewrite fev_blocks. split; assumption.
    - rewrite fev_blocks, app_nil_r in Hf, Hs. auto.
  Qed.

  (* the file blocks Dpre, then the join on bn in a world whose hub is ready *)
  Lemma join_raw_at w V Dpre bn lowest burst k :
    WOK U c w -> eventual_tip c w canon ->
    h_ready (w_hub w) = true -> VState U first kept (h_f (w_hub w)) V ->
    (exists hd sufb l, hd_error V = Some hd /\ map eblk burst = bn :: sufb /\
         Forall (fun e => matches_new (estep e) = true) burst /\
         Forall (fun y => In y U) (bn :: sufb) /\ lnk (bid bn) sufb /\ bn :: sufb = l ++ [hd]) ->
    (exists x, lnk x (Dpre ++ [bn])) -> (forall b, In b (Dpre ++ [bn]) -> In b merged) ->
    (forall z r, Dpre ++ [bn] = z :: r -> bnum z <= start) ->
    join_try c w lowest (fev bn) = Some burst ->
    let X := map fev Dpre ++ burst ++ pushed c k w in
    disc [] X /\
    exists J, sfold [] X = Some J /\ (exists V, Rel V J) /\
      (w_rest (world_after c k w) = [] -> from_num start (rev J) = from_num start canon).
  Proof.
    intros HW Htip Hrd HV (hd & sufb & l & Hhd & Hmap & Hnew & HbU & Hlsuf & Hlast) [x0 HlD] Hin Hbot Ej X.
    assert (Hbn : In bn merged) by (apply Hin; apply in_or_app; right; left; reflexivity).
    assert (HDU : Forall (fun y => In y U) Dpre).
    { apply Forall_forall. intros y Hy. apply Hmerged_U, Hin. apply in_or_app. left. exact Hy. }
    destruct HW as [Hok Hrest].
    destruct (vstate_facts U first kept U_id U_uniq U_up (h_f (w_hub w)) V HV) as (HVne & HcV & _).
    destruct (join_rel_core U start V burst Dpre bn sufb l hd HVne HcV Hhd Hmap Hnew HbU Hlsuf Hlast
                (ex_intro _ x0 HlD) HDU Hbot) as (J1 & HJ1 & HR).
    (* the file blocks and the burst: pushes *)
    assert (Hlall : lnk x0 (Dpre ++ bn :: sufb)).
    { change (bn :: sufb) with ([bn] ++ sufb). rewrite app_assoc.
      apply linked_app_iff. split; [exact HlD|]. rewrite tip_snoc. exact Hlsuf. }
    assert (Hmapall : map eblk (map fev Dpre ++ burst) = Dpre ++ bn :: sufb).
    { rewrite map_app, fev_blocks, Hmap. reflexivity. }
    destruct (pushes_disc U start (map fev Dpre ++ burst) [] (or_introl eq_refl)) as (Hf & Hd & _).
    - apply Forall_app. split; [apply fev_new | exact Hnew].
    - rewrite Hmapall. apply Forall_app. split; [exact HDU | exact HbU].
    - rewrite Hmapall. split; [exists x0; exact Hlall|].
      intros z r Ez. destruct Dpre as [|d Dp]; cbn [app] in Ez; injection Ez as <- _; [apply (Hbot bn []) | apply (Hbot d (Dp ++ [bn]))]; reflexivity.
    - rewrite app_nil_r in Hf.
      assert (EJ1 : J1 = rev (map eblk (map fev Dpre ++ burst))).
      { assert (H : sfold [] (map fev Dpre ++ burst) = Some J1).
        { rewrite sfold_app. destruct (files_raw Dpre) as (Hfd & _).
          - exists x0. eapply linked_prefix. exact HlD.
          - intros b Hb. apply Hin. apply in_or_app. left. exact Hb.
          - intros z r Ez. apply (Hbot z (r ++ [bn])). rewrite Ez. reflexivity.
          - rewrite Hfd. exact HJ1. }
        rewrite Hf in H. injection H as <-. reflexivity. }
      destruct (live_raw w V [] J1 k (conj Hrd (conj HV Hrest)) Htip) as (Hdl & Vk & Jk & HJk & HRk & _ & Hfin).
      { rewrite app_nil_r. exact HR. }
      unfold X. rewrite app_assoc. split.
      + apply (disc_app U start [] J1 _ _ Hd); [rewrite Hf, EJ1; reflexivity | exact Hdl].
      + exists Jk. split; [rewrite sfold_app, Hf, <- EJ1; exact HJk|]. split; [exists (Vk ++ []); exact HRk | exact Hfin].
  Qed.

  Lemma join_raw w Dpre bn lowest burst k :
    WOK U c w -> eventual_tip c w canon -> join_good U c merged w ->
    (exists x, lnk x (Dpre ++ [bn])) -> (forall b, In b (Dpre ++ [bn]) -> In b merged) ->
    (forall z r, Dpre ++ [bn] = z :: r -> bnum z <= start) ->
    join_try c w lowest (fev bn) = Some burst ->
    let X := map fev Dpre ++ burst ++ pushed c k w in
    disc [] X /\
    exists J, sfold [] X = Some J /\ (exists V, Rel V J) /\
      (w_rest (world_after c k w) = [] -> from_num start (rev J) = from_num start canon).
  Proof.
    intros HW Htip Hjg Hl Hin Hbot Ej.
    destruct (Hjg lowest bn burst) as [Hrd HJ]; [apply Hin; apply in_or_app; right; left; reflexivity | exact Ej|].
    destruct (vstate_of_hub U first kept U_id U_uniq U_up D_decl (w_hub w) (proj1 HW) Hrd) as [V HV].
    exact (join_raw_at w V Dpre bn lowest burst k HW Htip Hrd HV (HJ V HV) Hl Hin Hbot Ej).
  Qed.

  (* live from the start: the hub answers the start block number *)
  Lemma start_raw w burst k :
    WOK U c w -> eventual_tip c w canon -> h_ready (w_hub w) = true ->
    blocks_from_num (h_f (w_hub w)) start = BOk burst ->
    let X := burst ++ pushed c k w in
    disc [] X /\
    exists J, sfold [] X = Some J /\ (exists V, Rel V J) /\
      (w_rest (world_after c k w) = [] -> from_num start (rev J) = from_num start canon).
  Proof.
    intros [Hok Hrest] Htip Hrd Hb X.
    destruct (vstate_of_hub U first kept U_id U_uniq U_up D_decl (w_hub w) Hok Hrd) as [V HV].
    destruct (burst_shape U c U_id U_uniq U_up (h_f (w_hub w)) V start burst HV Hb)
      as (hd & sg & x & suf & l & Hls & Hhd & Eseg & Hxin & Hnx & Hmap & Hnew & HbU & Hlsuf & Hlast).
    destruct (vstate_facts U first kept U_id U_uniq U_up (h_f (w_hub w)) V HV) as (HVne & HcV & _).
    assert (Hl1 : exists x1, lnk x1 ([] ++ [seg_blk x])) by (exists (bparent (seg_blk x)); cbn; auto).
    assert (Hbot1 : forall z r, [] ++ [seg_blk x] = z :: r -> bnum z <= start).
    { intros z r Ez. cbn [app] in Ez. injection Ez as <- _. lia. }
    destruct (join_rel_core U start V burst [] (seg_blk x) (map seg_blk suf) l hd HVne HcV Hhd Hmap Hnew HbU Hlsuf Hlast
                Hl1 (Forall_nil _) Hbot1) as (J1 & HJ1 & HR).
    cbn [rev] in HJ1.
    destruct (pushes_disc U start burst [] (or_introl eq_refl) Hnew) as (Hf & Hd & _).
    - rewrite Hmap. exact HbU.
    - rewrite Hmap. split; [exists (bparent (seg_blk x)); cbn [lnk]; auto|].
      intros z r Ez. injection Ez as <- _. lia.
    - destruct (live_raw w V [] J1 k (conj Hrd (conj HV Hrest)) Htip) as (Hdl & Vk & Jk & HJk & HRk & _ & Hfin).
      { rewrite app_nil_r. exact HR. }
      unfold X. split.
      + apply (disc_app U start [] J1 _ _ Hd HJ1 Hdl).
      + exists Jk. split; [rewrite sfold_app, HJ1; exact HJk|]. split; [exists (Vk ++ []); exact HRk | exact Hfin].
  Qed.
  (* ---------------------------------------------------------------- the same from a consumer that holds hc (cursor mode) *)

  (* pre0: the events that bring the consumer J0 to hc (the resolver's Undo / Irreversible events) *)
  Lemma cursor_join_raw w J0 pre0 hc Dpre bn lowest burst k :
    sfold J0 pre0 = Some (rev hc) ->
    WOK U c w -> eventual_tip c w canon -> join_good U c merged w ->
    (exists x, lnk x ((hc ++ Dpre) ++ [bn])) -> (forall b, In b ((hc ++ Dpre) ++ [bn]) -> In b merged) ->
    (forall z r, (hc ++ Dpre) ++ [bn] = z :: r -> bnum z <= start) ->
    join_try c w lowest (fev bn) = Some burst ->
    let X := pre0 ++ map fev Dpre ++ burst ++ pushed c k w in
    exists J, sfold J0 X = Some J /\ (w_rest (world_after c k w) = [] -> from_num start (rev J) = from_num start canon).
  Proof.
    intros Hpre HW Htip Hjg Hl Hin Hbot Ej X.
    destruct (join_raw w (hc ++ Dpre) bn lowest burst k HW Htip Hjg Hl Hin Hbot Ej) as (_ & J & HJ & _ & Hfin).
    exists J. split; [|exact Hfin].
    destruct Hl as [x0 Hl].
    destruct (files_raw hc) as (Hfh & _ & _).
    - exists x0. rewrite <- app_assoc in Hl. eapply linked_prefix. exact Hl.
    - intros b Hb. apply Hin. apply in_or_app. left. apply in_or_app. left. exact Hb.
    - intros z r Ez. apply (Hbot z (r ++ Dpre ++ [bn])). rewrite <- app_assoc, Ez. reflexivity.
    - unfold X. rewrite sfold_app, Hpre. rewrite map_app, <- app_assoc, sfold_app, Hfh in HJ. exact HJ.
  Qed.

  Lemma cursor_files_raw J0 pre0 hc later :
    sfold J0 pre0 = Some (rev hc) ->
    (exists x, lnk x (hc ++ later)) -> (forall b, In b (hc ++ later) -> In b merged) ->
    (forall z r, hc ++ later = z :: r -> bnum z <= start) ->
    sfold J0 (pre0 ++ map fev later) = Some (rev (hc ++ later)).
  Proof.
    intros Hpre [x0 Hl] Hin Hbot.
    destruct (files_raw (hc ++ later) (ex_intro _ x0 Hl) Hin Hbot) as (Hall & _ & _).
    destruct (files_raw hc) as (Hfh & _ & _).
    - exists x0. eapply linked_prefix. exact Hl.
    - intros b Hb. apply Hin. apply in_or_app. left. exact Hb.
    - intros z r Ez. apply (Hbot z (r ++ later)). rewrite Ez. reflexivity.
    - rewrite sfold_app, Hpre. rewrite map_app, sfold_app, Hfh in Hall. exact Hall.
  Qed.

  (* live from a consumer K the hub serves (cursor mode): the burst brings it onto the hub's chain *)
  Lemma cursor_live_raw w V E J0 burst J1 k :
    LOK U c w V -> eventual_tip c w canon ->
    sfold J0 burst = Some J1 -> Rel (V ++ E) J1 ->
    let X := burst ++ pushed c k w in
    exists J, sfold J0 X = Some J /\ (w_rest (world_after c k w) = [] -> from_num start (rev J) = from_num start canon).
  Proof.
    intros HL Htip Hb HR X.
    destruct (live_raw w V E J1 k HL Htip HR) as (_ & Vk & Jk & HJk & _ & _ & Hfin).
    exists Jk. split; [unfold X; rewrite sfold_app, Hb; exact HJk | exact Hfin].
  Qed.
End RawRun.
