(* C07 composition, part 1: the consumer of C07 (Check/C07_Check.cons_fold_aside over events read with
   Spec/C07_Spec.as_new) as a plain stack machine `sfold`, and the relation between the stack J of a consumer
   that joined the stream somewhere and the stack V of a reference consumer that has been connected since
   the hub discovered its LIB and is never emptied (`Rel`).  Pure list reasoning over a well-formed universe. *)
From Coq Require Import Sorted.
From BV Require Import Base.Prelude Model.Block Model.ForkDB Model.Forkable Model.Burst
  Spec.Consumer Check.Burst_Check Check.C07_Check Spec.C06_Spec Spec.C07_Spec
  Proofs.Fk.LoopFacts Proofs.Hub.ConsFacts Proofs.Hub.LinkedRuns Proofs.Hub.C09_History.
Local Open Scope N_scope.

Notation lnk := Proofs.Fk.LoopFacts.linked.

(* ------------------------------------------------------------------ the stack machine *)

(* the events the default step filter lets through *)
Definition nu_ev (e : event) : bool := matches_new (estep e) || matches_undo (estep e).

(* New / new+irreversible: push (the first block of an empty stack is accepted as it is); Undo: pop the
   top (with an empty stack: the "aside" of C07, ignored); other steps are not for this consumer *)
Definition sapply (st : list block) (e : event) : option (list block) :=
  match estep e with
  | SNew | SNewIrr =>
      match st with
      | top :: _ => if bparent (eblk e) =? bid top then Some (eblk e :: st) else None
      | [] => Some [eblk e]
      end
  | SUndo =>
      match st with
      | top :: rest => if bid (eblk e) =? bid top then Some rest else None
      | [] => Some []
      end
  | _ => Some st
  end.

Fixpoint sfold (st : list block) (l : list event) : option (list block) :=
  match l with
  | [] => Some st
  | e :: l' => match sapply st e with Some st' => sfold st' l' | None => None end
  end.

Lemma sfold_app : forall l1 l2 st,
  sfold st (l1 ++ l2) = match sfold st l1 with Some st' => sfold st' l2 | None => None end.
Proof.
  induction l1 as [|e l1 IH]; intros l2 st; [reflexivity|].
  cbn [app sfold]. destruct (sapply st e); [apply IH | reflexivity].
Qed.

Lemma sfold_prefix l1 l2 st st' : sfold st (l1 ++ l2) = Some st' -> exists st1, sfold st l1 = Some st1.
Proof. rewrite sfold_app. destruct (sfold st l1) as [st1|]; [eauto | discriminate]. Qed.

Lemma sapply_quiet st e : nu_ev e = false -> sapply st e = Some st.
Proof. unfold nu_ev, sapply. destruct (estep e); cbn; intros H; try discriminate; reflexivity. Qed.

Lemma sfold_filter : forall l st, sfold st (filter nu_ev l) = sfold st l.
Proof.
  induction l as [|e l IH]; intros st; [reflexivity|].
  cbn [filter sfold]. destruct (nu_ev e) eqn:E.
  - cbn [sfold]. destruct (sapply st e); [apply IH | reflexivity].
  - rewrite (sapply_quiet st e E). apply IH.
Qed.

(* the consumer of the checker, finality bookkeeping off (no final block, as in c07_prop) *)
Lemma sfold_cons_aside any : forall l st,
  Forall (fun e => nu_ev e = true) l ->
  cons_fold_aside (mkCons st 0 any) (map as_new l) =
  match sfold st l with Some st' => Some (mkCons st' 0 any) | None => None end.
Proof.
  induction l as [|e l IH]; intros st Hl; [reflexivity|].
  pose proof (Forall_inv Hl) as He. pose proof (Forall_inv_tail Hl) as Hl'. cbn beta in He.
  cbn [map cons_fold_aside sfold]. unfold sapply, as_new. unfold nu_ev in He.
  destruct (estep e) eqn:Es; cbn in He; try discriminate.
  - (* New *)
    rewrite Es. cbn [cs_stack]. destruct st as [|top st0].
    + unfold cons_apply. rewrite Es. cbn [cs_stack cs_nf cs_any]. apply IH. exact Hl'.
    + unfold cons_apply. rewrite Es. cbn [cs_stack cs_nf cs_any].
      destruct (bparent (eblk e) =? bid top); [apply IH; exact Hl' | reflexivity].
  - (* Undo *)
    rewrite Es. cbn [cs_stack]. destruct st as [|top st0].
    + apply IH. exact Hl'.
    + unfold cons_apply. rewrite Es. cbn [cs_stack cs_nf cs_any length Nat.ltb Nat.leb andb].
      destruct (bid (eblk e) =? bid top); cbn [andb]; [apply IH; exact Hl' | reflexivity].
  - (* new+irreversible, read as New *)
    cbn [estep eblk cs_stack]. destruct st as [|top st0].
    + unfold cons_apply. cbn [estep eblk cs_stack cs_nf cs_any]. apply IH. exact Hl'.
    + unfold cons_apply. cbn [estep eblk cs_stack cs_nf cs_any].
      destruct (bparent (eblk e) =? bid top); [apply IH; exact Hl' | reflexivity].
Qed.

(* ------------------------------------------------------------------ the reference consumer *)

(* strict: a New block links to the top, an Undo pops the top and never the last block *)
Definition vapply (V : list block) (e : event) : option (list block) :=
  match estep e with
  | SNew | SNewIrr =>
      match V with
      | top :: _ => if bparent (eblk e) =? bid top then Some (eblk e :: V) else None
      | [] => None
      end
  | SUndo =>
      match V with
      | top :: ((_ :: _) as rest) => if bid (eblk e) =? bid top then Some rest else None
      | _ => None
      end
  | _ => Some V
  end.

Fixpoint vfold (V : list block) (l : list event) : option (list block) :=
  match l with
  | [] => Some V
  | e :: l' => match vapply V e with Some V' => vfold V' l' | None => None end
  end.

Lemma vfold_app : forall l1 l2 V,
  vfold V (l1 ++ l2) = match vfold V l1 with Some V' => vfold V' l2 | None => None end.
Proof.
  induction l1 as [|e l1 IH]; intros l2 V; [reflexivity|].
  cbn [app vfold]. destruct (vapply V e); [apply IH | reflexivity].
Qed.

Lemma vapply_quiet V e : nu_ev e = false -> vapply V e = Some V.
Proof. unfold nu_ev, vapply. destruct (estep e); cbn; intros H; try discriminate; reflexivity. Qed.

Lemma vfold_quiet : forall l V, Forall (fun e => nu_ev e = false) l -> vfold V l = Some V.
Proof.
  induction l as [|e l IH]; intros V H; [reflexivity|].
  cbn [vfold]. rewrite (vapply_quiet V e (Forall_inv H)). apply IH. exact (Forall_inv_tail H).
Qed.

(* what lies under the reference stack does not matter: its last block is never popped *)
Lemma vfold_below E : forall l V V', vfold V l = Some V' -> vfold (V ++ E) l = Some (V' ++ E).
Proof.
  induction l as [|e l IH]; intros V V' H.
  - injection H as <-. reflexivity.
  - cbn [vfold] in H. destruct (vapply V e) as [V1|] eqn:E1; [|discriminate].
    cbn [vfold]. assert (Hs : vapply (V ++ E) e = Some (V1 ++ E)); [|rewrite Hs; apply IH; exact H].
    unfold vapply in *. destruct (estep e).
    + destruct V as [|top V0]; [discriminate|]. cbn [app]. destruct (bparent (eblk e) =? bid top); [|discriminate].
      injection E1 as <-. reflexivity.
    + destruct V as [|top [|t2 V00]]; try discriminate. cbn [app]. destruct (bid (eblk e) =? bid top); [|discriminate].
      injection E1 as <-. reflexivity.
    + injection E1 as <-. reflexivity.
    + injection E1 as <-. reflexivity.
    + destruct V as [|top V0]; [discriminate|]. cbn [app]. destruct (bparent (eblk e) =? bid top); [|discriminate].
      injection E1 as <-. reflexivity.
Qed.

(* pops: the blocks on top, newest first *)
Lemma vfold_undos : forall evU rest,
  Forall (fun e => estep e = SUndo) evU -> rest <> [] ->
  vfold (map eblk evU ++ rest) evU = Some rest.
Proof.
  induction evU as [|e evU IH]; intros rest Hs Hne; [reflexivity|].
  cbn [map app vfold]. unfold vapply. rewrite (Forall_inv Hs).
  destruct (map eblk evU ++ rest) as [|t2 r2] eqn:E.
  - exfalso. destruct (map eblk evU); [cbn in E; contradiction | discriminate].
  - rewrite N.eqb_refl, <- E. apply IH; [exact (Forall_inv_tail Hs) | exact Hne].
Qed.

(* pushes: a run that links to the top *)
Lemma vfold_news : forall evN top rest,
  Forall (fun e => estep e = SNew) evN -> lnk (bid top) (map eblk evN) ->
  vfold (top :: rest) evN = Some (rev (map eblk evN) ++ top :: rest).
Proof.
  induction evN as [|e evN IH]; intros top rest Hs Hl; [reflexivity|].
  cbn [map lnk] in Hl. destruct Hl as [Hp Hl].
  cbn [vfold]. unfold vapply. rewrite (Forall_inv Hs), Hp, N.eqb_refl.
  rewrite (IH (eblk e) (top :: rest) (Forall_inv_tail Hs) Hl). cbn [map rev]. rewrite <- app_assoc. reflexivity.
Qed.

(* ------------------------------------------------------------------ the two consumers side by side *)

Lemma lnk_of_chain_ok : forall l, chain_ok l -> exists x, lnk x l.
Proof.
  intros [|a l] [Hl _]; [exists 0; exact I|].
  exists (bparent a). cbn [lnk]. split; [reflexivity|]. cbn [C06_Spec.linked] in Hl.
  revert a Hl. induction l as [|b l IH]; intros a Hl; [exact I|].
  cbn [branch_from] in Hl. destruct Hl as (Hp & _ & Hl). cbn [lnk]. split; [exact Hp | apply IH; exact Hl].
Qed.

Lemma from_num_app n l1 l2 : from_num n (l1 ++ l2) = from_num n l1 ++ from_num n l2.
Proof. unfold from_num. apply filter_app. Qed.

Lemma from_num_none n l : Forall (fun x => bnum x < n) l -> from_num n l = [].
Proof.
  induction l as [|x l IH]; intros H; [reflexivity|].
  unfold from_num in *. cbn [filter]. pose proof (Forall_inv H) as Hx. cbn beta in Hx.
  replace (n <=? bnum x) with false by (symmetry; apply N.leb_gt; exact Hx). apply IH. exact (Forall_inv_tail H).
Qed.

Section Rel.
  Variable U : list block.
  Hypothesis U_id : forall b, In b U -> bid b <> 0 /\ bid b <> bparent b.
  Hypothesis U_uniq : forall x y, In x U -> In y U -> bid x = bid y -> x = y.
  Hypothesis U_up : forall x y, In x U -> In y U -> bparent x = bid y -> bnum y < bnum x.
  Variable start : N.

  (* a stack (newest first) that is a parent-linked run of blocks of the universe *)
  Definition chainU (st : list block) : Prop := Forall (fun x => In x U) st /\ exists x, lnk x (rev st).

  Lemma chainU_sorted st : chainU st -> StronglySorted (blt) (rev st).
  Proof.
    intros [HU [x Hl]]. apply (linked_sorted U U_id U_uniq U_up _ x Hl).
    apply Forall_forall. intros y Hy. rewrite Forall_forall in HU. apply HU. apply in_rev. exact Hy.
  Qed.

  Lemma chainU_push b top st : chainU (top :: st) -> In b U -> bparent b = bid top -> chainU (b :: top :: st).
  Proof.
    intros [HU [x Hl]] Hb Hp. split; [constructor; assumption|].
    exists x. cbn [rev] in *. apply linked_app_iff. split; [exact Hl|].
    rewrite tip_snoc. cbn [lnk]. auto.
  Qed.

  Lemma chainU_pop top st : chainU (top :: st) -> chainU st.
  Proof.
    intros [HU [x Hl]]. split; [exact (Forall_inv_tail HU)|]. exists x. cbn [rev] in Hl.
    eapply linked_prefix. exact Hl.
  Qed.

  Lemma chainU_one b : In b U -> chainU [b].
  Proof. intros Hb. split; [constructor; [exact Hb | constructor]|]. exists (bparent b). cbn. auto. Qed.

  (* under the top of a run every block is lower *)
  Lemma chainU_below top st : chainU (top :: st) -> Forall (fun x => bnum x < bnum top) st.
  Proof.
    intros H. pose proof (chainU_sorted _ H) as HS. cbn [rev] in HS.
    apply Forall_forall. intros y Hy.
    destruct (Proofs.C09_Proofs.StronglySorted_split blt (rev st) top [] HS) as [HA _].
    apply HA. apply in_rev in Hy. exact Hy.
  Qed.

  (* the parent of the top *)
  Lemma chainU_parent top t2 st : chainU (top :: t2 :: st) -> bparent top = bid t2.
  Proof.
    intros [_ [x Hl]]. cbn [rev] in Hl. rewrite <- app_assoc in Hl. cbn [app] in Hl.
    pose proof (linked_mid _ _ _ _ Hl) as H.
    assert (Hl2 : lnk x (rev st ++ [t2] ++ [top])) by exact Hl.
    rewrite app_assoc in Hl2. pose proof (linked_mid _ _ _ _ Hl2) as H2. rewrite tip_snoc in H2. exact H2.
  Qed.

  (* J: the stack of the consumer that joined; V: the stack of the reference consumer.
     Either J still stands on a block at or below `start` and shares its top with V, or J was emptied at
     some point and has since been the upper part of V, everything of V underneath being below `start`. *)
  Definition Rel (V J : list block) : Prop :=
    V <> [] /\ chainU V /\
    ((J <> [] /\ hd_error J = hd_error V /\ chainU J /\ exists J1 z, J = J1 ++ [z] /\ bnum z <= start) \/
     (exists B, V = J ++ B /\ B <> [] /\ Forall (fun x => bnum x < start) B)).

  Lemma rel_step V J e V' : Rel V J -> vapply V e = Some V' ->
    (matches_new (estep e) = true -> In (eblk e) U) ->
    exists J', sapply J e = Some J' /\ Rel V' J'.
  Proof.
    intros (Hne & HcV & Halt) Hv HeU. unfold vapply in Hv. unfold sapply.
    assert (Hnew : matches_new (estep e) = true ->
              match V with
              | top :: _ => if bparent (eblk e) =? bid top then Some (eblk e :: V) else None
              | [] => None
              end = Some V' ->
              exists J', match J with
                         | top :: _ => if bparent (eblk e) =? bid top then Some (eblk e :: J) else None
                         | [] => Some [eblk e]
                         end = Some J' /\ Rel V' J').
    { intros Hm Hv'. specialize (HeU Hm). destruct V as [|top V0]; [discriminate|].
      destruct (N.eqb_spec (bparent (eblk e)) (bid top)) as [Hp|]; [|discriminate]. injection Hv' as <-.
      assert (HcV' : chainU (eblk e :: top :: V0)) by (apply chainU_push; assumption).
      destruct Halt as [(HJne & Hhd & HcJ & J1 & z & HJ & Hz)|(B & HVB & HBne & HB)].
      - destruct J as [|j J0]; [contradiction|]. cbn [hd_error] in Hhd. injection Hhd as ->.
        rewrite Hp, N.eqb_refl. eexists. split; [reflexivity|].
        split; [discriminate|]. split; [exact HcV'|]. left.
        split; [discriminate|]. split; [reflexivity|]. split; [apply chainU_push; assumption|].
        exists (eblk e :: J1), z. split; [rewrite HJ; reflexivity | exact Hz].
      - destruct J as [|j J0].
        + eexists. split; [reflexivity|]. split; [discriminate|]. split; [exact HcV'|]. right.
          exists B. cbn [app] in HVB. rewrite HVB. split; [reflexivity|]. split; assumption.
        + cbn [app] in HVB. injection HVB as <- HV0. rewrite Hp, N.eqb_refl.
          eexists. split; [reflexivity|]. split; [discriminate|]. split; [exact HcV'|]. right.
          exists B. split; [rewrite HV0; reflexivity|]. split; assumption. }
    destruct (estep e) eqn:Es.
    - apply Hnew; [reflexivity | exact Hv].
    - (* Undo *)
      destruct V as [|top [|t2 V00]]; try discriminate.
      destruct (N.eqb_spec (bid (eblk e)) (bid top)) as [Hb|]; [|discriminate]. injection Hv as <-.
      assert (HcV' : chainU (t2 :: V00)) by (eapply chainU_pop; exact HcV).
      destruct Halt as [(HJne & Hhd & HcJ & J1 & z & HJ & Hz)|(B & HVB & HBne & HB)].
      + destruct J as [|j J0]; [contradiction|]. cbn [hd_error] in Hhd. injection Hhd as ->.
        rewrite Hb, N.eqb_refl. eexists. split; [reflexivity|].
        split; [discriminate|]. split; [exact HcV'|].
        destruct J0 as [|j1 J00].
        * (* the joined consumer is emptied *)
          right. exists (t2 :: V00). split; [reflexivity|]. split; [discriminate|].
          destruct J1 as [|q J1']; [|destruct J1'; discriminate]. cbn [app] in HJ. injection HJ as ->.
          pose proof (chainU_below _ _ HcV) as Hlow. eapply Forall_impl; [|exact Hlow]. cbn beta. intros x Hx. lia.
        * left. split; [discriminate|].
          pose proof (chainU_parent _ _ _ HcJ) as Hp1. pose proof (chainU_parent _ _ _ HcV) as Hp2.
          assert (Ej : j1 = t2).
          { apply U_uniq; [| |congruence].
            - destruct HcJ as [HU _]. exact (Forall_inv (Forall_inv_tail HU)).
            - destruct HcV as [HU _]. exact (Forall_inv (Forall_inv_tail HU)). }
          split; [cbn [hd_error]; rewrite Ej; reflexivity|]. split; [eapply chainU_pop; exact HcJ|].
          destruct J1 as [|q J1']; [destruct J00; discriminate|]. cbn [app] in HJ. injection HJ as _ HJ.
          exists J1', z. split; [exact HJ | exact Hz].
      + destruct J as [|j J0].
        * eexists. split; [reflexivity|]. split; [discriminate|]. split; [exact HcV'|]. right.
          exists (t2 :: V00). split; [reflexivity|]. split; [discriminate|].
          cbn [app] in HVB. rewrite <- HVB in HB. exact (Forall_inv_tail HB).
        * cbn [app] in HVB. injection HVB as <- HV0. rewrite Hb, N.eqb_refl.
          eexists. split; [reflexivity|]. split; [discriminate|]. split; [exact HcV'|]. right.
          exists B. split; [exact HV0|]. split; assumption.
    - injection Hv as <-. eexists. split; [reflexivity|]. split; [exact Hne|]. split; [exact HcV | exact Halt].
    - injection Hv as <-. eexists. split; [reflexivity|]. split; [exact Hne|]. split; [exact HcV | exact Halt].
    - apply Hnew; [reflexivity | exact Hv].
  Qed.

  Lemma rel_fold : forall l V J V', Rel V J -> vfold V l = Some V' ->
    Forall (fun e => matches_new (estep e) = true -> In (eblk e) U) l ->
    exists J', sfold J l = Some J' /\ Rel V' J'.
  Proof.
    induction l as [|e l IH]; intros V J V' HR Hv HU.
    - injection Hv as <-. exists J. split; [reflexivity | exact HR].
    - cbn [vfold] in Hv. destruct (vapply V e) as [V1|] eqn:E1; [|discriminate].
      destruct (rel_step V J e V1 HR E1 (Forall_inv HU)) as (J1 & HJ1 & HR1).
      destruct (IH V1 J1 V' HR1 Hv (Forall_inv_tail HU)) as (J' & HJ' & HR').
      exists J'. split; [cbn [sfold]; rewrite HJ1; exact HJ' | exact HR'].
  Qed.

  (* at the end: the reference consumer stands on the eventual tip; canon is a parent-linked run of the
     universe ending with that tip and reaching down to `start` *)
  Lemma rel_final V J canon cpre hdF :
    Rel V J -> hd_error V = Some hdF ->
    canon = cpre ++ [hdF] -> Forall (fun x => In x U) canon -> (exists x, lnk x canon) ->
    (exists b, In b canon /\ bnum b <= start) ->
    from_num start (rev J) = from_num start canon.
  Proof.
    intros (Hne & HcV & Halt) Hhd Hcan HcU [xc Hlc] (b0 & Hb0 & Hnb0).
    assert (HSc : StronglySorted blt canon) by (apply (linked_sorted U U_id U_uniq U_up _ xc Hlc HcU)).
    (* a part d of a sorted run d ++ canon lies below start *)
    assert (Hlow1 : forall d, StronglySorted blt (d ++ canon) -> from_num start d = []).
    { intros d HS. apply from_num_none. apply Forall_forall. intros y Hy.
      apply in_split in Hb0 as (c1 & c2 & Ec). rewrite Ec, app_assoc in HS.
      destruct (Proofs.C09_Proofs.StronglySorted_split blt (d ++ c1) b0 c2 HS) as [HA _].
      specialize (HA y (in_or_app _ _ _ (or_introl Hy))). unfold blt in HA. lia. }
    (* a part d of canon = d ++ z :: _ with z at or below start *)
    assert (Hlow2 : forall d z r, canon = d ++ z :: r -> bnum z <= start -> from_num start d = []).
    { intros d z r Ec Hz. apply from_num_none. apply Forall_forall. intros y Hy. rewrite Ec in HSc.
      destruct (Proofs.C09_Proofs.StronglySorted_split blt d z r HSc) as [HA _].
      specialize (HA y Hy). unfold blt in HA. lia. }
    destruct Halt as [(HJne & HhdJ & HcJ & J1 & z & HJ & Hz)|(B & HVB & HBne & HB)].
    - destruct J as [|j J0]; [contradiction|]. rewrite Hhd in HhdJ. cbn [hd_error] in HhdJ. injection HhdJ as ->.
      pose proof HcJ as [HJU [xj Hlj]]. cbn [rev] in Hlj.
      assert (HJU' : Forall (fun y => In y U) (rev J0 ++ [hdF])).
      { apply Forall_forall. intros y Hy. rewrite Forall_forall in HJU. apply HJU.
        apply in_app_or in Hy as [Hy|[<-|[]]]; [right; apply in_rev; exact Hy | left; reflexivity]. }
      rewrite Hcan in Hlc, HcU.
      destruct (linked_same_end U U_uniq (rev J0) cpre xj xc hdF Hlj Hlc HJU' HcU) as [[d Hd]|[d Hd]].
      + cbn [rev]. rewrite Hd, <- app_assoc, <- Hcan, from_num_app.
        rewrite (Hlow1 d); [reflexivity|]. rewrite Hcan, app_assoc, <- Hd.
        change (rev J0 ++ [hdF]) with (rev (hdF :: J0)). apply chainU_sorted. exact HcJ.
      + assert (Ec : canon = d ++ rev (hdF :: J0)) by (rewrite Hcan, Hd, <- app_assoc; reflexivity).
        rewrite Ec, from_num_app.
        assert (Hrz : exists r, rev (hdF :: J0) = z :: r).
        { rewrite HJ, rev_app_distr. cbn [rev app]. eauto. }
        destruct Hrz as [r Hr]. rewrite Hr in Ec. rewrite (Hlow2 d z r Ec Hz). reflexivity.
    - (* J is the upper part of V *)
      destruct V as [|v0 V0]; [contradiction|]. cbn [hd_error] in Hhd. injection Hhd as ->.
      pose proof HcV as [HVU [xv Hlv]]. cbn [rev] in Hlv.
      assert (HVU' : Forall (fun y => In y U) (rev V0 ++ [hdF])).
      { apply Forall_forall. intros y Hy. rewrite Forall_forall in HVU. apply HVU.
        apply in_app_or in Hy as [Hy|[<-|[]]]; [right; apply in_rev; exact Hy | left; reflexivity]. }
      assert (HrV : rev (hdF :: V0) = rev B ++ rev J) by (rewrite HVB, rev_app_distr; reflexivity).
      assert (HlowB : from_num start (rev B) = []).
      { apply from_num_none. apply Forall_forall. intros y Hy. rewrite Forall_forall in HB. apply HB. apply in_rev. exact Hy. }
      assert (HfV : from_num start (rev (hdF :: V0)) = from_num start (rev J)).
      { rewrite HrV, from_num_app, HlowB. reflexivity. }
      rewrite <- HfV. rewrite Hcan in Hlc, HcU.
      destruct (linked_same_end U U_uniq (rev V0) cpre xv xc hdF Hlv Hlc HVU' HcU) as [[d Hd]|[d Hd]].
      + cbn [rev]. rewrite Hd, <- app_assoc, <- Hcan, from_num_app.
        rewrite (Hlow1 d); [reflexivity|]. rewrite Hcan, app_assoc, <- Hd.
        change (rev V0 ++ [hdF]) with (rev (hdF :: V0)). apply chainU_sorted. exact HcV.
      + assert (Ec : canon = d ++ rev (hdF :: V0)) by (rewrite Hcan, Hd, <- app_assoc; reflexivity).
        rewrite Ec, from_num_app.
        destruct B as [|bq B0] using rev_ind; [contradiction|].
        assert (Hrz : exists r, rev (hdF :: V0) = bq :: r).
        { rewrite HrV, rev_app_distr. cbn [rev app]. eauto. }
        destruct Hrz as [r Hr]. rewrite Hr in Ec.
        assert (Hq : bnum bq <= start).
        { rewrite Forall_forall in HB. assert (Hin : In bq (B0 ++ [bq])) by (apply in_or_app; right; left; reflexivity).
          specialize (HB bq Hin). lia. }
        rewrite (Hlow2 d bq r Ec Hq). reflexivity.
  Qed.
End Rel.
