(* C17 — facts about the gate state machines of Model/Gates.v, for every input sequence. *)
From BV Require Import Base.Prelude Model.Gates Spec.C17_Spec Proofs.C17_Lists.
Local Open Scope N_scope.

Lemma run_cons {S O} (step : S -> ev -> S * O) s e l s' o :
  step s e = (s', o) -> run step s (e :: l) = o :: run step s' l.
Proof. intros H. simpl. rewrite H. reflexivity. Qed.

Lemma final_cons {S O} (step : S -> ev -> S * O) s e l s' o :
  step s e = (s', o) -> final step s (e :: l) = final step s' l.
Proof. intros H. simpl. rewrite H. reflexivity. Qed.

Lemma hold_off_state m g g' a :
  hold_off m g = (g', a) ->
  g_passed g' = g_passed g /\ g_incl g' = g_incl g /\ a <> Forward /\
  g_count g' = (if (m =? 0)%Z then g_count g else g_count g + 1)%Z /\
  a = (if negb (m =? 0)%Z && (g_count g + 1 >? m)%Z then HoldErr else Hold).
Proof.
  unfold hold_off. destruct (m =? 0)%Z eqn:Hm; intros H; inversion H; subst; simpl.
  - repeat split; congruence.
  - destruct (g_count g + 1 >? m)%Z; repeat split; congruence.
Qed.

Section Latch.
  Variables (R trig force : ev -> bool) (maxhold : Z).

  Definition lstep := latch_step R trig force maxhold.
  Definition Tg (e : ev) : bool := R e && (trig e || force e).
  Definition Ig (incl : bool) (e : ev) : bool := incl || force e.

  Lemma lstep_passed g e : g_passed g = true -> lstep g e = (g, Forward).
  Proof. intros H. unfold lstep, latch_step. rewrite H. reflexivity. Qed.

  Lemma lrun_passed l : forall g, g_passed g = true -> run lstep g l = map (fun _ => Forward) l.
  Proof.
    induction l as [|e l IH]; intros g H; [reflexivity|].
    rewrite (run_cons lstep g e l g Forward (lstep_passed g e H)). simpl. rewrite IH by exact H.
    reflexivity.
  Qed.

  Lemma lstep_closed g e : g_passed g = false -> Tg e = false ->
    lstep g e = if R e then hold_off maxhold g else (g, Hold).
  Proof.
    intros Hp HT. unfold lstep, latch_step, Tg in *. rewrite Hp.
    destruct (R e) eqn:HR; simpl in *; [|reflexivity].
    apply orb_false_iff in HT as [Ht Hf]. rewrite Ht, Hf. simpl.
    destruct g as [p i c]. simpl in *. subst p. reflexivity.
  Qed.

  Lemma lstep_open g e : g_passed g = false -> Tg e = true ->
    exists g', lstep g e = (g', if Ig (g_incl g) e then Forward else Hold) /\ g_passed g' = true.
  Proof.
    intros Hp HT. unfold lstep, latch_step, Tg, Ig in *. rewrite Hp.
    apply andb_true_iff in HT as [HR HT]. rewrite HR. simpl.
    destruct (force e) eqn:Hf; simpl.
    - rewrite orb_true_r. eexists. split; reflexivity.
    - rewrite orb_false_r in HT |- *. rewrite HT. simpl. eexists. split; reflexivity.
  Qed.

  Lemma lstep_closed_state g e g' a : g_passed g = false -> Tg e = false -> lstep g e = (g', a) ->
    g_passed g' = false /\ g_incl g' = g_incl g /\ a <> Forward.
  Proof.
    intros Hp HT Hs. rewrite (lstep_closed g e Hp HT) in Hs. destruct (R e).
    - apply hold_off_state in Hs as (H1 & H2 & H3 & _). rewrite H1. auto.
    - inversion Hs; subst. repeat split; congruence.
  Qed.

  (* the forwarded events are the input from the trigger on *)
  Lemma fw_latch l : forall g, g_passed g = false ->
    forwarded (run lstep g l) l = suffix_from Tg (Ig (g_incl g)) l.
  Proof.
    induction l as [|e l IH]; intros g Hp; [reflexivity|].
    simpl suffix_from. destruct (Tg e) eqn:HT.
    - destruct (lstep_open g e Hp HT) as [g' [Hs Hp']].
      rewrite (run_cons lstep g e l g' _ Hs). rewrite (lrun_passed l g' Hp').
      destruct (Ig (g_incl g) e); simpl; rewrite forwarded_all; reflexivity.
    - destruct (lstep g e) as [g' a] eqn:Hs.
      destruct (lstep_closed_state g e g' a Hp HT Hs) as (Hp' & Hi & Ha).
      rewrite (run_cons lstep g e l g' a Hs). rewrite <- Hi.
      destruct a; simpl; try (apply IH; exact Hp'). congruence.
  Qed.

  Lemma final_closed l : forall g, g_passed g = false -> never Tg l ->
    g_passed (final lstep g l) = false.
  Proof.
    induction l as [|e l IH]; intros g Hp Hn; [exact Hp|].
    apply never_cons in Hn as [He Hl].
    destruct (lstep g e) as [g' a] eqn:Hs.
    rewrite (final_cons lstep g e l g' a Hs).
    apply IH; [|exact Hl]. apply (lstep_closed_state g e g' a Hp He Hs).
  Qed.

  Lemma lstep_ignored g e : g_passed g = false -> R e = false -> lstep g e = (g, Hold).
  Proof. intros Hp HR. unfold lstep, latch_step. rewrite Hp, HR. reflexivity. Qed.

  (* hold-off rule before the trigger, from any closed state *)
  Lemma holdoff_latch l : forall g j e,
    g_passed g = false ->
    nth_error l j = Some e ->
    (forall k x, (k <= j)%nat -> nth_error l k = Some x -> Tg x = false) ->
    nth_error (run lstep g l) j =
      Some (if R e && negb (maxhold =? 0)%Z && (g_count g + held R l j >? maxhold)%Z
            then HoldErr else Hold).
  Proof.
    induction l as [|x l IH]; intros g j e Hp He Hbefore; [destruct j; discriminate|].
    assert (HTx : Tg x = false) by (apply (Hbefore 0%nat x); [lia | reflexivity]).
    destruct (lstep g x) as [g' a] eqn:Hs.
    rewrite (run_cons lstep g x l g' a Hs).
    pose proof Hs as Hs2. rewrite (lstep_closed g x Hp HTx) in Hs2.
    destruct j as [|j].
    - simpl in He. inversion He; subst x. simpl. f_equal. unfold held. simpl.
      destruct (R e) eqn:HR.
      + apply hold_off_state in Hs2 as (_ & _ & _ & _ & Ha). rewrite Ha. simpl.
        replace (g_count g + Z.of_nat 1)%Z with (g_count g + 1)%Z by lia. reflexivity.
      + inversion Hs2; subst. reflexivity.
    - simpl in He. simpl nth_error.
      assert (Hp' : g_passed g' = false).
      { apply (lstep_closed_state g x g' a Hp HTx Hs). }
      rewrite (IH g' j e Hp' He).
      2:{ intros k y Hk Hy. apply (Hbefore (S k) y); [lia | exact Hy]. }
      f_equal. destruct (R e); simpl; [|reflexivity].
      destruct (maxhold =? 0)%Z eqn:Hm; simpl; [reflexivity|].
      assert (Hc : (g_count g' + held R l j = g_count g + held R (x :: l) (S j))%Z).
      { unfold held. change (firstn (S (S j)) (x :: l)) with (x :: firstn (S j) l).
        simpl filter. destruct (R x) eqn:HRx.
        - apply hold_off_state in Hs2 as (_ & _ & _ & Hc & _). rewrite Hm in Hc. rewrite Hc.
          simpl length. lia.
        - inversion Hs2; subst. reflexivity. }
      rewrite Hc. reflexivity.
  Qed.

  Lemma firstn_skipn_exact {A} (a b : list A) n : length a = n ->
    firstn n (a ++ b) = a /\ skipn n (a ++ b) = b.
  Proof.
    revert n. induction a as [|x a IH]; intros n Hn; simpl in Hn; subst n; simpl; [auto|].
    destruct (IH (length a) eq_refl) as [H1 H2]. rewrite H1, H2. auto.
  Qed.

  Lemma latch_ignores : (forall e, R e = is_irreversible e) ->
    ignores_non_irreversible Tg lstep.
  Proof.
    intros HR. split.
    - intros g e Hp He. apply lstep_ignored; [exact Hp | rewrite HR; exact He].
    - intros incl l1 e l2 He Hn. cbv zeta.
      rewrite !run_app.
      assert (Hp : g_passed (final lstep (g_init incl) l1) = false).
      { apply final_closed; [reflexivity | exact Hn]. }
      assert (Hs : lstep (final lstep (g_init incl) l1) e = (final lstep (g_init incl) l1, Hold)).
      { apply lstep_ignored; [exact Hp | rewrite HR; exact He]. }
      rewrite (run_cons lstep _ e l2 _ _ Hs).
      destruct (firstn_skipn_exact (run lstep (g_init incl) l1)
                  (run lstep (final lstep (g_init incl) l1) l2) (length l1)
                  (run_length lstep (g_init incl) l1)) as [H1 H2].
      rewrite H1, H2. reflexivity.
  Qed.
End Latch.

(* ---- the wrapped handler: generic in the gate ---- *)

Lemma handler_propagates_any {S} (step : S -> ev -> S * action) (s : S) : handler_propagates step s.
Proof.
  intros H hproc h l. cbv zeta. revert s h.
  induction l as [|e l IH]; intros s h.
  - simpl. repeat split; auto. intros j a o Ha. destruct j; discriminate.
  - simpl. destruct (step s e) as [s' a] eqn:Hs.
    destruct (IH s' h) as (I1 & I2 & I3).
    destruct a; simpl.
    + (* Hold *) repeat split.
      * rewrite I1. reflexivity.
      * exact I2.
      * intros j a o Ha Ho Hne. destruct j as [|j]; simpl in *.
        -- inversion Ha; inversion Ho; subst. reflexivity.
        -- apply (I3 j a o Ha Ho Hne).
    + (* HoldErr *) repeat split.
      * rewrite I1. reflexivity.
      * exact I2.
      * intros j a o Ha Ho Hne. destruct j as [|j]; simpl in *.
        -- inversion Ha; inversion Ho; subst. reflexivity.
        -- apply (I3 j a o Ha Ho Hne).
    + (* Forward *) destruct (hproc h e) as [h' r] eqn:Hh. simpl.
      destruct (IH s' h') as (J1 & J2 & J3).
      repeat split.
      * rewrite J1. reflexivity.
      * rewrite J2. reflexivity.
      * intros j a o Ha Ho Hne. destruct j as [|j]; simpl in *.
        -- inversion Ha; subst. congruence.
        -- apply (J3 j a o Ha Ho Hne).
Qed.

(* ---- real-time gate and gators ---- *)

Lemma rt_run_passed l : run realtime_gate_step true l = map (fun _ => Forward) l.
Proof. induction l as [|e l IH]; simpl; [reflexivity | rewrite IH; reflexivity]. Qed.

Lemma fw_realtime l : fw_of realtime_gate_step false l = suffix_from ert always l.
Proof.
  unfold fw_of. induction l as [|e l IH]; [reflexivity|].
  simpl. destruct (ert e) eqn:He; simpl.
  - rewrite rt_run_passed, forwarded_all. reflexivity.
  - exact IH.
Qed.

Lemma tg_run_passed l : run time_gator_step true l = map (fun _ => Forward) l.
Proof. induction l as [|e l IH]; simpl; [reflexivity | rewrite IH; reflexivity]. Qed.

Lemma fw_time_gator l : fw_of time_gator_step false l = suffix_from ert always l.
Proof.
  unfold fw_of. induction l as [|e l IH]; [reflexivity|].
  simpl. destruct (ert e) eqn:He; simpl.
  - rewrite tg_run_passed, forwarded_all. reflexivity.
  - exact IH.
Qed.

Lemma ng_run_passed t x l : run (num_gator_step t x) true l = map (fun _ => Forward) l.
Proof. induction l as [|e l IH]; simpl; [reflexivity | rewrite IH; reflexivity]. Qed.

Lemma fw_num_gator t x l :
  fw_of (num_gator_step t x) false l = suffix_from (T_num t) (fun _ => negb x) l.
Proof.
  unfold fw_of, T_num. induction l as [|e l IH]; [reflexivity|].
  simpl. destruct (t <=? enum e) eqn:He; simpl.
  - rewrite ng_run_passed. destruct x; simpl; rewrite forwarded_all; reflexivity.
  - exact IH.
Qed.

(* ---- MinimalBlockNumFilter ---- *)

Lemma fw_min_filter min l :
  fw_of (min_filter_step min) tt l = filter (fun e => min <=? enum e) l.
Proof.
  unfold fw_of. induction l as [|e l IH]; [reflexivity|].
  simpl. destruct (N.ltb_spec (enum e) min) as [Hlt|Hge]; destruct (N.leb_spec min (enum e)) as [Hle|Hgt];
    try lia; simpl; rewrite <- IH; reflexivity.
Qed.

Lemma nondecreasing_tail x l : nondecreasing (x :: l) -> nondecreasing l.
Proof.
  intros H i j a b Hij Ha Hb. apply (H (S i) (S j) a b); [lia | exact Ha | exact Hb].
Qed.

Lemma nondecreasing_head x l y : nondecreasing (x :: l) -> In y l -> enum x <= enum y.
Proof.
  intros H Hy. apply In_nth_error in Hy as [n Hn].
  apply (H 0%nat (S n) x y); [lia | reflexivity | exact Hn].
Qed.

Lemma filter_all {A} (f : A -> bool) l : (forall x, In x l -> f x = true) -> filter f l = l.
Proof.
  induction l as [|x l IH]; intros H; simpl; [reflexivity|].
  rewrite (H x (or_introl eq_refl)). rewrite IH; [reflexivity|]. intros y Hy. apply H. right. exact Hy.
Qed.

Lemma filter_suffix min l : nondecreasing l ->
  filter (fun e => min <=? enum e) l = suffix_from (T_num min) always l.
Proof.
  induction l as [|x l IH]; intros Hnd; [reflexivity|].
  simpl. unfold T_num at 1. destruct (min <=? enum x) eqn:Hx.
  - simpl. f_equal. apply filter_all. intros y Hy.
    pose proof (nondecreasing_head x l y Hnd Hy). apply N.leb_le in Hx. apply N.leb_le. lia.
  - apply IH. apply (nondecreasing_tail x l Hnd).
Qed.

(* ---- RealtimeTripper ---- *)

Lemma tripper_all_forward l : forall p,
  map snd (run tripper_step p l) = map (fun _ => Forward) l.
Proof.
  induction l as [|e l IH]; intros p; [reflexivity|].
  destruct (tripper_step p e) as [p' [t a]] eqn:Hs.
  rewrite (run_cons tripper_step p e l p' (t, a) Hs). simpl. rewrite IH. f_equal.
  unfold tripper_step in Hs. destruct p; [|destruct (ert e)]; inversion Hs; reflexivity.
Qed.

Lemma tripper_passed_quiet l : forall o, In o (run tripper_step true l) -> fst o = false.
Proof.
  induction l as [|e l IH]; intros o Ho; simpl in Ho; [contradiction|].
  destruct Ho as [Ho|Ho]; [subst; reflexivity | apply IH; exact Ho].
Qed.

Lemma tripper_never l : never ert l -> forall o, In o (run tripper_step false l) -> fst o = false.
Proof.
  induction l as [|e l IH]; intros Hn o Ho; simpl in Ho; [contradiction|].
  apply never_cons in Hn as [He Hl]. rewrite He in Ho. simpl in Ho.
  destruct Ho as [Ho|Ho]; [subst; reflexivity | apply IH; assumption].
Qed.

Lemma tripper_once l : forall i, first_at ert l i ->
  forall j o, nth_error (run tripper_step false l) j = Some o -> fst o = Nat.eqb j i.
Proof.
  induction l as [|e l IH]; intros i Hfa j o Ho.
  - destruct j; discriminate.
  - simpl in Ho. destruct (ert e) eqn:He; simpl in Ho.
    + rewrite (first_at_head ert e l He i Hfa). destruct j as [|j]; simpl in Ho.
      * inversion Ho; subst. reflexivity.
      * simpl. apply tripper_passed_quiet with (l := l). apply nth_error_In with (n := j). exact Ho.
    + destruct (first_at_tail ert e l He i Hfa) as [i' [Hi Hfa']]. subst i.
      destruct j as [|j]; simpl in Ho.
      * inversion Ho; subst. reflexivity.
      * simpl. apply (IH i' Hfa' j o Ho).
Qed.
