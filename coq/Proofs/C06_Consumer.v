(* C06: the consumer of Check/Burst_Check.v folds the resolver's output without failure and ends on
   the canonical chain, everything final. *)
From BV Require Import Base.Prelude Model.Block Model.Burst Model.CursorResolver Spec.Consumer Check.Burst_Check
  Spec.C06_Spec Proofs.C06_Lists Proofs.C06_Resolver Proofs.C06_Proofs Proofs.C06_Forked.
Local Open Scope N_scope.

Lemma fold_undos : forall c j W s nf any evs,
  (nf <= length s)%nat ->
  cons_fold (mkCons (W ++ s) nf any) (map (undo_event c j) W ++ evs) = cons_fold (mkCons s nf any) evs.
Proof.
  intros c j W s nf any evs Hnf. induction W as [|w W IH]; [reflexivity|].
  cbn [map app cons_fold]. unfold cons_apply at 1, undo_event at 1.
  cbn [estep eblk cs_stack cs_nf cs_any]. rewrite N.eqb_refl. cbn [andb].
  replace (Nat.ltb nf (length (w :: W ++ s))) with true.
  - exact IH.
  - symmetry. apply Nat.ltb_lt. cbn [length]. rewrite app_length. lia.
Qed.

Lemma fold_irrs : forall todo done evs,
  cons_fold (mkCons (rev (done ++ todo)) (length done) true) (map (file_event SIrr) todo ++ evs) =
  cons_fold (mkCons (rev (done ++ todo)) (length (done ++ todo)) true) evs.
Proof.
  induction todo as [|h t IH]; intros done evs.
  - rewrite app_nil_r. reflexivity.
  - cbn [map app cons_fold]. unfold cons_apply at 1, file_event at 1.
    cbn [estep eblk cs_stack cs_nf cs_any]. unfold nth_from_bottom.
    rewrite rev_involutive. rewrite nth_error_app2 by lia. rewrite Nat.sub_diag. cbn [nth_error].
    rewrite N.eqb_refl.
    replace (done ++ h :: t) with ((done ++ [h]) ++ t) by (rewrite <- app_assoc; reflexivity).
    replace (S (length done)) with (length (done ++ [h])) by (rewrite app_length; cbn [length]; lia).
    apply IH.
Qed.

Fixpoint plinked (prev : option N) (l : list block) : Prop :=
  match l with
  | [] => True
  | b :: l' => match prev with Some p => bparent b = p | None => True end /\ plinked (Some (bid b)) l'
  end.

Lemma branch_plinked : forall l p, branch_from p l -> plinked (Some (bid p)) l.
Proof.
  induction l as [|b l IH]; intros p H; [exact I|].
  destruct H as (Hp & _ & H). split; [exact Hp|apply IH; exact H].
Qed.

Lemma plinked_none : forall l p, plinked (Some p) l -> plinked None l.
Proof. intros [|b l] p H; [exact I|]. destruct H as [_ H]. split; [exact I|exact H]. Qed.

Lemma fold_news : forall later stk,
  plinked (option_map bid (hd_error stk)) later ->
  cons_fold (mkCons stk (length stk) true) (map (file_event SNewIrr) later) =
  Some (mkCons (rev later ++ stk) (length (rev later ++ stk)) true).
Proof.
  induction later as [|b l IH]; intros stk H; [reflexivity|].
  destruct H as [Hb H].
  assert (E : cons_apply (mkCons stk (length stk) true) (file_event SNewIrr b)
              = Some (mkCons (b :: stk) (length (b :: stk)) true)).
  { unfold cons_apply, file_event. cbn [estep eblk cs_stack cs_nf cs_any].
    rewrite Nat.eqb_refl. cbn [negb].
    destruct stk as [|top stk']; [reflexivity|]. cbn in Hb. rewrite Hb, N.eqb_refl. reflexivity. }
  cbn [map cons_fold]. rewrite E. rewrite (IH (b :: stk)) by exact H.
  cbn [rev]. rewrite <- app_assoc. reflexivity.
Qed.

Lemma hd_rev_snoc : forall (A : Type) (l : list A) x, hd_error (rev (l ++ [x])) = Some x.
Proof. intros. rewrite rev_unit. reflexivity. Qed.

(* the resolver's three groups of events, folded from the consumer's state *)
Lemma consumer_fold : forall c j L base hc hf later,
  base_ok L base -> branch_from L (hc ++ later) ->
  cons_fold (consumer base (hc ++ hf))
    (map (undo_event c j) (rev hf) ++ map (file_event SIrr) hc ++ map (file_event SNewIrr) later)
  = Some (all_final (base ++ hc ++ later)).
Proof.
  intros c j L base hc hf later Hbase Hbr. unfold consumer, all_final.
  replace (rev (base ++ hc ++ hf)) with (rev hf ++ rev (base ++ hc))
    by (rewrite (app_assoc base hc hf), (rev_app_distr (base ++ hc) hf); reflexivity).
  rewrite fold_undos by (rewrite rev_length, app_length; lia).
  rewrite fold_irrs.
  rewrite <- (rev_length (base ++ hc)).
  rewrite fold_news.
  - replace (rev later ++ rev (base ++ hc)) with (rev (base ++ hc ++ later))
      by (rewrite (app_assoc base hc later), (rev_app_distr (base ++ hc) later); reflexivity).
    rewrite rev_length. reflexivity.
  - apply branch_from_app in Hbr. destruct Hbr as [_ Hlater].
    destruct hc as [|h hc'].
    + cbn [last] in Hlater. rewrite app_nil_r.
      destruct Hbase as [->|(older & ->)].
      * cbn. eapply plinked_none. apply branch_plinked. exact Hlater.
      * rewrite hd_rev_snoc. cbn [option_map]. apply branch_plinked. exact Hlater.
    + assert (Hne : h :: hc' <> []) by discriminate.
      rewrite (app_removelast_last L Hne), app_assoc, hd_rev_snoc. cbn [option_map].
      apply branch_plinked. exact Hlater.
Qed.

(* ------------------------------------------------------------------ the four served cases *)

Lemma c06_consumer_on_chain_proof : C06_consumer_on_chain.
Proof.
  intros merged forked c stop bundle L rest base held Hset Hst Hbr Hon HX Hbase.
  assert (Hbr' : branch_from L (held ++ [])) by (rewrite app_nil_r; exact Hbr).
  destruct (setting_decompose _ _ _ _ _ _ _ _ Hset Hbr' Hon) as (later & Erest & Hc & Elater & Ehc).
  assert (Hin : In (last held L) (L :: rest)).
  { rewrite Erest. pose proof (last_in _ held L) as H. destruct H as [H|H]; [left; exact H|].
    right. apply in_or_app. left. exact H. }
  rewrite (c06_resume_on_chain_proof merged forked c stop bundle L rest (last held L) Hset Hst Hin HX).
  cbn [fst snd]. split; [reflexivity|].
  pose proof Hset as (_ & _ & HL). destruct (bref_eq _ _ HL) as [_ ELn]. destruct (bref_eq _ _ HX) as [_ EXn].
  rewrite <- ELn, <- EXn, <- Ehc, <- Elater.
  pose proof (consumer_fold c L L base held [] later Hbase) as F.
  rewrite app_nil_r in F. cbn [rev map app] in F. rewrite Erest. apply F.
  destruct Hc as [Hl _]. exact Hl.
Qed.

Lemma seg_filters_undo : forall L held X later,
  asc (L :: held ++ X :: later) ->
  inside (bnum L) (bnum X) (L :: held ++ X :: later) = held /\
  from_num (bnum X) (L :: held ++ X :: later) = X :: later.
Proof.
  intros L held X later H.
  pose proof H as [HL _]. apply Forall_app in HL. destruct HL as [HLheld HLX].
  pose proof (Forall_inv HLX) as HLltX.
  change (L :: held ++ X :: later) with ((L :: held) ++ X :: later) in H.
  destruct (asc_app_inv _ _ H) as (_ & [HXlater _] & H12).
  assert (HheldX : Forall (fun b => bnum b < bnum X) held).
  { pose proof (Forall_inv_tail H12) as H12'. eapply Forall_impl; [|exact H12']. cbn beta. intros a Ha. exact (Forall_inv Ha). }
  unfold inside, from_num. cbn [app filter].
  replace (bnum L <? bnum L) with false by (symmetry; apply N.ltb_irrefl).
  replace (bnum X <=? bnum L) with false by (symmetry; apply N.leb_gt; exact HLltX).
  cbn [andb]. rewrite !filter_app. cbn [filter].
  replace (bnum X <? bnum X) with false by (symmetry; apply N.ltb_irrefl).
  replace (bnum X <=? bnum X) with true by (symmetry; apply N.leb_refl).
  rewrite andb_false_r. split.
  - rewrite (filter_all _ _ held), (filter_none _ _ later), app_nil_r; [reflexivity| |].
    + eapply Forall_impl; [|exact HXlater]. cbn beta. intros b Hb.
      apply andb_false_iff. right. apply N.ltb_ge. lia.
    + rewrite Forall_forall in *. intros b Hb. apply andb_true_iff.
      split; apply N.ltb_lt; [apply HLheld|apply HheldX]; exact Hb.
  - rewrite (filter_none _ _ held), (filter_all _ _ later); [reflexivity| |].
    + eapply Forall_impl; [|exact HXlater]. cbn beta. intros b Hb. apply N.leb_le. lia.
    + eapply Forall_impl; [|exact HheldX]. cbn beta. intros b Hb. apply N.leb_gt. exact Hb.
Qed.

Lemma c06_consumer_undo_on_chain_proof : C06_consumer_undo_on_chain.
Proof.
  intros merged forked c stop bundle L rest base held X Hset Hst Hbr Hon HX Hbase.
  assert (Hbr' : branch_from L ((held ++ [X]) ++ [])) by (rewrite app_nil_r; exact Hbr).
  destruct (setting_decompose _ _ _ _ _ _ _ _ Hset Hbr' Hon) as (later & Erest & Hc & _ & _).
  assert (Hin : In X (L :: rest)).
  { rewrite Erest. right. apply in_or_app. left. apply in_or_app. right. left. reflexivity. }
  rewrite (c06_resume_undo_on_chain_proof merged forked c stop bundle L rest X Hset Hst Hin HX).
  cbn [fst snd]. split; [reflexivity|].
  pose proof Hset as (_ & _ & HL). destruct (bref_eq _ _ HL) as [_ ELn]. destruct (bref_eq _ _ HX) as [_ EXn].
  rewrite <- ELn, <- EXn. rewrite Erest. rewrite <- (app_assoc held [X] later). cbn [app].
  assert (Hc' : chain_ok (L :: held ++ X :: later)).
  { rewrite <- (app_assoc held [X] later) in Hc. exact Hc. }
  destruct (seg_filters_undo L held X later (chain_ok_asc _ Hc')) as [E1 E2]. rewrite E1, E2.
  pose proof (consumer_fold c L L base held [] (X :: later) Hbase) as F.
  rewrite app_nil_r in F. cbn [rev map app] in F. apply F.
  destruct Hc' as [Hl _]. exact Hl.
Qed.

Lemma c06_consumer_forked_proof : C06_consumer_forked.
Proof.
  intros merged forked c stop bundle L rest base hc hf Hset Hst Hbr Hon Hoff Hne HX Hfiles Hreach Hbase.
  destruct (setting_decompose _ _ _ _ _ _ _ _ Hset Hbr Hon) as (later & Erest & Hc & Elater & _).
  destruct (c06_resume_forked_proof merged forked c stop bundle L rest hc hf Hset Hst Hbr Hon Hoff Hne HX Hfiles Hreach) as [E _].
  rewrite E. cbn [fst snd]. split; [reflexivity|].
  rewrite <- Elater, Erest. apply (consumer_fold c (last hc L) L base hc hf later Hbase).
  destruct Hc as [Hl _]. exact Hl.
Qed.

Lemma c06_consumer_forked_undo_proof : C06_consumer_forked_undo.
Proof.
  intros merged forked c stop bundle L rest base hc hf X Hset Hst Hbr Hon Hoff HX Hfiles Hreach Hbase.
  destruct (setting_decompose _ _ _ _ _ _ _ _ Hset Hbr Hon) as (later & Erest & Hc & Elater & _).
  destruct (c06_resume_forked_undo_proof merged forked c stop bundle L rest hc hf X Hset Hst Hbr Hon Hoff HX Hfiles Hreach) as [E _].
  rewrite E. cbn [fst snd]. split; [reflexivity|].
  rewrite <- Elater, Erest. apply (consumer_fold c (last hc L) L base hc hf later Hbase).
  destruct Hc as [Hl _]. exact Hl.
Qed.

Lemma c06_consumer_proof : C06_consumer.
Proof.
  split; [exact c06_consumer_on_chain_proof|].
  split; [exact c06_consumer_undo_on_chain_proof|].
  split; [exact c06_consumer_forked_proof|exact c06_consumer_forked_undo_proof].
Qed.
