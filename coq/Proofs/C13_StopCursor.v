(* C13, the stop clause over whole runs, cursor mode: the resolver decides within the files read up to the bundle of
   S, so the two file sources differ by new+irreversible events beyond that bundle only. *)
From Coq Require Import Sorted.
From BV Require Import Base.Prelude Model.Block Model.ForkDB Model.Forkable Model.ForkableLookups Model.Burst Model.Hub
  Model.CursorResolver Model.Joining
  Spec.Consumer Spec.Universe Check.Fk_Check Check.Burst_Check Check.C07_Check
  Spec.C09_Spec Spec.C05_Spec Spec.C06_Spec Spec.C07_Spec Spec.C13_Spec Spec.C07_Compose_Spec Spec.C13_Stop_Spec
  Spec.C01_Spec Spec.C01_Moving_Spec Spec.C01_Roots_Spec
  Proofs.C06_Lists Proofs.C06_Resolver Proofs.C13_Proofs
  Proofs.Fk.LoopFacts Proofs.Fk.MovingLibDisc Proofs.C02_Proofs Proofs.C01_Roots_Proofs
  Proofs.Hub.HubFed Proofs.Hub.C09_History
  Proofs.C07_File Proofs.C07_ComposeStack Proofs.C07_ComposeHub Proofs.C07_ComposeRun Proofs.C07_Compose Proofs.C13_Stop Proofs.C13_StopRun.
Local Open Scope N_scope.

(* ------------------------------------------------------------------ the resolver with its final state *)

Fixpoint resolver_run_st (c : cursor) (pass : bool) (forked : list block) (s : rstate) (l : list block)
  : list event * rres * rstate :=
  match l with
  | [] => ([], RsOk, s)
  | b :: l' =>
      let '(s', evs, r) := resolver_step c pass forked s b in
      match r with
      | RsOk => let '(evs', r', s'') := resolver_run_st c pass forked s' l' in (evs ++ evs', r', s'')
      | _ => (evs, r, s')
      end
  end.

Lemma run_st_eq c pass forked : forall l s,
  resolver_run c pass forked s l = (fst (fst (resolver_run_st c pass forked s l)), snd (fst (resolver_run_st c pass forked s l))).
Proof.
  induction l as [|b l IH]; intros s; [reflexivity|].
  cbn [resolver_run resolver_run_st]. destruct (resolver_step c pass forked s b) as [[s' evs] r].
  destruct r; try reflexivity. rewrite (IH s'). destruct (resolver_run_st c pass forked s' l) as [[evs' r'] s'']. reflexivity.
Qed.

Lemma run_app c pass forked : forall l1 s l2,
  resolver_run c pass forked s (l1 ++ l2) =
  match resolver_run_st c pass forked s l1 with
  | (evs1, RsOk, s1) => let '(evs2, r2) := resolver_run c pass forked s1 l2 in (evs1 ++ evs2, r2)
  | (evs1, r, _) => (evs1, r)
  end.
Proof.
  induction l1 as [|b l1 IH]; intros s l2.
  - cbn [app resolver_run_st]. destruct (resolver_run c pass forked s l2). reflexivity.
  - cbn [app resolver_run resolver_run_st]. destruct (resolver_step c pass forked s b) as [[s' evs] r].
    destruct r; try reflexivity. rewrite (IH s' l2).
    destruct (resolver_run_st c pass forked s' l1) as [[evs1 r1] s1]. destruct r1; try reflexivity.
    destruct (resolver_run c pass forked s1 l2) as [evs2 r2]. rewrite app_assoc. reflexivity.
Qed.

(* from a cursor (no pass-through): a block at or above the cursor block decides *)
Lemma run_st_resolved c forked : forall l s evs s1,
  resolver_run_st c false forked s l = (evs, RsOk, s1) ->
  (r_resolved s = true \/ exists b, In b l /\ rn (cu_blk c) <= bnum b) -> r_resolved s1 = true.
Proof.
  induction l as [|b l IH]; intros s evs s1 H Hor.
  - cbn in H. injection H as _ <-. destruct Hor as [H|(b & [] & _)]. exact H.
  - cbn [resolver_run_st] in H. destruct (resolver_step c false forked s b) as [[s' evs0] r] eqn:Est.
    destruct r; try discriminate.
    destruct (resolver_run_st c false forked s' l) as [[evs' r'] s''] eqn:Erun. injection H as _ -> ->.
    apply (IH s' evs' s1 Erun).
    unfold resolver_step in Est. destruct (r_resolved s) eqn:Ers.
    + injection Est as <- _. left. exact Ers.
    + cbn [andb] in Est. destruct Hor as [Hd|(b0 & [<-|Hb0] & Hge)]; [discriminate| |].
      * left. replace (bnum b <? rn (cu_blk c)) with false in Est by (symmetry; apply N.ltb_ge; exact Hge).
        destruct (bid b =? ri (cu_blk c)).
        -- destruct (matches_undo (cu_step c)); injection Est as <- _; reflexivity.
        -- destruct (resolve_walk _ c _ _ _ _) as [[[undos j]|]|]; try discriminate. injection Est as <- _. reflexivity.
      * destruct (bnum b <? rn (cu_blk c)).
        -- right. exists b0. split; [exact Hb0 | exact Hge].
        -- left. destruct (bid b =? ri (cu_blk c)).
           ++ destruct (matches_undo (cu_step c)); injection Est as <- _; reflexivity.
           ++ destruct (resolve_walk _ c _ _ _ _) as [[[undos j]|]|]; try discriminate. injection Est as <- _. reflexivity.
Qed.

Lemma run_resolved_st c pass forked s l : r_resolved s = true -> resolver_run c pass forked s l = (map fev l, RsOk).
Proof. destruct s as [seen res]. cbn [r_resolved]. intros ->. apply run_resolved. Qed.

(* ------------------------------------------------------------------ the theorem *)

Lemma c13_stop_cursor_proof : C13_stop_cursor.
Proof.
  intros U c w ps merged_end merged forked cu Hwfb Hlok [[l [Hl Hhub]] Hrest] HS Hbound Hsorted Hmend Hmode Hcur HpN HpNI Hreach Hninv out0.
  assert (Hscope : disc_scope2_b U = true) by (unfold disc_scope2_b; rewrite Hwfb, Hlok; reflexivity).
  pose proof (bridge_id U Hwfb) as Hid. pose proof (bridge_uniq U Hwfb) as Huniq. pose proof (bridge_up U Hwfb) as Hup.
  pose proof (bridge2_decl_none U Hscope) as Hdecl.
  assert (HW : WOK U c w).
  { split; [|exact Hrest]. rewrite Hhub. apply (hub_ok_run U (j_first c) (j_kept c) Hwfb Hlok l Hl). }
  set (start := run_start c w).
  assert (Hstart : (j_stop c <? start) = false).
  { destruct (j_stop c <? start) eqn:E; [|reflexivity]. exfalso. apply Hninv.
    unfold stream_run. cbv zeta. fold (run_start c w). fold start. rewrite E.
    replace (j_stop c =? 0) with false by (symmetry; apply N.eqb_neq; exact HS). reflexivity. }
  set (b := j_bundle c). set (lib := rn (cu_lib cu)).
  set (t1 := (j_stop c / b + 1) * b). set (t2 := (file_bound / b + 1) * b).
  set (DS := file_delivery merged lib (j_stop c) b).
  set (D2 := filter (fun x => (lib <=? bnum x) && (t1 <=? bnum x) && (bnum x <? t2)) merged).
  assert (HD : file_delivery merged lib file_bound b = DS ++ D2).
  { unfold DS, D2, file_delivery. fold t1 t2. apply filter_split_sorted; [apply bundle_end_mono; exact Hbound | exact Hsorted]. }
  assert (HD2 : forall x, In x D2 -> In x merged /\ t1 <= bnum x /\ j_stop c < bnum x).
  { intros x Hx. unfold D2 in Hx. apply filter_In in Hx as [Hin Hx]. apply andb_true_iff in Hx as [Hx Hx2].
    apply andb_true_iff in Hx as [_ Hx1]. apply N.leb_le in Hx1. apply N.ltb_lt in Hx2.
    split; [exact Hin|]. split; [exact Hx1|].
    assert (Hb : b <> 0).
    { intros E. unfold t2 in Hx2. rewrite E, N.mul_0_r in Hx2. lia. }
    pose proof (N.mul_succ_div_gt (j_stop c) b Hb) as H. rewrite <- N.add_1_r in H. unfold t1 in Hx1. nia. }
  assert (Hmode2 : (j_mode c =? 2) = false) by (rewrite Hmode; reflexivity).
  (* the simulation of the two file phases, for any events the resolver hands over up to the bundle of S *)
  assert (Hfile : forall fuel lowest fevs1 fevs2 fend fend0,
            fevs2 = map fev D2 \/ fevs2 = [] ->
            (fevs2 <> [] -> fend = JStop) ->
            sim c [] (file_phase fuel (with_stop c 0) w lowest (fevs1 ++ fevs2) fend0 0 ps [])
                     (file_phase fuel c w lowest fevs1 fend 0 ps [])).
  { intros fuel lowest fevs1 fevs2 fend fend0 Hf2 Hfend.
    apply (file_sim c HS (WOK U c) (fun w0 H0 => wok_push_one U c Hid Huniq Hup Hdecl w0 H0) fevs2).
    - destruct Hf2 as [-> | ->]; [|constructor]. apply Forall_forall. intros e He. apply in_map_iff in He as (x & <- & Hx).
      destruct (HD2 x Hx) as (_ & _ & Hgt). split; [exact HpNI | exact Hgt].
    - intros w0 lowest0 e burst [Hok0 Hrest0] He Hj. destruct Hf2 as [-> | ->]; [|destruct He].
      apply in_map_iff in He as (x & <- & Hx). destruct (HD2 x Hx) as (_ & _ & Hgt).
      destruct (join_mode0 c w0 lowest0 (fev x) burst Hmode2 Hj) as (Hb & Hrd & _). cbn [eblk file_event] in Hb.
      destruct (vstate_of_hub U (j_first c) (j_kept c) Hid Huniq Hup Hdecl (w_hub w0) Hok0 Hrd) as [V HV].
      destruct (burst_shape U c Hid Huniq Hup (h_f (w_hub w0)) V (bnum x) burst HV Hb)
        as (hd & sg & y & suf & l0 & _ & _ & _ & _ & Hny & Hmap & Hnew & _).
      destruct burst as [|e1 rest]; [discriminate|]. cbn [map] in Hmap. injection Hmap as He1 _.
      exists e1, rest. split; [reflexivity|]. split.
      + apply new_passes; [exact HpN | exact HpNI | exact (Forall_inv Hnew)].
      + unfold enum. rewrite He1, Hny. exact Hgt.
    - exact Hfend.
    - exact HW. }
  assert (Hfend : map fev D2 <> [] -> (if t1 <=? merged_end then JStop else JNil) = JStop).
  { intros Hne. destruct D2 as [|x r] eqn:E2; [contradiction|].
    destruct (HD2 x) as (Hin & Ht1 & _); [left; reflexivity|].
    rewrite Forall_forall in Hmend. specialize (Hmend x Hin).
    replace (t1 <=? merged_end) with true by (symmetry; apply N.leb_le; lia). reflexivity. }
  (* the two resolver runs *)
  assert (Hres : exists evs1 r1,
            from_cursor_run merged forked cu (j_stop c) b = (evs1, r1) /\
            ((r1 = RsOk /\ from_cursor_run merged forked cu file_bound b = (evs1 ++ map fev D2, RsOk)) \/
             (r1 <> RsOk /\ from_cursor_run merged forked cu file_bound b = (evs1, r1)))).
  { unfold from_cursor_run. fold lib DS. rewrite HD, run_app, run_st_eq.
    destruct (resolver_run_st cu false forked rs_init DS) as [[evs1 r1] s1] eqn:Est. cbn [fst snd].
    exists evs1, r1. split; [reflexivity|]. destruct r1; [left | right; split; [discriminate | reflexivity]..].
    split; [reflexivity|].
    assert (Hrs : r_resolved s1 = true).
    { apply (run_st_resolved cu forked DS rs_init evs1 s1 Est). right. exact Hreach. }
    rewrite (run_resolved_st cu false forked s1 D2 Hrs). reflexivity. }
  destruct Hres as (evs1 & r1 & Hrun & Hrun0).
  (* the file source's first bundle (that of the cursor LIB) is at or below the bundle of S: the files reach the cursor block *)
  assert (Hfe : file_end c merged_end = if t1 <=? merged_end then JStop else JNil).
  { unfold file_end, first_bundle_ok. rewrite Hmode, Hcur. cbn [N.eqb Pos.eqb].
    replace (j_stop c =? 0) with false by (symmetry; apply N.eqb_neq; exact HS). cbn [negb andb]. fold b t1 lib.
    destruct (N.leb_spec t1 merged_end) as [Hle|Hgt]; cbn [andb]; [|reflexivity].
    destruct Hreach as (x & Hx & _). fold lib b DS in Hx. unfold DS, file_delivery in Hx. apply filter_In in Hx as [_ Hx].
    apply andb_true_iff in Hx as [Hx1 Hx2]. apply N.leb_le in Hx1. apply N.ltb_lt in Hx2. fold t1 in Hx2.
    assert (Hb0 : b <> 0) by (intros E; unfold t1 in Hx2; rewrite E, N.mul_0_r in Hx2; lia).
    pose proof (N.mul_div_le lib b Hb0) as Hdiv.
    replace (lib / b * b <? merged_end) with true; [reflexivity|]. symmetry. apply N.ltb_lt. nia. }
  (* both runs *)
  assert (Hsim : sim c [] (stream_run (with_stop c 0) w ps merged_end merged forked)
                          (stream_run c w ps merged_end merged forked)).
  { unfold stream_run. cbv zeta. rewrite Hfe, (file_end_nostop (with_stop c 0) merged_end eq_refl).
    cbn [j_first j_start j_stop j_mode j_filter j_cursor j_bundle with_stop].
    fold (run_start c w). fold start. rewrite Hstart, Hmode, Hcur.
    replace (j_stop c =? 0) with false by (symmetry; apply N.eqb_neq; exact HS).
    cbn [N.eqb negb andb].
    destruct ((j_filter c =? 1) && negb (on_final_block cu)) eqn:Efin.
    { exfalso. apply Hninv. unfold stream_run. cbv zeta. fold (run_start c w). fold start. rewrite Hstart, Hmode, Hcur.
      rewrite andb_false_r. cbn [N.eqb]. rewrite Efin. reflexivity. }
    rewrite !(pass_new_not_final c HpN).
    change (live_try (with_stop c 0) (w_hub w) start) with (live_try c (w_hub w) start).
    destruct (live_try c (w_hub w) start) as [burst| | |].
    - apply live_sim.
    - fold b. change 1000000000000 with file_bound. rewrite Hrun. fold t1.
      destruct Hrun0 as [[-> Hrun0]|[Hne Hrun0]]; rewrite Hrun0.
      + apply (Hfile _ _ evs1 (map fev D2)); [left; reflexivity | exact Hfend].
      + rewrite <- (app_nil_r evs1) at 1.
        replace (match r1 with RsOk => if t1 <=? merged_end then JStop else JNil | RsResolveErr => JInvalidArg | RsNotImplemented => JOther | RsFuel => JFuel end)
          with (match r1 with RsOk => JNil | RsResolveErr => JInvalidArg | RsNotImplemented => JOther | RsFuel => JFuel end)
          by (destruct r1; [contradiction | reflexivity..]).
        apply (Hfile _ _ evs1 []); [right; reflexivity | intros H; contradiction].
    - exists []. cbn. split; [reflexivity|]. split; [reflexivity | discriminate].
    - exists []. cbn. split; [reflexivity|]. split; [reflexivity | discriminate]. }
  destruct Hsim as (t & H0 & H1 & H2). cbn [app] in H0, H1. unfold out0. rewrite H0. split; [exact H1 | exact H2].
Qed.
