(* Proofs of the block-file statements of Spec/C16_Spec.v. *)
From BV Require Import Base.Prelude Base.Decimal Model.CursorCodec Model.Dbin Model.OneBlockName
  Spec.C16_Spec Proofs.PreludeFacts Proofs.DbinFacts.
Local Open Scope N_scope.

(* ------------------------------------------------------------------ seq_run facts *)

Lemma seq_run_app {T} (dec : str -> option T) : forall a b K,
  seq_run dec (a ++ b) K = seq_run dec a (seq_run dec b K).
Proof.
  induction a as [|m a IH]; intros b K; [reflexivity|].
  cbn [app seq_run]. destruct (dec m); [|reflexivity]. rewrite IH. reflexivity.
Qed.

Lemma seq_run_outcome {T} (dec : str -> option T) : forall ms l o,
  snd (seq_run dec ms (l, o)) = o \/ snd (seq_run dec ms (l, o)) = OErr.
Proof.
  induction ms as [|m r IH]; intros l o; [left; reflexivity|].
  cbn [seq_run]. destruct (dec m); [|right; reflexivity].
  specialize (IH l o). destruct (seq_run dec r (l, o)). exact IH.
Qed.

Lemma seq_run_outcome_pair {T} (dec : str -> option T) ms (K : list T * outcome) :
  snd (seq_run dec ms K) = snd K \/ snd (seq_run dec ms K) = OErr.
Proof. destruct K as [l o]. apply seq_run_outcome. Qed.

(* ------------------------------------------------------------------ the writer *)

Section Codec.
  Variable penc : blk -> option str.
  Variable pdec : str -> option blk.
  Variable pdec_meta : str -> option bmeta.
  Variable first : N.
  Variable accept_solana : bool.
  Hypothesis Hcodec : codec_ok penc pdec pdec_meta.

  Notation writable := (writable penc).
  Notation msgs_of := (msgs_of penc).
  Notation seq_ok := (seq_ok penc).
  Notation file_of := (file_of penc).
  Notation dec_block := (dec_block pdec first accept_solana).
  Notation dec_meta := (dec_meta pdec_meta first).
  Notation upgrade := (upgrade first accept_solana).
  Notation expected := (expected first accept_solana).
  Notation expected_meta := (expected_meta first).
  Notation read_blocks := (read_blocks pdec first accept_solana).
  Notation read_metas := (read_metas pdec_meta first).
  Notation boundary := (boundary penc).

  Lemma msgs_of_cons b r m : penc b = Some m -> msgs_of (b :: r) = m :: msgs_of r.
  Proof. intros H. unfold C16_Spec.msgs_of. cbn [map]. rewrite H. reflexivity. Qed.

  Lemma msgs_of_wf bs : Forall writable bs -> Forall msg_wf (msgs_of bs).
  Proof.
    induction 1 as [|b r (m & Hm & Hne & Hlt) _ IH]; [constructor|].
    rewrite (msgs_of_cons b r m Hm). constructor; [split; assumption | exact IH].
  Qed.

  Lemma msgs_of_length bs : length (msgs_of bs) = length bs.
  Proof. unfold C16_Spec.msgs_of. apply map_length. Qed.

  Lemma msgs_of_firstn k bs : firstn k (msgs_of bs) = msgs_of (firstn k bs).
  Proof. unfold C16_Spec.msgs_of. apply firstn_map. Qed.

  Lemma write_from_started : forall bs out, Forall writable bs ->
    write_from penc (mkW true out) bs = (mkW true (out ++ frames (msgs_of bs)), WOk).
  Proof.
    induction bs as [|b r IH]; intros out H.
    - cbn. rewrite app_nil_r. reflexivity.
    - inversion H as [|? ? (m & Hm & Hne & _) Hr]; subst.
      cbn [write_from]. unfold writer_write. cbn [w_hdr]. rewrite Hm. destruct m as [|m0 m']; [congruence|]. cbn [w_hdr w_out].
      rewrite (IH _ Hr), (msgs_of_cons b r _ Hm), frames_cons, <- !app_assoc. reflexivity.
  Qed.

  Lemma write_all_ok bs : seq_ok bs ->
    write_all penc bs = (file_bytes (ctype_of bs) (msgs_of bs), WOk).
  Proof.
    intros (Hne & Hct & Hlen & Hw). destruct bs as [|b r]; [congruence|].
    cbn [ctype_of] in *. inversion Hw as [|? ? (m & Hm & Hmne & _) Hr]; subst.
    unfold write_all. cbn [write_from]. unfold writer_write at 1. cbn [w_hdr w_out].
    unfold write_header.
    destruct (N.ltb_spec 65535 (lenN (url_of b))) as [X|_]; [lia|].
    destruct (N.eqb_spec (lenN (url_of b)) 0) as [X|_]; [apply lenN_nil_iff in X; contradiction|].
    cbn [orb]. rewrite Hm. destruct m as [|m0 m']; [congruence|]. cbn [w_hdr w_out app].
    rewrite (write_from_started r _ Hr). cbn [w_out fst].
    rewrite (msgs_of_cons b r _ Hm). unfold file_bytes. rewrite frames_cons.
    unfold magic. cbn [app]. rewrite <- !app_assoc. reflexivity.
  Qed.

  Lemma file_of_ok bs : seq_ok bs -> file_of bs = file_bytes (ctype_of bs) (msgs_of bs).
  Proof. intros H. unfold C16_Spec.file_of. rewrite (write_all_ok bs H). reflexivity. Qed.

  Lemma seq_ok_ct bs : seq_ok bs -> ct_ok (ctype_of bs).
  Proof. intros (_ & _ & H & _). exact H. Qed.

  Lemma seq_ok_wf bs : seq_ok bs -> Forall msg_wf (msgs_of bs).
  Proof. intros (_ & _ & _ & H). apply msgs_of_wf. exact H. Qed.

  (* ------------------------------------------------------------------ decoders on written messages *)

  Lemma decode_run_blocks bs : Forall writable bs ->
    decode_run dec_block (msgs_of bs) = expected bs.
  Proof.
    destruct Hcodec as [Hd _].
    induction 1 as [|b r (m & Hm & _ & _) _ IH]; [reflexivity|].
    rewrite (msgs_of_cons b r m Hm). unfold C16_Spec.expected in *. cbn [decode_run].
    unfold C16_Spec.dec_block at 1. rewrite (Hd b m Hm).
    destruct (upgrade b); [|reflexivity]. rewrite IH. reflexivity.
  Qed.

  Lemma decode_run_metas bs : Forall writable bs ->
    decode_run dec_meta (msgs_of bs) = expected_meta bs.
  Proof.
    destruct Hcodec as [_ Hd].
    induction 1 as [|b r (m & Hm & _ & _) _ IH]; [reflexivity|].
    rewrite (msgs_of_cons b r m Hm). unfold C16_Spec.expected_meta in *. cbn [decode_run].
    unfold C16_Spec.dec_meta at 1. rewrite (Hd b m Hm).
    destruct (support_legacy_meta first (meta_of b)); [|reflexivity]. rewrite IH. reflexivity.
  Qed.

  Lemma upgrade_modern b : modern b -> upgrade b = Some b.
  Proof.
    unfold modern, C16_Spec.upgrade, support_legacy. destruct (b_payload b); [reflexivity|congruence].
  Qed.

  Lemma expected_modern bs : Forall modern bs -> expected bs = (bs, OEOF).
  Proof.
    unfold C16_Spec.expected.
    induction 1 as [|b r Hb _ IH]; [reflexivity|].
    cbn [decode_run]. rewrite (upgrade_modern b Hb), IH. reflexivity.
  Qed.

  (* ------------------------------------------------------------------ round trip *)

  Lemma c16_roundtrip_proof : C16_roundtrip penc pdec pdec_meta first accept_solana.
  Proof.
    intros bs Hok. pose proof (write_all_ok bs Hok) as Hw.
    pose proof (seq_ok_ct bs Hok) as Hct. pose proof (seq_ok_wf bs Hok) as Hwf.
    destruct Hok as (Hne & Hctne & Hlen & Hwr).
    split; [rewrite Hw; reflexivity|].
    assert (Hf : file_of bs = file_bytes (ctype_of bs) (msgs_of bs)).
    { unfold C16_Spec.file_of. rewrite Hw. reflexivity. }
    split; [exact Hf|]. split; [|split].
    - unfold C16_Spec.read_blocks. rewrite Hf, read_file_written by assumption.
      rewrite decode_run_blocks by exact Hwr. reflexivity.
    - unfold C16_Spec.read_metas. rewrite Hf, read_file_written by assumption.
      rewrite decode_run_metas by exact Hwr. reflexivity.
    - apply expected_modern.
  Qed.

  (* ------------------------------------------------------------------ truncation *)

  Lemma boundary_eq bs k : boundary bs k = (header_len (ctype_of bs) + length (frames (firstn k (msgs_of bs))))%nat.
  Proof.
    unfold C16_Spec.boundary. rewrite file_bytes_split, app_length, header_bytes_length. reflexivity.
  Qed.

  Lemma Forall_firstn {A} (P : A -> Prop) k l : Forall P l -> Forall P (firstn k l).
  Proof.
    revert l; induction k as [|k IH]; intros l H; [constructor|].
    destruct H; cbn [firstn]; constructor; auto.
  Qed.

  Lemma c16_truncation_proof : C16_truncation penc pdec first accept_solana.
  Proof.
    intros bs n Hok r. subst r.
    pose proof (file_of_ok bs Hok) as Hf.
    pose proof (seq_ok_ct bs Hok) as Hct. pose proof (seq_ok_wf bs Hok) as Hwf.
    destruct Hok as (Hne & Hctne & Hlen & Hwr).
    rewrite Hf, file_bytes_split.
    destruct (Nat.le_gt_cases (header_len (ctype_of bs)) n) as [Hge|Hlt].
    - (* the header is complete *)
      rewrite firstn_app_ge by (rewrite header_bytes_length; exact Hge).
      rewrite header_bytes_length.
      set (n' := (n - header_len (ctype_of bs))%nat).
      unfold C16_Spec.read_blocks. rewrite header_bytes_then, read_file_header_then by exact Hct.
      destruct (read_all_cut_frames dec_block (msgs_of bs) n' Hwf) as (k & o & Hk & Hrd & Hcase).
      rewrite Hrd. unfold rf_items, rf_outcome. cbn [fst snd].
      split; [|split].
      + rewrite <- decode_run_blocks by exact Hwr. apply seq_run_firstn_prefix.
      + destruct (seq_run_outcome dec_block (firstn k (msgs_of bs)) [] o) as [E|E]; rewrite E.
        * destruct Hcase as [[-> _]|[-> _]]; auto.
        * auto.
      + intros Heof.
        assert (Ho : o = OEOF).
        { destruct Hcase as [[-> _]|[-> _]]; [reflexivity|].
          destruct (seq_run_outcome dec_block (firstn k (msgs_of bs)) [] OErr) as [E|E];
            rewrite E in Heof; discriminate. }
        subst o. destruct Hcase as [[_ Hcut]|[X _]]; [|discriminate].
        rewrite msgs_of_length in Hk.
        exists k. split; [exact Hk|]. split; [|split].
        * rewrite <- header_bytes_then, app_length, header_bytes_length, Hcut, boundary_eq. reflexivity.
        * rewrite seq_run_decode_run, msgs_of_firstn, decode_run_blocks
            by (apply Forall_firstn; exact Hwr). reflexivity.
        * rewrite seq_run_decode_run, msgs_of_firstn, decode_run_blocks in Heof
            by (apply Forall_firstn; exact Hwr). exact Heof.
    - (* cut inside the header *)
      rewrite firstn_app_le by (rewrite header_bytes_length; lia).
      unfold C16_Spec.read_blocks, read_file, read_file_with.
      rewrite read_header_cut by assumption.
      unfold rf_items, rf_outcome. cbn [fst snd].
      split; [exists (fst (expected bs)); reflexivity|]. split; [auto|]. discriminate.
  Qed.

  (* ------------------------------------------------------------------ damage after offset p *)

  Lemma c16_prefix_intact_proof : C16_prefix_intact penc pdec first accept_solana.
  Proof.
    intros bs k f' Hok Hk Hpre r. subst r.
    pose proof (file_of_ok bs Hok) as Hf.
    pose proof (seq_ok_ct bs Hok) as Hct. pose proof (seq_ok_wf bs Hok) as Hwf.
    destruct Hok as (Hne & Hctne & Hlen & Hwr).
    set (ms := msgs_of bs) in *.
    set (P := header_bytes (ctype_of bs) ++ frames (firstn k ms)).
    assert (HP : boundary bs k = length P).
    { unfold C16_Spec.boundary, P. rewrite file_bytes_split. reflexivity. }
    assert (HF : file_of bs = P ++ frames (skipn k ms)).
    { rewrite Hf, file_bytes_split. unfold P. rewrite <- app_assoc, <- frames_app, firstn_skipn. reflexivity. }
    assert (Hf' : f' = P ++ skipn (length P) f').
    { rewrite <- (firstn_skipn (length P) f') at 1. f_equal.
      rewrite <- HP, Hpre, HP, HF, firstn_app_le, firstn_all by lia. reflexivity. }
    rewrite Hf'. unfold P. rewrite <- app_assoc.
    unfold C16_Spec.read_blocks. rewrite header_bytes_then, read_file_header_then by exact Hct.
    rewrite read_all_frames by (apply Forall_firstn; exact Hwf).
    unfold rf_header, rf_items, rf_outcome. cbn [fst snd].
    split; [reflexivity|]. split.
    - rewrite <- decode_run_blocks by exact Hwr. fold ms.
      rewrite <- seq_run_decode_run.
      rewrite <- (firstn_skipn k ms) at 3. rewrite seq_run_app.
      assert (Hl : length (firstn k ms) = k).
      { rewrite firstn_length. unfold ms. rewrite msgs_of_length. lia. }
      rewrite <- Hl at 1 4. apply seq_run_firstn_indep.
    - destruct (seq_run_outcome_pair dec_block (firstn k ms) (read_all dec_block (skipn (length (header_bytes (ctype_of bs) ++ frames (firstn k ms))) f'))) as [E|E];
        rewrite E; [|discriminate].
      eapply read_all_no_fuel. apply Nat.lt_succ_diag_r.
  Qed.

  Lemma boundary_le_length bs k : seq_ok bs -> (boundary bs k <= length (file_of bs))%nat.
  Proof.
    intros Hok. rewrite (file_of_ok bs Hok). unfold C16_Spec.boundary.
    rewrite !file_bytes_split, !app_length.
    rewrite <- (firstn_skipn k (msgs_of bs)) at 2. rewrite frames_app, app_length. lia.
  Qed.

  Lemma firstn_corrupt f p v b : (b <= p)%nat -> (b <= length f)%nat ->
    firstn b (corrupt f p v) = firstn b f.
  Proof.
    intros Hbp Hbl. unfold corrupt.
    rewrite firstn_app_le by (rewrite firstn_length; lia).
    rewrite firstn_firstn. f_equal. lia.
  Qed.

  Lemma c16_corruption_prefix_intact_proof : C16_corruption_prefix_intact penc pdec first accept_solana.
  Proof.
    intros bs k p v Hok Hk Hp r. subst r.
    destruct (c16_prefix_intact_proof bs k (corrupt (file_of bs) p v) Hok Hk) as (_ & H1 & H2).
    - apply firstn_corrupt; [exact Hp | apply boundary_le_length; exact Hok].
    - split; assumption.
  Qed.

  (* ------------------------------------------------------------------ one corrupted header byte *)

  Lemma corrupt_length f p v : (p < length f)%nat -> length (corrupt f p v) = length f.
  Proof.
    intros H. unfold corrupt. rewrite app_length, firstn_length. cbn [length].
    rewrite skipn_length. lia.
  Qed.

  Lemma corrupt_app_l a b p v : (p < length a)%nat -> corrupt (a ++ b) p v = corrupt a p v ++ b.
  Proof.
    intros H. unfold corrupt. rewrite firstn_app_le by lia.
    rewrite skipn_app. replace (S p - length a)%nat with 0%nat by lia.
    rewrite skipn_O, <- app_assoc. reflexivity.
  Qed.

  Lemma read_five a b c d e rest :
    read_bytes 5 (a :: b :: c :: d :: e :: rest) = (mkPbuf [a; b; c; d; e] 0, rest, ENone).
  Proof. apply (read_bytes_exact' 5 [a; b; c; d; e] rest). reflexivity. Qed.

  Lemma c16_header_corruption_partial_proof :
    C16_header_corruption_partial penc pdec first accept_solana.
  Proof.
    intros bs p v Hok Hp Hv Hwhere.
    pose proof (file_of_ok bs Hok) as Hf.
    pose proof (seq_ok_ct bs Hok) as Hct. pose proof (seq_ok_wf bs Hok) as Hwf.
    unfold header_corruption_at. rewrite Hf in *.
    set (ct := ctype_of bs) in *. set (ms := msgs_of bs) in *.
    assert (Hbad : forall f, read_header f = None ->
              rf_outcome (read_blocks f) = OHdr /\ rf_items (read_blocks f) = []).
    { intros f E. unfold C16_Spec.read_blocks, read_file, read_file_with. rewrite E. split; reflexivity. }
    destruct Hwhere as [Hlt4|[[Hp4 Hv0]|Hge7]]; [| subst p |].
    - (* a byte of the magic string *)
      left. apply Hbad. unfold file_bytes, magic in *. cbn [app] in *.
      assert (Hcase : p = 0%nat \/ p = 1%nat \/ p = 2%nat \/ p = 3%nat) by lia.
      unfold read_header.
      destruct Hcase as [-> | [-> | [-> | ->]]]; cbn [nth] in Hv; unfold corrupt; cbn [firstn skipn app];
        rewrite read_five; cbn [pb_data eqb_list magic];
        match goal with |- context [N.eqb v ?c] => destruct (N.eqb_spec v c) as [X|_]; [congruence|] end;
        cbn [N.eqb Pos.eqb andb]; reflexivity.
    - (* the version byte, to an unsupported version *)
      left. apply Hbad. unfold file_bytes, magic in *. cbn [app nth] in *.
      unfold read_header, corrupt. cbn [firstn skipn app]. rewrite read_five.
      cbn [pb_data eqb_list magic N.eqb Pos.eqb andb].
      destruct (N.eqb_spec v 0) as [X|_]; [congruence|].
      destruct (N.eqb_spec v 1) as [X|_]; [congruence|]. reflexivity.
    - (* a byte of the content type: only the content type the reader reports changes *)
      right. right.
      assert (Hj : exists j, p = (7 + j)%nat /\ (j < length ct)%nat).
      { exists (p - 7)%nat. unfold header_len in Hp. fold ct in Hp. lia. }
      destruct Hj as (j & -> & Hj).
      assert (Hc : corrupt (file_bytes ct ms) (7 + j) v = file_bytes (corrupt ct j v) ms).
      { unfold file_bytes, magic, be16_bytes. unfold lenN. rewrite corrupt_length by exact Hj.
        unfold corrupt at 1. cbn [app firstn skipn Nat.add].
        rewrite firstn_app_le by lia.
        change (match ct ++ frames ms with [] => [] | _ :: l => skipn j l end) with (skipn (S j) (ct ++ frames ms)).
        rewrite skipn_app. replace (S j - length ct)%nat with 0%nat by lia.
        rewrite skipn_O. unfold corrupt. rewrite <- app_assoc. reflexivity. }
      rewrite Hc. unfold C16_Spec.read_blocks.
      rewrite !read_file_written; try assumption.
      + split; reflexivity.
      + unfold ct_ok, lenN in *. rewrite corrupt_length by exact Hj. exact Hct.
  Qed.
End Codec.

(* ------------------------------------------------------------------ refutations (concrete witnesses) *)

Lemma c16_body_corruption_alters_proof : C16_body_corruption_alters.
Proof.
  exists (N * N)%type, toy_dec, [65], [[1; 7]], 13%nat, 8.
  split; [|split; [|split]].
  - split; [discriminate|]. split; [vm_compute; discriminate|].
    constructor; [|constructor]. split; [discriminate | reflexivity].
  - vm_compute. split; lia.
  - intros m [<-|[]]. exists (1, 7). reflexivity.
  - exists (1, 8). vm_compute. split; [left; reflexivity|]. split; [|reflexivity].
    intros [H|[]]. discriminate.
Qed.

Lemma c16_header_length_corruption_alters_proof : C16_header_length_corruption_alters.
Proof.
  exists str, (fun m => Some m), [65], [[9; 0; 0; 0; 1; 7]], 6%nat, 6.
  split; [|split].
  - split; [discriminate|]. split; [vm_compute; discriminate|].
    constructor; [|constructor]. split; [discriminate | reflexivity].
  - lia.
  - exists [7]. vm_compute. split; [left; reflexivity|]. split; [|reflexivity].
    intros [H|[]]. discriminate.
Qed.

Lemma c16_no_altered_block_full_refuted : ~ C16_no_altered_block_full.
Proof.
  intros H.
  specialize (H (N * N)%type toy_dec [65] [[1; 7]] 13%nat 8).
  destruct H as [r Hr].
  - split; [discriminate|]. split; [vm_compute; discriminate|].
    constructor; [|constructor]. split; [discriminate | reflexivity].
  - vm_compute. lia.
  - vm_compute in Hr. discriminate.
Qed.

Lemma c16_truncation_refuted_before_fix_proof : C16_truncation_refuted_before_fix.
Proof.
  exists (N * N)%type, toy_dec, [65], [[1; 7]], 13%nat.
  split; [|split].
  - split; [discriminate|]. split; [vm_compute; discriminate|].
    constructor; [|constructor]. split; [discriminate | reflexivity].
  - vm_compute. lia.
  - exists (1, 0). vm_compute. split; [left; reflexivity|]. split; [|reflexivity].
    intros [H|[]]. discriminate.
Qed.


(* ---- written with the block writer => seq_ok (but for the 4 GiB bound) ---- *)

Lemma write_from_ok_nonempty (penc : blk -> option str) : forall bs st,
  w_hdr st = true -> snd (write_from penc st bs) = WOk ->
  Forall (fun b => exists m, penc b = Some m /\ m <> []) bs.
Proof.
  induction bs as [|b r IH]; intros st Hh H; [constructor|].
  cbn [write_from] in H. unfold writer_write in H. rewrite Hh in H.
  destruct (penc b) as [[|m0 m']|] eqn:Em; cbn [snd] in H; try discriminate.
  constructor; [exists (m0 :: m'); split; [exact Em | discriminate]|].
  apply (IH _ Hh H) || (eapply IH; [|exact H]; exact Hh).
Qed.

Lemma c16_written_is_seq_ok_proof : C16_written_is_seq_ok.
Proof.
  intros penc bs Hne H. destruct bs as [|b r]; [congruence|]. cbn [ctype_of].
  unfold write_all in H. cbn [write_from] in H. unfold writer_write in H. cbn [w_hdr w_out] in H.
  unfold write_header in H.
  destruct (N.ltb_spec 65535 (lenN (url_of b))) as [X|X]; cbn [orb] in H; [cbn in H; discriminate|].
  destruct (N.eqb_spec (lenN (url_of b)) 0) as [Y|Y]; [cbn in H; discriminate|].
  split; [intro E; apply Y; rewrite E; reflexivity|]. split; [exact X|].
  destruct (penc b) as [[|m0 m']|] eqn:Em; try (cbn in H; discriminate).
  constructor; [exists (m0 :: m'); split; [exact Em | discriminate]|].
  match type of H with snd (let '(st, r0) := write_from penc ?S r in _) = _ =>
    destruct (write_from penc S r) as [st' r'] eqn:EW; cbn [snd] in H; subst r';
    apply (write_from_ok_nonempty penc r S eq_refl); rewrite EW; reflexivity end.
Qed.

Lemma c16_unfixed_writer_accepts_empty_proof : C16_unfixed_writer_accepts_empty.
Proof.
  exists (fun _ => Some []), (mkW true [1]), (mkBlk 0 [] [] None 0 0 0 [] 0 0 None).
  vm_compute. repeat split; reflexivity.
Qed.
