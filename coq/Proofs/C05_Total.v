(* C05: "no source" cases of blocksThroughCursor; totality of the cursor bursts in well-formed states. *)
From Coq Require Import Sorted Permutation.
From BV Require Import Base.Prelude Model.Block Model.ForkDB Model.Forkable Model.ForkableLookups
  Model.Burst Model.Hub Spec.Consumer Spec.Universe Check.Fk_Check Check.Burst_Check
  Spec.C09_Spec Spec.C05_Spec Spec.C05_Through_Spec
  Proofs.C09_Store Proofs.C09_Segment Proofs.C09_Proofs Proofs.C05_Fast Proofs.C05_Forked Proofs.C05_Through.
Local Open Scope N_scope.

Lemma c05_through_no_source_proof : C05_through_no_source.
Proof.
  intros s start c. unfold blocks_through_cursor, blocks_from_cursor. split; [|split; [|split; [|split]]].
  - intros ->. reflexivity.
  - intros hd sg -> ->. destruct (has_lib (db s)); [destruct sg|]; reflexivity.
  - intros hd -> ->. destruct (has_lib (db s)); reflexivity.
  - intros hd s0 sg -> -> Hlt. apply N.ltb_lt in Hlt. rewrite Hlt. destruct (has_lib (db s)); reflexivity.
  - intros -> ->. split; reflexivity.
Qed.

Lemma from_cursor_total : forall s c hd, wf_state s -> last_sent s = Some hd -> served_or_not (blocks_from_cursor s c).
Proof.
  intros s c hd W Hh. pose proof W as [[Wst _] _].
  destruct (complete_segment_total (db s) (bref hd) Wst) as [sg [reach E]].
  destruct (has_lib (db s)) eqn:Hl; [|right; unfold blocks_from_cursor; rewrite Hl; reflexivity].
  destruct reach; [|right; unfold blocks_from_cursor; rewrite Hl, Hh, E; destruct sg; reflexivity].
  destruct (block_in (ri (cu_lib c)) sg) eqn:Hlib; [|right; eapply c05_foreign_lib_err_proof; eauto].
  destruct (c09_head_segment_proof s hd sg true W Hh E) as [_ [_ [_ [_ [Hst _]]]]].
  unfold blocks_from_cursor. rewrite Hl, Hh, E. cbn [negb].
  destruct sg as [|s0 sg']; [right; reflexivity|].
  destruct (rn (cu_lib c) <? snum s0); [right; reflexivity|].
  set (SG := s0 :: sg') in *.
  destruct (block_in (ri (cu_blk c)) SG) eqn:Hblk.
  - left. eexists. unfold fuel_of. cbn [from_cursor_loop]. rewrite Hblk, Hlib. reflexivity.
  - destruct (branch_total (db s) SG Wst (fuel_of (db s)) (ri (cu_blk c)) (need_fuel _ _)) as [[path [j B]]|K].
    + destruct (seg_stored_junction _ _ _ Hst (branch_to_junction _ _ _ _ _ B)) as [je Hj].
      left. eexists. exact (loop_forked s hd SG c (length (store (db s))) Wst Hst Hlib Hblk path j je B Hj).
    + right. apply (loop_broken s hd SG c (S (length (store (db s)))) Wst); [rewrite Hblk; reflexivity|exact K].
Qed.

Lemma through_cursor_total : forall s start c hd, wf_state s -> last_sent s = Some hd ->
  served_or_not (blocks_through_cursor s start c).
Proof.
  intros s start c hd W Hh. pose proof W as [[Wst _] _].
  pose proof (from_cursor_total s c hd W Hh) as Hfc.
  destruct (complete_segment_total (db s) (bref hd) Wst) as [sg [reach E]].
  destruct (complete_segment_total (db s) (cu_blk c) Wst) as [csg [creach Ec]].
  unfold blocks_through_cursor. rewrite Hh, E, Ec.
  destruct (has_lib (db s)); cbn [negb]; [|right; reflexivity].
  destruct reach; [|right; destruct sg; reflexivity].
  destruct sg as [|s0 sg']; [right; reflexivity|].
  destruct (start <? snum s0); [right; reflexivity|].
  destruct (block_in (ri (cu_blk c)) (s0 :: sg')); [left; eexists; reflexivity|].
  destruct creach; [|right; destruct csg; reflexivity].
  destruct csg as [|c0 csg']; [right; reflexivity|].
  destruct (start <? snum c0); [right; reflexivity|].
  destruct (through_branch (c0 :: csg') start c hd []) as [pre|]; [|right; reflexivity].
  destruct Hfc as [[evs ->] | ->]; [left; eexists; reflexivity|right; reflexivity].
Qed.

Lemma c05_total_proof : C05_total.
Proof.
  intros s start c W Hne. destruct (last_sent s) as [hd|] eqn:Hh; [|contradiction].
  split; [eapply from_cursor_total; eauto|]. split; [eapply through_cursor_total; eauto|].
  unfold hub_through_cursor. destruct (rn (cu_blk c) <? start); [|eapply through_cursor_total; eauto].
  pose proof (c09_from_num_proof s start W) as H. unfold from_num_spec in H.
  destruct (blocks_from_num s start) as [evs| | |]; [left; eexists; reflexivity|right; reflexivity|contradiction|contradiction].
Qed.
