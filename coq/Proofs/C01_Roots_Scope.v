(* Which generated cases meet every hypothesis of c01_moving_lib_roots_partial / c01_discovery_roots_partial
   (Properties/C01_Roots.v) and of c02_moving_lib_roots_partial / c02_discovery_roots_partial
   (Properties/C02_Roots.v): filters for the evidence counter "cases_meeting_theorem_hypotheses".
   The *_inline versions are written with names visible from the check imports (for driver/thm_*.json);
   the lemmas tie them to the readable ones and show that they contain the filters of
   Check/Fk_Moving_Scope.v. *)
From BV Require Import Base.Prelude Model.Block Model.ForkDB Model.Forkable Spec.Consumer Spec.Universe
  Spec.C01_Spec Spec.C01_More_Spec Spec.C01_Moving_Spec Spec.C01_Roots_Spec Spec.Roots_Fixed_Spec
  Check.Fk_Check Check.Fk_Props_Check Check.Fk_Moving_Scope
  Proofs.C01_Roots_Proofs Proofs.Roots_Fixed_Proofs.
Local Open Scope N_scope.

Definition c01_roots_thm_scope (k : fk_case) : bool :=
  match k_mode k with
  | LExcl r0 | LIncl r0 => filt_nu k && moving_scope2_b r0 (k_hist k)
  | LNone => c_hold (k_cfg k) && negb (c_incl (k_cfg k)) && filt_nu k && disc_scope2_b (k_hist k)
  end.

Definition c02_roots_thm_scope (k : fk_case) : bool :=
  match k_mode k with
  | LExcl r0 | LIncl r0 => filt_nu k && filt_irr k && moving_scope2_b r0 (k_hist k)
  | LNone => c_hold (k_cfg k) && negb (c_incl (k_cfg k)) && filt_nu k && filt_irr k && disc_scope2_b (k_hist k)
  end.

Definition c01_roots_thm_scope_inline : fk_case -> bool :=
  (fun k => match k_mode k with
            | LExcl r0 | LIncl r0 =>
                filt_nu k &&
                (BV.Spec.Universe.wf_b (k_hist k) && BV.Spec.Universe.lib_ok_b (LExcl r0) (k_hist k) && negb (ri r0 =? 0) &&
                 forallb (fun b => (if bparent b =? ri r0 then rn r0 <? bnum b else true) &&
                                   (if bid b =? ri r0 then bnum b =? rn r0 else true)) (k_hist k))
            | LNone =>
                c_hold (k_cfg k) && negb (c_incl (k_cfg k)) && filt_nu k &&
                (BV.Spec.Universe.wf_b (k_hist k) && BV.Spec.Universe.lib_ok_b LNone (k_hist k))
            end).

Definition c02_roots_thm_scope_inline : fk_case -> bool :=
  (fun k => match k_mode k with
            | LExcl r0 | LIncl r0 =>
                filt_nu k && filt_irr k &&
                (BV.Spec.Universe.wf_b (k_hist k) && BV.Spec.Universe.lib_ok_b (LExcl r0) (k_hist k) && negb (ri r0 =? 0) &&
                 forallb (fun b => (if bparent b =? ri r0 then rn r0 <? bnum b else true) &&
                                   (if bid b =? ri r0 then bnum b =? rn r0 else true)) (k_hist k))
            | LNone =>
                c_hold (k_cfg k) && negb (c_incl (k_cfg k)) && filt_nu k && filt_irr k &&
                (BV.Spec.Universe.wf_b (k_hist k) && BV.Spec.Universe.lib_ok_b LNone (k_hist k))
            end).

Lemma c01_roots_thm_scope_inline_eq k : c01_roots_thm_scope_inline k = c01_roots_thm_scope k.
Proof. reflexivity. Qed.

Lemma c02_roots_thm_scope_inline_eq k : c02_roots_thm_scope_inline k = c02_roots_thm_scope k.
Proof. reflexivity. Qed.

(* the new filters contain the old ones *)
Lemma c01_roots_thm_scope_sup k : c01_moving_thm_scope k = true -> c01_roots_thm_scope k = true.
Proof.
  unfold c01_moving_thm_scope, c01_roots_thm_scope. destruct (k_mode k) as [r0|r0|]; intros H;
    apply andb_true_iff in H as [H1 H2]; rewrite H1; cbn [andb];
    [apply moving_scope_sub | apply moving_scope_sub | apply disc_scope_sub]; exact H2.
Qed.

Lemma c02_roots_thm_scope_sup k : c02_thm_scope k = true -> c02_roots_thm_scope k = true.
Proof.
  unfold c02_thm_scope, c02_roots_thm_scope. destruct (k_mode k) as [r0|r0|]; intros H;
    apply andb_true_iff in H as [H1 H2]; rewrite H1; cbn [andb];
    [apply moving_scope_sub | apply moving_scope_sub | apply disc_scope_sub]; exact H2.
Qed.

(* for C02 the new filter is the property's own scope (c02_in_scope of Check/Fk_Props_Check.v) minus
   an incoherent configured LIB and minus discovery with includeInitialLIB *)
Lemma c02_roots_thm_scope_in k : c02_roots_thm_scope k = true -> c02_in_scope k = true.
Proof.
  unfold c02_roots_thm_scope, c02_in_scope, lib_established, moving_scope2_b, disc_scope2_b, lib_ok_b, mode_root.
  unfold filt_nu.
  destruct (k_mode k) as [r0|r0|]; intros H;
    repeat match goal with H : _ && _ = true |- _ => apply andb_true_iff in H; destruct H end;
    repeat (apply andb_true_iff; split); first [assumption | reflexivity].
Qed.

(* ---- the fixed-LIB theorems with roots (Properties/C01_Roots_Fixed.v, C02_Roots_Fixed.v, C03_Roots.v, C04_Roots.v) ---- *)

(* c01_thm_scope of Check/Fk_Props_Check.v with the scopes of Spec/Roots_Fixed_Spec.v *)
Definition c01_fixed_roots_thm_scope (k : fk_case) : bool :=
  filt_nu k &&
  match k_mode k with
  | LExcl r0 | LIncl r0 => c01_fixed_scope2_b r0 (k_hist k)
  | LNone => c_hold (k_cfg k) &&
             match k_hist k with
             | b :: _ => c01_disc_scope2_b (blib b) (c_first (k_cfg k)) (k_hist k)
             | [] => false
             end
  end.

(* fk_fixed_excl_scope (C02-C04) with c01_fixed_scope2_b *)
Definition fk_fixed_excl_roots_scope (k : fk_case) : bool :=
  match k_mode k, c_fail_at (k_cfg k) with
  | LExcl r0, None => negb (c_incl (k_cfg k)) && filt_nu k && c01_fixed_scope2_b r0 (k_hist k)
  | _, _ => false
  end.

Definition c01_fixed_roots_thm_scope_inline : fk_case -> bool :=
  (fun k => filt_nu k &&
            match k_mode k with
            | LExcl r0 | LIncl r0 =>
                BV.Spec.Universe.wf_b (k_hist k) && negb (ri r0 =? 0) &&
                forallb (fun b => (blib b =? rn r0) && (if bparent b =? ri r0 then rn r0 <? bnum b else true) &&
                                  (if bid b =? ri r0 then bnum b =? rn r0 else true)) (k_hist k)
            | LNone =>
                c_hold (k_cfg k) &&
                match k_hist k with
                | b0 :: _ => BV.Spec.Universe.wf_b (k_hist k) &&
                             forallb (fun b => (blib b =? blib b0) && (blib b0 <=? bnum b) &&
                                               (if bnum b =? c_first (k_cfg k) then bnum b =? blib b0 else true)) (k_hist k)
                | [] => false
                end
            end).

Definition fk_fixed_excl_roots_scope_inline : fk_case -> bool :=
  (fun k => match k_mode k, c_fail_at (k_cfg k) with
            | LExcl r0, None =>
                negb (c_incl (k_cfg k)) && filt_nu k &&
                (BV.Spec.Universe.wf_b (k_hist k) && negb (ri r0 =? 0) &&
                 forallb (fun b => (blib b =? rn r0) && (if bparent b =? ri r0 then rn r0 <? bnum b else true) &&
                                   (if bid b =? ri r0 then bnum b =? rn r0 else true)) (k_hist k))
            | _, _ => false
            end).

Lemma c01_fixed_roots_thm_scope_inline_eq k : c01_fixed_roots_thm_scope_inline k = c01_fixed_roots_thm_scope k.
Proof. reflexivity. Qed.

Lemma fk_fixed_excl_roots_scope_inline_eq k : fk_fixed_excl_roots_scope_inline k = fk_fixed_excl_roots_scope k.
Proof. reflexivity. Qed.

Lemma c01_fixed_roots_thm_scope_sup k : c01_thm_scope k = true -> c01_fixed_roots_thm_scope k = true.
Proof.
  unfold c01_thm_scope, c01_fixed_roots_thm_scope. intros H. apply andb_true_iff in H as [H1 H2]. rewrite H1. cbn [andb].
  destruct (k_mode k) as [r0|r0|]; [apply fixed_scope_sub; exact H2 | apply fixed_scope_sub; exact H2|].
  apply andb_true_iff in H2 as [H2 H3]. rewrite H2. cbn [andb].
  destruct (k_hist k) as [|b0 rest]; [discriminate|]. apply disc_fixed_scope_sub. exact H3.
Qed.

Lemma fk_fixed_excl_roots_scope_sup k : fk_fixed_excl_scope k = true -> fk_fixed_excl_roots_scope k = true.
Proof.
  unfold fk_fixed_excl_scope, fk_fixed_excl_roots_scope. destruct (k_mode k) as [r0|r0|]; try discriminate.
  destruct (c_fail_at (k_cfg k)); [discriminate|]. intros H. apply andb_true_iff in H as [H1 H2]. rewrite H1. cbn [andb].
  apply fixed_scope_sub. exact H2.
Qed.
