(* C04 in discovery mode: (1) model-free: the shape c04d_run implies that the cursor monitor c04_b accepts (the
   monitor reads the root from the first delivered event); (2) a failing handler delivers a prefix, which the
   monitor accepts as well; (3) the model's run has the shape (Proofs/Fk/DiscEvents.v) under the boolean scope. *)
From BV Require Import Base.Prelude Model.Block Model.ForkDB Model.Forkable Spec.Consumer Spec.Universe
  Spec.C01_Spec Spec.C01_Moving_Spec Spec.C01_Roots_Spec Spec.C04_Spec Spec.C04_Moving_Spec Spec.C04_Disc_Spec
  Proofs.Fk.LoopFacts Proofs.Fk.MovingLibLoops Proofs.Fk.MovingLibInv Proofs.Fk.FixedLibEvents Proofs.Fk.MovingLibEvents
  Proofs.Fk.MovingLibFin Proofs.Fk.MovingLibDisc Proofs.Fk.DiscEvents Proofs.Fk.FailPrefix Proofs.Fk.FailRun
  Proofs.C04_Proofs Proofs.C04_MovingProofs Proofs.C02_Proofs Proofs.C01_Roots_Proofs
  Check.Fk_Check Check.Fk_Props_Check Proofs.PreludeFacts Proofs.Fk.MovingLibFollow.
Local Open Scope N_scope.

(* ---------------------------------------------------------------- the monitor on a discovery-mode shape *)

Lemma root_ref_quiet r t : root_ref LNone (([], r) :: t) = root_ref LNone t.
Proof. reflexivity. Qed.

Lemma root_ref_first e rest r t : root_ref LNone ((e :: rest, r) :: t) = elib e.
Proof. reflexivity. Qed.

Lemma c04d_run_mon firr : forall h t seen, c04d_run firr seen h t ->
  forall root, root = root_ref LNone t ->
  exists m, cur_trace firr (ri root) root (mkCM [] root) h t = Some m.
Proof.
  induction h as [|b h IH]; intros t seen H root Hroot.
  - destruct t; cbn [cur_trace]; eauto.
  - destruct t as [|[evs r] t]; [destruct H|]. cbn [c04d_run] in H.
    destruct H as [(-> & -> & H)|(r0 & e & rest & -> & Hel & H)].
    + cbn [cur_trace cur_events length]. apply (IH t (b :: seen) H). rewrite Hroot. apply root_ref_quiet.
    + rewrite root_ref_first, Hel in Hroot. subst root.
      destruct (c04m_run_mon r0 firr (b :: h) _ seen r0 [] H) as [m Hm].
      replace (mlib firr r0 r0) with r0 in Hm by (destruct firr; reflexivity). eauto.
Qed.

Lemma c04d_run_accept firr h t : c04d_run firr [] h t -> c04_b firr LNone h t = true.
Proof.
  intros H. unfold c04_b. destruct (c04d_run_mon firr h t [] H _ eq_refl) as [m Hm]. rewrite Hm. reflexivity.
Qed.

(* a trace without events is accepted from any monitor state *)
Lemma cur_trace_quiet check lib root : forall h t m, (forall x, In x t -> fst x = []) -> cur_trace check lib root m h t = Some m.
Proof.
  induction h as [|b h IH]; intros t m H; [reflexivity|]. destruct t as [|[evs r] t]; [reflexivity|].
  pose proof (H (evs, r) (or_introl eq_refl)) as He. cbn [fst] in He. subst evs. cbn [cur_trace cur_events length]. apply IH.
  intros x Hx. apply H. right. exact Hx.
Qed.

(* ---------------------------------------------------------------- the model *)

Lemma c04_disc_nofail cfg h :
  c_fail_at cfg = None -> c_hold cfg = true -> c_incl cfg = false ->
  f_new (c_filter cfg) = true -> f_undo (c_filter cfg) = true -> disc_scope2_b h = true ->
  c04d_run (f_irr (c_filter cfg)) [] h (fk_run cfg (fs_init LNone) h).
Proof.
  intros Hnofail Hhold Hincl Hnew Hundo Hscope.
  exact (discovery_events h cfg Hnofail Hnew Hundo Hhold Hincl
           (bridge_id h (d2_wf h Hscope)) (bridge_uniq h (d2_wf h Hscope)) (bridge_up h (d2_wf h Hscope))
           (bridge2_decl_none h Hscope) h (fun b Hb => Hb)).
Qed.

Lemma c04_discovery_proved : c04_discovery_statement.
Proof.
  intros cfg h Hhold Hincl Hnew Hundo Hscope. unfold c04_statement.
  destruct (c_fail_at cfg) as [k|] eqn:Hf.
  - split; [|intros H; discriminate].
    pose proof (c04_disc_nofail (nofail cfg) h eq_refl Hhold Hincl Hnew Hundo Hscope) as HN.
    change (c_filter (nofail cfg)) with (c_filter cfg) in HN.
    destruct (disc_roots_nofail (nofail cfg) h eq_refl Hhold Hincl Hnew Hundo Hscope) as (_ & Hok & _).
    pose proof (c04d_run_accept _ h _ HN) as HA.
    set (tN := fk_run (nofail cfg) (fs_init LNone) h) in *. set (t := fk_run cfg (fs_init LNone) h).
    destruct (run_fail_events cfg k Hf h (fs_init LNone)) as [rest Hrest]; [cbn; lia | exact Hok|].
    fold tN t in Hrest.
    unfold c04_b in *.
    destruct (cur_trace (f_irr (c_filter cfg)) (ri (root_ref LNone tN)) (root_ref LNone tN) (mkCM [] (root_ref LNone tN)) h tN)
      as [mN|] eqn:EN; [|discriminate].
    destruct (run_fail_c04 cfg k Hf (f_irr (c_filter cfg)) (ri (root_ref LNone tN)) (root_ref LNone tN) h (fs_init LNone)
                (mkCM [] (root_ref LNone tN))) as [m' Hm'].
    + cbn. lia.
    + exact Hok.
    + exists mN. exact EN.
    + fold t in Hm'. destruct (all_events t) as [|e l] eqn:Et.
      * rewrite (cur_trace_quiet _ _ _ h t _ (all_events_nil t Et)). reflexivity.
      * assert (Hroot : root_ref LNone t = root_ref LNone tN).
        { unfold root_ref. rewrite Hrest, Et. reflexivity. }
        rewrite Hroot, Hm'. reflexivity.
  - pose proof (c04_disc_nofail cfg h Hf Hhold Hincl Hnew Hundo Hscope) as HN.
    split; [exact (c04d_run_accept _ h _ HN) | intros _; exact HN].
Qed.

(* ---------------------------------------------------------------- the observations of the check *)

(* an observation that corresponds to the model carries the model's trace *)
Lemma matches_trace cfg qh qi : forall h s os, model_matches cfg s h os qh qi = true ->
  map (fun o => (o_events o, o_result o)) os = fk_run cfg s h.
Proof.
  induction h as [|b h IH]; intros s os H; destruct os as [|o os]; cbn [model_matches] in H; try discriminate; [reflexivity|].
  cbn [fk_run map]. destruct (fk_step cfg s b) as [[s' evs] r].
  apply andb_true_iff in H as [H H6]. apply andb_true_iff in H as [H _].
  apply andb_true_iff in H as [H _]. apply andb_true_iff in H as [H _].
  apply andb_true_iff in H as [H1 H2].
  apply (list_eqb_eq _ event_eqb_iff) in H1. apply result_eqb_iff in H2. subst evs r. f_equal.
  destruct (o_result o); try (destruct os; [reflexivity | discriminate]).
  apply IH. exact H6.
Qed.

Lemma c04_discovery_observed_proved : c04_discovery_observed.
Proof.
  intros k Hsc Hcor. unfold c04_prop. apply orb_true_iff. right.
  unfold c04_disc_thm_scope in Hsc. destruct (k_mode k) eqn:Em; [discriminate | discriminate |].
  apply andb_true_iff in Hsc as [H Hscope]. apply andb_true_iff in H as [H Hnu].
  apply andb_true_iff in H as [Hhold Hincl]. apply negb_true_iff in Hincl.
  unfold filt_nu in Hnu. apply andb_true_iff in Hnu as [Hnew Hundo].
  unfold fk_corresponds in Hcor. rewrite Em in Hcor.
  unfold obs_trace. rewrite (matches_trace _ _ _ _ _ _ Hcor). unfold filt_irr.
  exact (proj1 (c04_discovery_proved (k_cfg k) (k_hist k) Hhold Hincl Hnew Hundo Hscope)).
Qed.

(* the filter written with the names visible from the check's imports (the "thm_scope" text) *)
Definition c04_disc_thm_scope_inline : fk_case -> bool :=
  (fun k => match k_mode k with
            | LNone => c_hold (k_cfg k) && negb (c_incl (k_cfg k)) && filt_nu k &&
                       (BV.Spec.Universe.wf_b (k_hist k) && BV.Spec.Universe.lib_ok_b LNone (k_hist k))
            | _ => false
            end).

Lemma c04_disc_thm_scope_inline_eq k : c04_disc_thm_scope_inline k = c04_disc_thm_scope k.
Proof. reflexivity. Qed.
