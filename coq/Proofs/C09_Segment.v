(* C09/C05: CompleteSegment - the fuelled walk `cs_loop` computes the parent-linked chain of stored
   entries below the start block (inductive `chain_to`), which is the unique list described by
   `segment_of`; under a well-formed store the fuel suffices and numbers strictly increase. *)
From Coq Require Import Sorted Permutation.
From BV Require Import Base.Prelude Model.Block Model.ForkDB Model.Forkable Model.Burst Spec.C09_Spec
  Proofs.C09_Store.
Local Open Scope N_scope.

(* the chain of stored entries ending at id `cur`, oldest first; `n` is the number attributed to cur *)
Inductive chain_to (d : forkdb) : N -> N -> list seg -> Prop :=
| ct_nil : forall cur n, find cur (store d) = None -> chain_to d cur n []
| ct_snoc : forall cur n e pre, find cur (store d) = Some e ->
    chain_to d (bparent (eb e)) (num_or0 d (bparent (eb e))) pre ->
    chain_to d cur n (pre ++ [mkSeg cur n e]).

Lemma seg_bottom_snoc : forall cur pre x, seg_bottom cur (pre ++ [x]) = seg_bottom (bparent (seg_blk x)) pre.
Proof. intros cur [|y pre] x; reflexivity. Qed.

Lemma cs_loop_spec : forall d fuel cur curnum acc reach res r,
  cs_loop fuel d cur curnum acc reach = Some (res, r) ->
  exists pre, res = pre ++ acc /\ chain_to d cur curnum pre /\
    (r = true <-> reach = true \/ In (ri (libref d)) (map sid pre ++ [seg_bottom cur pre])).
Proof.
  intros d fuel. induction fuel as [|f IH]; cbn; intros cur curnum acc reach res r H; [discriminate|].
  destruct (find cur (store d)) as [e|] eqn:E.
  - apply IH in H. destruct H as [pre [-> [Hc Hr]]].
    exists (pre ++ [mkSeg cur curnum e]). split; [rewrite <- app_assoc; reflexivity|].
    split; [constructor; assumption|].
    rewrite Hr. rewrite seg_bottom_snoc. cbn [seg_blk sent].
    rewrite orb_true_iff, N.eqb_eq, map_app. cbn [map sid].
    rewrite !in_app_iff. cbn [In]. intuition.
  - inversion H; subst. exists []. split; [reflexivity|]. split; [constructor; exact E|].
    cbn. rewrite orb_true_iff, N.eqb_eq. intuition.
Qed.

Lemma cs_loop_fuel : forall d, wf_store (store d) -> forall fuel cur curnum acc reach,
  (need d cur <= fuel)%nat -> cs_loop fuel d cur curnum acc reach <> None.
Proof.
  intros d W fuel. induction fuel as [|f IH]; intros cur curnum acc reach Hn.
  - pose proof (need_pos d cur). lia.
  - cbn. destruct (find cur (store d)) as [e|] eqn:E; [|discriminate].
    apply IH. eapply need_parent; eauto.
Qed.

(* ---------------------------------------------------------------- properties of chain_to *)

Lemma chain_to_top : forall d cur n pre x, chain_to d cur n (pre ++ [x]) ->
  exists e, find cur (store d) = Some e /\ x = mkSeg cur n e /\
            chain_to d (bparent (eb e)) (num_or0 d (bparent (eb e))) pre.
Proof.
  intros d cur n pre x H. remember (pre ++ [x]) as l eqn:Heq.
  destruct H as [cur n Hf|cur n e pre' Hf Hc].
  - destruct pre; discriminate.
  - apply app_inj_tail in Heq. destruct Heq as [-> <-]. exists e. auto.
Qed.

Lemma chain_to_stored : forall d cur n sg, chain_to d cur n sg ->
  forall x, In x sg -> find (sid x) (store d) = Some (sent x).
Proof.
  intros d cur n sg H. induction H as [|cur n e pre Hf Hc IH]; intros x Hx; [contradiction|].
  apply in_app_iff in Hx. destruct Hx as [Hx|[<-|[]]]; [auto|exact Hf].
Qed.

Lemma num_or0_stored : forall d id e, find id (store d) = Some e -> num_or0 d id = bnum (eb e).
Proof. intros d id e H. unfold num_or0, num_of. rewrite H. reflexivity. Qed.

Lemma chain_to_nums : forall d cur n sg, chain_to d cur n sg ->
  forall pre x, sg = pre ++ [x] -> sid x = cur /\ snum x = n /\ forall y, In y pre -> snum y = bnum (seg_blk y).
Proof.
  intros d cur n sg H. induction H as [|cur n e pre Hf Hc IH]; intros pre' x Heq.
  - destruct pre'; discriminate.
  - apply app_inj_tail in Heq. destruct Heq as [<- <-]. cbn. split; [reflexivity|]. split; [reflexivity|].
    intros y Hy.
    destruct pre as [|z pre0] using rev_ind; [contradiction|]. clear IHpre0.
    destruct (IH pre0 z eq_refl) as [Hs [Hn Hall]].
    apply in_app_iff in Hy. destruct Hy as [Hy|[<-|[]]]; [auto|].
    rewrite Hn. destruct (chain_to_top _ _ _ _ _ Hc) as [e' [Hf' [-> _]]]. cbn.
    apply num_or0_stored. exact Hf'.
Qed.

Lemma chain_to_linked : forall d cur n sg, chain_to d cur n sg -> Sorted seg_link sg.
Proof.
  intros d cur n sg H. induction H as [|cur n e pre Hf Hc IH]; [constructor|].
  apply Sorted_snoc; [exact IH|]. intros l0 y ->.
  destruct (chain_to_top _ _ _ _ _ Hc) as [e' [Hf' [-> _]]]. unfold seg_link. reflexivity.
Qed.

Lemma chain_to_maximal : forall d cur n sg, chain_to d cur n sg -> find (seg_bottom cur sg) (store d) = None.
Proof.
  intros d cur n sg H. induction H as [|cur n e pre Hf Hc IH]; [exact H|].
  rewrite seg_bottom_snoc. exact IH.
Qed.

Lemma chain_to_increasing : forall d cur n sg, wf_store (store d) -> chain_to d cur n sg -> Sorted seg_lt sg.
Proof.
  intros d cur n sg W H. induction H as [|cur n e pre Hf Hc IH]; [constructor|].
  apply Sorted_snoc; [exact IH|]. intros l0 y ->.
  destruct (chain_to_top _ _ _ _ _ Hc) as [e' [Hf' [-> _]]]. unfold seg_lt, seg_blk. cbn.
  apply (wfs_parent _ W e e'); [eapply find_In; eauto|eapply find_In; eauto|eapply find_key; eauto].
Qed.

Lemma chain_to_det : forall d cur n sg, chain_to d cur n sg -> forall sg', chain_to d cur n sg' -> sg' = sg.
Proof.
  intros d cur n sg H. induction H as [cur n Hf|cur n e pre Hf Hc IH]; intros sg' H'.
  - inversion H' as [|? ? e' pre' Hf' Hc' Heq]; subst; [reflexivity|]. rewrite Hf in Hf'. discriminate.
  - inversion H' as [? ? Hf'|? ? e' pre' Hf' Hc' Heq]; subst; [rewrite Hf in Hf'; discriminate|].
    rewrite Hf in Hf'. inversion Hf'; subst. rewrite (IH _ Hc'). reflexivity.
Qed.

(* ---------------------------------------------------------------- segment_of <-> chain_to *)

Lemma chain_to_segment_of : forall d start sg reach,
  chain_to d (ri start) (rn start) sg ->
  (reach = true <-> In (ri (libref d)) (map sid sg ++ [seg_bottom (ri start) sg])) ->
  segment_of d start sg reach.
Proof.
  intros d start sg reach H Hr. constructor.
  - eapply chain_to_stored; eauto.
  - eapply chain_to_linked; eauto.
  - eapply chain_to_nums; eauto.
  - eapply chain_to_maximal; eauto.
  - exact Hr.
Qed.

Lemma shape_chain_to : forall d sg cur n,
  (forall x, In x sg -> find (sid x) (store d) = Some (sent x)) ->
  Sorted seg_link sg ->
  (forall pre x, sg = pre ++ [x] -> sid x = cur /\ snum x = n /\ forall y, In y pre -> snum y = bnum (seg_blk y)) ->
  find (seg_bottom cur sg) (store d) = None ->
  chain_to d cur n sg.
Proof.
  intros d sg. induction sg as [|x pre IH] using rev_ind; intros cur n Hst Hl Htop Hmax.
  - constructor. exact Hmax.
  - destruct (Htop pre x eq_refl) as [Hs [Hn Hall]].
    assert (Hfx : find cur (store d) = Some (sent x)).
    { rewrite <- Hs. apply Hst. apply in_app_iff. right. left. reflexivity. }
    replace x with (mkSeg cur n (sent x)) by (destruct x; cbn in *; subst; reflexivity).
    constructor; [exact Hfx|].
    apply IH.
    + intros y Hy. apply Hst. apply in_app_iff. auto.
    + eapply Sorted_app_l; eauto.
    + intros pre2 y ->. split; [|split].
      * rewrite <- app_assoc in Hl. cbn in Hl. apply Sorted_snoc_inv in Hl. unfold seg_link in Hl. symmetry. exact Hl.
      * assert (Hy : In y (pre2 ++ [y])) by (apply in_app_iff; right; left; reflexivity).
        rewrite (Hall y Hy). symmetry. apply num_or0_stored.
        rewrite <- app_assoc in Hl. cbn in Hl. apply Sorted_snoc_inv in Hl. unfold seg_link in Hl.
        unfold seg_blk in Hl. rewrite Hl. apply Hst. apply in_app_iff. left. exact Hy.
      * intros z Hz. apply Hall. apply in_app_iff. auto.
    + rewrite seg_bottom_snoc in Hmax. exact Hmax.
Qed.

Lemma segment_of_chain_to : forall d start sg reach, segment_of d start sg reach ->
  chain_to d (ri start) (rn start) sg.
Proof. intros d start sg reach [H1 H2 H3 H4 _]. apply shape_chain_to; assumption. Qed.

Lemma complete_segment_segment_of : forall d start sg reach,
  complete_segment d start = Some (sg, reach) -> segment_of d start sg reach.
Proof.
  intros d start sg reach H. unfold complete_segment in H. apply cs_loop_spec in H.
  destruct H as [pre [-> [Hc Hr]]]. rewrite app_nil_r.
  apply chain_to_segment_of; [exact Hc|]. rewrite Hr. intuition discriminate.
Qed.

Lemma complete_segment_total : forall d start, wf_store (store d) ->
  exists sg reach, complete_segment d start = Some (sg, reach).
Proof.
  intros d start W. destruct (complete_segment d start) as [[sg reach]|] eqn:E; [eauto|].
  exfalso. revert E. apply cs_loop_fuel; [exact W|apply need_fuel].
Qed.

Lemma c09_segment_chain_proof : C09_segment_chain.
Proof.
  intros d start. split; [|split].
  - apply complete_segment_segment_of.
  - intros sg reach sg' reach' H H'.
    pose proof (chain_to_det _ _ _ _ (segment_of_chain_to _ _ _ _ H) _ (segment_of_chain_to _ _ _ _ H')) as ->.
    split; [reflexivity|].
    destruct H as [_ _ _ _ Hr]. destruct H' as [_ _ _ _ Hr'].
    destruct reach, reach'; try reflexivity.
    + apply (proj2 Hr'). apply (proj1 Hr). reflexivity.
    + symmetry. apply (proj2 Hr). apply (proj1 Hr'). reflexivity.
  - intros W. destruct (complete_segment_total d start W) as [sg [reach E]].
    exists sg, reach. split; [exact E|].
    eapply chain_to_increasing; [exact W|]. eapply segment_of_chain_to. apply complete_segment_segment_of. exact E.
Qed.

(* ---------------------------------------------------------------- the head's segment *)

Lemma Sorted_StronglySorted_lt : forall sg, Sorted seg_lt sg -> StronglySorted seg_lt sg.
Proof. apply Sorted_StronglySorted. intros a b c. unfold seg_lt. lia. Qed.

Lemma c09_head_segment_proof : C09_head_segment.
Proof.
  intros s hd sg reach W Hh E.
  pose proof (complete_segment_segment_of _ _ _ _ E) as S.
  pose proof (segment_of_chain_to _ _ _ _ S) as C.
  destruct W as [[Wst _] Whd].
  pose proof (chain_to_increasing _ _ _ _ Wst C) as Inc.
  destruct S as [Hst Hl Htop Hmax _].
  assert (Hstd : Forall seg_std sg).
  { rewrite Forall_forall. intros x Hx. split.
    - symmetry. apply (find_key _ _ _ (Hst x Hx)).
    - destruct sg as [|z sg0] using rev_ind; [contradiction|]. clear IHsg0.
      destruct (Htop sg0 z eq_refl) as [Hs [Hn Hall]].
      apply in_app_iff in Hx. destruct Hx as [Hx|[<-|[]]]; [auto|].
      rewrite Hn. cbn. symmetry. apply (Whd hd (sent z) Hh).
      cbn in Hs. rewrite <- Hs. apply Hst. apply in_app_iff. right. left. reflexivity. }
  pose proof (Sorted_StronglySorted_lt _ Inc) as SInc.
  split; [exact Hstd|]. split; [exact Hl|]. split; [exact SInc|]. split; [|split; [exact Hst|]].
  - clear - Hstd SInc Hst. induction sg as [|x sg IH]; cbn; [constructor|].
    inversion Hstd as [|? ? Hx Hstd']; subst. inversion SInc as [|? ? HS' Hall]; subst.
    constructor; [|apply IH; auto; intros y Hy; apply Hst; right; exact Hy].
    intros Hin. rewrite in_map_iff in Hin. destruct Hin as [y [Hy Hyin]].
    rewrite Forall_forall in Hall. specialize (Hall y Hyin). unfold seg_lt, seg_blk in Hall.
    pose proof (Hst x (or_introl eq_refl)) as F1. pose proof (Hst y (or_intror Hyin)) as F2.
    rewrite Hy in F2. rewrite F1 in F2. inversion F2 as [F3]. rewrite F3 in Hall. lia.
  - intros pre x ->. destruct (Htop pre x eq_refl) as [Hs [Hn _]]. cbn in Hs, Hn. auto.
Qed.
