(* C01, fixed-LIB class with an exclusive or inclusive starting LIB and every handler oracle:
   from the boolean scope to the hypotheses of Proofs/Fk/FixedLibIncl.v, then the oracle transfer. *)
From BV Require Import Base.Prelude Model.Block Model.ForkDB Model.Forkable Spec.Consumer Spec.Universe
  Spec.C01_Spec Spec.C01_More_Spec Proofs.Fk.LoopFactsFail Proofs.Fk.FixedLibIncl Proofs.C01_Proofs Proofs.C01_FailProofs.
Local Open Scope N_scope.

(* the never-failing handler, both starting modes *)
Lemma c01_fixed_lib_modes_nofail cfg m r0 h :
  start_mode m r0 -> c_fail_at cfg = None ->
  f_new (c_filter cfg) = true -> f_undo (c_filter cfg) = true ->
  c01_fixed_scope_b r0 h = true ->
  c01_statement cfg m h /\
  Forall (fun x => snd x = ROk) (fk_run cfg (fs_init m) h) /\
  length (fk_run cfg (fs_init m) h) = length h.
Proof.
  intros Hm Hnofail Hnew Hundo Hscope.
  destruct (scope_parts r0 h Hscope) as (_ & Hr0 & _).
  pose proof (fixed_lib_run_gen h r0 cfg Hnofail Hnew Hundo
                (bridge_id r0 h Hscope) (bridge_uniq r0 h Hscope) (bridge_up r0 h Hscope) Hr0
                (fun y Hy => proj2 (proj2 (bridge_fixed r0 h Hscope y Hy)))
                (fun x Hx => proj1 (proj2 (bridge_fixed r0 h Hscope x Hx)))
                (fun b Hb => proj1 (bridge_fixed r0 h Hscope b Hb))
                m h Hm (fun b Hb => Hb)) as (Hlen & Hok & Hd & Hr & He).
  unfold c01_statement. repeat split; assumption.
Qed.

Lemma c01_fixed_lib_incl_proved : c01_fixed_lib_incl_statement.
Proof.
  intros cfg m r0 h Hm Hnew Hundo Hscope.
  destruct (c01_fixed_lib_modes_nofail (nofail cfg) m r0 h Hm eq_refl Hnew Hundo Hscope) as (Hst & Hok & Hlen).
  destruct (fk_run_oracle_proved cfg m h) as [Ho _].
  split; [apply c01_failures_transfer_proved; exact Hst|]. split; [exact Ho|].
  split; [eapply results_of_oracle_run; eassumption|].
  intros Hnone. rewrite (nofail_id cfg Hnone) in Hlen. exact Hlen.
Qed.
